/-
  C13 — model of the filter designs (code shaped).  Core Lean only; executable at `Float`.

  Transcribed from audiolazy/lazy_filters.py
      comb.{fb, tau, ff}
      resonator.{poles_exp, freq_poles_exp, z_exp, freq_z_exp}
      lowpass/highpass.{pole, z, pole_exp, z_exp}
  and audiolazy/lazy_auditory.py
      gammatone.{sampled, slaney, klapuri}, erb.{gm90, mg83}, gammatone_erb_constants
  for constant (number) parameters.  Every definition is generic over `[TrigField α]`
  (+ `ZeroTest α` for Python's truth test `if not x` / `Poly`'s "a zero coefficient is not stored"),
  so the driver runs it at `Float` against the implementation and the theorems of
  `ALV/Props/C13.lean` are about the very same terms at `ℝ`.

  A designed filter is observed as the implementation shows it: `filt.numerator` and
  `filt.denominator`, the dense coefficient lists (index = delay k of `z ** -k`, powers that are
  not stored read as zero, nothing after the highest stored power).

  How the `ZFilter` expression of each strategy turns into coefficients (all through
  `ZFilter.__add__/__mul__/__truediv__/__neg__` and `Poly.__mul__/__add__`):
      number * z ** -k          ->  {k: number * 1}
      1 - F                     ->  ZFilter([1]) + (-F)       (coefficient-wise negation)
      number / F   (F = D(z))   ->  ZFilter([number]) / F  =  ([number * 1], D)
      F / number                ->  F * (1 / number)          (numerator coefficients * (1/number))
  Multiplications by the stored integer 1 are exact at `Float` and are not written out.
-/
import ALV.Common.TrigField
namespace ALV.C13
open ALV

/-- Python's truth test on a number (`if not denR`), which is also `Poly`'s storage rule
    (`value != 0`). -/
class ZeroTest (α : Type) where
  isZero : α → Bool

instance : ZeroTest Float := ⟨fun x => x == 0.0⟩

/-- what the harness reads from a designed filter -/
structure Coefs (α : Type) where
  num : List α
  den : List α

section generic
variable {α : Type} [TrigField α] [ZeroTest α]
open TrigField ZeroTest

def c0 : α := ofInt 0
def c1 : α := ofInt 1
def c2 : α := ofInt 2
/-- the literal `.5` -/
def half : α := ofRat 1 2
/-- `x ** 2` -/
def sq (x : α) : α := pow x (ofInt 2)

/-- `list(poly.values())`: a zero coefficient is not stored, so the dense list ends at the highest
    non-zero coefficient (`[]` for the zero polynomial). -/
def trim : List α → List α
  | [] => []
  | c :: cs =>
    match trim cs with
    | [] => if isZero c then [] else [c]
    | r => c :: r

/-- numerator / denominator as observed -/
def mk (num den : List α) : Coefs α := ⟨trim num, trim den⟩

/-! ### lowpass / highpass (lazy_filters.py 1370-1490) -/

/-- `lowpass.pole`:  x = 2 - cos(cutoff); R = x - sqrt(x ** 2 - 1); (1 - R) / (1 - R * z ** -1) -/
def lowpassPole (cutoff : α) : Coefs α :=
  let x := c2 - cos cutoff
  let R := x - sqrt (sq x - c1)
  mk [c1 - R] [c1, -R]

/-- `highpass.pole`:  x = 2 + cos(cutoff); same R; (1 - R) / (1 + R * z ** -1) -/
def highpassPole (cutoff : α) : Coefs α :=
  let x := c2 + cos cutoff
  let R := x - sqrt (sq x - c1)
  mk [c1 - R] [c1, R]

/-- `denR = cos(cutoff); if not denR: denR = 1` -/
def denR (cutoff : α) : α :=
  let d := cos cutoff
  if isZero d then c1 else d

/-- `lowpass.z`:  R = (sin(cutoff) - 1) / denR; gain = (1 + R) / 2;
    gain * (1 + z ** -1) / (1 + R * z ** -1) -/
def lowpassZ (cutoff : α) : Coefs α :=
  let numR := sin cutoff - c1
  let R := numR / denR cutoff
  let gain := (c1 + R) / c2
  mk [gain, gain] [c1, R]

/-- `highpass.z`:  R = (1 - sin(cutoff)) / denR; gain = (1 + R) / 2;
    gain * (1 - z ** -1) / (1 - R * z ** -1) -/
def highpassZ (cutoff : α) : Coefs α :=
  let numR := c1 - sin cutoff
  let R := numR / denR cutoff
  let gain := (c1 + R) / c2
  mk [gain, -gain] [c1, -R]

/-- `lowpass.pole_exp`:  R = exp(-cutoff); (1 - R) / (1 - R * z ** -1) -/
def lowpassPoleExp (cutoff : α) : Coefs α :=
  let R := exp (-cutoff)
  mk [c1 - R] [c1, -R]

/-- `highpass.pole_exp`:  R = exp(cutoff - pi); (1 - R) / (1 + R * z ** -1) -/
def highpassPoleExp (cutoff : α) : Coefs α :=
  let R := exp (cutoff - pi)
  mk [c1 - R] [c1, R]

/-- `lowpass.z_exp`:  R = exp(cutoff - pi); G = (R + 1) / 2; G * (1 + z ** -1) / (1 + R * z ** -1) -/
def lowpassZExp (cutoff : α) : Coefs α :=
  let R := exp (cutoff - pi)
  let G := (R + c1) / c2
  mk [G, G] [c1, R]

/-- `highpass.z_exp`:  R = exp(-cutoff); G = (R + 1) / 2; G * (1 - z ** -1) / (1 - R * z ** -1) -/
def highpassZExp (cutoff : α) : Coefs α :=
  let R := exp (-cutoff)
  let G := (R + c1) / c2
  mk [G, -G] [c1, -R]

/-- the strategy names of the `lowpass` / `highpass` StrategyDicts -/
inductive Strategy where
  | pole | z | poleExp | zExp
deriving DecidableEq, Repr

/-- `lowpass[strategy](cutoff)` -/
def lowpass : Strategy → α → Coefs α
  | .pole => lowpassPole
  | .z => lowpassZ
  | .poleExp => lowpassPoleExp
  | .zExp => lowpassZExp

/-- `highpass[strategy](cutoff)` -/
def highpass : Strategy → α → Coefs α
  | .pole => highpassPole
  | .z => highpassZ
  | .poleExp => highpassPoleExp
  | .zExp => highpassZExp

/-! ### resonators (lazy_filters.py 1179-1310) -/

/-- `R = exp(-bandwidth * .5)` -/
def resR (bandwidth : α) : α := exp (-bandwidth * half)

/-- `1 - 2 * R * cost * z ** -1 + R ** 2 * z ** -2` -/
def resDen (R cost : α) : List α := [c1, -(c2 * R * cost), sq R]

/-- `resonator.poles_exp`:  cost = cos(freq) * (2 * R) / (1 + R ** 2);
    gain = (1 - R ** 2) * sqrt(1 - cost ** 2);  gain / denominator -/
def resonatorPolesExp (freq bandwidth : α) : Coefs α :=
  let R := resR bandwidth
  let cost := cos freq * (c2 * R) / (c1 + sq R)
  let gain := (c1 - sq R) * sqrt (c1 - sq cost)
  mk [gain] (resDen R cost)

/-- `resonator.freq_poles_exp`:  gain = (1 - R ** 2) * sin(freq); denominator with cos(freq) -/
def resonatorFreqPolesExp (freq bandwidth : α) : Coefs α :=
  let R := resR bandwidth
  let gain := (c1 - sq R) * sin freq
  mk [gain] (resDen R (cos freq))

/-- `resonator.z_exp`:  cost = cos(freq) * (1 + R ** 2) / (2 * R); gain = (1 - R ** 2) * .5;
    gain * (1 - z ** -2) / denominator -/
def resonatorZExp (freq bandwidth : α) : Coefs α :=
  let R := resR bandwidth
  let cost := cos freq * (c1 + sq R) / (c2 * R)
  let gain := (c1 - sq R) * half
  mk [gain, c0, -gain] (resDen R cost)

/-- `resonator.freq_z_exp`:  gain = (1 - R ** 2) * .5; denominator with cos(freq) -/
def resonatorFreqZExp (freq bandwidth : α) : Coefs α :=
  let R := resR bandwidth
  let gain := (c1 - sq R) * half
  mk [gain, c0, -gain] (resDen R (cos freq))

/-- the strategy names of the `resonator` StrategyDict -/
inductive ResStrategy where
  | polesExp | freqPolesExp | zExp | freqZExp
deriving DecidableEq, Repr

/-- `resonator[strategy](freq, bandwidth)` -/
def resonator : ResStrategy → α → α → Coefs α
  | .polesExp => resonatorPolesExp
  | .freqPolesExp => resonatorFreqPolesExp
  | .zExp => resonatorZExp
  | .freqZExp => resonatorFreqZExp

/-! ### comb filters (lazy_filters.py 1090-1173) -/

/-- `1 + v * z ** -delay` as a dense list (`delay = 0`: the two constants are added) -/
def onePlusDelayed (delay : Nat) (v : α) : List α :=
  match delay with
  | 0 => [c1 + v]
  | d + 1 => c1 :: (List.replicate d c0 ++ [v])

/-- `comb.fb`:  1 / (1 - alpha * z ** -delay) -/
def combFb (delay : Nat) (alpha : α) : Coefs α :=
  mk [c1] (onePlusDelayed delay (-alpha))

/-- `alpha = e ** (-delay / tau)` -/
def tauAlpha (delay : Nat) (tau : α) : α := pow (exp c1) (-(ofNat delay) / tau)

/-- `comb.tau`:  alpha = e ** (-delay / tau); 1 / (1 - alpha * z ** -delay) -/
def combTau (delay : Nat) (tau : α) : Coefs α :=
  combFb delay (tauAlpha delay tau)

/-- `comb.ff`:  1 + alpha * z ** -delay -/
def combFf (delay : Nat) (alpha : α) : Coefs α :=
  mk (onePlusDelayed delay alpha) [c1]

/-! ### `abs(filt.freq_response(freq))` and the normalisation `filt / abs(...)`

    z_ = exp(-1j * freq); num = numpoly(z_); den = denpoly(z_); abs(num / den)
    Complex numbers are pairs (re, im).  `Poly.__call__` evaluates by a Horner scheme (ALV.C12
    models its exact shape and proves it equal to the plain sum; here the plain Horner form). -/

def cxMul (x y : α × α) : α × α := (x.1 * y.1 - x.2 * y.2, x.1 * y.2 + x.2 * y.1)

def cxDiv (x y : α × α) : α × α :=
  let n := y.1 * y.1 + y.2 * y.2
  ((x.1 * y.1 + x.2 * y.2) / n, (x.2 * y.1 - x.1 * y.2) / n)

def cxAbs (x : α × α) : α := sqrt (x.1 * x.1 + x.2 * x.2)

/-- `poly(w)` for real coefficients `c` (dense) at the complex point `w` -/
def polyAt (w : α × α) : List α → α × α
  | [] => (c0, c0)
  | c :: cs =>
    let r := cxMul w (polyAt w cs)
    (c + r.1, r.2)

/-- `exp(-1j * freq)` -/
def unitPoint (freq : α) : α × α := (cos freq, -sin freq)

/-- `abs(filt.freq_response(freq))` -/
def gainAt (s : Coefs α) (freq : α) : α :=
  let w := unitPoint freq
  cxAbs (cxDiv (polyAt w s.num) (polyAt w s.den))

/-- `filt / abs(filt.freq_response(freq))`, i.e. `filt * (1 / gain)` -/
def normalise (s : Coefs α) (freq : α) : Coefs α :=
  let inv := c1 / gainAt s freq
  mk (s.num.map (· * inv)) s.den

/-! ### gammatone (lazy_auditory.py 151-218) -/

/-- `1 - 2 * A * cos(freq) * z ** -1 + A ** 2 * z ** -2` -/
def gtDen (A freq : α) : List α := [c1, -(c2 * A * cos freq), sq A]

/-- `gammatone.slaney`: four sections `(1 - A * c * z ** -1) / denominator`, each divided by its own
    gain at `freq`;  c = cosw + s1 * (sqrt(2) + s2) * sinw  for s1, s2 in [1., -1.] -/
def gammatoneSlaney (freq bandwidth : α) : List (Coefs α) :=
  let A := exp (-bandwidth)
  let cosw := cos freq
  let sinw := sin freq
  let sig : List α := [c1, -c1]
  let coeff := sig.flatMap fun s1 => sig.map fun s2 => cosw + s1 * (sqrt c2 + s2) * sinw
  let den := gtDen A freq
  coeff.map fun c => normalise (mk [c1, -(A * c)] den) freq

/-- `gammatone.klapuri`: `[resonator.z_exp, resonator.poles_exp] * 2`, each with `(freq, bandwidth * 2)` -/
def gammatoneKlapuri (freq bandwidth : α) : List (Coefs α) :=
  let bw2 := bandwidth * c2
  [resonatorZExp freq bw2, resonatorPolesExp freq bw2, resonatorZExp freq bw2, resonatorPolesExp freq bw2]

/-- `p + q` on dense lists -/
def addL : List α → List α → List α
  | [], q => q
  | p, [] => p
  | x :: p, y :: q => (x + y) :: addL p q

/-- `p * q` on dense lists (`Poly.__mul__`) -/
def mulL : List α → List α → List α
  | [], _ => []
  | c :: p, q => addL (q.map (c * ·)) (c0 :: mulL p q)

/-- coefficient-wise `k * c_k`: the operator `-z d/dz` on a polynomial in `z ** -1`
    (`Poly.diff` in the variable z followed by the multiplication with `mul_after = -z`) -/
def weightFrom (i : Nat) : List α → List α
  | [] => []
  | c :: cs => (ofNat i * c) :: weightFrom (i + 1) cs

/-- one step of `ZFilter.diff(mul_after=-z)`:
    `num <- -z * (num.diff() * den - order * num * den.diff())`
    which, in the coefficients of `z ** -k`, is `W(num) * den - order * num * W(den)`, `W = weightFrom 0` -/
def diffStep (den : List α) (num : List α) (order : Nat) : List α :=
  addL (mulL (weightFrom 0 num) den) ((mulL (num.map (ofNat order * ·)) (weightFrom 0 den)).map (- ·))

/-- `(numerator / denominator).diff(n=eta-1, mul_after=-z).numpoly` -/
def diffNum (num den : List α) (n : Nat) : List α :=
  (List.range n).foldl (fun acc i => diffStep den acc (i + 1)) num

/-- `gammatone.sampled`: f0 = ZFilter(filt.numpoly) / denominator, fn = 1 / denominator, both divided
    by their own gain at `freq`; `CascadeFilter([f0] + [fn] * (eta - 1))`   (`eta >= 1`) -/
def gammatoneSampled (freq bandwidth phase : α) (eta : Nat) : List (Coefs α) :=
  let A := exp (-bandwidth)
  let numerator : List α := [cos phase, -(A * cos (freq - phase))]
  let den := gtDen A freq
  let f0 := normalise (mk (diffNum numerator den (eta - 1)) den) freq
  let fn := normalise (mk [c1] den) freq
  f0 :: List.replicate (eta - 1) fn

/-! ### erb, gammatone_erb_constants (lazy_auditory.py 55-125) -/

/-- `erb.gm90(freq, Hz)`:  fHz = freq / Hz; 24.7 * (4.37e-3 * fHz + 1.) * Hz -/
def erbGm90 (freq Hz : α) : α :=
  let fHz := freq / Hz
  ofRat 247 10 * (ofRat 437 100000 * fHz + c1) * Hz

/-- `erb.mg83(freq, Hz)`:  (6.23e-6 * fHz ** 2 + 93.39e-3 * fHz + 28.52) * Hz -/
def erbMg83 (freq Hz : α) : α :=
  let fHz := freq / Hz
  (ofRat 623 100000000 * sq fHz + ofRat 9339 100000 * fHz + ofRat 2852 100) * Hz

def factorial : Nat → Nat
  | 0 => 1
  | n + 1 => (n + 1) * factorial n

/-- `gammatone_erb_constants(n)`:
    (factorial(n-1) ** 2 / (pi * factorial(2n-2) * 2 ** -(2n-2)),  2 * (2 ** (1. / n) - 1) ** .5) -/
def gammatoneErbConstants (n : Nat) : α × α :=
  let tnt := 2 * n - 2
  (ofNat (factorial (n - 1) ^ 2) / (pi * ofNat (factorial tnt) * (c1 / ofNat (2 ^ tnt))),
   c2 * pow (pow c2 (c1 / ofNat n) - c1) half)

end generic
end ALV.C13
