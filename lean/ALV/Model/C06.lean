/-
  C06 — model of `LinearFilter.__call__` when coefficients are `Stream`s (time-varying filter),
  of the variable-gain path (`a0` a Stream) and of the `Poly` / `ZFilter` arithmetic on such
  coefficients (code shaped).  Mathlib-free; executable; generic in the number type.

  Python source modelled

  lazy_filters.py, `LinearFilter.__call__`:
      if any(key < 0 …): raise ValueError("Non-causal filter")
      if isinstance(self.denpoly[0], Stream):            # variable output gain
        den = self.denpoly ; inv_gain = 1 / den[0]
        den[0] = 0 ; den *= inv_gain.copy() ; den[0] = 1
        return ZFilter(self.numpoly * inv_gain, den)(seq, memory=memory, zero=zero)
      if self.denpoly[0] == 0: raise ZeroDivisionError
      …
      for delay, coeff in iteritems(self.numdict):
        if isinstance(coeff, Iterable): num_iterables.append(delay)
                                        data_sum.append("next(b{idx}) * d{idx}")
        elif coeff == 1 … (as in C04)
      for delay, coeff in iteritems(self.dendict):
        if isinstance(coeff, Iterable): den_iterables.append(delay)
                                        data_sum.append("-next(a{idx}) * m{idx}")
        elif delay == 0: gain = coeff
        elif … (as in C04)
      def gen(seq, memory, zero, b{i}…, a{j}…):
        m1 , … = memory ; d1 = … = zero
        for d0 in seq:
          m0 = <expr> ; yield m0 ; m{k} = m{k-1} … ; d{k} = d{k-1} …
      arguments = [iter(seq), memory, zero] + [iter(self.numpoly[idx]) …] + [iter(self.denpoly[idx]) …]

  lazy_stream.py: `Stream` operators (`StreamMeta.__binary__/__rbinary__/__unary__`: element by
  element, the result ends with the shortest operand, a non-iterable operand is broadcast);
  `thub(data, n)` / `StreamTeeHub` (n tee copies, one handed out per `iter()`).

  lazy_poly.py: `Poly.__add__/__neg__/__mul__` are the C07 model `ALV.C07.add/neg/mul`
  instantiated at the coefficient type `Coef α` below (a `Stream` coefficient is never "equal to
  zero", so the compaction never drops it).

  Conventions
  * a coefficient is `Coef α = const c | strm s` with `s : List α` the items the Stream will
    deliver (an endless / periodic Stream is represented by a long enough prefix);
  * a generator whose body meets `StopIteration` (a coefficient stream ended) ENDS — the
    behaviour the code was written for (Python < 3.7).  On CPython ≥ 3.7 PEP 479 turns this into
    `RuntimeError` (defect D13); the outputs produced before are the same.
  * the loop state keeps one iterator (remaining items) per coefficient argument `b{k}` / `a{k}`,
    so the number of `next` calls per output is part of the model (`reads_once`).
-/
import ALV.Model.C04
import ALV.Model.C07
namespace ALV.C06
open ALV.C04
variable {α : Type}

/-! ## 1. Coefficients: constants and Streams -/

/-- a filter coefficient: a number, or a `Stream` given by the items it delivers -/
inductive Coef (α : Type) where
  | const (c : α)
  | strm (s : List α)
  deriving DecidableEq, Repr

namespace Coef

/-- `isinstance(coeff, Iterable)` -/
def isStream : Coef α → Bool
  | const _ => false
  | strm _ => true

/-- the items `iter(coeff)` will deliver (nothing is ever asked from a constant) -/
def items : Coef α → List α
  | const _ => []
  | strm s => s

/-- the value used for output sample `n`: the constant, or the stream's n-th item;
    `none` = the stream has ended -/
def get? : Coef α → Nat → Option α
  | const c, _ => some c
  | strm s, n => s[n]?

/-- `StreamMeta.__binary__` / `__rbinary__`: both Streams ⇒ `map(op, a, b)` (shortest wins);
    one number ⇒ broadcast, keeping the operand order; two numbers ⇒ the number -/
def lift2 (f : α → α → α) : Coef α → Coef α → Coef α
  | const a, const b => const (f a b)
  | const a, strm t => strm (t.map (fun x => f a x))
  | strm s, const b => strm (s.map (fun x => f x b))
  | strm s, strm t => strm (List.zipWith f s t)

/-- `StreamMeta.__unary__` -/
def lift1 (f : α → α) : Coef α → Coef α
  | const a => const (f a)
  | strm s => strm (s.map f)

instance [OfNat α 0] : OfNat (Coef α) 0 := ⟨const 0⟩
instance [OfNat α 1] : OfNat (Coef α) 1 := ⟨const 1⟩
instance [Add α] : Add (Coef α) := ⟨lift2 (· + ·)⟩
instance [Mul α] : Mul (Coef α) := ⟨lift2 (· * ·)⟩
instance [Sub α] : Sub (Coef α) := ⟨lift2 (· - ·)⟩
instance [Div α] : Div (Coef α) := ⟨lift2 (· / ·)⟩
instance [Neg α] : Neg (Coef α) := ⟨lift1 (- ·)⟩

/-- `Stream.copy()` / one copy handed out by a `StreamTeeHub`: an independent iterator over the
    same items (`itertools.tee`) -/
def copy (c : Coef α) : Coef α := c

end Coef

/-- the values of all coefficients for output sample `n`; `none` as soon as one stream has ended -/
def row? : List (Coef α) → Nat → Option (List α)
  | [], _ => some []
  | c :: cs, n =>
    match c.get? n, row? cs n with
    | some v, some vs => some (v :: vs)
    | _, _ => none

/-! ## 2. The generated time-varying loop: IR, compile, eval -/

/-- one summand of `data_sum` -/
inductive TAtom (α : Type) where
  | lti (a : Atom α)          -- a constant coefficient: exactly the C04 summand
  | nextB (k : Nat)           -- "next(b{k}) * d{k}"
  | nextA (k : Nat)           -- "-next(a{k}) * m{k}"   (Python: (-next(a{k})) * m{k})

/-- the generated generator function -/
inductive TIR (α : Type) where
  /-- `for unused in seq: yield {zero}` -/
  | constLoop (z : α)
  /-- `def gen(seq, memory, zero, b{i}…, a{j}…)` with the C04 loop body -/
  | loop (nm nd : Nat) (sum : List (TAtom α)) (gain : Gain α) (shifts : List (Var × Var))
         (bargs aargs : List Nat)

section compile
variable [Neg α] [OfNat α 0] [OfNat α 1] [DecidableEq α]

/-- numerator part of `data_sum`; `k` = delay of the head coefficient -/
def numAtomsTV : Nat → List (Coef α) → List (TAtom α)
  | _, [] => []
  | k, .strm _ :: cs => TAtom.nextB k :: numAtomsTV (k + 1) cs
  | k, .const c :: cs => (numAtoms k [c]).map TAtom.lti ++ numAtomsTV (k + 1) cs

/-- denominator part of `data_sum` (delays ≥ 1) -/
def denAtomsTV : Nat → List (Coef α) → List (TAtom α)
  | _, [] => []
  | k, .strm _ :: cs => TAtom.nextA k :: denAtomsTV (k + 1) cs
  | k, .const c :: cs => (denAtoms k [c]).map TAtom.lti ++ denAtomsTV (k + 1) cs

/-- `num_iterables` / `den_iterables`: the delays whose coefficient is a Stream -/
def streamIdx : Nat → List (Coef α) → List Nat
  | _, [] => []
  | k, c :: cs => (if c.isStream then [k] else []) ++ streamIdx (k + 1) cs

/-- the source built by `__call__` for dense coefficient lists; `a = a0 :: as` with `a0` a
    constant (the Stream-gain case is rewritten before, see `gainPath`) -/
def compileTV (b a : List (Coef α)) (zero : α) : TIR α :=
  let sum := numAtomsTV 0 b ++ denAtomsTV 1 a.tail
  if sum.isEmpty then .constLoop zero
  else
    let gain : α := match a.head? with
      | some (.const g) => g
      | _ => 1
    let g := if gain = -1 then Gain.negOne else if gain ≠ 1 then Gain.div gain else Gain.one
    .loop (a.length - 1) (b.length - 1) sum g (mShifts (a.length - 1) ++ dShifts (b.length - 1))
      (streamIdx 0 b) (streamIdx 1 a.tail)

end compile

/-- the coefficient iterators handed to the generator: remaining items of `b{k}` / `a{k}`,
    indexed by the delay `k` (`a` starts at delay 1; constants own an unused empty slot) -/
structure Its (α : Type) where
  b : List (List α)
  a : List (List α)

/-- `iter(self.numpoly[idx])` / `iter(self.denpoly[idx])` -/
def itsOf (b as : List (Coef α)) : Its α := ⟨b.map Coef.items, as.map Coef.items⟩

section eval
variable [Add α] [Mul α] [Neg α] [Div α] [OfNat α 0]

/-- one summand; `none` = `next` raised `StopIteration` (the iterator is left as it is) -/
def evalAtomTV (e : Env α) (its : Its α) : TAtom α → Its α × Option α
  | .lti a => (its, some (evalAtom e a))
  | .nextB k =>
    match its.b.getD k [] with
    | [] => (its, none)
    | v :: r => ({ its with b := its.b.set k r }, some (v * e.get (.d k)))
  | .nextA k =>
    match its.a.getD (k - 1) [] with
    | [] => (its, none)
    | v :: r => ({ its with a := its.a.set (k - 1) r }, some ((-v) * e.get (.m k)))

/-- `acc + t1 + t2 + …` evaluated from the left, every `next` in its turn -/
def foldTV (e : Env α) : Its α → α → List (TAtom α) → Its α × Option α
  | its, acc, [] => (its, some acc)
  | its, acc, t :: ts =>
    match evalAtomTV e its t with
    | (its', none) => (its', none)
    | (its', some v) => foldTV e its' (acc + v) ts

def evalSumTV (e : Env α) (its : Its α) : List (TAtom α) → Its α × Option α
  | [] => (its, some 0)
  | t :: ts =>
    match evalAtomTV e its t with
    | (its', none) => (its', none)
    | (its', some v) => foldTV e its' v ts

/-- the `for d0 in seq:` loop; it ends with the input or at the first `StopIteration` of a
    coefficient iterator.  Returns the outputs and the iterators as they are left. -/
def runLoopTV (sum : List (TAtom α)) (gain : Gain α) (shifts : List (Var × Var)) :
    Env α → Its α → List α → List α × Its α
  | _, its, [] => ([], its)
  | e, its, x :: xs =>
    let e1 := e.set (.d 0) x
    match evalSumTV e1 its sum with
    | (its', none) => ([], its')
    | (its', some s) =>
      let y := applyGain gain s
      let e2 := e1.set (.m 0) y
      let r := runLoopTV sum gain shifts (runShifts e2 shifts) its' xs
      (y :: r.1, r.2)

/-- run the generated generator -/
def evalTV (ir : TIR α) (memory : List α) (zero : α) (its : Its α) (xs : List α) : List α × Its α :=
  match ir with
  | .constLoop z => (xs.map (fun _ => z), its)
  | .loop _ nd sum gain shifts _ _ =>
    runLoopTV sum gain shifts ⟨0 :: memory, 0 :: List.replicate nd zero⟩ its xs

end eval

/-! ## 3. The whole call, with the variable-gain path -/
section call
variable [Add α] [Mul α] [Sub α] [Neg α] [Div α] [OfNat α 0] [OfNat α 1] [DecidableEq α]

/-- the part of `__call__` after the gain test: `a0` is a constant here -/
def callConst (num den : Terms (Coef α)) (mem : Mem α) (zero : α) (xs : List α) :
    Except Err (List α × Its α) :=
  if !checkCausal num den then .error .valueError
  else
    match coefAt den 0 with
    | .strm _ => .error .valueError      -- not reached: `callTV` rewrites a Stream gain before
    | .const g =>
      if g = 0 then .error .zeroDivision
      else
        let a := dense den
        let b := dense num
        .ok (evalTV (compileTV b a zero) (memoryOf zero (a.length - 1) mem) zero (itsOf b a.tail) xs)

/-- the variable-gain rewriting:
      inv_gain = 1 / den[0] ; den[0] = 0 ; den *= inv_gain.copy() ; den[0] = 1 ;
      numerator = self.numpoly * inv_gain
    (`Poly * Stream` is `Poly * Poly(Stream)`; `Poly.__mul__` is the C07 model at `Coef α`) -/
def gainPath (num den : Terms (Coef α)) : Terms (Coef α) × Terms (Coef α) :=
  let invGain : Coef α := 1 / coefAt den 0
  let den1 := ALV.C07.setItem den 0 0
  let den2 := ALV.C07.mul den1 (ALV.C07.ofScalar invGain.copy)
  let den3 := ALV.C07.setItem den2 0 1
  (ALV.C07.mul num (ALV.C07.ofScalar invGain), den3)

/-- `LinearFilter.__call__` -/
def callTV (num den : Terms (Coef α)) (mem : Mem α) (zero : α) (xs : List α) :
    Except Err (List α × Its α) :=
  if !checkCausal num den then .error .valueError
  else
    match coefAt den 0 with
    | .strm _ =>
      let nd := gainPath num den
      -- `ZFilter(num', den')`: the constructor normalises again (a no-op: den' starts at delay 0)
      match normalise nd.1 nd.2 with
      | .error e => .error e
      | .ok (n, d) => callConst n d mem zero xs
    | .const _ => callConst num den mem zero xs

/-- `ZFilter(numerator, denominator)(seq, memory, zero)` from raw (power, coefficient) pairs -/
def filterCallTV (numPairs denPairs : List (Int × Coef α)) (mem : Mem α) (zero : α) (xs : List α) :
    Except Err (List α × Its α) :=
  match normalise (mkPoly numPairs) (mkPoly denPairs) with
  | .error e => .error e
  | .ok (num, den) => callTV num den mem zero xs

end call

end ALV.C06
