/-
  C06 — model of `LinearFilter.__call__` when coefficients are `Stream`s (time-varying filter),
  of the variable-gain path (`a0` a Stream) and of the `Poly` / `ZFilter` arithmetic on such
  coefficients (code shaped).  Mathlib-free; executable; generic in the number type.

  Python source modelled

  lazy_filters.py, `LinearFilter.__call__`:
      if any(key < 0 …): raise ValueError("Non-causal filter")
      if isinstance(self.denpoly[0], Stream):            # variable output gain
        den = Poly(self.denpoly) ; inv_gain = 1 / den[0]          # a NEW dictionary (D16 repaired)
        den[0] = 0 ; den *= inv_gain.copy() ; den[0] = 1
        return ZFilter(self.numpoly * inv_gain, den)(seq, memory=memory, zero=zero)
      if self.denpoly[0] == 0: raise ZeroDivisionError
      …
      for delay, coeff in iteritems(self.numdict):
        if isinstance(coeff, Iterable): num_iterables.append(delay)
                                        data_sum.append("next(b{idx}) * d{idx}")
        elif coeff == 1 … (as in C04)
      for delay, coeff in iteritems(self.dendict):
        if isinstance(coeff, Iterable): den_iterables.append(delay)
                                        data_sum.append("-next(a{idx}) * m{idx}")
        elif delay == 0: gain = coeff
        elif … (as in C04)
      def gen(seq, memory, zero, b{i}…, a{j}…):
        m1 , … = memory ; d1 = … = zero
        for d0 in seq:
          m0 = <expr> ; yield m0 ; m{k} = m{k-1} … ; d{k} = d{k-1} …
      arguments = [iter(seq), memory, zero] + [iter(self.numpoly[idx]) …] + [iter(self.denpoly[idx]) …]

  lazy_stream.py: `Stream` operators (`StreamMeta.__binary__/__rbinary__/__unary__`: element by
  element, the result ends with the shortest operand, a non-iterable operand is broadcast);
  `thub(data, n)` / `StreamTeeHub` (n tee copies, one handed out per `iter()`).

  lazy_poly.py: `Poly.__add__/__neg__/__mul__` are the C07 model `ALV.C07.add/neg/mul`
  instantiated at the coefficient type `Coef α` below (a `Stream` coefficient is never "equal to
  zero", so the compaction never drops it).

  Conventions
  * a coefficient is `Coef α = const c | strm s` with `s : List α` the items the Stream will
    deliver (an endless / periodic Stream is represented by a long enough prefix);
  * a generator whose body meets `StopIteration` (a coefficient stream ended) ENDS — the
    generated loop body is wrapped in `try: … except StopIteration: return` (D13 repaired).
  * a coefficient iterator that RAISES anything else kills the generator with that exception: in
    the model such a source is the list of the items it delivers before, the tie checks that the
    exception reaches the caller after exactly those outputs and that the next `next()` stops.
  * the loop state keeps one iterator (remaining items) per coefficient argument `b{k}` / `a{k}`,
    so the number of `next` calls per output is part of the model (`reads_once`).
-/
import ALV.Model.C04
import ALV.Model.C07
namespace ALV.C06
open ALV.C04
variable {α : Type}

/-! ## 1. Coefficients: constants and Streams -/

/-- a filter coefficient: a number, or a `Stream` given by the items it delivers -/
inductive Coef (α : Type) where
  | const (c : α)
  | strm (s : List α)
  deriving DecidableEq, Repr

namespace Coef

/-- `isinstance(coeff, Iterable)` -/
def isStream : Coef α → Bool
  | const _ => false
  | strm _ => true

/-- the items `iter(coeff)` will deliver (nothing is ever asked from a constant) -/
def items : Coef α → List α
  | const _ => []
  | strm s => s

/-- the value used for output sample `n`: the constant, or the stream's n-th item;
    `none` = the stream has ended -/
def get? : Coef α → Nat → Option α
  | const c, _ => some c
  | strm s, n => s[n]?

/-- `StreamMeta.__binary__` / `__rbinary__`: both Streams ⇒ `map(op, a, b)` (shortest wins);
    one number ⇒ broadcast, keeping the operand order; two numbers ⇒ the number -/
def lift2 (f : α → α → α) : Coef α → Coef α → Coef α
  | const a, const b => const (f a b)
  | const a, strm t => strm (t.map (fun x => f a x))
  | strm s, const b => strm (s.map (fun x => f x b))
  | strm s, strm t => strm (List.zipWith f s t)

/-- `StreamMeta.__unary__` -/
def lift1 (f : α → α) : Coef α → Coef α
  | const a => const (f a)
  | strm s => strm (s.map f)

instance [OfNat α 0] : OfNat (Coef α) 0 := ⟨const 0⟩
instance [OfNat α 1] : OfNat (Coef α) 1 := ⟨const 1⟩
instance [Add α] : Add (Coef α) := ⟨lift2 (· + ·)⟩
instance [Mul α] : Mul (Coef α) := ⟨lift2 (· * ·)⟩
instance [Sub α] : Sub (Coef α) := ⟨lift2 (· - ·)⟩
instance [Div α] : Div (Coef α) := ⟨lift2 (· / ·)⟩
instance [Neg α] : Neg (Coef α) := ⟨lift1 (- ·)⟩

/-- `Stream.copy()` / one copy handed out by a `StreamTeeHub`: an independent iterator over the
    same items (`itertools.tee`) -/
def copy (c : Coef α) : Coef α := c

end Coef

/-- the values of all coefficients for output sample `n`; `none` as soon as one stream has ended -/
def row? : List (Coef α) → Nat → Option (List α)
  | [], _ => some []
  | c :: cs, n =>
    match c.get? n, row? cs n with
    | some v, some vs => some (v :: vs)
    | _, _ => none

/-! ## 2. The generated time-varying loop: IR, compile, eval -/

/-- one summand of `data_sum` -/
inductive TAtom (α : Type) where
  | lti (a : Atom α)          -- a constant coefficient: exactly the C04 summand
  | nextB (k : Nat)           -- "next(b{k}) * d{k}"
  | nextA (k : Nat)           -- "-next(a{k}) * m{k}"   (Python: (-next(a{k})) * m{k})

/-- the generated generator function -/
inductive TIR (α : Type) where
  /-- `for unused in seq: yield {zero}` -/
  | constLoop (z : α)
  /-- `def gen(seq, memory, zero, b{i}…, a{j}…)` with the C04 loop body -/
  | loop (nm nd : Nat) (sum : List (TAtom α)) (gain : Gain α) (shifts : List (Var × Var))
         (bargs aargs : List Nat)

section compile
variable [Neg α] [OfNat α 0] [OfNat α 1] [DecidableEq α]

/-- numerator part of `data_sum`; `k` = delay of the head coefficient -/
def numAtomsTV : Nat → List (Coef α) → List (TAtom α)
  | _, [] => []
  | k, .strm _ :: cs => TAtom.nextB k :: numAtomsTV (k + 1) cs
  | k, .const c :: cs => (numAtoms k [c]).map TAtom.lti ++ numAtomsTV (k + 1) cs

/-- denominator part of `data_sum` (delays ≥ 1) -/
def denAtomsTV : Nat → List (Coef α) → List (TAtom α)
  | _, [] => []
  | k, .strm _ :: cs => TAtom.nextA k :: denAtomsTV (k + 1) cs
  | k, .const c :: cs => (denAtoms k [c]).map TAtom.lti ++ denAtomsTV (k + 1) cs

/-- `num_iterables` / `den_iterables`: the delays whose coefficient is a Stream -/
def streamIdx : Nat → List (Coef α) → List Nat
  | _, [] => []
  | k, c :: cs => (if c.isStream then [k] else []) ++ streamIdx (k + 1) cs

/-- the source built by `__call__` for dense coefficient lists; `a = a0 :: as` with `a0` a
    constant (the Stream-gain case is rewritten before, see `gainPath`) -/
def compileTV (b a : List (Coef α)) (zero : α) : TIR α :=
  let sum := numAtomsTV 0 b ++ denAtomsTV 1 a.tail
  if sum.isEmpty then .constLoop zero
  else
    let gain : α := match a.head? with
      | some (.const g) => g
      | _ => 1
    let g := if gain = -1 then Gain.negOne else if gain ≠ 1 then Gain.div gain else Gain.one
    .loop (a.length - 1) (b.length - 1) sum g (mShifts (a.length - 1) ++ dShifts (b.length - 1))
      (streamIdx 0 b) (streamIdx 1 a.tail)

end compile

/-- the coefficient iterators handed to the generator: remaining items of `b{k}` / `a{k}`,
    indexed by the delay `k` (`a` starts at delay 1; constants own an unused empty slot) -/
structure Its (α : Type) where
  b : List (List α)
  a : List (List α)
  deriving DecidableEq, Repr

/-- `iter(self.numpoly[idx])` / `iter(self.denpoly[idx])` -/
def itsOf (b as : List (Coef α)) : Its α := ⟨b.map Coef.items, as.map Coef.items⟩

section eval
variable [Add α] [Mul α] [Neg α] [Div α] [OfNat α 0]

/-- one summand; `none` = `next` raised `StopIteration` (the iterator is left as it is) -/
def evalAtomTV (e : Env α) (its : Its α) : TAtom α → Its α × Option α
  | .lti a => (its, some (evalAtom e a))
  | .nextB k =>
    match its.b.getD k [] with
    | [] => (its, none)
    | v :: r => ({ its with b := its.b.set k r }, some (v * e.get (.d k)))
  | .nextA k =>
    match its.a.getD (k - 1) [] with
    | [] => (its, none)
    | v :: r => ({ its with a := its.a.set (k - 1) r }, some ((-v) * e.get (.m k)))

/-- `acc + t1 + t2 + …` evaluated from the left, every `next` in its turn -/
def foldTV (e : Env α) : Its α → α → List (TAtom α) → Its α × Option α
  | its, acc, [] => (its, some acc)
  | its, acc, t :: ts =>
    match evalAtomTV e its t with
    | (its', none) => (its', none)
    | (its', some v) => foldTV e its' (acc + v) ts

def evalSumTV (e : Env α) (its : Its α) : List (TAtom α) → Its α × Option α
  | [] => (its, some 0)
  | t :: ts =>
    match evalAtomTV e its t with
    | (its', none) => (its', none)
    | (its', some v) => foldTV e its' v ts

/-- the `for d0 in seq:` loop; it ends with the input or at the first `StopIteration` of a
    coefficient iterator.  Returns the outputs and the iterators as they are left. -/
def runLoopTV (sum : List (TAtom α)) (gain : Gain α) (shifts : List (Var × Var)) :
    Env α → Its α → List α → List α × Its α
  | _, its, [] => ([], its)
  | e, its, x :: xs =>
    let e1 := e.set (.d 0) x
    match evalSumTV e1 its sum with
    | (its', none) => ([], its')
    | (its', some s) =>
      let y := applyGain gain s
      let e2 := e1.set (.m 0) y
      let r := runLoopTV sum gain shifts (runShifts e2 shifts) its' xs
      (y :: r.1, r.2)

/-- run the generated generator -/
def evalTV (ir : TIR α) (memory : List α) (zero : α) (its : Its α) (xs : List α) : List α × Its α :=
  match ir with
  | .constLoop z => (xs.map (fun _ => z), its)
  | .loop _ nd sum gain shifts _ _ =>
    runLoopTV sum gain shifts ⟨0 :: memory, 0 :: List.replicate nd zero⟩ its xs

end eval

/-! ## 3. The whole call, with the variable-gain path -/
section call
variable [Add α] [Mul α] [Sub α] [Neg α] [Div α] [OfNat α 0] [OfNat α 1] [DecidableEq α]

/-- the part of `__call__` after the gain test: `a0` is a constant here -/
def callConst (num den : Terms (Coef α)) (mem : Mem α) (zero : α) (xs : List α) :
    Except Err (List α × Its α) :=
  if !checkCausal num den then .error .valueError
  else
    match coefAt den 0 with
    | .strm _ => .error .valueError      -- not reached: `callTV` rewrites a Stream gain before
    | .const g =>
      if g = 0 then .error .zeroDivision
      else
        let a := dense den
        let b := dense num
        .ok (evalTV (compileTV b a zero) (memoryOf zero (a.length - 1) mem) zero (itsOf b a.tail) xs)

/-- the variable-gain rewriting:
      inv_gain = 1 / den[0] ; den[0] = 0 ; den *= inv_gain.copy() ; den[0] = 1 ;
      numerator = self.numpoly * inv_gain
    (`Poly * Stream` is `Poly * Poly(Stream)`; `Poly.__mul__` is the C07 model at `Coef α`) -/
def gainPath (num den : Terms (Coef α)) : Terms (Coef α) × Terms (Coef α) :=
  let invGain : Coef α := 1 / coefAt den 0
  let den1 := ALV.C07.setItem den 0 0
  let den2 := ALV.C07.mul den1 (ALV.C07.ofScalar invGain.copy)
  let den3 := ALV.C07.setItem den2 0 1
  (ALV.C07.mul num (ALV.C07.ofScalar invGain), den3)

/-- `LinearFilter.__call__` -/
def callTV (num den : Terms (Coef α)) (mem : Mem α) (zero : α) (xs : List α) :
    Except Err (List α × Its α) :=
  if !checkCausal num den then .error .valueError
  else
    match coefAt den 0 with
    | .strm _ =>
      let nd := gainPath num den
      -- `ZFilter(num', den')`: the constructor normalises again (a no-op: den' starts at delay 0)
      match normalise nd.1 nd.2 with
      | .error e => .error e
      | .ok (n, d) => callConst n d mem zero xs
    | .const _ => callConst num den mem zero xs

/-- `ZFilter(numerator, denominator)(seq, memory, zero)` from raw (power, coefficient) pairs -/
def filterCallTV (numPairs denPairs : List (Int × Coef α)) (mem : Mem α) (zero : α) (xs : List α) :
    Except Err (List α × Its α) :=
  match normalise (mkPoly numPairs) (mkPoly denPairs) with
  | .error e => .error e
  | .ok (num, den) => callTV num den mem zero xs

/-! ### the filter OBJECT across two calls

`__call__` is a method of an object that holds `numpoly` / `denpoly`, and a Stream coefficient is
an iterator owned by that object.  A history "call, consume the output to its end, call again" is
modelled by the state the first call leaves:

* nothing is assigned to the object (constant gain: nothing at all; Stream gain: the rewriting
  works on `den = Poly(self.denpoly)`, a NEW dictionary, and on new `Poly`s);
* constant gain: `iter(self.numpoly[idx])` hands the Stream's own iterator to the generator
  (`Stream.__iter__` returns `self._data`), so each coefficient Stream is left where the generated
  loop left it (`Its`);
* Stream gain: the loop's arguments are the product Streams `coefficient * (1/a0 copy)`; one
  `next` on such an argument is one `next` on the object's coefficient Stream and one on a tee copy
  of the gain, so after `L` outputs every Stream the object holds has delivered `L` items.  (When a
  coefficient stream ended the output, streams read before it in that last, failed, evaluation are
  one item further; this is not observable by a later call: the ended stream ends every later
  output at once.) -/

/-- what is left of a coefficient after `n` outputs: a Stream without its first `n` items -/
def Coef.dropC (n : Nat) : Coef α → Coef α
  | .const c => .const c
  | .strm s => .strm (s.drop n)

/-- every Stream coefficient replaced by what the loop left of it; `its` = remaining items indexed
by `delay - off` (`b{k}` ↦ `its.b[k]`, `a{k}` ↦ `its.a[k-1]`) -/
def advance (off : Nat) (t : Terms (Coef α)) (its : List (List α)) : Terms (Coef α) :=
  t.map fun kv =>
    match kv.2 with
    | .strm _ => (kv.1, Coef.strm (its.getD (kv.1.toNat - off) []))
    | .const c => (kv.1, Coef.const c)

/-- the filter object after a call that returned `r` -/
def objAfter (num den : Terms (Coef α)) (r : Except Err (List α × Its α)) :
    Terms (Coef α) × Terms (Coef α) :=
  match r with
  | .error _ => (num, den)                       -- a refused call changes nothing
  | .ok (ys, its) =>
    match coefAt den 0 with
    | .const _ => (advance 0 num its.b, advance 1 den its.a)
    | .strm _ => (num.map fun kv => (kv.1, kv.2.dropC ys.length),
                  den.map fun kv => (kv.1, kv.2.dropC ys.length))

/-- two calls of the SAME filter object `ZFilter`-normalised to `(num, den)`, the first output
consumed to its end before the second call -/
def callTwice (num den : Terms (Coef α)) (mem1 : Mem α) (zero1 : α) (xs1 : List α)
    (mem2 : Mem α) (zero2 : α) (xs2 : List α) :
    Except Err (List α × Its α) × Except Err (List α × Its α) :=
  let r1 := callTV num den mem1 zero1 xs1
  let obj2 := objAfter num den r1
  (r1, callTV obj2.1 obj2.2 mem2 zero2 xs2)

end call

/-! ## 4. `ZFilter` arithmetic on Stream coefficients (what builds the polynomials) -/
section algebra
open ALV.C07 (MPoly)
variable [Add α] [Mul α] [Sub α] [Neg α] [Div α] [OfNat α 0] [OfNat α 1] [DecidableEq α]

/-- a `ZFilter` object: `numpoly`, `denpoly` -/
structure ZFT (α : Type) where
  num : MPoly (Coef α)
  den : MPoly (Coef α)

/-- `LinearFilter.__init__` on two `Poly`s: `power = min(keys of den)` (ValueError when there is
none); `if power != 0: numpoly *= Poly([0, 1]) ** -power; denpoly *= …` (`Poly.__mul__`) -/
def ZFT.make (num den : MPoly (Coef α)) : Except Err (ZFT α) :=
  match minKey den with
  | none => .error .valueError
  | some p =>
    if p ≠ 0 then
      let delta : MPoly (Coef α) := ALV.C07.mk [(-p, 1)]
      .ok ⟨ALV.C07.mul num delta, ALV.C07.mul den delta⟩
    else .ok ⟨num, den⟩

/-- `Poly.__eq__` (`dicts_equal`): numbers compare by value, a Stream is equal only to itself —
and every Stream object occurs once in the expressions modelled here -/
def polyEqTV (p q : MPoly (Coef α)) : Bool :=
  p.length == q.length &&
    p.all (fun kv => match ALV.C07.find? q kv.1 with
      | some w => (match kv.2, w with
        | .const a, .const b => decide (a = b)
        | _, _ => false)
      | none => false)

/-- `Poly.copy()`: the same terms, Streams tee-copied -/
def polyCopy (p : MPoly (Coef α)) : MPoly (Coef α) := p.map (fun kv => (kv.1, kv.2.copy))

/-- `ZFilter([other])` for a number or a Stream -/
def ZFT.ofCoef (c : Coef α) : Except Err (ZFT α) := ZFT.make (ALV.C07.ofList [c]) (ALV.C07.mk [(0, 1)])

/-- `z ** -k` -/
def ZFT.zpow (k : Nat) : Except Err (ZFT α) := ZFT.make (ALV.C07.mk [((k : Int), 1)]) (ALV.C07.mk [(0, 1)])

/-- `ZFilter.__add__` between filters: same-denominator shortcut, else cross products with copies -/
def ZFT.add (f g : ZFT α) : Except Err (ZFT α) :=
  if polyEqTV f.den g.den then ZFT.make (ALV.C07.add f.num g.num) f.den
  else ZFT.make (ALV.C07.add (ALV.C07.mul f.num (polyCopy g.den)) (ALV.C07.mul g.num (polyCopy f.den)))
         (ALV.C07.mul f.den g.den)

/-- `ZFilterMeta.__unary__` -/
def ZFT.neg (f : ZFT α) : Except Err (ZFT α) := ZFT.make (ALV.C07.neg f.num) f.den

def ZFT.mul (f g : ZFT α) : Except Err (ZFT α) := ZFT.make (ALV.C07.mul f.num g.num) (ALV.C07.mul f.den g.den)

/-- `ZFilter.__mul__` with a number / Stream: `ZFilter(self.numpoly * other, self.denpoly)` -/
def ZFT.mulCoef (f : ZFT α) (c : Coef α) : Except Err (ZFT α) :=
  ZFT.make (ALV.C07.mul f.num (ALV.C07.ofScalar c)) f.den

def ZFT.div (f g : ZFT α) : Except Err (ZFT α) := ZFT.make (ALV.C07.mul f.num g.den) (ALV.C07.mul f.den g.num)

/-- an expression that builds a filter: `z ** -k`, numbers, Streams, `+ - * /`, unary minus -/
inductive Tree (α : Type) where
  | z (k : Nat)
  | c (v : α)
  | s (items : List α)
  | neg (t : Tree α)
  | add (l r : Tree α)
  | sub (l r : Tree α)
  | mul (l r : Tree α)
  | div (l r : Tree α)

/-- a Python value met while evaluating: a number / Stream, or a ZFilter -/
inductive Val (α : Type) where
  | num (c : Coef α)
  | filt (f : ZFT α)

/-- Python's dispatch: filter ∘ filter; filter ∘ other (`__add__ / __sub__ / __mul__ / __truediv__`
with a non-filter); other ∘ filter (`ZFilterMeta.__rbinary__`: `op(ZFilter([other]), self)`);
number ∘ number (Stream operators) -/
def evalTree : Tree α → Except Err (Val α)
  | .z k => do pure (.filt (← ZFT.zpow k))
  | .c v => pure (.num (.const v))
  | .s items => pure (.num (.strm items))
  | .neg t => do
    match ← evalTree t with
    | .num c => pure (.num (-c))
    | .filt f => pure (.filt (← f.neg))
  | .add l r => do
    match ← evalTree l, ← evalTree r with
    | .num a, .num b => pure (.num (a + b))
    | .filt f, .filt g => pure (.filt (← f.add g))
    | .filt f, .num b => pure (.filt (← f.add (← ZFT.ofCoef b)))
    | .num a, .filt g => pure (.filt (← (← ZFT.ofCoef a).add g))
  | .sub l r => do
    match ← evalTree l, ← evalTree r with
    | .num a, .num b => pure (.num (a - b))
    | .filt f, .filt g => pure (.filt (← f.add (← g.neg)))
    | .filt f, .num b => pure (.filt (← f.add (← ZFT.ofCoef (-b))))
    | .num a, .filt g => pure (.filt (← (← ZFT.ofCoef a).add (← g.neg)))
  | .mul l r => do
    match ← evalTree l, ← evalTree r with
    | .num a, .num b => pure (.num (a * b))
    | .filt f, .filt g => pure (.filt (← f.mul g))
    | .filt f, .num b => pure (.filt (← f.mulCoef b))
    | .num a, .filt g => pure (.filt (← (← ZFT.ofCoef a).mul g))
  | .div l r => do
    match ← evalTree l, ← evalTree r with
    | .num a, .num b => pure (.num (a / b))
    | .filt f, .filt g => pure (.filt (← f.div g))
    | .filt f, .num b => pure (.filt (← f.mulCoef (1 / b)))
    | .num a, .filt g => pure (.filt (← (← ZFT.ofCoef a).div g))

end algebra

end ALV.C06
