/-
  C02 — the vocabulary the TRANSLATOR `harness/props/c02_tr.py` writes `ALV/Gen/C02Src.lean` in.

  1. `PE`: the Python expressions found in the count parameters of `Stream.limit` / `skip` / `take` /
     `peek` and in the line lengths of `attack` (`max(int(round(n)), 0)`, `rint(n) if n > 0 else 0`,
     `int(a + .5)`, `isinf(n) and n > 0`, …) as PROGRAM VALUES over one variable, with an interpreter
     `PE.eval` over the Python numbers `Num` (int / bool / Fraction / finite float / ±inf / nan).  The
     builtins are re-implemented on exact rationals: `round` (half to even), `int` (truncation),
     `max(a, b)` (`b if b > a else a`), comparisons with inf / nan, `+` with Python's numeric tower,
     audiolazy's `rint` (half away from zero; a library function, taken as vocabulary).
  2. `Sink`: what the count is handed to — `it.islice(data, c)` or `xrange(c)`.
  3. `TStmt`: the four statement forms of the body of `Stream.take`, interpreter `TProg.run`.
  4. the model-side names the regenerated definitions are proved equal to (`takeModel`, `durCount`,
     `attackLine`).
  Core Lean only; executable.
-/
import ALV.Model.C02Stop
namespace ALV.C02
open ALV

inductive PE where
  | arg                            -- the one variable of the expression
  | int (z : Int)                  -- integer literal
  | flt (q : Rat)                  -- float literal (exact value)
  | round (e : PE)                 -- `round(e)`
  | toInt (e : PE)                 -- `int(e)`
  | rint (e : PE)                  -- `rint(e)` (audiolazy.lazy_misc)
  | max (a b : PE)                 -- `max(a, b)`
  | add (a b : PE)                 -- `a + b`
  | gt (a b : PE)                  -- `a > b`
  | isFloat (e : PE)               -- `isinstance(e, float)`
  | isinf (e : PE)                 -- `isinf(e)` (math)
  | and (a b : PE)                 -- `a and b`
  | ite (c a b : PE)               -- `a if c else b`
  deriving Repr

namespace Num

/-- exact value of a finite number (0 for inf / nan: never used there) -/
def q : Num → Rat
  | .int z => z
  | .bool b => if b then 1 else 0
  | .frac r => r
  | .float r => r
  | _ => 0

/-- Python `a > b` on numbers: false with a nan on either side -/
def gt : Num → Num → Bool
  | .nan, _ => false
  | _, .nan => false
  | .inf neg, .inf neg' => !neg && neg'
  | .inf neg, _ => !neg
  | _, .inf neg => neg
  | a, b => decide (b.q < a.q)

def truthy : Num → Bool
  | .int z => z != 0
  | .bool b => b
  | .frac r => r != 0
  | .float r => r != 0
  | _ => true

def isFloat : Num → Bool
  | .float _ => true
  | .inf _ => true
  | .nan => true
  | _ => false

def isInf : Num → Bool
  | .inf _ => true
  | _ => false

/-- Python `a + b`: float wins over Fraction wins over int / bool -/
def add : Num → Num → Num
  | .nan, _ => .nan
  | _, .nan => .nan
  | .inf neg, .inf neg' => if neg == neg' then .inf neg else .nan
  | .inf neg, _ => .inf neg
  | _, .inf neg => .inf neg
  | a, b =>
    if a.isFloat || b.isFloat then .float (a.q + b.q)
    else match a, b with
      | .frac _, _ => .frac (a.q + b.q)
      | _, .frac _ => .frac (a.q + b.q)
      | _, _ => .int ((a.q + b.q).floor)

end Num

/-- `int(x)` of a finite number: truncation towards zero -/
def pyTrunc (r : Rat) : Int := if 0 ≤ r then r.floor else -((-r).floor)

/-- audiolazy `rint(x)`: nearest integer, ties away from zero -/
def pyRint (r : Rat) : Int := if 0 ≤ r then rintPos r else -(rintPos (-r))

def pyRoundV : Num → Except String Num
  | .int z => .ok (.int z)
  | .bool b => .ok (.int (if b then 1 else 0))
  | .frac r => .ok (.int (pyRound r))
  | .float r => .ok (.int (pyRound r))
  | .inf _ => .error "OverflowError"
  | .nan => .error "ValueError"

def pyIntV : Num → Except String Num
  | .int z => .ok (.int z)
  | .bool b => .ok (.int (if b then 1 else 0))
  | .frac r => .ok (.int (pyTrunc r))
  | .float r => .ok (.int (pyTrunc r))
  | .inf _ => .error "OverflowError"
  | .nan => .error "ValueError"

def pyRintV : Num → Except String Num
  | .int z => .ok (.int z)
  | .bool b => .ok (.int (if b then 1 else 0))
  | .frac r => .ok (.int (pyRint r))
  | .float r => .ok (.int (pyRint r))
  | _ => .error "ValueError"           -- `divmod(inf, 1)` is (nan, nan): `int(nan)`

/-- `max(a, b)` of CPython: the first argument unless the second is greater -/
def pyMax (a b : Num) : Num := if b.gt a then b else a

def PE.eval (n : Num) : PE → Except String Num
  | .arg => .ok n
  | .int z => .ok (.int z)
  | .flt r => .ok (.float r)
  | .round e => do pyRoundV (← e.eval n)
  | .toInt e => do pyIntV (← e.eval n)
  | .rint e => do pyRintV (← e.eval n)
  | .max a b => do
    let va ← a.eval n
    let vb ← b.eval n
    pure (pyMax va vb)
  | .add a b => do
    let va ← a.eval n
    let vb ← b.eval n
    pure (va.add vb)
  | .gt a b => do
    let va ← a.eval n
    let vb ← b.eval n
    pure (.bool (va.gt vb))
  | .isFloat e => do pure (.bool (← e.eval n).isFloat)
  | .isinf e => do pure (.bool (← e.eval n).isInf)
  | .and a b => do
    let va ← a.eval n
    if va.truthy then b.eval n else pure va
  | .ite c a b => do
    let vc ← c.eval n
    if vc.truthy then a.eval n else b.eval n

/-- where a count goes: the `stop` of `it.islice(data, stop)` (an int in `0 ..`, else ValueError) or
    the argument of `xrange` (an int; negative = empty range; else TypeError) -/
inductive Sink where
  | islice
  | xrange
  deriving Repr, DecidableEq

def Sink.accept : Sink → Num → Except String Nat
  | .islice, .int z => if z < 0 then .error "ValueError" else .ok z.toNat
  | .islice, .bool b => .ok (if b then 1 else 0)
  | .islice, _ => .error "ValueError"
  | .xrange, .int z => .ok z.toNat
  | .xrange, .bool b => .ok (if b then 1 else 0)
  | .xrange, _ => .error "TypeError"

/-- a count expression together with its sink: the number of items / loop turns, or the exception -/
def PE.count (e : PE) (s : Sink) (n : Num) : Except String Nat := do s.accept (← e.eval n)

/-! ### the body of `Stream.take` as a statement list -/

/-- what a `return` of `take` hands to the caller, seen from the source -/
inductive TRet where
  | one                    -- `next(self._data)`
  | all                    -- `constructor(self._data)`
  | islice (e : PE)        -- `constructor(it.islice(self._data, e))`
  deriving Repr

inductive TStmt where
  | retIfNone (r : TRet)           -- `if n is None: return r`
  | retIf (c : PE) (r : TRet)      -- `if c: return r`
  | setIf (c : PE) (e : PE)        -- `if c: n = e`
  | ret (r : TRet)                 -- `return r`
  deriving Repr

/-- reads `take` may do: one item (`take()`), everything, or at most `k` items -/
inductive TakeRes where
  | one
  | all
  | upto (k : Nat)
  deriving Repr, DecidableEq

def TRet.run (n : Option Num) : TRet → Except String TakeRes
  | .one => .ok .one
  | .all => .ok .all
  | .islice e =>
    match n with
    | none => .error "TypeError"                         -- `max(None, 0)`
    | some v => do pure (.upto (← e.count .islice v))

/-- run the statement list with the parameter `n` (`none` = Python's `None`); falling off the end
    returns `None` to the caller: no read -/
def TProg.run : List TStmt → Option Num → Except String TakeRes
  | [], _ => .ok (.upto 0)
  | .retIfNone r :: rest, n =>
    match n with
    | none => r.run n
    | some _ => TProg.run rest n
  | .retIf c r :: rest, n =>
    match n with
    | none => .error "TypeError"                         -- `isinf(None)`
    | some v => do
      if (← c.eval v).truthy then r.run n else TProg.run rest n
  | .setIf c e :: rest, n =>
    match n with
    | none => .error "TypeError"
    | some v => do
      if (← c.eval v).truthy then TProg.run rest (some (← e.eval v)) else TProg.run rest n
  | .ret r :: _, n => r.run n

/-! ### model-side counterparts -/

/-- `Stream.take(n)` / `peek(n)` from the hand-written `takeCount`; `n = None` takes one item -/
def takeModel : Option Num → Except String TakeRes
  | none => .ok .one
  | some v =>
    match takeCount v with
    | .ok none => .ok .all
    | .ok (some k) => .ok (.upto k)
    | .error e => .error e

/-- `xrange(int(dur + .5))`: `durLen` for the finite spellings, the exception of `int()` otherwise -/
def durCount : Num → Except String Nat
  | .inf _ => .error "OverflowError"
  | .nan => .error "ValueError"
  | v => .ok (durLen v)

/-- the two lines of `attack` as one: sample `i` is on the attack line while `i < la` -/
def attackLine {α : Type} (la : Nat) (f g : α → Nat → α) : α → Nat → α :=
  fun x i => if i < la then f x i else g x (i - la)

/-- `it.islice(data, N)` — the vocabulary mapping of the two-argument `islice`: pass items on, leave
    the loop after `N` (exit test before a read) -/
def isliceStop {α : Type} (N : Nat) : StopStage α α (Unit × Nat) := (StopStage.never (mapS id)).cap N

end ALV.C02
