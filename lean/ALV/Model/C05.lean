/-
  C05 — model of the filter algebra of `audiolazy.lazy_filters` (code shaped).
  Mathlib-free; executable; generic in the number type.

  `ZF α` is a `ZFilter` object with constant coefficients: the two `Poly` attributes
  `numpoly` / `denpoly` (`MPoly α` of C07: the `OrderedDict` with its insertion order).
  Every operator ends in `ZFilter(numpoly, denpoly)`, i.e. `LinearFilter.__init__`, which
  copies both polynomials (`Poly(poly)`: compaction again) and rewrites them so that the
  denominator starts at delay 0 (`ofPolys`); an empty denominator makes `min()` raise
  `ValueError`, hence every operator returns `Except PyErr`.

  Python source modelled (lazy_filters.py):

    LinearFilter.__init__     power = min(key for key, value in self.denpoly.terms())
                              if power != 0: poly_delta = Poly([0, 1]) ** -power
                                             self.numpoly *= poly_delta; self.denpoly *= poly_delta
    ZFilterMeta.__unary__     cls(op_func(self.numpoly), self.denpoly)
    ZFilterMeta.__rbinary__   op_func(cls([other]), self)
    ZFilter.__add__           same denominator -> ZFilter(num + num', den)
                              else ZFilter(num * den' + num' * den, den * den')
                              number -> self + ZFilter([other])
    ZFilter.__sub__           self + (-other)
    ZFilter.__mul__           ZFilter(num * num', den * den') ; number -> ZFilter(num * other, den)
    ZFilter.__truediv__       ZFilter(num * den', den * num') ; number -> self * (1 / other)
    ZFilter.__pow__           other < 0 and (len(num) >= 2 or len(den) >= 2) -> ZFilter(den, num) ** -other
                              else ZFilter(num ** other, den ** other)
    ZFilter.__call__(ZFilter) sum(v * seq ** -k for k, v in numpoly.terms()) / sum(... denpoly.terms())
    ZFilter.__call__(seq)     LinearFilter.__call__  (C04: `C04.call`, memory None)
    CascadeFilter             __call__ = reduce(filt(data)) ; numpoly / denpoly = reduce(mul, …)
    ParallelFilter            __call__ = reduce(add, outputs) (zeros for no filter);
                              numpoly = reduce(add, self).numpoly ; denpoly = reduce(mul, denpolys)
    LinearFilter.__eq__       num == num' and den == den'
    LinearFilter.__ne__       num != num' and den != den'          (as coded: defect D2)
    LinearFilter.__hash__     hash(tuple(numdict) + tuple(dendict)) -- tuples of the sorted POWERS

  Not modelled: Stream coefficients (C06), float / fractional powers (`linearize` is modelled on
  integer delays only), `__str__`,
  plotting, `diff`, `poles` / `zeros` (numpy).
-/
import ALV.Model.C07
import ALV.Model.C04
namespace ALV.C05
open ALV.C07

/-- a `ZFilter` with constant coefficients -/
structure ZF (α : Type) where
  num : MPoly α
  den : MPoly α

variable {α : Type}

section Arith
variable [Add α] [Mul α] [Sub α] [Neg α] [Div α] [OfNat α 0] [OfNat α 1] [DecidableEq α]

instance : Inhabited (ZF α) := ⟨⟨[], []⟩⟩

/-- `Poly([0, 1]) ** -power` -/
def polyDelta (power : Int) : MPoly α := C07.pow (ofList [0, 1]) (-power)

/-- `LinearFilter.__init__` on two polynomials (`ZFilter(numpoly, denpoly)`): both are copied
(`Poly(poly)` compacts again), then the denominator is made to start at delay 0.
`min()` of an empty denominator raises ValueError. -/
def ofPolys (num den : MPoly α) : Except PyErr (ZF α) :=
  let n := C07.mk num
  let d := C07.mk den
  match C04.minKey d with
  | none => .error .value
  | some power =>
    if power ≠ 0 then .ok ⟨C07.mul n (polyDelta power), C07.mul d (polyDelta power)⟩
    else .ok ⟨n, d⟩

/-- `ZFilter(numerator, denominator)` from raw (power, coefficient) pairs (dict / enumerate(list)) -/
def ofData (numPairs denPairs : List (Int × α)) : Except PyErr (ZF α) :=
  ofPolys (C07.mk numPairs) (C07.mk denPairs)

/-- `ZFilter([c])` — how a number enters the algebra (`Poly([c])` over the default `Poly({0: 1})`) -/
def ofScalar (c : α) : Except PyErr (ZF α) := ofPolys (ofList [c]) (C07.mk [(0, 1)])

/-- the module-level `z = ZFilter({-1: 1})` -/
def z : Except PyErr (ZF α) := ofPolys (C07.mk [(-1, 1)]) (C07.mk [(0, 1)])

/-- `ZFilterMeta.__unary__` with `operator.neg` -/
def neg (f : ZF α) : Except PyErr (ZF α) := ofPolys (C07.neg f.num) f.den
/-- `ZFilterMeta.__unary__` with `operator.pos` -/
def pos (f : ZF α) : Except PyErr (ZF α) := ofPolys (C07.pos f.num) f.den

/-- `ZFilter.__add__` on two filters, with its same-denominator shortcut -/
def add (f g : ZF α) : Except PyErr (ZF α) :=
  if C07.eq f.den g.den then ofPolys (C07.add f.num g.num) f.den
  else ofPolys (C07.add (C07.mul f.num g.den) (C07.mul g.num f.den)) (C07.mul f.den g.den)

/-- `ZFilter.__sub__` : `self + (-other)` -/
def sub (f g : ZF α) : Except PyErr (ZF α) := do
  let ng ← neg g
  add f ng

/-- `ZFilter.__mul__` on two filters -/
def mul (f g : ZF α) : Except PyErr (ZF α) := ofPolys (C07.mul f.num g.num) (C07.mul f.den g.den)

/-- `ZFilter.__mul__` by a number: `ZFilter(self.numpoly * other, self.denpoly)` -/
def mulScalar (f : ZF α) (c : α) : Except PyErr (ZF α) := ofPolys (C07.mul f.num (C07.ofScalar c)) f.den

/-- `ZFilter.__truediv__` on two filters -/
def truediv (f g : ZF α) : Except PyErr (ZF α) := ofPolys (C07.mul f.num g.den) (C07.mul f.den g.num)

/-- `ZFilter.__truediv__` by a number: `self * operator.truediv(1, other)` -/
def divScalar (f : ZF α) (c : α) : Except PyErr (ZF α) :=
  if c = 0 then .error .zeroDivision else mulScalar f (1 / c)

/-- `self + number` : `self + ZFilter([other])` -/
def addScalar (f : ZF α) (c : α) : Except PyErr (ZF α) := do
  let s ← ofScalar c
  add f s
/-- `self - number` : `self + (-other)` -/
def subScalar (f : ZF α) (c : α) : Except PyErr (ZF α) := addScalar f (-c)
/-- reflected operators: `op_func(cls([other]), self)` -/
def raddScalar (c : α) (f : ZF α) : Except PyErr (ZF α) := do
  let s ← ofScalar c
  add s f
def rsubScalar (c : α) (f : ZF α) : Except PyErr (ZF α) := do
  let s ← ofScalar c
  sub s f
def rmulScalar (c : α) (f : ZF α) : Except PyErr (ZF α) := do
  let s ← ofScalar c
  mul s f
def rdivScalar (c : α) (f : ZF α) : Except PyErr (ZF α) := do
  let s ← ofScalar c
  truediv s f

/-- `ZFilter.__pow__` with an integer exponent.  The negative branch flips the filter and calls
`**` again with the positive exponent, which then takes the second branch. -/
def pow (f : ZF α) (n : Int) : Except PyErr (ZF α) :=
  if n < 0 ∧ (f.num.length ≥ 2 ∨ f.den.length ≥ 2) then do
    let r ← ofPolys f.den f.num
    ofPolys (C07.pow r.num (-n)) (C07.pow r.den (-n))
  else ofPolys (C07.pow f.num n) (C07.pow f.den n)

/-- `sum(v * seq ** -k for k, v in poly.terms())` : `terms()` ascending by power; `sum` starts
with the int `0`, so the first step is `ZFilter([0]) + term` (`__radd__`) — and for an empty
polynomial the int `0` itself is what `/` later turns into `ZFilter([0])` (`__rtruediv__`); both
are this fold started at `ZFilter([0])`.  `v * filter` is `ZFilter([v]) * filter` (`__rmul__`). -/
def substSum (p : MPoly α) (g : ZF α) : Except PyErr (ZF α) := do
  let z0 ← ofScalar 0
  (sortAsc p).foldlM (fun acc kv => do
    let gk ← pow g (-kv.1)
    let c ← ofScalar kv.2
    let t ← mul c gk
    add acc t) z0

/-- `ZFilter.__call__` with a ZFilter argument: substitution of `g` for `z` -/
def subst (f g : ZF α) : Except PyErr (ZF α) := do
  let n ← substSum f.num g
  let d ← substSum f.den g
  truediv n d

/-! ### applying a filter to a signal -/

def ofC04Err : C04.Err → PyErr
  | .valueError => .value
  | .zeroDivision => .zeroDivision

/-- `filt(seq, zero=0)` : `LinearFilter.__call__` with `memory=None` (C04).  `values()`, the
causality test and `denpoly[0]` do not depend on the dictionary order. -/
def call (f : ZF α) (xs : List α) : Except PyErr (List α) :=
  match C04.call f.num f.den C04.Mem.none 0 xs with
  | .ok ys => .ok ys
  | .error e => .error (ofC04Err e)

/-- `CascadeFilter.__call__` : `reduce(lambda data, filt: filt(data), self.callables, seq)` -/
def cascadeCall (fs : List (ZF α)) (xs : List α) : Except PyErr (List α) :=
  fs.foldlM (fun data f => call f data) xs

/-- element-wise `Stream.__add__` -/
def addSig (a b : List α) : List α := List.zipWith (· + ·) a b

/-- `ParallelFilter.__call__` : the zero value per input without filters, else
`reduce(operator.add, (filt(arg0) for filt in self.callables))` -/
def parallelCall (fs : List (ZF α)) (xs : List α) : Except PyErr (List α) :=
  match fs with
  | [] => .ok (xs.map fun _ => 0)
  | f :: t => do
    let y ← call f xs
    t.foldlM (fun acc g => do
      let yg ← call g xs
      pure (addSig acc yg)) y

/-- `reduce(operator.mul, polys)` — no initial value: TypeError without filters -/
def prodPolys : List (MPoly α) → Except PyErr (MPoly α)
  | [] => .error .type
  | p :: t => .ok (t.foldl C07.mul p)

/-- `CascadeFilter.numpoly` / `.denpoly` -/
def cascadeNumpoly (fs : List (ZF α)) : Except PyErr (MPoly α) := prodPolys (fs.map (·.num))
def cascadeDenpoly (fs : List (ZF α)) : Except PyErr (MPoly α) := prodPolys (fs.map (·.den))

/-- `reduce(operator.add, self)` on the filters themselves -/
def sumFilters : List (ZF α) → Except PyErr (ZF α)
  | [] => .error .type
  | f :: t => t.foldlM add f

/-- `ParallelFilter.numpoly` : `reduce(operator.add, self).numpoly` -/
def parallelNumpoly (fs : List (ZF α)) : Except PyErr (MPoly α) := do
  let s ← sumFilters fs
  pure s.num

/-- `ParallelFilter.denpoly` as coded: the product of all denominators (defect D12: the
numerator comes from a sum that may have taken the same-denominator shortcut) -/
def parallelDenpoly (fs : List (ZF α)) : Except PyErr (MPoly α) := prodPolys (fs.map (·.den))

/-- the repair proposed for D12: both polynomials from the same reduced sum -/
def parallelDenpolyFixed (fs : List (ZF α)) : Except PyErr (MPoly α) := do
  let s ← sumFilters fs
  pure s.den

/-! ### comparison and hashing -/

/-- `LinearFilter.__eq__` -/
def eq (f g : ZF α) : Bool := C07.eq f.num g.num && C07.eq f.den g.den

/-- `LinearFilter.__ne__` as coded: `num != num' and den != den'` (defect D2) -/
def ne (f g : ZF α) : Bool := C07.ne f.num g.num && C07.ne f.den g.den

/-- the repair proposed for D2: `not (self == other)` -/
def neFixed (f g : ZF α) : Bool := !(eq f g)

/-- `LinearFilter.__hash__` = `hash(tuple(numdict) + tuple(dendict))`: the tuple of a dict is
the tuple of its keys, so the hashed value is the list of sorted powers of both polynomials
(CPython's `hash` of that tuple is trusted). -/
def hashKey (f : ZF α) : List Int := keys (sortAsc f.num) ++ keys (sortAsc f.den)

/-- `LinearFilter.linearize` on a filter whose delays are all integers: every term gives the single
pair `(int(k), v)`, the two dictionaries are rebuilt in `terms()` order and handed to the
constructor again (fractional delays, which `linearize` splits between the two neighbouring
integer delays with float weights, are outside this model) -/
def linearize (f : ZF α) : Except PyErr (ZF α) := ofData (sortAsc f.num) (sortAsc f.den)

/-- `LinearFilter.is_causal` : only the numerator is looked at (the constructor has normalised
the denominator) -/
def isCausal (f : ZF α) : Bool := isPolynomial f.num

end Arith
end ALV.C05
