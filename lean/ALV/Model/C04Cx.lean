/-
  C04 — model, part 3: coefficient KINDS and call SHAPES of `LinearFilter.__call__` (code shaped,
  Mathlib-free, executable).

  * `compilePlain`  — the generated source WITHOUT any special case: every coefficient (zero, one,
    minus one included) is written as a product `{c} * d{k}` / `-{c} * m{k}`, the gain always as
    `(expr) / {gain}`.  It is the reference against which the special-casing of `__call__`
        elif coeff == 1: "d{k}"   elif coeff == -1: "-d{k}"   elif coeff != 0: "{c} * d{k}"
    is proved semantically neutral for EVERY element of a field (`Props.C04.special_cases_neutral`):
    in particular a non-real coefficient of modulus one (`1j`) is not `1` and not `-1`, so it is
    multiplied.
  * `numAtomsBy u` / `denAtomsBy u` / `compileBy u` — the same string building with the test
    "is this coefficient unitary?" left open (`u : α → Bool`): `u c = (c = 1 ∨ c = -1)` is the code;
    `u c = (|c| = 1)` is the refactoring `abs(coeff) == 1` — sound exactly when `u c → c = 1 ∨ c = -1`
    (`Props.C04.unit_test_sound_iff`), which fails in ℚ(i).
  * `CallArgs`-level defaults: `ZFilter(num)` has denominator `{0: 1}`, `filt(seq)` has `memory=None`
    and `zero=0.` (`filterCallD`).
  * `GRat` (re-exported from the C12 model): the executable Gaussian rationals ℚ(i) the driver runs
    `compile` / `evalIR` / `specCall` on for complex coefficients and samples.
-/
import ALV.Model.C04
import ALV.Spec.C04
import ALV.Model.C12
namespace ALV.C04
variable {α : Type}

/-- the driver's complex number type: exact Gaussian rationals -/
abbrev GRat := ALV.C12.GRat

/-- the imaginary unit of ℚ(i) -/
def gi : GRat := ⟨0, 1⟩

section plain
variable [Neg α] [OfNat α 0] [OfNat α 1] [DecidableEq α]

/-- numerator summands without special cases: `{c} * d{k}` for every coefficient -/
def plainNum : Nat → List α → List (Atom α)
  | _, [] => []
  | k, c :: cs => Atom.mul c (.d k) :: plainNum (k + 1) cs

/-- denominator summands without special cases: `-{c} * m{k}` for every coefficient -/
def plainDen : Nat → List α → List (Atom α)
  | _, [] => []
  | k, c :: cs => Atom.negMul c (.m k) :: plainDen (k + 1) cs

/-- the generated loop without any special case (never the constant loop) -/
def compilePlain (b a : List α) : IR α :=
  .loop (a.length - 1) (b.length - 1) (plainNum 0 b ++ plainDen 1 a.tail) (Gain.div (a.headD 0))
    (mShifts (a.length - 1) ++ dShifts (b.length - 1))

/-- numerator part of `data_sum` with the unit test `u` ("leave the multiplication out") -/
def numAtomsBy (u : α → Bool) : Nat → List α → List (Atom α)
  | _, [] => []
  | k, c :: cs =>
    (if u c then (if c = 1 then [Atom.var (.d k)] else [Atom.neg (.d k)])
     else if c ≠ 0 then [Atom.mul c (.d k)]
     else []) ++ numAtomsBy u (k + 1) cs

/-- denominator part of `data_sum` with the unit test `u` (feedback terms are subtracted) -/
def denAtomsBy (u : α → Bool) : Nat → List α → List (Atom α)
  | _, [] => []
  | k, c :: cs =>
    (if u c then (if c = -1 then [Atom.var (.m k)] else [Atom.neg (.m k)])
     else if c ≠ 0 then [Atom.negMul c (.m k)]
     else []) ++ denAtomsBy u (k + 1) cs

/-- `compile` with the unit test left open -/
def compileBy (u : α → Bool) (b a : List α) (zero : α) : IR α :=
  let sum := numAtomsBy u 0 b ++ denAtomsBy u 1 a.tail
  if sum.isEmpty then .constLoop zero
  else
    let gain := a.headD 0
    let g := if gain = -1 then Gain.negOne else if gain ≠ 1 then Gain.div gain else Gain.one
    .loop (a.length - 1) (b.length - 1) sum g (mShifts (a.length - 1) ++ dShifts (b.length - 1))

/-- the unit test of the code: `coeff == 1` / `coeff == -1` -/
def isPlusMinusOne (c : α) : Bool := decide (c = 1) || decide (c = -1)

end plain

/-! ### call shapes: omitted arguments -/
section defaults
variable [Add α] [Mul α] [Sub α] [Neg α] [Div α] [OfNat α 0] [OfNat α 1] [DecidableEq α]

/-- `ZFilter(numerator, denominator=None)(seq, memory=None, zero=0.)`: every argument but the
numerator and the input may be left out -/
def filterCallD (numPairs : List (Int × α)) (denPairs : Option (List (Int × α)))
    (mem : Option (Mem α)) (zero : Option α) (xs : List α) : Except Err (List α) :=
  filterCall numPairs (denPairs.getD [(0, 1)]) (mem.getD Mem.none) (zero.getD 0) xs

/-- the contract with the documented defaults: denominator 1, no memory, zero value 0 -/
def specCallD (numPairs : List (Int × α)) (denPairs : Option (List (Int × α)))
    (mem : Option (Mem α)) (zero : Option α) (xs : List α) : Except Err (List α) :=
  specCall numPairs (match denPairs with | some d => d | none => [(0, 1)])
    (match mem with | some m => m | none => Mem.none)
    (match zero with | some z => z | none => 0) xs

end defaults

/-! ### `LinearFilter.__init__` argument shapes, attribute-assigned polynomials -/
section shapes
variable [Add α] [Mul α] [Sub α] [Neg α] [Div α] [OfNat α 0] [OfNat α 1] [DecidableEq α]

/-- what `Poly(data)` receives: nothing, a number (`{0: number}`), a list (`enumerate`), a dict /
OrderedDict / Poly (its items) -/
inductive CoefArg (α : Type) where
  | none
  | number (c : α)
  | list (l : List α)
  | dict (pairs : List (Int × α))

/-- `Poly.__init__`: the (power, coefficient) pairs of the data -/
def CoefArg.pairs : CoefArg α → List (Int × α)
  | .none => []
  | .number c => [(0, c)]
  | .list l => enumFrom 0 l
  | .dict p => p

/-- `ZFilter(filt, c)` = `filt / c` = `filt * (1 / c)` for a scalar `c`: every numerator coefficient
is multiplied by `1 / c`; `1 / 0` raises at construction -/
def castDiv (numPairs : List (Int × α)) (c : α) : Except Err (List (Int × α)) :=
  if c = 0 then .error .zeroDivision else .ok (numPairs.map fun kv => (kv.1, kv.2 * (1 / c)))

/-- a filter object whose `numpoly` / `denpoly` were ASSIGNED (no `__init__` normalisation): the
call as coded -/
def callRaw (numPairs denPairs : List (Int × α)) (mem : Mem α) (zero : α) (xs : List α) :
    Except Err (List α) :=
  call (mkPoly numPairs) (mkPoly denPairs) mem zero xs

/-- … and what is to be expected of it: a negative delay ⇒ ValueError (the property), `a[0] = 0`
(missing or stored zero) ⇒ ZeroDivisionError "Invalid filter gain" (outside the property's
quantifier `a[0] non-zero`; as coded), otherwise the contract -/
def specCallRaw (numPairs denPairs : List (Int × α)) (mem : Mem α) (zero : α) (xs : List α) :
    Except Err (List α) :=
  if (keysNZ numPairs ++ keysNZ denPairs).any (fun k => decide (k < 0)) then .error .valueError
  else if coefLast denPairs 0 = 0 then .error .zeroDivision
  else specCall numPairs denPairs mem zero xs

end shapes

/-- normSq of a Gaussian rational is 1: the refactoring's `abs(coeff) == 1` -/
def unitModulus (c : GRat) : Bool := decide (c.re * c.re + c.im * c.im = 1)

/-! ### the instances the driver executes (only the model's own `GRat` operations are in scope here) -/

/-- `ZFilter(num, den)(xs, memory, zero)` over ℚ(i), as coded -/
def gaussFilterCall (n d : List (Int × GRat)) (mem : Mem GRat) (zero : GRat) (xs : List GRat) :
    Except Err (List GRat) := filterCall n d mem zero xs

/-- the contract over ℚ(i) -/
def gaussSpecCall (n d : List (Int × GRat)) (mem : Mem GRat) (zero : GRat) (xs : List GRat) :
    Except Err (List GRat) := specCall n d mem zero xs

/-- the generated loop for dense coefficient lists over ℚ(i), run on a memory of `lm` items -/
def gaussEval (b a : List GRat) (zero : GRat) (mem xs : List GRat) : List GRat :=
  evalIR (compile b a zero) mem zero xs

/-- the same with the unit test left open -/
def gaussEvalBy (u : GRat → Bool) (b a : List GRat) (zero : GRat) (mem xs : List GRat) : List GRat :=
  evalIR (compileBy u b a zero) mem zero xs

end ALV.C04
