/-
  C13 — the CALLS of the design functions (code shaped), on top of the design formulas of
  `ALV/Model/C13.lean`.  Core Lean only; executable at `Float`.

  A design function is a `StrategyDict`: `lowpass(c)` is `lowpass.default(c)`, every strategy has
  aliases, and several parameters may be left out:

      lowpass(cutoff)                      = lowpass.pole(cutoff)          (lazy_filters.py: `lowpass.default = lowpass.pole`)
      highpass(cutoff)                     = highpass.z(cutoff)            (`highpass.default = highpass.z`)
      resonator(freq, bandwidth)           = resonator.poles_exp(...)      (first strategy registered)
      comb(delay, alpha)                   = comb.fb(delay, alpha)         (first strategy registered)
      comb.fb(delay) / comb.ff(delay)        alpha = 1
      comb.tau(delay)                        tau = inf, "which means alpha = 1" (docstring)
      gammatone(freq, bandwidth)           = gammatone.sampled(freq, bandwidth, phase=0, eta=4)
      erb(freq)                            = erb.gm90(freq, Hz=None):  freq < 7 raises ValueError, else Hz = 1

  An omitted parameter is `none`; the functions below say which value the code then uses.  The
  driver runs them at `Float` against the real calls WITH the parameter left out, and the theorems
  (`ALV/Props/C13.lean`, section 12) are about the same terms.

  Also here: the time-domain run of a designed filter (`runFilter`: the difference equation solver
  `ALV.C04.fspec` on the designed coefficient lists with zero memory) — the function the driver
  evaluates for the entries `comb`, `combhist`, `run`.
-/
import ALV.Model.C13
import ALV.Spec.C04
namespace ALV.C13
open ALV

/-- Python's `x < y` on numbers (`if freq < 7`) -/
class LtTest (α : Type) where
  lt : α → α → Bool

instance : LtTest Float := ⟨fun x y => x < y⟩

/-- the strategies of the `erb` StrategyDict -/
inductive ErbStrategy where
  | gm90 | mg83
deriving DecidableEq, Repr

/-- the strategies of the `comb` StrategyDict -/
inductive CombStrategy where
  | fb | tau | ff
deriving DecidableEq, Repr

section generic
variable {α : Type} [TrigField α] [ZeroTest α]
open TrigField

/-- `erb[strategy](freq, Hz)` with both parameters given -/
def erb : ErbStrategy → α → α → α
  | .gm90 => erbGm90
  | .mg83 => erbMg83

/-- `erb[strategy or default](freq, Hz=None)`:
    `if Hz is None: if freq < 7: raise ValueError(...); Hz = 1` and then the formula.
    `Except.error ()` is the `ValueError`. -/
def erbCall [LtTest α] (st : Option ErbStrategy) (freq : α) (Hz : Option α) : Except Unit α :=
  let f := erb (st.getD .gm90)
  match Hz with
  | none => if LtTest.lt freq (ofInt 7) then .error () else .ok (f freq c1)
  | some hz => .ok (f freq hz)

/-- `erb[...](freqs, Hz)` for an EAGER container of frequencies (list / tuple; `@elementwise("freq", 0)` builds
    `type(freqs)(erb(x, Hz) for x in freqs)`): the items in order; the first refusal is the whole call's -/
def erbCallList [LtTest α] (st : Option ErbStrategy) : List α → Option α → Except Unit (List α)
  | [], _ => .ok []
  | f :: fs, hz =>
    match erbCall st f hz with
    | .error e => .error e
    | .ok v =>
      match erbCallList st fs hz with
      | .error e => .error e
      | .ok vs => .ok (v :: vs)

/-- the same for a LAZY container (Stream / generator): item `k` is computed when it is read; what a reader gets
    item by item, up to and including the first refusal -/
def erbCallLazy [LtTest α] (st : Option ErbStrategy) : List α → Option α → List (Except Unit α)
  | [], _ => []
  | f :: fs, hz =>
    match erbCall st f hz with
    | .error e => [.error e]
    | .ok v => .ok v :: erbCallLazy st fs hz

/-- `n` consecutive `next()` on the lazy result: `none` = `StopIteration` — the generator has ended, after its last
    item or after the item it refused (a generator that raised is finished: the frequencies behind a refused one are
    never looked at, and reading on does not raise again) -/
def erbLazyReads [LtTest α] (st : Option ErbStrategy) (fs : List α) (hz : Option α) (n : Nat) :
    List (Option (Except Unit α)) :=
  (List.range n).map fun k => (erbCallLazy st fs hz)[k]?

/-- `lowpass(cutoff)` / `lowpass[strategy](cutoff)` -/
def lowpassCall (st : Option Strategy) (cutoff : α) : Coefs α := lowpass (st.getD .pole) cutoff

/-- `highpass(cutoff)` / `highpass[strategy](cutoff)` -/
def highpassCall (st : Option Strategy) (cutoff : α) : Coefs α := highpass (st.getD .z) cutoff

/-- `resonator(freq, bandwidth)` / `resonator[strategy](freq, bandwidth)` -/
def resonatorCall (st : Option ResStrategy) (freq bandwidth : α) : Coefs α :=
  resonator (st.getD .polesExp) freq bandwidth

/-- `comb(delay[, p])` / `comb[strategy](delay[, p])`:  `alpha=1` for fb / ff; `tau=inf` for tau,
    documented as "which means alpha = 1" (at `Float`: `e ** (-delay / inf) = e ** -0.0 = 1.0`) -/
def combCall (st : Option CombStrategy) (delay : Nat) (p : Option α) : Coefs α :=
  match st.getD .fb, p with
  | .fb, p => combFb delay (p.getD c1)
  | .ff, p => combFf delay (p.getD c1)
  | .tau, some tau => combTau delay tau
  | .tau, none => combFb delay c1

/-- `gammatone(freq, bandwidth)` / `gammatone.sampled(freq, bandwidth, phase=0, eta=4)` -/
def gammatoneSampledCall (freq bandwidth : α) (phase : Option α) (eta : Option Nat) : List (Coefs α) :=
  gammatoneSampled freq bandwidth (phase.getD c0) (eta.getD 4)

/-! ### time domain -/

/-- a designed filter called on a signal, zero memory:  the difference equation
    `a0·y[n] = Σ b_k x[n-k] - Σ_{k≥1} a_k y[n-k]` solved by `ALV.C04.fspec` on the coefficient lists
    the design returned (an empty denominator cannot be run: no output). -/
def runFilter [OfNat α 0] (s : Coefs α) (xs : List α) : List α :=
  match s.den with
  | [] => []
  | a0 :: as => ALV.C04.fspec s.num as a0 0 (List.replicate as.length 0) [] xs

/-- a `CascadeFilter` called on a signal: section after section -/
def runCascade [OfNat α 0] (ss : List (Coefs α)) (xs : List α) : List α :=
  ss.foldl (fun acc s => runFilter s acc) xs

end generic
end ALV.C13
