/-
  C07 — histories.  `Poly` objects are MUTABLE until they are hashed
  (`p[k] = c`, the `zero` setter), and the caller keeps, mutates and re-uses
  the objects that earlier operations returned.  A history is a sequence of
  operations on a small heap:

    heap : address ↦ object (`_data`, "has `_hash`")
    pool : the caller's variables, `pool[i]` = address of the i-th object ever
           obtained (initial objects, then one entry per object-returning step)
    srcs : the caller's own containers (lists / dicts) handed to `Poly(...)`

  Every operation of `lazy_poly.Poly` allocates a new object for its result,
  with ONE exception that the code has and the model reproduces:
  `p ** n` with at least two terms and `n ≤ 1`, `n ≠ 0`, is
  `reduce(operator.mul, [] + [self])`, i.e. the object `p` itself.

  A step is decided from the CURRENT contents of its operands only (`act`) and
  then applied to the heap (`apply`).  Core Lean only; executable.
-/
import ALV.Model.C07
namespace ALV.C07

/-- one `Poly` instance: `_data` and whether `_hash` has been set -/
structure Obj (α : Type) where
  data : MPoly α
  hashed : Bool
  deriving DecidableEq, Repr

structure HState (α : Type) where
  heap : List (Obj α)
  pool : List Nat
  srcs : List (List (Int × α))

inductive UnOp where
  | neg | pos | copy | ctor
  deriving DecidableEq, Repr

inductive BinOp where
  | add | sub | mul
  deriving DecidableEq, Repr

inductive ScalOp where
  | adds | radds | subs | rsubs | muls | rmuls
  deriving DecidableEq, Repr

/-- the operations of a history; `i j` are pool indices, `s` a source index -/
inductive HOp (α : Type) where
  | mk (pairs : List (Int × α))              -- `Poly(OrderedDict(pairs), zero)`
  | ofList (cs : List α)                     -- `Poly(list, zero)`
  | const (c : α)                            -- `Poly(number, zero)`
  | fromSrc (s : Nat)                        -- `Poly(srcs[s], zero)`: the caller's own container
  | srcSet (s : Nat) (k : Int) (c : α)       -- the caller changes his own container afterwards
  | un (u : UnOp) (i : Nat)                  -- `-p`, `+p`, `p.copy()`, `Poly(p)`
  | bin (b : BinOp) (i j : Nat)
  | scal (s : ScalOp) (i : Nat) (c : α)
  | divs (i : Nat) (c : α)
  | div (i j : Nat)
  | pow (i : Nat) (n : Int) (floatExp : Bool)    -- `floatExp`: the exponent is a float `n.0`
  | comp (i j : Nat)                         -- `p(q)`
  | call (i : Nat) (v : α) (h : Horner)      -- `p(v, horner=h)`
  | diff (i : Nat) (n : Nat)
  | integ (i : Nat)
  | setitem (i : Nat) (k : Int) (c : α)      -- `p[k] = c`
  | setzero (i : Nat)                        -- `p.zero = 0` (a value equal to the zero it has)
  | hash (i : Nat)
  | eq (i j : Nat)
  | ne (i j : Nat)
  | eqs (i : Nat) (c : α)                    -- `p == number`

/-- what a step does, decided from the current contents -/
inductive Act (α : Type) where
  | alloc (p : MPoly α)            -- a new object holding `p` is returned
  | alias (a : Nat)                -- the existing object at address `a` is returned
  | store (a : Nat) (o : Obj α)    -- the object at address `a` is modified in place (nothing returned)
  | frozen (a : Nat) (o : Obj α) (key : MPoly α)   -- `hash(p)`: `_hash` is set; the hashed key is returned
  | num (v : α)
  | bool (b : Bool)
  | srcSet (s : Nat) (l : List (Int × α))
  | fail (e : PyErr)               -- the step raises; nothing changes
  | bad                            -- not a well-formed request (unknown index)

variable {α : Type}

/-- the object a pool index denotes, with its address -/
def HState.obj (st : HState α) (i : Nat) : Option (Nat × Obj α) :=
  match st.pool[i]? with
  | none => none
  | some a => match st.heap[a]? with
    | none => none
    | some o => some (a, o)

/-- current contents of the i-th variable -/
def HState.val (st : HState α) (i : Nat) : Option (MPoly α) := (st.obj i).map (·.2.data)

section Arith
variable [Add α] [Mul α] [Sub α] [Neg α] [Div α] [OfNat α 0] [OfNat α 1] [DecidableEq α]

def unOp : UnOp → MPoly α → MPoly α
  | .neg, p => neg p
  | .pos, p => pos p
  | .copy, p => mk p          -- `Poly(OrderedDict((k, v) for k, v in self._data.items()), zero)`
  | .ctor, p => mk p          -- `Poly(p)`: `OrderedDict(data._data)`, then compaction

def binOp : BinOp → MPoly α → MPoly α → MPoly α
  | .add, p, q => add p q
  | .sub, p, q => sub p q
  | .mul, p, q => mul p q

/-- operators with a number: the number is wrapped (`Poly(other)`), as `__add__`, `__mul__`,
    `__rbinary__` do -/
def scalOp : ScalOp → MPoly α → α → MPoly α
  | .adds, p, c => add p (ofScalar c)
  | .radds, p, c => add (ofScalar c) p
  | .subs, p, c => add p (ofScalar (-c))      -- `self + (-other)`
  | .rsubs, p, c => sub (ofScalar c) p
  | .muls, p, c => mul p (ofScalar c)
  | .rmuls, p, c => mul (ofScalar c) p

/-- `p ** n` returns `self` (no new object): at least two terms, `[self.copy()] * (n - 1)` empty -/
def powIsSelf (p : MPoly α) (n : Int) : Bool := decide (n ≠ 0) && decide (2 ≤ p.length) && decide (n ≤ 1)

def actOfExcept : Except PyErr (MPoly α) → Act α
  | .ok p => .alloc p
  | .error e => .fail e

/-- one step, as a function of the current contents of its operands -/
def act (st : HState α) : HOp α → Act α
  | .mk ps => .alloc (mk ps)
  | .ofList cs => .alloc (ofList cs)
  | .const c => .alloc (ofScalar c)
  | .fromSrc s => match st.srcs[s]? with
    | some l => .alloc (mk l)
    | none => .bad
  | .srcSet s k c => match st.srcs[s]? with
    | some l => .srcSet s (set l k c)
    | none => .bad
  | .un u i => match st.obj i with
    | some (_, o) => .alloc (unOp u o.data)
    | none => .bad
  | .bin b i j => match st.obj i, st.obj j with
    | some (_, o), some (_, o') => .alloc (binOp b o.data o'.data)
    | _, _ => .bad
  | .scal s i c => match st.obj i with
    | some (_, o) => .alloc (scalOp s o.data c)
    | none => .bad
  | .divs i c => match st.obj i with
    | some (_, o) => actOfExcept (divScalar o.data c)
    | none => .bad
  | .div i j => match st.obj i, st.obj j with
    | some (_, o), some (_, o') => actOfExcept (divPoly o.data o'.data)
    | _, _ => .bad
  | .pow i n fl => match st.obj i with
    | some (a, o) =>
      if n ≠ 0 ∧ 2 ≤ o.data.length ∧ fl then .fail .type     -- `[self.copy()] * (2.0 - 1)`
      else if powIsSelf o.data n then .alias a
      else .alloc (pow o.data n)
    | none => .bad
  | .comp i j => match st.obj i, st.obj j with
    | some (_, o), some (_, o') => .alloc (compose o.data o'.data)
    | _, _ => .bad
  | .call i v h => match st.obj i with
    | some (_, o) => .num (call o.data v h)
    | none => .bad
  | .diff i n => match st.obj i with
    | some (_, o) => .alloc (diff o.data n)
    | none => .bad
  | .integ i => match st.obj i with
    | some (_, o) => actOfExcept (integrate o.data)
    | none => .bad
  | .setitem i k c => match st.obj i with
    | some (a, o) => if o.hashed then .fail .type else .store a { o with data := setItem o.data k c }
    | none => .bad
  | .setzero i => match st.obj i with
    | some (a, o) => if o.hashed then .fail .type else .store a { o with data := compact o.data }
    | none => .bad
  | .hash i => match st.obj i with
    | some (a, o) => .frozen a { o with hashed := true } (hashKey o.data)
    | none => .bad
  | .eq i j => match st.obj i, st.obj j with
    | some (_, o), some (_, o') => .bool (eq o.data o'.data)
    | _, _ => .bad
  | .ne i j => match st.obj i, st.obj j with
    | some (_, o), some (_, o') => .bool (ne o.data o'.data)
    | _, _ => .bad
  | .eqs i c => match st.obj i with
    | some (_, o) => .bool (eq o.data (ofScalar c))
    | none => .bad

end Arith

/-- the effect of a step on the heap, the variables and the caller's containers -/
def apply (st : HState α) : Act α → HState α
  | .alloc p => { st with heap := st.heap ++ [{ data := p, hashed := false }], pool := st.pool ++ [st.heap.length] }
  | .alias a => { st with pool := st.pool ++ [a] }
  | .store a o => { st with heap := st.heap.set a o }
  | .frozen a o _ => { st with heap := st.heap.set a o }
  | .srcSet s l => { st with srcs := st.srcs.set s l }
  | .num _ => st
  | .bool _ => st
  | .fail _ => st
  | .bad => st

section Run
variable [Add α] [Mul α] [Sub α] [Neg α] [Div α] [OfNat α 0] [OfNat α 1] [DecidableEq α]

def hstep (st : HState α) (op : HOp α) : HState α := apply st (act st op)

/-- the state after a history -/
def hrun (st : HState α) (ops : List (HOp α)) : HState α := ops.foldl hstep st

/-- the observations of a history: what every step did, with the state it left -/
def htrace : HState α → List (HOp α) → List (Act α × HState α)
  | _, [] => []
  | st, op :: ops => (act st op, hstep st op) :: htrace (hstep st op) ops

/-- the address an in-place operation works on (`p[k] = c`, `p.zero = z`, `hash(p)`) -/
def target (st : HState α) : HOp α → Option Nat
  | .setitem i _ _ => (st.obj i).map (·.1)
  | .setzero i => (st.obj i).map (·.1)
  | .hash i => (st.obj i).map (·.1)
  | _ => none

/-- initial state: every initial object is its own, un-hashed instance -/
def HState.init (objs : List (MPoly α)) (srcs : List (List (Int × α))) : HState α :=
  { heap := objs.map (fun p => { data := p, hashed := false }), pool := List.range objs.length, srcs := srcs }

end Run
end ALV.C07
