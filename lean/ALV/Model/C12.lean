/-
  C12 — model of `LinearFilter.freq_response`, `CascadeFilter/ParallelFilter.freq_response`
  (lazy_filters.py), `Poly.__call__` as far as freq_response uses it (lazy_poly.py), `dft`
  (lazy_analysis.py) and the FIR instance of the generated filter loop (code shaped).
  Mathlib-free; executable.

  A filter is given as two dense coefficient lists `b`, `a` (index = delay k, i.e. Σ c_k z^-k),
  exactly what `ZFilter(b, a)` receives.  Everything is generic over a number type `α` with a
  distinguished point `w` standing for `z⁻¹ = exp(-1j*freq)`:

    LinearFilter.__init__ :  numpoly = Poly(b), denpoly = Poly(a)   (zero coefficients are not stored)
                             power = min(keys of denpoly)           (ValueError when a is all zero)
                             if power != 0: both polys *= x ** -power   (numerator may become Laurent)
    Poly.__call__(value)  :  no term → zero;  value == 0 → self[0];
                             all powers ≥ 0 → Horner-like scheme over the stored terms, highest
                               power first, steps merged over the gaps, finally `* value ** last_power`;
                             otherwise    → sum(coeff * value ** power)
    freq_response(freq)   :  z_ = exp(-1j*freq); num = numpoly(z_); den = denpoly(z_);
                             den == 0 → nan (here `none`), else num / den
    Cascade / Parallel    :  reduce(mul / add, responses)   (TypeError on an empty bank; a nan is absorbing)
    dft(blk, freqs, norm) :  [sum(xn * cexp(-1j*n*f) for n, xn in enumerate(blk)) (/ len(blk)) for f in freqs]

  Instances: `GRat` (Gaussian rationals, exact, used by the driver), any `[Field K]`, `ℂ` (proofs).
-/
namespace ALV.C12

/-! ### Gaussian rationals ℚ[i] (executable number type of the driver) -/

structure GRat where
  re : Rat
  im : Rat
deriving DecidableEq, Repr

namespace GRat
instance : OfNat GRat 0 := ⟨⟨0, 0⟩⟩
instance : OfNat GRat 1 := ⟨⟨1, 0⟩⟩
instance : Add GRat := ⟨fun x y => ⟨x.re + y.re, x.im + y.im⟩⟩
instance : Neg GRat := ⟨fun x => ⟨-x.re, -x.im⟩⟩
instance : Sub GRat := ⟨fun x y => ⟨x.re - y.re, x.im - y.im⟩⟩
instance : Mul GRat := ⟨fun x y => ⟨x.re * y.re - x.im * y.im, x.re * y.im + x.im * y.re⟩⟩
/-- `1/x = conj x / |x|²`  (and `1/0 = 0`, as in `Rat`) -/
def inv (x : GRat) : GRat :=
  let n := x.re * x.re + x.im * x.im
  ⟨x.re / n, -x.im / n⟩
instance : Div GRat := ⟨fun x y => x * inv y⟩
def ofRat (r : Rat) : GRat := ⟨r, 0⟩
def normSq (x : GRat) : Rat := x.re * x.re + x.im * x.im
end GRat

/-! ### generic arithmetic -/
section generic
variable {α : Type} [Add α] [Mul α] [Sub α] [Neg α] [Div α] [OfNat α 0] [OfNat α 1]

/-- `value ** k` for a natural `k` -/
def pw (w : α) : Nat → α
  | 0 => 1
  | k + 1 => pw w k * w

/-- `value ** k` for an integer `k` (Python: `1 / value ** -k` when `k < 0`) -/
def zpw (w : α) : Int → α
  | Int.ofNat k => pw w k
  | Int.negSucc k => 1 / pw w (k + 1)

/-- an `int` seen in the number type (`len(blk)` in `v / lblk`) -/
def natC : Nat → α
  | 0 => 0
  | n + 1 => natC n + 1

/-- The stored terms of a `Poly`: (power, coefficient), ascending powers. -/
abbrev Terms (α : Type) := List (Int × α)

/-- `Poly(list)`: term `k` is stored iff `c_k != zero`. -/
def polyFrom [DecidableEq α] (i : Nat) : List α → Terms α
  | [] => []
  | c :: cs => if c = 0 then polyFrom (i + 1) cs else ((i : Int), c) :: polyFrom (i + 1) cs

/-- `min(key for key, value in poly.terms())`, `none` for the empty polynomial (ValueError) -/
def minKey : Terms α → Option Int
  | [] => none
  | (k, _) :: ts => match minKey ts with
    | none => some k
    | some m => some (if k ≤ m then k else m)

/-- `poly * x ** -p` -/
def shiftTerms (p : Int) (ts : Terms α) : Terms α := ts.map fun t => (t.1 - p, t.2)

structure Filt (α : Type) where
  num : Terms α
  den : Terms α

/-- `Poly(dict)`: the entries in insertion order, those equal to zero are not stored -/
def compact [DecidableEq α] (ts : Terms α) : Terms α := ts.filter fun t => !(decide (t.2 = 0))

/-- second half of `LinearFilter.__init__`: the denominator's lowest power is moved to 0;
    `none` = ValueError (`min()` of no denominator term). -/
def finishFilter (num den : Terms α) : Option (Filt α) :=
  match minKey den with
  | none => none
  | some power =>
    if power ≠ 0 then some ⟨shiftTerms power num, shiftTerms power den⟩
    else some ⟨num, den⟩

/-- `LinearFilter.__init__(b, a)` for coefficient lists -/
def mkFilter [DecidableEq α] (b a : List α) : Option (Filt α) :=
  finishFilter (polyFrom 0 b) (polyFrom 0 a)

/-- `LinearFilter.__init__(num, den)` for `{delay: coefficient}` dicts (delays may be negative,
    any insertion order; keys are distinct) -/
def mkFilterTerms [DecidableEq α] (num den : Terms α) : Option (Filt α) :=
  finishFilter (compact num) (compact den)

/-- `sorted(self._data)` (ascending powers), by insertion -/
def insertTerm (t : Int × α) : Terms α → Terms α
  | [] => [t]
  | u :: us => if t.1 ≤ u.1 then t :: u :: us else u :: insertTerm t us

def sortTerms : Terms α → Terms α
  | [] => []
  | t :: ts => insertTerm t (sortTerms ts)

/-- `self[0]` -/
def coeffAt [DecidableEq α] : Terms α → Int → α
  | [], _ => 0
  | (k, c) :: ts, i => if k = i then c else coeffAt ts i

/-- `horner_step(old, new)` of `Poly.__call__` -/
def hornerStep (w : α) (old new : Int × α) : Int × α :=
  let scale := if old.1 = new.1 + 1 then w else zpw w (old.1 - new.1)
  (new.1, new.2 + old.2 * scale)

/-- `Poly.__call__(value)` for a number `value` -/
def evalPoly [DecidableEq α] (ts : Terms α) (w : α) : α :=
  match ts with
  | [] => 0                                   -- empty polynomial: self.zero
  | _ =>
    if w = 0 then coeffAt ts 0                -- evaluation for x = 0
    else if ts.all (fun t => decide (0 ≤ t.1)) then      -- is_polynomial(): Horner-like scheme
      match (sortTerms ts).reverse with      -- terms(sort=True, reverse=True)
      | [] => 0
      | t :: rest =>
        let r := rest.foldl (hornerStep w) t
        r.2 * zpw w r.1
    else                                      -- Laurent: sum(coeff * value ** power)
      (sortTerms ts).foldl (fun acc t => acc + t.2 * zpw w t.1) 0     -- terms(): sorted, Laurent

/-- `LinearFilter.freq_response` at the point `w = exp(-1j*freq)`; `none` = nan -/
def freqResponse [DecidableEq α] (f : Filt α) (w : α) : Option α :=
  let num := evalPoly f.num w
  let den := evalPoly f.den w
  if den = 0 then none else some (num / den)

/-- observable of `ZFilter(b, a).freq_response(freq)` -/
inductive Resp (α : Type) where
  | valueError            -- constructor raised (no denominator term)
  | typeError             -- reduce() of an empty bank
  | nan
  | val (v : α)
deriving DecidableEq, Repr

def respOfMk [DecidableEq α] (f : Option (Filt α)) (w : α) : Resp α :=
  match f with
  | none => .valueError
  | some f => match freqResponse f w with
    | none => .nan
    | some v => .val v

def respOfFilter [DecidableEq α] (b a : List α) (w : α) : Resp α := respOfMk (mkFilter b a) w

/-- observable of `ZFilter(num_dict, den_dict).freq_response(freq)` -/
def respOfTerms [DecidableEq α] (num den : Terms α) (w : α) : Resp α :=
  respOfMk (mkFilterTerms num den) w

/-- python `x * y` / `x + y` on responses where a float nan is absorbing -/
def Resp.combine (op : α → α → α) : Resp α → Resp α → Resp α
  | .val x, .val y => .val (op x y)
  | .valueError, _ => .valueError
  | _, .valueError => .valueError
  | .typeError, _ => .typeError
  | _, .typeError => .typeError
  | _, _ => .nan

/-- `reduce(op, (filt.freq_response(freq) for filt in self.callables))` -/
def reduceResp (op : α → α → α) : List (Resp α) → Resp α
  | [] => .typeError
  | r :: rs => rs.foldl (Resp.combine op) r

/-- `CascadeFilter(f1, f2, …).freq_response` at `w`; a bank is a list of (b, a) pairs -/
def cascadeResp [DecidableEq α] (bank : List (List α × List α)) (w : α) : Resp α :=
  reduceResp (· * ·) (bank.map fun f => respOfFilter f.1 f.2 w)

/-- `ParallelFilter(f1, f2, …).freq_response` at `w` -/
def parallelResp [DecidableEq α] (bank : List (List α × List α)) (w : α) : Resp α :=
  reduceResp (· + ·) (bank.map fun f => respOfFilter f.1 f.2 w)

/-- Banks nest: a member of a `CascadeFilter` / `ParallelFilter` may itself be a bank (its
    `freq_response` is called like a filter's). -/
inductive Bank (α : Type) where
  | filt (b a : List α)
  | cascade (members : List (Bank α))
  | parallel (members : List (Bank α))

mutual
/-- `bank.freq_response(freq)` at `w = exp(-1j*freq)`, recursively -/
def Bank.resp [DecidableEq α] (w : α) : Bank α → Resp α
  | .filt b a => respOfFilter b a w
  | .cascade ms => reduceResp (· * ·) (Bank.respList w ms)
  | .parallel ms => reduceResp (· + ·) (Bank.respList w ms)
/-- the generator `(filt.freq_response(freq) for filt in self.callables)` -/
def Bank.respList [DecidableEq α] (w : α) : List (Bank α) → List (Resp α)
  | [] => []
  | m :: ms => Bank.resp w m :: Bank.respList w ms
end

/-- `@elementwise("freq", 1)`: one call per element, in order, result container of the same kind -/
def elementwise {β γ : Type} (f : β → γ) (freqs : List β) : List γ := freqs.map f

/-! ### dft -/

/-- `sum(xn * cexp(-1j * n * f) for n, xn in enumerate(blk))`, the kernel `E n = cexp(-1j*n*f)` -/
def dftSumFrom (E : Nat → α) (n : Nat) (acc : α) : List α → α
  | [] => acc
  | x :: xs => dftSumFrom E (n + 1) (acc + x * E n) xs

def dftSum (E : Nat → α) (blk : List α) : α := dftSumFrom E 0 0 blk

/-- `dft(blk, freqs, normalize)`; `none` = ZeroDivisionError (empty block, normalised, some frequency) -/
def dft {φ : Type} (kern : φ → Nat → α) (blk : List α) (freqs : List φ) (normalize : Bool) :
    Option (List α) :=
  let data := freqs.map fun f => dftSum (kern f) blk
  if normalize then
    if blk.length = 0 ∧ freqs ≠ [] then none
    else some (data.map fun v => v / natC blk.length)
  else some data

/-! ### FIR instance of the generated filter loop (`a = [1]`, zero memory)

    def gen(seq, memory, zero):
      d1 = d2 = … = zero
      for d0 in seq:
        m0 = <c_i * d_i + c_j * d_j + …>       (stored numerator terms only)
        yield m0
        d{lb-1} = d{lb-2}; …; d1 = d0
-/

/-- `" + ".join(data_sum)` evaluated on the delay line `ds = [d0, d1, …]` -/
def firExpr (terms : List (Nat × α)) (ds : List α) : α :=
  match terms with
  | [] => 0                                   -- `yield zero` branch
  | t :: ts => ts.foldl (fun acc u => acc + u.2 * ds.getD u.1 0) (t.2 * ds.getD t.1 0)

def natTerms [DecidableEq α] (i : Nat) : List α → List (Nat × α)
  | [] => []
  | c :: cs => if c = 0 then natTerms (i + 1) cs else (i, c) :: natTerms (i + 1) cs

/-- the loop: `mem` holds d1 … d{lb-1} -/
def firLoop (terms : List (Nat × α)) : List α → List α → List α
  | _, [] => []
  | mem, x :: xs =>
    let ds := x :: mem
    firExpr terms ds :: firLoop terms (ds.dropLast) xs

/-- `ZFilter(b)(xs, zero=0)` -/
def firRun [DecidableEq α] (b : List α) (xs : List α) : List α :=
  firLoop (natTerms 0 b) (List.replicate (b.length - 1) 0) xs


/-! ### bank histories: `CascadeFilter` / `ParallelFilter` are mutable python lists

    class FilterList(list, …):
      callables = [(filt if callable(filt) else LinearFilter(filt)) for filt in self]    # on every use

    A history is a sequence of list operations and uses on the objects of a small heap: leaves
    (filters; a raw coefficient list is cast to `LinearFilter` on every use) and banks, whose
    members are references (indices) into the heap — the same object may be a member of several
    banks (a nested bank changed through an inner reference changes every bank that holds it).
    A use (`freq_response`, `numpoly`/`denpoly`, `is_lti`, calling the bank) reads the bank AS IT IS
    NOW: it is evaluated on the snapshot (the tree reachable from the bank at that moment) and
    never changes the heap. -/

/-- python's index rule of `l[i]` (`none` = IndexError) -/
def pyIndex (n : Nat) (i : Int) : Option Nat :=
  let k := if i < 0 then i + (n : Int) else i
  if 0 ≤ k ∧ k < (n : Int) then some k.toNat else none

/-- python's clamping of a slice bound / of the position of `list.insert` -/
def pyClamp (n : Nat) (i : Int) : Nat :=
  let k := if i < 0 then i + (n : Int) else i
  if k < 0 then 0 else if (n : Int) < k then n else k.toNat

/-- `slice(i, j).indices(n)` for step 1, as the half-open range that `l[i:j] = …` replaces -/
def pyBounds (n : Nat) (i j : Option Int) : Nat × Nat :=
  let lo := match i with | none => 0 | some i => pyClamp n i
  let hi := match j with | none => n | some j => pyClamp n j
  (lo, if hi < lo then lo else hi)

/-- the in-place operations of a python list (members are heap references) -/
inductive ListOp where
  | setitem (i : Int) (x : Nat)                         -- l[i] = x
  | append (x : Nat)
  | insert (i : Int) (x : Nat)
  | extend (xs : List Nat)
  | iadd (xs : List Nat)                                -- l += xs   (list.__iadd__, same object)
  | imul (k : Int)                                      -- l *= k  (NOT in place here, see `apply`)
  | pop (i : Option Int)
  | delitem (i : Int)                                   -- del l[i]
  | setslice (i j : Option Int) (xs : List Nat)         -- l[i:j] = xs
  | delslice (i j : Option Int)                         -- del l[i:j]
  | reverse
  | clear
  | swap (i j : Int)                                    -- l[i], l[j] = l[j], l[i]

inductive ListRes where
  | ok
  | popped (x : Nat)
  | fresh (ms : List Nat)                               -- a new list object with these members
  | indexError

def ListOp.apply : ListOp → List Nat → List Nat × ListRes
  | .setitem i x, l => match pyIndex l.length i with
    | none => (l, .indexError)
    | some k => (l.set k x, .ok)
  | .append x, l => (l ++ [x], .ok)
  | .insert i x, l => let k := pyClamp l.length i; (l.take k ++ x :: l.drop k, .ok)
  | .extend xs, l => (l ++ xs, .ok)
  | .iadd xs, l => (l ++ xs, .ok)
  -- `FilterList` defines `__mul__`, so CPython resolves `bank *= k` to `bank = bank.__mul__(k)`
  -- (a python-level `__mul__` fills the number slot, tried before list's sequence in-place slot):
  -- a NEW bank is bound to the name, the list object itself is unchanged.  (`+=` is in place.)
  | .imul k, l => (l, .fresh (if k ≤ 0 then [] else (List.replicate k.toNat l).flatten))
  | .pop none, l => match l.getLast? with
    | none => (l, .indexError)
    | some x => (l.dropLast, .popped x)
  | .pop (some i), l => match pyIndex l.length i with
    | none => (l, .indexError)
    | some k => (l.eraseIdx k, .popped (l.getD k 0))
  | .delitem i, l => match pyIndex l.length i with
    | none => (l, .indexError)
    | some k => (l.eraseIdx k, .ok)
  | .setslice i j xs, l => let (lo, hi) := pyBounds l.length i j; (l.take lo ++ xs ++ l.drop hi, .ok)
  | .delslice i j, l => let (lo, hi) := pyBounds l.length i j; (l.take lo ++ l.drop hi, .ok)
  | .reverse, l => (l.reverse, .ok)
  | .clear, _ => ([], .ok)
  | .swap i j, l => match pyIndex l.length i, pyIndex l.length j with
    | some a, some b => ((l.set a (l.getD b 0)).set b (l.getD a 0), .ok)
    | _, _ => (l, .indexError)

/-- an object of the heap -/
inductive Obj (α : Type) where
  | leaf (b a : List α)                                 -- a filter (or a raw coefficient list, a = [1])
  | bank (casc : Bool) (members : List Nat)             -- CascadeFilter / ParallelFilter

/-- the tree reachable from object `i` now (`none`: dangling reference or no fuel left) -/
def snap (heap : List (Obj α)) : Nat → Nat → Option (Bank α)
  | 0, _ => none
  | fuel + 1, i =>
    match heap[i]? with
    | none => none
    | some (.leaf b a) => some (.filt b a)
    | some (.bank c ms) =>
      match ms.mapM (snap heap fuel) with
      | none => none
      | some ts => some (if c then .cascade ts else .parallel ts)

/-- `Stream + Stream` -/
def zipAdd (xs ys : List α) : List α := List.zipWith (· + ·) xs ys

mutual
/-- `bank(xs, zero=0)` for banks whose leaves are FIR (`a = [1]`); `fir b xs` is the leaf's run.
    `none` = a leaf outside the modelled class. -/
def Bank.run [DecidableEq α] (fir : List α → List α → List α) : Bank α → List α → Option (List α)
  | .filt b a, xs => if a = [1] then some (fir b xs) else none
  | .cascade ms, xs => Bank.runSeq fir ms xs            -- reduce(lambda data, filt: filt(data), callables, xs)
  | .parallel ms, xs =>
    match Bank.runAll fir ms xs with
    | none => none
    | some [] => some (xs.map fun _ => 0)               -- Stream(zero for _ in xs)
    | some (y :: ys) => some (ys.foldl zipAdd y)        -- reduce(operator.add, …)
def Bank.runSeq [DecidableEq α] (fir : List α → List α → List α) : List (Bank α) → List α → Option (List α)
  | [], xs => some xs
  | m :: ms, xs => match Bank.run fir m xs with
    | none => none
    | some ys => Bank.runSeq fir ms ys
def Bank.runAll [DecidableEq α] (fir : List α → List α → List α) : List (Bank α) → List α → Option (List (List α))
  | [], _ => some []
  | m :: ms, xs => match Bank.run fir m xs, Bank.runAll fir ms xs with
    | some y, some ys => some (y :: ys)
    | _, _ => none
end

/-- a use of a bank; `φ` is the type of frequencies -/
inductive Query (φ α : Type) where
  | freq (fs : List φ)                                  -- bank.freq_response(fs)
  | polys (fs : List φ)                                 -- bank.numpoly(z) / bank.denpoly(z), z = exp(-1j*f)
  | isLti                                               -- bank.is_lti()
  | call (xs : List α)                                  -- list(bank(xs, zero=0))

inductive HOp (φ α : Type) where
  | upd (t : Nat) (op : ListOp)
  | use (t : Nat) (q : Query φ α)

/-- what one step of a history shows -/
inductive Obs (α : Type) where
  | members (ms : List Nat)                             -- the list after the operation
  | popped (x : Nat) (ms : List Nat)
  | fresh (new ms : List Nat)                           -- members of the new object, of the old one
  | indexError
  | resp (rs : List (Resp α))
  | bool (b : Bool)
  | out (ys : Option (List α))
  | stuck                                               -- not a bank / dangling reference
deriving DecidableEq

/-- a use, evaluated on a tree: `R w tree` the response, `fir` the leaf run -/
def answerTree [DecidableEq α] {φ : Type} (pt : φ → α) (R : α → Bank α → Resp α)
    (fir : List α → List α → List α) (tree : Bank α) : Query φ α → Obs α
  | .freq fs => .resp (elementwise (fun f => R (pt f) tree) fs)
  | .polys fs => .resp (elementwise (fun f => R (pt f) tree) fs)
  | .isLti => .bool true
  | .call xs => .out (Bank.run fir tree xs)

/-- a use of object `t` of the heap: evaluated on the snapshot of `t` -/
def answer [DecidableEq α] {φ : Type} (pt : φ → α) (R : α → Bank α → Resp α)
    (fir : List α → List α → List α) (heap : List (Obj α)) (t : Nat) (q : Query φ α) : Obs α :=
  match snap heap (heap.length + 1) t with
  | none => .stuck
  | some tree => answerTree pt R fir tree q

def stepH [DecidableEq α] {φ : Type} (pt : φ → α) (R : α → Bank α → Resp α)
    (fir : List α → List α → List α) (heap : List (Obj α)) : HOp φ α → List (Obj α) × Obs α
  | .upd t op =>
    match heap[t]? with
    | some (.bank c ms) =>
      let r := op.apply ms
      (heap.set t (.bank c r.1),
        match r.2 with
        | .ok => .members r.1
        | .popped x => .popped x r.1
        | .fresh new => .fresh new r.1
        | .indexError => .indexError)
    | _ => (heap, .stuck)
  | .use t q => (heap, answer pt R fir heap t q)

/-- the observations of a history, one per step -/
def runH [DecidableEq α] {φ : Type} (pt : φ → α) (R : α → Bank α → Resp α)
    (fir : List α → List α → List α) (heap : List (Obj α)) : List (HOp φ α) → List (Obs α)
  | [] => []
  | op :: ops => (stepH pt R fir heap op).2 :: runH pt R fir (stepH pt R fir heap op).1 ops

/-- the heap after a history -/
def finalHeap [DecidableEq α] {φ : Type} (pt : φ → α) (R : α → Bank α → Resp α)
    (fir : List α → List α → List α) (heap : List (Obj α)) : List (HOp φ α) → List (Obj α)
  | [] => heap
  | op :: ops => finalHeap pt R fir (stepH pt R fir heap op).1 ops

/-- the model of a history: uses evaluated as coded (`Bank.resp`, the FIR loop) -/
def histModel [DecidableEq α] {φ : Type} (pt : φ → α) (heap : List (Obj α)) (ops : List (HOp φ α)) :
    List (Obs α) := runH pt (fun w t => Bank.resp w t) firRun heap ops

end generic
end ALV.C12
