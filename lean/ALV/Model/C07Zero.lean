/-
  C07 — the `zero` attribute of `Poly` and the SPELLING of numbers, inside the model.

  `Model/C07.lean` is generic in a field and has one zero, `0`.  The real class carries a `zero`
  attribute that the caller spells (`zero=0`, `0.0`, `Fraction(0)`, `False`, `0j`, even `[]`), which
  every result inherits from somewhere, which `__eq__` compares with `==` and `__hash__` hashes.
  Here the values are Python numbers TAGGED with their kind, with Python's value semantics:

    PyNum       bool / int / Fraction / float / complex, the value an exact (Gaussian) rational;
                `==` is numerical equality across kinds; `hash` is CPython's numeric hash
                (`sys.hash_info.modulus = 2^61 - 1`), a function of the value by design;
                `+ - * / **` return the kind Python's numeric tower returns
                (bool op bool = int, int / int = float, int ** -n = float, Fraction ⊂ float ⊂ complex).
                A float is exact in the model; the flag `exact` records whether IEEE double arithmetic
                would have produced exactly that value (the harness compares exactly only then).
    PyVal       a number, or one of the unhashable zeros `[]`, `{}` that the library accepts.
    ZPoly       `_data` (insertion ordered, integer powers) and `_zero`, every operation as coded in
                `lazy_poly.py`: which zero the result inherits, compaction against THAT zero with `==`.
    ZState      a heap of instances (mutable until hashed) and the caller's variables; `ZOp` = every way of
                creating / combining / observing a Poly.

  Core Lean only; executable.
-/
import ALV.Model.C07
import ALV.Model.C07Hist
namespace ALV.C07

/-! ## Python numbers -/

inductive PyNum where
  | bool (b : Bool)
  | int (n : Int)
  | frac (q : Rat)
  | float (q : Rat) (exact : Bool)
  | cplx (re im : Rat) (exact : Bool)
  deriving DecidableEq, Repr

namespace PyNum

def re : PyNum → Rat
  | .bool b => if b then 1 else 0
  | .int n => (n : Rat)
  | .frac q => q
  | .float q _ => q
  | .cplx r _ _ => r

def im : PyNum → Rat
  | .cplx _ i _ => i
  | _ => 0

/-- position in the numeric tower -/
def rank : PyNum → Nat
  | .bool _ => 0
  | .int _ => 1
  | .frac _ => 2
  | .float _ _ => 3
  | .cplx _ _ _ => 4

def isExact : PyNum → Bool
  | .float _ e => e
  | .cplx _ _ e => e
  | _ => true

/-- Python's `a == b` on numbers of any two kinds: numerical equality -/
def eq (a b : PyNum) : Bool := decide (a.re = b.re) && decide (a.im = b.im)

def isZero (a : PyNum) : Bool := decide (a.re = 0) && decide (a.im = 0)

/-- the integer behind a bool / an int -/
def asInt? : PyNum → Option Int
  | .bool b => some (if b then 1 else 0)
  | .int n => some n
  | _ => none

/-! ### which rationals are IEEE doubles (normal range) -/

def stripTwos : Nat → Nat → Nat
  | 0, n => n
  | f + 1, n => if n % 2 = 0 ∧ n ≠ 0 then stripTwos f (n / 2) else n

def isPow2 (d : Nat) : Bool := d != 0 && stripTwos 1100 d == 1

/-- `q` is a double: `m · 2^e` with `|m| < 2^53` (conservative exponent range, no subnormals) -/
def isDouble (q : Rat) : Bool :=
  let n := q.num.natAbs
  isPow2 q.den && decide (q.den ≤ 2 ^ 1000) && decide (n < 2 ^ 1000) && decide (stripTwos 1100 n < 2 ^ 53)

/-- can this operand be turned into a double without rounding (int / Fraction meeting a float) -/
def convExact (a : PyNum) : Bool :=
  match a with
  | .float _ e => e
  | .cplx _ _ e => e
  | x => isDouble x.re

def mkFloat (q : Rat) (ok : Bool) : PyNum := .float q (ok && isDouble q)
def mkCplx (r i : Rat) (ok : Bool) : PyNum := .cplx r i (ok && isDouble r && isDouble i)

/-- a result of the kind `k` of the tower (`k ≥ 1`) with value `r + i·j` -/
def ofRank (k : Nat) (r i : Rat) (ok : Bool) : PyNum :=
  if k ≤ 2 then .frac r else if k = 3 then mkFloat r ok else mkCplx r i ok

def add (a b : PyNum) : PyNum :=
  match a.asInt?, b.asInt? with
  | some m, some n => .int (m + n)
  | _, _ => ofRank (max a.rank b.rank) (a.re + b.re) (a.im + b.im) (a.convExact && b.convExact)

def sub (a b : PyNum) : PyNum :=
  match a.asInt?, b.asInt? with
  | some m, some n => .int (m - n)
  | _, _ => ofRank (max a.rank b.rank) (a.re - b.re) (a.im - b.im) (a.convExact && b.convExact)

def mul (a b : PyNum) : PyNum :=
  match a.asInt?, b.asInt? with
  | some m, some n => .int (m * n)
  | _, _ =>
    let k := max a.rank b.rank
    if k ≤ 3 then ofRank k (a.re * b.re) 0 (a.convExact && b.convExact)
    else
      -- complex product: four real products, each one rounded
      let ok := a.convExact && b.convExact && isDouble (a.re * b.re) && isDouble (a.im * b.im) &&
        isDouble (a.re * b.im) && isDouble (a.im * b.re)
      mkCplx (a.re * b.re - a.im * b.im) (a.re * b.im + a.im * b.re) ok

def neg : PyNum → PyNum
  | .bool b => .int (if b then -1 else 0)
  | .int n => .int (-n)
  | .frac q => .frac (-q)
  | .float q e => .float (-q) e
  | .cplx r i e => .cplx (-r) (-i) e

/-- `+v` (`operator.pos`): a bool becomes an int -/
def pos : PyNum → PyNum
  | .bool b => .int (if b then 1 else 0)
  | x => x

/-- `a / b` (true division); the caller has excluded a zero divisor (ZeroDivisionError) -/
def div (a b : PyNum) : PyNum :=
  match a.asInt?, b.asInt? with
  | some m, some n => mkFloat ((m : Rat) / (n : Rat)) true       -- int / int: a correctly rounded float
  | _, _ =>
    let k := max a.rank b.rank
    if k ≤ 3 then ofRank k (a.re / b.re) 0 (a.convExact && b.convExact)
    else if b.im = 0 then
      mkCplx (a.re / b.re) (a.im / b.re) (a.convExact && b.convExact)
    else
      let d := b.re * b.re + b.im * b.im
      .cplx ((a.re * b.re + a.im * b.im) / d) ((a.im * b.re - a.re * b.im) / d) false

def rpow (q : Rat) : Nat → Rat
  | 0 => 1
  | n + 1 => rpow q n * q

def ipow (m : Int) : Nat → Int
  | 0 => 1
  | n + 1 => ipow m n * m

/-- `q ** n` on rationals, any integer `n` (`q ≠ 0` for `n < 0`) -/
def rpowInt (q : Rat) (n : Int) : Rat := if 0 ≤ n then rpow q n.toNat else 1 / rpow q (-n).toNat

/-- complex `(r + i j) ** n`, `n ≥ 0`, by repeated multiplication -/
def cpow (r i : Rat) : Nat → Rat × Rat
  | 0 => (1, 0)
  | n + 1 => let p := cpow r i n; (p.1 * r - p.2 * i, p.1 * i + p.2 * r)

/-- `v ** n` with an `int` (or `bool`) exponent `n`; the caller has excluded `0 ** negative` -/
def powInt (v : PyNum) (n : Int) : PyNum :=
  match v.asInt? with
  | some m => if 0 ≤ n then .int (ipow m n.toNat) else mkFloat (rpowInt (m : Rat) n) (isDouble (m : Rat))
  | none =>
    match v with
    | .frac q => .frac (rpowInt q n)
    | .float q e => mkFloat (rpowInt q n) e
    | .cplx r i e =>
      if i = 0 then mkCplx (rpowInt r n) 0 e
      else
        let p := cpow r i n.natAbs
        if 0 ≤ n then .cplx p.1 p.2 (e && decide (n ≤ 1))
        else
          let d := p.1 * p.1 + p.2 * p.2
          .cplx (p.1 / d) (-p.2 / d) false
    | x => x

/-- `v ** float(n)`: a float (a complex for a complex base) -/
def powFloat (v : PyNum) (n : Int) : PyNum :=
  match powInt v n with
  | .cplx r i e => .cplx r i e
  | x => mkFloat x.re (v.convExact && x.isExact)

instance : Add PyNum := ⟨add⟩
instance : Sub PyNum := ⟨sub⟩
instance : Mul PyNum := ⟨mul⟩
instance : Neg PyNum := ⟨neg⟩
instance : Div PyNum := ⟨div⟩
instance : OfNat PyNum 0 := ⟨.int 0⟩
instance : OfNat PyNum 1 := ⟨.int 1⟩

/-! ### CPython's hash of a number (`Objects/longobject.c`, `Python/pyhash.c`, `fractions.py`) -/

def P61 : Nat := 2 ^ 61 - 1

/-- `pow(b, e, m)` by square and multiply -/
def powMod (b e m : Nat) : Nat :=
  let rec go : Nat → Nat → Nat → Nat → Nat
    | 0, _, _, acc => acc
    | f + 1, b, e, acc =>
      if e = 0 then acc
      else go f (b * b % m) (e / 2) (if e % 2 = 1 then acc * b % m else acc)
  go 64 (b % m) e (1 % m)

/-- the hash of a rational `n/d`: `|n| · d⁻¹ mod (2^61 − 1)` with the sign of `n`, never `-1`;
    `_PyHASH_INF` when `d` has no inverse -/
def hashRat (q : Rat) : Int :=
  let h : Nat := if q.den % P61 = 0 then 314159 else ((q.num.natAbs % P61) * powMod q.den (P61 - 2) P61) % P61
  let s : Int := if q.num < 0 then -(h : Int) else (h : Int)
  if s = -1 then -2 else s

/-- two's complement wrap of `Py_uhash_t` to `Py_hash_t` -/
def wrap64 (x : Int) : Int :=
  let u := x.emod (2 ^ 64)
  if u ≥ 2 ^ 63 then u - 2 ^ 64 else u

/-- `complex.__hash__`: `hash(re) + 1000003 · hash(im)` in unsigned 64-bit arithmetic, never `-1` -/
def hashCplx (hr hi : Int) : Int :=
  let c := wrap64 (hr + 1000003 * hi)
  if c = -1 then -2 else c

/-- Python's `hash(x)` -/
def hash : PyNum → Int
  | .cplx r i _ => hashCplx (hashRat r) (hashRat i)
  | x => hashRat x.re

end PyNum

/-! ## what a `zero` can be -/

inductive PyVal where
  | num (x : PyNum)
  | elist                      -- `[]`
  | edict                      -- `{}`
  deriving DecidableEq, Repr

namespace PyVal
/-- Python's `==` -/
def eq : PyVal → PyVal → Bool
  | .num a, .num b => a.eq b
  | .elist, .elist => true
  | .edict, .edict => true
  | _, _ => false

/-- Python's `hash`: TypeError for a list / a dict -/
def hash : PyVal → Except PyErr Int
  | .num a => .ok a.hash
  | _ => .error .type
end PyVal

/-! ## Poly with its zero -/

structure ZPoly where
  data : MPoly PyNum
  zero : PyVal
  deriving DecidableEq, Repr

/-- `value != self.zero`: the coefficient is kept -/
def stored (z : PyVal) (c : PyNum) : Bool := !(PyVal.eq (.num c) z)

/-- the "Compact zeros" loop of `Poly.__init__`, against the instance's own zero -/
def compactZ (z : PyVal) (d : MPoly PyNum) : MPoly PyNum := d.filter (fun kv => stored z kv.2)

/-- `Poly(OrderedDict(pairs), zero=z)` -/
def normZ (pairs : List (Int × PyNum)) (z : PyVal) : ZPoly := ⟨compactZ z (ofPairs pairs), z⟩

/-- the default of `zero=None`: the float `0.` -/
def dfltZero : PyVal := .num (.float 0 true)

/-- `Poly(dict, zero)` / `Poly(list, zero)` / `Poly(number, zero)` / `Poly(None, zero)`: `zero=None` is `0.` -/
def ofDictZ (pairs : List (Int × PyNum)) (zero : Option PyVal) : ZPoly := normZ pairs (zero.getD dfltZero)
def ofListZ (cs : List PyNum) (zero : Option PyVal) : ZPoly := normZ (enumFrom 0 cs) (zero.getD dfltZero)
def ofNumZ (c : PyNum) (zero : Option PyVal) : ZPoly := normZ [(0, c)] (zero.getD dfltZero)
def ofNoneZ (zero : Option PyVal) : ZPoly := normZ [] (zero.getD dfltZero)
/-- `Poly(p, zero)`: `zero=None` inherits `p.zero` -/
def ofPolyZ (p : ZPoly) (zero : Option PyVal) : ZPoly := normZ p.data (zero.getD p.zero)
/-- `p.copy(zero)` -/
def copyZ (p : ZPoly) (zero : Option PyVal) : ZPoly := normZ p.data (zero.getD p.zero)

def negZ (p : ZPoly) : ZPoly := normZ (p.data.map fun kv => (kv.1, -kv.2)) p.zero
def posZ (p : ZPoly) : ZPoly := normZ (p.data.map fun kv => (kv.1, kv.2.pos)) p.zero

/-- `Poly.__add__`: the result has the zero of the LEFT operand -/
def addZ (p q : ZPoly) : ZPoly := normZ (p.data ++ q.data ++ inter p.data q.data) p.zero
def subZ (p q : ZPoly) : ZPoly := addZ p (negZ q)
/-- `Poly.__mul__` -/
def mulZ (p q : ZPoly) : ZPoly := ⟨compactZ p.zero (mulLoop p.data q.data), p.zero⟩

/-- operators with a number.  `p + c` wraps the number as `Poly(c)` (DEFAULT zero `0.`); the reflected forms
    (`PolyMeta.__rbinary__`) wrap it as `Poly(c, zero=p.zero)` -/
def scalZ : ScalOp → ZPoly → PyNum → ZPoly
  | .adds, p, c => addZ p (ofNumZ c none)
  | .radds, p, c => addZ (ofNumZ c (some p.zero)) p
  | .subs, p, c => addZ p (ofNumZ (-c) none)
  | .rsubs, p, c => subZ (ofNumZ c (some p.zero)) p
  | .muls, p, c => mulZ p (ofNumZ c none)
  | .rmuls, p, c => mulZ (ofNumZ c (some p.zero)) p

/-- the kind of the exponent of `p ** n` -/
inductive ExpKind where
  | int | bool | float
  deriving DecidableEq, Repr

def powNum (v : PyNum) (n : Int) : ExpKind → PyNum
  | .float => v.powFloat n
  | _ => v.powInt n

inductive PowRes where
  | new (p : ZPoly)
  | self                         -- `reduce(operator.mul, [] + [self])`
  | err (e : PyErr)

/-- `reduce(operator.mul, [self.copy()] * m + [self])`, `m ≥ 1` -/
def powLoopZ (p : ZPoly) : Nat → ZPoly
  | 0 => copyZ p none
  | m + 1 => mulZ (powLoopZ p m) p

/-- `Poly.__pow__` with a number exponent of value `n` -/
def powZ (p : ZPoly) (n : Int) (ek : ExpKind) : PowRes :=
  if n = 0 then .new (ofNumZ (.int 1) (some p.zero))
  else match p.data with
    | [] => .new (ofNoneZ (some p.zero))
    | [(k, v)] =>
      if v.eq (.int 1) then .new (normZ [(k * n, .int 1)] p.zero)
      else if n < 0 ∧ v.isZero then .err .zeroDivision
      else .new (normZ [(k * n, powNum v n ek)] p.zero)
    | _ =>
      if ek = .float then .err .type                -- `[self.copy()] * (2.0 - 1)`
      else if n ≤ 1 then .self
      else .new (powLoopZ p (n - 1).toNat)

def getZ (p : ZPoly) (k : Int) : PyVal :=
  match find? p.data k with
  | some v => .num v
  | none => p.zero

/-- `p ** q` for a Poly exponent: only a constant one; `q[0]` is q's zero when q is empty -/
def powPolyZ (p q : ZPoly) : PowRes :=
  if q.data.any (fun kv => kv.1 ≠ 0) then .err .notImplemented
  else match getZ q 0 with
    | .num c =>
      if c.im = 0 ∧ c.re.den = 1 then
        powZ p c.re.num (match c with | .bool _ => .bool | .int _ => .int | _ => .float)
      else .err .value      -- a non-integer exponent: outside the model (driver answers "unsupported")
    | _ => .err .value

def divsZ (p : ZPoly) (c : PyNum) : Except PyErr ZPoly :=
  if p.data.isEmpty then .ok (normZ [] p.zero)
  else if c.isZero then .error .zeroDivision
  else .ok (normZ (p.data.map fun kv => (kv.1, kv.2 / c)) p.zero)

def divZ (p q : ZPoly) : Except PyErr ZPoly :=
  match q.data with
  | [] => .error .zeroDivision
  | [(d, w)] =>
    if p.data.isEmpty then .ok (normZ [] p.zero)
    else if w.isZero then .error .zeroDivision
    else .ok (normZ (p.data.map fun kv => (kv.1 - d, kv.2 / w)) p.zero)
  | _ => .error .notImplemented

/-! ### evaluation -/

def hornerStepZ (v : PyNum) (old new : Int × PyNum) : Int × PyNum :=
  let scale := if old.1 = new.1 + 1 then v else v.powInt (old.1 - new.1)
  (new.1, new.2 + old.2 * scale)

def evalHornerZ (d : MPoly PyNum) (v : PyNum) : PyNum :=
  match sortDesc d with
  | [] => 0
  | h :: t =>
    let r := t.foldl (hornerStepZ v) h
    r.2 * v.powInt r.1

/-- `sum(coeff * value ** power for …)`: starts from the int `0` -/
def evalDirectZ (d : MPoly PyNum) (v : PyNum) : PyNum :=
  (sortAsc d).foldl (fun acc kv => acc + kv.2 * v.powInt kv.1) 0

/-- `Poly.__call__` on a number: the empty Poly answers its `zero`, `value == 0` answers `self[0]` -/
def callZ (p : ZPoly) (v : PyNum) (h : Horner) : PyVal :=
  if p.data.isEmpty then p.zero
  else if v.isZero then getZ p 0
  else
    let horner := match h with
      | .auto => isPolynomial p.data
      | .yes => true
      | .no => false
    .num (if horner then evalHornerZ p.data v else evalDirectZ p.data v)

/-- `Poly.__call__` on a Poly: `Poly(sum(coeff * value ** power for …), self.zero)`.  The summands carry the zero
    of `value` (`__rmul__`, `__radd__` wrap their number with it); the final cast gives the result `self.zero`. -/
def composeTerms (p q : ZPoly) : Except PyErr (List ZPoly) :=
  p.data.mapM (fun kc =>
    match powZ q kc.1 .int with
    | .new r => pure (mulZ (ofNumZ kc.2 (some r.zero)) r)
    | .self => pure (mulZ (ofNumZ kc.2 (some q.zero)) q)
    | .err e => throw e)

def composeZ (p q : ZPoly) : Except PyErr ZPoly :=
  match composeTerms p q with
  | .error e => .error e
  | .ok [] => .ok (ofNumZ (.int 0) (some p.zero))
  | .ok (t :: ts) => .ok (ofPolyZ (ts.foldl addZ (addZ (ofNumZ (.int 0) (some t.zero)) t)) (some p.zero))

/-! ### calculus -/

def diffStepZ (d : MPoly PyNum) : MPoly PyNum :=
  ofPairs ((d.filter (fun kv => !decide (kv.1 = 0))).map (fun kv => (kv.1 - 1, PyNum.int kv.1 * kv.2)))

def diffZ (p : ZPoly) (n : Nat) : ZPoly := normZ (iter diffStepZ n p.data) p.zero

def integrateZ (p : ZPoly) : Except PyErr ZPoly :=
  if has p.data (-1) then .error .value
  else .ok (normZ (p.data.map fun kv => (kv.1 + 1, kv.2 / PyNum.int (kv.1 + 1))) p.zero)

/-! ### comparison, hashing, item access -/

/-- `dicts_equal` -/
def dictsEq (a b : MPoly PyNum) : Bool :=
  a.length == b.length &&
    a.all (fun kv => match find? b kv.1 with
      | some w => kv.2.eq w
      | none => false)

/-- `Poly.__eq__`: the zeros compare with `==`, then the dictionaries -/
def eqZ (p q : ZPoly) : Bool := PyVal.eq p.zero q.zero && dictsEq p.data q.data
def neZ (p q : ZPoly) : Bool := !(eqZ p q)
/-- `p == number`: the number is wrapped with `zero=p.zero` -/
def eqsZ (p : ZPoly) (c : PyNum) : Bool := eqZ p (ofNumZ c (some p.zero))

/-- what `hash((frozenset(items), zero))` is a function of: the set of `(power, hash(coefficient))`
    (canonically: sorted by power) and `hash(zero)`; TypeError for an unhashable zero -/
def hmap (d : MPoly PyNum) : MPoly Int := d.map (fun kv => (kv.1, kv.2.hash))

def hashZ (p : ZPoly) : Except PyErr (List (Int × Int) × Int) := do
  let hz ← p.zero.hash
  pure (sortAsc (hmap p.data), hz)

/-- `Poly.__setitem__` (on an instance that has not been hashed) -/
def setItemZ (p : ZPoly) (k : Int) (c : PyNum) : ZPoly :=
  if stored p.zero c then { p with data := set p.data k c }
  else if has p.data k then { p with data := del p.data k } else p

/-- the `zero` setter (on an instance that has not been hashed) -/
def setZeroZ (p : ZPoly) (z : PyVal) : ZPoly := ⟨compactZ z p.data, z⟩

def valuesZ (p : ZPoly) : Except PyErr (List PyVal) :=
  if p.data.isEmpty then .ok [] else do
    let n ← order p.data
    pure ((List.range (n.toNat + 1)).map (fun (i : Nat) => getZ p (Int.ofNat i)))

/-! ## histories -/

structure ZObj where
  p : ZPoly
  hashed : Bool
  deriving DecidableEq, Repr

structure ZState where
  heap : List ZObj
  pool : List Nat

inductive ZOp where
  | ctorDict (pairs : List (Int × PyNum)) (zero : Option PyVal)
  | ctorList (cs : List PyNum) (zero : Option PyVal)
  | ctorNum (c : PyNum) (zero : Option PyVal)
  | ctorNone (zero : Option PyVal)
  | ctorPoly (i : Nat) (zero : Option PyVal)
  | copy (i : Nat) (zero : Option PyVal)
  | neg (i : Nat) | pos (i : Nat)
  | bin (b : BinOp) (i j : Nat)
  | scal (s : ScalOp) (i : Nat) (c : PyNum)
  | divs (i : Nat) (c : PyNum)
  | div (i j : Nat)
  | pow (i : Nat) (n : Int) (ek : ExpKind)
  | powPoly (i j : Nat)
  | comp (i j : Nat)
  | call (i : Nat) (v : PyNum) (h : Horner)
  | diff (i : Nat) (n : Nat)
  | integ (i : Nat)
  | setitem (i : Nat) (k : Int) (c : PyNum)
  | setzero (i : Nat) (z : PyVal)
  | hash (i : Nat)
  | eq (i j : Nat) | ne (i j : Nat)
  | eqs (i : Nat) (c : PyNum)

inductive ZAct where
  | alloc (p : ZPoly)
  | alias (a : Nat)
  | store (a : Nat) (o : ZObj)
  | frozen (a : Nat) (o : ZObj) (key : List (Int × Int) × Int)
  | val (v : PyVal)
  | bool (b : Bool)
  | fail (e : PyErr)
  | bad

def ZState.obj (st : ZState) (i : Nat) : Option (Nat × ZObj) :=
  match st.pool[i]? with
  | none => none
  | some a => match st.heap[a]? with
    | none => none
    | some o => some (a, o)

def ZState.val (st : ZState) (i : Nat) : Option ZPoly := (st.obj i).map (·.2.p)

def zactOfExcept : Except PyErr ZPoly → ZAct
  | .ok p => .alloc p
  | .error e => .fail e

def zactOfPow (a : Nat) : PowRes → ZAct
  | .new p => .alloc p
  | .self => .alias a
  | .err e => .fail e

def binZ : BinOp → ZPoly → ZPoly → ZPoly
  | .add, p, q => addZ p q
  | .sub, p, q => subZ p q
  | .mul, p, q => mulZ p q

def zact (st : ZState) : ZOp → ZAct
  | .ctorDict ps z => .alloc (ofDictZ ps z)
  | .ctorList cs z => .alloc (ofListZ cs z)
  | .ctorNum c z => .alloc (ofNumZ c z)
  | .ctorNone z => .alloc (ofNoneZ z)
  | .ctorPoly i z => match st.obj i with
    | some (_, o) => .alloc (ofPolyZ o.p z)
    | none => .bad
  | .copy i z => match st.obj i with
    | some (_, o) => .alloc (copyZ o.p z)
    | none => .bad
  | .neg i => match st.obj i with
    | some (_, o) => .alloc (negZ o.p)
    | none => .bad
  | .pos i => match st.obj i with
    | some (_, o) => .alloc (posZ o.p)
    | none => .bad
  | .bin b i j => match st.obj i, st.obj j with
    | some (_, o), some (_, o') => .alloc (binZ b o.p o'.p)
    | _, _ => .bad
  | .scal s i c => match st.obj i with
    | some (_, o) => .alloc (scalZ s o.p c)
    | none => .bad
  | .divs i c => match st.obj i with
    | some (_, o) => zactOfExcept (divsZ o.p c)
    | none => .bad
  | .div i j => match st.obj i, st.obj j with
    | some (_, o), some (_, o') => zactOfExcept (divZ o.p o'.p)
    | _, _ => .bad
  | .pow i n ek => match st.obj i with
    | some (a, o) => zactOfPow a (powZ o.p n ek)
    | none => .bad
  | .powPoly i j => match st.obj i, st.obj j with
    | some (a, o), some (_, o') => zactOfPow a (powPolyZ o.p o'.p)
    | _, _ => .bad
  | .comp i j => match st.obj i, st.obj j with
    | some (_, o), some (_, o') => zactOfExcept (composeZ o.p o'.p)
    | _, _ => .bad
  | .call i v h => match st.obj i with
    | some (_, o) => .val (callZ o.p v h)
    | none => .bad
  | .diff i n => match st.obj i with
    | some (_, o) => .alloc (diffZ o.p n)
    | none => .bad
  | .integ i => match st.obj i with
    | some (_, o) => zactOfExcept (integrateZ o.p)
    | none => .bad
  | .setitem i k c => match st.obj i with
    | some (a, o) => if o.hashed then .fail .type else .store a { o with p := setItemZ o.p k c }
    | none => .bad
  | .setzero i z => match st.obj i with
    | some (a, o) => if o.hashed then .fail .type else .store a { o with p := setZeroZ o.p z }
    | none => .bad
  | .hash i => match st.obj i with
    | some (a, o) => match hashZ o.p with
      | .ok key => .frozen a { o with hashed := true } key
      | .error e => .fail e              -- unhashable zero: TypeError, `_hash` is not set
    | none => .bad
  | .eq i j => match st.obj i, st.obj j with
    | some (_, o), some (_, o') => .bool (eqZ o.p o'.p)
    | _, _ => .bad
  | .ne i j => match st.obj i, st.obj j with
    | some (_, o), some (_, o') => .bool (neZ o.p o'.p)
    | _, _ => .bad
  | .eqs i c => match st.obj i with
    | some (_, o) => .bool (eqsZ o.p c)
    | none => .bad

def zapply (st : ZState) : ZAct → ZState
  | .alloc p => { st with heap := st.heap ++ [{ p := p, hashed := false }], pool := st.pool ++ [st.heap.length] }
  | .alias a => { st with pool := st.pool ++ [a] }
  | .store a o => { st with heap := st.heap.set a o }
  | .frozen a o _ => { st with heap := st.heap.set a o }
  | .val _ => st
  | .bool _ => st
  | .fail _ => st
  | .bad => st

def zstep (st : ZState) (op : ZOp) : ZState := zapply st (zact st op)
def zrun (st : ZState) (ops : List ZOp) : ZState := ops.foldl zstep st
def ZState.empty : ZState := { heap := [], pool := [] }

end ALV.C07
