/-
  C07 — model of `audiolazy.lazy_poly.Poly` and `lagrange` (code shaped).
  Mathlib-free; executable; generic in the coefficient type (only
  `+ * - neg / 0 1` and decidable equality are assumed), so that the driver runs
  it on `Rat` and the theorems instantiate any `[Field K]`.

  `MPoly α = List (Int × α)` is the `OrderedDict` `Poly._data`: insertion order
  is kept, `set` / `accum` / `del` are `d[k] = v` / `d[k] += v` / `del d[k]`.
  Every constructor of the Python class ends in the "compact zeros" loop of
  `Poly.__init__`; here `mk pairs = compact (ofPairs pairs)`.

  Modelled: integer powers only (float / complex powers and Stream coefficients
  are outside property C07); a single `zero` (the additive identity `0`).
-/
namespace ALV.C07

/-- Python exceptions that the modelled code raises. -/
inductive PyErr where
  | zeroDivision | notImplemented | value | type | attribute
  deriving DecidableEq, Repr

def PyErr.name : PyErr → String
  | .zeroDivision => "ZeroDivisionError"
  | .notImplemented => "NotImplementedError"
  | .value => "ValueError"
  | .type => "TypeError"
  | .attribute => "AttributeError"

/-- `Poly._data`: association list, insertion order kept. -/
abbrev MPoly (α : Type) := List (Int × α)

variable {α : Type}

/-! ### the ordered dictionary -/

/-- `d.get(k)` -/
def find? : MPoly α → Int → Option α
  | [], _ => none
  | (k', v) :: t, k => if k' = k then some v else find? t k

/-- `k in d` -/
def has (p : MPoly α) (k : Int) : Bool := (find? p k).isSome

/-- `d[k] = v` : in place when the key exists, appended otherwise -/
def set : MPoly α → Int → α → MPoly α
  | [], k, v => [(k, v)]
  | (k', v') :: t, k, v => if k' = k then (k', v) :: t else (k', v') :: set t k v

/-- `del d[k]` -/
def del : MPoly α → Int → MPoly α
  | [], _ => []
  | (k', v') :: t, k => if k' = k then t else (k', v') :: del t k

/-- `OrderedDict(pairs)` -/
def ofPairs (l : List (Int × α)) : MPoly α := l.foldl (fun d kv => set d kv.1 kv.2) []

def keys (p : MPoly α) : List Int := p.map (·.1)

/-- `enumerate(data)` starting at `i` -/
def enumFrom : Int → List α → List (Int × α)
  | _, [] => []
  | i, a :: t => (i, a) :: enumFrom (i + 1) t

/-- `sorted(d)` on the (distinct, integer) keys, with the values attached -/
def sortAsc (p : MPoly α) : MPoly α := p.mergeSort (fun a b => decide (a.1 ≤ b.1))
/-- `sorted(d, reverse=True)` -/
def sortDesc (p : MPoly α) : MPoly α := (sortAsc p).reverse

/-- `Poly.is_polynomial` (integer powers: `is_laurent` is always true here) -/
def isPolynomial (p : MPoly α) : Bool := p.all (fun kv => decide (0 ≤ kv.1))

/-- `Poly.order` : AttributeError unless polynomial; `max(keys)` or 0 -/
def order (p : MPoly α) : Except PyErr Int :=
  if isPolynomial p then .ok (p.foldl (fun m kv => max m kv.1) 0) else .error .attribute

section Arith
variable [Add α] [Mul α] [Sub α] [Neg α] [Div α] [OfNat α 0] [OfNat α 1] [DecidableEq α]

/-- The representation invariant: keys distinct and no zero coefficient stored. -/
def WF (p : MPoly α) : Prop := (keys p).Nodup ∧ ∀ kv ∈ p, kv.2 ≠ 0

/-- `Poly.__getitem__` : `zero` for an absent power -/
def getD (p : MPoly α) (k : Int) : α := (find? p k).getD 0

/-- `if k in d: d[k] += v else: d[k] = v` (the body of the double loop of `__mul__`) -/
def accum : MPoly α → Int → α → MPoly α
  | [], k, v => [(k, v)]
  | (k', v') :: t, k, v => if k' = k then (k', v' + v) :: t else (k', v') :: accum t k v

/-- the "Compact zeros" loop of `Poly.__init__` -/
def compact (p : MPoly α) : MPoly α := p.filter (fun kv => !decide (kv.2 = 0))

/-- `Poly(OrderedDict(pairs), zero)` -/
def mk (pairs : List (Int × α)) : MPoly α := compact (ofPairs pairs)

/-- `Poly(list)` -/
def ofList (l : List α) : MPoly α := mk (enumFrom 0 l)
/-- `Poly(number)` -/
def ofScalar (c : α) : MPoly α := mk [(0, c)]
/-- `Poly()` -/
def empty : MPoly α := []
/-- the monomial `x` (`Poly({1: 1})`) -/
def X : MPoly α := mk [(1, 1)]

/-- `Poly.__setitem__` -/
def setItem (p : MPoly α) (k : Int) (c : α) : MPoly α :=
  if c ≠ 0 then set p k c else if has p k then del p k else p

/-- `Poly.values()` : coefficients of powers `0 .. order` (nothing for the empty polynomial) -/
def values (p : MPoly α) : Except PyErr (List α) :=
  if p.isEmpty then .ok [] else do
    let n ← order p
    pure ((List.range (n.toNat + 1)).map (fun (i : Nat) => getD p (Int.ofNat i)))

/-! ### number helpers (what Python's numeric tower does for `int * Fraction`, `Fraction ** int`) -/

def npow (a : α) : Nat → α
  | 0 => 1
  | n + 1 => npow a n * a

/-- `a ** n` for an integer `n` (negative: the reciprocal of the positive power) -/
def powInt (a : α) (n : Int) : α := if 0 ≤ n then npow a n.toNat else 1 / npow a (-n).toNat

def ofNatA : Nat → α
  | 0 => 0
  | n + 1 => ofNatA n + 1

/-- an integer (a power) used as a coefficient factor, as in `k * v` of `diff` -/
def ofIntA : Int → α
  | .ofNat n => ofNatA n
  | .negSucc n => -(ofNatA (n + 1))

/-! ### elementwise operators -/

/-- `PolyMeta.__unary__` with `operator.neg` -/
def neg (p : MPoly α) : MPoly α := mk (p.map (fun kv => (kv.1, -kv.2)))

/-- `PolyMeta.__unary__` with `operator.pos` -/
def pos (p : MPoly α) : MPoly α := mk p

/-- `intersect = [(key, self._data[key] + other._data[key]) for key in set(self).intersection(other)]`
    (the comprehension runs over a Python `set`; its order is irrelevant because those keys
    already have their position from `self`) -/
def inter (p q : MPoly α) : List (Int × α) :=
  p.filterMap (fun kv => (find? q kv.1).map (fun w => (kv.1, kv.2 + w)))

/-- `Poly.__add__`: `OrderedDict(chain(self, other, intersect))`, then compaction. -/
def add (p q : MPoly α) : MPoly α := mk (p ++ q ++ inter p q)

/-- `Poly.__sub__` : `self + (-other)` -/
def sub (p q : MPoly α) : MPoly α := add p (neg q)

/-! ### cross product -/

/-- the double loop of `Poly.__mul__` on `new_data` -/
def mulLoop (p q : MPoly α) : MPoly α :=
  p.foldl (fun d kv1 => q.foldl (fun d kv2 => accum d (kv1.1 + kv2.1) (kv1.2 * kv2.2)) d) []

/-- `Poly.__mul__` -/
def mul (p q : MPoly α) : MPoly α := compact (mulLoop p q)

/-- `reduce(operator.mul, [self.copy()] * m + [self])` -/
def powLoop (p : MPoly α) : Nat → MPoly α
  | 0 => p
  | m + 1 => mul (powLoop p m) p

/-- `Poly.__pow__` with an integer exponent.  For more than one term and `n ≤ 1`
    (in particular negative `n`) the list `[copy] * (n-1)` is empty and the result is `self`. -/
def pow (p : MPoly α) (n : Int) : MPoly α :=
  if n = 0 then ofScalar 1
  else match p with
    | [] => []
    | [(k, v)] => mk [(k * n, if v = 1 then 1 else powInt v n)]
    | _ => powLoop p (n - 1).toNat

/-- `Poly.__truediv__` by a number -/
def divScalar (p : MPoly α) (c : α) : Except PyErr (MPoly α) :=
  if p.isEmpty then .ok []
  else if c = 0 then .error .zeroDivision
  else .ok (mk (p.map (fun kv => (kv.1, kv.2 / c))))

/-- `Poly.__truediv__` by a Poly: only a one-term divisor is implemented -/
def divPoly (p q : MPoly α) : Except PyErr (MPoly α) :=
  match q with
  | [] => .error .zeroDivision
  | [(d, w)] =>
      if p.isEmpty then .ok []
      else if w = 0 then .error .zeroDivision
      else .ok (mk (p.map (fun kv => (kv.1 - d, kv.2 / w))))
  | _ => .error .notImplemented

/-! ### evaluation -/

inductive Horner where
  | auto | yes | no
  deriving DecidableEq, Repr

/-- `horner_step` inside `Poly.__call__`; pairs are `(power, coefficient or partial result)` -/
def hornerStep (v : α) (old new : Int × α) : Int × α :=
  let scale := if old.1 = new.1 + 1 then v else powInt v (old.1 - new.1)
  (new.1, new.2 + old.2 * scale)

/-- the Horner-like scheme with merged steps: `reduce(horner_step, pairs)`, then
    `result * value ** last_power` -/
def evalHorner (p : MPoly α) (v : α) : α :=
  match sortDesc p with
  | [] => 0                       -- not reached: `__call__` returns earlier for the empty Poly
  | h :: t =>
    let r := t.foldl (hornerStep v) h
    r.2 * powInt v r.1

/-- the general case: `sum(coeff * value ** power for power, coeff in self.terms())` -/
def evalDirect (p : MPoly α) (v : α) : α :=
  (sortAsc p).foldl (fun acc kv => acc + kv.2 * powInt v kv.1) 0

/-- `Poly.__call__` on a number -/
def call (p : MPoly α) (v : α) (h : Horner) : α :=
  if p.isEmpty then 0
  else if v = 0 then getD p 0
  else
    let horner := match h with
      | .auto => isPolynomial p
      | .yes => true
      | .no => false
    if horner then evalHorner p v else evalDirect p v

/-- `Poly.__call__` on a Poly: `Poly(sum(coeff * value ** power ...), self.zero)`;
    `coeff * poly` is `Poly(coeff) * poly` (`__rmul__`), the sum starts with `0 + poly`
    (`__radd__`). -/
def compose (p q : MPoly α) : MPoly α :=
  compact (p.foldl (fun acc kc => add acc (mul (ofScalar kc.2) (pow q kc.1))) (ofScalar 0))

/-! ### calculus -/

/-- one round of `OrderedDict((k - 1, k * v) for k, v in d.items() if k != 0)` -/
def diffStep (d : MPoly α) : MPoly α :=
  ofPairs ((d.filter (fun kv => !decide (kv.1 = 0))).map (fun kv => (kv.1 - 1, ofIntA kv.1 * kv.2)))

def iter (f : MPoly α → MPoly α) : Nat → MPoly α → MPoly α
  | 0, d => d
  | n + 1, d => iter f n (f d)

/-- `Poly.diff(n)`: compaction happens once, at the end -/
def diff (p : MPoly α) (n : Nat := 1) : MPoly α := compact (iter diffStep n p)

/-- `Poly.integrate()` -/
def integrate (p : MPoly α) : Except PyErr (MPoly α) :=
  if has p (-1) then .error .value
  else .ok (mk (p.map (fun kv => (kv.1 + 1, kv.2 / ofIntA (kv.1 + 1)))))

/-! ### comparison and hashing -/

/-- `dicts_equal` of `Poly.__eq__` (both zeros are the same `0` here) -/
def eq (p q : MPoly α) : Bool :=
  p.length == q.length &&
    p.all (fun kv => match find? q kv.1 with
      | some w => decide (kv.2 = w)
      | none => false)

/-- `Poly.__ne__` -/
def ne (p q : MPoly α) : Bool := !(eq p q)

/-- `Poly.__hash__` is `hash((frozenset(items), zero))`: a function of the *set* of items.
    The model returns the canonical representative of that set (items sorted by power);
    the hash function itself is CPython's. -/
def hashKey (p : MPoly α) : MPoly α := sortAsc p

/-! ### Lagrange interpolation -/

/-- `reduce(operator.mul, args)` — no initial value: TypeError on an empty sequence;
    with `init = some one` it is `reduce(operator.mul, args, 1)` (the repair proposed for D14). -/
def prodReduce {β : Type} (mulB : β → β → β) (init : Option β) : List β → Except PyErr β
  | [] => match init with
    | some i => .ok i
    | none => .error .type
  | a :: t => match init with
    | some i => .ok ((a :: t).foldl mulB i)
    | none => .ok (t.foldl mulB a)

/-- The arithmetic that the lambda of `lagrange.func` applies to its argument `k`
    (duck typed in Python: a number for `lagrange.func`, the Poly `x` for `lagrange.poly`). -/
structure LagOps (α β : Type) where
  subS : β → α → β        -- k - rk
  divS : β → α → β        -- (…) / (rj - rk), divisor non-zero
  mul : β → β → β
  scale : α → β → β       -- yv[j] * prod
  zeroAdd : β → β         -- 0 + first term (`sum` starts with the int 0)
  add : β → β → β
  one : β                 -- what the int `1` is once it meets a `β` (only used by the repaired variant)

/-- `lagrange.func(pairs)(k)` = `sum(yv[j] * prod((k - rk) / (rj - rk) for rk in xv if rj != rk)
     for j, rj in enumerate(xv))`; `xv, yv = zip(*pairs)` raises ValueError without pairs.
    `fixed = false` is the code as it stands (`prod = reduce(operator.mul, args)`),
    `fixed = true` the proposed repair (`reduce(operator.mul, args, 1)`). -/
def lagrangeGen {β : Type} (ops : LagOps α β) (fixed : Bool) (zeroB : β) (pairs : List (α × α)) (k : β) :
    Except PyErr β :=
  if pairs.isEmpty then .error .value
  else do
    let xv := pairs.map (·.1)
    let terms ← pairs.mapM (fun (pr : α × α) => do
      let fs := (xv.filter (fun rk => !decide (pr.1 = rk))).map
        (fun rk => ops.divS (ops.subS k rk) (pr.1 - rk))
      let pr' ← prodReduce ops.mul (if fixed then some ops.one else none) fs
      pure (ops.scale pr.2 pr'))
    match terms with
    | [] => pure zeroB
    | t :: ts => pure (ts.foldl ops.add (ops.zeroAdd t))

def numOps : LagOps α α where
  subS := fun k r => k - r
  divS := fun a d => a / d
  mul := fun a b => a * b
  scale := fun y a => y * a
  zeroAdd := fun a => 0 + a
  add := fun a b => a + b
  one := 1

/-- `lagrange.func(pairs)(k)` for a number `k` -/
def lagrangeFunc (pairs : List (α × α)) (k : α) (fixed : Bool := false) : Except PyErr α :=
  lagrangeGen numOps fixed 0 pairs k

def polyOps : LagOps α (MPoly α) where
  subS := fun k r => add k (ofScalar (-r))                 -- Poly.__sub__: self + Poly(-other)
  divS := fun a d => mk (a.map (fun kv => (kv.1, kv.2 / d)))   -- Poly.__truediv__ by a number
  mul := mul
  scale := fun y a => mul (ofScalar y) a                   -- __rmul__
  zeroAdd := fun a => add (ofScalar 0) a                   -- __radd__
  add := add
  one := ofScalar 1

/-- `lagrange.poly(pairs)` = `lagrange.func(pairs)(x)` -/
def lagrangePoly (pairs : List (α × α)) (fixed : Bool := false) : Except PyErr (MPoly α) :=
  lagrangeGen polyOps fixed [] pairs X

end Arith
end ALV.C07
