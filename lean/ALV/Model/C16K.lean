/-
  C16 — (a) the Python TYPE of a sample, (b) a MUTABLE zero.  Mathlib-free; executable.

  (a) `data = zero; for snd in _playing: data += next(snd)`: the sum starts FROM the zero value and
  adds every playing item in order, so a sample has Python's result type of `zero + i_1 + … + i_k`:
  the numeric tower bool < int < Fraction < float < complex, where one `+` gives the larger of the two
  operand kinds, but never bool (`True + True` is the int 2).  A sample at which nothing plays is the
  zero object itself (a bool stays a bool).  `PyNum` = kind + exact value (real and imaginary part;
  the tie keeps floats dyadic, so their arithmetic is exact); the machines `prun` / `srun` are
  polymorphic in the item type, the driver entry `streamix_k` instantiates them with `PyNum`.

  (b) `data = zero` binds the zero OBJECT; when it is mutable (a list) `data += item` extends it in
  place, so the next sample starts from what the last one left: the sum loop reads a cell that every
  delivered sample overwrites (`kstep`).  The containers, the clock and the end do not depend on it.
-/
import ALV.Model.C16Gen
namespace ALV.C16
variable {α : Type}

/-- Python numeric kinds, in the order of the coercion tower -/
inductive Kind where
  | bool | int | frac | float | complex
  deriving DecidableEq, Repr

def Kind.rank : Kind → Nat
  | .bool => 0 | .int => 1 | .frac => 2 | .float => 3 | .complex => 4

/-- the larger of two kinds -/
def Kind.join (a b : Kind) : Kind := if a.rank ≤ b.rank then b else a

/-- result type of `a + b` in Python: the larger operand kind, at least int -/
def Kind.add (a b : Kind) : Kind := Kind.join .int (Kind.join a b)

/-- a Python number: its type and its exact value -/
structure PyNum where
  kind : Kind
  re : Rat
  im : Rat          -- 0 unless complex
  deriving DecidableEq

instance : Add PyNum := ⟨fun a b => ⟨Kind.add a.kind b.kind, a.re + b.re, a.im + b.im⟩⟩

/-- a Python list of ints: `+` / `+=` is concatenation (and `+=` works in place) -/
structure PyList where
  items : List Int
  deriving DecidableEq

instance : Add PyList := ⟨fun a b => ⟨a.items ++ b.items⟩⟩

/-! ### a mutable zero: the cell the sum loop starts from is overwritten by every delivered sample -/

/-- one operation on a mixer whose zero is a mutable object: `cell` is its present content -/
def kstep [Add α] (cell : α) (s : PState α) (op : Op α) : α × PState α × Obs α :=
  let r := pstep cell s op
  match r.2 with
  | .out v _ => (v, r)          -- `data += …` worked on the zero object itself
  | _ => (cell, r)

/-- a history; the observations are snapshots of the object at the moment it is yielded -/
def krun [Add α] : α → PState α → List (Op α) → α × PState α × List (Obs α)
  | cell, s, [] => (cell, s, [])
  | cell, s, op :: ops =>
    let r := kstep cell s op
    let t := krun r.1 r.2.1 ops
    (t.1, t.2.1, r.2.2 :: t.2.2)

end ALV.C16
