/-
  C11 — the VOCABULARY of the translator `harness/props/c11_tr.py`.  Mathlib-free; executable.

  The translator reads `parcor` and `parcor_stable` in `audiolazy/lazy_lpc.py` with `ast` and emits
  `ALV/Gen/C11Src.lean`: the same statements, each Python operator on a `ZFilter` / number replaced
  by ONE of the functions below.  This file is the hand-written, TRUSTED part of the translation:
  what each operator of the library does to the coefficients (read from `lazy_filters.py` /
  `lazy_poly.py`, validated by the tie; the operation order is the one documented in
  `ALV/Model/C11Float.lean`).  Everything else of the model — which coefficient is read, in which
  order the statements run, which operators and constants are used, what is tested and what is
  raised — is regenerated from the source, and `Props.C11.src_*_is_model` prove that the regenerated
  definitions are the model functions the theorems are about.

  Before the loop a filter with the constant denominator 1 is its list of numerator coefficients
  (index = delay).  Inside the loop it is a window of Laurent coefficients of half-width `n`
  (`ALV.C11.lget` / `wtab`) over the constant denominator `d`.
-/
import ALV.Model.C11
namespace ALV.C11.Src
open ALV.C11
variable {α : Type} [Add α] [Mul α] [Sub α] [Neg α] [Div α] [OfNat α 0] [OfNat α 1]
  [DecidableEq α]

/-! ### coefficient lists (statements before the loop) -/

/-- `ZFilter(p)` / `f.denominator` for a `Poly` given by its dense list: no zero term is kept, so
    the length is the highest non-zero power + 1; the denominator of `ZFilter(p)` is the constant 1 -/
def lOfPoly (l : List α) : List α := stripZeros l

/-- `f.numpoly[i]` (the zero when absent) -/
def lCoef (l : List α) (i : Nat) : α := l.getD i 0

/-- `f / g`, `f /= g` for a number `g`: `f * operator.truediv(1, g)`, coefficient by coefficient
    `c * (1 / g)`.  (`g == 0` raises ZeroDivisionError in Python: that pre-condition is kept by the
    call model `ALV.C11.parcorCall`, not here.) -/
def lDivNum (l : List α) (g : α) : List α := l.map (fun x => x * (1 / g))

/-- `len(f.numerator)` / `len(den)` -/
def lLen (l : List α) : Nat := l.length

/-! ### windows (statements of the loop) -/

/-- `f.numpoly[e]` -/
def wCoef (n : Nat) (w : List α) (e : Int) : α := lget n w e

/-- `f(1 / z)`: the coefficient of delay `i` becomes that of delay `-i` -/
def wSubstInv (n : Nat) (w : List α) : List α := wtab n (fun i => lget n w (-i))

/-- `f * z ** e` (`e < 0`: a delay by `-e`): the new coefficient of delay `i` is the old one of
    delay `i + e` -/
def wMulZPow (n : Nat) (w : List α) (e : Int) : List α := wtab n (fun i => lget n w (i + e))

/-- `k * f` for a number `k`: one product `k * c` per coefficient -/
def wScale (n : Nat) (k : α) (w : List α) : List α := wtab n (fun i => k * lget n w i)

/-- `f - g` for two filters over the same constant denominator: numerators subtract -/
def wSub (n : Nat) (a b : List α) : List α := wtab n (fun i => lget n a i - lget n b i)

/-- `f / c` for a number `c`: `f * (1 / c)`; `none` = ZeroDivisionError (`c == 0`) -/
def wDivNum (n : Nat) (w : List α) (c : α) : Option (List α) :=
  if c = 0 then none else some (wtab n (fun i => lget n w i * (1 / c)))

/-- `f - c` for a number `c`, `f` over the constant denominator `d`: `f + (-c)`, the coefficient of
    `z^0` becomes `a0 + (-c) * d` -/
def wSubNum (n : Nat) (d : α) (w : List α) (c : α) : List α :=
  wtab n (fun i => if i = 0 then lget n w 0 + (-c) * d else lget n w i)

/-- `f + 1`, `f` over the constant denominator `d`: the coefficient of `z^0` becomes `a0 + d`
    (`1 * d` is `d` exactly on every carrier in use) -/
def wAddOne (n : Nat) (d : α) (w : List α) : List α :=
  wtab n (fun i => if i = 0 then lget n w 0 + d else lget n w i)

/-! ### numbers -/

/-- `abs(k)` -/
def pyAbs [LT α] [DecidableLT α] (k : α) : α := if k < 0 then -k else k

end ALV.C11.Src
