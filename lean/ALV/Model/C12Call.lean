/-
  C12 — the CALL of `freq_response` / `dft`: the `lazy_misc.elementwise` wrapper around the raw
  method, python's binding of the arguments, the result container, laziness.  Code shaped,
  Mathlib-free, executable.

    def elementwise(name="", pos=None):
      if (name == "") and (pos is None): pos = 0
      def elementwise_decorator(func):
        def wrapper(*args, **kwargs):
          positional = (pos is not None) and (pos < len(args))
          arg = args[pos] if positional else kwargs[name]                       # KeyError
          if isinstance(arg, Iterable) and not isinstance(arg, STR_TYPES):
            if positional:
              data = (func(*(args[:pos] + (x,) + args[pos+1:]), **kwargs) for x in arg)
            else:
              data = (func(*args, **dict(it.chain(iteritems(kwargs), [(name, x)]))) for x in arg)
            if isinstance(arg, SOME_GEN_TYPES): return data                     # lazy
            ... (numpy) ...
            if issubclass(type_arg, Stream): return Stream(data)                # lazy
            return type_arg(data)                                               # eager: tuple, list, set, deque, ...
          return func(*args, **kwargs)

    @elementwise("freq", 1)
    def freq_response(self, freq): ...          # LinearFilter, CascadeFilter, ParallelFilter

    def dft(blk, freqs, normalize=True): ...    # a plain function: python's own binding, default
-/
import ALV.Model.C12
namespace ALV.C12

/-- exceptions the modelled calls raise -/
inductive PyErr where
  | typeError | valueError | keyError | zeroDivisionError
deriving DecidableEq, Repr

/-- How the wrapper's tests see an object, and what `type(arg)(data)` does with a generator of
    complex numbers. -/
inductive Kind where
  | scalar      -- not Iterable: int, float, Fraction, bool, complex, None
  | str         -- STR_TYPES: handed to the function as it is
  | someGen     -- SOME_GEN_TYPES: generator, range, enumerate, zip, zip_longest, map, filter  → `data`
  | stream      -- Stream and its subclasses (thub, user subclasses)                           → `Stream(data)`
  | seq         -- list, tuple, deque and their subclasses: `type(arg)(data)` keeps the order
  | hash        -- set, frozenset: `type(arg)(data)` is the set of the values
  | chain       -- itertools.chain: `chain(data)` iterates `data` itself, lazily
  | emptyOnly   -- dict, bytes, bytearray: `type(arg)(data)` works only for no element (TypeError otherwise)
  | noCtor      -- list_iterator, tuple_iterator, dict_keys, dict_values, …: `type(arg)(data)` always raises TypeError
deriving DecidableEq, Repr

/-- `isinstance(arg, Iterable)` -/
def Kind.isIterable : Kind → Bool
  | .scalar => false
  | _ => true
/-- `isinstance(arg, STR_TYPES)` -/
def Kind.isStr : Kind → Bool
  | .str => true
  | _ => false
/-- `isinstance(arg, SOME_GEN_TYPES)` -/
def Kind.isSomeGen : Kind → Bool
  | .someGen => true
  | _ => false
/-- `issubclass(type(arg), Stream)` -/
def Kind.isStream : Kind → Bool
  | .stream => true
  | _ => false

/-- what the raw function sees when it is handed an object as `freq` -/
inductive Elem (φ : Type) where
  | num (f : φ)     -- a number (whatever its spelling: int, float, Fraction, bool, complex)
  | bad             -- not a number: None, a str                          (`-1j * freq` raises TypeError)
  | nested          -- a list / tuple / … (a container inside a container, or a container handed to the raw method)
  | obj             -- the filter object itself (the `self` argument)
deriving DecidableEq, Repr

/-- a python object passed to the call -/
structure Arg (φ : Type) where
  kind : Kind
  self : Elem φ            -- the object as a value
  items : List (Elem φ)    -- `iter(arg)`
deriving DecidableEq, Repr

def Arg.ofElem {φ : Type} : Elem φ → Arg φ
  | .num f => ⟨.scalar, .num f, []⟩
  | .bad => ⟨.scalar, .bad, []⟩
  | .nested => ⟨.seq, .nested, []⟩
  | .obj => ⟨.scalar, .obj, []⟩

/-- the filter object -/
def Arg.filt {φ : Type} : Arg φ := ⟨.scalar, .obj, []⟩
/-- a container of the given kind -/
def Arg.cont {φ : Type} (k : Kind) (xs : List (Elem φ)) : Arg φ := ⟨k, .nested, xs⟩

abbrev KwArgs (φ : Type) := List (String × Arg φ)

/-- `kwargs[name]` -/
def kwGet {φ : Type} (name : String) : KwArgs φ → Option (Arg φ)
  | [] => none
  | (k, v) :: r => if k = name then some v else kwGet name r

/-- `dict(it.chain(iteritems(kwargs), [(name, x)]))`: the entry `name` is replaced where it stands
    (appended when there is none); every other entry is untouched -/
def kwSet {φ : Type} (name : String) (x : Arg φ) : KwArgs φ → KwArgs φ
  | [] => [(name, x)]
  | (k, v) :: r => if k = name then (k, x) :: r else (k, v) :: kwSet name x r

/-- the values of the parameters still to be filled, looked up by name (`none`: one is missing) -/
def kwGetAll {φ : Type} (kwargs : KwArgs φ) : List String → Option (List (Arg φ))
  | [] => some []
  | p :: ps => match kwGet p kwargs, kwGetAll kwargs ps with
    | some v, some vs => some (v :: vs)
    | _, _ => none

/-- all element computations modelled? -/
def allSome {β : Type} : List (Option β) → Option (List β)
  | [] => some []
  | o :: os => match o, allSome os with
    | some v, some vs => some (v :: vs)
    | _, _ => none

/-- python's binding of a call to `def f(p0, p1, …)` (positional-or-keyword parameters without
    defaults; `kwargs` is a dict: distinct keys): `none` = TypeError (too many positional arguments,
    unexpected keyword, multiple values for a parameter, missing argument) -/
def bindParams {φ : Type} (ps : List String) (args : List (Arg φ)) (kwargs : KwArgs φ) : Option (List (Arg φ)) :=
  if ps.length < args.length then none
  else if kwargs.any (fun kv => !(ps.drop args.length).contains kv.1) then none
  else match kwGetAll kwargs (ps.drop args.length) with
    | none => none
    | some vs => some (args ++ vs)

section generic
variable {α : Type} [Add α] [Mul α] [Sub α] [Neg α] [Div α] [OfNat α 0] [OfNat α 1]

/-- an exception as the response of one element computation -/
def Resp.exc : Resp α → Option PyErr
  | .typeError => some .typeError
  | .valueError => some .valueError
  | _ => none

/-- the first exception among element computations done in order -/
def firstExc : List (Resp α) → Option PyErr
  | [] => none
  | r :: rs => match r.exc with
    | some e => some e
    | none => firstExc rs

/-- result of the decorated call -/
inductive Out (α : Type) where
  | value (r : Resp α)                          -- `func(*args, **kwargs)` returned (nan / a value)
  | raised (e : PyErr)                          -- the call raised
  | lazy (k : Kind) (outs : List (Resp α))      -- generator / Stream / chain, NOTHING evaluated yet: the outcome
                                                --   of every element computation, in order
  | cast (k : Kind) (vals : List (Resp α))      -- `type(arg)(data)`, `data` read to its end without exception
  | unmodelled                                  -- outside the model (the filter or a container as a bank's frequency)
deriving DecidableEq, Repr

def Out.ofResp (r : Resp α) : Out α :=
  match r.exc with
  | some e => .raised e
  | none => .value r

/-- `type_arg(data)` for the kinds that reach it -/
def typeCast (k : Kind) (outs : List (Resp α)) : Out α :=
  match k with
  | .chain => .lazy .chain outs                              -- `chain(data)` does not start `data`
  | .noCtor => .raised .typeError                            -- cannot create instances
  | .emptyOnly =>
    match outs with
    | [] => .cast k []
    | r :: _ => .raised (r.exc.getD .typeError)              -- the first item is computed, then rejected
  | _ =>
    match firstExc outs with
    | some e => .raised e                                    -- the constructor lets the exception through
    | none => .cast k outs

/-- the wrapper returned by `elementwise(name, pos)(func)`; `func = none` means outside the model -/
def wrapper {φ : Type} (name : String) (pos : Option Nat)
    (func : List (Arg φ) → KwArgs φ → Option (Resp α))
    (args : List (Arg φ)) (kwargs : KwArgs φ) : Out α :=
  let pos := if name = "" ∧ pos = none then some 0 else pos                 -- decorator level
  let positional := match pos with
    | some p => decide (p < args.length)
    | none => false
  let p := pos.getD 0
  match (if positional then args[p]? else kwGet name kwargs) with
  | none => .raised .keyError
  | some arg =>
    if arg.kind.isIterable && !arg.kind.isStr then
      let data := arg.items.map fun x =>
        if positional then func (args.take p ++ Arg.ofElem x :: args.drop (p + 1)) kwargs
        else func args (kwSet name (Arg.ofElem x) kwargs)
      match allSome data with
      | none => .unmodelled
      | some outs =>
        if arg.kind.isSomeGen then .lazy .someGen outs                      -- "Generators should still return generators"
        else if arg.kind.isStream then .lazy .stream outs                   -- `Stream(data)`
        else typeCast arg.kind outs                                         -- `type_arg(data)`
    else
      match func args kwargs with
      | none => .unmodelled
      | some r => .ofResp r

/-- a plain filter (its raw method computes with `freq`) or a bank (hands `freq` on to its members) -/
def Bank.isLeaf : Bank α → Bool
  | .filt _ _ => true
  | _ => false

/-- the raw method on the object bound to `freq`; `R f` is the response to the number `f`.
    A number → the response; None / str → TypeError (`-1j * freq`, in every member of a bank; an
    empty bank's `reduce` raises TypeError as well); a container handed to a plain filter →
    TypeError; a container handed to a bank is passed on to the members' DECORATED methods, and
    the filter object as a frequency: not modelled (`none`). -/
def respElem {φ : Type} (R : φ → Resp α) (leaf : Bool) : Elem φ → Option (Resp α)
  | .num f => some (R f)
  | .bad => some .typeError
  | .nested => if leaf then some .typeError else none
  | .obj => none

/-- the raw method `def freq_response(self, freq)`: python binds the arguments (TypeError when
    that fails), then the body runs on the object bound to `freq` -/
def rawFreqBy {φ : Type} (R : φ → Resp α) (leaf : Bool) (args : List (Arg φ)) (kwargs : KwArgs φ) :
    Option (Resp α) :=
  match bindParams ["self", "freq"] args kwargs with
  | some [_, fv] => respElem R leaf fv.self
  | _ => some .typeError

/-- the raw method of the object `t` (a filter or a bank), `pt f` the point `exp(-1j*f)` -/
def rawFreq [DecidableEq α] {φ : Type} (pt : φ → α) (t : Bank α) : List (Arg φ) → KwArgs φ → Option (Resp α) :=
  rawFreqBy (fun f => Bank.resp (pt f) t) t.isLeaf

/-- `t.freq_response(*args, **kwargs)` as decorated: `@elementwise("freq", 1)` -/
def freqCall [DecidableEq α] {φ : Type} (pt : φ → α) (t : Bank α) (args : List (Arg φ)) (kwargs : KwArgs φ) : Out α :=
  wrapper "freq" (some 1) (rawFreq pt t) args kwargs

/-! ### reading a lazy result -/

/-- what one `next()` shows -/
inductive NextObs (α : Type) where
  | item (r : Resp α)
  | exc (e : PyErr)
  | stop
deriving DecidableEq, Repr

/-- `next(g)` on the generator expression whose pending element computations are `outs`: a generator
    that raised is finished — every later `next` is StopIteration -/
def genNext : List (Resp α) → NextObs α × List (Resp α)
  | [] => (.stop, [])
  | r :: rs => match r.exc with
    | some e => (.exc e, [])
    | none => (.item r, rs)

/-- `n` calls of `next` in a row -/
def genReads : Nat → List (Resp α) → List (NextObs α)
  | 0, _ => []
  | n + 1, outs => (genNext outs).1 :: genReads n (genNext outs).2

/-- the items delivered before the first exception -/
def goodPrefix : List (Resp α) → List (Resp α)
  | [] => []
  | r :: rs => match r.exc with
    | some _ => []
    | none => r :: goodPrefix rs

/-! ### dft(blk, freqs, normalize=True) as called -/

/-- the block object: with `len()` and re-iterable (list, tuple, deque, range, dict), or an
    iterator / generator / Stream (no `len()`, used up by the first pass) -/
inductive BlkKind where
  | sized | once
deriving DecidableEq, Repr

/-- `dft(blk, freqs, normalize)` on python objects: `freqs = none` is an object that is not iterable
    (TypeError when the generator expression is created); `normalize = none` is the omitted
    argument (default True); any truthy / falsy object counts as its truth value. -/
def dftCall {φ : Type} (kern : φ → Nat → α) (bk : BlkKind) (blk : List α) (freqs : Option (List φ))
    (normalize : Option Bool) : Except PyErr (List α) :=
  let normalize := normalize.getD true
  match freqs with
  | none => .error .typeError                                   -- `for f in freqs` of the outermost generator
  | some fs =>
    match bk with
    | .sized =>
      match dft kern blk fs normalize with
      | none => .error .zeroDivisionError
      | some vs => .ok vs
    | .once =>
      if normalize then .error .typeError                       -- `len(blk)`
      else
        -- the first frequency reads the block to its end, the others sum nothing
        .ok (match fs with
          | [] => []
          | f :: rest => dftSum (kern f) blk :: rest.map (fun _ => (0 : α)))

/-- python's binding of `dft(*args, **kwargs)`: `none` = TypeError; the bound `normalize` is `none`
    when omitted -/
def bindDft {V : Type} (args : List V) (kwargs : List (String × V)) : Option (V × V × Option V) :=
  let ps := ["blk", "freqs", "normalize"]
  if 3 < args.length then none
  else if kwargs.any (fun kv => !(ps.drop args.length).contains kv.1) then none
  else
    let get (i : Nat) (p : String) : Option V :=
      match args[i]? with
      | some v => some v
      | none => (kwargs.find? (fun kv => kv.1 = p)).map (·.2)
    match get 0 "blk", get 1 "freqs" with
    | some b, some f => some (b, f, get 2 "normalize")
    | _, _ => none

end generic
end ALV.C12
