/-
  C02 — stages that LEAVE their loop while the source still has items
  (`Stream.limit` = `islice(data, N)`, `islice(seq, start, stop, step)`, `takewhile`, a `break`
  or `return` inside `for el in seq`), the numeric SPELLING of their count parameter, and what
  such a stage does when it is asked for outputs PAST its end.

      def stage(seq):                        StopStage ι ο σ
          <prologue>                            base.pre
          for el in seq:                        base.onItem
              ...                               (before every `next(seq)`: `if done(state): break`)
          <epilogue>                            base.onEnd

  `StopStage.demand` is the generator protocol of `ALV.Stage.demand` with two additions:
    * the exit test `done` is evaluated BEFORE a read, so a stage that is done never touches its
      source again;
    * a failed `next()` (StopIteration) is an observation too: `probe` lists, for every one of `K`
      requests — also those made after the end — whether an output came and the pull counter.
  Core Lean only; executable.
-/
import ALV.Model.C02
namespace ALV.C02
open ALV
variable {ι ο π σ τ α : Type}

structure StopStage (ι ο σ : Type) where
  base : Stage ι ο σ
  done : σ → Bool

namespace StopStage

/-- a plain stage: the loop is only left when the source ends -/
def never (S : Stage ι ο σ) : StopStage ι ο σ := ⟨S, fun _ => false⟩

/-- the loop is over (source ended or exit test true): run the epilogue -/
def finish (X : StopStage ι ο σ) (s : σ) (r : Nat) (xs : List ι) :
    Option ο × Stage.Cfg σ ο × List ι :=
  match X.base.onEnd s with
  | [] => (none, ⟨s, [], r, true⟩, xs)
  | o :: p => (some o, ⟨s, p, r, true⟩, xs)

/-- one `next()` on the stage; `none` = StopIteration.  The configuration after a failed request
    is returned too: the generator is finished (`ended`) and keeps its pull counter. -/
def demand (X : StopStage ι ο σ) :
    Stage.Cfg σ ο → List ι → Option ο × Stage.Cfg σ ο × List ι
  | ⟨s, o :: p, r, e⟩, xs => (some o, ⟨s, p, r, e⟩, xs)
  | ⟨s, [], r, true⟩, xs => (none, ⟨s, [], r, true⟩, xs)
  | ⟨s, [], r, false⟩, [] => X.finish s r []
  | ⟨s, [], r, false⟩, x :: xs =>
    if X.done s then X.finish s r (x :: xs)
    else X.demand ⟨(X.base.onItem s x).1, (X.base.onItem s x).2, r + 1, false⟩ xs
termination_by structural _ xs => xs

/-- `K` consecutive `next()` calls, failed ones included: (an output was delivered, pull counter
    of the source afterwards) -/
def probeFrom (X : StopStage ι ο σ) : Nat → Stage.Cfg σ ο → List ι → List (Bool × Nat)
  | 0, _, _ => []
  | K + 1, c, xs =>
    ((X.demand c xs).1.isSome, (X.demand c xs).2.1.nread) ::
      X.probeFrom K (X.demand c xs).2.1 (X.demand c xs).2.2

def probe (X : StopStage ι ο σ) (xs : List ι) (K : Nat) : List (Bool × Nat) :=
  X.probeFrom K X.base.start xs

/-- how many items of `xs` the loop reads at most: the position at which the exit test holds -/
def cutFrom (X : StopStage ι ο σ) : σ → List ι → Nat
  | _, [] => 0
  | s, x :: xs => if X.done s then 0 else X.cutFrom (X.base.onItem s x).1 xs + 1

def cut (X : StopStage ι ο σ) (xs : List ι) : Nat := X.cutFrom X.base.init xs

/-- all outputs on the finite source `xs` when the stage is consumed to its end -/
def run (X : StopStage ι ο σ) (xs : List ι) : List ο := X.base.run (xs.take (X.cut xs))

/-- a stage `T` consuming the outputs of `X`: the exit test stays `X`'s -/
def comp (X : StopStage ι π σ) (T : Stage π ο τ) : StopStage ι ο (σ × τ) :=
  ⟨X.base ▷ T, fun st => X.done st.1⟩

/-- `X` followed by a consumer that stops asking after `c` items (`.limit(c)`, `islice(·, c)`):
    at most `c` outputs are handed on — the state counts the outputs still allowed — and the loop
    is left as soon as none is. -/
def cap (X : StopStage ι ο σ) (c : Nat) : StopStage ι ο (σ × Nat) :=
  ⟨⟨(X.base.init, c - X.base.pre.length), X.base.pre.take c,
    fun st x => ((( X.base.onItem st.1 x).1, st.2 - (X.base.onItem st.1 x).2.length),
                 (X.base.onItem st.1 x).2.take st.2),
    fun st => (X.base.onEnd st.1).take st.2⟩,
   fun st => X.done st.1 || st.2 == 0⟩

end StopStage

/-! ### the stopping stages of the library -/

/-- `Stream.limit(N)` = `it.islice(data, N)`: pass items on, leave after `N` -/
def limitX (N : Nat) : StopStage α α (Unit × Nat) := (StopStage.never (mapS id)).cap N

/-- `takewhile(pred, seq)` with a predicate that holds for the first `n` items: the item that
    fails the test IS read (and lost) — `n + 1` reads — and nothing after it. -/
def takewhileX (n : Nat) : StopStage α α Nat :=
  ⟨filterS (fun i _ => decide (i < n)), fun i => decide (n < i)⟩

/-- `islice(seq, start, stop, step)` (CPython `islice_next`): items are skipped while
    `cnt < next` (so `start` items are read even when `start > stop`); otherwise, while
    `cnt < stop`, item number `cnt` is yielded and `next = min (next + step) stop`. -/
def isliceX (start stop step : Nat) : StopStage α α (Nat × Nat) :=
  ⟨⟨(0, start), [],
    fun st x => if st.1 < st.2 then ((st.1 + 1, st.2), [])
                else ((st.1 + 1, min (st.2 + step) stop), [x]),
    fun _ => []⟩,
   fun st => decide (st.2 ≤ st.1 ∧ stop ≤ st.1)⟩

/-! ### numeric spelling of a count parameter

  `limit(n)` / `skip(n)`: `max(int(round(n)), 0)` — Python's `round` of a float or a Fraction
  is round-half-to-EVEN, of an int or bool the value itself; `inf` → OverflowError, `nan` →
  ValueError.  `take(n)` / `peek(n)`: a float is `rint(n) if n > 0 else 0` (audiolazy's `rint`:
  half AWAY from zero), `inf` means all, an int / bool is `max(n, 0)`.
-/

inductive Num where
  | int (z : Int)
  | bool (b : Bool)
  | frac (q : Rat)          -- `fractions.Fraction`
  | float (q : Rat)         -- a finite float (its exact value)
  | inf (neg : Bool)
  | nan
  deriving Repr

/-- Python `round(x)` for a float / Fraction `x`: nearest integer, ties to the even one -/
def pyRound (q : Rat) : Int :=
  let f := q.floor
  let d := q - f
  if d < 1 / 2 then f
  else if 1 / 2 < d then f + 1
  else if f % 2 = 0 then f else f + 1

/-- audiolazy `rint(x)` for `x > 0`: nearest integer, ties away from zero -/
def rintPos (q : Rat) : Int := (q + 1 / 2).floor

/-- `max(int(round(n)), 0)` of `Stream.limit` / `Stream.skip`; the error is the Python exception -/
def roundCount : Num → Except String Nat
  | .int z => .ok z.toNat
  | .bool b => .ok (if b then 1 else 0)
  | .frac q => .ok (pyRound q).toNat
  | .float q => .ok (pyRound q).toNat
  | .inf _ => .error "OverflowError"
  | .nan => .error "ValueError"

/-- items `Stream.take(n)` / `peek(n)` may read; `none` = no bound (`inf`: the whole stream) -/
def takeCount : Num → Except String (Option Nat)
  | .int z => .ok (some z.toNat)
  | .bool b => .ok (some (if b then 1 else 0))
  | .frac q => if q < 0 then .ok (some 0) else .error "ValueError"   -- `max(n, 0)` stays a Fraction: islice wants an int
  | .float q => .ok (some (if 0 < q then (rintPos q).toNat else 0))
  | .inf neg => .ok (if neg then some 0 else none)
  | .nan => .ok (some 0)

/-- `int(dur + .5)`: number of samples of a `line` / attack / decay of (spelled) duration `dur`;
    a negative duration gives an empty `xrange` -/
def durLen : Num → Nat
  | .int z => z.toNat
  | .bool b => if b then 1 else 0
  | .frac q => (q + 1 / 2).floor.toNat
  | .float q => (q + 1 / 2).floor.toNat
  | _ => 0

/-! ### chains with stopping stages (driver) -/

structure AnyStop where
  σ : Type
  st : StopStage Unit Unit σ

inductive XDesc where
  | plain (d : Desc)
  | limit (N : Nat)
  | takewhile (n : Nat)
  | islice (start stop step : Nat)
  deriving Repr

/-- (base stage, number of input items it consumes before it leaves its loop) -/
def XDesc.stopKind : XDesc → Option (AnyStage × Nat)
  | .plain _ => none
  | .limit N => some (⟨_, mapS u1⟩, N)
  | .takewhile n => some (⟨_, (takewhileX n).base⟩, n + 1)
  | .islice start stop step => some (⟨_, (isliceX start stop step).base⟩, max start stop)

/-- the chain built from the source outwards: a plain stage consumes what is in front of it;
    a stopping stage with static cut `c` consumes the first `c` outputs of what is in front of it
    (`StopStage.cap`) with its plain loop (justified by `stop_truncates`) -/
def buildX : AnyStop → List XDesc → AnyStop
  | cur, [] => cur
  | cur, .plain d :: ds => buildX ⟨_, cur.st.comp (build d).st⟩ ds
  | cur, x :: ds =>
    match x.stopKind with
    | none => buildX cur ds
    | some (b, c) => buildX ⟨_, (cur.st.cap c).comp b.st⟩ ds

def buildXChain (ds : List XDesc) : AnyStop := buildX ⟨_, StopStage.never (mapS u1)⟩ ds

/-- probe of a chain over a source of `n` items -/
def chainProbe (ds : List XDesc) (n K : Nat) : List (Bool × Nat) :=
  (buildXChain ds).st.probe (List.replicate n ()) K

/-- number of outputs of a chain consumed to its end -/
def chainXOutLen (ds : List XDesc) (n : Nat) : Nat :=
  ((buildXChain ds).st.run (List.replicate n ())).length

end ALV.C02
