/-
  C17 — recordings, failing `pa.open` and a raising `terminate()` in the SAME history as the player
  threads: a layer over the coarse transition system (`ALV.Model.C17`), which is left untouched.

  The control thread issues, between the calls of the coarse script, two more kinds of call:

    r = io.record(chunk_size=cs)      one backend call: `pa.open(input=True, …)`, then
                                      `_recordings.append(r)` (no lock, no thread)
    io.play(audio, …) whose `pa.open` raises
                                      `with self.lock:` / `AudioThread.__init__`: `go.set()`,
                                      `pa.open` raises / the lock is released by the exception:
                                      nothing was appended to `_threads`, no thread was started

  and `close()` has, between its loop over `_threads` and `assert` / `terminate`, its loop over
  `_recordings` (`recst = self._recordings[-1]; recst.stop(); recst.take(inf)`): for a stream the
  history only created, one backend call each, `file_obj.close()`, the last one first.  (What `take`
  / `stop` do to a recording stream is the sequential machine `ALV.Model.C17Rec`; they touch neither
  locks nor threads.)  A `terminate()` that raises (`XCfg.termFails`) is called all the same — once
  — and its exception leaves `close()` through `with self.halting`: only what the caller sees
  differs.

  Where the extra calls sit in the script is given by tags: an extra call with tag `t` has `t` coarse
  calls after it; it is issued as soon as the control script is about to issue a coarse call with
  fewer than `t` coarse calls after that one (or has none left).  The coarse state is never altered by an extra call (the lock taken
  by a failing `play` is the flag `shadow`, which blocks `thread_finished` exactly as the manager
  lock does), so every step of this system is a step of the coarse system or leaves the coarse state
  alone (`ALV.Lemmas.C17Mix.mix_refines`).

  Mathlib-free; executable.
-/
import ALV.Model.C17
import ALV.Spec.C17
namespace ALV.C17

/-- the extra calls of the control thread -/
inductive XOp where
  | record (cs : Nat)             -- `io.record(chunk_size=cs)`
  | playFail                      -- `io.play(…)` on a backend whose `pa.open` raises for this call
  deriving DecidableEq, Repr, Inhabited

/-- a call of the mixed script -/
inductive XCmd where
  | base (c : Cmd)
  | ext (o : XOp)
  deriving DecidableEq, Repr, Inhabited

/-- pending operation of the control thread inside an extra call -/
inductive XPc where
  | idle                          -- not inside an extra call
  | fGoSet                        -- failing play: lock taken; `self.go.set()`
  | fOpen                         -- `pa.open(…)`, which raises
  | fRel                          -- the exception leaves `with self.lock`
  | fRaiseRel                     -- play on a finished manager: ThreadError leaves `with self.lock`
  deriving DecidableEq, Repr, Inhabited

inductive XEv where
  | recordOk
  | recordRefused                 -- `pa.open` after `terminate`
  | playOpenError                 -- the exception of `pa.open` came out of `play`
  | playThreadError               -- `play` on a finished manager
  deriving DecidableEq, Repr, Inhabited

/-- one recording stream -/
structure XRec where
  six : Nat                       -- index of its device stream
  cs : Nat
  closes : Nat                    -- calls of `file_obj.close()`
  deriving DecidableEq, Repr, Inhabited

structure XCfg where
  cfg : Cfg
  termFails : Bool                -- `pa.terminate()` raises
  deriving Repr, Inhabited

structure XState where
  base : State
  xpc : XPc
  todo : List (Nat × XOp)         -- extra calls still to be issued, with their tags (descending)
  shadow : Bool                   -- the manager lock is held by a failing `play`
  recs : List XRec                -- every recording stream created so far
  opens : Nat                     -- successful `pa.open` calls = index of the next device stream
  ghosts : Nat                    -- thread objects whose `pa.open` failed (never started)
  six : List Nat                  -- by player: index of its device stream
  tix : List Nat                  -- by player: index of its thread object
  xlog : List (Nat × XEv)         -- (tag, event) of every extra call that returned
  deriving Repr, Inhabited

/-- the coarse script of a mixed script -/
def projScript : List XCmd → List Cmd
  | [] => []
  | .base c :: r => c :: projScript r
  | .ext _ :: r => projScript r

/-- the extra calls with their tags: the number of coarse calls that come after them -/
def extOps : List XCmd → List (Nat × XOp)
  | [] => []
  | .base _ :: r => extOps r
  | .ext o :: r => ((projScript r).length, o) :: extOps r

def initX (script : List XCmd) : XState :=
  { base := init (projScript script), xpc := .idle, todo := extOps script, shadow := false, recs := [],
    opens := 0, ghosts := 0, six := [], tix := [], xlog := [] }

/-- the control script is about to issue a coarse call (or has none left) -/
def atCallStart : MPc → Bool
  | .pAcq _ _ | .cAcq _ _ | .jJoin _ | .kHAcq | .done => true
  | _ => false

/-- an extra call with tag `t` comes before the coarse call that is about to be issued -/
def due (s : State) (t : Nat) : Bool :=
  atCallStart s.mpc && (s.mpc == .done || decide (s.script.length < t))

/-- the recording stream `close()` drains next: the last one that is still listed -/
def lastActive (recs : List XRec) : Option Nat :=
  ((List.range recs.length).reverse).find? fun k =>
    match recs[k]? with
    | some r => r.closes == 0
    | none => false

def closeRec (recs : List XRec) (k : Nat) : List XRec :=
  match recs[k]? with
  | some r => recs.set k { r with closes := r.closes + 1 }
  | none => recs

/-- bookkeeping after a coarse step of the control script: a new player got its thread object
    (`pAcq`), a successful `pa.open` its device stream (`pOpen`) -/
def noteMain (x : XState) (old : MPc) (b : State) : XState :=
  match old with
  | .pAcq _ _ =>
    if b.players.length = x.base.players.length then { x with base := b }
    else { x with base := b, tix := x.tix ++ [x.base.players.length + x.ghosts] }
  | .pOpen _ => { x with base := b, six := x.six ++ [x.opens], opens := x.opens + 1 }
  | _ => { x with base := b }

def stepMainX (xc : XCfg) (x : XState) : Option XState :=
  match x.xpc with
  | .fGoSet => some { x with xpc := .fOpen }
  | .fOpen => some { x with xpc := .fRel }
  | .fRel =>
    match x.todo with
    | (t, _) :: rest =>
      some { x with
        xpc := .idle, shadow := false, ghosts := x.ghosts + 1, todo := rest,
        xlog := x.xlog ++ [(t, .playOpenError)] }
    | [] => none
  | .fRaiseRel =>
    match x.todo with
    | (t, _) :: rest =>
      some { x with
        xpc := .idle, shadow := false, todo := rest,
        xlog := x.xlog ++ [(t, .playThreadError)] }
    | [] => none
  | .idle =>
    match x.todo with
    | (t, op) :: rest =>
      if due x.base t then
        match op with
        | .record cs =>
          -- `pa.open(input=True, …)`; `_recordings.append`
          if x.base.terminated > 0 then
            some { x with todo := rest, xlog := x.xlog ++ [(t, .recordRefused)] }
          else
            some { x with
              todo := rest, recs := x.recs ++ [{ six := x.opens, cs := cs, closes := 0 }],
              opens := x.opens + 1, xlog := x.xlog ++ [(t, .recordOk)] }
        | .playFail =>
          -- `with self.lock:`
          if x.base.mlock.isSome then none
          else some { x with shadow := true, xpc := if x.base.finished then .fRaiseRel else .fGoSet }
      else baseMain
    | [] => baseMain
where
  baseMain : Option XState :=
    if x.base.mpc == .kTerm then
      match lastActive x.recs with
      | some k => some { x with recs := closeRec x.recs k }        -- `file_obj.close()` of `_recordings[-1]`
      | none => (stepMain xc.cfg x.base).map fun b => noteMain x x.base.mpc b
    else (stepMain xc.cfg x.base).map fun b => noteMain x x.base.mpc b

def stepPlayerX (xc : XCfg) (x : XState) (i : Nat) : Option XState :=
  match x.base.players[i]? with
  | some p =>
    if x.shadow && p.pc == .tfAcq then none          -- the manager lock is taken
    else (stepPlayer xc.cfg x.base i).map fun b => { x with base := b }
  | none => none

def stepX (xc : XCfg) (x : XState) : Tid → Option XState
  | .main => stepMainX xc x
  | .player i => stepPlayerX xc x i

def runSchedX (xc : XCfg) (x : XState) : List Tid → XState × List Tid
  | [] => (x, [])
  | t :: ts =>
    match stepX xc x t with
    | some x' => runSchedX xc x' ts
    | none => (x, t :: ts)

def enabledX (xc : XCfg) (x : XState) (t : Tid) : Bool := (stepX xc x t).isSome

def terminalX (xc : XCfg) (x : XState) : Bool := (tids x.base).all (fun t => !enabledX xc x t)

/-- the mixed script has been issued to its end -/
def scriptDone (x : XState) : Bool := x.base.mpc == .done && x.todo.isEmpty && x.xpc == .idle

/-- every recording stream had its device stream closed exactly once -/
def recsClosed (x : XState) : Bool := x.recs.all fun r => r.closes == 1

/-- "after close", both kinds of stream: what `closedAfter` says of the players, every recording's
    device stream closed exactly once, the backend terminated exactly once -/
def closedAfterX (x : XState) : Bool := closedAfter x.base && recsClosed x

/-- did the `close()` that terminated the backend return, or raise the backend's error? -/
def closeRaised (xc : XCfg) (x : XState) : Bool := xc.termFails && decide (x.base.terminated > 0)

end ALV.C17
