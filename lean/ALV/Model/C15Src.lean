/-
  C15 — the target vocabulary of the source translator `harness/props/c15_tr.py`.

  The translator turns the bodies of the `MultiKeyDict` / `StrategyDict` methods into Lean functions over
  the model's state records (`St`, `SD`) and dictionary primitives (`dget`, `dhas`, `dset`, `ddel`), statement
  by statement, in the monad `Except Err`:  a Python exception is `Except.error`, and the KIND of the
  exception is given by the primitive that raises it —

    `keyErr  (dget d k)`   `d[k]` of a dict                     (`KeyError`)
    `keyErr  (ddel d k)`   `del d[k]` of a dict                 (`KeyError`)
    `attrErr (dget a n)`   `getattr(self, n)`                    (`AttributeError`)
    `attrErr (ddel a n)`   `object.__delattr__(self, n)`         (`AttributeError`)
    `tryKey body handler`  `try: body  except KeyError: handler`

  Mathlib-free, executable.
-/
import ALV.Model.C15

namespace ALV.C15

/-- `none` = the lookup / deletion raised `KeyError` -/
def keyErr {α : Type} : Option α → Except Err α
  | some a => .ok a
  | none => .error .key

/-- `none` = the attribute access raised `AttributeError` -/
def attrErr {α : Type} : Option α → Except Err α
  | some a => .ok a
  | none => .error .attr

/-- `try: body except KeyError: handler` — `handler` runs from the state the `try` was entered with (the
    translator only accepts a `try` body that is ONE call of a translated method; that the callee has changed
    nothing when it raises is its own atomicity theorem) -/
def tryKey {α : Type} (body handler : Except Err α) : Except Err α :=
  match body with
  | .error .key => handler
  | r => r

end ALV.C15
