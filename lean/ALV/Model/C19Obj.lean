/-
  C19 — `TableLookup` objects are mutable: model of *histories* (code shaped).

  A `TableLookup` keeps a reference to the python list given as its table, the length of that
  list *cached by the `table` setter* (`_len`), and the public attribute `cycles`.  Operators,
  `normalize`, `harmonize` build new objects with new lists; `tl.table = …`, `tl.cycles = …`
  assign attributes; the list itself can be changed in place by whoever holds it.  `tl(freq,
  phase)` reads `len(self)`, `self.cycles`, `self.table` *at the call* and returns a lazy stream
  that keeps the list and the numbers it computed.

  Assigning something that has no `len()` to `tl.table` raises TypeError *after* `_table` was
  replaced (the setter stores the value first): the object is left broken (`TL.broken`).

  A history is a sequence of such operations on a small heap (lists, objects, open streams).
  Mathlib-free; executable.  `denOf c` is the value of the expression `c * 2 * pi`.
-/
import ALV.Model.C19
namespace ALV.C19

section Obj
variable {α : Type} [Add α] [Sub α] [Mul α] [Div α] [Neg α] [OfNat α 0] [OfNat α 1]
  [IntCast α] [Floor α] [DecidableEq α] [LT α] [DecidableLT α]

/-- one sample of the oscillator (lazy_synth.py:536-537) with `total_length = len(self)` as
    the object cached it: `tbl[int(idx)] * (1. - (idx - int(idx))) +
    tbl[int(ceil(idx)) - total_length] * (idx - int(idx))` -/
def lookupAtLen (tbl : List α) (total : Nat) (idx : α) : Option α :=
  let i := pyInt idx
  let fr := idx - (i : α)
  match pyIndex tbl i, pyIndex tbl (pyCeil idx - (total : Int)) with
  | some x, some y => some (x * (1 - fr) + y * fr)
  | _, _ => none

/-- the table positions `modulo_counter(part, total_len_float, step)` of a call (lines 529-534) -/
def oscPositions (total : Nat) (den : α) (freq phase : Arg α) (n : Nat) : List α :=
  let tot : α := ((total : Int) : α)
  let cycleLength := tot / den
  moduloCounter (phase.map (cycleLength * ·)) (.num tot) (freq.map (cycleLength * ·)) n

/-- `__getitem__` (lines 545-550, as repaired for D15: `left = int(floor(idx))`) -/
def getItemLen (tbl : List α) (total : Nat) (idx : α) : Option α :=
  let L : Int := total
  let left : Int := Floor.floor idx
  let fr := idx - (left : α)
  match pyIndex tbl (left.fmod L), pyIndex tbl ((pyCeil idx).fmod L) with
  | some x, some y => some (x * (1 - fr) + y * fr)
  | _, _ => none

/-- python `xs[k] = v`; `none` = IndexError -/
def pySetItem (xs : List α) (k : Int) (v : α) : Option (List α) :=
  let L : Int := xs.length
  if 0 ≤ k ∧ k < L then some (xs.set k.toNat v)
  else if -L ≤ k ∧ k < 0 then some (xs.set (L + k).toNat v)
  else none

/-- `harmonize` with the cached length: `data.take(len(self))` -/
def tblHarmonizeLen (t : List α) (len : Nat) (harm : List (Nat × α)) : List α :=
  (List.range len).map fun k =>
    harm.foldl (fun acc pa =>
      let sl := tblSlice t (pa.1 + 1)
      acc + sl.getD (k % sl.length) 0 * pa.2) 0

/-- samples delivered before the first IndexError, and whether there was one -/
def takeOk : List (Option α) → List α × Bool
  | [] => ([], false)
  | none :: _ => ([], true)
  | some x :: r => ((x :: (takeOk r).1), (takeOk r).2)

/-- a `TableLookup` instance -/
structure TL (α : Type) where
  tbl : Nat          -- which python list `_table` refers to
  len : Nat          -- `_len`, cached by the `table` setter
  cycles : α
  broken : Bool      -- `_table` holds something that is not a sequence (a failed assignment left it there)

/-- a stream returned by `TableLookup.__call__`: what the call computed and captured -/
structure Osc (α : Type) where
  tbl : Nat          -- `tbl = self.table`
  len : Nat          -- `total_length`
  den : α            -- `self.cycles * 2 * pi`
  freq : Arg α
  phase : Arg α
  pos : Nat          -- samples delivered so far
  dead : Bool        -- an exception went through the generator
  broken : Bool      -- `tbl` is not a sequence: the first sample raises TypeError

structure Heap (α : Type) where
  lists : List (List α)
  objs : List (TL α)
  oscs : List (Osc α)

/-- the operations of a history -/
inductive HOp (α : Type) where
  | newList (xs : List α)                         -- a new python list
  | new (l : Nat) (c : α)                         -- `TableLookup(lists[l], c)`
  | setTable (i l : Nat)                          -- `obj_i.table = lists[l]`
  | setTableUnsized (i : Nat)                     -- `obj_i.table = None` (anything without `len()`): TypeError
  | setCycles (i : Nat) (c : α)                   -- `obj_i.cycles = c`
  | setItem (l : Nat) (k : Int) (v : α)           -- `lists[l][k] = v`
  | append (l : Nat) (v : α)                      -- `lists[l].append(v)`
  | pop (l : Nat)                                 -- `lists[l].pop()`
  | binary (op : TOp) (i j : Nat)                 -- `obj_i <op> obj_j`
  | scalar (op : TOp) (i : Nat) (x : α) (reflected : Bool) (known : Bool)
      -- `obj_i <op> x` / `x <op> obj_i`; `known` = `isinstance(x, (int, float, complex))`
  | neg (i : Nat)                                 -- `-obj_i`
  | normalize (i : Nat)
  | harmonize (i : Nat) (harm : List (Nat × α))
  | call (i : Nat) (freq phase : Arg α)           -- `obj_i(freq, phase)`: a new lazy stream
  | read (s k : Nat)                              -- the next `k` samples of stream `s`
  | getitem (i : Nat) (idx : α)                   -- `obj_i[idx]`
  | len (i : Nat)                                 -- `len(obj_i)`
  | eq (i j : Nat)                                -- `obj_i == obj_j`
  | table (i : Nat)                               -- `(list(obj_i.table), obj_i.cycles)`

/-- what a step shows -/
inductive Obs (α : Type) where
  | unit
  | ref (i : Nat)                                 -- id of the new list / object / stream
  | samples (xs : List α) (status : String)       -- "fuel" | "stop" | "IndexError"
  | val (x : α)
  | nat (n : Nat)
  | bool (b : Bool)
  | table (xs : List α) (cycles : α)
  | err (e : String)
  deriving DecidableEq

/-- a new object with a new list: what every operator returns -/
def Heap.alloc (h : Heap α) (xs : List α) (c : α) : Heap α × Obs α :=
  ({ h with lists := h.lists ++ [xs],
            objs := h.objs ++ [{ tbl := h.lists.length, len := xs.length, cycles := c, broken := false }] },
   .ref h.objs.length)

/-- object `i` and the current contents of its list (`none`: no such object, or its `_table` is
    not a sequence) -/
def Heap.obj? (h : Heap α) (i : Nat) : Option (TL α × List α) :=
  match h.objs[i]? with
  | none => none
  | some o =>
    if o.broken then none
    else
      match h.lists[o.tbl]? with
      | none => none
      | some xs => some (o, xs)

/-- the exception of an operation that needs the table of object `i` and cannot get it:
    TypeError when `_table` is not a sequence (`BadRef`: the history names an object that does not
    exist — never generated) -/
def Heap.whyNot (h : Heap α) (i : Nat) : String :=
  match h.objs[i]? with
  | some o => if o.broken then "TypeError" else "BadRef"
  | none => "BadRef"

/-- one step.  A failing step (`.err`) leaves the heap as it was. -/
def step (denOf : α → α) (h : Heap α) : HOp α → Heap α × Obs α
  | .newList xs => ({ h with lists := h.lists ++ [xs] }, .ref h.lists.length)
  | .new l c =>
    match h.lists[l]? with
    | none => (h, .err "BadRef")
    | some xs => ({ h with objs := h.objs ++ [{ tbl := l, len := xs.length, cycles := c, broken := false }] },
                  .ref h.objs.length)
  | .setTable i l =>
    match h.objs[i]?, h.lists[l]? with
    | some o, some xs =>
      ({ h with objs := h.objs.set i { o with tbl := l, len := xs.length, broken := false } }, .unit)
    | _, _ => (h, .err "BadRef")
  | .setTableUnsized i =>
    -- `self._table = value` is done, then `self._len = len(value)` raises
    match h.objs[i]? with
    | some o => ({ h with objs := h.objs.set i { o with broken := true } }, .err "TypeError")
    | none => (h, .err "BadRef")
  | .setCycles i c =>
    match h.objs[i]? with
    | some o => ({ h with objs := h.objs.set i { o with cycles := c } }, .unit)
    | none => (h, .err "BadRef")
  | .setItem l k v =>
    match h.lists[l]? with
    | none => (h, .err "BadRef")
    | some xs =>
      match pySetItem xs k v with
      | none => (h, .err "IndexError")
      | some ys => ({ h with lists := h.lists.set l ys }, .unit)
  | .append l v =>
    match h.lists[l]? with
    | none => (h, .err "BadRef")
    | some xs => ({ h with lists := h.lists.set l (xs ++ [v]) }, .unit)
  | .pop l =>
    match h.lists[l]? with
    | none => (h, .err "BadRef")
    | some xs =>
      if xs = [] then (h, .err "IndexError")
      else ({ h with lists := h.lists.set l xs.dropLast }, .unit)
  | .binary op i j =>
    match h.obj? i, h.obj? j with
    | some (o1, t1), some (o2, t2) =>
      if o1.cycles ≠ o2.cycles then (h, .err "ValueError")
      else if o1.len ≠ o2.len then (h, .err "ValueError")
      else h.alloc (List.zipWith op.app t1 t2) o1.cycles
    | none, _ => (h, .err (h.whyNot i))
    | _, none => (h, .err (h.whyNot j))
  | .scalar op i x reflected known =>
    match h.obj? i with
    | none => (h, .err (h.whyNot i))
    | some (o, t) =>
      if known then h.alloc (tblScalar op t x reflected) o.cycles
      else (h, .err "NotImplementedError")
  | .neg i =>
    match h.obj? i with
    | none => (h, .err (h.whyNot i))
    | some (o, t) => h.alloc (tblNeg t) o.cycles
  | .normalize i =>
    match h.obj? i with
    | none => (h, .err (h.whyNot i))
    | some (o, t) =>
      match tblNormalize t with
      | .error e => (h, .err e)
      | .ok r => h.alloc r o.cycles
  | .harmonize i harm =>
    match h.obj? i with
    | none => (h, .err (h.whyNot i))
    | some (o, t) => h.alloc (tblHarmonizeLen t o.len harm) o.cycles
  | .call i freq phase =>
    match h.objs[i]? with
    | none => (h, .err "BadRef")
    | some o =>
      if denOf o.cycles = 0 then (h, .err "ZeroDivisionError")
      else ({ h with oscs := h.oscs ++ [{ tbl := o.tbl, len := o.len, den := denOf o.cycles,
                                          freq := freq, phase := phase, pos := 0, dead := false,
                                          broken := o.broken }] },
            .ref h.oscs.length)
  | .read s k =>
    match h.oscs[s]? with
    | none => (h, .err "BadRef")
    | some o =>
      if o.dead then (h, .samples [] "stop")
      else
        match h.lists[o.tbl]? with
        | none => (h, .err "BadRef")
        | some xs =>
          let idxs := (oscPositions o.len o.den o.freq o.phase (o.pos + k)).drop o.pos
          -- `tbl[int(idx)]` on something that is not a sequence: TypeError at the first sample
          let r := if o.broken then ([], !idxs.isEmpty) else takeOk (idxs.map (lookupAtLen xs o.len))
          let status := if r.2 then (if o.broken then "TypeError" else "IndexError")
                        else if r.1.length < k then "stop" else "fuel"
          ({ h with oscs := h.oscs.set s { o with pos := o.pos + r.1.length, dead := r.2 } },
           .samples r.1 status)
  | .getitem i idx =>
    match h.obj? i with
    | none => (h, .err (h.whyNot i))
    | some (o, t) =>
      match getItemLen t o.len idx with
      | none => (h, .err "IndexError")
      | some x => (h, .val x)
  | .len i =>
    match h.objs[i]? with
    | none => (h, .err "BadRef")
    | some o => (h, .nat o.len)
  | .eq i j =>
    match h.obj? i, h.obj? j with
    | some (o1, t1), some (o2, t2) => (h, .bool (decide (o1.cycles = o2.cycles) && decide (t1 = t2)))
    | none, _ => (h, .err (h.whyNot i))
    | _, none => (h, .err (h.whyNot j))
  | .table i =>
    match h.obj? i with
    | none => (h, .err (h.whyNot i))
    | some (o, t) => (h, .table t o.cycles)

/-- the heap after a history -/
def runHeap (denOf : α → α) (h : Heap α) (ops : List (HOp α)) : Heap α :=
  ops.foldl (fun h op => (step denOf h op).1) h

/-- the observations of a history, one per step -/
def histModel (denOf : α → α) : Heap α → List (HOp α) → List (Obs α)
  | _, [] => []
  | h, op :: ops => (step denOf h op).2 :: histModel denOf (step denOf h op).1 ops

end Obj
end ALV.C19
