/-
  C09 — model of `audiolazy.lazy_analysis.overlap_add.list` and of the `stft`
  wrapper (code shaped).  Mathlib-free; executable.

  `overlap_add.list(blk_sig, size=None, hop=None, wnd=None, normalize=True)`  (a generator):

    if size is None: blk_sig = Stream(blk_sig); size = len(blk_sig.peek())
    if hop is None: hop = size
    if wnd is not None:
      if callable(wnd) and not isinstance(wnd, Stream): wnd = wnd(size)
      if isinstance(wnd, Iterable): wnd = list(wnd)
      else: raise TypeError("Window should be an iterable or a callable")
    if normalize:
      if wnd:
        steps = Stream(wnd).map(abs).blocks(hop).map(tuple)
        gain = max(xmap(sum, xzip(*steps)))
        if gain: wnd[:] = (w / gain for w in wnd)
      else:
        wnd = [1 / ceil(size / hop)] * size
    if wnd:
      if len(wnd) != size: raise ValueError("Incompatible window size")
      wnd = wnd + [0.]
      blk_sig = (xmap(mul, wnd, blk) for blk in blk_sig)
    mem = [0.] * size
    s_h = size - hop
    for blk in xmap(iter, blk_sig):
      mem[:s_h] = xmap(add, mem[hop:], blk)
      mem[s_h:] = blk                      # what the iterator still holds
      if len(mem) != size: raise ValueError("Wrong block size or declared")
      for el in mem[:hop]: yield el
    for el in mem[hop:]: yield el

  The slices are modelled with Python's semantics for every integer bound
  (`s_h` is negative when hop > size), so the model also says what the code does
  outside the property's quantifier (hop > size: plain concatenation; hop = 0).
-/
import ALV.Model.C08
namespace ALV.C09
variable {α : Type}

/-! ### Python list slices `l[:i]`, `l[i:]` for any integer bound -/

/-- number of items in `l[:i]` for a list of length `len` -/
def sliceIdx (len : Nat) (i : Int) : Nat :=
  if i < 0 then ((len : Int) + i).toNat else min i.toNat len

def pyTake (l : List α) (i : Int) : List α := l.take (sliceIdx l.length i)
def pyDrop (l : List α) (i : Int) : List α := l.drop (sliceIdx l.length i)

/-! ### errors the generator raises (all at the first `next`) -/

inductive Err where
  | windowType     -- TypeError  "Window should be an iterable or a callable"
  | windowSize     -- ValueError "Incompatible window size"
  | blockSize      -- ValueError "Wrong block size or declared"
  | zeroDivision   -- ZeroDivisionError  (`size / hop` with hop = 0, `1 / ceil(0)`)
  | maxEmpty       -- ValueError  `max()` of an empty iterable (hop = 0 with a window)
  | numpyMissing   -- ModuleNotFoundError: a numpy default is needed and numpy is not installed
  | windowItems    -- TypeError from the first arithmetic on a window item that is not a number
  deriving DecidableEq, Repr

def Err.kind : Err → String
  | .windowType => "TypeError"
  | .windowSize => "ValueError"
  | .blockSize => "ValueError"
  | .zeroDivision => "ZeroDivisionError"
  | .maxEmpty => "ValueError"
  | .numpyMissing => "ImportError"
  | .windowItems => "TypeError"

def Err.tag : Err → String
  | .windowType => "window-type"
  | .windowSize => "window-size"
  | .blockSize => "block-size"
  | .zeroDivision => "zero-division"
  | .maxEmpty => "max-empty"
  | .numpyMissing => "numpy-default"
  | .windowItems => "window-items"

/-! ### the `wnd` argument -/

/-- What the code can tell apart about the `wnd` argument. -/
inductive WndArg (α : Type) where
  | none                                   -- `None`
  | seq (l : List α)                       -- list / tuple / generator / Stream: `list(wnd)`
  | callable (f : Nat → Option (List α))   -- `wnd(size)`; `none` = the result is not iterable
  | scalar                                 -- neither callable nor iterable

/-- window resolution of `overlap_add`: `None` stays `None`, everything else becomes a list -/
def resolveWnd (size : Nat) : WndArg α → Except Err (Option (List α))
  | .none => .ok none
  | .seq l => .ok (some l)
  | .callable f =>
    match f size with
    | some l => .ok (some l)
    | none => .error .windowType
  | .scalar => .error .windowType

/-- Python truthiness of `wnd` (`None` and `[]` are false) -/
def truthy : Option (List α) → Option (List α)
  | some (x :: xs) => some (x :: xs)
  | _ => none

/-! ### normalisation gain -/

section gain
variable [Add α] [Neg α] [Div α] [OfNat α 0] [OfNat α 1] [NatCast α] [LT α] [DecidableLT α] [DecidableEq α]

/-- `abs` -/
def pyAbs (x : α) : α := if x < 0 then -x else x

/-- `sum(t)`: left fold starting from 0 -/
def pySum (l : List α) : α := l.foldl (· + ·) 0

/-- `max(it)`: first maximal item (`if item > best: best = item`), `none` = ValueError on empty -/
def pyMax : List α → Option α
  | [] => none
  | x :: xs => some (xs.foldl (fun best y => if best < y then y else best) x)

/-- `zip(*rows)`: columns, cut at the shortest row; no row ⇒ nothing -/
def zipStar : List (List α) → List (List α)
  | [] => []
  | r :: rs =>
    let n := rs.foldl (fun m row => min m row.length) r.length
    (List.range n).map fun j => (r :: rs).map fun row => row.getD j 0

/-- `max(xmap(sum, xzip(*Stream(wnd).map(abs).blocks(hop).map(tuple))))`;
    `blocks(hop)` is `blocks(size=hop, hop=hop, padval=0.)` -/
def hopGain (hop : Nat) (w : List α) : Option α :=
  let steps := ALV.C08.blocks hop hop (0 : α) (w.map pyAbs)
  pyMax ((zipStar steps).map pySum)

/-- `ceil(size / hop)` for hop > 0 (float division of two small integers is exact enough) -/
def ceilDiv (a b : Nat) : Nat := (a + b - 1) / b

/-- the `if normalize:` paragraph -/
def normWnd (size hop : Nat) (normalize : Bool) (w0 : Option (List α)) : Except Err (Option (List α)) :=
  if normalize then
    match truthy w0 with
    | some w =>
      match hopGain hop w with
      | none => .error .maxEmpty
      | some g => if g = 0 then .ok (some w) else .ok (some (w.map (· / g)))
    | none =>
      if hop = 0 ∨ ceilDiv size hop = 0 then .error .zeroDivision
      else .ok (some (List.replicate size (1 / ((ceilDiv size hop : Nat) : α))))
  else .ok w0
end gain

/-! ### the overlap-add loop -/

structure Out (α : Type) where
  out : List α
  err : Option Err

section loop
variable [Add α] [Mul α] [OfNat α 0]

/-- `xmap(mul, wnd + [0.], blk)` -/
def applyWnd (w : List α) (blk : List α) : List α := List.zipWith (· * ·) (w ++ [0]) blk

/-- the two slice assignments of one iteration; the result is the new `mem` -/
def olaStep (size hop : Nat) (mem blk : List α) : List α :=
  let s_h : Int := (size : Int) - hop
  let a := List.zipWith (· + ·) (pyDrop mem hop) blk    -- xmap(add, mem[hop:], blk)
  let rest := blk.drop a.length                          -- items still in the iterator `blk`
  let mem1 := a ++ pyDrop mem s_h                        -- mem[:s_h] = a
  pyTake mem1 s_h ++ rest                                -- mem[s_h:] = rest

/-- `for blk in …: …; yield mem[:hop]` then the flush `mem[hop:]`.
    An error keeps what was yielded before it. -/
def olaLoop (size hop : Nat) : List α → List (List α) → Out α
  | mem, [] => ⟨pyDrop mem hop, none⟩
  | mem, blk :: rest =>
    let mem' := olaStep size hop mem blk
    if mem'.length ≠ size then ⟨[], some .blockSize⟩
    else
      let r := olaLoop size hop mem' rest
      ⟨pyTake mem' hop ++ r.out, r.err⟩

/-- from `if wnd:` (window application) to the end -/
def olaCore (size hop : Nat) (w : Option (List α)) (blks : List (List α)) : Out α :=
  match truthy w with
  | some w =>
    if w.length ≠ size then ⟨[], some .windowSize⟩
    else olaLoop size hop (List.replicate size 0) (blks.map (applyWnd w))
  | none => olaLoop size hop (List.replicate size 0) blks
end loop

/-- `size = len(blk_sig.peek())`: `none` when there is no block to look at.  `peek()` then raises
    StopIteration inside the generator; the generator was written (before PEP 479) to end there. -/
def detectSize (size? : Option Nat) (blks : List (List α)) : Option Nat :=
  match size? with
  | some s => some s
  | none => blks.head?.map List.length

section top
variable [Add α] [Mul α] [Neg α] [Div α] [OfNat α 0] [OfNat α 1] [NatCast α] [LT α] [DecidableLT α] [DecidableEq α]

/-- `overlap_add.list(blks, size, hop, wnd, normalize)` consumed to its end -/
def overlapAddList (blks : List (List α)) (size? hop? : Option Nat) (wnd : WndArg α)
    (normalize : Bool) : Out α :=
  match detectSize size? blks with
  | none => ⟨[], none⟩
  | some size =>
    let hop := hop?.getD size
    match resolveWnd size wnd with
    | .error e => ⟨[], some e⟩
    | .ok w0 =>
      match normWnd size hop normalize w0 with
      | .error e => ⟨[], some e⟩
      | .ok w1 => olaCore size hop w1 blks

/-- everything `overlap_add.list` can raise before it asks for a block (size known) -/
def olaPrologueErr (size hop : Nat) (wnd : WndArg α) (normalize : Bool) : Option Err :=
  match resolveWnd size wnd with
  | .error e => some e
  | .ok w0 =>
    match normWnd size hop normalize w0 with
    | .error e => some e
    | .ok w1 =>
      match truthy w1 with
      | some w => if w.length ≠ size then some .windowSize else none
      | none => none

/-- the block source may itself be a generator that raises at its first `next` (`blk_gen` of the
    stft wrapper does, for a bad analysis window): with a declared size the overlap-add's own
    checks come first, with size detection `peek()` reaches the source first -/
def overlapAddFrom (src : Except Err (List (List α))) (size? hop? : Option Nat) (wnd : WndArg α)
    (normalize : Bool) : Out α :=
  match src with
  | .ok blks => overlapAddList blks size? hop? wnd normalize
  | .error e =>
    match size? with
    | none => ⟨[], some e⟩
    | some size =>
      match olaPrologueErr size (hop?.getD size) wnd normalize with
      | some e' => ⟨[], some e'⟩
      | none => ⟨[], some e⟩
end top

/-! ## the `stft` wrapper

    kws = kwparams.copy(); kws.update(kwargs)
    if "size" not in kws: raise TypeError("Missing 'size' argument")
    if "hop" in kws and kws["hop"] > kws["size"]: raise ValueError(...)
    blk_params = {"size": kws.pop("size")}; blk_params["hop"] = kws.pop("hop", None)
    ola_params = blk_params.copy()
    blk_params["wnd"] = kws.pop("wnd", None)
    ola = kws.pop("ola", overlap_add)
    for name in ["transform", "inverse_transform", "before", "after"]:
      blk_params[name] = kws.pop(name, NotSpecified)
    for k, v in kws.items():
      if k.startswith("ola_"):
        if ola is not None: ola_params[k[len("ola_"):]] = v
        else: raise TypeError("Extra '{}' argument with no overlap-add strategy")
      else: raise TypeError("Unknown '{}' extra argument")
    return blk_gen(**blk_params) if ola is None else ola(blk_gen(**blk_params), **ola_params)
-/

/-- a keyword-argument value as far as the wrapper's decisions look at it -/
inductive PV where
  | none                 -- `None`
  | int (i : Int)
  | obj (tag : String)   -- any other object (function, window, strategy …), named by a tag
  deriving DecidableEq, Repr

abbrev Dict := List (String × PV)

/-- `d[k] = v`: an existing key keeps its position -/
def dictSet (d : Dict) (k : String) (v : PV) : Dict :=
  match d with
  | [] => [(k, v)]
  | (k', v') :: rest => if k' = k then (k, v) :: rest else (k', v') :: dictSet rest k v

/-- `d.update(e)` / `dict(chain(d.items(), e.items()))` -/
def dictUpdate (d e : Dict) : Dict := e.foldl (fun acc kv => dictSet acc kv.1 kv.2) d

def dictGet (d : Dict) (k : String) : Option PV := (d.find? (·.1 = k)).map (·.2)

/-- `d.pop(k, default)` -/
def dictPop (d : Dict) (k : String) (dflt : PV) : PV × Dict :=
  ((dictGet d k).getD dflt, d.filter (·.1 ≠ k))

/-- `stft(**kw1)(**kw2)…`: each call without `func` merges the new keywords over the old ones -/
def stftDefaults (chain : List Dict) : Dict := chain.foldl dictUpdate []

inductive PlanErr where
  | missingSize                 -- TypeError "Missing 'size' argument"
  | hopGtSize                   -- ValueError "Hop value can't be higher than size"
  | hopNotComparable            -- TypeError: `None > int`
  | olaOptionWithoutOla (k : String)   -- TypeError "Extra '{k}' argument with no overlap-add strategy"
  | unknownKey (k : String)     -- TypeError "Unknown '{k}' extra argument"
  deriving DecidableEq, Repr

def PlanErr.kind : PlanErr → String
  | .hopGtSize => "ValueError"
  | _ => "TypeError"

def PlanErr.tag : PlanErr → String
  | .missingSize => "missing-size"
  | .hopGtSize => "hop-gt-size"
  | .hopNotComparable => "hop-not-comparable"
  | .olaOptionWithoutOla k => "ola-option-without-ola:" ++ k
  | .unknownKey k => "unknown-key:" ++ k

structure Plan where
  blkParams : Dict      -- size, hop, wnd, transform, inverse_transform, before, after (in this order)
  ola : PV              -- `obj "default"` when not given
  olaParams : Dict      -- size, hop, then the stripped `ola_*` options in keyword order
  deriving DecidableEq, Repr

def notSpecified : PV := .obj "NotSpecified"
def defaultOla : PV := .obj "overlap_add"

/-- `k.startswith("ola_")` and `k[len("ola_"):]` in one step -/
def stripOla (k : String) : Option String :=
  match k.toList with
  | 'o' :: 'l' :: 'a' :: '_' :: rest => some (String.ofList rest)
  | _ => none

/-- the loop over the keywords that are left -/
def routeRest (ola : PV) : Dict → Dict → Except PlanErr Dict
  | [], acc => .ok acc
  | (k, v) :: rest, acc =>
    match stripOla k with
    | some k' =>
      if ola ≠ .none then routeRest ola rest (dictSet acc k' v)
      else .error (.olaOptionWithoutOla k)
    | none => .error (.unknownKey k)

/-- everything `wrapper` decides before any block is produced -/
def stftPlan (kwparams kwargs : Dict) : Except PlanErr Plan :=
  let kws := dictUpdate kwparams kwargs
  match dictGet kws "size" with
  | none => .error .missingSize
  | some size =>
    let hopCheck : Except PlanErr Unit :=
      match dictGet kws "hop", size with
      | some (.int h), .int s => if h > s then .error .hopGtSize else .ok ()
      | some .none, _ => .error .hopNotComparable
      | _, _ => .ok ()
    match hopCheck with
    | .error e => .error e
    | .ok () =>
      let (sz, kws) := dictPop kws "size" .none
      let (hop, kws) := dictPop kws "hop" .none
      let blk0 : Dict := [("size", sz), ("hop", hop)]
      let (wnd, kws) := dictPop kws "wnd" .none
      let (ola, kws) := dictPop kws "ola" defaultOla
      let (tr, kws) := dictPop kws "transform" notSpecified
      let (itr, kws) := dictPop kws "inverse_transform" notSpecified
      let (bef, kws) := dictPop kws "before" notSpecified
      let (aft, kws) := dictPop kws "after" notSpecified
      match routeRest ola kws blk0 with
      | .error e => .error e
      | .ok olaParams =>
        .ok { blkParams := blk0 ++ [("wnd", wnd), ("transform", tr), ("inverse_transform", itr),
                                     ("before", bef), ("after", aft)],
              ola := ola, olaParams := olaParams }

/-! ### `blk_gen` -/

/-- the five optional processing steps; `transform` / `inverse_transform` get `(blk, size)` -/
structure Stages (α : Type) where
  before : Option (List α → List α)
  transform : Option (List α → Nat → List α)
  func : List α → List α
  inverse : Option (List α → Nat → List α)
  after : Option (List α → List α)

/-- `funcs = [f for f in [before, trans, func, itrans, after] if f is not None]`, with their names -/
def Stages.funcs (st : Stages α) (size : Nat) : List (String × (List α → List α)) :=
  [ st.before.map (fun f => ("before", f)),
    st.transform.map (fun f => ("transform", fun blk => f blk size)),
    some ("func", st.func),
    st.inverse.map (fun f => ("inverse_transform", fun blk => f blk size)),
    st.after.map (fun f => ("after", f)) ].filterMap id

/-- `reduce(lambda data, f: f(data), funcs, blk)` -/
def process (fs : List (String × (List α → List α))) (blk : List α) : List α :=
  fs.foldl (fun data f => f.2 data) blk

/-- what every step receives, in call order (the spies of the tie record the same) -/
def processTrace : List (String × (List α → List α)) → List α → List (String × List α)
  | [], _ => []
  | f :: fs, blk => (f.1, blk) :: processTrace fs (f.2 blk)

/-- window resolution of `blk_gen`: a list of exactly `size` items or `None` -/
def resolveWndStft (size : Nat) (wnd : WndArg α) : Except Err (Option (List α)) :=
  let chk (l : List α) : Except Err (Option (List α)) :=
    if l.length ≠ size then .error .windowSize else .ok (some l)
  match wnd with
  | .none => .ok none
  | .seq l => chk l
  | .callable f =>
    match f size with
    | some l => chk l
    | none => .error .windowType
  | .scalar => .error .windowType

section blkgen
variable [Mul α] [OfNat α 0]

/-- the block the processing chain receives: `blk` itself, or `xmap(mul, blk, wnd)` -/
def windowed (w : Option (List α)) (blk : List α) : List α :=
  match w with
  | none => blk
  | some w => List.zipWith (· * ·) blk w

/-- `blk_gen(size, hop, wnd, …)` on a finite signal: the blocks handed to the overlap-add -/
def blkGen (size : Nat) (hop? : Option Nat) (wnd : WndArg α) (st : Stages α) (sig : List α) :
    Except Err (List (List α)) :=
  match resolveWndStft size wnd with
  | .error e => .error e
  | .ok w =>
    let blks := ALV.C08.blocks size (hop?.getD size) (0 : α) sig
    .ok (blks.map fun blk => process (st.funcs size) (windowed w blk))

/-- per block, what each step received -/
def blkGenTrace (size : Nat) (hop? : Option Nat) (wnd : WndArg α) (st : Stages α) (sig : List α) :
    List (List (String × List α)) :=
  match resolveWndStft size wnd with
  | .error _ => []
  | .ok w =>
    let blks := ALV.C08.blocks size (hop?.getD size) (0 : α) sig
    blks.map fun blk => processTrace (st.funcs size) (windowed w blk)
end blkgen

/-! ### the whole wrapper on a finite signal -/

/-- the keyword arguments the overlap-add strategy is called with, once understood as
    `overlap_add.list` arguments -/
structure OlaCall (α : Type) where
  size? : Option Nat
  hop? : Option Nat
  wnd : WndArg α
  normalize : Bool

structure StftOut (α : Type) where
  blocks : Option (List (List α))   -- `ola=None`: the Stream of processed blocks
  out : List α                      -- otherwise: the samples
  err : Option Err

section run
variable [Add α] [Mul α] [Neg α] [Div α] [OfNat α 0] [OfNat α 1] [NatCast α] [LT α] [DecidableLT α] [DecidableEq α]

/-- `blk_gen(**blk_params)` if `ola is None` else `ola(blk_gen(**blk_params), **ola_params)` with
    `ola = overlap_add.list` -/
def stftRun (needsNumpy : Bool) (size : Nat) (hop? : Option Nat) (wnd : WndArg α) (st : Stages α)
    (ola : Option (OlaCall α)) (sig : List α) : StftOut α :=
  -- a step left `NotSpecified` makes `blk_gen` import its numpy default before anything else;
  -- without numpy (this sandbox) that import is the first thing `blk_gen` raises
  let src := if needsNumpy then .error .numpyMissing else blkGen size hop? wnd st sig
  match ola with
  | none =>
    match src with
    | .ok bs => ⟨some bs, [], none⟩
    | .error e => ⟨none, [], some e⟩
  | some a =>
    let r := overlapAddFrom src a.size? a.hop? a.wnd a.normalize
    ⟨none, r.out, r.err⟩
end run

end ALV.C09
