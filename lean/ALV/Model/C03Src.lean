/-
  C03 — *source programs*.  A deep embedding of the small Python subset in which the bodies of
  `Stream.take / copy / peek / skip / limit / append / map / filter`, `StreamTeeHub.__init__ / take / copy / __iter__`,
  the `StreamTeeHub` overrides, `thub` and `lazy_itertools.tee` are written, and the interpreter that gives a program its meaning in
  the vocabulary of the history model (Model/C03.lean: `It` terms, `teeOf`, `takeWith`, `target`, `rebind`).

  The programs themselves are NOT written here: `lean/ALV/Gen/C03Src.lean` is regenerated from
  `audiolazy/lazy_stream.py` (and `lazy_itertools.py`) by `harness/props/c03_tr.py` on every run of the check, and
  `Props/C03.lean` proves `src_*_is_model`: the interpretation of the regenerated program of each method is the
  hand-written model function of that method (`stepP Gen.progs = step`).

  What this file fixes by hand (trusted, see TRUSTED of the harness) is the meaning of the vocabulary:

  * count expressions (`CE`) are evaluated over `Cnt` (None / int / finite float / ±inf / nan) with CPython's
    `isinf`, `>`, `isinstance(·, float)`, `round` (half to even, OverflowError for ±inf, ValueError for nan,
    TypeError for None), `int`, `max` and `lazy_misc.rint` (for positive floats: `rintPos`);
  * iterator expressions (`IE`): `it.islice(e, k)` is the `limiter` term (k must be an int, ValueError
    otherwise, raised at the call), `it.chain` / `xmap` / `xfilter` the `chain` / `map` / `filter` terms, the
    local generator `skipper` (recognised by the translator as a fixed template) the `skipper` term whose
    count is evaluated lazily, `a, b = it.tee(e)` is `teeOf`;
  * `next(self._data)`, `constructor(self._data)`, `constructor(it.islice(self._data, k))` are the three
    modes of `takeWith` (`one`, `all`, `n k`).
-/
import ALV.Model.C03Call
namespace ALV.C03
variable {α : Type}

namespace Src

/-! ### syntax -/

/-- conditions on the parameter `n` (and, for a hub, on `self._iters`) -/
inductive Cond where
  | isNone                      -- `n is None`
  | isInf                       -- `isinf(n)`
  | pos                         -- `n > 0`
  | isFloat                     -- `isinstance(n, float)`
  | and (a b : Cond)            -- `a and b`
  deriving Repr, DecidableEq

/-- count expressions -/
inductive CE where
  | n                           -- the parameter `n` (its current value)
  | lit (k : Int)               -- an int literal
  | none                        -- `None`
  | rint (e : CE)               -- `rint(e)` (lazy_misc)
  | round (e : CE)              -- `round(e)`
  | int (e : CE)                -- `int(e)`
  | max (a b : CE)              -- `max(a, b)`
  | ite (c : Cond) (a b : CE)   -- `a if c else b`
  deriving Repr, DecidableEq

/-- iterator expressions -/
inductive IE where
  | data                        -- `self._data` (for `StreamTeeHub.copy`: `self._iters[0]`)
  | var (name : String)         -- a local bound by `a, b = it.tee(…)`
  | islice (e : IE) (k : CE)    -- `it.islice(e, k)`
  | chain (a b : IE)            -- `it.chain(a, b)`
  | xmap (e : IE)               -- `xmap(func, e)`
  | xfilter (e : IE)            -- `xfilter(func, e)`
  | skipper (k : CE) (e : IE)   -- `skipper(e)`: the local generator (template), `k` its `xrange` count
  | others                      -- `Stream(*other)._data`
  deriving Repr, DecidableEq

inductive Ret where
  | next (e : IE)               -- `next(e)`
  | ctor (e : IE)               -- `constructor(e)`
  | self                        -- `self`
  | stream (e : IE)             -- `Stream(e)`
  | copyTake (n : Option CE)    -- `self.copy().take(n=…, constructor=constructor)`
  deriving Repr, DecidableEq

inductive Stmt where
  | ifRet (c : Cond) (r : Ret)          -- `if c: return r`
  | ifSetN (c : Cond) (e : CE)          -- `if c: n = e`
  | tee2 (a b : String) (e : IE)        -- `a, b = it.tee(e)`
  | setData (e : IE)                    -- `self._data = e` (hub copy: `self._iters[0] = e`)
  | ret (r : Ret)                       -- `return r`
  | raise (kind : String)               -- `raise kind(…)`
  deriving Repr, DecidableEq

abbrev Body := List Stmt

/-- a `StreamTeeHub` method -/
inductive HubBody where
  /-- `lambda self, <params>: Stream(self).<meth>(<args>)` -/
  | viaStream (meth : String) (params args : List String)
  /-- `if self._iters: <body with self._iters[0] as the data slot>` then `iter(self)` -/
  | ifIters (body : Body)
  /-- `try: return self._iters.pop()  except IndexError: raise kind(…)` -/
  | popOr (kind : String)
  | plain (body : Body)
  deriving Repr, DecidableEq

/-- what `thub(data, n)` hands back in one arm of its conditional expression -/
inductive TRet where
  | mkHub (args : List String)          -- `StreamTeeHub(<args>)`
  | data                                -- `data` itself
  deriving Repr, DecidableEq

/-- `thub`: `return <thenR> if isinstance(<test.1>, <test.2>) else <elseR>` -/
structure ThubBody where
  test : String × String
  thenR : TRet
  elseR : TRet
  deriving Repr, DecidableEq

/-- statements of `StreamTeeHub.__init__` (locals renamed v0, v1, … in binding order) -/
inductive HIStmt where
  | superInit (args : List String)      -- `super(StreamTeeHub, self).__init__(<args>)`
  | bindSuperIter (v : String)          -- `v = super(StreamTeeHub, self).__iter__()`
  | setIters (src n : String)           -- `self._iters = list(it.tee(src, n))`
  deriving Repr, DecidableEq

/-- what `lazy_itertools.tee(data, n)` hands back in one arm (generator variables normalised away) -/
inductive TeeRet where
  | streamsOfTee (src n : String)       -- `tuple(Stream(cp) for cp in it.tee(src, n))`
  | repeatOf (x n : String)             -- `tuple(x for unused in xrange(n))`
  deriving Repr, DecidableEq

/-- `lazy_itertools.tee`: `if isinstance(<test.1>, <test.2>): return <thenR>  else: return <elseR>` -/
structure TeeBody where
  test : String × List String
  thenR : TeeRet
  elseR : TeeRet
  deriving Repr, DecidableEq

/-- conditions of `Stream.__init__(self, *dargs)` -/
inductive ICond where
  | lenEq (k : Nat)                     -- `len(dargs) == k`
  | isIter0                             -- `isinstance(dargs[0], Iterable)`
  | allIter                             -- `all(isinstance(arg, Iterable) for arg in dargs)`
  | noneIter                            -- `not any(isinstance(arg, Iterable) for arg in dargs)`
  deriving Repr, DecidableEq

/-- what `Stream.__init__` stores in `self._data` -/
inductive IData where
  | iter0                               -- `iter(dargs[0])`
  | repeat0                             -- `it.repeat(dargs[0])`
  | chainIters                          -- `it.chain(*[iter(arg) for arg in dargs])`
  | cycleArgs                           -- `it.cycle(dargs)`
  deriving Repr, DecidableEq

/-- the body of `Stream.__init__`: a tree of `if / elif / else` with one statement per arm -/
inductive ITree where
  | raise (kind : String)               -- `raise kind(…)`
  | setData (d : IData)                 -- `self._data = d`
  | ite (c : ICond) (a b : ITree)
  deriving Repr, DecidableEq

/-- the regenerated programs -/
structure Progs where
  take : Body
  copy : Body
  peek : Body
  skip : Body
  limit : Body
  append : Body
  map : Body
  filter : Body
  hubTake : HubBody
  hubCopy : HubBody
  hubIter : HubBody
  hubLimit : HubBody
  hubSkip : HubBody
  hubAppend : HubBody
  hubMap : HubBody
  hubFilter : HubBody
  thub : ThubBody
  hubInit : List HIStmt
  tee : TeeBody
  deriving Repr, DecidableEq

/-! ### meaning of counts -/

def evalCond : Cond → Cnt → Except String Bool
  | .isNone, c => .ok (match c with | .none => true | _ => false)
  | .isInf, c =>
    match c with
    | .none => .error "TypeError"
    | .inf => .ok true
    | .ninf => .ok true
    | _ => .ok false
  | .pos, c =>
    match c with
    | .none => .error "TypeError"
    | .int n => .ok (decide (n > 0))
    | .flt x => .ok (decide (x > 0))
    | .inf => .ok true
    | .ninf => .ok false
    | .nan => .ok false
  | .isFloat, c =>
    .ok (match c with | .flt _ => true | .inf => true | .ninf => true | .nan => true | _ => false)
  | .and a b, c =>
    match evalCond a c with
    | .error e => .error e
    | .ok false => .ok false
    | .ok true => evalCond b c

def evalCE : CE → Cnt → Except String Cnt
  | .n, c => .ok c
  | .lit k, _ => .ok (.int k)
  | .none, _ => .ok .none
  | .rint e, c =>
    match evalCE e c with
    | .error x => .error x
    | .ok (.int k) => .ok (.int k)
    | .ok (.flt x) => if x > 0 then .ok (.int (rintPos x)) else .error "unmodelled"     -- only `rintPos` is modelled
    | .ok .none => .error "TypeError"
    | .ok .nan => .error "ValueError"
    | .ok _ => .error "OverflowError"
  | .round e, c =>
    match evalCE e c with
    | .error x => .error x
    | .ok (.int k) => .ok (.int k)
    | .ok (.flt x) => .ok (.int (roundHalfEven x))
    | .ok .none => .error "TypeError"
    | .ok .nan => .error "ValueError"
    | .ok _ => .error "OverflowError"
  | .int e, c =>
    match evalCE e c with
    | .error x => .error x
    | .ok (.int k) => .ok (.int k)
    | .ok .none => .error "TypeError"
    | .ok .nan => .error "ValueError"
    | .ok (.flt _) => .error "unmodelled"                                              -- truncation: not in the vocabulary
    | .ok _ => .error "OverflowError"
  | .max a b, c =>
    match evalCE a c, evalCE b c with
    | .error x, _ => .error x
    | _, .error x => .error x
    | .ok (.int i), .ok (.int j) => .ok (.int (if j > i then j else i))
    | .ok (.flt x), .ok (.int j) => .ok (if (j : Rat) > x then .int j else .flt x)
    | .ok .none, _ => .error "TypeError"
    | _, .ok .none => .error "TypeError"
    | _, _ => .error "unmodelled"
  | .ite g a b, c =>
    match evalCond g c with
    | .error x => .error x
    | .ok true => evalCE a c
    | .ok false => evalCE b c

/-! ### meaning of iterator expressions and bodies -/

/-- `eager`: raised by the call; `refused`: raised later, inside a generator (the history model
    without exceptions answers "unsupported") -/
inductive SErr where
  | eager (kind : String)
  | refused
  deriving Repr, DecidableEq

structure Env (α : Type) where
  heap : Heap α
  data : It α
  n : Cnt
  func : α → α
  pred : α → Bool
  others : Option (It α)
  vars : List (String × It α)

def lookupVar (name : String) : List (String × It α) → Option (It α)
  | [] => none
  | (k, v) :: r => if k = name then some v else lookupVar name r

def evalIE : IE → Env α → Except SErr (It α)
  | .data, env => .ok env.data
  | .var x, env =>
    match lookupVar x env.vars with
    | some v => .ok v
    | none => .error (.eager "NameError")
  | .islice e k, env =>
    match evalIE e env with
    | .error x => .error x
    | .ok it =>
      match evalCE k env.n with
      | .error x => .error (.eager x)
      | .ok (.int j) => .ok (.limiter j.toNat it)
      | .ok _ => .error (.eager "ValueError")
  | .chain a b, env =>
    match evalIE a env with
    | .error x => .error x
    | .ok x =>
      match evalIE b env with
      | .error y => .error y
      | .ok y => .ok (.chain x y)
  | .xmap e, env =>
    match evalIE e env with
    | .error x => .error x
    | .ok it => .ok (.map env.func it)
  | .xfilter e, env =>
    match evalIE e env with
    | .error x => .error x
    | .ok it => .ok (.filter env.pred it)
  | .skipper k e, env =>
    match evalIE e env with
    | .error x => .error x
    | .ok it =>
      match evalCE k env.n with
      | .ok (.int j) => .ok (.skipper j.toNat it)
      | _ => .error .refused
  | .others, env =>
    match env.others with
    | some it => .ok it
    | none => .error (.eager "NameError")

/-- what a body hands back -/
inductive Out (α : Type) where
  | self
  | stream (it : It α)
  | mode (m : TakeMode)           -- `next(self._data)` / `constructor(self._data)` / `constructor(islice(self._data, k))`
  | copyTake (c : Cnt)

def evalRet : Ret → Env α → Except SErr (Out α)
  | .self, _ => .ok .self
  | .stream e, env =>
    match evalIE e env with
    | .error x => .error x
    | .ok it => .ok (.stream it)
  | .next .data, _ => .ok (.mode .one)
  | .ctor .data, _ => .ok (.mode .all)
  | .ctor (.islice .data k), env =>
    match evalCE k env.n with
    | .error x => .error (.eager x)
    | .ok (.int j) => .ok (.mode (.n j.toNat))
    | .ok _ => .error (.eager "ValueError")
  | .next _, _ => .error (.eager "unmodelled")
  | .ctor _, _ => .error (.eager "unmodelled")
  | .copyTake none, _ => .ok (.copyTake .none)
  | .copyTake (some e), env =>
    match evalCE e env.n with
    | .error x => .error (.eager x)
    | .ok c => .ok (.copyTake c)

def liftC {β : Type} : Except String β → Except SErr β
  | .ok b => .ok b
  | .error e => .error (.eager e)

def exec : Body → Env α → Except SErr (Env α × Out α)
  | [], _ => .error (.eager "unmodelled")                 -- falls off the end: returns None
  | .ifRet g r :: rest, env =>
    match evalCond g env.n with
    | .error x => .error (.eager x)
    | .ok true => (evalRet r env).map (fun o => (env, o))
    | .ok false => exec rest env
  | .ifSetN g e :: rest, env =>
    match evalCond g env.n with
    | .error x => .error (.eager x)
    | .ok true =>
      match evalCE e env.n with
      | .error x => .error (.eager x)
      | .ok v => exec rest { env with n := v }
    | .ok false => exec rest env
  | .tee2 a b e :: rest, env =>
    match evalIE e env with
    | .error x => .error x
    | .ok it =>
      let ht := teeOf env.heap it
      exec rest { env with heap := ht.1, vars := (a, ht.2) :: (b, ht.2) :: env.vars }
  | .setData e :: rest, env =>
    match evalIE e env with
    | .error x => .error x
    | .ok it => exec rest { env with data := it }
  | .ret r :: _, env => (evalRet r env).map (fun o => (env, o))
  | .raise k :: _, _ => .error (.eager k)

/-! ### the model functions of the single methods, parametrised by the program -/

/-- `Stream.take` with the mode already decided -/
def takeWith (f : Nat) (h : Heap α) (it : It α) : TakeMode → Option (Heap α × It α × Obs α)
  | .one =>
    match next f h it with
    | none => none
    | some (h', it', none) => some (h', it', .err "StopIteration")
    | some (h', it', some v) => some (h', it', .item v)
  | .all =>
    match drainIt f f h it with
    | none => none
    | some (h', it', vs) => some (h', it', .items vs)
  | .n k =>
    match takeN f k h it with
    | none => none
    | some (h', it', vs) => some (h', it', .items vs)

def envOf (h : Heap α) (it : It α) (c : Cnt) : Env α := ⟨h, it, c, id, fun _ => true, none, []⟩

/-- the mode a `take` body decides for the count `c` -/
def takeModeP (body : Body) (c : Cnt) : Except String TakeMode :=
  match exec body (envOf ([] : Heap Unit) (.src []) c) with
  | .ok (_, .mode m) => .ok m
  | .ok _ => .error "unmodelled"
  | .error (.eager e) => .error e
  | .error .refused => .error "unmodelled"

/-- `Stream.take` as the program says -/
def takeP (body : Body) (f : Nat) (h : Heap α) (it : It α) (c : Cnt) : Option (Heap α × It α × Obs α) :=
  match takeModeP body c with
  | .error e => some (h, it, .err e)
  | .ok m => takeWith f h it m

/-- `Stream.copy` as the program says: new heap, new `self._data`, `_data` of the returned Stream -/
def copyP (body : Body) (h : Heap α) (it : It α) : Except String (Heap α × It α × It α) :=
  match exec body (envOf h it .none) with
  | .ok (env, .stream b) => .ok (env.heap, env.data, b)
  | .ok _ => .error "unmodelled"
  | .error (.eager e) => .error e
  | .error .refused => .error "unmodelled"

/-- the count `peek` hands to `take` -/
def peekArgP (body : Body) (c : Cnt) : Except String Cnt :=
  match exec body (envOf ([] : Heap Unit) (.src []) c) with
  | .ok (_, .copyTake c') => .ok c'
  | .ok _ => .error "unmodelled"
  | .error (.eager e) => .error e
  | .error .refused => .error "unmodelled"

/-- an in-place method (`self._data = …; return self`) as the program says: the new `_data` -/
def wrapP (body : Body) (it : It α) (c : Cnt) (g : α → α) (p : α → Bool) (others : Option (It α)) :
    Except SErr (It α) :=
  match exec body ⟨[], it, c, g, p, others, []⟩ with
  | .ok (env, .self) => .ok env.data
  | .ok _ => .error (.eager "unmodelled")
  | .error e => .error e

/-- the exception a body consists of -/
def raiseP : HubBody → String
  | .plain [.raise k] => k
  | _ => "unmodelled"

/-- does the hub method go through `Stream(self).<meth>(<its own parameters>)`? -/
def viaP (meth : String) (params : List String) : HubBody → Bool
  | .viaStream m ps as => m == meth && ps == params && as == params
  | _ => false

/-- `StreamTeeHub.__iter__`: the error of an empty hub -/
def popErrP : HubBody → String
  | .popOr k => k
  | _ => "unmodelled"

/-- `StreamTeeHub.copy` on the first of the remaining copies -/
def hubCopyP : HubBody → Heap α → It α → Except String (Heap α × It α × It α)
  | .ifIters body, h, u => copyP body h u
  | _, _, _ => .error "unmodelled"

/-! ### the step function of the history model, with the method bodies taken from the programs -/

/-- `skip / limit / append / map / filter` on a Stream or (through `Stream(self)`) on a hub -/
def inPlace (body : Body) (via : Bool) (st : St α) (i : Nat) (c : Cnt) (g : α → α) (p : α → Bool)
    (s : Option (Src α)) : Option (St α × Obs α) :=
  match target st i with
  | .error e => some (st, .err e)
  | .ok (st', k, it) =>
    if !via && (k != i) then some (st, .err "unmodelled") else      -- a hub whose override is something else
    match s with
    | none =>
      match wrapP body it c g p none with
      | .error .refused => some (st, .err "unsupported")
      | .error (.eager e) => some (st', .err e)
      | .ok it' => some (rebind st' i k it')
    | some s =>
      match mkSrc st' s with
      | .error e => some (st', .err e)
      | .ok (st'', it2) =>
        match wrapP body it c g p (some it2) with
        | .error .refused => some (st, .err "unsupported")
        | .error (.eager e) => some (st'', .err e)
        | .ok it' => some (rebind st'' i k it')

/-! ### `Stream.__init__`: the argument list of `Stream(...)` / `append(...)` -/

def evalICond : ICond → List (CArg α) → Bool
  | .lenEq k, args => args.length == k
  | .isIter0, a :: _ => a.iterable
  | .isIter0, [] => false                                   -- IndexError in Python; every use is guarded by `len`
  | .allIter, args => args.all CArg.iterable
  | .noneIter, args => args.all (fun a => !a.iterable)

/-- several iterables: every `iter(arg)` is asked when the call is made; the literal lists are chained, at most one
    existing object may be among them (more: "unsupported" — not in the history model) -/
def chainItersOf (args : List (CArg α)) : Except String (ALV.C03.Src α) :=
  match listsOf args with
  | some xss => .ok (.chain xss)
  | none =>
    match splitObj args with
    | some (pre, j, post) =>
      match listsOf post with
      | some yss => .ok (.mixed pre j yss.flatten)
      | none => .error "unsupported"
    | none => .error "unsupported"

/-- the data slot in the vocabulary `Src` of the history model (its meaning as an iterator term is `mkSrc`:
    `iter(list)` = `.src`, `iter(object)` = its iterator / one use, `it.repeat(v)` = `.cyc [v]`, `it.cycle(vs)` = `.cyc vs`,
    `it.chain(*[iter(a) …])` = `chainSrc` / the `.mixed` chain); `iter` of a non-iterable is a TypeError -/
def evalIData : IData → List (CArg α) → Except String (ALV.C03.Src α)
  | .iter0, [.lst xs] => .ok (.list xs)
  | .iter0, [.obj j] => .ok (.obj j)
  | .iter0, [.endless per] => .ok (.cyc per)
  | .iter0, [.scalar _] => .error "TypeError"
  | .iter0, _ => .error "unmodelled"
  | .repeat0, [.scalar v] => .ok (.const v)
  | .repeat0, _ => .error "unmodelled"                      -- an endless repeat of an iterable object: not in the model
  | .chainIters, args => if args.all CArg.iterable then chainItersOf args else .error "TypeError"
  | .cycleArgs, args =>
    if args.all (fun a => !a.iterable) then .ok (.cyc (scalarsOf args)) else .error "unmodelled"

/-- `Stream.__init__(*dargs)` as its program says -/
def initP : ITree → List (CArg α) → Except String (ALV.C03.Src α)
  | .raise k, _ => .error k
  | .setData d, args => evalIData d args
  | .ite c a b, args => if evalICond c args then initP a args else initP b args

/-! ### `thub` and `StreamTeeHub.__init__` -/

/-- the object under construction by `StreamTeeHub.__init__` -/
structure HEnv (α : Type) where
  st : St α
  data : Option (It α)                  -- `self._data` once `Stream.__init__` has run
  vars : List (String × It α)
  iters : Option (List (It α))          -- `self._iters`

/-- `super().__init__(data)` is `mkSrc` (the iterator `Stream(data)._data`; an existing object gives its iterator /
    one of its uses), `super().__iter__()` is `self._data`, `list(it.tee(v, n))` is `n` times the output of `teeOf` -/
def execHI : List HIStmt → HEnv α → Src α → Nat → Except String (HEnv α)
  | [], e, _, _ => .ok e
  | .superInit args :: r, e, s, n =>
    if args == ["data"] then
      match mkSrc e.st s with
      | .error x => .error x
      | .ok (st', it) => execHI r { e with st := st', data := some it } s n
    else .error "unmodelled"
  | .bindSuperIter v :: r, e, s, n =>
    match e.data with
    | none => .error "AttributeError"
    | some it => execHI r { e with vars := (v, it) :: e.vars } s n
  | .setIters v k :: r, e, s, n =>
    if k == "n" then
      match lookupVar v e.vars with
      | none => .error "NameError"
      | some it =>
        let ht := teeOf e.st.heap it
        execHI r { e with st := ⟨ht.1, e.st.pool⟩, iters := some (List.replicate n ht.2) } s n
    else .error "unmodelled"

/-- `StreamTeeHub(data, n)` as the program of `__init__` says: the new hub is appended to the pool -/
def hubInitP (body : List HIStmt) (st : St α) (s : Src α) (n : Nat) : Option (St α × Obs α) :=
  match execHI body ⟨st, none, [], none⟩ s n with
  | .error x => some (st, .err x)
  | .ok e =>
    match e.iters with
    | none => some (st, .err "unmodelled")
    | some us => some (⟨e.st.heap, e.st.pool ++ [.hub us]⟩, .new e.st.pool.length)

/-- `thub(data, n)` as its program says; `isinstance(data, Iterable)` is false exactly for `Src.const` -/
def thubP (P : Progs) (st : St α) (s : Src α) (n : Nat) : Option (St α × Obs α) :=
  if P.thub.test == ("data", "Iterable") then
    match (match s with | .const _ => P.thub.elseR | _ => P.thub.thenR) with
    | .data =>
      match s with
      | .const v => some (st, .const v)
      | _ => some (st, .err "unmodelled")                    -- an iterable handed back as it is: not in the model
    | .mkHub args => if args == ["data", "n"] then hubInitP P.hubInit st s n else some (st, .err "unmodelled")
  else some (st, .err "unmodelled")

/-- `lazy_itertools.tee(x_i, n)` on an object of the pool as its program says.  Every object of the pool is a Stream
    or a StreamTeeHub (a subclass), so `isinstance(data, K)` holds exactly when `Stream` is among `K`;
    `it.tee(data, n)` asks `iter(data)` (`mkSrc` on the object: a Stream is moved, a hub gives a use) and its `n`
    outputs are `teeOf`; `Stream(cp)` of each is a new Stream of the pool. -/
def teeP (P : Progs) (st : St α) (i n : Nat) : Option (St α × Obs α) :=
  if P.tee.test.1 == "data" then
    match (if P.tee.test.2.contains "Stream" then P.tee.thenR else P.tee.elseR) with
    | .streamsOfTee src k =>
      if src == "data" && k == "n" then
        match mkSrc st (.obj i) with
        | .error e => some (st, .err e)
        | .ok (st', it) =>
          let ht := teeOf st'.heap it
          some (⟨ht.1, st'.pool ++ List.replicate n (.stream ht.2)⟩, .news ((List.range n).map (· + st'.pool.length)))
      else some (st, .err "unmodelled")
    | .repeatOf _ _ => some (st, .err "unmodelled")           -- n times the same object: not an operation of the model
  else some (st, .err "unmodelled")

/-- `lazy_itertools.tee(v, n)` on a non-iterable `v` as the program says: `v` is an instance of none of `Stream`,
    `Iterator`, `Iterable` (any other class in the test: "unmodelled"), so the else arm runs:
    `tuple(data for unused in xrange(n))` is `n` times `v` -/
def teeScalarP (b : TeeBody) (v : α) (k : Nat) : Obs α :=
  if b.test.1 == "data" && b.test.2.all (fun c => c == "Stream" || c == "Iterator" || c == "Iterable") then
    match b.elseR with
    | .repeatOf x n => if x == "data" && n == "n" then .items (List.replicate k v) else .err "unmodelled"
    | .streamsOfTee _ _ => .err "TypeError"                  -- `it.tee` asks `iter(v)`
  else .err "unmodelled"

def stepP (P : Progs) (f : Nat) (st : St α) : Op α → Option (St α × Obs α)
  | .take i c =>
    match st.pool[i]? with
    | some (.stream it) =>
      match takeP P.take f st.heap it c with
      | none => none
      | some (h', it', o) => some (⟨h', st.pool.set i (.stream it')⟩, o)
    | some (.hub _) => some (st, .err (raiseP P.hubTake))
    | _ => some (st, .err "noobj")
  | .peek i c =>
    match peekArgP P.peek c with
    | .error e => some (st, .err e)
    | .ok c' =>
      match st.pool[i]? with
      | some (.stream it) =>
        match copyP P.copy st.heap it with
        | .error e => some (st, .err e)
        | .ok (h1, d, b) =>
          match takeP P.take f h1 b c' with
          | none => none
          | some (h', _, o) => some (⟨h', st.pool.set i (.stream d)⟩, o)
      | some (.hub (u :: us)) =>
        match hubCopyP P.hubCopy st.heap u with
        | .error e => some (st, .err e)
        | .ok (h1, d, b) =>
          match takeP P.take f h1 b c' with
          | none => none
          | some (h', _, o) => some (⟨h', st.pool.set i (.hub (d :: us))⟩, o)
      | some (.hub []) => some (st, .err (popErrP P.hubIter))
      | _ => some (st, .err "noobj")
  | .skip i c => inPlace P.skip (viaP "skip" ["n"] P.hubSkip) st i c id (fun _ => true) none
  | .limit i c => inPlace P.limit (viaP "limit" ["n"] P.hubLimit) st i c id (fun _ => true) none
  | .append i s => inPlace P.append (viaP "append" ["*other"] P.hubAppend) st i .none id (fun _ => true) (some s)
  | .map i g => inPlace P.map (viaP "map" ["func"] P.hubMap) st i .none g (fun _ => true) none
  | .filter i p => inPlace P.filter (viaP "filter" ["func"] P.hubFilter) st i .none id p none
  | .copy i =>
    match st.pool[i]? with
    | some (.stream it) =>
      match copyP P.copy st.heap it with
      | .error e => some (st, .err e)
      | .ok (h1, d, b) => some (⟨h1, st.pool.set i (.stream d) ++ [.stream b]⟩, .new st.pool.length)
    | some (.hub (u :: us)) =>
      match hubCopyP P.hubCopy st.heap u with
      | .error e => some (st, .err e)
      | .ok (h1, d, b) => some (⟨h1, st.pool.set i (.hub (d :: us)) ++ [.stream b]⟩, .new st.pool.length)
    | some (.hub []) => some (st, .err (popErrP P.hubIter))
    | _ => some (st, .err "noobj")
  | .thub s n => thubP P st s n
  | .tee i n => teeP P st i n
  -- the constructor, `next(iter(x))`, `list(x)`: not under the translator
  | op => step f st op

/-- a whole history run by the programs (the `run` of the history model with `stepP P` for `step`) -/
def runP (P : Progs) (f : Nat) : St α → List (Op α) → List (Option (Obs α))
  | _, [] => []
  | st, op :: ops =>
    match stepP P f st op with
    | none => [none]
    | some (st', o) => some o :: runP P f st' ops

/-! ### signatures -/

/-- the documented signatures of the translated methods (parameter names in order, source text of the
    defaults): what the call layer (`elabTake .omitted = .ok .none`, `elabSkip .omitted` / `elabLimit .omitted` =
    TypeError, keyword `n`) is written against -/
def sigModel : List (String × List (String × Option String)) := [
  ("Stream.take", [("self", none), ("n", some "None"), ("constructor", some "list")]),
  ("Stream.copy", [("self", none)]),
  ("Stream.peek", [("self", none), ("n", some "None"), ("constructor", some "list")]),
  ("Stream.skip", [("self", none), ("n", none)]),
  ("Stream.limit", [("self", none), ("n", none)]),
  ("Stream.append", [("self", none), ("*other", none)]),
  ("Stream.map", [("self", none), ("func", none)]),
  ("Stream.filter", [("self", none), ("func", none)]),
  ("StreamTeeHub.take", [("self", none), ("*args", none), ("**kwargs", none)]),
  ("StreamTeeHub.copy", [("self", none)]),
  ("StreamTeeHub.__iter__", [("self", none)]),
  ("StreamTeeHub.limit", [("self", none), ("n", none)]),
  ("StreamTeeHub.skip", [("self", none), ("n", none)]),
  ("StreamTeeHub.append", [("self", none), ("*other", none)]),
  ("StreamTeeHub.map", [("self", none), ("func", none)]),
  ("StreamTeeHub.filter", [("self", none), ("func", none)]),
  ("StreamTeeHub.__init__", [("self", none), ("data", none), ("n", none)]),
  ("thub", [("data", none), ("n", none)]),
  ("Stream.__init__", [("self", none), ("*dargs", none)]),
  ("lazy_itertools.tee", [("data", none), ("n", some "2")])]

/-- the default of parameter `p` of `q`: `none` = no such parameter, `some none` = required -/
def sigDefault (sigs : List (String × List (String × Option String))) (q p : String) : Option (Option String) :=
  match sigs.find? (fun r => r.1 == q) with
  | Option.none => Option.none
  | some r => (r.2.find? (fun x => x.1 == p)).map (·.2)

/-- how the call layer spells an argument with that default -/
def argOfDefault : Option (Option String) → Option Arg
  | some (some "None") => some (.given .none)
  | some Option.none => some .omitted          -- required: omitting it stays an omission (TypeError)
  | _ => Option.none

end Src
end ALV.C03
