/-
  C12 — vocabulary of the SOURCE TRANSLATOR (`harness/props/c12_tr.py` → `ALV/Gen/C12Src.lean`).

  The translator reads the bodies of `LinearFilter.freq_response`, `CascadeFilter.freq_response`,
  `ParallelFilter.freq_response` (lazy_filters.py) and `dft` (lazy_analysis.py) with `ast` and writes
  one Lean definition per function, statement by statement, in the vocabulary of `Model/C12.lean` /
  `Model/C12Call.lean` plus the few generic building blocks below (the python constructs that the
  hand-written model has fused into its own definitions).  `Props/C12.lean` proves
  `src_<f>_is_model : ALV.Gen.C12.<f> = <hand-written model function>`.

  python construct                                        Lean term
  -----------------------------------------------------   -----------------------------------------
  `complex_exp(c * f)`, `cexp(c * n * f)`, c = ±k·1j      `X.cis c' n f`   (`c'` the integer ±k, `n` := 1 when absent)
  `self.numpoly(e)` / `self.denpoly(e)`                   `evalPoly self.num e` / `evalPoly self.den e`  (Poly.__call__: hand model)
  `if not isinstance(v, Stream): S`                       `S`              (number regime: the value is not a Stream)
  `if v == 0: return nan`                                 `if v = 0 then none else …`
  `return e` (a number) / `return nan`                    `some e` / `none`
  `reduce(operator.mul | operator.add, G)`                `reduceResp (· * ·) | (· + ·) G`   (hand model of reduce on responses)
  `(E for v in xs)` / `[E for v in xs]`                   `xs.map fun v => E`
  `filt.freq_response(freq)`                              `member filt freq`  (the member's own — decorated — method)
  `self.callables`                                        the list of members
  `sum(E for n, xn in enumerate(blk))`                    `sumEnum (fun n xn => E) blk`
  `len(blk)`                                              `blk.length`
  `[v / d for v in data]`, `d` an int                     `divAll data d`  (ZeroDivisionError at the first element iff d = 0)
  `list(data)`                                            `some data`
  `@elementwise(name, pos)` on `def f(p0, p1, …)`         `wrapper name pos (rawFreqByP [p0, p1, …] i …)`, `i` the index of the
                                                            parameter the body uses as the frequency
-/
import ALV.Model.C12Call
namespace ALV.C12

/-- `cexp(s·1j · n · f)`: how the source spells a point of the unit circle.  `s` is the integer factor
    of the imaginary unit in the literal (`-1j` ↦ -1, `1j` ↦ 1), `n` an index (1 when the product has
    none), `f` the frequency. -/
structure CExp (φ α : Type) where
  cis : Int → Nat → φ → α

/-- the point `exp(-1j*freq)` of `freq_response` -/
def CExp.pt {φ α : Type} (X : CExp φ α) (f : φ) : α := X.cis (-1) 1 f
/-- the kernel `cexp(-1j*n*f)` of `dft` -/
def CExp.kern {φ α : Type} (X : CExp φ α) (f : φ) (n : Nat) : α := X.cis (-1) n f

section generic
variable {α : Type} [Add α] [Mul α] [Sub α] [Neg α] [Div α] [OfNat α 0] [OfNat α 1]

/-- `sum(term(n, xn) for n, xn in enumerate(blk))`: python's left fold starting from the int 0 -/
def sumEnumFrom (term : Nat → α → α) (n : Nat) (acc : α) : List α → α
  | [] => acc
  | x :: xs => sumEnumFrom term (n + 1) (acc + term n x) xs

def sumEnum (term : Nat → α → α) (blk : List α) : α := sumEnumFrom term 0 0 blk

/-- `[v / d for v in data]` for an int `d`: ZeroDivisionError (`none`) at the first element iff `d = 0` -/
def divAll (data : List α) (d : Nat) : Option (List α) :=
  if d = 0 ∧ data ≠ [] then none else some (data.map fun v => v / natC d)

/-- the raw method `def f(p0, p1, …)` whose body uses parameter number `i` as the frequency: python
    binds the arguments (TypeError when that fails), then the body runs on the object bound there -/
def rawFreqByP {φ : Type} (ps : List String) (i : Nat) (R : φ → Resp α) (leaf : Bool)
    (args : List (Arg φ)) (kwargs : KwArgs φ) : Option (Resp α) :=
  match bindParams ps args kwargs with
  | some vs => match vs[i]? with
    | some fv => respElem R leaf fv.self
    | none => some .typeError
  | none => some .typeError

end generic

/-! ### the signature of `dft` as data -/

/-- the documented signature `dft(blk, freqs, normalize=True)`: names and default truth values -/
def dftSignature : List (String × Option Bool) := [("blk", none), ("freqs", none), ("normalize", some true)]

/-- the default of parameter `p` (`none`: no such parameter, or no default) -/
def sigDefault (sig : List (String × Option Bool)) (p : String) : Option Bool :=
  (sig.find? fun e => e.1 = p).bind (·.2)

/-- `bindDft` for a function whose parameters are named `ps` (the first two required, the third optional) -/
def bindDftP {V : Type} (ps : List String) (args : List V) (kwargs : List (String × V)) : Option (V × V × Option V) :=
  if ps.length < args.length then none
  else if kwargs.any (fun kv => !(ps.drop args.length).contains kv.1) then none
  else
    let get (i : Nat) : Option V :=
      match args[i]? with
      | some v => some v
      | none => (ps[i]?).bind fun p => (kwargs.find? (fun kv => kv.1 = p)).map (·.2)
    match get 0, get 1 with
    | some b, some f => some (b, f, get 2)
    | _, _ => none

end ALV.C12
