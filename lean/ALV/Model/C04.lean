/-
  C04 — model of `audiolazy.lazy_filters.LinearFilter.__init__` / `__call__` for constant
  coefficients (code shaped).  Mathlib-free; executable; generic in the number type.

  Layers (each one is imported by later slices: C05 filter algebra, C06 time-varying filters,
  C13 designs, C20 moving averages):

  1. `dot`, `FState`, `fstep`, `frun` — the generated loop seen as a bounded shifting state
     machine (`m1..m_lm` previous outputs, `d1..d_{lb-1}` previous inputs).
  2. `Terms`, `mkPoly`, `normalise`, `checkCausal`, `dense`, `memoryOf` — what happens to the
     coefficients and to the memory before the loop source is built.
  3. `IR`, `compile`, `evalIR` — the *generated source*: `compile b a zero` mirrors the string
     building of `__call__` with its special cases (coefficient 1 / -1 / 0, gain 1 / -1 / other,
     empty sum => `yield zero`); `evalIR` executes it statement by statement (sequential
     assignments, Python's left-associated `+`).
  4. `call`, `filterCall` — the whole pipeline with the exceptions it raises.

  Python source modelled (lazy_filters.py):
      power = min(key for key, value in self.denpoly.terms())          # __init__
      if power != 0: numpoly *= x ** -power ; denpoly *= x ** -power
      ...
      if any(key < 0 ...): raise ValueError("Non-causal filter")      # __call__
      if self.denpoly[0] == 0: raise ZeroDivisionError
      la, lb = len(self.denominator), len(self.numerator); lm = la - 1
      memory: None -> [zero]*lm ; callable -> memory(lm) ; iterable -> first lm items,
              LEFT-padded with zero when short
      data_sum: "d{k}" | "-d{k}" | "{c} * d{k}"   for numdict   (coeff == 1 | == -1 | != 0)
                "m{k}" | "-m{k}" | "-{c} * m{k}"  for dendict   (coeff == -1 | == 1 | != 0), k >= 1
      empty  -> for unused in seq: yield {zero}
      else   -> expr = " + ".join(data_sum); gain == -1 -> "-(expr)"; gain != 1 -> "(expr) / {gain}"
                m1 , ... , = memory ; d1 = ... = zero
                for d0 in seq: m0 = expr; yield m0; m{lm} = m{lm-1} ... m1 = m0 ; d{lb-1} = d{lb-2} ... d1 = d0
-/
namespace ALV.C04
variable {α : Type}

/-! ## 1. The shifting state machine -/
section machine
variable [Add α] [Mul α] [Sub α] [Div α] [OfNat α 0]

/-- `c0*v0 + (c1*v1 + (… + 0))`, truncated to the shorter list -/
def dot : List α → List α → α
  | c :: cs, v :: vs => c * v + dot cs vs
  | _, _ => 0

/-- first `n` items, padded at the end with `z` -/
def takeP (z : α) : Nat → List α → List α
  | 0, _ => []
  | n+1, [] => z :: takeP z n []
  | n+1, x :: xs => x :: takeP z n xs

structure FState (α : Type) where
  m : List α      -- m1 … m_lm       (previous outputs, most recent first)
  d : List α      -- d1 … d_{lb-1}   (previous inputs, most recent first)

/-- one sample: `m0 = (Σ b_k d_k − Σ_{k≥1} a_k m_k) / a0`, then both states shift by one -/
def fstep (b as : List α) (a0 : α) (s : FState α) (x : α) : α × FState α :=
  let y := (dot b (x :: s.d) - dot as s.m) / a0
  (y, ⟨(y :: s.m).take s.m.length, (x :: s.d).take s.d.length⟩)

def frun (b as : List α) (a0 : α) : FState α → List α → List α
  | _, [] => []
  | s, x :: xs => (fstep b as a0 s x).1 :: frun b as a0 (fstep b as a0 s x).2 xs

end machine

/-! ## 2. Coefficients and memory before the loop is built -/

/-- Python exceptions the model predicts -/
inductive Err where
  | valueError      -- "Non-causal filter" / min() of an empty denominator
  | zeroDivision    -- "Invalid filter gain"
  deriving DecidableEq, Repr

def Err.name : Err → String
  | .valueError => "ValueError"
  | .zeroDivision => "ZeroDivisionError"

/-- `Poly._data` as seen through `terms()`: (power, coefficient), sorted by power, no stored zero -/
abbrev Terms (α : Type) := List (Int × α)

/-- dict assignment `data[k] = v` on a key-sorted association list -/
def tinsert (k : Int) (v : α) : Terms α → Terms α
  | [] => [(k, v)]
  | (k', v') :: r =>
    if k < k' then (k, v) :: (k', v') :: r
    else if k = k' then (k, v) :: r
    else (k', v') :: tinsert k v r

/-- `Poly(list)`: `OrderedDict(enumerate(data))` -/
def enumFrom (k : Int) : List α → List (Int × α)
  | [] => []
  | c :: cs => (k, c) :: enumFrom (k + 1) cs

section poly
variable [OfNat α 0] [DecidableEq α]

/-- `Poly(dict)` followed by "compact zeros" (the default Poly zero `0.` equals every numeric zero) -/
def mkPoly (pairs : List (Int × α)) : Terms α :=
  (pairs.foldl (fun acc kv => tinsert kv.1 kv.2 acc) []).filter (fun kv => !(kv.2 == 0))

def polyOfList (l : List α) : Terms α := mkPoly (enumFrom 0 l)

/-- `min(key for key, value in terms())`; `none` = empty sequence (Python: ValueError) -/
def minKey : Terms α → Option Int
  | [] => none
  | (k, _) :: r => match minKey r with
    | none => some k
    | some k' => some (if k' < k then k' else k)

/-- multiplication by the monomial `Poly([0, 1]) ** -power` -/
def shiftKeys (p : Int) (t : Terms α) : Terms α := t.map (fun kv => (kv.1 - p, kv.2))

/-- `LinearFilter.__init__` on two `Poly`s: the denominator is made to start at delay 0 -/
def normalise (num den : Terms α) : Except Err (Terms α × Terms α) :=
  match minKey den with
  | none => .error .valueError
  | some p => if p ≠ 0 then .ok (shiftKeys p num, shiftKeys p den) else .ok (num, den)

/-- `any(key < 0 for key, value in chain(numpoly.terms(), denpoly.terms()))` negated -/
def checkCausal (num den : Terms α) : Bool := !((num ++ den).any (fun kv => decide (kv.1 < 0)))

/-- `Poly.__getitem__` -/
def coefAt (t : Terms α) (k : Int) : α :=
  match t.find? (fun kv => kv.1 == k) with
  | some kv => kv.2
  | none => 0

/-- `Poly.order` of a causal polynomial (0 when empty) -/
def order : Terms α → Nat
  | [] => 0
  | (k, _) :: r => max k.toNat (order r)

/-- `list(poly.values())`: powers 0 … order, nothing at all for the empty polynomial -/
def dense (t : Terms α) : List α :=
  if t.isEmpty then [] else (List.range (order t + 1)).map (fun (k : Nat) => coefAt t (Int.ofNat k))

end poly

/-- the `memory` argument of `__call__` -/
inductive Mem (α : Type) where
  | none                               -- memory=None
  | iter (l : List α)                  -- finite iterable (list, finite generator)
  | gen (g : Nat → α)                  -- endless iterable (generator, Stream)
  | callable (f : Nat → List α)        -- function of the needed size

/-- first `lm` items of an iterable, LEFT padded with `zero` when short
    (`zero_pad(memory, lm - actual_len, zero=zero)`: the second positional argument is `left`) -/
def memFromIter (zero : α) (lm : Nat) (l : List α) : List α :=
  let m := l.take lm
  List.replicate (lm - m.length) zero ++ m

def memoryOf (zero : α) (lm : Nat) : Mem α → List α
  | .none => List.replicate lm zero
  | .iter l => memFromIter zero lm l
  | .gen g => memFromIter zero lm ((List.range lm).map g)
  | .callable f => memFromIter zero lm (f lm)

/-! ## 3. The generated loop: IR, compile, evalIR -/

/-- variables of the generated source: `d{i}` / `m{i}` -/
inductive Var where
  | d (i : Nat)
  | m (i : Nat)
  deriving DecidableEq, Repr

/-- one summand of `data_sum` -/
inductive Atom (α : Type) where
  | var (v : Var)                -- "d3" / "m2"
  | neg (v : Var)                -- "-d3" / "-m2"
  | mul (c : α) (v : Var)        -- "{c} * d3"
  | negMul (c : α) (v : Var)     -- "-{c} * m2"   (Python parses it as (-c) * m2)

inductive Gain (α : Type) where
  | one                          -- expr
  | negOne                       -- "-(expr)"
  | div (g : α)                  -- "(expr) / {g}"

/-- the generated generator function, statement by statement -/
inductive IR (α : Type) where
  /-- `for unused in seq: yield {zero}` -/
  | constLoop (z : α)
  /-- `m1 , … m{nm} , = memory; d1 = … = d{nd} = zero; for d0 in seq: m0 = gain(sum); yield m0; shifts` -/
  | loop (nm nd : Nat) (sum : List (Atom α)) (gain : Gain α) (shifts : List (Var × Var))

/-- `m{idx} = m{idx-1} for idx in xrange(lm, 0, -1)` -/
def mShifts (lm : Nat) : List (Var × Var) :=
  (List.range lm).reverse.map (fun i => (Var.m (i + 1), Var.m i))

/-- `d{idx} = d{idx-1} for idx in xrange(lb - 1, 0, -1)` -/
def dShifts (nd : Nat) : List (Var × Var) :=
  (List.range nd).reverse.map (fun i => (Var.d (i + 1), Var.d i))

section compile
variable [Neg α] [OfNat α 0] [OfNat α 1] [DecidableEq α]

/-- numerator part of `data_sum`; `k` = delay of the head coefficient -/
def numAtoms : Nat → List α → List (Atom α)
  | _, [] => []
  | k, c :: cs =>
    (if c = 1 then [Atom.var (.d k)]
     else if c = -1 then [Atom.neg (.d k)]
     else if c ≠ 0 then [Atom.mul c (.d k)]
     else []) ++ numAtoms (k + 1) cs

/-- denominator part of `data_sum` (delays ≥ 1; delay 0 is the gain) -/
def denAtoms : Nat → List α → List (Atom α)
  | _, [] => []
  | k, c :: cs =>
    (if c = -1 then [Atom.var (.m k)]
     else if c = 1 then [Atom.neg (.m k)]
     else if c ≠ 0 then [Atom.negMul c (.m k)]
     else []) ++ denAtoms (k + 1) cs

/-- the source built by `__call__` for dense coefficient lists `b` (numerator) and `a`
    (denominator, `a = a0 :: as`) -/
def compile (b a : List α) (zero : α) : IR α :=
  let sum := numAtoms 0 b ++ denAtoms 1 a.tail
  if sum.isEmpty then .constLoop zero
  else
    let gain := a.headD 0
    let g := if gain = -1 then Gain.negOne else if gain ≠ 1 then Gain.div gain else Gain.one
    .loop (a.length - 1) (b.length - 1) sum g (mShifts (a.length - 1) ++ dShifts (b.length - 1))

end compile

section eval
variable [Add α] [Mul α] [Neg α] [Div α] [OfNat α 0]

/-- local variables of the running generator: `m = [m0, m1, …]`, `d = [d0, d1, …]` -/
structure Env (α : Type) where
  m : List α
  d : List α

def Env.get (e : Env α) : Var → α
  | .d i => e.d.getD i 0
  | .m i => e.m.getD i 0

def Env.set (e : Env α) : Var → α → Env α
  | .d i, x => { e with d := e.d.set i x }
  | .m i, x => { e with m := e.m.set i x }

def evalAtom (e : Env α) : Atom α → α
  | .var v => e.get v
  | .neg v => - e.get v
  | .mul c v => c * e.get v
  | .negMul c v => (-c) * e.get v

/-- Python's `t0 + t1 + t2` = `(t0 + t1) + t2` -/
def evalSum (e : Env α) : List (Atom α) → α
  | [] => 0
  | t :: ts => ts.foldl (fun acc t => acc + evalAtom e t) (evalAtom e t)

def applyGain : Gain α → α → α
  | .one, s => s
  | .negOne, s => - s
  | .div g, s => s / g

/-- the assignments after `yield m0`, executed one after the other -/
def runShifts (e : Env α) (shifts : List (Var × Var)) : Env α :=
  shifts.foldl (fun e ts => e.set ts.1 (e.get ts.2)) e

/-- the `for d0 in seq:` loop -/
def runLoop (sum : List (Atom α)) (gain : Gain α) (shifts : List (Var × Var)) :
    Env α → List α → List α
  | _, [] => []
  | e, x :: xs =>
    let e1 := e.set (.d 0) x
    let y := applyGain gain (evalSum e1 sum)
    let e2 := e1.set (.m 0) y
    y :: runLoop sum gain shifts (runShifts e2 shifts) xs

/-- run the generated generator on `(seq, memory, zero)`; `memory` has exactly `nm` items
    (tuple unpacking), slot 0 of both variable lists is written before it is read -/
def evalIR (ir : IR α) (memory : List α) (zero : α) (xs : List α) : List α :=
  match ir with
  | .constLoop z => xs.map (fun _ => z)
  | .loop _ nd sum gain shifts =>
    runLoop sum gain shifts ⟨0 :: memory, 0 :: List.replicate nd zero⟩ xs

end eval

/-! ## 4. The whole call -/
section call
variable [Add α] [Mul α] [Sub α] [Neg α] [Div α] [OfNat α 0] [OfNat α 1] [DecidableEq α]

/-- `LinearFilter.__call__` for constant coefficients -/
def call (num den : Terms α) (mem : Mem α) (zero : α) (xs : List α) : Except Err (List α) :=
  if !checkCausal num den then .error .valueError
  else if coefAt den 0 = 0 then .error .zeroDivision
  else
    let a := dense den
    let b := dense num
    .ok (evalIR (compile b a zero) (memoryOf zero (a.length - 1) mem) zero xs)

/-- `ZFilter(numerator, denominator)(seq, memory, zero)` from raw (power, coefficient) pairs -/
def filterCall (numPairs denPairs : List (Int × α)) (mem : Mem α) (zero : α) (xs : List α) :
    Except Err (List α) := do
  let (num, den) ← normalise (mkPoly numPairs) (mkPoly denPairs)
  call num den mem zero xs

end call

end ALV.C04
