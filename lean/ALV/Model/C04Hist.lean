/-
  C04 — histories.  `filt(seq, memory, zero)` returns a LAZY stream: the generated generator is
  created at the call (from the coefficients the filter object has and from a PRIVATE copy of the
  memory made at the call) and then runs one step per requested output, reading its input one item
  at a time.  Between the call and the consumption the caller can do anything to the objects it
  handed over (overwrite its memory list, the lists / dictionaries the filter was built from, its
  input list), call the same filter again, consume several outputs interleaved.

  This file models that (Mathlib-free, executable):

  * `Gen`, `Gen.start`, `Gen.feed`, `envAfter` — the suspended generator: the generated loop
    (`IR`) together with its local variables; `feed` runs it on the items it is given next and
    returns what it yields and the generator as it is suspended afterwards.
  * `callGen` — `LinearFilter.__call__` up to (not including) the consumption: checks, memory
    normalisation, source generation; returns the suspended generator.
  * `HState`, `HOp`, `hstep`, `hrun` — a heap of caller objects (python lists of numbers,
    coefficient containers), filter objects and live streams, and the operations of a history:
      setNums c v      the caller's list `c` now has the contents `v` (any in-place mutation)
      setCoefs c v     the caller's coefficient container `c` now holds the pairs `v`
      build f n d      f = ZFilter(<container n>, <container d>)
      call s f x m z   s = f(<list x>, memory=<list m> | None, zero=z)      (nothing consumed)
      take s k         request k more outputs of s
    The skeleton is generic in how a filter object and a suspended stream are represented
    (`Impl`), so that the model (`modelImpl`: normalised polynomials, `Gen`) and the specification
    (`Spec/C04Hist.lean`: the constructor arguments as they were, the inputs delivered so far)
    run through literally the same bookkeeping of cells, cursors and end-of-input.

  Python facts modelled (not verified): `Poly(list|dict)` copies its argument; `iter(list)` reads
  item `pos` of the list as it is when the item is requested and is exhausted for good once
  `pos >= len(list)` at a request; a finished generator stays finished.
-/
import ALV.Model.C04
namespace ALV.C04
variable {α : Type}

/-! ## 1. The suspended generator -/
section gen
variable [Add α] [Mul α] [Neg α] [Div α] [OfNat α 0]

/-- the local variables after the loop body ran once for every item of `xs` -/
def envAfter (sum : List (Atom α)) (gain : Gain α) (shifts : List (Var × Var)) :
    Env α → List α → Env α
  | e, [] => e
  | e, x :: xs =>
    let e1 := e.set (.d 0) x
    let y := applyGain gain (evalSum e1 sum)
    let e2 := e1.set (.m 0) y
    envAfter sum gain shifts (runShifts e2 shifts) xs

/-- a generator object created from the generated source, suspended between two outputs -/
inductive Gen (α : Type) where
  /-- `for unused in seq: yield {zero}` -/
  | const (z : α)
  /-- the loop with its local variables `m0.., d0..` -/
  | loop (sum : List (Atom α)) (gain : Gain α) (shifts : List (Var × Var)) (env : Env α)

/-- `gen(iter(seq), memory, zero)`: `memory` is the list made by `__call__` (never the caller's) -/
def Gen.start (ir : IR α) (memory : List α) (zero : α) : Gen α :=
  match ir with
  | .constLoop z => .const z
  | .loop _ nd sum gain shifts => .loop sum gain shifts ⟨0 :: memory, 0 :: List.replicate nd zero⟩

/-- run the suspended generator on the next input items: what it yields, and how it is left -/
def Gen.feed : Gen α → List α → List α × Gen α
  | .const z, xs => (xs.map (fun _ => z), .const z)
  | .loop sum gain shifts e, xs =>
    (runLoop sum gain shifts e xs, .loop sum gain shifts (envAfter sum gain shifts e xs))

end gen

/-! ## 2. The call, without the consumption -/
section callGen
variable [Add α] [Mul α] [Sub α] [Neg α] [Div α] [OfNat α 0] [OfNat α 1] [DecidableEq α]

/-- `LinearFilter.__call__` for constant coefficients: everything that happens AT the call -/
def callGen (num den : Terms α) (mem : Mem α) (zero : α) : Except Err (Gen α) :=
  if !checkCausal num den then .error .valueError
  else if coefAt den 0 = 0 then .error .zeroDivision
  else
    let a := dense den
    let b := dense num
    .ok (Gen.start (compile b a zero) (memoryOf zero (a.length - 1) mem) zero)

end callGen

/-! ## 3. Histories -/

/-- a live stream: the suspended generator and the list iterator it reads from -/
structure Strm (S : Type) where
  gen : S
  src : Nat      -- the caller's input list (a heap cell)
  pos : Nat      -- index of the next item the list iterator will read
  done : Bool    -- the input was found exhausted: the generator has returned

/-- the heap: caller objects, filter objects, live streams (all by name) -/
structure HState (α F S : Type) where
  nums : Nat → List α
  coefs : Nat → List (Int × α)
  filts : Nat → Option F
  strms : Nat → Option (Strm S)

inductive HOp (α : Type) where
  | setNums (c : Nat) (v : List α)
  | setCoefs (c : Nat) (v : List (Int × α))
  | build (f n d : Nat)
  | call (s f x : Nat) (mem : Option Nat) (zero : α)
  | take (s k : Nat)

/-- what one step of a history shows -/
inductive HObs (α : Type) where
  | stored                               -- a caller's mutation: nothing to observe
  | ok                                   -- constructor / call returned
  | err (e : Err)                        -- constructor / call raised
  | unbound                              -- names a filter / stream that does not exist
  | outs (ys : List α) (ended : Bool)    -- outputs obtained; `ended`: StopIteration was met
  deriving DecidableEq

/-- how filter objects and suspended streams are represented, and what the three operations do -/
structure Impl (α F S : Type) where
  build : List (Int × α) → List (Int × α) → Except Err F
  call : F → Mem α → α → Except Err S
  feed : S → List α → List α × S

/-- function update (heap cells are named by naturals) -/
def upd {β : Type} (f : Nat → β) (i : Nat) (v : β) : Nat → β := fun j => if j = i then v else f j

/-- the `memory=` argument of a call: `None` or the CONTENTS the caller's list has now -/
def memArg (nums : Nat → List α) : Option Nat → Mem α
  | none => Mem.none
  | some m => Mem.iter (nums m)

def hstep {F S : Type} (I : Impl α F S) (st : HState α F S) : HOp α → HObs α × HState α F S
  | .setNums c v => (.stored, { st with nums := upd st.nums c v })
  | .setCoefs c v => (.stored, { st with coefs := upd st.coefs c v })
  | .build f n d =>
    match I.build (st.coefs n) (st.coefs d) with
    | .error e => (.err e, { st with filts := upd st.filts f none })
    | .ok o => (.ok, { st with filts := upd st.filts f (some o) })
  | .call s f x mem zero =>
    match st.filts f with
    | none => (.unbound, { st with strms := upd st.strms s none })
    | some o =>
      match I.call o (memArg st.nums mem) zero with
      | .error e => (.err e, { st with strms := upd st.strms s none })
      | .ok g => (.ok, { st with strms := upd st.strms s (some ⟨g, x, 0, false⟩) })
  | .take s k =>
    match st.strms s with
    | none => (.unbound, st)
    | some t =>
      -- a finished generator: StopIteration at once — if anything is requested at all
      if t.done then (.outs [] (decide (0 < k)), st)
      else
        -- the list iterator delivers the items from `pos` on of the list AS IT IS NOW
        let new := ((st.nums t.src).drop t.pos).take k
        let r := I.feed t.gen new
        let ended := decide (new.length < k)
        (.outs r.1 ended,
         { st with strms := upd st.strms s (some ⟨r.2, t.src, t.pos + new.length, ended⟩) })

/-- the observations of a history, one per step -/
def hrun {F S : Type} (I : Impl α F S) : HState α F S → List (HOp α) → List (HObs α)
  | _, [] => []
  | st, op :: ops => (hstep I st op).1 :: hrun I (hstep I st op).2 ops

/-- the heap after a history -/
def hfinal {F S : Type} (I : Impl α F S) : HState α F S → List (HOp α) → HState α F S
  | st, [] => st
  | st, op :: ops => hfinal I (hstep I st op).2 ops

/-- nothing exists yet -/
def HState.empty {F S : Type} : HState α F S :=
  ⟨fun _ => [], fun _ => [], fun _ => none, fun _ => none⟩

section model
variable [Add α] [Mul α] [Sub α] [Neg α] [Div α] [OfNat α 0] [OfNat α 1] [DecidableEq α]

/-- as coded: a filter object holds the two normalised polynomials (`Poly` copies of the
constructor arguments), a stream holds the suspended generator -/
def modelImpl : Impl α (Terms α × Terms α) (Gen α) where
  build n d := normalise (mkPoly n) (mkPoly d)
  call o mem zero := callGen o.1 o.2 mem zero
  feed g xs := g.feed xs

/-- the model of a history that starts with nothing -/
def histModel (ops : List (HOp α)) : List (HObs α) := hrun modelImpl HState.empty ops

end model

/-! ## 4. Re-entrant use: the output of a call is the input of another call of the same filter -/

/-- `f(f(…f(xs, memory=m₁)…, memory=m_{k-1}), memory=m_k)`: one filter object, its generators nested;
generic in the one-call function so that model and specification share the plumbing -/
def cascadeWith (callF : Mem α → List α → Except Err (List α)) : List (Mem α) → List α → Except Err (List α)
  | [], xs => .ok xs
  | m :: ms, xs =>
    match callF m xs with
    | .error e => .error e
    | .ok ys => cascadeWith callF ms ys

/-- a caller's mutation (as opposed to a use of the filter) -/
def HOp.isStore : HOp α → Bool
  | .setNums _ _ => true
  | .setCoefs _ _ => true
  | _ => false

end ALV.C04
