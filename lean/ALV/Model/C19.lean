/-
  C19 — model of the signal generators of `audiolazy.lazy_synth` and of
  `audiolazy.lazy_poly.resample` (code shaped).  Mathlib-free; executable.

  Numbers are elements of a type `α` with the field operations, integer casts,
  a decidable order and a floor (`class Floor`).  The driver instantiates `Rat`
  (exact); the theorems instantiate any linearly ordered field with a floor
  (`ℚ`, `ℝ`).  Endless generators take a fuel `n` = number of outputs observed.

  Python facts encoded here (all visible in the source of the repo):
    * `a % m`  (int / Fraction / float in the exact regime) is the floored modulo
      `a - m * floor(a / m)`; `m = 0` raises ZeroDivisionError (see `mcZeroAt`).
    * `int(x)` truncates toward zero;  `xrange(k)` is empty for `k <= 0`.
    * `zip` stops with its shortest argument.
-/
namespace ALV.C19

/-- floor into the integers (`math.floor`, and the `//` hidden in Python's `%`) -/
class Floor (α : Type) where
  floor : α → Int

instance : Floor Rat := ⟨Rat.floor⟩

/-- an argument of `modulo_counter`: a number or an iterable -/
inductive Arg (α : Type) where
  | num (x : α)
  | strm (xs : List α)

section Arith
variable {α : Type} [Add α] [Sub α] [Mul α] [Div α] [Neg α] [OfNat α 0] [OfNat α 1]
  [IntCast α] [Floor α] [DecidableEq α] [LT α] [DecidableLT α]

/-- Python's `a % m` -/
def fmod (a m : α) : α := a - m * ((Floor.floor (a / m) : Int) : α)

/-- `c % m % m` as written at every reduction of `modulo_counter` -/
def mod2 (a m : α) : α := fmod (fmod a m) m

/-- Python's `int(x)`: truncation toward zero -/
def pyInt (x : α) : Int := if x < 0 then - Floor.floor (-x) else Floor.floor x

/-- `math.ceil` -/
def pyCeil (x : α) : Int := - Floor.floor (-x)

/-! ### `modulo_counter` : the eight argument-kind branches (lazy_synth.py:52-139) -/

/-- start, modulo, step iterable (lines 57-62); state `c`, `lastp` -/
def loopPMS : α → α → List α → List α → List α → List α
  | c, lastp, p :: ps, m :: ms, s :: ss =>
    let c1 := mod2 (c + (p - lastp)) m
    c1 :: loopPMS (c1 + s) p ps ms ss
  | _, _, _, _, _ => []

/-- start, step iterable, modulo a number (lines 64-69) -/
def loopPS (m : α) : α → α → List α → List α → List α
  | c, lastp, p :: ps, s :: ss =>
    let c1 := mod2 (c + (p - lastp)) m
    c1 :: loopPS m (c1 + s) p ps ss
  | _, _, _, _ => []

/-- start, modulo iterable, step a number (lines 72-77) -/
def loopPM (s : α) : α → α → List α → List α → List α
  | c, lastp, p :: ps, m :: ms =>
    let c1 := mod2 (c + (p - lastp)) m
    c1 :: loopPM s (c1 + s) p ps ms
  | _, _, _, _ => []

/-- only start iterable, `step == 0` (lines 80-81) -/
def loopP0 (m : α) (ps : List α) : List α := ps.map fun p => mod2 p m

/-- only start iterable, batched fast path (lines 85-93); state `c`, `lastp`, `n` -/
def fastP (m s : α) (steps : Int) : α → α → Int → List α → List α
  | _, _, _, [] => []
  | c, lastp, n, p :: ps =>
    let c1 := c + (p - lastp)
    let y := mod2 (c1 + (n : α) * s) m
    let n1 := n + 1
    if n1 = steps then y :: fastP m s steps (mod2 (c1 + (steps : α) * s) m) p 0 ps
    else y :: fastP m s steps c1 p n1 ps

/-- only start iterable, plain loop (lines 95-100) -/
def loopP (m s : α) : α → α → List α → List α
  | _, _, [] => []
  | c, lastp, p :: ps =>
    let c1 := mod2 (c + (p - lastp)) m
    c1 :: loopP m s (c1 + s) p ps

/-- modulo, step iterable, start a number (lines 105-108) -/
def loopMS : α → List α → List α → List α
  | c, m :: ms, s :: ss =>
    let c1 := mod2 c m
    c1 :: loopMS (c1 + s) ms ss
  | _, _, _ => []

/-- only step iterable (lines 110-113) -/
def loopS (m : α) : α → List α → List α
  | _, [] => []
  | c, s :: ss =>
    let c1 := mod2 c m
    c1 :: loopS m (c1 + s) ss

/-- only modulo iterable (lines 116-119) -/
def loopM (s : α) : α → List α → List α
  | _, [] => []
  | c, m :: ms =>
    let c1 := mod2 c m
    c1 :: loopM s (c1 + s) ms

/-- no iterable, batched fast path (lines 128-134); `fuel` outputs; state `c`, `n` -/
def fastN (m s : α) (steps : Int) : Nat → α → Int → List α
  | 0, _, _ => []
  | fuel + 1, c, n =>
    let y := mod2 (c + (n : α) * s) m
    let n1 := n + 1
    if n1 = steps then y :: fastN m s steps fuel (mod2 (c + (steps : α) * s) m) 0
    else y :: fastN m s steps fuel c n1

/-- no iterable, plain loop (lines 136-139) -/
def loopN (m s : α) : Nat → α → List α
  | 0, _ => []
  | fuel + 1, c =>
    let c1 := mod2 c m
    c1 :: loopN m s fuel (c1 + s)

/-- `modulo_counter(start, modulo, step)`, first `n` outputs.  Dispatch on
    `isinstance(·, Iterable)` exactly as the code does; `c = lastp = 0.` initially in
    the branches where `start` is iterable, `c = start` otherwise. -/
def moduloCounter (start modulo step : Arg α) (n : Nat) : List α :=
  match start with
  | .strm ps =>
    match step with
    | .strm ss =>
      match modulo with
      | .strm ms => (loopPMS 0 0 ps ms ss).take n
      | .num m => (loopPS m 0 0 ps ss).take n
    | .num s =>
      match modulo with
      | .strm ms => (loopPM s 0 0 ps ms).take n
      | .num m =>
        if s = 0 then (loopP0 m ps).take n
        else
          let steps := pyInt (m / s)
          if steps > 1 then (fastP m s steps 0 0 0 ps).take n
          else (loopP m s 0 0 ps).take n
  | .num a =>
    match step with
    | .strm ss =>
      match modulo with
      | .strm ms => (loopMS a ms ss).take n
      | .num m => (loopS m a ss).take n
    | .num s =>
      match modulo with
      | .strm ms => (loopM s a ms).take n
      | .num m =>
        if s = 0 then List.replicate n (mod2 a m)
        else
          let steps := pyInt (m / s)
          if steps > 1 then fastN m s steps n a 0
          else loopN m s n a

/-- which branch of the code a call takes (for the tie's histogram) -/
def mcBranch (start modulo step : Arg α) : String :=
  let fast (m s : α) : String :=
    if s = 0 then "step0" else if pyInt (m / s) > 1 then "fast" else "plain"
  match start, modulo, step with
  | .strm _, .strm _, .strm _ => "PMS"
  | .strm _, .num _, .strm _ => "P-S"
  | .strm _, .strm _, .num _ => "PM-"
  | .strm _, .num m, .num s => "P--:" ++ fast m s
  | .num _, .strm _, .strm _ => "-MS"
  | .num _, .num _, .strm _ => "--S"
  | .num _, .strm _, .num _ => "-M-"
  | .num _, .num m, .num s => "---:" ++ fast m s

/-- the sequence an argument stands for while `n` outputs are observed:
    a number is the constant sequence -/
def Arg.expand (a : Arg α) (n : Nat) : List α :=
  match a with
  | .num x => List.replicate n x
  | .strm xs => xs.take n

/-- Python raises ZeroDivisionError at the first output whose modulo is `0`
    (index into the lock-stepped sequences); `none` = no error among `n` outputs. -/
def mcZeroAt (start modulo step : Arg α) (n : Nat) : Option Nat :=
  let len := min (start.expand n).length (min (modulo.expand n).length (step.expand n).length)
  ((modulo.expand n).take len).findIdx? (· = 0)

/-! ### `line`, fades, `ones`, `zeros`, `impulse`, `adsr`, `attack` (lazy_synth.py:142-392, 597-621)

A duration is `some dur`, or `none` for the endless case (`dur is None`, or `+inf`).
`xrange(k)` of a Python int `k` is `List.range k.toNat`.  A `ZeroDivisionError` is raised by the
slope computations *before the first sample is yielded*, so a failing call yields nothing. -/

/-- the float literal `.5` -/
def half : α := 1 / (1 + 1)

/-- `xrange(int(x))` as a number of iterations -/
def pyLen (x : α) : Nat := (pyInt x).toNat

/-- `line(dur, begin, end, finish)` (lines 219-221) -/
def line (dur begin_ end_ : α) (finish : Bool) : Except String (List α) :=
  let d := dur - (if finish then 1 else 0)
  if d = 0 then .error "ZeroDivisionError"
  else
    let m := (end_ - begin_) / d
    .ok ((List.range (pyLen (dur + half))).map fun (i : Nat) => begin_ + ((i : Int) : α) * m)

/-- `fadein(dur) = line(dur)` -/
def fadein (dur : α) : Except String (List α) := line dur 0 1 false
/-- `fadeout(dur) = line(dur, 1., 0.)` -/
def fadeout (dur : α) : Except String (List α) := line dur 1 0 false

/-- `ones(dur)` / `zeros(dur)` with the repeated value `v`; first `n` samples (lines 320-324) -/
def constGen (v : α) (dur : Option α) (n : Nat) : List α :=
  match dur with
  | none => List.replicate n v
  | some d => (List.replicate (pyLen (half + d)) v).take n

/-- `impulse(dur, one, zero)`; first `n` samples (lines 613-621); the items may be anything -/
def impulse {β : Type} (dur : Option α) (one zero : β) (n : Nat) : List β :=
  match dur with
  | none => (one :: List.replicate (n - 1) zero).take n
  | some d =>
    if d < half then []
    else (one :: List.replicate (pyLen (d - half)) zero).take n

/-- `adsr(dur, a, d, s, r)` (lines 377-391) -/
def adsr (dur a d s r : α) : Except String (List α) :=
  if a = 0 ∨ d = 0 ∨ r = 0 then .error "ZeroDivisionError"
  else
    let m_a := 1 / a
    let m_d := (s - 1) / d
    let m_r := (-s * 1) / r
    let len_a := pyInt (a + half)
    let len_d := pyInt (d + half)
    let len_r := pyInt (r + half)
    let len_s := pyInt (dur + half) - len_a - len_d - len_r
    .ok (((List.range len_a.toNat).map fun (i : Nat) => ((i : Int) : α) * m_a)
      ++ ((List.range len_d.toNat).map fun (i : Nat) => 1 + ((i : Int) : α) * m_d)
      ++ List.replicate len_s.toNat s
      ++ ((List.range len_r.toNat).map fun (i : Nat) => s + ((i : Int) : α) * m_r))

/-- `attack(a, d, s)`; `s` a number or a non-empty iterable; first `n` samples (lines 278-300).
    With an iterable, its first item is taken as the sustain level of the decay line and the
    remaining items are the sustain. -/
def attack (a d : α) (s : Arg α) (n : Nat) : Except String (List α) :=
  let s0? : Option α := match s with
    | .num x => some x
    | .strm xs => xs.head?
  match s0? with
  | none => .error "RuntimeError"      -- `next(it_s)` on an empty iterable inside the generator (PEP 479)
  | some s0 =>
    if a = 0 ∨ d = 0 then .error "ZeroDivisionError"
    else
      let m_a := 1 / a
      let m_d := (s0 - 1) / d
      let head := ((List.range (pyLen (a + half))).map fun (i : Nat) => ((i : Int) : α) * m_a)
        ++ ((List.range (pyLen (d + half))).map fun (i : Nat) => 1 + ((i : Int) : α) * m_d)
      match s with
      | .num x => .ok ((head ++ List.replicate n x).take n)
      | .strm xs => .ok ((head ++ xs.tail).take n)

/-! ### `TableLookup` (lazy_synth.py:521-548), `sinusoid` (586-594), `karplus_strong` (624-657) -/

/-- Python list indexing `tbl[j]`, negative indices counted from the end; `none` = IndexError -/
def pyIndex (tbl : List α) (j : Int) : Option α :=
  let L : Int := tbl.length
  if 0 ≤ j ∧ j < L then tbl[j.toNat]?
  else if -L ≤ j ∧ j < 0 then tbl[(L + j).toNat]?
  else none

/-- one sample of the oscillator at table position `idx` (lines 536-537):
    `tbl[int(idx)] * (1. - (idx - int(idx))) + tbl[int(ceil(idx)) - total_length] * (idx - int(idx))` -/
def lookupAt (tbl : List α) (idx : α) : Option α :=
  let i := pyInt idx
  let fr := idx - (i : α)
  match pyIndex tbl i, pyIndex tbl (pyCeil idx - (tbl.length : Int)) with
  | some x, some y => some (x * (1 - fr) + y * fr)
  | _, _ => none

def Arg.map (f : α → α) : Arg α → Arg α
  | .num x => .num (f x)
  | .strm xs => .strm (xs.map f)

/-- `TableLookup(tbl, cycles)(freq, phase)`, first `n` samples; `den` is the value of
    `cycles * 2 * pi`; `freq`, `phase` numbers or streams -/
def tableCall (tbl : List α) (den : α) (freq phase : Arg α) (n : Nat) : List (Option α) :=
  let total : α := ((tbl.length : Int) : α)
  let cycleLength := total / den
  let step := freq.map (cycleLength * ·)
  let part := phase.map (cycleLength * ·)
  (moduloCounter part (.num total) step n).map (lookupAt tbl)

/-- `TableLookup.__getitem__(idx)` (lines 545-548) -/
def tableGetItem (tbl : List α) (idx : α) : Option α :=
  let L : Int := tbl.length
  let i := pyInt idx
  let fr := idx - (i : α)
  match pyIndex tbl (i.fmod L), pyIndex tbl ((pyCeil idx).fmod L) with
  | some x, some y => some (x * (1 - fr) + y * fr)
  | _, _ => none

/-- `sinusoid(freq, phase)`: `sin` of `modulo_counter(phase, 2*pi, freq)`; the sine and the
    value of `2 * pi` are parameters (Float for the tie, `Real.sin`, `2π` for the theorem) -/
def sinusoid {β : Type} (sin : α → β) (twoPi : α) (freq phase : Arg α) (n : Nat) : List β :=
  (moduloCounter phase (.num twoPi) freq n).map sin

/-- `karplus_strong`: `comb.tau(delay, tau).linearize()(zeros(), memory=memory)` with
    `delay = 2*pi/freq`, `alpha = e ** (-delay / tau)` given.  The linearised denominator is
    `1 - alpha z^-D` for an integer delay `D`, else `1 - alpha (1-w) z^-D - alpha w z^-(D+1)`
    with `D = int(delay)`, `w = delay - D`.  `lm` memory cells `m1 .. m_lm` (short memory is
    left-padded with zeros), input `zeros()`; each step `m0 = Σ -coeff_k * m_k`, then shift. -/
def ksTaps (alpha delay : α) : List (Nat × α) :=
  let D := pyInt delay
  let w := delay - (D : α)
  if w = 0 then [(D.toNat, alpha)]
  else [(D.toNat, alpha * (1 - w)), (D.toNat + 1, alpha * w)]

def ksMemory (lm : Nat) (memory : List α) : List α :=
  let m := memory.take lm
  List.replicate (lm - m.length) 0 ++ m

def ksLoop (taps : List (Nat × α)) : Nat → List α → List α
  | 0, _ => []
  | fuel + 1, mem =>
    let m0 := taps.foldl (fun acc t => acc + t.2 * mem.getD (t.1 - 1) 0) 0
    m0 :: ksLoop taps fuel ((m0 :: mem).take mem.length)

def karplus (alpha delay : α) (memory : List α) (n : Nat) : List α :=
  let taps := ksTaps alpha delay
  let lm := (taps.map (·.1)).foldl max 0
  ksLoop taps n (ksMemory lm memory)

/-! ### `resample` (lazy_poly.py:538-603) with `lagrange.func` (lazy_poly.py:491-513) -/

/-- `lagrange(enumerate(data))(k)`:
    `sum(yv[j] * prod((k - rk) / (rj - rk) for rk in xv if rj != rk) for j, rj in enumerate(xv))`
    with `xv = 0, 1, .., len(data)-1`.  (For a single point the code's `reduce` has nothing to
    multiply and raises TypeError — see `resample`.) -/
def lagrangeEnum (data : List α) (k : α) : α :=
  let xv := List.range data.length
  xv.foldl (fun (acc : α) (j : Nat) =>
    acc + data.getD j 0 *
      ((xv.filter (· ≠ j)).foldl
        (fun (p : α) (r : Nat) => p * ((k - ((r : Int) : α)) / (((j : Int) : α) - ((r : Int) : α)))) 1)) 0

/-- `while idx > threshold: data.append(next(isig)); idx -= 1` on a `deque(maxlen=order+1)`;
    `none` when `next(isig)` finds the input exhausted -/
def resAdvance (thr : α) : List α → α → List α → Option (α × List α × List α)
  | rest, idx, data =>
    if thr < idx then
      match rest with
      | [] => none
      | x :: r => resAdvance thr r (idx - 1) (data.drop 1 ++ [x])
    else some (idx, data, rest)

/-- how a run of the generator ended -/
inductive ResEnd where
  | fuel      -- the observer stopped reading
  | input     -- `next(isig)` raised StopIteration: the input ended
  | step      -- `next(step)` raised StopIteration: the step stream ended
  deriving DecidableEq, Repr

/-- the `while True` loops (lines 589-603); `steps = none` : constant `step`, else the stream -/
def resLoop (thr step : α) : Nat → Option (List α) → α → List α → List α → List α × ResEnd
  | 0, _, _, _, _ => ([], .fuel)
  | fuel + 1, steps, idx, data, rest =>
    let y := lagrangeEnum data idx
    let next : Option (α × Option (List α)) := match steps with
      | none => some (step, none)
      | some [] => none
      | some (s :: ss) => some (s, some ss)
    match next with
    | none => ([y], .step)
    | some (s, steps') =>
      match resAdvance thr rest (idx + s) data with
      | none => ([y], .input)
      | some (idx', data', rest') =>
        let r := resLoop thr step fuel steps' idx' data' rest'
        (y :: r.1, r.2)

/-- `resample(sig, old, new, order, zero)` with `step = old / new` a number or a stream, first
    `n` outputs and the way the generator ended.  `order = 0` makes `lagrange` raise TypeError at
    the first output; an input shorter than `rint(threshold)` is outside the model (`resShort`). -/
def resample (sig : List α) (step : Arg α) (order : Nat) (zero : α) (n : Nat) :
    Except String (List α × ResEnd) :=
  if order = 0 then .error "TypeError"
  else
    let thr : α := half * (((order + 1 : Nat) : Int) : α)
    let ntake := order / 2 + 1                    -- rint(threshold)
    let first := sig.take ntake
    let data := (List.replicate (order + 1) zero ++ first).drop first.length   -- deque(maxlen)
    let idx : α := ((((order + 1) / 2 : Nat) : Int) : α)   -- int(threshold)
    let rest := sig.drop ntake
    match step with
    | .num s => .ok (resLoop thr s n none idx data rest)
    | .strm ss => .ok (resLoop thr 0 n (some ss) idx data rest)

/-- inputs with fewer than `rint(threshold)` samples (today: RuntimeError from `Stream.take`, D1) -/
def resShort (sig : List α) (order : Nat) : Bool := sig.length < order / 2 + 1

/-! ### noise generators: only their duration is modelled (lazy_synth.py:411-415, 447-451) -/

/-- `lazy_misc.rint(x)` (step 1): `divmod`, a guard value `±0.1`, round half away from zero -/
def rint (x : α) : Int :=
  let dv : Int := Floor.floor x
  let md : α := x - (dv : α)
  let err : α := half / (1 + 1 + 1 + 1 + 1)
  let result : α := if 0 < x then (dv : α) + err else if x < 0 then (dv : α) - err else (dv : α)
  let up : Bool := if x < 0 then decide (1 < (1 + 1) * md) else decide (¬ ((1 + 1) * md < 1))
  pyInt (if up then result + 1 else result)

/-- number of samples of `white_noise(dur)` / `gauss_noise(dur)` among the first `n` reads -/
def noiseLen (dur : Option α) (n : Nat) : Nat :=
  match dur with
  | none => n
  | some d => min n (rint d).toNat

/-! ### `TableLookup` operators, `normalize`, `harmonize` (lazy_synth.py:454-493, 558-576) -/

/-- the arithmetic operators of `TableLookupMeta.__operators__` that stay inside a field -/
inductive TOp where
  | add | sub | mul | div
  deriving DecidableEq, Repr

def TOp.app : TOp → α → α → α
  | .add, x, y => x + y
  | .sub, x, y => x - y
  | .mul, x, y => x * y
  | .div, x, y => x / y

/-- `table1 <op> table2` (`__binary__`, TableLookup operand) -/
def tblBinary (op : TOp) (t1 : List α) (c1 : α) (t2 : List α) (c2 : α) : Except String (List α) :=
  if c1 ≠ c2 then .error "ValueError"
  else if t1.length ≠ t2.length then .error "ValueError"
  else .ok (List.zipWith op.app t1 t2)

/-- `table <op> number` (`__binary__`) and `number <op> table` (`__rbinary__`) -/
def tblScalar (op : TOp) (t : List α) (x : α) (reflected : Bool) : List α :=
  t.map fun d => if reflected then op.app x d else op.app d x

/-- `-table` (`__unary__`) -/
def tblNeg (t : List α) : List α := t.map fun d => -d

def absA (x : α) : α := if x < 0 then -x else x

/-- `max(self.table, key=abs)`: the first element of maximal absolute value -/
def maxAbs : List α → Option α
  | [] => none
  | x :: xs => some (xs.foldl (fun m y => if absA m < absA y then y else m) x)

/-- `normalize()`: `self / max_abs`; ValueError for an all-zero table -/
def tblNormalize (t : List α) : Except String (List α) :=
  match maxAbs t with
  | none => .error "ValueError"            -- max() of an empty sequence
  | some m => if m = 0 then .error "ValueError" else .ok (t.map fun d => d / m)

/-- `self.table[::stp]` -/
def tblSlice (t : List α) (stp : Nat) : List α :=
  (List.range ((t.length + stp - 1) / stp)).map fun i => t.getD (i * stp) 0

/-- `harmonize({partial: amplitude})`:
    `sum(cycle(self.table[::partial+1]) * amplitude for ...)`, `len(self)` items -/
def tblHarmonize (t : List α) (harm : List (Nat × α)) : List α :=
  (List.range t.length).map fun k =>
    harm.foldl (fun acc pa =>
      let sl := tblSlice t (pa.1 + 1)
      acc + sl.getD (k % sl.length) 0 * pa.2) 0

end Arith
end ALV.C19
