/-
  C02 — code shaped models of the READ DISCIPLINE of the public stages of audiolazy.
  Every stage is an `ALV.Stage` (prologue / one read per loop iteration / epilogue).
  The data paths of filters, overlap-add, resample and Streamix belong to C04/C06/C09/C19/C16;
  here only *when a source item is read* and *how many outputs each read releases* matters, so
  value computations are parameters (`f`, `p`, …) and the driver instantiates items by `Unit`.
  Core Lean only; executable.
-/
import ALV.Common.Stage
import ALV.Model.C08
namespace ALV.C02
open ALV
variable {α β σ : Type}

/-! ### sample-wise stages -/

/-- `xmap(f, data)`: Stream operators with a scalar, unary operators, `Stream.map`, `imap`,
    `__getattr__`, `__call__`, `clip` (generator expressions `f(el) for el in sig`),
    elementwise functions. -/
def mapS (f : α → β) : Stage α β Unit :=
  ⟨(), [], fun _ x => ((), [f x]), fun _ => []⟩

/-- a loop with state, one yield per item: the generated `LinearFilter.__call__` loop
    (`for d0 in seq: m0 = …; yield m0; m1 = m0; d1 = d0`), also with time varying coefficients
    (`next(b1)` once per iteration), `maverage.deque`, `modulo_counter` over `xzip(...)`,
    `enumerate`, `itertools.accumulate`. -/
def scanS (f : σ → α → σ × β) (s0 : σ) : Stage α β σ :=
  ⟨s0, [], fun s x => ((f s x).1, [(f s x).2]), fun _ => []⟩

/-- `accumulate.func`, `unwrap`: `first = next(it); yield …; for el in it: …; yield …` -/
def firstThenS (f0 : α → σ × β) (f : σ → α → σ × β) : Stage α β (Option σ) :=
  ⟨none, [],
   fun st x => match st with
     | none => (some (f0 x).1, [(f0 x).2])
     | some s => (some (f s x).1, [(f s x).2]),
   fun _ => []⟩

/-- `zcross`: two loops over ONE iterator.  First loop (sign unknown): `yield 0`, and leave
    the loop when the element is outside the hysteresis band.  Second loop: `yield 0/1`.
    `outside`/`sgn`/`crosses` abstract the comparisons. -/
def zcrossS (outside : α → Bool) (sgn : α → Bool) (crosses : Bool → α → Bool)
    (first : Option Bool) : Stage α Bool (Option Bool) :=
  ⟨first, [],
   fun st x => match st with
     | none => (if outside x then some (sgn x) else none, [false])
     | some sg => if crosses sg x then (some (sgn x), [true]) else (some sg, [false]),
   fun _ => []⟩

/-! ### stages that drop or add items -/

/-- `Stream.filter` / `ifilter` / `compress`: the predicate may depend on the call number
    (the harness uses a predicate that follows a fixed pass pattern). -/
def filterS (p : Nat → α → Bool) : Stage α α Nat :=
  ⟨0, [], fun n x => (n + 1, if p n x then [x] else []), fun _ => []⟩

/-- `Stream.skip(n)`: on the first demand `n` times `next(data)`, then `for el in data: yield el`;
    also `dropwhile` over a prefix, `pairwise`-like look-ahead of n. -/
def skipS (n : Nat) : Stage α α Nat :=
  ⟨n, [],
   fun c x => match c with
     | 0 => (0, [x])
     | c + 1 => (c, []),
   fun _ => []⟩

/-- `zero_pad(seq, left, right)`, `chain(pre, seq)`, `Stream(pre).append(seq)`,
    `Stream(seq).append(post)`: yields that need no read, pass-through, epilogue. -/
def padS (pre post : List α) : Stage α α Unit :=
  ⟨(), pre, fun _ x => ((), [x]), fun _ => post⟩

/-- `islice(seq, start, None, step)`: state = items still to drop before the next output -/
def isliceS (start step : Nat) : Stage α α Nat :=
  ⟨start, [],
   fun c x => match c with
     | 0 => (step - 1, [x])
     | c + 1 => (c, []),
   fun _ => []⟩

/-- `attack(a, d, s)` with an iterable sustain `s`, seen from the sustain source:

        it_s = iter(s);  s = next(it_s)          -- on the FIRST demand (generator body)
        <len_a + len_d yields: the attack and decay lines>   -- need only that first item
        for s in it_s: yield s                   -- then one item per output

    `n = int(a + .5) + int(d + .5)`; the first sustain item only fixes the slope of the decay
    line and is not yielded itself.  `line` is the value of the `i`-th line sample. -/
def attackS (n : Nat) (line : α → Nat → α) : Stage α α Bool :=
  ⟨true, [],
   fun first x => if first then (false, (List.range n).map (line x)) else (false, [x]),
   fun _ => []⟩

/-! ### block stages -/

/-- `blocks(seq, size, hop, padval)` — the very state machine of `ALV.C08` as a Stage -/
def blocksS (size hop : Nat) (pad : α) : Stage α (List α) (C08.BState α) :=
  ⟨⟨[], 0⟩, [],
   fun s x => ((C08.bstep size hop s x).1, (C08.bstep size hop s x).2.toList),
   C08.btail size hop pad⟩

/-- `overlap_add.list(blk_sig, size, hop)`: `for blk in blk_sig: …; for el in mem[:hop]: yield el`
    then `for el in mem[hop:]: yield el`.  Source items are blocks; `mk` stands for the
    windowing/accumulation (C09). -/
def olaS (size hop : Nat) (mk : β → Nat → α) (fin : Nat → α) : Stage β α Unit :=
  ⟨(), [],
   fun _ b => ((), (List.range hop).map (mk b)),
   fun _ => (List.range (size - hop)).map fin⟩

/-- the STFT wrapper: `ola(blk_gen(...))` with
    `blk_gen = process(blk) for blk in Stream(sig).blocks(size, hop)` -/
def stftS (size hop : Nat) (pad : α) (process : List α → β) (mk : β → Nat → α) (fin : Nat → α) :=
  (blocksS size hop pad ▷ mapS process) ▷ olaS size hop mk fin

/-- STFT wrapper with `ola=None`: the stream of processed blocks -/
def stftBlkS (size hop : Nat) (pad : α) (process : List α → β) :=
  blocksS size hop pad ▷ mapS process

/-! ### `resample` (read discipline; the interpolation itself is C19)

    data.extend(sig.take(rint(threshold)));  idx = int(threshold)
    while True:
      yield …;  idx += step
      while idx > threshold:  data.append(next(isig));  idx -= 1
-/

structure RsSt where
  prefill : Nat      -- items of the initial `take` still to be read
  idx     : Rat      -- interpolation position (after `idx += step`, possibly above threshold)

/-- `yield; idx += step` repeated while no read is needed (`idx ≤ threshold`);
    returns the number of yields and the position that made the loop want a read.
    `fuel` bounds the unrolling (the loop terminates because `step > 0`). -/
def rsBurst (thr step : Rat) : Nat → Rat → Nat × Rat
  | 0, idx => (1, idx + step)
  | fuel + 1, idx =>
    let idx' := idx + step
    if idx' > thr then (1, idx')
    else
      let r := rsBurst thr step fuel idx'
      (r.1 + 1, r.2)

def rsFuel (thr step idx : Rat) : Nat := ((thr - idx) / step).ceil.toNat + 1

/-- `rint((order+1)/2)`: half away from zero -/
def rsPrefill (order : Nat) : Nat := order / 2 + 1

def resampleS (order : Nat) (step : Rat) : Stage α Unit RsSt :=
  let thr : Rat := (order + 1 : Nat) / 2
  ⟨⟨rsPrefill order, ((order + 1) / 2 : Nat)⟩, [],
   fun st _ =>
     match st.prefill with
     | n + 2 => (⟨n + 1, st.idx⟩, [])
     | 1 =>   -- the last item of the initial `take`: first yield
       let r := rsBurst thr step (rsFuel thr step st.idx) st.idx
       (⟨0, r.2⟩, List.replicate r.1 ())
     | 0 =>   -- `data.append(next(isig)); idx -= 1`
       let idx := st.idx - 1
       if idx > thr then (⟨0, idx⟩, [])
       else
         let r := rsBurst thr step (rsFuel thr step idx) idx
         (⟨0, r.2⟩, List.replicate r.1 ()),
   fun _ => []⟩

/-! ### `resample` with a TIME-VARYING step: two counted sources (signal and step stream)

    step = iter(old / new)                      -- nothing is read here
    data.extend(sig.take(rint(threshold)));  idx = int(threshold)
    while True:
      yield …                                   -- output #j needs the steps #0 .. #j-1 only
      idx += next(step)                         -- read AFTER the yield: when #j+1 is demanded
      while idx > threshold:  data.append(next(isig));  idx -= 1

  Seen from the STEP source this is a `Stage` (one output per step value, one output up front);
  every output carries the number of SIGNAL items pulled for it, so the generator protocol
  (`Stage.pulls`) counts the step stream and the outputs count the signal: both counters of the
  two-source machine are observable.  A variant that fetches the step in the loop header
  (`for delta in steps: yield …`) is `rsStepEagerS`: same outputs, one step value too early.
-/

/-- `while idx > thr: data.append(next(isig)); idx -= 1` — (signal items read, idx afterwards) -/
def rsCatchUp (thr : Rat) : Nat → Rat → Nat × Rat
  | 0, idx => (0, idx)
  | fuel + 1, idx =>
    if idx > thr then
      let r := rsCatchUp thr fuel (idx - 1)
      (r.1 + 1, r.2)
    else (0, idx)

def rsCatchFuel (thr idx : Rat) : Nat := (idx - thr).ceil.toNat

def rsThrOf (order : Nat) : Rat := ((order + 1 : Nat) : Rat) / 2

/-- step-source view; input = step values, output = signal items pulled for that output -/
def rsStepS (order : Nat) : Stage Rat Nat Rat :=
  ⟨(((order + 1) / 2 : Nat) : Rat), [rsPrefill order],
   fun idx delta =>
     let idx' := idx + delta
     let r := rsCatchUp (rsThrOf order) (rsCatchFuel (rsThrOf order) idx') idx'
     (r.2, [r.1]),
   fun _ => []⟩

/-- the loop with the step fetched in its header (`for delta in steps:`): NOT the library's
    discipline — kept as the counter-model the theorems and the tie distinguish from `rsStepS` -/
def rsStepEagerS (order : Nat) : Stage Rat Nat (Rat × Nat) :=
  ⟨((((order + 1) / 2 : Nat) : Rat), rsPrefill order), [],
   fun st delta =>
     let idx' := st.1 + delta
     let r := rsCatchUp (rsThrOf order) (rsCatchFuel (rsThrOf order) idx') idx'
     ((r.2, r.1), [st.2]),
   fun _ => []⟩

/-- signal-source view of a stage whose `i`-th output is yielded after `gaps[i]` further source
    items (`read gaps[i] items; yield`); beyond the list: one item per output -/
def stripZeros : List Nat → Nat × List Nat
  | [] => (0, [])
  | g :: gs => if g = 0 then ((stripZeros gs).1 + 1, (stripZeros gs).2) else (0, g :: gs)

def gapS (gaps : List Nat) : Stage α Unit (List Nat) :=
  ⟨(stripZeros gaps).2, List.replicate (stripZeros gaps).1 (),
   fun gs _ => match gs with
     | [] => ([], [()])
     | g :: rest =>
       if g ≤ 1 then ((stripZeros rest).2, List.replicate ((stripZeros rest).1 + 1) ())
       else ((g - 1) :: rest, []),
   fun _ => []⟩

/-- `resample(sig, old=<stream>, new=<stream>)` seen from the signal source: the reads in front
    of every output are those of the two-source machine run on the given step values -/
def resampleTVS (order : Nat) (steps : List Rat) : Stage α Unit (List Nat) :=
  gapS ((rsStepS order).emit steps)

/-- running totals `acc + c₀, acc + c₀ + c₁, …` -/
def cumSum : Nat → List Nat → List Nat
  | _, [] => []
  | acc, c :: cs => (acc + c) :: cumSum (acc + c) cs

/-- both counters of the two-source machine after each of `K` calls of `next()`:
    (signal items pulled, step values pulled) -/
def rsTwoSource (order : Nat) (steps : List Rat) (K : Nat) : List (Nat × Nat) :=
  List.zip (cumSum 0 ((rsStepS order).outs steps K)) ((rsStepS order).pulls steps K)

/-! ### `Streamix` seen from ONE event's data source (timing of several events is C16)

    count = 0.5
    while True:
      while not_playing and count >= not_playing[0][0]:  start it;  count -= delta
      data = zero;  for snd in playing: data += next(snd)      -- ONE read per output
      yield data;  count += 1.
-/

/-- number of outputs before the event with time `delta` starts: iterations of the outer
    loop in which `count >= delta` is still false -/
def smixWait (delta : Rat) : Nat → Rat → Nat
  | 0, _ => 0
  | fuel + 1, count => if count ≥ delta then 0 else smixWait delta fuel (count + 1) + 1

def smixStart (delta : Rat) : Nat := smixWait delta (delta.ceil.toNat + 1) (1 / 2)

def smixS (delta : Rat) (zero : α) : Stage α α Unit :=
  ⟨(), List.replicate (smixStart delta) zero, fun _ x => ((), [x]), fun _ => []⟩

/-! ### consumers: `take` / `peek` (not stages: they run when called) -/

/-- items pulled by `Stream.take(n)` on a source with `len` items: `next(data)` n times -/
def takeReads (n len : Nat) : Nat := min n len

/-- pull counter after `peek(n)` and then `k` further `next()`: the tee buffer re-delivers -/
def peekThenReads (n k : Nat) : Nat := max n k

/-! ### descriptors used by the driver: chains of stages over `Unit` items -/

structure AnyStage where
  σ : Type
  st : Stage Unit Unit σ

inductive Desc where
  | sample                       -- mapS
  | scan                         -- scanS
  | first                        -- firstThenS
  | zcross (known : Bool)
  | filt (pat : List Bool)       -- pass pattern, `true` beyond its end
  | skip (n : Nat)
  | pad (pre post : Nat)
  | islice (start step : Nat)
  | blocks (size hop : Nat)
  | ola (size hop : Nat)
  | stft (size hop : Nat) (ola : Bool)
  | par (n : Nat)                -- thub'ed input feeding n sample-wise branches, summed
  | cascade (n : Nat)            -- n sample-wise filters in series
  | resample (order : Nat) (step : Rat)
  | resampleTV (order : Nat) (steps : List Rat)   -- time-varying step (values of the step stream)
  | smix (delta : Rat)
  | attack (n : Nat)              -- `attack(a, d, <iterable>)`: n = len_a + len_d line samples
  deriving Repr

def u1 : Unit → Unit := fun _ => ()

/-- `n` sample-wise branches over a shared (tee'd) input, outputs combined in lock-step -/
def parN : Nat → AnyStage
  | 0 => ⟨_, mapS u1⟩            -- `ParallelFilter()` : `zero for _ in seq`
  | 1 => ⟨_, scanS (fun (_ : Unit) _ => ((), ())) ()⟩
  | n + 2 =>
    let r := parN (n + 1)
    ⟨_, Stage.par (scanS (fun (_ : Unit) _ => ((), ())) ()) r.st ▷ mapS (fun _ => ())⟩

def cascadeN : Nat → AnyStage
  | 0 => ⟨_, mapS u1⟩
  | n + 1 =>
    let r := cascadeN n
    ⟨_, scanS (fun (_ : Unit) _ => ((), ())) () ▷ r.st⟩

def patAt (pat : List Bool) (n : Nat) : Bool := pat.getD n true

def build : Desc → AnyStage
  | .sample => ⟨_, mapS u1⟩
  | .scan => ⟨_, scanS (fun (_ : Unit) _ => ((), ())) ()⟩
  | .first => ⟨_, firstThenS (fun _ => ((), ())) (fun (_ : Unit) _ => ((), ()))⟩
  | .zcross known =>
    ⟨_, zcrossS (fun _ => true) (fun _ => true) (fun _ _ => false)
          (if known then some true else none) ▷ mapS (fun _ => ())⟩
  | .filt pat => ⟨_, filterS (fun n _ => patAt pat n)⟩
  | .skip n => ⟨_, skipS n⟩
  | .pad pre post => ⟨_, padS (List.replicate pre ()) (List.replicate post ())⟩
  | .islice start step => ⟨_, isliceS start step⟩
  | .blocks size hop => ⟨_, blocksS size hop () ▷ mapS (fun _ => ())⟩
  | .ola size hop => ⟨_, olaS size hop (fun _ _ => ()) (fun _ => ())⟩
  | .stft size hop true => ⟨_, stftS size hop () (fun _ => ()) (fun _ _ => ()) (fun _ => ())⟩
  | .stft size hop false => ⟨_, stftBlkS size hop () (fun _ => ())⟩
  | .par n => parN n
  | .cascade n => cascadeN n
  | .resample order step => ⟨_, resampleS order step⟩
  | .resampleTV order steps => ⟨_, resampleTVS order steps⟩
  | .smix delta => ⟨_, smixS delta ()⟩
  | .attack n => ⟨_, attackS n (fun _ _ => ())⟩

def buildChain : List Desc → AnyStage
  | [] => ⟨_, mapS u1⟩
  | d :: ds => ⟨_, (build d).st ▷ (buildChain ds).st⟩

/-- pull counter of the source after each of the first `K` `next()` on the chain's output -/
def chainPulls (ds : List Desc) (n K : Nat) : List Nat :=
  (buildChain ds).st.pulls (List.replicate n ()) K

end ALV.C02
