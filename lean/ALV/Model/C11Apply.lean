/-
  C11 — the CALL EXPRESSION `parcor(…)` / `parcor_stable(…)`: Python's binding of the single
  parameter (`fir_filt` / `filt`) from positional and keyword arguments, the kind of object passed,
  and WHEN an exception surfaces.  Mathlib-free; executable.

  Code read (`lazy_lpc.py`): `def parcor(fir_filt)` is a GENERATOR function — the call only binds the
  argument (a binding failure is a `TypeError` raised by the call expression); the body starts at
  the first `next()`: `den = fir_filt.denominator` (AttributeError for an object without that
  attribute; `int`, `bool`, `Fraction` HAVE an int `denominator` and fail one line later in
  `len(den)` with a TypeError; attribute access on a `Stream` is elementwise and gives a Stream,
  whose `len()` is a TypeError), then the branches of `ALV/Model/C11Call.lean`.
  `def parcor_stable(filt)` is an ordinary function: everything surfaces at the call;
  `filt.denpoly` is an AttributeError for every non-filter except a `Stream` (elementwise →
  `ZFilter(Stream)` → `all(abs(k) < 1 …)` on a Stream of booleans → TypeError).
-/
import ALV.Model.C11Call
namespace ALV.C11
variable {α : Type} [Add α] [Mul α] [Sub α] [Neg α] [Div α] [OfNat α 0] [OfNat α 1]
  [DecidableEq α]

/-- what a caller can pass -/
inductive ArgObj (α : Type) where
  | filt (numLo : Int) (num : List α) (denLo : Int) (den : List α)  -- a constructed ZFilter
  | rational      -- int / bool / Fraction: has an int `.denominator`, no `.denpoly`
  | stream        -- a Stream: attribute access is elementwise
  | other         -- float, complex, None, str, list, tuple, dict, Poly: neither attribute
deriving DecidableEq, Repr

inductive Exc where
  | typeError | attributeError | valueError | zeroDivisionError
deriving DecidableEq, Repr

inductive ApplyRes (α : Type) where
  | atCall (e : Exc)                      -- raised by the call expression itself
  | atNext (e : Exc)                      -- a generator came back; raised by its first `next()`
  | gen (ks : List α) (raised : Bool)     -- a generator: its yields, then ParCorError or not
  | verdict (b : Bool)
deriving DecidableEq, Repr

/-- Python's binding of a function with ONE parameter `p` and no default: exactly one argument in
    all, positional or under the name `p`; anything else is a `TypeError` (`none`) -/
def bind1 {β : Type} (p : String) (args : List β) (kwargs : List (String × β)) : Option β :=
  match args, kwargs with
  | [a], [] => some a
  | [], [(k, a)] => if k = p then some a else none
  | _, _ => none

/-- the call expression `parcor(*args, **kwargs)`, then `list(…)` of the generator -/
def parcorApply (args : List (ArgObj α)) (kwargs : List (String × ArgObj α)) : ApplyRes α :=
  match bind1 "fir_filt" args kwargs with
  | none => .atCall .typeError
  | some (.filt numLo num denLo den) =>
    (match parcorCall numLo num denLo den with
     | .valueError => .atNext .valueError
     | .zeroDiv => .atNext .zeroDivisionError
     | .ok ks b => .gen ks b)
  | some .rational => .atNext .typeError
  | some .stream => .atNext .typeError
  | some .other => .atNext .attributeError

/-- the call expression `parcor_stable(*args, **kwargs)` -/
def stableApply [LT α] [DecidableLT α] (args : List (ArgObj α))
    (kwargs : List (String × ArgObj α)) : ApplyRes α :=
  match bind1 "filt" args kwargs with
  | none => .atCall .typeError
  | some (.filt numLo num denLo den) =>
    (match stableCall numLo num denLo den with
     | none => .atCall .valueError
     | some b => .verdict b)
  | some .rational => .atCall .attributeError
  | some .stream => .atCall .typeError
  | some .other => .atCall .attributeError

end ALV.C11
