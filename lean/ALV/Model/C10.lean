/-
  C10 — model of `audiolazy.lazy_lpc` (toeplitz, levinson_durbin, lpc.kautocor, lpc.kcovar) and
  `audiolazy.lazy_analysis` (acorr, lag_matrix), code shaped.  Mathlib-free; executable.

  A causal FIR `ZFilter` with constant denominator 1 is its `numlist`: a plain coefficient list,
  index = delay.  `Poly` never stores a zero coefficient, so a `numlist` has inner zeros (the
  `Poly.values()` fill-in) but no trailing zero: every filter-valued operation ends with `trim`.

  levinson_durbin(acdata, order):
      if order is None: order = len(acdata) - 1
      elif order >= len(acdata): acdata = Stream(acdata).append(0).take(order + 1)
      inner(a, b) = sum(acdata[abs(i-j)] * ai * bj for i, ai in enumerate(a.numlist)
                                                    for j, bj in enumerate(b.numlist))
      A = ZFilter(1)
      for m in 1..order:  B = A(1 / z) * z ** -m;  A -= inner(A, z ** -m) / inner(B, B) * B
      (ZeroDivisionError -> ParCorError);  A.error = inner(A, A)

  lpc.kcovar(blk, order):
      phi = lag_matrix(blk, order); order = len(phi) - 1
      inner(a, b) = sum(phi[i][j] * ai * bj ...)
      A = ZFilter(1); B = [z ** -1]; beta = [inner(B[0], B[0])]; m = 1
      while True:
        k = -inner(A, z ** -m) / beta[m - 1]           (ZeroDivisionError)
        if k >= 1 or k <= -1: raise ValueError
        A += k * B[m - 1]
        if m >= order: A.error = inner(A, A); return A
        gamma = [inner(z ** -(m + 1), B[q]) / beta[q] for q in range(m)]
        B.append(z ** -(m + 1) - sum(gamma[q] * B[q] for q in range(m)))
        beta.append(inner(B[m], B[m])); m += 1
-/
namespace ALV.C10
variable {α : Type} [Add α] [Mul α] [Sub α] [Neg α] [Div α] [OfNat α 0] [OfNat α 1]

/-- Python `sum(iterable)`: left fold starting from `0`. -/
def sumL (l : List α) : α := l.foldl (· + ·) 0

/-- `l[i]`, and `0` past the end (the `Poly.values()` fill-in).  The reads `acdata[abs(i-j)]` of
    `levinson_durbin` are in range: i, j ≤ order (`LevInv.len`) and `zeroExt_length` in
    `Lemmas.C10Lev`; `order=None` uses order = len − 1. -/
def coef (l : List α) (i : Nat) : α := l.getD i 0

/-- `abs(i - j)` on indices -/
def adiff (i j : Nat) : Nat := if i ≤ j then j - i else i - j

/-- `acorr(blk, max_lag)`: `[sum(blk[n] * blk[n + tau] for n in xrange(len(blk) - tau)) for tau in
    xrange(max_lag + 1)]`; `max_lag = None` means `len(blk) - 1`. -/
def acorr (blk : List α) (maxLag : Option Nat) : List α :=
  let lags := match maxLag with
    | none => blk.length
    | some L => L + 1
  (List.range lags).map fun tau =>
    sumL ((List.range (blk.length - tau)).map fun n => coef blk n * coef blk (n + tau))

/-- the table of `lag_matrix` for a definite `max_lag = L < len(blk)`:
    row j, column i = `sum(blk[n - i] * blk[n - j] for n in xrange(L, len(blk)))` -/
def lagTable (blk : List α) (L : Nat) : List (List α) :=
  (List.range (L + 1)).map fun j => (List.range (L + 1)).map fun i =>
    sumL ((List.range (blk.length - L)).map fun k => coef blk (L + k - i) * coef blk (L + k - j))

/-- `lag_matrix(blk, max_lag)`; `ValueError` when `max_lag >= len(blk)`; `None` means
    `len(blk) - 1` (an empty block gives the empty table). -/
def lagMatrix (blk : List α) (maxLag : Option Nat) : Except String (List (List α)) :=
  match maxLag with
  | none => if blk.length = 0 then .ok [] else .ok (lagTable blk (blk.length - 1))
  | some L => if L ≥ blk.length then .error "ValueError" else .ok (lagTable blk L)

/-- `toeplitz(vect)`: `[[vect[abs(i-j)] for i in xrange(len(vect))] for j in xrange(len(vect))]` -/
def toeplitz (vect : List α) : List (List α) :=
  (List.range vect.length).map fun j => (List.range vect.length).map fun i => coef vect (adiff i j)

section filters
variable [DecidableEq α]

/-- drop trailing zeros (a `Poly` stores no zero term) -/
def trim : List α → List α
  | [] => []
  | x :: xs =>
    let t := trim xs
    if t.isEmpty ∧ x = 0 then [] else x :: t

/-- `(z ** -m).numlist` = m zeros then 1 -/
def delay (m : Nat) : List α := List.replicate m 0 ++ [1]

/-- `(A(1 / z) * z ** -m).numlist`: the term of delay k goes to delay m - k
    (A has delay ≤ m here, otherwise the code raises "Non-causal filter"). -/
def revShift (m : Nat) (a : List α) : List α :=
  trim ((List.range (m + 1)).map fun j => coef a (m - j))

/-- `(A - c * B).numlist` -/
def subScaled (a : List α) (c : α) (b : List α) : List α :=
  trim ((List.range (max a.length b.length)).map fun i => coef a i - c * coef b i)

/-- `(A + c * B).numlist` -/
def addScaled (a : List α) (c : α) (b : List α) : List α :=
  trim ((List.range (max a.length b.length)).map fun i => coef a i + c * coef b i)

/-- the inner product of `levinson_durbin`, exactly as coded (a flat generator over i, j) -/
def inner (r a b : List α) : α :=
  sumL ((List.range a.length).flatMap fun i => (List.range b.length).map fun j =>
    coef r (adiff i j) * coef a i * coef b j)

/-- `Stream(acdata).append(0).take(order + 1)` when `order >= len(acdata)` -/
def zeroExt (r : List α) (order : Nat) : List α :=
  if order ≥ r.length then r ++ List.replicate (order + 1 - r.length) 0 else r

/-- one pass of the `for m` loop -/
def levStep (r : List α) (m : Nat) (A : List α) : Except String (List α) :=
  let B := revShift m A
  let num := inner r A (delay m)
  let den := inner r B B
  if den = 0 then .error "ParCorError" else .ok (subScaled A (num / den) B)

/-- `A` after the passes m = 1..n -/
def levIter (r : List α) : Nat → Except String (List α)
  | 0 => .ok [1]
  | n + 1 => do
    let A ← levIter r n
    levStep r (n + 1) A

/-- `levinson_durbin(acdata, order)`: the pair (`filt.numerator`, `filt.error`) -/
def levinson (r : List α) (order : Option Nat) : Except String (List α × α) :=
  match order with
  | none =>
    if r.length = 0 then .error "IndexError"   -- order = -1, then `acdata[0]`
    else do
      let A ← levIter r (r.length - 1)
      pure (A, inner r A A)
  | some p => do
    let r' := zeroExt r p
    let A ← levIter r' p
    pure (A, inner r' A A)

/-- `lpc.kautocor(blk, order)` = `levinson_durbin(acorr(blk, order), order)` -/
def kautocor (blk : List α) (order : Option Nat) : Except String (List α × α) :=
  levinson (acorr blk order) order

/-! ### lpc.kcovar -/

/-- the inner product of `lpc.kcovar` over the lag matrix -/
def innerM (phi : List (List α)) (a b : List α) : α :=
  sumL ((List.range a.length).flatMap fun i => (List.range b.length).map fun j =>
    coef (phi.getD i []) j * coef a i * coef b j)

structure KState (α : Type) where
  A : List α
  B : List (List α)
  beta : List α

/-- first half of a pass of the `while` loop: `k`, the stability exit, `A += k * B[m-1]` -/
def kcUpdate (phi : List (List α)) (unstable : α → Bool) (m : Nat) (s : KState α) :
    Except String (KState α) :=
  let bm := coef s.beta (m - 1)
  if bm = 0 then .error "ZeroDivisionError"
  else
    let k := -(innerM phi s.A (delay m)) / bm
    if unstable k then .error "ValueError"
    else .ok { s with A := addScaled s.A k (s.B.getD (m - 1) []) }

/-- `gamma` of the second half: `[inner(z ** -(m + 1), B[q]) / beta[q] for q in xrange(m)]`;
    the comprehension raises `ZeroDivisionError` at the first zero `beta[q]` -/
def kcGamma (phi : List (List α)) (m : Nat) (s : KState α) : Except String (List α) :=
  if (List.range m).any (fun q => coef s.beta q = 0) then .error "ZeroDivisionError"
  else .ok ((List.range m).map fun q => innerM phi (delay (m + 1)) (s.B.getD q []) / coef s.beta q)

/-- `(z ** -(m + 1) - sum(gamma[q] * B[q] for q in xrange(m))).numlist` -/
def kcNewB (m : Nat) (gamma : List α) (B : List (List α)) : List α :=
  trim ((List.range (m + 2)).map fun i =>
    coef (delay (m + 1)) i - sumL ((List.range m).map fun q => coef gamma q * coef (B.getD q []) i))

/-- second half of a pass: the next orthogonalised delay and its energy -/
def kcExtend (phi : List (List α)) (m : Nat) (s : KState α) : Except String (KState α) := do
  let gamma ← kcGamma phi m s
  let Bm := kcNewB m gamma s.B
  pure { s with B := s.B ++ [Bm], beta := s.beta ++ [innerM phi Bm Bm] }

/-- the state after the complete passes m = 1..n -/
def kcIter (phi : List (List α)) (unstable : α → Bool) : Nat → Except String (KState α)
  | 0 => .ok ⟨[1], [delay 1], [innerM phi (delay 1) (delay 1)]⟩
  | n + 1 => do
    let s ← kcIter phi unstable n
    let s1 ← kcUpdate phi unstable (n + 1) s
    kcExtend phi (n + 1) s1

/-- the loop of `lpc.kcovar` on a given table: passes 1..order-1 complete, pass `order` leaves
    after the update of `A`.  `len(phi) ≤ 1` (order 0 or empty table): `phi[0][1]` / `phi[0][0]`
    raises IndexError while `beta[0]` is computed. -/
def kcovarOn (phi : List (List α)) (unstable : α → Bool) : Except String (List α × α) :=
  if phi.length ≤ 1 then .error "IndexError"
  else do
    let order := phi.length - 1
    let s ← kcIter phi unstable (order - 1)
    let s1 ← kcUpdate phi unstable order s
    pure (s1.A, innerM phi s1.A s1.A)

/-- `lpc.kcovar(blk, order)` with the test `k >= 1 or k <= -1` passed as a predicate -/
def kcovarWith (unstable : α → Bool) (blk : List α) (order : Option Nat) :
    Except String (List α × α) := do
  let phi ← lagMatrix blk order
  kcovarOn phi unstable

/-- `lpc.kcovar(blk, order)` -/
def kcovar [LE α] [DecidableRel (α := α) (· ≤ ·)] (blk : List α) (order : Option Nat) :
    Except String (List α × α) :=
  kcovarWith (fun k => decide ((1 : α) ≤ k) || decide (k ≤ -1)) blk order

end filters
end ALV.C10
