/-
  C20 — the CALL LAYER of the sample-wise analysis tools.  Mathlib-free; executable.

  `ALV.Model.C20` models each tool as a function of all its parameters.  A Python call may leave
  parameters out (the signature's default applies), pass `None`, or reach a strategy through the
  dictionary's default / an alias.  This file puts that layer inside the model:

  * `DExpr` / `Param` / `Sig`: the signatures of the anchored functions as data — parameter names,
    their order, and the default-value *expressions* as written (`pi`, `2*pi`, `pi/512`, `-1.`,
    `0`, `0.`, `None`).  `documented` is the table the documentation states.  The translator
    (`harness/props/c20.py: regenerate`) reads the same table from the source with `ast` into
    `ALV/Gen/C20Defaults.lean`; `ALV.Props.C20.source_signatures_are_documented` (`decide`) says the
    two tables have the same names, order and default *values*.
  * `…Call` : one definition per tool taking `Option`-al arguments (`none` = parameter omitted);
    the omitted ones are filled in from the `Dflt.*` expressions of the documented table — the
    defaults of the model ARE the table entries, by definition.
    `Arg α = Option (Option α)`: omitted / given `None` / given a number, for the parameters where
    Python accepts (`clip`) or rejects (`zcross`, `unwrap`: TypeError) `None`.
  * strategy dictionaries: the strategy names, their aliases and the dictionary default.

  `pi` is a parameter of the evaluation: the driver passes the exact rational value of the
  double `math.pi` (`piQ`, comparisons with exact samples are then exact) or the double itself
  (`ALV.floatPi`, Float twin); the theorems hold for every value of `pi`.
-/
import ALV.Model.C20
import ALV.Model.C13
import ALV.Common.TrigField
namespace ALV.C20
variable {α : Type}

/-! ### signatures as data -/

/-- a default-value expression, as written in a signature -/
inductive DExpr
  | int (i : Int)                 -- integer literal
  | flt (num : Int) (den : Nat)   -- float literal, its exact value `num/den`
  | none                          -- `None`
  | pi                            -- the name `pi`
  | neg (a : DExpr)
  | mul (a b : DExpr)
  | div (a b : DExpr)
  deriving DecidableEq, Repr, Inhabited

structure Param where
  name : String
  /-- `none`: a required parameter -/
  dflt : Option DExpr
  deriving DecidableEq, Repr

structure Sig where
  fn : String
  params : List Param
  deriving DecidableEq, Repr

section eval
variable [Mul α] [Neg α] [Div α] [NatCast α] [IntCast α]

/-- value of a default expression; `none` = Python `None` -/
def DExpr.eval (pi : α) : DExpr → Option α
  | .int i => some (i : α)
  | .flt n d => some ((n : α) / (d : α))
  | .none => Option.none
  | .pi => some pi
  | .neg a => (a.eval pi).map fun x => -x
  | .mul a b => match a.eval pi, b.eval pi with
    | some x, some y => some (x * y)
    | _, _ => Option.none
  | .div a b => match a.eval pi, b.eval pi with
    | some x, some y => some (x / y)
    | _, _ => Option.none

/-- value of a numeric default (`0` for `None`, which no numeric default is) -/
def dnum [OfNat α 0] (pi : α) (e : DExpr) : α := (e.eval pi).getD 0

/-- value view of a signature: names, order, `none` = required, `some none` = default `None` -/
def Sig.values (pi : α) (s : Sig) : String × List (String × Option (Option α)) :=
  (s.fn, s.params.map fun p => (p.name, p.dflt.map (DExpr.eval pi)))

end eval

/- the documented default expressions (docstrings of lazy_analysis.py / lazy_filters.py) -/
namespace Dflt
/-- "Defaults to zero (0), which means no hysteresis" -/
def zcross_hysteresis : DExpr := .int 0
/-- "Defaults to zero (0), which means any" -/
def zcross_first_sign : DExpr := .int 0
/-- "Defaults to pi/512" -/
def envelope_cutoff : DExpr := .div .pi (.int 512)
/-- starting memory element, "behaves like the LinearFilter.__call__ arguments" -/
def maverage_zero : DExpr := .flt 0 1
def amdf_zero : DExpr := .flt 0 1
/-- "Defaults to -1.0 and 1.0, respectively" -/
def clip_low : DExpr := .neg (.flt 1 1)
def clip_high : DExpr := .flt 1 1
/-- "Defaults to π" — independently of `step` -/
def unwrap_max_delta : DExpr := .pi
/-- "Defaults to 2.π" -/
def unwrap_step : DExpr := .mul (.int 2) .pi
/-- `LinearFilter.__call__(seq, memory=None, zero=0.)` (what `accumulate.z(sig)` runs) -/
def filter_memory : DExpr := .none
def filter_zero : DExpr := .flt 0 1
end Dflt

/-- the signatures as documented: function, parameters in order, defaults -/
def documented : List Sig := [
  ⟨"zcross", [⟨"seq", none⟩, ⟨"hysteresis", some Dflt.zcross_hysteresis⟩,
              ⟨"first_sign", some Dflt.zcross_first_sign⟩]⟩,
  ⟨"envelope.rms", [⟨"sig", none⟩, ⟨"cutoff", some Dflt.envelope_cutoff⟩]⟩,
  ⟨"envelope.abs", [⟨"sig", none⟩, ⟨"cutoff", some Dflt.envelope_cutoff⟩]⟩,
  ⟨"envelope.squared", [⟨"sig", none⟩, ⟨"cutoff", some Dflt.envelope_cutoff⟩]⟩,
  ⟨"maverage.deque", [⟨"size", none⟩]⟩,
  ⟨"maverage.deque.maverage_filter", [⟨"sig", none⟩, ⟨"zero", some Dflt.maverage_zero⟩]⟩,
  ⟨"maverage.recursive", [⟨"size", none⟩]⟩,
  ⟨"maverage.fir", [⟨"size", none⟩]⟩,
  ⟨"clip", [⟨"sig", none⟩, ⟨"low", some Dflt.clip_low⟩, ⟨"high", some Dflt.clip_high⟩]⟩,
  ⟨"unwrap", [⟨"sig", none⟩, ⟨"max_delta", some Dflt.unwrap_max_delta⟩,
              ⟨"step", some Dflt.unwrap_step⟩]⟩,
  ⟨"amdf", [⟨"lag", none⟩, ⟨"size", none⟩]⟩,
  ⟨"amdf.amdf_filter", [⟨"sig", none⟩, ⟨"zero", some Dflt.amdf_zero⟩]⟩,
  ⟨"accumulate.func", [⟨"iterable", none⟩]⟩,
  ⟨"LinearFilter.__call__", [⟨"self", none⟩, ⟨"seq", none⟩, ⟨"memory", some Dflt.filter_memory⟩,
                             ⟨"zero", some Dflt.filter_zero⟩]⟩]

/-- strategy dictionaries: every strategy with its names (first name first, aliases after), in
    registration order; the FIRST registered strategy is the dictionary's default -/
def documentedStrategies : List (String × List (List String)) := [
  ("envelope", [["rms"], ["abs"], ["squared"]]),
  ("maverage", [["deque"], ["recursive", "feedback"], ["fir"]]),
  ("accumulate", [["accumulate", "itertools"], ["func", "pure_python"], ["z"]])]

/-- `math.pi` as an exact rational (0x400921FB54442D18) -/
def piQ : Rat := 884279719003555 / 281474976710656

/-! ### arguments -/

/-- a call argument: `none` = omitted, `some none` = `None`, `some (some v)` = a number -/
abbrev Arg (α : Type) := Option (Option α)

/-- the value the function body sees -/
def Arg.resolve (a : Arg α) (dflt : Option α) : Option α := a.getD dflt

/-! ### strategies -/

inductive MavgStrategy | deque | recursive | fir
  deriving DecidableEq, Repr
inductive AccStrategy | it | func | z
  deriving DecidableEq, Repr
inductive EnvStrategy | rms | abs | squared
  deriving DecidableEq, Repr

def MavgStrategy.ofName : String → Option MavgStrategy
  | "deque" => some .deque
  | "recursive" => some .recursive
  | "feedback" => some .recursive
  | "fir" => some .fir
  | _ => none

def AccStrategy.ofName : String → Option AccStrategy
  | "accumulate" => some .it
  | "itertools" => some .it
  | "func" => some .func
  | "pure_python" => some .func
  | "z" => some .z
  | _ => none

def EnvStrategy.ofName : String → Option EnvStrategy
  | "rms" => some .rms
  | "abs" => some .abs
  | "squared" => some .squared
  | _ => none

/-- the dictionary defaults: `maverage(size)`, `accumulate(sig)`, `envelope(sig)` -/
def MavgStrategy.dflt : MavgStrategy := .deque
def AccStrategy.dflt : AccStrategy := .it
def EnvStrategy.dflt : EnvStrategy := .rms

/-! ### the calls -/

section calls
variable [Add α] [Mul α] [Sub α] [Neg α] [Div α] [OfNat α 0] [OfNat α 1] [NatCast α] [IntCast α]

/-- `maverage[strategy](size)(sig[, zero])`; `strategy = none`: `maverage(size)` -/
def maverageCall (s : Option MavgStrategy) (size : Nat) (zero : Option α) (xs : List α) : List α :=
  let z := zero.getD (dnum 0 Dflt.maverage_zero)
  match s.getD MavgStrategy.dflt with
  | .deque => maverageDeque size z xs
  | .recursive => maverageRecursive size z xs
  | .fir => maverageFir size z xs

/-- `accumulate[strategy](sig)`; `zero` is a parameter of the `z` strategy only -/
def accumulateCall (s : Option AccStrategy) (zero : Option α) (xs : List α) : List α :=
  match s.getD AccStrategy.dflt with
  | .it => accumulateIt xs
  | .func => accumulateFunc xs
  | .z => accumulateZ (zero.getD (dnum 0 Dflt.filter_zero)) xs

variable [LT α] [DecidableLT α]

/-- `amdf(lag, size)(sig[, zero])` -/
def amdfCall (lag size : Nat) (zero : Option α) (xs : List α) : List α :=
  amdf lag size (zero.getD (dnum 0 Dflt.amdf_zero)) xs

/-- `envelope[strategy](sig[, cutoff])`; `design` is the low-pass design (`lowpass(cutoff)`, property
    C13) giving the coefficient lists `(b, a)`, `sqrt` the square root of `** .5` -/
def envelopeCall (design : α → List α × List α) (sqrt : α → α) (pi : α)
    (s : Option EnvStrategy) (cutoff : Option α) (xs : List α) : List α :=
  let c := cutoff.getD (dnum pi Dflt.envelope_cutoff)
  let ba := design c
  match s.getD EnvStrategy.dflt with
  | .rms => (envelopeSquared ba.1 ba.2 xs).map sqrt
  | .abs => envelopeAbs ba.1 ba.2 xs
  | .squared => envelopeSquared ba.1 ba.2 xs

/-- `clip(sig[, low][, high])`: `None` is a value here ("no limit on this side") -/
def clipCall (low high : Arg α) (xs : List α) : Except String (List α) :=
  clip (low.resolve (Dflt.clip_low.eval 0)) (high.resolve (Dflt.clip_high.eval 0)) xs

variable [DecidableEq α]

/-- `zcross(seq[, hysteresis][, first_sign])`; `None` for either: TypeError at the first `next`
    (`-None`, `None < 0`) -/
def zcrossCall (h fs : Arg α) (xs : List α) : Except String (List Nat) :=
  match h.resolve (Dflt.zcross_hysteresis.eval 0), fs.resolve (Dflt.zcross_first_sign.eval 0) with
  | some h, some fs => .ok (zcross h fs xs)
  | _, _ => .error "TypeError"

/-- is there an adjacent jump above `md` -/
def hasJumpAbove (md : α) : List α → Bool
  | x :: y :: rest => decide (absG (y - x) > md) || hasJumpAbove md (y :: rest)
  | _ => false

/-- `unwrap(sig[, max_delta][, step])`.  `max_delta = None`: TypeError at the first comparison
    (an input of two samples); `step = None`: TypeError at the first jump above `max_delta`. -/
def unwrapCall (fl : α → α) (pi : α) (md step : Arg α) (xs : List α) : Except String (List α) :=
  match md.resolve (Dflt.unwrap_max_delta.eval pi), step.resolve (Dflt.unwrap_step.eval pi) with
  | some md, some st => .ok (unwrap fl md st xs)
  | none, _ => if xs.length ≤ 1 then .ok xs else .error "TypeError"
  | some md, none => if hasJumpAbove md xs then .error "TypeError" else .ok xs

end calls

/-! ### the envelope as the code builds it: `lowpass(cutoff)` is the one-pole design of property C13

    `envelope.*(sig, cutoff=pi/512)` calls `lowpass(cutoff)` — the `lowpass` StrategyDict's default
    strategy `pole`, `ALV.C13.lowpassPole` — and applies the designed filter (observed as its
    coefficient lists, `a0 = 1`) to `abs(sig)` resp. `sig ** 2`.  Generic over `TrigField`: the driver
    runs this term at `Float`, the theorems are about the same term at `ℝ`. -/
section envelopePole
variable [TrigField α] [C13.ZeroTest α] [OfNat α 0] [OfNat α 1] [NatCast α] [IntCast α]
  [LT α] [DecidableLT α]

/-- `lowpass(cutoff)` as the `(b, a)` lists of `frun` (`a0 = 1` dropped) -/
def poleDesign (c : α) : List α × List α :=
  let k := C13.lowpassPole c
  (k.num, k.den.drop 1)

/-- `envelope[strategy](sig[, cutoff])` with the real design, `** .5` as `sqrt`, `pi` the class's π -/
def envelopePoleCall (s : Option EnvStrategy) (cutoff : Option α) (xs : List α) : List α :=
  envelopeCall poleDesign TrigField.sqrt TrigField.pi s cutoff xs

/-! #### a time-varying cutoff: `envelope.*(sig, cutoff=<stream or list>)`

    `lowpass(cutoff)` on a Stream computes `x`, `R` sample by sample and returns the filter
    `(1 − R[n]) / (1 − R[n] z⁻¹)` with Stream coefficients (no coefficient is ever tested for zero);
    `LinearFilter.__call__` reads one value of every coefficient per input sample and stops with the
    shorter of the two. -/

/-- `R` of `lowpass.pole` for one cutoff value (the expression inside `ALV.C13.lowpassPole`) -/
def polePoint (c : α) : α :=
  let x := C13.c2 - TrigField.cos c
  x - TrigField.sqrt (C13.sq x - C13.c1)

/-- the generated loop with per-sample coefficients `b0 = 1 − R[n]`, `a1 = −R[n]`; `m` = previous output -/
def envVarLoop : α → List α → List α → List α
  | m, c :: cs, u :: us =>
    let R := polePoint c
    let y := (C13.c1 - R) * u - (-R) * m
    y :: envVarLoop y cs us
  | _, _, _ => []

/-- `envelope[strategy](sig, cutoff=cs)` for a cutoff given sample by sample -/
def envelopeVarCall (s : Option EnvStrategy) (cs xs : List α) : List α :=
  match s.getD EnvStrategy.dflt with
  | .rms => (envVarLoop 0 cs (xs.map fun x => x * x)).map TrigField.sqrt
  | .abs => envVarLoop 0 cs (xs.map absG)
  | .squared => envVarLoop 0 cs (xs.map fun x => x * x)

end envelopePole

/-! ### the instances the driver runs -/
namespace R

def maverageCall (s : Option MavgStrategy) (size : Nat) (zero : Option Rat) (xs : List Rat) :=
  C20.maverageCall s size zero xs
def accumulateCall (s : Option AccStrategy) (zero : Option Rat) (xs : List Rat) :=
  C20.accumulateCall s zero xs
def amdfCall (lag size : Nat) (zero : Option Rat) (xs : List Rat) := C20.amdfCall lag size zero xs
def clipCall (low high : Arg Rat) (xs : List Rat) := C20.clipCall low high xs
def zcrossCall (h fs : Arg Rat) (xs : List Rat) := C20.zcrossCall h fs xs
def unwrapCall (md step : Arg Rat) (xs : List Rat) := C20.unwrapCall fl piQ md step xs
/-- the documented table at its values (what the structural check compares with the source) -/
def documentedValues := documented.map (Sig.values piQ)

end R

/- Float twin (`math.pi` itself; `Float.floor`) -/
namespace F

instance : NatCast Float := ⟨Float.ofNat⟩
instance : IntCast Float := ⟨Float.ofInt⟩

def unwrapCall (md step : Arg Float) (xs : List Float) := C20.unwrapCall Float.floor floatPi md step xs
def clipCall (low high : Arg Float) (xs : List Float) := C20.clipCall low high xs
def envelopeAbs (b a xs : List Float) := C20.envelopeAbs b a xs
def envelopeSquared (b a xs : List Float) := C20.envelopeSquared b a xs
/-- the envelope call at `Float`: design `ALV.C13.lowpassPole`, `Float.sqrt`, `math.pi` -/
def envelopePoleCall (s : Option EnvStrategy) (cutoff : Option Float) (xs : List Float) :=
  C20.envelopePoleCall s cutoff xs
def envelopeVarCall (s : Option EnvStrategy) (cs xs : List Float) := C20.envelopeVarCall s cs xs

end F

end ALV.C20
