/-
  C08 — the CALL of `blocks` / `Stream.blocks` / `zero_pad` as Python makes it (code shaped, core Lean only):

  * `bind`: Python's binding of positional and keyword arguments to the parameters of a plain
    `def f(p0, p1=…, …)`; `None` = TypeError when the call is made (nothing is constructed).
    `Stream.blocks(self, *args, **kwargs)` = `blocks(iter(self), *args, **kwargs)`.
  * `Num`: the SPELLING of a numeric parameter (int / bool, float, Fraction, None, other object).
  * `blocksCall`: the body of `blocks` for any spelling of `size` / `hop`, with the defaulting rule
    (`hop=None` means `size`; omitted `padval` means the float zero) INSIDE the model:
      res = deque(maxlen=size)      size None ok here, negative: ValueError, > 2^63-1: OverflowError,
                                    float / Fraction / other: TypeError
      last_idx = size - 1           size None: TypeError
      if hop is None: hop = size
      reinit_idx = size - hop       hop not a number: TypeError
    all of it when the FIRST block is asked for (generator), before the source is touched; then the
    loop `gstep` with an index of the type Python computes with (`Int` for an int hop, exact `Rat` for
    a float / Fraction hop) that remembers whether it is still a Python int: the final
    `xrange(idx, size)` refuses (TypeError) an index that has been re-initialised from a float /
    Fraction `size - hop`.
  * `zeroPadCall`: `zero_pad` with `xrange(left)` / `xrange(right)` for any spelling (negative: no
    padding; float / Fraction / None / other: TypeError at that moment: `left` before anything,
    `right` after the whole input).
  * `DqOp`: caller operations on the yielded `deque(maxlen=size)` that CHANGE its length (append,
    appendleft, pop, popleft, clear, extend, del, insert) and the ones that may FAIL (IndexError:
    pop from an empty deque, index out of range, insert into a full deque), with indices of either sign: a failed operation
    leaves the deque as it was and the history goes on.
-/
import ALV.Model.C08
import ALV.Model.C08Hist
namespace ALV.C08
variable {α : Type}

/-! ### binding -/

/-- Python binding of `pos` / `kw` to the parameters `names` (the first `nreq` have no default).
`none` = TypeError (too many positional arguments, unexpected keyword, multiple values for a
parameter, missing required argument).  A bound slot `none` = parameter left to its default. -/
def bind {V : Type} (names : List String) (nreq : Nat) (pos : List V) (kw : List (String × V)) :
    Option (List (Option V)) :=
  if names.length < pos.length then none
  else if kw.any (fun p => !names.contains p.1) then none
  else if kw.any (fun p => names.idxOf p.1 < pos.length) then none
  else
    let slots := (List.range names.length).map fun i =>
      if i < pos.length then pos[i]? else kw.lookup (names.getD i "")
    if (slots.take nreq).any Option.isNone then none else some slots

def blocksParams : List String := ["seq", "size", "hop", "padval"]
def zeroPadParams : List String := ["seq", "left", "right", "zero"]

/-! ### spellings -/

/-- the floats that are not finite -/
inductive NonFin where
  | pinf | ninf | nan
  deriving DecidableEq, Repr

/-- a parameter value as the arithmetic of the code sees it -/
inductive Num where
  | int (i : Int)      -- int, bool (True = 1, False = 0), int subclasses
  | flt (q : Rat)      -- finite float of exactly this value
  | frac (q : Rat)     -- fractions.Fraction
  | none               -- None
  | other              -- str / any object without arithmetic
  | fnf (k : NonFin)   -- float('inf'), float('-inf'), float('nan')
  deriving DecidableEq

inductive PyErr where
  | typeError | valueError | overflowError
  deriving DecidableEq, Repr

/-- how a run of the generator ends -/
inductive CallEnd where
  | stop                -- clean StopIteration
  | srcFail             -- the source's own exception comes out
  | err (e : PyErr)     -- the code raises
  deriving DecidableEq, Repr

structure CallRun (α : Type) where
  events : List (Nat × List α)   -- (items pulled when handed out, block)
  ending : CallEnd
  pulled : Nat                   -- items pulled from the source when the run ended

/-- `Py_ssize_t` maximum: `deque(maxlen=…)` refuses more -/
def maxSsize : Int := 9223372036854775807

/-- `res = deque(maxlen=size)`; `last_idx = size - 1` -/
def initSize : Num → Except PyErr Nat
  | .int i => if i < 0 then .error .valueError else if maxSsize < i then .error .overflowError else .ok i.toNat
  | _ => .error .typeError

/-- the hop the loops compute with -/
inductive HopV where
  | int (h : Int)
  | rat (q : Rat)      -- float or Fraction: `size - hop` has no `__index__`
  | nonfin (k : NonFin)

/-- `if hop is None: hop = size`; `reinit_idx = size - hop` -/
def initHop (size : Nat) : Num → Except PyErr HopV
  | .none => .ok (.int size)
  | .int h => .ok (.int h)
  | .flt q => .ok (.rat q)
  | .frac q => .ok (.rat q)
  | .fnf k => .ok (.nonfin k)
  | .other => .error .typeError

/-! ### index arithmetic with a non-finite float in play

IEEE-754 on the values that occur when `hop` is `inf` / `-inf` / `nan` and `size` is an int: the finite part is
exact (small whole numbers), `±inf + 1 = ±inf`, `nan` propagates, every comparison with `nan` is false. -/

inductive XRat where
  | fin (q : Rat)
  | pinf | ninf | nan
  deriving DecidableEq

def XRat.add : XRat → XRat → XRat
  | .fin a, .fin b => .fin (a + b)
  | .nan, _ => .nan
  | _, .nan => .nan
  | .pinf, .ninf => .nan
  | .ninf, .pinf => .nan
  | .pinf, _ => .pinf
  | _, .pinf => .pinf
  | .ninf, _ => .ninf
  | _, .ninf => .ninf

def XRat.ltb : XRat → XRat → Bool
  | .fin a, .fin b => decide (a < b)
  | .ninf, .fin _ => true
  | .ninf, .pinf => true
  | .fin _, .pinf => true
  | _, _ => false

instance : Add XRat := ⟨XRat.add⟩
instance : LT XRat := ⟨fun a b => XRat.ltb a b = true⟩
instance : DecidableRel (fun a b : XRat => a < b) := fun a b => inferInstanceAs (Decidable (XRat.ltb a b = true))
instance : OfNat XRat 0 := ⟨.fin 0⟩
instance : OfNat XRat 1 := ⟨.fin 1⟩

/-- `size - hop` for a non-finite `hop` -/
def XRat.sizeMinus : NonFin → XRat
  | .pinf => .ninf
  | .ninf => .pinf
  | .nan => .nan

/-- the int an index stands for (only asked of indices that are still Python ints) -/
def XRat.toN : XRat → Nat
  | .fin q => q.floor.toNat
  | _ => 0

/-! ### the loops over an index type -/
section Generic
variable {ι : Type} [Add ι] [LT ι] [DecidableEq ι] [DecidableRel (fun a b : ι => a < b)]
  [OfNat ι 0] [OfNat ι 1]

structure GState (ι α : Type) where
  res : List α
  idx : ι
  isInt : Bool        -- `idx` is still a Python int

/-- one iteration (both loops, as `bstep`) -/
def gstep (size : Nat) (last reinit : ι) (rInt : Bool) (s : GState ι α) (x : α) :
    GState ι α × Option (List α) :=
  if s.idx < 0 then (⟨s.res, s.idx + 1, s.isInt⟩, none)
  else
    let res := dqPush size s.res x
    if s.idx = last then (⟨res, reinit, rInt⟩, some res)
    else (⟨res, s.idx + 1, s.isInt⟩, none)

def gloopEv (size : Nat) (last reinit : ι) (rInt : Bool) :
    GState ι α → Nat → List α → List (Nat × List α) × GState ι α
  | s, _, [] => ([], s)
  | s, n, x :: xs =>
    let r := gstep size last reinit rInt s x
    let t := gloopEv size last reinit rInt r.1 (n + 1) xs
    ((r.2.toList.map fun b => (n + 1, b)) ++ t.1, t.2)

inductive GTail (α : Type) where
  | nothing
  | block (b : List α)
  | refuse             -- `xrange(idx, size)`: idx is not an int

/-- `if idx > max(size-hop, 0): for _ in xrange(idx, size): res.append(padval); yield res` -/
def gtail (size : Nat) (reinit : ι) (toN : ι → Nat) (pad : α) (s : GState ι α) : GTail α :=
  if reinit < s.idx ∧ 0 < s.idx then
    if s.isInt then .block (padTo size pad s.res (size - toN s.idx)) else .refuse
  else .nothing

def grun (size : Nat) (last reinit : ι) (rInt : Bool) (toN : ι → Nat) (pad : α) (xs : List α)
    (e : Ending) : CallRun α :=
  let t := gloopEv size last reinit rInt ⟨[], 0, true⟩ 0 xs
  match e with
  | .fail => ⟨t.1, .srcFail, xs.length⟩
  | .stop =>
    match gtail size reinit toN pad t.2 with
    | .nothing => ⟨t.1, .stop, xs.length⟩
    | .block b => ⟨t.1 ++ [(xs.length, b)], .stop, xs.length⟩
    | .refuse => ⟨t.1, .err .typeError, xs.length⟩

end Generic

/-- `blocks(seq, size, hop, padval)` consumed to its end; `padval = none`: omitted (default `dflt`,
the float zero); `iterable = false`: `seq` is not iterable; the source delivers `xs` then ends with `e`. -/
def blocksCall (dflt : α) (size hop : Num) (padval : Option α) (iterable : Bool) (xs : List α)
    (e : Ending) : CallRun α :=
  let pad := padval.getD dflt
  match initSize size with
  | .error er => ⟨[], .err er, 0⟩
  | .ok sz =>
    match initHop sz hop with
    | .error er => ⟨[], .err er, 0⟩
    | .ok hv =>
      if !iterable then ⟨[], .err .typeError, 0⟩
      else match hv with
        | .int h => grun sz ((sz : Int) - 1) ((sz : Int) - h) true Int.toNat pad xs e
        | .rat q => grun sz ((sz : Rat) - 1) ((sz : Rat) - q) false (fun r => r.floor.toNat) pad xs e
        | .nonfin k => grun sz (XRat.fin ((sz : Rat) - 1)) (XRat.sizeMinus k) false XRat.toN pad xs e

/-- the call as written: positional and keyword arguments (values of type `α`, read as numbers by
`asNum` and as the data argument by `asIter`); `none` = TypeError when the call is made. -/
def blocksApply (asNum : α → Num) (asIter : α → Bool) (dflt : α) (pos : List α)
    (kw : List (String × α)) (xs : List α) (e : Ending) : Option (CallRun α) :=
  match bind blocksParams 1 pos kw with
  | some [some seq, size, hop, padval] =>
    some (blocksCall dflt ((size.map asNum).getD .none) ((hop.map asNum).getD .none) padval
      (asIter seq) xs e)
  | _ => none

/-- `Stream.blocks(self, *args, **kwargs)`: `blocks(iter(self), *args, **kwargs)` -/
def streamBlocksApply (asNum : α → Num) (asIter : α → Bool) (dflt : α) (self : α) (args : List α)
    (kw : List (String × α)) (xs : List α) (e : Ending) : Option (CallRun α) :=
  blocksApply asNum asIter dflt (self :: args) kw xs e

/-! ### zero_pad -/

/-- `for unused in xrange(n)`: the number of turns, or TypeError -/
def rangeCount : Num → Except PyErr Nat
  | .int i => .ok i.toNat
  | _ => .error .typeError

structure ZRun (α : Type) where
  out : List (Nat × α)      -- (items pulled when it comes out, item)
  ending : CallEnd

/-- `zero_pad(seq, left, right, zero)`; `none` = omitted (defaults 0, 0, the float zero `dflt`) -/
def zeroPadCall (dflt : α) (left right : Option Num) (zero : Option α) (iterable : Bool)
    (xs : List α) (e : Ending) : ZRun α :=
  let z := zero.getD dflt
  match rangeCount (left.getD (.int 0)) with
  | .error er => ⟨[], .err er⟩
  | .ok l =>
    let pre := (List.replicate l z).map fun y => (0, y)
    if !iterable then ⟨pre, .err .typeError⟩
    else
      let mid := ((List.range xs.length).zip xs).map fun p => (p.1 + 1, p.2)
      match e with
      | .fail => ⟨pre ++ mid, .srcFail⟩
      | .stop =>
        match rangeCount (right.getD (.int 0)) with
        | .error er => ⟨pre ++ mid, .err er⟩
        | .ok r => ⟨pre ++ mid ++ (List.replicate r z).map (fun y => (xs.length, y)), .stop⟩

def zeroPadApply (asNum : α → Num) (asIter : α → Bool) (dflt : α) (pos : List α)
    (kw : List (String × α)) (xs : List α) (e : Ending) : Option (ZRun α) :=
  match bind zeroPadParams 1 pos kw with
  | some [some seq, left, right, zero] =>
    some (zeroPadCall dflt (left.map asNum) (right.map asNum) zero (asIter seq) xs e)
  | _ => none

/-! ### caller operations on the yielded `deque(maxlen=size)`, length changing and failing -/

inductive DqOp (α : Type) where
  | keep (e : Edit α)          -- blk[i] = v / rotate / reverse
  | append (v : α)
  | appendleft (v : α)
  | pop
  | popleft
  | clear
  | extend (vs : List α)
  | del (i : Nat)              -- del blk[i]
  | insert (i : Nat) (v : α)   -- blk.insert(i, v)
  | setI (i : Int) (v : α)     -- blk[i] = v      with any int index (negative: from the end)
  | delI (i : Int)             -- del blk[i]      with any int index
  | insertI (i : Int) (v : α)  -- blk.insert(i, v) with any int index

/-- Python's reading of an index into a sequence of `len` items: `-len ≤ i < len`, a negative one counts from the end;
`none` = IndexError -/
def normIdx (i : Int) (len : Nat) : Option Nat :=
  if 0 ≤ i then (if i.toNat < len then some i.toNat else none)
  else if -(len : Int) ≤ i then some (i + len).toNat else none

/-- where `insert(i, v)` puts the item: a negative index counts from the end and is cut at 0 -/
def insPos (i : Int) (len : Nat) : Nat := if 0 ≤ i then i.toNat else (i + len).toNat

/-- `none` = the operation raises IndexError and leaves the deque as it was -/
def DqOp.apply (size : Nat) : DqOp α → List α → Option (List α)
  | .keep (.set i v), l => if i < l.length then some (l.set i v) else none
  | .keep e, l => some (e.apply l)
  | .append v, l => some (dqPush size l v)
  | .appendleft v, l => some ((v :: l).take size)
  | .pop, l => if l.isEmpty then none else some l.dropLast
  | .popleft, l => if l.isEmpty then none else some l.tail
  | .clear, _ => some []
  | .extend vs, l => some (vs.foldl (dqPush size) l)
  | .del i, l => if i < l.length then some (l.eraseIdx i) else none
  | .insert i v, l => if size ≤ l.length then none else some (l.take i ++ v :: l.drop i)
  | .setI i v, l => (normIdx i l.length).map fun k => l.set k v
  | .delI i, l => (normIdx i l.length).map fun k => l.eraseIdx k
  | .insertI i v, l =>
    if size ≤ l.length then none else some (l.take (insPos i l.length) ++ v :: l.drop (insPos i l.length))

/-- a sequence of operations; a failed one leaves no trace -/
def applyOps (size : Nat) (ops : List (DqOp α)) (l : List α) : List α :=
  ops.foldl (fun l o => (o.apply size l).getD l) l

/-- which operations of the sequence fail -/
def opsFailed (size : Nat) : List (DqOp α) → List α → List Bool
  | [], _ => []
  | o :: os, l =>
    match o.apply size l with
    | none => true :: opsFailed size os l
    | some l' => false :: opsFailed size os l'

/-- the failures the caller sees, block after block: replays `bloopMut` -/
def bloopMutFails (size hop : Nat) (ops : Nat → List (DqOp α)) :
    BState α → Nat → List α → List (List Bool)
  | _, _, [] => []
  | s, k, x :: xs =>
    let r := bstep size hop s x
    match r.2 with
    | none => bloopMutFails size hop ops r.1 k xs
    | some b => opsFailed size (ops k) b :: bloopMutFails size hop ops ⟨applyOps size (ops k) b, r.1.idx⟩ (k + 1) xs

end ALV.C08
