/-
  C06 — the vocabulary the translator `harness/props/c06_tr.py` writes `ALV/Gen/C06Src.lean` in
  (hand-written, executable, Mathlib-free).  One Lean name per Python construct the translated
  bodies of `Poly.__mul__`, `Poly.__truediv__` and the Stream-gain block of `LinearFilter.__call__`
  are made of; unlike `ALV.C06.Hub.thub` a hub here KNOWS HOW MANY COPIES it was allocated with:

    `thub(v, n)`                          `thubN v n g`    a number: itself, any number of uses; a Stream:
                                                           tee group `g` with copies `0 … n-1`
    `iter(hub)` for the i-th time          `hub i`          `none` = IndexError("no more copies left")
    `[(k, thub(v, n)) for k, v in
        iteritems(p._data)]`              `thubListN p n g`
    `for k1, v1 in A: for k2, v2 in B:`   `crossN A B key val`   pass (i1, i2) uses `v1` for the i2-th
                                                           and `v2` for the i1-th time
    `OrderedDict((key, val) for k, v in
        iteritems(p._data))`              `mapItemsN p hub key val`   item j uses the hub for the j-th time
    `k in d` / `d[k] op= v` / `d[k] = v`  `hasKey` / `augItem op` / `newItem`
    `Poly(d, zero=…)`                     `polyOf d`       zero-valued terms are dropped
    `Poly(x)` for a coefficient `x`       `polyOfScalar x`
    `p[k] = 0` / `p[k] = c` (c ≠ 0)       `delCoef p k` / `putCoef p k v`
    `s.copy()`                            `copyHC s g`     tee group `g`: `s` becomes copy 0, the result
                                                           is copy 1
-/
import ALV.Model.C06Hub

namespace ALV.C06.Hub

/-- all of them, or `none` as soon as one is `none` -/
def optAll {β : Type} : List (Option β) → Option (List β)
  | [] => some []
  | none :: _ => none
  | some x :: r => (optAll r).map (x :: ·)

section vocab
variable {α : Type} [Add α] [Sub α] [Mul α] [Div α] [OfNat α 0] [OfNat α 1] [DecidableEq α]

/-- a hub with a number of copies: use number `i` gives copy `i`, or `none` (IndexError) -/
abbrev HubN (α : Type) := Nat → Option (HC α)

/-- `thub(v, n)` -/
def thubN (v : HC α) (n g : Nat) : HubN α × Nat :=
  match v with
  | .c x => (fun _ => some (.c x), g)
  | .s e => (fun i => if i < n then some (.s (.tee g i e)) else none, g + 1)

/-- `[(k, thub(v, n)) for k, v in iteritems(p._data)]` -/
def thubListN : HPoly α → Nat → Nat → List (Int × HubN α) × Nat
  | [], _, g => ([], g)
  | (k, v) :: r, n, g =>
    let (h, g1) := thubN v n g
    let (hs, g2) := thubListN r n g1
    ((k, h) :: hs, g2)

/-- the double loop: the terms in the order they are produced -/
def crossN (A B : List (Int × HubN α)) (key : Int → Int → Int) (val : HC α → HC α → HC α) :
    Option (List (Int × HC α)) :=
  (optAll (A.zipIdx.map fun (kh1, i1) =>
    optAll (B.zipIdx.map fun (kh2, i2) =>
      match kh1.2 i2, kh2.2 i1 with
      | some v1, some v2 => some (key kh1.1 kh2.1, val v1 v2)
      | _, _ => none))).map List.flatten

/-- `OrderedDict((key k, val v hub) for k, v in iteritems(p._data))`: item `j` uses the hub for the
j-th time; the keys `key k` are distinct because `key` is one-to-one (the translator admits only
`k` and `k ± name`) -/
def mapItemsN (p : HPoly α) (h : HubN α) (key : Int → Int) (val : HC α → HC α → HC α) :
    Option (List (Int × HC α)) :=
  optAll (p.zipIdx.map fun (kv, j) => (h j).map fun c => (key kv.1, val kv.2 c))

def hasKey (d : HPoly α) (k : Int) : Bool := d.any (fun kv => kv.1 == k)

/-- `d[k] op= v` for a key that is there -/
def augItem (f : Op2) : HPoly α → Int → HC α → HPoly α
  | [], _, _ => []
  | (k', w) :: r, k, v => if k' = k then (k', HC.op f w v) :: r else (k', w) :: augItem f r k v

/-- `d[k] = v` for a key that is not there -/
def newItem (d : HPoly α) (k : Int) (v : HC α) : HPoly α := d ++ [(k, v)]

def polyOf (d : HPoly α) : HPoly α := d.filter (fun kv => !isZeroC kv.2)

def polyOfScalar (x : HC α) : HPoly α := polyOf [(0, x)]

/-- `p[k] = 0` -/
def delCoef (p : HPoly α) (k : Int) : HPoly α := p.filter (fun kv => !(kv.1 == k))

/-- `p[k] = v` for a non-zero `v`: in place when the key is there, else appended -/
def putCoef : HPoly α → Int → HC α → HPoly α
  | [], k, v => [(k, v)]
  | (k', w) :: r, k, v => if k' = k then (k', v) :: r else (k', w) :: putCoef r k v

/-- `s.copy()`: (what `s` is afterwards, the copy, next free group); a number has no `.copy` -/
def copyHC (s : HC α) (g : Nat) : Option (HC α × HC α × Nat) :=
  match s with
  | .c _ => none
  | .s e => some (.s (.tee g 0 e), .s (.tee g 1 e), g + 1)

end vocab

end ALV.C06.Hub
