/-
  C13 — Designed filters meet their documented gain, cut-off and pole contracts.

  Every theorem is about the generic definitions of `ALV/Model/C13.lean` instantiated at `ℝ`
  (the driver runs the same definitions at `Float` against the implementation), for ALL
  cut-offs / centre frequencies in (0, π), all bandwidths > 0, all delays ≥ 1.

  Observables (`ALV/Spec/C13.lean`): `dcGain`, `nyquistGain` (the transfer function at z⁻¹ = ±1),
  `magSq s ω = |H(e^{jω})|²`.
-/
import ALV.Lemmas.C13Shape
import ALV.Common.Audit

set_option linter.unusedSectionVars false
set_option linter.unusedSimpArgs false

namespace ALV.Props.C13
open ALV ALV.C13

/-! ### 1. lowpass / highpass: unit gain at DC resp. Nyquist (all 8 strategies) -/

/-- **C13.1a** every lowpass strategy has gain exactly 1 at DC, for every cut-off in (0, π). -/
theorem lowpass_dc_gain (st : Strategy) (c : ℝ) (h0 : 0 < c) (h1 : c < Real.pi) :
    dcGain (lowpass st c) = 1 := by
  obtain ⟨a, b, _⟩ := lowpassR_bounds st c h0 h1
  rw [lowpass_eq]
  cases st
  · exact onePoleLP_dc _ b.ne
  · exact oneZeroLP_dc _ a.ne'
  · exact onePoleLP_dc _ b.ne
  · exact oneZeroLP_dc _ a.ne'

/-- **C13.1b** every highpass strategy has gain exactly 1 at the Nyquist frequency. -/
theorem highpass_nyquist_gain (st : Strategy) (c : ℝ) (h0 : 0 < c) (h1 : c < Real.pi) :
    nyquistGain (highpass st c) = 1 := by
  obtain ⟨a, b, _⟩ := highpassR_bounds st c h0 h1
  rw [highpass_eq]
  cases st
  · exact onePoleHP_nyquist _ b.ne
  · exact oneZeroHP_nyquist _ a.ne'
  · exact onePoleHP_nyquist _ b.ne
  · exact oneZeroHP_nyquist _ a.ne'

/-! ### 2. `pole` and `z`: half power at the requested cut-off -/

/-- **C13.2a** `lowpass.pole`: `|H(e^{jω_c})|² = 1/2`. -/
theorem lowpass_pole_half_power (c : ℝ) (h0 : 0 < c) (h1 : c < Real.pi) :
    magSq (lowpass .pole c) c = 1 / 2 := by
  have hc := cos_lt_one_of_mem c h0 h1
  have h := poleR_half (2 - Real.cos c) (by linarith)
  rw [lowpass_eq]; simp only [lowpassR, onePoleLP_magSq]
  rw [show (2 : ℝ) - (2 - Real.cos c) = Real.cos c by ring] at h
  exact h

/-- **C13.2b** `highpass.pole`: `|H(e^{jω_c})|² = 1/2`. -/
theorem highpass_pole_half_power (c : ℝ) (h0 : 0 < c) (h1 : c < Real.pi) :
    magSq (highpass .pole c) c = 1 / 2 := by
  have hc := neg_one_lt_cos_of_mem c h0 h1
  have h := poleR_half (2 + Real.cos c) (by linarith)
  rw [highpass_eq]; simp only [highpassR, onePoleHP_magSq]
  rw [show (1 : ℝ) - 2 * poleR (2 + Real.cos c) * (2 - (2 + Real.cos c)) + poleR (2 + Real.cos c) ^ 2
      = 1 + 2 * poleR (2 + Real.cos c) * Real.cos c + poleR (2 + Real.cos c) ^ 2 by ring] at h
  exact h

/-- **C13.2c** `lowpass.z`: `|H(e^{jω_c})|² = 1/2` (also at `ω_c = π/2`, the `denR = 1` branch). -/
theorem lowpass_z_half_power (c : ℝ) (h0 : 0 < c) (h1 : c < Real.pi) :
    magSq (lowpass .z c) c = 1 / 2 := by
  rw [lowpass_eq]; simp only [lowpassR, oneZeroLP_magSq]
  exact zR_half_lp c h0 h1

/-- **C13.2d** `highpass.z`: `|H(e^{jω_c})|² = 1/2`. -/
theorem highpass_z_half_power (c : ℝ) (h0 : 0 < c) (h1 : c < Real.pi) :
    magSq (highpass .z c) c = 1 / 2 := by
  rw [highpass_eq]; simp only [highpassR, oneZeroHP_magSq]
  exact zR_half_hp c h0 h1

/-! ### 3. monotone magnitude response on [0, π] (all 8 strategies) and the peak -/

/-- **C13.3a** the squared magnitude (hence the magnitude) of every lowpass design is strictly
decreasing on [0, π]. -/
theorem lowpass_monotone (st : Strategy) (c : ℝ) (h0 : 0 < c) (h1 : c < Real.pi) :
    StrictAntiOn (fun ω => magSq (lowpass st c) ω) (Set.Icc 0 Real.pi) := by
  obtain ⟨a, b, p⟩ := lowpassR_bounds st c h0 h1
  rw [lowpass_eq]
  cases st
  · exact onePoleLP_strictAnti _ (p (by decide)) b
  · exact oneZeroLP_strictAnti _ a b
  · exact onePoleLP_strictAnti _ (p (by decide)) b
  · exact oneZeroLP_strictAnti _ a b

/-- **C13.3b** … of every highpass design strictly increasing on [0, π]. -/
theorem highpass_monotone (st : Strategy) (c : ℝ) (h0 : 0 < c) (h1 : c < Real.pi) :
    StrictMonoOn (fun ω => magSq (highpass st c) ω) (Set.Icc 0 Real.pi) := by
  obtain ⟨a, b, p⟩ := highpassR_bounds st c h0 h1
  rw [highpass_eq]
  cases st
  · exact onePoleHP_strictMono _ (p (by decide)) b
  · exact oneZeroHP_strictMono _ a b
  · exact onePoleHP_strictMono _ (p (by decide)) b
  · exact oneZeroHP_strictMono _ a b

/-- **C13.3c** "gain is normalised to have peak 0 dB": `|H(e^{jω})|² ≤ 1` at every real ω. -/
theorem lowpass_peak (st : Strategy) (c : ℝ) (h0 : 0 < c) (h1 : c < Real.pi) (ω : ℝ) :
    magSq (lowpass st c) ω ≤ 1 := by
  obtain ⟨a, b, p⟩ := lowpassR_bounds st c h0 h1
  rw [lowpass_eq]
  cases st
  · exact onePoleLP_le_one _ _ (p (by decide)).le b
  · exact oneZeroLP_le_one _ _ a b
  · exact onePoleLP_le_one _ _ (p (by decide)).le b
  · exact oneZeroLP_le_one _ _ a b

theorem highpass_peak (st : Strategy) (c : ℝ) (h0 : 0 < c) (h1 : c < Real.pi) (ω : ℝ) :
    magSq (highpass st c) ω ≤ 1 := by
  obtain ⟨a, b, p⟩ := highpassR_bounds st c h0 h1
  rw [highpass_eq]
  cases st
  · exact onePoleHP_le_one _ _ (p (by decide)).le b
  · exact oneZeroHP_le_one _ _ a b
  · exact onePoleHP_le_one _ _ (p (by decide)).le b
  · exact oneZeroHP_le_one _ _ a b

/-! ### non-vacuity -/
example : (0 : ℝ) < 1 ∧ (1 : ℝ) < Real.pi := ⟨one_pos, by linarith [Real.two_le_pi]⟩

end ALV.Props.C13

#write_audit "C13"
