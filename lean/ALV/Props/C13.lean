/-
  C13 — Designed filters meet their documented gain, cut-off and pole contracts.

  Every theorem is about the generic definitions of `ALV/Model/C13.lean` instantiated at `ℝ`
  (the driver runs the same definitions at `Float` against the implementation), for ALL
  cut-offs / centre frequencies in (0, π), all bandwidths > 0, all delays ≥ 1.

  Observables (`ALV/Spec/C13.lean`): `dcGain`, `nyquistGain` (the transfer function at z⁻¹ = ±1),
  `magSq s ω = |H(e^{jω})|²`.
-/
import ALV.Lemmas.C13Shape
import ALV.Lemmas.C13Poles1
import ALV.Lemmas.C13Res
import ALV.Lemmas.C13ResRegion
import ALV.Lemmas.C13Gamma
import ALV.Lemmas.C13Euler
import ALV.Lemmas.C13Comb
import ALV.Lemmas.C13Contract
import ALV.Lemmas.C13Hist
import ALV.Lemmas.C13Call
import ALV.Lemmas.C13Thub
import ALV.Lemmas.C13Src
import Mathlib.Analysis.SpecialFunctions.Trigonometric.Inverse
import Mathlib.Analysis.SpecialFunctions.Trigonometric.Bounds
import ALV.Common.Audit

set_option linter.unusedSectionVars false
set_option linter.unusedSimpArgs false

namespace ALV.Props.C13
open ALV ALV.C13 Complex

/-! ### 1. lowpass / highpass: unit gain at DC resp. Nyquist (all 8 strategies) -/

/-- **C13.1a** every lowpass strategy has gain exactly 1 at DC, for every cut-off in (0, π). -/
theorem lowpass_dc_gain (st : Strategy) (c : ℝ) (h0 : 0 < c) (h1 : c < Real.pi) :
    dcGain (lowpass st c) = 1 := by
  obtain ⟨a, b, _⟩ := lowpassR_bounds st c h0 h1
  rw [lowpass_eq]
  cases st
  · exact onePoleLP_dc _ b.ne
  · exact oneZeroLP_dc _ a.ne'
  · exact onePoleLP_dc _ b.ne
  · exact oneZeroLP_dc _ a.ne'

/-- **C13.1b** every highpass strategy has gain exactly 1 at the Nyquist frequency. -/
theorem highpass_nyquist_gain (st : Strategy) (c : ℝ) (h0 : 0 < c) (h1 : c < Real.pi) :
    nyquistGain (highpass st c) = 1 := by
  obtain ⟨a, b, _⟩ := highpassR_bounds st c h0 h1
  rw [highpass_eq]
  cases st
  · exact onePoleHP_nyquist _ b.ne
  · exact oneZeroHP_nyquist _ a.ne'
  · exact onePoleHP_nyquist _ b.ne
  · exact oneZeroHP_nyquist _ a.ne'

/-! ### 2. `pole` and `z`: half power at the requested cut-off -/

/-- **C13.2a** `lowpass.pole`: `|H(e^{jω_c})|² = 1/2`. -/
theorem lowpass_pole_half_power (c : ℝ) (h0 : 0 < c) (h1 : c < Real.pi) :
    magSq (lowpass .pole c) c = 1 / 2 := by
  have hc := cos_lt_one_of_mem c h0 h1
  have h := poleR_half (2 - Real.cos c) (by linarith)
  rw [lowpass_eq]; simp only [lowpassR, onePoleLP_magSq]
  rw [show (2 : ℝ) - (2 - Real.cos c) = Real.cos c by ring] at h
  exact h

/-- **C13.2b** `highpass.pole`: `|H(e^{jω_c})|² = 1/2`. -/
theorem highpass_pole_half_power (c : ℝ) (h0 : 0 < c) (h1 : c < Real.pi) :
    magSq (highpass .pole c) c = 1 / 2 := by
  have hc := neg_one_lt_cos_of_mem c h0 h1
  have h := poleR_half (2 + Real.cos c) (by linarith)
  rw [highpass_eq]; simp only [highpassR, onePoleHP_magSq]
  rw [show (1 : ℝ) - 2 * poleR (2 + Real.cos c) * (2 - (2 + Real.cos c)) + poleR (2 + Real.cos c) ^ 2
      = 1 + 2 * poleR (2 + Real.cos c) * Real.cos c + poleR (2 + Real.cos c) ^ 2 by ring] at h
  exact h

/-- **C13.2c** `lowpass.z`: `|H(e^{jω_c})|² = 1/2` (also at `ω_c = π/2`, the `denR = 1` branch). -/
theorem lowpass_z_half_power (c : ℝ) (h0 : 0 < c) (h1 : c < Real.pi) :
    magSq (lowpass .z c) c = 1 / 2 := by
  rw [lowpass_eq]; simp only [lowpassR, oneZeroLP_magSq]
  exact zR_half_lp c h0 h1

/-- **C13.2d** `highpass.z`: `|H(e^{jω_c})|² = 1/2`. -/
theorem highpass_z_half_power (c : ℝ) (h0 : 0 < c) (h1 : c < Real.pi) :
    magSq (highpass .z c) c = 1 / 2 := by
  rw [highpass_eq]; simp only [highpassR, oneZeroHP_magSq]
  exact zR_half_hp c h0 h1

/-! ### 3. monotone magnitude response on [0, π] (all 8 strategies) and the peak -/

/-- **C13.3a** the squared magnitude (hence the magnitude) of every lowpass design is strictly
decreasing on [0, π]. -/
theorem lowpass_monotone (st : Strategy) (c : ℝ) (h0 : 0 < c) (h1 : c < Real.pi) :
    StrictAntiOn (fun ω => magSq (lowpass st c) ω) (Set.Icc 0 Real.pi) := by
  obtain ⟨a, b, p⟩ := lowpassR_bounds st c h0 h1
  rw [lowpass_eq]
  cases st
  · exact onePoleLP_strictAnti _ (p (by decide)) b
  · exact oneZeroLP_strictAnti _ a b
  · exact onePoleLP_strictAnti _ (p (by decide)) b
  · exact oneZeroLP_strictAnti _ a b

/-- **C13.3b** … of every highpass design strictly increasing on [0, π]. -/
theorem highpass_monotone (st : Strategy) (c : ℝ) (h0 : 0 < c) (h1 : c < Real.pi) :
    StrictMonoOn (fun ω => magSq (highpass st c) ω) (Set.Icc 0 Real.pi) := by
  obtain ⟨a, b, p⟩ := highpassR_bounds st c h0 h1
  rw [highpass_eq]
  cases st
  · exact onePoleHP_strictMono _ (p (by decide)) b
  · exact oneZeroHP_strictMono _ a b
  · exact onePoleHP_strictMono _ (p (by decide)) b
  · exact oneZeroHP_strictMono _ a b

/-- **C13.3c** "gain is normalised to have peak 0 dB": `|H(e^{jω})|² ≤ 1` at every real ω. -/
theorem lowpass_peak (st : Strategy) (c : ℝ) (h0 : 0 < c) (h1 : c < Real.pi) (ω : ℝ) :
    magSq (lowpass st c) ω ≤ 1 := by
  obtain ⟨a, b, p⟩ := lowpassR_bounds st c h0 h1
  rw [lowpass_eq]
  cases st
  · exact onePoleLP_le_one _ _ (p (by decide)).le b
  · exact oneZeroLP_le_one _ _ a b
  · exact onePoleLP_le_one _ _ (p (by decide)).le b
  · exact oneZeroLP_le_one _ _ a b

theorem highpass_peak (st : Strategy) (c : ℝ) (h0 : 0 < c) (h1 : c < Real.pi) (ω : ℝ) :
    magSq (highpass st c) ω ≤ 1 := by
  obtain ⟨a, b, p⟩ := highpassR_bounds st c h0 h1
  rw [highpass_eq]
  cases st
  · exact onePoleHP_le_one _ _ (p (by decide)).le b
  · exact oneZeroHP_le_one _ _ a b
  · exact onePoleHP_le_one _ _ (p (by decide)).le b
  · exact oneZeroHP_le_one _ _ a b

/-! ### 4. poles of the lowpass / highpass designs -/

/-- **C13.4a** every lowpass design has exactly one pole candidate, the real number
`lowpassPoleAt st c` (`R` resp. `-R`), and it lies strictly inside the unit circle. -/
theorem lowpass_pole_inside (st : Strategy) (c : ℝ) (h0 : 0 < c) (h1 : c < Real.pi) (p : ℂ)
    (hp : IsPole (lowpass st c) p) : p = ((lowpassPoleAt st c : ℝ) : ℂ) ∧ ‖p‖ < 1 := by
  obtain ⟨_, h⟩ := (lowpass_isPole_iff st c p).1 hp
  refine ⟨h, ?_⟩
  rw [h, Complex.norm_real, Real.norm_eq_abs]
  exact lowpassPoleAt_abs st c h0 h1

theorem highpass_pole_inside (st : Strategy) (c : ℝ) (h0 : 0 < c) (h1 : c < Real.pi) (p : ℂ)
    (hp : IsPole (highpass st c) p) : p = ((highpassPoleAt st c : ℝ) : ℂ) ∧ ‖p‖ < 1 := by
  obtain ⟨_, h⟩ := (highpass_isPole_iff st c p).1 hp
  refine ⟨h, ?_⟩
  rw [h, Complex.norm_real, Real.norm_eq_abs]
  exact highpassPoleAt_abs st c h0 h1

/-- **C13.4b** `pole` strategies: the pole is `R = x - sqrt(x² - 1)` itself (`x = 2 ∓ cos ω_c`), it
is a pole indeed, and `0 < R < 1`. -/
theorem lowpass_pole_radius (c : ℝ) (h0 : 0 < c) (h1 : c < Real.pi) :
    IsPole (lowpass .pole c) ((poleR (2 - Real.cos c) : ℝ) : ℂ)
      ∧ 0 < poleR (2 - Real.cos c) ∧ poleR (2 - Real.cos c) < 1 := by
  obtain ⟨_, b, p⟩ := lowpassR_bounds .pole c h0 h1
  have hp := p (by decide)
  simp only [lowpassR] at b hp
  refine ⟨(lowpass_isPole_iff .pole c _).2 ⟨?_, rfl⟩, hp, b⟩
  exact_mod_cast hp.ne'

theorem highpass_pole_radius (c : ℝ) (h0 : 0 < c) (h1 : c < Real.pi) :
    IsPole (highpass .pole c) ((-poleR (2 + Real.cos c) : ℝ) : ℂ)
      ∧ 0 < poleR (2 + Real.cos c) ∧ poleR (2 + Real.cos c) < 1 := by
  obtain ⟨_, b, p⟩ := highpassR_bounds .pole c h0 h1
  have hp := p (by decide)
  simp only [highpassR] at b hp
  refine ⟨(highpass_isPole_iff .pole c _).2 ⟨?_, rfl⟩, hp, b⟩
  have : -poleR (2 + Real.cos c) ≠ 0 := by linarith
  exact_mod_cast this

/-- **C13.4c** matched-Z designs: pole radius `e^{-ω_c}` (`lowpass.pole_exp`, `highpass.z_exp`)
resp. `e^{ω_c - π}` (`highpass.pole_exp`, `lowpass.z_exp`), for every cut-off. -/
theorem exp_pole_radius (c : ℝ) (p : ℂ) :
    (IsPole (lowpass .poleExp c) p → p = ((Real.exp (-c) : ℝ) : ℂ) ∧ ‖p‖ = Real.exp (-c)) ∧
    (IsPole (highpass .zExp c) p → p = ((Real.exp (-c) : ℝ) : ℂ) ∧ ‖p‖ = Real.exp (-c)) ∧
    (IsPole (highpass .poleExp c) p →
        p = ((-Real.exp (c - Real.pi) : ℝ) : ℂ) ∧ ‖p‖ = Real.exp (c - Real.pi)) ∧
    (IsPole (lowpass .zExp c) p →
        p = ((-Real.exp (c - Real.pi) : ℝ) : ℂ) ∧ ‖p‖ = Real.exp (c - Real.pi)) := by
  refine ⟨fun hp => ?_, fun hp => ?_, fun hp => ?_, fun hp => ?_⟩
  · obtain ⟨_, h⟩ := (lowpass_isPole_iff _ c p).1 hp
    simp only [lowpassPoleAt, lowpassR] at h
    exact ⟨h, by rw [h, Complex.norm_real, Real.norm_eq_abs, abs_of_pos (Real.exp_pos _)]⟩
  · obtain ⟨_, h⟩ := (highpass_isPole_iff _ c p).1 hp
    simp only [highpassPoleAt, highpassR] at h
    exact ⟨h, by rw [h, Complex.norm_real, Real.norm_eq_abs, abs_of_pos (Real.exp_pos _)]⟩
  · obtain ⟨_, h⟩ := (highpass_isPole_iff _ c p).1 hp
    simp only [highpassPoleAt, highpassR] at h
    exact ⟨h, by rw [h, Complex.norm_real, Real.norm_eq_abs, abs_neg, abs_of_pos (Real.exp_pos _)]⟩
  · obtain ⟨_, h⟩ := (lowpass_isPole_iff _ c p).1 hp
    simp only [lowpassPoleAt, lowpassR] at h
    exact ⟨h, by rw [h, Complex.norm_real, Real.norm_eq_abs, abs_neg, abs_of_pos (Real.exp_pos _)]⟩

/-! ### 5. resonators -/

/-- **C13.5a** `poles_exp` and `z_exp`: unit gain at the requested resonant frequency, for every
frequency in (0, π) and every bandwidth > 0. -/
theorem resonator_unit_gain (f bw : ℝ) (h0 : 0 < f) (h1 : f < Real.pi) (hbw : 0 < bw) :
    magSq (resonator .polesExp f bw) f = 1 ∧ magSq (resonator .zExp f bw) f = 1 := by
  have hR0 := resR_pos bw
  have hR1 := resR_lt_one bw hbw
  have hf := cos_sq_lt_one_of_mem f h0 h1
  have hR2 : Real.exp (-(bw / 2)) ^ 2 < 1 := by nlinarith
  constructor
  · simp only [resonator, resonatorPolesExp_eq]
    have hct := ctPoles_sq_lt_one f _ hR0 hf
    have hsq : 0 ≤ 1 - ctPoles f (Real.exp (-(bw / 2))) ^ 2 := by linarith
    apply allPole_unit
    · rw [mul_pow, Real.sq_sqrt hsq]
    · apply mul_ne_zero
      · nlinarith
      · exact (Real.sqrt_pos.2 (by linarith)).ne'
    · rw [ctPoles_mul]
  · simp only [resonator, resonatorZExp_eq]
    apply twoZero_unit _ _ _ hR2.ne hf.ne
    rw [ctZ_mul _ _ hR0.ne']

/-- **C13.5b** the `freq_*` variants (`f` = pole angle): unit gain at the resonant frequency, i.e.
at every ω with `cos ω = cos f · (1+R²)/(2R)` (`freq_poles_exp`) resp. `cos ω = cos f · 2R/(1+R²)`
(`freq_z_exp`), `R = e^{-bw/2}`. -/
theorem resonator_freq_unit_gain (f bw ω : ℝ) (h0 : 0 < f) (h1 : f < Real.pi) (hbw : 0 < bw) :
    (2 * Real.exp (-(bw / 2)) * Real.cos ω = (1 + Real.exp (-(bw / 2)) ^ 2) * Real.cos f →
        magSq (resonator .freqPolesExp f bw) ω = 1) ∧
    ((1 + Real.exp (-(bw / 2)) ^ 2) * Real.cos ω = 2 * Real.exp (-(bw / 2)) * Real.cos f →
        magSq (resonator .freqZExp f bw) ω = 1) := by
  have hR0 := resR_pos bw
  have hR1 := resR_lt_one bw hbw
  have hf := cos_sq_lt_one_of_mem f h0 h1
  have hs := Real.sin_pos_of_pos_of_lt_pi h0 h1
  have hR2 : Real.exp (-(bw / 2)) ^ 2 < 1 := by nlinarith
  constructor
  · intro hω
    simp only [resonator, resonatorFreqPolesExp_eq]
    apply allPole_unit _ _ _ _ _ _ hω
    · rw [mul_pow]
      have := Real.sin_sq_add_cos_sq f
      congr 1; linarith
    · apply mul_ne_zero
      · nlinarith
      · exact hs.ne'
  · intro hω
    simp only [resonator, resonatorFreqZExp_eq]
    apply twoZero_unit _ _ _ hR2.ne _ hω
    -- |cos ω| = 2R|cos f|/(1+R²) < 1
    intro hone
    have hd : 0 < 1 + Real.exp (-(bw / 2)) ^ 2 := by positivity
    have h4 : (2 * Real.exp (-(bw / 2))) ^ 2 ≤ (1 + Real.exp (-(bw / 2)) ^ 2) ^ 2 := by
      nlinarith [sq_nonneg (1 - Real.exp (-(bw / 2)) ^ 2)]
    have hsq : ((1 + Real.exp (-(bw / 2)) ^ 2) * Real.cos ω) ^ 2
        = (2 * Real.exp (-(bw / 2)) * Real.cos f) ^ 2 := by rw [hω]
    rw [mul_pow, hone, mul_one, mul_pow] at hsq
    have hpos : 0 < (2 * Real.exp (-(bw / 2))) ^ 2 := by positivity
    nlinarith [mul_lt_mul_of_pos_left hf hpos]

/-- **C13.5c** "gain is normalised to have peak 0 dB": all four strategies, every ω. -/
theorem resonator_peak (st : ResStrategy) (f bw ω : ℝ) : magSq (resonator st f bw) ω ≤ 1 := by
  cases st
  · simp only [resonator, resonatorPolesExp_eq]
    by_cases hct : ctPoles f (Real.exp (-(bw / 2))) ^ 2 ≤ 1
    · apply allPole_le_one
      rw [mul_pow, Real.sq_sqrt (by linarith)]
    · -- outside the property's range (cannot happen for R > 0): sqrt of a negative number is 0
      push Not at hct
      rw [Real.sqrt_eq_zero_of_nonpos (by linarith), mul_zero, allPole_magSq]
      simp
  · simp only [resonator, resonatorFreqPolesExp_eq]
    apply allPole_le_one
    rw [mul_pow]
    have := Real.sin_sq_add_cos_sq f
    congr 1; linarith
  · simp only [resonator, resonatorZExp_eq]; exact twoZero_le_one _ _ _
  · simp only [resonator, resonatorFreqZExp_eq]; exact twoZero_le_one _ _ _

/-- **C13.5d** every resonator is stable: all poles strictly inside the unit circle (also in the
real-pole regime of `z_exp`). -/
theorem resonator_stable (st : ResStrategy) (f bw : ℝ) (h0 : 0 < f) (h1 : f < Real.pi) (hbw : 0 < bw)
    (p : ℂ) (hp : IsPole (resonator st f bw) p) : ‖p‖ < 1 := by
  have hR0 := resR_pos bw
  have hR1 := resR_lt_one bw hbw
  have hf := cos_sq_lt_one_of_mem f h0 h1
  cases st
  · simp only [resonator, resonatorPolesExp_eq] at hp
    exact res_stable _ _ _ hR0 hR1
      (abs_two_R_ct_lt _ _ hR0 hR1 (ctPoles_sq_lt_one f _ hR0 hf).le) p hp
  · simp only [resonator, resonatorFreqPolesExp_eq] at hp
    exact res_stable _ _ _ hR0 hR1 (abs_two_R_ct_lt _ _ hR0 hR1 hf.le) p hp
  · simp only [resonator, resonatorZExp_eq] at hp
    exact res_stable _ _ _ hR0 hR1 (abs_two_R_ctZ_lt f _ hR0 hf) p hp
  · simp only [resonator, resonatorFreqZExp_eq] at hp
    exact res_stable _ _ _ hR0 hR1 (abs_two_R_ct_lt _ _ hR0 hR1 hf.le) p hp

/-- **C13.5e** pole radius `e^{-bw/2}`: `poles_exp`, `freq_poles_exp`, `freq_z_exp` for all
parameters; `z_exp` whenever its poles are not two distinct real numbers, i.e. whenever
`|cos f|·(1+R²) ≤ 2R`. -/
theorem resonator_pole_radius (f bw : ℝ) (h0 : 0 < f) (h1 : f < Real.pi) (p : ℂ) :
    (IsPole (resonator .polesExp f bw) p → ‖p‖ = Real.exp (-(bw / 2))) ∧
    (IsPole (resonator .freqPolesExp f bw) p → ‖p‖ = Real.exp (-(bw / 2))) ∧
    (IsPole (resonator .freqZExp f bw) p → ‖p‖ = Real.exp (-(bw / 2))) ∧
    (|Real.cos f| * (1 + Real.exp (-(bw / 2)) ^ 2) ≤ 2 * Real.exp (-(bw / 2)) →
      IsPole (resonator .zExp f bw) p → ‖p‖ = Real.exp (-(bw / 2))) := by
  have hR0 := resR_pos bw
  have hf := cos_sq_lt_one_of_mem f h0 h1
  refine ⟨fun hp => ?_, fun hp => ?_, fun hp => ?_, fun hc hp => ?_⟩
  · simp only [resonator, resonatorPolesExp_eq] at hp
    exact res_pole_radius _ _ _ hR0 (ctPoles_sq_lt_one f _ hR0 hf).le p hp
  · simp only [resonator, resonatorFreqPolesExp_eq] at hp
    exact res_pole_radius _ _ _ hR0 hf.le p hp
  · simp only [resonator, resonatorFreqZExp_eq] at hp
    exact res_pole_radius _ _ _ hR0 hf.le p hp
  · simp only [resonator, resonatorZExp_eq] at hp
    apply res_pole_radius _ _ _ hR0 _ p hp
    -- (2R·ct)² = ((1+R²) cos f)² ≤ (2R)²
    have hm := ctZ_mul f (Real.exp (-(bw / 2))) hR0.ne'
    have hsq : (|Real.cos f| * (1 + Real.exp (-(bw / 2)) ^ 2)) ^ 2 ≤ (2 * Real.exp (-(bw / 2))) ^ 2 :=
      pow_le_pow_left₀ (by positivity) hc 2
    rw [mul_pow, sq_abs] at hsq
    have h4 : 0 < (2 * Real.exp (-(bw / 2))) ^ 2 := by positivity
    have : (2 * Real.exp (-(bw / 2)) * ctZ f (Real.exp (-(bw / 2)))) ^ 2 ≤ (2 * Real.exp (-(bw / 2))) ^ 2 := by
      rw [hm]; nlinarith
    rw [mul_pow] at this
    by_contra hcon
    push Not at hcon
    nlinarith [mul_lt_mul_of_pos_left hcon h4]

/-- **C13.5f** (the recorded finding, on the model) outside that range `resonator.z_exp` does NOT
have pole radius `e^{-bw/2}`: for `cos f·(1+R²) > 2R` it has a real pole strictly between `R` and 1. -/
theorem resonator_z_exp_real_poles (f bw : ℝ)
    (hc : 2 * Real.exp (-(bw / 2)) < Real.cos f * (1 + Real.exp (-(bw / 2)) ^ 2)) :
    ∃ p : ℂ, IsPole (resonator .zExp f bw) p ∧ Real.exp (-(bw / 2)) < ‖p‖ := by
  have hR0 := resR_pos bw
  have hct : 1 < ctZ f (Real.exp (-(bw / 2))) := by
    unfold ctZ
    rw [lt_div_iff₀ (by positivity)]
    linarith
  obtain ⟨hp, hgt⟩ := res_real_pole [(1 - Real.exp (-(bw / 2)) ^ 2) * (1 / 2), 0,
    -((1 - Real.exp (-(bw / 2)) ^ 2) * (1 / 2))] _ _ hR0 hct
  have hp' : IsPole (resonator .zExp f bw)
      ((Real.exp (-(bw / 2)) * (ctZ f (Real.exp (-(bw / 2)))
        + Real.sqrt (ctZ f (Real.exp (-(bw / 2))) ^ 2 - 1)) : ℝ) : ℂ) := by
    simp only [resonator, resonatorZExp_eq]; exact hp
  refine ⟨_, hp', ?_⟩
  rw [Complex.norm_real, Real.norm_eq_abs, abs_of_pos (by linarith)]
  exact hgt

/-- **C13.5g** (why the finding has no repair inside the design family) in that regime NO filter
`g·(1 - z⁻²) / (1 - 2R·ct·z⁻¹ + R²z⁻²)` with poles of radius `R` (complex or double: `ct² ≤ 1`) and
the documented gain `g = (1-R²)/2` (peak 0 dB) has unit gain at `f`: radius `e^{-bw/2}` and "peak at
the requested frequency" exclude each other when `cos f·(1+R²) > 2R`. -/
theorem resonator_z_exp_no_repair (f R ct : ℝ) (hR0 : 0 < R) (hR1 : R < 1) (hct : ct ^ 2 ≤ 1)
    (h0 : 0 < f) (h1 : f < Real.pi) (hc : 2 * R < Real.cos f * (1 + R ^ 2)) :
    magSq (C13.mk [(1 - R ^ 2) * (1 / 2), 0, -((1 - R ^ 2) * (1 / 2))] [1, -(2 * R * ct), R ^ 2]) f < 1 := by
  rw [twoZero_magSq]
  have hf := cos_sq_lt_one_of_mem f h0 h1
  have hct1 : ct ≤ 1 := by
    by_contra hcon
    push Not at hcon
    nlinarith
  have hpos : 0 < (1 + R ^ 2) * Real.cos f - 2 * R * ct := by nlinarith [mul_nonneg hR0.le (by linarith : (0:ℝ) ≤ 1 - ct)]
  have h2 : 0 < (1 - R ^ 2) ^ 2 * (1 - Real.cos f ^ 2) := by
    have : 0 < 1 - R ^ 2 := by nlinarith
    have : 0 < 1 - Real.cos f ^ 2 := by linarith
    positivity
  unfold resDenSq
  rw [div_lt_one (by nlinarith [sq_nonneg ((1 + R ^ 2) * Real.cos f - 2 * R * ct)])]
  nlinarith [mul_pos hpos hpos]

/-- **C13.5h** (the finding, both signs of `cos f`, in terms of `freq` and `bandwidth`) whenever
`|cos f| > 1/cosh(bw/2)` — centre frequencies close to 0 OR to π, the closer the narrower the band —
`resonator.z_exp` has a REAL pole of modulus strictly larger than the documented `e^{-bw/2}`
(`(1+R²)/(2R) = cosh(bw/2)` for `R = e^{-bw/2}`). -/
theorem resonator_z_exp_wrong_radius (f bw : ℝ) (h : 1 / Real.cosh (bw / 2) < |Real.cos f|) :
    ∃ x : ℝ, IsPole (resonator .zExp f bw) (x : ℂ) ∧ Real.exp (-(bw / 2)) < ‖(x : ℂ)‖ := by
  have hR0 := Real.exp_pos (-(bw / 2))
  have hc : 2 * Real.exp (-(bw / 2)) < |Real.cos f| * (1 + Real.exp (-(bw / 2)) ^ 2) := by
    by_contra hcon
    push Not at hcon
    exact absurd ((zexp_region_iff f bw).1 hcon) (not_le.2 h)
  obtain ⟨x, hp, hx⟩ := res_zexp_wrong_radius [(1 - Real.exp (-(bw / 2)) ^ 2) * (1 / 2), 0,
    -((1 - Real.exp (-(bw / 2)) ^ 2) * (1 / 2))] f _ hR0 hc
  refine ⟨x, ?_, ?_⟩
  · simp only [resonator, resonatorZExp_eq]; exact hp
  · rw [Complex.norm_real, Real.norm_eq_abs]; exact hx

/-- **C13.5i** the EXACT region where `resonator.z_exp` has its documented pole radius, for every
centre frequency and bandwidth (no range restriction): all poles have modulus `e^{-bw/2}` if and
only if `|cos f| ≤ 1/cosh(bw/2)`. -/
theorem resonator_z_exp_radius_region (f bw : ℝ) :
    (∀ p : ℂ, IsPole (resonator .zExp f bw) p → ‖p‖ = Real.exp (-(bw / 2)))
      ↔ |Real.cos f| ≤ 1 / Real.cosh (bw / 2) := by
  have hR0 := Real.exp_pos (-(bw / 2))
  constructor
  · intro hall
    by_contra hcon
    push Not at hcon
    obtain ⟨x, hp, hx⟩ := resonator_z_exp_wrong_radius f bw hcon
    rw [hall _ hp] at hx
    exact lt_irrefl _ hx
  · intro hc p hp
    simp only [resonator, resonatorZExp_eq] at hp
    exact res_pole_radius _ _ _ hR0
      ((ctZ_sq_le_one_iff f _ hR0).2 ((zexp_region_iff f bw).2 hc)) p hp

/-- **C13.5j** the same region as an interval of centre frequencies: for `f ∈ [0, π]` the documented
radius holds exactly for `arccos(1/cosh(bw/2)) ≤ f ≤ π - arccos(1/cosh(bw/2))`
(e.g. `bw = 1`: `0.481 ≤ f ≤ 2.661`; `bw = 0.1`: `0.04998 ≤ f ≤ 3.0916`). -/
theorem resonator_z_exp_radius_interval (f bw : ℝ) (h0 : 0 ≤ f) (h1 : f ≤ Real.pi) :
    (∀ p : ℂ, IsPole (resonator .zExp f bw) p → ‖p‖ = Real.exp (-(bw / 2)))
      ↔ Real.arccos (1 / Real.cosh (bw / 2)) ≤ f ∧ f ≤ Real.pi - Real.arccos (1 / Real.cosh (bw / 2)) := by
  rw [resonator_z_exp_radius_region]
  have hc := one_le_cosh' (bw / 2)
  exact abs_cos_le_iff f _ h0 h1 (by positivity)
    (by rw [div_le_one (by linarith)]; exact hc)

/-! ### 6. comb filters -/

/-- **C13.6a** `comb.fb(D, α)` run by the generated filter loop (C04 model: `evalIR (compile …)`)
produces one output per input with `y[n] = x[n] + α·y[n-D]` (`y[-k]` from the memory), for every
delay `D = d+1 ≥ 1`, every `α` (for `α = 0` the delayed term is not even stored), every input. -/
theorem comb_fb_difference_equation (d : ℕ) (α : ℝ) (mem xs : List ℝ)
    (hmem : mem.length = (combFb (d + 1) α).den.tail.length) :
    (C04.evalIR (C04.compile (combFb (d + 1) α).num (combFb (d + 1) α).den 0) mem 0 xs).length
        = xs.length ∧
    ∀ n : ℕ, n < xs.length →
      C04.yAt 0 mem (C04.evalIR (C04.compile (combFb (d + 1) α).num (combFb (d + 1) α).den 0) mem 0 xs) n
        = C04.xAt 0 xs n + α * C04.yAt 0 mem
            (C04.evalIR (C04.compile (combFb (d + 1) α).num (combFb (d + 1) α).den 0) mem 0 xs)
            ((n : ℤ) - ((d : ℤ) + 1)) := by
  by_cases hα : α = 0
  · subst hα
    obtain ⟨hn, hd⟩ := combFb_coefs_zero d
    rw [hd] at hmem
    rw [hn, hd]
    obtain ⟨hl, he⟩ := ALV.Props.C04.filter_satisfies_property_zero [1] [] (1 : ℝ) mem xs one_ne_zero hmem
    refine ⟨hl, fun n hn' => ?_⟩
    have := he n hn'
    simp [C04.sigma] at this
    rw [this]; simp
  · obtain ⟨hn, hd⟩ := combFb_coefs d α hα
    rw [hd] at hmem
    rw [hn, hd]
    obtain ⟨hl, he⟩ := ALV.Props.C04.filter_satisfies_property_zero [1]
      (List.replicate d 0 ++ [-α]) (1 : ℝ) mem xs one_ne_zero hmem
    refine ⟨hl, fun n hn' => ?_⟩
    have := he n hn'
    simp only [List.length_append, List.length_replicate, List.length_singleton] at this
    rw [sigma_zeros_append] at this
    simp [C04.sigma] at this
    rw [this]

/-- **C13.6b** `comb.ff(D, α)`: `y[n] = x[n] + α·x[n-D]`. -/
theorem comb_ff_difference_equation (d : ℕ) (α : ℝ) (xs : List ℝ) :
    (C04.evalIR (C04.compile (combFf (d + 1) α).num (combFf (d + 1) α).den 0) [] 0 xs).length
        = xs.length ∧
    ∀ n : ℕ, n < xs.length →
      C04.yAt 0 [] (C04.evalIR (C04.compile (combFf (d + 1) α).num (combFf (d + 1) α).den 0) [] 0 xs) n
        = C04.xAt 0 xs n + α * C04.xAt 0 xs ((n : ℤ) - ((d : ℤ) + 1)) := by
  by_cases hα : α = 0
  · subst hα
    obtain ⟨hn, hd⟩ := combFf_coefs_zero d
    rw [hn, hd]
    obtain ⟨hl, he⟩ := ALV.Props.C04.filter_satisfies_property_zero [1] [] (1 : ℝ) [] xs one_ne_zero rfl
    refine ⟨hl, fun n hn' => ?_⟩
    have := he n hn'
    simp [C04.sigma] at this
    rw [this]; simp
  · obtain ⟨hn, hd⟩ := combFf_coefs d α hα
    rw [hn, hd]
    obtain ⟨hl, he⟩ := ALV.Props.C04.filter_satisfies_property_zero
      (1 :: (List.replicate d 0 ++ [α])) [] (1 : ℝ) [] xs one_ne_zero rfl
    refine ⟨hl, fun n hn' => ?_⟩
    have := he n hn'
    simp only [List.length_cons, List.length_append, List.length_replicate, List.length_singleton,
      List.length_nil] at this
    rw [sigma_shift] at this
    simp only [List.getD_cons_succ, List.getD_cons_zero] at this
    rw [sigma_zeros_append] at this
    simp [C04.sigma] at this
    rw [this]

/-- **C13.6a'** (model = spec) the generated loop run on the designed coefficients with zero memory
computes exactly the executable specification `combFbSpec` (the recursion the driver returns as
`spec.out`), for every delay ≥ 1, every α, every input. -/
theorem comb_fb_eq_spec (d : ℕ) (α : ℝ) (xs : List ℝ) :
    C04.evalIR (C04.compile (combFb (d + 1) α).num (combFb (d + 1) α).den 0)
        (List.replicate (combFb (d + 1) α).den.tail.length 0) 0 xs
      = combFbSpec (d + 1) α xs := by
  by_cases hα : α = 0
  · subst hα
    obtain ⟨hn, hd⟩ := combFb_coefs_zero d
    rw [hn, hd, ALV.Props.C04.filter_eq_spec_zero [1] [] (1 : ℝ) _ xs (by simp)]
    exact fspec_combFb_zero (d + 1) _ _ xs
  · obtain ⟨hn, hd⟩ := combFb_coefs d α hα
    rw [hn, hd, ALV.Props.C04.filter_eq_spec_zero [1] _ (1 : ℝ) _ xs (by simp)]
    have := fspec_combFb d α [] [] xs
    simpa [combFbSpec] using this

/-- **C13.6b'** (model = spec) the same for the feedforward comb and `combFfSpec`. -/
theorem comb_ff_eq_spec (d : ℕ) (α : ℝ) (xs : List ℝ) :
    C04.evalIR (C04.compile (combFf (d + 1) α).num (combFf (d + 1) α).den 0) [] 0 xs
      = combFfSpec (d + 1) α xs := by
  by_cases hα : α = 0
  · subst hα
    obtain ⟨hn, hd⟩ := combFf_coefs_zero d
    rw [hn, hd, ALV.Props.C04.filter_eq_spec_zero [1] [] (1 : ℝ) _ xs rfl]
    exact fspec_combFf_zero (d + 1) _ _ xs
  · obtain ⟨hn, hd⟩ := combFf_coefs d α hα
    rw [hn, hd, ALV.Props.C04.filter_eq_spec_zero _ [] (1 : ℝ) _ xs rfl]
    exact fspec_combFf d α [] [] xs

/-- **C13.6c** `comb.tau(D, τ)` is `comb.fb(D, α)` with `α = e^{-D/τ}`. -/
theorem comb_tau_alpha (D : ℕ) (τ : ℝ) : combTau D τ = combFb D (Real.exp (-(D : ℝ) / τ)) := by
  simp only [combTau, tauAlpha, TrigField.real_pow, TrigField.real_exp, c1_real, TrigField.real_ofNat,
    Real.exp_one_rpow]

/-! ### 7. gammatone -/

/-- **C13.7a** dividing a filter by `abs(filt.freq_response(f))` (as modelled: Horner evaluation in
pairs, complex division, modulus) gives unit gain at `f` whenever that gain is non-zero, and keeps
the poles. -/
theorem normalise_unit_gain (s : Coefs ℝ) (f : ℝ) (h : magSq s f ≠ 0) :
    magSq (normalise s f) f = 1 ∧ ∀ p, IsPole (normalise s f) p ↔ IsPole s p :=
  ⟨normalise_unit s f h, normalise_isPole s f⟩

/-- **C13.7b** `gammatone.slaney`: four sections, each with unit gain at the centre frequency and
poles exactly `A·e^{±jf}`, `A = e^{-bw} < 1` (stable). -/
theorem gammatone_slaney_sections (f bw : ℝ) (h0 : 0 < f) (h1 : f < Real.pi) (hbw : 0 < bw) :
    (gammatoneSlaney f bw).length = 4 ∧ Real.exp (-bw) < 1 ∧
    ∀ s ∈ gammatoneSlaney f bw, magSq s f = 1 ∧
      ∀ p : ℂ, IsPole s p ↔ p = Real.exp (-bw) * Complex.exp (I * f) ∨
                           p = Real.exp (-bw) * Complex.exp (-(I * f)) := by
  have hA0 := Real.exp_pos (-bw)
  have hA1 : Real.exp (-bw) < 1 := by rw [Real.exp_lt_one_iff]; linarith
  have hA2 : Real.exp (-bw) ^ 2 ≠ 1 := by nlinarith
  have hf := cos_sq_lt_one_of_mem f h0 h1
  have hs := (Real.sin_pos_of_pos_of_lt_pi h0 h1).ne'
  refine ⟨by simp [gammatoneSlaney], hA1, ?_⟩
  intro s hs'
  simp only [gammatoneSlaney, gtDen_real, TrigField.real_exp, TrigField.real_cos, TrigField.real_sin,
    TrigField.real_sqrt, c1_real, c2_real, List.flatMap_cons, List.flatMap_nil, List.map_cons,
    List.map_nil, List.append_nil, List.cons_append, List.nil_append, List.mem_cons,
    List.not_mem_nil, or_false] at hs'
  have key : ∀ c : ℝ, magSq (normalise (mk [1, -(Real.exp (-bw) * c)]
      [1, -(2 * Real.exp (-bw) * Real.cos f), Real.exp (-bw) ^ 2]) f) f = 1 ∧
      ∀ p : ℂ, IsPole (normalise (mk [1, -(Real.exp (-bw) * c)]
        [1, -(2 * Real.exp (-bw) * Real.cos f), Real.exp (-bw) ^ 2]) f) p ↔
        p = Real.exp (-bw) * Complex.exp (I * f) ∨ p = Real.exp (-bw) * Complex.exp (-(I * f)) := by
    intro c
    refine ⟨normalise_unit _ _ (section_magSq_ne_zero _ _ _ hA2 hf ?_), fun p => ?_⟩
    · intro h0'
      have := (polyMagSq_two_eq_zero _ _ f hs h0').1
      exact one_ne_zero this
    · rw [normalise_isPole, gt_poles _ _ _ hA0]
  rcases hs' with h | h | h | h <;> rw [h] <;> exact key _

/-- **C13.7c** `gammatone.sampled`: `eta` sections over the same denominator, poles exactly
`A·e^{±jf}` with `A = e^{-bw} < 1`; the `eta - 1` all-pole sections have unit gain at the centre
frequency; the first section has unit gain there provided its un-normalised numerator does not
vanish at `e^{jf}` — which is proved for EVERY `eta` (`gammatone_sampled_numerator_ne_zero`, 7g; the
unconditional statement is `gammatone_sampled_all_sections`, 7i). -/
theorem gammatone_sampled_sections (f bw φ : ℝ) (eta : ℕ) (h0 : 0 < f) (h1 : f < Real.pi)
    (hbw : 0 < bw) :
    (gammatoneSampled f bw φ eta).length = eta - 1 + 1 ∧ Real.exp (-bw) < 1 ∧
    (∀ s ∈ gammatoneSampled f bw φ eta,
      ∀ p : ℂ, IsPole s p ↔ p = Real.exp (-bw) * Complex.exp (I * f) ∨
                           p = Real.exp (-bw) * Complex.exp (-(I * f))) ∧
    (∀ s ∈ (gammatoneSampled f bw φ eta).tail, magSq s f = 1) ∧
    (polyMagSq (diffNum [Real.cos φ, -(Real.exp (-bw) * Real.cos (f - φ))]
        [1, -(2 * Real.exp (-bw) * Real.cos f), Real.exp (-bw) ^ 2] (eta - 1)) f ≠ 0 →
      ∀ s ∈ (gammatoneSampled f bw φ eta).head?, magSq s f = 1) := by
  have hA0 := Real.exp_pos (-bw)
  have hA1 : Real.exp (-bw) < 1 := by rw [Real.exp_lt_one_iff]; linarith
  have hA2 : Real.exp (-bw) ^ 2 ≠ 1 := by nlinarith
  have hf := cos_sq_lt_one_of_mem f h0 h1
  have hfn : magSq (normalise (mk [1] [1, -(2 * Real.exp (-bw) * Real.cos f), Real.exp (-bw) ^ 2]) f) f = 1 := by
    apply normalise_unit
    apply section_magSq_ne_zero _ _ _ hA2 hf
    rw [polyMagSq_one]; norm_num
  simp only [gammatoneSampled, gtDen_real, TrigField.real_exp, TrigField.real_cos, c1_real]
  refine ⟨by simp, hA1, ?_, ?_, ?_⟩
  · intro s hs p
    rw [List.mem_cons] at hs
    rcases hs with h | h
    · rw [h, normalise_isPole, gt_poles _ _ _ hA0]
    · rw [(List.mem_replicate.1 h).2, normalise_isPole, gt_poles _ _ _ hA0]
  · intro s hs
    rw [List.tail_cons] at hs
    rw [(List.mem_replicate.1 hs).2]
    exact hfn
  · intro hnum s hs
    simp only [List.head?_cons, Option.mem_def, Option.some.injEq] at hs
    rw [← hs]
    apply normalise_unit
    exact section_magSq_ne_zero _ _ _ hA2 hf hnum

/-- **C13.7d** for `eta = 1` the numerator `cos φ - A cos(f - φ) z⁻¹` never vanishes at `e^{jf}`,
`f ∈ (0, π)`: the single section has unit gain unconditionally, for every phase. -/
theorem gammatone_sampled_first_eta1 (f bw φ : ℝ) (h0 : 0 < f) (h1 : f < Real.pi) :
    polyMagSq (diffNum [Real.cos φ, -(Real.exp (-bw) * Real.cos (f - φ))]
        [1, -(2 * Real.exp (-bw) * Real.cos f), Real.exp (-bw) ^ 2] (1 - 1)) f ≠ 0 := by
  have hs := Real.sin_pos_of_pos_of_lt_pi h0 h1
  simp only [diffNum, Nat.sub_self, List.range_zero, List.foldl_nil]
  intro h
  obtain ⟨hb0, hb1⟩ := polyMagSq_two_eq_zero _ _ f hs.ne' h
  have hc : Real.cos (f - φ) = 0 := by
    have := Real.exp_pos (-bw)
    have h' : Real.exp (-bw) * Real.cos (f - φ) = 0 := by linarith
    rcases mul_eq_zero.1 h' with h'' | h''
    · exact absurd h'' this.ne'
    · exact h''
  rw [Real.cos_sub, hb0] at hc
  have hsφ : Real.sin φ = 0 := by
    have : Real.sin f * Real.sin φ = 0 := by linarith
    rcases mul_eq_zero.1 this with h' | h'
    · exact absurd h' hs.ne'
    · exact h'
  have := Real.sin_sq_add_cos_sq φ
  rw [hb0, hsφ] at this
  norm_num at this

/-- **C13.7g** (closed form of the coded numerator) `(numerator / denominator).diff(n, mul_after=-z)`
applies `θ = -z·d/dz` `n` times to `½(e^{jφ}/(1 - a z⁻¹) + e^{-jφ}/(1 - ā z⁻¹))`, `a = A e^{jf}`.  With
the Eulerian polynomials `E₀ = 1`, `E_{n+1} = (1 - u)·u·E_n' + (n+1)·u·E_n` (`ALV.C13.eul`; 7h lists
`E₁ … E₃`) the numerator list the code builds (`diffNum`: `n` passes of
`num ← -z·(num'·den - order·num·den')` on coefficient lists) satisfies at the centre frequency,
`x = e^{-jf}`, `v = A e^{-2jf}`:
`2·N_n(x) = e^{jφ}·E_n(A)·(1 - v)^{n+1} + e^{-jφ}·E_n(v)·(1 - A)^{n+1}` — for all real `A`, `f`, `φ`, all `n`. -/
theorem gammatone_sampled_numerator_closed_form (A f φ : ℝ) (n : ℕ) :
    2 * polyEvalC (Complex.exp (-(I * f)))
        (diffNum [Real.cos φ, -(A * Real.cos (f - φ))] [1, -(2 * A * Real.cos f), A ^ 2] n)
      = Complex.exp (I * φ) * (eul n : Polynomial ℂ).eval (A : ℂ)
          * (1 - A * Complex.exp (-(I * f)) ^ 2) ^ (n + 1)
        + Complex.exp (-(I * φ)) * (eul n : Polynomial ℂ).eval (A * Complex.exp (-(I * f)) ^ 2)
          * (1 - (A : ℂ)) ^ (n + 1) :=
  gt_sampled_closed_form A f φ n

/-- **C13.7h** the Eulerian polynomials of 7g are what their name says: `E₁ = u`, `E₂ = u + u²`,
`E₃ = u + 4u² + u³` (the case `eta = 4` used in practice), `E₄ = u + 11u² + 11u³ + u⁴`; in general
the coefficients are non-negative reals, vanish above degree `n`, and the leading one is 1 — whence
`|E_n(v)| ≤ E_n(|v|)` and `E_n(A) > 0` for `A > 0`. -/
theorem eulerian_polynomials :
    (∀ u : ℂ, (eul 1 : Polynomial ℂ).eval u = u ∧ (eul 2 : Polynomial ℂ).eval u = u + u ^ 2 ∧
      (eul 3 : Polynomial ℂ).eval u = u + 4 * u ^ 2 + u ^ 3 ∧
      (eul 4 : Polynomial ℂ).eval u = u + 11 * u ^ 2 + 11 * u ^ 3 + u ^ 4) ∧
    (∀ n k : ℕ, 0 ≤ (eul n : Polynomial ℝ).coeff k ∧ (n < k → (eul n : Polynomial ℝ).coeff k = 0)) ∧
    (∀ n : ℕ, (eul n : Polynomial ℝ).coeff n = 1) ∧
    (∀ (n : ℕ) (v : ℂ), ‖(eul n : Polynomial ℂ).eval v‖ ≤ (eul n : Polynomial ℝ).eval ‖v‖) ∧
    (∀ (n : ℕ) (A : ℝ), 0 < A → 0 < (eul n : Polynomial ℝ).eval A) := by
  refine ⟨fun u => ?_, fun n k => ⟨(eul_coeff_real n k).1, (eul_coeff_real n k).2.1⟩,
    fun n => (eul_coeff_real n n).2.2 rfl, eul_eval_norm_le, eul_eval_pos⟩
  refine ⟨?_, ?_, ?_, ?_⟩ <;>
    simp [eul, theta, Polynomial.derivative_mul, Polynomial.derivative_pow] <;> ring

/-- **C13.7i** the differentiated numerator of `gammatone.sampled` does NOT vanish at the centre
frequency — for every order `eta`, every phase, every `f ∈ (0, π)`, every bandwidth `> 0`: in 7g the
first summand has modulus `E_n(A)·|1 - v|^{n+1}`, the second at most `E_n(A)·(1 - A)^{n+1}`, and
`|1 - v|² = (1 - A)² + 4A sin² f > (1 - A)²`.  So the division by `abs(f0.freq_response(freq))` in the
code never divides by zero (over the reals) and the hypothesis of 7c always holds. -/
theorem gammatone_sampled_numerator_ne_zero (f bw φ : ℝ) (eta : ℕ) (h0 : 0 < f) (h1 : f < Real.pi)
    (hbw : 0 < bw) :
    polyMagSq (diffNum [Real.cos φ, -(Real.exp (-bw) * Real.cos (f - φ))]
        [1, -(2 * Real.exp (-bw) * Real.cos f), Real.exp (-bw) ^ 2] (eta - 1)) f ≠ 0 :=
  gt_sampled_num_ne_zero _ f φ (eta - 1) (Real.exp_pos _)
    (by rw [Real.exp_lt_one_iff]; linarith) (Real.sin_pos_of_pos_of_lt_pi h0 h1).ne'

/-- **C13.7j** (was PENDING) the FIRST section of `gammatone.sampled` has unit gain at the centre
frequency for EVERY order `eta` and every phase, without any hypothesis on the numerator.
(`eta = 0` is refused by the code's `assert eta >= 1`; the model reads it as `eta = 1`.) -/
theorem gammatone_sampled_first_unit_gain_all_eta (f bw φ : ℝ) (eta : ℕ) (h0 : 0 < f)
    (h1 : f < Real.pi) (hbw : 0 < bw) :
    ∀ s ∈ (gammatoneSampled f bw φ eta).head?, magSq s f = 1 :=
  (gammatone_sampled_sections f bw φ eta h0 h1 hbw).2.2.2.2
    (gammatone_sampled_numerator_ne_zero f bw φ eta h0 h1 hbw)

/-- **C13.7k** `gammatone.sampled` in the words of the property: `max eta 1` sections, EVERY one of
them with unit gain at the centre frequency and poles exactly `A·e^{±jf}`, `A = e^{-bw} < 1`. -/
theorem gammatone_sampled_all_sections (f bw φ : ℝ) (eta : ℕ) (h0 : 0 < f) (h1 : f < Real.pi)
    (hbw : 0 < bw) :
    (gammatoneSampled f bw φ eta).length = eta - 1 + 1 ∧ Real.exp (-bw) < 1 ∧
    ∀ s ∈ gammatoneSampled f bw φ eta, magSq s f = 1 ∧
      ∀ p : ℂ, IsPole s p ↔ p = Real.exp (-bw) * Complex.exp (I * f) ∨
                           p = Real.exp (-bw) * Complex.exp (-(I * f)) := by
  obtain ⟨hl, hA, hp, ht, _⟩ := gammatone_sampled_sections f bw φ eta h0 h1 hbw
  have hh := gammatone_sampled_first_unit_gain_all_eta f bw φ eta h0 h1 hbw
  refine ⟨hl, hA, fun s hs => ⟨?_, hp s hs⟩⟩
  cases hL : gammatoneSampled f bw φ eta with
  | nil => rw [hL] at hs; cases hs
  | cons x xs =>
    rw [hL] at hs hh ht
    rcases List.mem_cons.1 hs with h | h
    · rw [h]; exact hh x (by simp)
    · exact ht s (by simpa using h)

/-- **C13.7e** `gammatone.klapuri`: four sections (`resonator.z_exp` / `poles_exp` with bandwidth
`2·bw`), each stable and with unit gain at the centre frequency. -/
theorem gammatone_klapuri_sections (f bw : ℝ) (h0 : 0 < f) (h1 : f < Real.pi) (hbw : 0 < bw) :
    (gammatoneKlapuri f bw).length = 4 ∧
    ∀ s ∈ gammatoneKlapuri f bw, magSq s f = 1 ∧ ∀ p : ℂ, IsPole s p → ‖p‖ < 1 := by
  refine ⟨by simp [gammatoneKlapuri], ?_⟩
  have hb2 : 0 < bw * 2 := by linarith
  obtain ⟨g1, g2⟩ := resonator_unit_gain f (bw * 2) h0 h1 hb2
  intro s hs
  simp only [gammatoneKlapuri, c2_real, List.mem_cons, List.not_mem_nil, or_false] at hs
  rcases hs with h | h | h | h <;> rw [h]
  · exact ⟨g2, fun p hp => resonator_stable .zExp f (bw * 2) h0 h1 hb2 p hp⟩
  · exact ⟨g1, fun p hp => resonator_stable .polesExp f (bw * 2) h0 h1 hb2 p hp⟩
  · exact ⟨g2, fun p hp => resonator_stable .zExp f (bw * 2) h0 h1 hb2 p hp⟩
  · exact ⟨g1, fun p hp => resonator_stable .polesExp f (bw * 2) h0 h1 hb2 p hp⟩

/-- **C13.7f** the poles `A·e^{±jf}` have modulus `A` (< 1 by 7b/7c): stable sections. -/
theorem gammatone_pole_modulus (f bw : ℝ) :
    ‖(Real.exp (-bw) : ℂ) * Complex.exp (I * f)‖ = Real.exp (-bw) ∧
    ‖(Real.exp (-bw) : ℂ) * Complex.exp (-(I * f))‖ = Real.exp (-bw) :=
  norm_A_exp _ f (Real.exp_pos _)

/-! ### 8. the observables are those of `filt.freq_response` (C12 model) -/

/-- **C13.8a** `magSq s ω` is the squared modulus of the value the C12 model of
`ZFilter(num, den).freq_response(ω)` returns (`respOfFilter`: constructor normalisation,
`Poly.__call__` at `exp(-1j·ω)`, nan test, division), whenever the denominator does not vanish. -/
theorem magSq_is_freq_response (s : Coefs ℝ) (ω : ℝ) (h : polyMagSq s.den ω ≠ 0) :
    ∃ v : ℂ, C12.respOfFilter (s.num.map ofReal) (s.den.map ofReal) (Complex.exp (-(I * ω)))
        = C12.Resp.val v ∧ Complex.normSq v = magSq s ω :=
  respOfFilter_unit s.num s.den ω h

/-- **C13.8b** `dcGain` / `nyquistGain` are its values at `ω = 0` / `ω = π`. -/
theorem dc_nyquist_are_freq_response (s : Coefs ℝ) :
    (polyEval 1 s.den ≠ 0 →
      C12.respOfFilter (s.num.map ofReal) (s.den.map ofReal) (Complex.exp (-(I * ((0 : ℝ) : ℂ))))
        = C12.Resp.val ((dcGain s : ℝ) : ℂ)) ∧
    (polyEval (-1) s.den ≠ 0 →
      C12.respOfFilter (s.num.map ofReal) (s.den.map ofReal) (Complex.exp (-(I * ((Real.pi : ℝ) : ℂ))))
        = C12.Resp.val ((nyquistGain s : ℝ) : ℂ)) := by
  constructor
  · intro h
    rw [cexp_zero_point, respOfFilter_real _ _ 1 one_ne_zero h]
    simp [dcGain, gainReal]
  · intro h
    rw [cexp_pi_point, respOfFilter_real _ _ (-1) (by norm_num) h]
    simp [nyquistGain, gainReal]

/-! ### 9. the responses are defined (no nan) and the resonant frequencies exist -/

/-- **C13.9a** the denominator of every lowpass / highpass design does not vanish anywhere on the
unit circle, so `freq_response` never returns nan and `magSq` is the squared modulus of the
response at every ω (8a applies unconditionally). -/
theorem lowpass_highpass_response_defined (st : Strategy) (c : ℝ) (h0 : 0 < c) (h1 : c < Real.pi)
    (ω : ℝ) : polyMagSq (lowpass st c).den ω ≠ 0 ∧ polyMagSq (highpass st c).den ω ≠ 0 := by
  obtain ⟨a, b, _⟩ := lowpassR_bounds st c h0 h1
  obtain ⟨a', b', _⟩ := highpassR_bounds st c h0 h1
  have hx := cos_mem ω
  have key : ∀ (bs : List ℝ) (a1 : ℝ), -1 < a1 → a1 < 1 → polyMagSq (C13.mk bs [1, a1]).den ω ≠ 0 := by
    intro bs a1 ha hb
    show polyMagSq (trim [1, a1]) ω ≠ 0
    rw [polyMagSq_trim, polyMagSq_two]
    have := den_pos a1 (Real.cos ω) ha hb hx.1 hx.2
    apply ne_of_gt
    nlinarith
  constructor
  · rw [lowpass_eq]
    cases st <;> simp only [onePoleLP, oneZeroLP]
    · exact key _ _ (by linarith) (by linarith)
    · exact key _ _ a b
    · exact key _ _ (by linarith) (by linarith)
    · exact key _ _ a b
  · rw [highpass_eq]
    cases st <;> simp only [onePoleHP, oneZeroHP]
    · exact key _ _ a' b'
    · exact key _ _ (by linarith) (by linarith)
    · exact key _ _ a' b'
    · exact key _ _ (by linarith) (by linarith)

/-- **C13.9a'** the same for every resonator: the response is defined at every frequency. -/
theorem resonator_response_defined (st : ResStrategy) (f bw : ℝ) (h0 : 0 < f) (h1 : f < Real.pi)
    (hbw : 0 < bw) (ω : ℝ) : polyMagSq (resonator st f bw).den ω ≠ 0 := by
  have hR0 := resR_pos bw
  have hR1 := resR_lt_one bw hbw
  have hf := cos_sq_lt_one_of_mem f h0 h1
  have hx := cos_mem ω
  have key : ∀ (bs : List ℝ) (ct : ℝ), |2 * Real.exp (-(bw / 2)) * ct| < 1 + Real.exp (-(bw / 2)) ^ 2 →
      polyMagSq (C13.mk bs [1, -(2 * Real.exp (-(bw / 2)) * ct), Real.exp (-(bw / 2)) ^ 2]).den ω ≠ 0 := by
    intro bs ct h
    show polyMagSq (trim _) ω ≠ 0
    rw [polyMagSq_trim, polyMagSq_resDen]
    exact (resDenSq_pos_of_stable _ _ _ hR0 hR1 h hx.1 hx.2).ne'
  cases st
  · simp only [resonator, resonatorPolesExp_eq]
    exact key _ _ (abs_two_R_ct_lt _ _ hR0 hR1 (ctPoles_sq_lt_one f _ hR0 hf).le)
  · simp only [resonator, resonatorFreqPolesExp_eq]
    exact key _ _ (abs_two_R_ct_lt _ _ hR0 hR1 hf.le)
  · simp only [resonator, resonatorZExp_eq]
    exact key _ _ (abs_two_R_ctZ_lt f _ hR0 hf)
  · simp only [resonator, resonatorFreqZExp_eq]
    exact key _ _ (abs_two_R_ct_lt _ _ hR0 hR1 hf.le)

/-- **C13.9c** the cut-off is THE half-power frequency: on [0, π] the `pole` and `z` designs have
`|H(e^{jω})|² = 1/2` only at `ω = ω_c` (strict monotonicity + 2a–2d). -/
theorem cutoff_unique (c ω : ℝ) (h0 : 0 < c) (h1 : c < Real.pi) (hω : ω ∈ Set.Icc 0 Real.pi) :
    (magSq (lowpass .pole c) ω = 1 / 2 ↔ ω = c) ∧ (magSq (lowpass .z c) ω = 1 / 2 ↔ ω = c) ∧
    (magSq (highpass .pole c) ω = 1 / 2 ↔ ω = c) ∧ (magSq (highpass .z c) ω = 1 / 2 ↔ ω = c) := by
  have hc : c ∈ Set.Icc 0 Real.pi := ⟨h0.le, h1.le⟩
  refine ⟨⟨fun h => ?_, fun h => h ▸ lowpass_pole_half_power c h0 h1⟩,
          ⟨fun h => ?_, fun h => h ▸ lowpass_z_half_power c h0 h1⟩,
          ⟨fun h => ?_, fun h => h ▸ highpass_pole_half_power c h0 h1⟩,
          ⟨fun h => ?_, fun h => h ▸ highpass_z_half_power c h0 h1⟩⟩
  · exact (lowpass_monotone .pole c h0 h1).injOn hω hc (by
      show magSq _ ω = magSq _ c
      rw [h, lowpass_pole_half_power c h0 h1])
  · exact (lowpass_monotone .z c h0 h1).injOn hω hc (by
      show magSq _ ω = magSq _ c
      rw [h, lowpass_z_half_power c h0 h1])
  · exact (highpass_monotone .pole c h0 h1).injOn hω hc (by
      show magSq _ ω = magSq _ c
      rw [h, highpass_pole_half_power c h0 h1])
  · exact (highpass_monotone .z c h0 h1).injOn hω hc (by
      show magSq _ ω = magSq _ c
      rw [h, highpass_z_half_power c h0 h1])

/-- **C13.9b** the resonant frequency of `freq_z_exp` always exists in [0, π] (so 5b gives unit gain
there for every pole angle and bandwidth); that of `freq_poles_exp` exists iff
`|cos f|·(1+R²) ≤ 2R` (otherwise the response has no interior peak). -/
theorem resonator_freq_resonance_exists (f bw : ℝ) :
    (∃ ω ∈ Set.Icc 0 Real.pi,
      (1 + Real.exp (-(bw / 2)) ^ 2) * Real.cos ω = 2 * Real.exp (-(bw / 2)) * Real.cos f) ∧
    (|Real.cos f| * (1 + Real.exp (-(bw / 2)) ^ 2) ≤ 2 * Real.exp (-(bw / 2)) →
      ∃ ω ∈ Set.Icc 0 Real.pi,
        2 * Real.exp (-(bw / 2)) * Real.cos ω = (1 + Real.exp (-(bw / 2)) ^ 2) * Real.cos f) := by
  have hR0 := resR_pos bw
  have hd : 0 < 1 + Real.exp (-(bw / 2)) ^ 2 := by positivity
  have hx := cos_mem f
  constructor
  · refine ⟨Real.arccos (2 * Real.exp (-(bw / 2)) * Real.cos f / (1 + Real.exp (-(bw / 2)) ^ 2)),
      ⟨Real.arccos_nonneg _, Real.arccos_le_pi _⟩, ?_⟩
    rw [Real.cos_arccos]
    · field_simp
    · rw [le_div_iff₀ hd]
      nlinarith [sq_nonneg (1 - Real.exp (-(bw / 2))), mul_nonneg hR0.le (by linarith : (0:ℝ) ≤ 1 + Real.cos f)]
    · rw [div_le_iff₀ hd]
      nlinarith [sq_nonneg (1 - Real.exp (-(bw / 2))), mul_nonneg hR0.le (by linarith : (0:ℝ) ≤ 1 - Real.cos f)]
  · intro hc
    obtain ⟨hc1, hc2⟩ := abs_le.1 (show |Real.cos f * (1 + Real.exp (-(bw / 2)) ^ 2)| ≤ 2 * Real.exp (-(bw / 2)) by
      rw [abs_mul, abs_of_pos hd]; exact hc)
    refine ⟨Real.arccos ((1 + Real.exp (-(bw / 2)) ^ 2) * Real.cos f / (2 * Real.exp (-(bw / 2)))),
      ⟨Real.arccos_nonneg _, Real.arccos_le_pi _⟩, ?_⟩
    rw [Real.cos_arccos]
    · field_simp
    · rw [le_div_iff₀ (by positivity)]; linarith
    · rw [div_le_iff₀ (by positivity)]; linarith

/-! ### 10. the `Contract` records returned by the driver are met (`Meets`, `ALV/Lemmas/C13Contract.lean`)

The harness measures, on the real filter, exactly the fields of `lowpassSpec st c` / `highpassSpec st c`
/ `resonatorSpec st f bw` evaluated at `Float`; these theorems say the model meets the same records
at `ℝ`. -/

/-- **C13.10a** every lowpass design meets its contract record. -/
theorem lowpass_meets_contract (st : Strategy) (c : ℝ) (h0 : 0 < c) (h1 : c < Real.pi) :
    Meets (lowpass st c) (lowpassSpec st c) := by
  have hdc := lowpass_dc_gain st c h0 h1
  have hmono := lowpass_monotone st c h0 h1
  have hpk := lowpass_peak st c h0 h1
  have hst := fun p hp => (lowpass_pole_inside st c h0 h1 p hp).2
  refine ⟨?_, ?_, ?_, ?_, ?_, ?_, ?_, ?_, hst⟩
  · cases st <;> simp [lowpassSpec, lowpassContract, lowpassExpContract, hdc]
  · cases st <;> simp [lowpassSpec, lowpassContract, lowpassExpContract]
  · cases st <;> simp [lowpassSpec, lowpassContract, lowpassExpContract]
    · rw [lowpass_pole_half_power c h0 h1]; norm_num
    · rw [lowpass_z_half_power c h0 h1]; norm_num
  · cases st <;> simp [lowpassSpec, lowpassContract, lowpassExpContract]
  · cases st <;> simp [lowpassSpec, lowpassContract, lowpassExpContract]
    · exact fun p hp => ((exp_pole_radius c p).1 hp).2
    · exact fun p hp => ((exp_pole_radius c p).2.2.2 hp).2
  · cases st <;> simp [lowpassSpec, lowpassContract, lowpassExpContract] <;> exact hpk
  · intro _; exact hmono
  · cases st <;> simp [lowpassSpec, lowpassContract, lowpassExpContract]

/-- **C13.10b** every highpass design meets its contract record. -/
theorem highpass_meets_contract (st : Strategy) (c : ℝ) (h0 : 0 < c) (h1 : c < Real.pi) :
    Meets (highpass st c) (highpassSpec st c) := by
  have hny := highpass_nyquist_gain st c h0 h1
  have hmono := highpass_monotone st c h0 h1
  have hpk := highpass_peak st c h0 h1
  have hst := fun p hp => (highpass_pole_inside st c h0 h1 p hp).2
  refine ⟨?_, ?_, ?_, ?_, ?_, ?_, ?_, ?_, hst⟩
  · cases st <;> simp [highpassSpec, highpassContract, highpassExpContract]
  · cases st <;> simp [highpassSpec, highpassContract, highpassExpContract, hny]
  · cases st <;> simp [highpassSpec, highpassContract, highpassExpContract]
    · rw [highpass_pole_half_power c h0 h1]; norm_num
    · rw [highpass_z_half_power c h0 h1]; norm_num
  · cases st <;> simp [highpassSpec, highpassContract, highpassExpContract]
  · cases st <;> simp [highpassSpec, highpassContract, highpassExpContract]
    · exact fun p hp => ((exp_pole_radius c p).2.2.1 hp).2
    · exact fun p hp => ((exp_pole_radius c p).2.1 hp).2
  · cases st <;> simp [highpassSpec, highpassContract, highpassExpContract] <;> exact hpk
  · cases st <;> simp [highpassSpec, highpassContract, highpassExpContract]
  · intro _; exact hmono

/-- **C13.10c** every resonator meets its contract record — for `z_exp` under the complex-pole
condition of 5e (outside it the `poleRadius` field fails: 5f, the recorded finding). -/
theorem resonator_meets_contract (st : ResStrategy) (f bw : ℝ) (h0 : 0 < f) (h1 : f < Real.pi)
    (hbw : 0 < bw)
    (hz : st = .zExp → |Real.cos f| * (1 + Real.exp (-(bw / 2)) ^ 2) ≤ 2 * Real.exp (-(bw / 2))) :
    Meets (resonator st f bw) (resonatorSpec st f bw) := by
  have hR0 := resR_pos bw
  have hd : 0 < 1 + Real.exp (-(bw / 2)) ^ 2 := by positivity
  obtain ⟨g1, g2⟩ := resonator_unit_gain f bw h0 h1 hbw
  have r1 := resonator_pole_radius f bw h0 h1
  refine ⟨?_, ?_, ?_, ?_, ?_, ?_, ?_, ?_, fun p hp => resonator_stable st f bw h0 h1 hbw p hp⟩
  · cases st <;> simp [resonatorSpec, resonatorContract, resonatorFreqContract]
  · cases st <;> simp [resonatorSpec, resonatorContract, resonatorFreqContract]
  · cases st <;> simp [resonatorSpec, resonatorContract, resonatorFreqContract]
    · exact g1
    · exact g2
  · cases st <;> simp [resonatorSpec, resonatorContract, resonatorFreqContract]
    · intro ω hω
      apply (resonator_freq_unit_gain f bw ω h0 h1 hbw).1
      rw [hω]; field_simp
    · intro ω hω
      apply (resonator_freq_unit_gain f bw ω h0 h1 hbw).2
      rw [hω]; field_simp
  · cases st <;> simp [resonatorSpec, resonatorContract, resonatorFreqContract]
    · exact fun p hp => (r1 p).1 hp
    · exact fun p hp => (r1 p).2.1 hp
    · exact fun p hp => (r1 p).2.2.2 (hz rfl) hp
    · exact fun p hp => (r1 p).2.2.1 hp
  · cases st <;> simp [resonatorSpec, resonatorContract, resonatorFreqContract] <;>
      exact fun ω => resonator_peak _ f bw ω
  · cases st <;> simp [resonatorSpec, resonatorContract, resonatorFreqContract]
  · cases st <;> simp [resonatorSpec, resonatorContract, resonatorFreqContract]

/-- **C13.10d** gammatone sections meet their contract records: every `slaney` section, EVERY
section of `sampled` for every order and phase — the differentiated first one included, by 7i —
(unit gain at `f`, poles of modulus `e^{-bw} < 1`), every `klapuri` section (unit gain at `f`, stable). -/
theorem gammatone_meets_contract (f bw : ℝ) (h0 : 0 < f) (h1 : f < Real.pi) (hbw : 0 < bw) :
    (∀ s ∈ gammatoneSlaney f bw, Meets s (gammatoneSectionContract f bw true)) ∧
    (∀ (φ : ℝ) (eta : ℕ), ∀ s ∈ gammatoneSampled f bw φ eta,
      Meets s (gammatoneSectionContract f bw true)) ∧
    (∀ s ∈ gammatoneKlapuri f bw, Meets s (gammatoneSectionContract f bw false)) := by
  obtain ⟨m1, m2⟩ := gammatone_pole_modulus f bw
  refine ⟨fun s hs => ?_, fun φ eta s hs => ?_, fun s hs => ?_⟩
  · obtain ⟨_, hA, h⟩ := gammatone_slaney_sections f bw h0 h1 hbw
    obtain ⟨hg, hp⟩ := h s hs
    refine meets_section_radius s f bw hg (fun p hpp => ?_) hA
    rcases (hp p).1 hpp with h' | h' <;> rw [h']
    · exact m1
    · exact m2
  · obtain ⟨_, hA, h⟩ := gammatone_sampled_all_sections f bw φ eta h0 h1 hbw
    obtain ⟨hg, hp⟩ := h s hs
    refine meets_section_radius s f bw hg (fun p hpp => ?_) hA
    rcases (hp p).1 hpp with h' | h' <;> rw [h']
    · exact m1
    · exact m2
  · obtain ⟨_, h⟩ := gammatone_klapuri_sections f bw h0 h1 hbw
    exact meets_section_stable s f bw (h s hs).1 (h s hs).2

/-! ### 11. histories: several designs fed the SAME parameter objects

`ALV/Model/C13Hist.lean` runs a history (build / take-one-instant / set-a-control steps over a heap
of parameter objects: shared iterators, re-iterable or tee'd objects, controls) as a state machine;
`ALV/Spec/C13Hist.lean` says what each step must show from the steps before it, without state.
The constant designs themselves are pure functions of their arguments, so "a design is not
influenced by earlier calls with equal or different arguments" holds for the model by construction
(it is what the tie checks on the implementation); the theorems below are about the one thing a
history adds: WHICH value of a shared object each instant of each design gets. -/

/-- **C13.11a** every step of every history, as coded = as specified (any number type: the driver's
`Float` run and the reals). -/
theorem hist_model_eq_spec {α : Type} [TrigField α] [ZeroTest α] (srcs : List (Src α))
    (dsgs : List (Dsg α)) (ops : List (HOp α)) :
    histModel srcs dsgs ops = histSpec srcs dsgs ops :=
  histModel_eq_histSpec srcs dsgs ops

/-- **C13.11b** the heap after a history depends on it only through the pull count of each object,
the value last assigned to each control and the instant count of each design; in particular what
the caller's own objects yield afterwards is `callerSpec`: a shared iterator goes on exactly where
the designs stopped, a list / tee'd object is untouched, a control yields its current value. -/
theorem hist_caller_objects {α : Type} [TrigField α] [ZeroTest α] (srcs : List (Src α))
    (dsgs : List (Dsg α)) (ops : List (HOp α)) :
    (hrun srcs dsgs HSt.init ops).2 = stateOf dsgs ops.reverse ∧
    ∀ i n, callerView srcs (hrun srcs dsgs HSt.init ops).2 i n = callerSpec srcs dsgs ops.reverse i n :=
  ⟨hrun_final srcs dsgs ops, callerView_eq_callerSpec srcs dsgs ops⟩

/-- **C13.11c** one more step: the earlier observations are unchanged and the new one is the
specified function of the past — later steps never reach back. -/
theorem hist_step_appended {α : Type} [TrigField α] [ZeroTest α] (srcs : List (Src α))
    (dsgs : List (Dsg α)) (ops : List (HOp α)) (op : HOp α) :
    histModel srcs dsgs (ops ++ [op]) = histModel srcs dsgs ops ++ [obsSpec srcs dsgs ops.reverse op] := by
  rw [hist_model_eq_spec, hist_model_eq_spec]
  unfold histSpec
  rw [specFrom_append]
  simp [specFrom]

/-- **C13.11d** sample by sample: in every history, a `take j` step shows the coefficients of the
CONSTANT design of design `j`'s kind for two values `v1`, `v2`, each of which is a value its
argument can take (the number given, a value of the object given, or a value assigned to the
control before this step). -/
theorem hist_take_is_constant_design {α : Type} [TrigField α] [ZeroTest α] (srcs : List (Src α))
    (dsgs : List (Dsg α)) (pre post : List (HOp α)) (j : ℕ)
    (hne : ∀ i, (srcs.getD i emptySrc).vals ≠ []) :
    ∃ e : Emit α, (histModel srcs dsgs (pre ++ HOp.take j :: post))[pre.length]? = some (some e) ∧
      e.secs = designOf (dsgs.getD j emptyDsg).kind e.v1 e.v2 ∧
      e.v1 ∈ parVals srcs pre.reverse (dsgs.getD j emptyDsg).p1 ∧
      e.v2 ∈ parVals srcs pre.reverse (dsgs.getD j emptyDsg).p2 := by
  rw [hist_model_eq_spec, histSpec_at]
  exact ⟨_, rfl, rfl, parValue_mem _ _ _ _ _ _ (fun i _ => hne i), parValue_mem _ _ _ _ _ _ (fun i _ => hne i)⟩

/-- every constant design meets the per-kind requirement `KindMeets` (`ALV/Lemmas/C13Contract.lean`)
on the per-kind parameter range `ParOK`. -/
theorem designOf_meets (k : Kind) (v1 v2 : ℝ) (h : ParOK k v1 v2) : KindMeets k v1 v2 (designOf k v1 v2) := by
  cases k with
  | lowpass st =>
    intro s hs
    rw [show s = lowpass st v1 by simpa [designOf] using hs]
    exact lowpass_meets_contract st v1 h.1 h.2
  | highpass st =>
    intro s hs
    rw [show s = highpass st v1 by simpa [designOf] using hs]
    exact highpass_meets_contract st v1 h.1 h.2
  | resonator st =>
    intro s hs
    rw [show s = resonator st v1 v2 by simpa [designOf] using hs]
    exact resonator_meets_contract st v1 v2 h.1 h.2.1 h.2.2.1 h.2.2.2
  | klapuri =>
    intro s hs
    exact (gammatone_meets_contract v1 v2 h.1 h.2.1 h.2.2).2.2 s (by simpa [designOf] using hs)
  | combFb d => simp [KindMeets, designOf]
  | combTau d => simp [KindMeets, designOf, comb_tau_alpha]
  | combFf d => simp [KindMeets, designOf]

/-- **C13.11e** the contracts hold at every instant of every history: if every value the arguments
of design `j` can take up to this step lies in the property's range, the sections shown by a
`take j` step meet the contract record of the values drawn — whatever other designs share the
objects and however the steps are interleaved. -/
theorem hist_take_meets_contract (srcs : List (Src ℝ)) (dsgs : List (Dsg ℝ)) (pre post : List (HOp ℝ))
    (j : ℕ) (hne : ∀ i, (srcs.getD i emptySrc).vals ≠ [])
    (hok : ∀ v1 ∈ parVals srcs pre.reverse (dsgs.getD j emptyDsg).p1,
           ∀ v2 ∈ parVals srcs pre.reverse (dsgs.getD j emptyDsg).p2,
             ParOK (dsgs.getD j emptyDsg).kind v1 v2) :
    ∃ e : Emit ℝ, (histModel srcs dsgs (pre ++ HOp.take j :: post))[pre.length]? = some (some e) ∧
      KindMeets (dsgs.getD j emptyDsg).kind e.v1 e.v2 e.secs := by
  obtain ⟨e, he, hs, h1, h2⟩ := hist_take_is_constant_design srcs dsgs pre post j hne
  exact ⟨e, he, by rw [hs]; exact designOf_meets _ _ _ (hok _ h1 _ h2)⟩

/-! ### non-vacuity: the hypotheses are satisfiable on non-trivial inputs -/

-- cut-off / centre frequency 1 ∈ (0, π), bandwidth 1/2 > 0
example : (0 : ℝ) < 1 ∧ (1 : ℝ) < Real.pi ∧ (0 : ℝ) < 1 / 2 :=
  ⟨one_pos, by linarith [Real.two_le_pi], by norm_num⟩
-- 5b: at the pole angle π/2 the resonant frequency is π/2 for both `freq_*` strategies
example (bw : ℝ) : 2 * Real.exp (-(bw / 2)) * Real.cos (Real.pi / 2)
    = (1 + Real.exp (-(bw / 2)) ^ 2) * Real.cos (Real.pi / 2) := by simp
-- 5e: the `z_exp` hypothesis holds e.g. at f = π/2 for every bandwidth
example (bw : ℝ) : |Real.cos (Real.pi / 2)| * (1 + Real.exp (-(bw / 2)) ^ 2) ≤ 2 * Real.exp (-(bw / 2)) := by
  simp; exact (Real.exp_pos _).le
-- 5h: outside the region (f = 1/10, bw = 1) ...
example : 1 / Real.cosh ((1 : ℝ) / 2) < |Real.cos (1 / 10)| := by
  have hc : 1 - (1 / 10 : ℝ) ^ 2 / 2 ≤ Real.cos (1 / 10) := Real.one_sub_sq_div_two_le_cos
  have h1 : (17 / 16 : ℝ) ≤ Real.cosh (1 / 2) := by
    have ha := Real.add_one_le_exp ((1 : ℝ) / 2)
    have hb := Real.add_one_le_exp (-((1 : ℝ) / 2))
    have hq := Real.quadratic_le_exp_of_nonneg (by norm_num : (0 : ℝ) ≤ 1 / 2)
    rw [Real.cosh_eq]
    linarith
  rw [abs_of_pos (by linarith), div_lt_iff₀ (by linarith)]
  nlinarith
-- 5i / 5j: ... and inside it (f = π/2, every bandwidth)
example (bw : ℝ) : |Real.cos (Real.pi / 2)| ≤ 1 / Real.cosh (bw / 2) := by
  rw [Real.cos_pi_div_two, abs_zero]; exact (one_div_pos.2 (Real.cosh_pos _)).le
-- 5f: the real-pole regime is inside the property's parameter range: f = 1/10, bw = 1
example : 2 * Real.exp (-((1 : ℝ) / 2)) < Real.cos (1 / 10) * (1 + Real.exp (-((1 : ℝ) / 2)) ^ 2) := by
  have hc : 1 - (1 / 10 : ℝ) ^ 2 / 2 ≤ Real.cos (1 / 10) := Real.one_sub_sq_div_two_le_cos
  have he : Real.exp (-((1 : ℝ) / 2)) ≤ 2 / 3 := by
    have h1 := Real.add_one_le_exp ((1 : ℝ) / 2)
    rw [Real.exp_neg, inv_le_comm₀ (Real.exp_pos _) (by norm_num)]
    linarith
  have hp := Real.exp_pos (-((1 : ℝ) / 2))
  nlinarith [mul_nonneg hp.le hp.le]
-- 6a: a memory of the needed length for delay 3, α = 1/2
example : ([0, 0, 0] : List ℝ).length = (combFb (2 + 1) (1 / 2 : ℝ)).den.tail.length := by
  rw [(combFb_coefs 2 (1 / 2) (by norm_num)).2]; simp
-- 7a / 8a: a non-zero gain / a non-vanishing denominator
example : polyMagSq (lowpass .poleExp (1 : ℝ)).den 2 ≠ 0 :=
  (lowpass_highpass_response_defined .poleExp 1 one_pos (by linarith [Real.two_le_pi]) 2).1
-- 7c: the non-vanishing hypothesis is theorem 7d for eta = 1 and theorem 7i for every eta
-- 7i / 7j / 7k: the order used in practice, eta = 4, at f = 1, bw = 1/2, phase 1/3
example : polyMagSq (diffNum [Real.cos (1 / 3), -(Real.exp (-(1 / 2 : ℝ)) * Real.cos (1 - 1 / 3))]
    [1, -(2 * Real.exp (-(1 / 2 : ℝ)) * Real.cos 1), Real.exp (-(1 / 2 : ℝ)) ^ 2] (4 - 1)) 1 ≠ 0 :=
  gammatone_sampled_numerator_ne_zero 1 (1 / 2) (1 / 3) 4 one_pos (by linarith [Real.two_le_pi]) (by norm_num)
example : (gammatoneSampled (1 : ℝ) (1 / 2) (1 / 3) 4).length = 4 ∧
    ∀ s ∈ gammatoneSampled (1 : ℝ) (1 / 2) (1 / 3) 4, magSq s 1 = 1 := by
  obtain ⟨hl, _, h⟩ := gammatone_sampled_all_sections 1 (1 / 2) (1 / 3) 4 one_pos
    (by linarith [Real.two_le_pi]) (by norm_num)
  exact ⟨hl, fun s hs => (h s hs).1⟩

-- 11e: a bank of two lowpass designs sharing ONE control (initial value 1, later set to 3/2): every
-- value the shared argument can take is in (0, π)
example : ∀ v1 ∈ parVals [(⟨.ctrl, [1]⟩ : Src ℝ)] [HOp.set 0 (3 / 2), HOp.take 0] (Par.src 0),
    ∀ v2 ∈ parVals [(⟨.ctrl, [1]⟩ : Src ℝ)] [HOp.set 0 (3 / 2), HOp.take 0] (Par.const 0),
      ParOK (.lowpass .pole) v1 v2 := by
  intro v1 h1 v2 _
  have h1' : v1 = 1 ∨ v1 = 3 / 2 := by simpa [parVals, setVal, emptySrc] using h1
  have := Real.two_le_pi
  rcases h1' with h | h <;> subst h <;> exact ⟨by norm_num, by linarith⟩

/-! ### 12. erb, gammatone_erb_constants, the time-domain run the driver evaluates, calls with omitted parameters

`ALV/Model/C13Call.lean`: `erb` / `erbCall` (the `Hz=None` branch with its `freq < 7` refusal),
`lowpassCall` … `gammatoneSampledCall` (default strategies, omitted `alpha` / `tau` / `phase` / `eta`),
`runFilter` / `runCascade` (what the driver runs for the entries `comb`, `combhist`, `run`). -/

/-- **C13.12a** the ERB formulas in closed form, for a frequency `f` and the unit `Hz ≠ 0` (both in
rad/sample; `Hz = 1`: both in hertz): Glasberg & Moore 1990 `24.7·(4.37·f/1000 + 1)` Hz, Moore &
Glasberg 1983 `6.23·(f/1000)² + 93.39·(f/1000) + 28.52` Hz. -/
theorem erb_closed_forms (f Hz : ℝ) (h : Hz ≠ 0) :
    erb .gm90 f Hz = (247 / 10) * ((437 / 100000) * f + Hz) ∧
    erb .mg83 f Hz = (623 / 100000000) * f ^ 2 / Hz + (9339 / 100000) * f + (2852 / 100) * Hz ∧
    erb .gm90 f 1 = (247 / 10) * ((437 / 100) * (f / 1000) + 1) ∧
    erb .mg83 f 1 = (623 / 100) * (f / 1000) ^ 2 + (9339 / 100) * (f / 1000) + 2852 / 100 := by
  refine ⟨?_, ?_, ?_, ?_⟩
  · show erbGm90 f Hz = _
    rw [erbGm90_real]; field_simp
  · show erbMg83 f Hz = _
    rw [erbMg83_real]; field_simp
  · show erbGm90 f 1 = _
    rw [erbGm90_real]; ring
  · show erbMg83 f 1 = _
    rw [erbMg83_real]; ring

/-- **C13.12b** units ("in rad/sample if second parameter is given, in Hz otherwise"): the bandwidth in
rad/sample of a frequency given in rad/sample is the hertz formula applied to `f` hertz, times `Hz`. -/
theorem erb_units (st : ErbStrategy) (f Hz : ℝ) (h : Hz ≠ 0) :
    erb st (f * Hz) Hz = erb st f 1 * Hz := by
  cases st
  · show erbGm90 _ _ = erbGm90 _ _ * _
    rw [erbGm90_real, erbGm90_real]; field_simp
  · show erbMg83 _ _ = erbMg83 _ _ * _
    rw [erbMg83_real, erbMg83_real]; field_simp

/-- **C13.12c** both ERB models are positive and strictly increasing in the frequency (`f ≥ 0`,
unit `Hz > 0`). -/
theorem erb_pos_strictMono (st : ErbStrategy) (Hz : ℝ) (hHz : 0 < Hz) :
    (∀ f : ℝ, 0 ≤ f → 0 < erb st f Hz) ∧ StrictMonoOn (fun f => erb st f Hz) (Set.Ici 0) := by
  have hne := hHz.ne'
  cases st
  · refine ⟨fun f hf => ?_, fun f _ g _ hfg => ?_⟩
    · rw [(erb_closed_forms f Hz hne).1]; nlinarith
    · show erb .gm90 f Hz < erb .gm90 g Hz
      rw [(erb_closed_forms f Hz hne).1, (erb_closed_forms g Hz hne).1]; nlinarith
  · refine ⟨fun f hf => ?_, fun f hf g _ hfg => ?_⟩
    · rw [(erb_closed_forms f Hz hne).2.1]
      have : 0 ≤ 623 / 100000000 * f ^ 2 / Hz := by positivity
      nlinarith
    · show erb .mg83 f Hz < erb .mg83 g Hz
      rw [(erb_closed_forms f Hz hne).2.1, (erb_closed_forms g Hz hne).2.1]
      have hf' : (0 : ℝ) ≤ f := hf
      have hsq : f ^ 2 ≤ g ^ 2 := by nlinarith
      have hsq' : 623 / 100000000 * f ^ 2 ≤ 623 / 100000000 * g ^ 2 := by nlinarith
      have := div_le_div_of_nonneg_right hsq' hHz.le
      nlinarith

/-- **C13.12d** the call `erb[st](freq, Hz=None)` (`st` omitted: `gm90`): without `Hz` a frequency below
7 is refused (`ValueError`: "perhaps user tried something up to 2π"), from 7 on the unit is 1 (hertz
in, hertz out); with `Hz` the formula, whatever the frequency. -/
theorem erb_call (st : Option ErbStrategy) (f : ℝ) :
    (f < 7 → erbCall st f none = .error ()) ∧
    (7 ≤ f → erbCall st f none = .ok (erb (st.getD .gm90) f 1)) ∧
    (∀ hz : ℝ, erbCall st f (some hz) = .ok (erb (st.getD .gm90) f hz)) := by
  refine ⟨fun h => ?_, fun h => ?_, fun hz => rfl⟩
  · simp [erbCall, h]
  · simp [erbCall, not_lt.2 h]

/-- **C13.12e** `gammatone_erb_constants(n) = (x, y)` for an order `n ≥ 1`:
`x = (n-1)!²·4^{n-1} / (π·(2n-2)!)` — the reciprocal `1/a_n` of Holdsworth's
`a_n = π·(2n-2)!·2^{-(2n-2)} / (n-1)!²` —, `y = c_n = 2·√(2^{1/n} - 1)`, both positive, and `y` is the
3 dB constant: `(1 + (y/2)²)^n = 2` (the `n`-th order gammatone magnitude `(1 + (Δ/b)²)^{-n/2}` has
half power at `Δ = b·y/2`). -/
theorem gammatone_erb_constants_closed_form (n : ℕ) (hn : 1 ≤ n) :
    (gammatoneErbConstants n : ℝ × ℝ).1
      = ((n - 1).factorial : ℝ) ^ 2 * 4 ^ (n - 1) / (Real.pi * ((2 * (n - 1)).factorial : ℝ)) ∧
    (gammatoneErbConstants n : ℝ × ℝ).1
      * (Real.pi * ((2 * (n - 1)).factorial : ℝ) / (4 ^ (n - 1) * ((n - 1).factorial : ℝ) ^ 2)) = 1 ∧
    0 < (gammatoneErbConstants n : ℝ × ℝ).1 ∧
    (gammatoneErbConstants n : ℝ × ℝ).2 = 2 * Real.sqrt ((2 : ℝ) ^ ((1 : ℝ) / n) - 1) ∧
    0 < (gammatoneErbConstants n : ℝ × ℝ).2 ∧
    (1 + ((gammatoneErbConstants n : ℝ × ℝ).2 / 2) ^ 2) ^ n = 2 := by
  have hpi := Real.pi_pos
  have hf1 : (0 : ℝ) < ((n - 1).factorial : ℝ) := by exact_mod_cast Nat.factorial_pos _
  have hf2 : (0 : ℝ) < ((2 * (n - 1)).factorial : ℝ) := by exact_mod_cast Nat.factorial_pos _
  have h4 : (0 : ℝ) < 4 ^ (n - 1) := by positivity
  have hn0 : n ≠ 0 := by omega
  have hnR : (0 : ℝ) < n := by exact_mod_cast hn
  have hgt : (1 : ℝ) < (2 : ℝ) ^ ((1 : ℝ) / n) :=
    Real.one_lt_rpow (by norm_num) (by positivity)
  refine ⟨erbConst_fst n, ?_, ?_, erbConst_snd n, ?_, ?_⟩
  · rw [erbConst_fst]; field_simp
  · rw [erbConst_fst]; positivity
  · rw [erbConst_snd]
    have : 0 < Real.sqrt ((2 : ℝ) ^ ((1 : ℝ) / n) - 1) := Real.sqrt_pos.2 (by linarith)
    linarith
  · rw [erbConst_snd]
    have hs : (2 * Real.sqrt ((2 : ℝ) ^ ((1 : ℝ) / n) - 1) / 2) ^ 2 = (2 : ℝ) ^ ((1 : ℝ) / n) - 1 := by
      rw [mul_div_cancel_left₀ _ (two_ne_zero), Real.sq_sqrt (by linarith)]
    rw [hs, add_sub_cancel, one_div]
    exact Real.rpow_inv_natCast_pow (by norm_num) hn0

/-- **C13.12f** the time-domain run the driver evaluates against `filt(signal)` — `runFilter`, the
difference-equation solver `C04.fspec` on the designed coefficient lists, zero memory — is, for the
comb designs, the recursion of the docstrings, and it is the generated filter loop of the C04 model
(whose correspondence with the real `exec`-generated loop is property C04's tie). -/
theorem comb_run_eq_spec (d : ℕ) (α : ℝ) (xs : List ℝ) :
    runFilter (combFb (d + 1) α) xs = combFbSpec (d + 1) α xs ∧
    runFilter (combFf (d + 1) α) xs = combFfSpec (d + 1) α xs ∧
    runFilter (combFb (d + 1) α) xs
      = C04.evalIR (C04.compile (combFb (d + 1) α).num (combFb (d + 1) α).den 0)
          (List.replicate (combFb (d + 1) α).den.tail.length 0) 0 xs ∧
    runFilter (combFf (d + 1) α) xs
      = C04.evalIR (C04.compile (combFf (d + 1) α).num (combFf (d + 1) α).den 0) [] 0 xs := by
  refine ⟨runFilter_combFb d α xs, runFilter_combFf d α xs, ?_, ?_⟩
  · rw [runFilter_combFb]; exact (comb_fb_eq_spec d α xs).symm
  · rw [runFilter_combFf]; exact (comb_ff_eq_spec d α xs).symm

/-- **C13.12g** `comb.fb` in the time domain, pointwise: one output per input, and for EVERY input and
EVERY `n`:  `y[n] = x[n] + α·y[n - D]`, where the delayed term is 0 for `n < D`. -/
theorem comb_fb_run_difference_equation (d : ℕ) (α : ℝ) (xs : List ℝ) :
    (runFilter (combFb (d + 1) α) xs).length = xs.length ∧
    ∀ n : ℕ, n < xs.length →
      (runFilter (combFb (d + 1) α) xs).getD n 0
        = xs.getD n 0 + α * (if n < d + 1 then 0
                             else (runFilter (combFb (d + 1) α) xs).getD (n - (d + 1)) 0) := by
  rw [(comb_run_eq_spec d α xs).2.2.1]
  obtain ⟨hl, he⟩ := comb_fb_difference_equation d α
    (List.replicate (combFb (d + 1) α).den.tail.length 0) xs (by simp)
  refine ⟨hl, fun n hn => ?_⟩
  have := he n hn
  rw [yAt_zero_mem, yAt_zero_mem] at this
  have h1 : ¬ ((n : ℤ) < 0) := by omega
  simp only [C04.xAt, if_neg h1, Int.toNat_natCast] at this
  rw [this]
  by_cases h : n < d + 1
  · have h2 : (n : ℤ) - ((d : ℤ) + 1) < 0 := by omega
    rw [if_pos h2, if_pos h]
  · have h2 : ¬ ((n : ℤ) - ((d : ℤ) + 1) < 0) := by omega
    have h3 : ((n : ℤ) - ((d : ℤ) + 1)).toNat = n - (d + 1) := by omega
    rw [if_neg h2, if_neg h, h3]

/-- **C13.12h** `comb.ff` in the time domain, pointwise:  `y[n] = x[n] + α·x[n - D]`, the delayed term
being 0 for `n < D`. -/
theorem comb_ff_run_difference_equation (d : ℕ) (α : ℝ) (xs : List ℝ) :
    (runFilter (combFf (d + 1) α) xs).length = xs.length ∧
    ∀ n : ℕ, n < xs.length →
      (runFilter (combFf (d + 1) α) xs).getD n 0
        = xs.getD n 0 + α * (if n < d + 1 then 0 else xs.getD (n - (d + 1)) 0) := by
  rw [(comb_run_eq_spec d α xs).2.2.2]
  obtain ⟨hl, he⟩ := comb_ff_difference_equation d α xs
  refine ⟨hl, fun n hn => ?_⟩
  have := he n hn
  have h1 : ¬ ((n : ℤ) < 0) := by omega
  simp only [C04.xAt, C04.yAt, if_neg h1, Int.toNat_natCast] at this
  rw [this]
  by_cases h : n < d + 1
  · have h2 : (n : ℤ) - ((d : ℤ) + 1) < 0 := by omega
    rw [if_pos h2, if_pos h]
  · have h2 : ¬ ((n : ℤ) - ((d : ℤ) + 1) < 0) := by omega
    have h3 : ((n : ℤ) - ((d : ℤ) + 1)).toNat = n - (d + 1) := by omega
    rw [if_neg h2, if_neg h, h3]

/-- **C13.12i** every section of a designed cascade, run in the time domain by `runFilter`, satisfies
the difference equation of its own coefficient lists (any design whose denominator starts with a
non-zero coefficient: every design of this property starts with 1). -/
theorem run_section_difference_equation (s : Coefs ℝ) (a0 : ℝ) (as xs : List ℝ)
    (hden : s.den = a0 :: as) (ha0 : a0 ≠ 0) :
    C04.DiffEq s.num a0 as 0 (List.replicate as.length 0) xs (runFilter s xs) := by
  simp only [runFilter, hden]
  exact C04.fspec_diffeq s.num as a0 0 _ xs ha0 (by simp)

/-- **C13.12j** what the caller's parameter objects yield after a history, as the driver returns it
(`histFinal`, all objects at once) = the state-free `callerSpec`. -/
theorem hist_final_eq_spec {α : Type} [TrigField α] [ZeroTest α] (srcs : List (Src α))
    (dsgs : List (Dsg α)) (ops : List (HOp α)) (n : ℕ) :
    histFinal srcs dsgs ops n
      = (List.range srcs.length).map fun i => callerSpec srcs dsgs ops.reverse i n := by
  unfold histFinal
  simp only [(hist_caller_objects srcs dsgs ops).2]

/-- **C13.12k** the calls with omitted parameters are the full calls with the documented defaults:
`lowpass(c) = lowpass.pole(c)`, `highpass(c) = highpass.z(c)`, `resonator(f, bw) = resonator.poles_exp`,
`comb(D, p) = comb.fb(D, p)`, omitted `alpha` = 1, omitted `tau` = "alpha = 1",
`gammatone(f, bw) = gammatone.sampled(f, bw, phase=0, eta=4)`. -/
theorem calls_with_omitted_parameters (c f bw p φ : ℝ) (D eta : ℕ) :
    lowpassCall none c = lowpass .pole c ∧ highpassCall none c = highpass .z c ∧
    resonatorCall none f bw = resonator .polesExp f bw ∧
    combCall none D (some p) = combFb D p ∧ combCall none D none = combFb D (1 : ℝ) ∧
    combCall (some .fb) D none = combFb D (1 : ℝ) ∧ combCall (some .ff) D none = combFf D (1 : ℝ) ∧
    combCall (some .tau) D none = combFb D (1 : ℝ) ∧ combCall (some .tau) D (some p) = combTau D p ∧
    gammatoneSampledCall f bw none none = gammatoneSampled f bw 0 4 ∧
    gammatoneSampledCall f bw (some φ) none = gammatoneSampled f bw φ 4 ∧
    gammatoneSampledCall f bw none (some eta) = gammatoneSampled f bw 0 eta := by
  simp [lowpassCall, highpassCall, resonatorCall, combCall, gammatoneSampledCall, c1_real, c0_real]

/-- **C13.12l** the default calls meet the contracts of the property: `lowpass(c)` / `highpass(c)` their
records (unit gain at DC resp. Nyquist, half power at the cut-off, monotone, stable),
`resonator(f, bw)` unit gain at `f` and pole radius `e^{-bw/2}`, `gammatone(f, bw)` four sections of
unit gain at `f` with poles of modulus `e^{-bw} < 1`, and `comb(D)` / `comb.fb(D)` / `comb.tau(D)` /
`comb.ff(D)` realise `y[n] = x[n] + y[n-D]` resp. `x[n] + x[n-D]`. -/
theorem default_calls_meet_contracts (c f bw : ℝ) (h0 : 0 < c) (h1 : c < Real.pi) (hf0 : 0 < f)
    (hf1 : f < Real.pi) (hbw : 0 < bw) (d : ℕ) (xs : List ℝ) :
    Meets (lowpassCall none c) (lowpassSpec .pole c) ∧
    Meets (highpassCall none c) (highpassSpec .z c) ∧
    Meets (resonatorCall none f bw) (resonatorSpec .polesExp f bw) ∧
    ((gammatoneSampledCall f bw none none).length = 4 ∧
      ∀ s ∈ gammatoneSampledCall f bw none none, Meets s (gammatoneSectionContract f bw true)) ∧
    runFilter (combCall none (d + 1) none) xs = combFbSpec (d + 1) 1 xs ∧
    runFilter (combCall (some .fb) (d + 1) none) xs = combFbSpec (d + 1) 1 xs ∧
    runFilter (combCall (some .tau) (d + 1) none) xs = combFbSpec (d + 1) 1 xs ∧
    runFilter (combCall (some .ff) (d + 1) none) xs = combFfSpec (d + 1) 1 xs := by
  have hc := calls_with_omitted_parameters c f bw 0 0 (d + 1) 0
  refine ⟨lowpass_meets_contract .pole c h0 h1, highpass_meets_contract .z c h0 h1,
    resonator_meets_contract .polesExp f bw hf0 hf1 hbw (fun h => by cases h), ⟨?_, ?_⟩, ?_, ?_, ?_, ?_⟩
  · rw [hc.2.2.2.2.2.2.2.2.2.1]
    exact (gammatone_sampled_all_sections f bw 0 4 hf0 hf1 hbw).1
  · rw [hc.2.2.2.2.2.2.2.2.2.1]
    exact (gammatone_meets_contract f bw hf0 hf1 hbw).2.1 0 4
  · rw [hc.2.2.2.2.1]; exact runFilter_combFb d 1 xs
  · rw [hc.2.2.2.2.2.1]; exact runFilter_combFb d 1 xs
  · rw [hc.2.2.2.2.2.2.2.1]; exact runFilter_combFb d 1 xs
  · rw [hc.2.2.2.2.2.2.1]; exact runFilter_combFf d 1 xs

/-- **C13.12m** "tau defaults to inf, which means alpha = 1": `alpha = e^{-D/τ} → 1` as `τ → ∞`. -/
theorem comb_tau_infinite (D : ℕ) :
    Filter.Tendsto (fun τ : ℝ => tauAlpha D τ) Filter.atTop (nhds 1) := by
  have h : (fun τ : ℝ => tauAlpha D τ) = fun τ : ℝ => Real.exp (-(D : ℝ) / τ) := by
    funext τ
    simp only [tauAlpha, TrigField.real_pow, TrigField.real_exp, c1_real, TrigField.real_ofNat,
      Real.exp_one_rpow]
  rw [h]
  have h0 : Filter.Tendsto (fun τ : ℝ => -(D : ℝ) / τ) Filter.atTop (nhds 0) :=
    Filter.Tendsto.div_atTop tendsto_const_nhds Filter.tendsto_id
  have := (Real.continuous_exp.tendsto 0).comp h0
  simpa [Function.comp_def] using this

/-- **C13.12n** `erb` is elementwise in the frequency: over a list / tuple the result is the list of the
single calls when every item is accepted (always, when `Hz` is given) and the `ValueError` of the first
refused item otherwise; a Stream / generator yields the single calls item by item up to the first refusal. -/
theorem erb_elementwise (st : Option ErbStrategy) (fs : List ℝ) :
    (∀ hz : ℝ, erbCallList st fs (some hz) = .ok (fs.map fun f => erb (st.getD .gm90) f hz)) ∧
    ((∀ f ∈ fs, 7 ≤ f) → erbCallList st fs none = .ok (fs.map fun f => erb (st.getD .gm90) f 1)) ∧
    ((∃ f ∈ fs, f < 7) → erbCallList st fs none = .error ()) ∧
    (∀ hz : Option ℝ, ∀ k, k < (erbCallLazy st fs hz).length →
        (erbCallLazy st fs hz)[k]? = some (erbCall st (fs.getD k 0) hz)) := by
  refine ⟨fun hz => ?_, fun h => ?_, fun h => ?_, fun hz => ?_⟩
  · induction fs with
    | nil => rfl
    | cons f fs ih => simp [erbCallList, (erb_call st f).2.2 hz, ih]
  · induction fs with
    | nil => rfl
    | cons f fs ih =>
      have h7 := h f (by simp)
      simp [erbCallList, (erb_call st f).2.1 h7, ih (fun g hg => h g (by simp [hg]))]
  · induction fs with
    | nil => obtain ⟨f, hf, _⟩ := h; cases hf
    | cons f fs ih =>
      by_cases h7 : f < 7
      · simp [erbCallList, (erb_call st f).1 h7]
      · obtain ⟨g, hg, hg7⟩ := h
        have hg' : g ∈ fs := by
          rcases List.mem_cons.1 hg with h' | h'
          · exact absurd (h' ▸ hg7) h7
          · exact h'
        simp [erbCallList, (erb_call st f).2.1 (not_lt.1 h7), ih ⟨g, hg', hg7⟩]
  · induction fs with
    | nil => intro k hk; simp [erbCallLazy] at hk
    | cons f fs ih =>
      intro k hk
      cases hr : erbCall st f hz with
      | error e =>
        simp only [erbCallLazy, hr, List.length_singleton] at hk ⊢
        have : k = 0 := by omega
        subst this; simp [hr]
      | ok v =>
        simp only [erbCallLazy, hr, List.length_cons] at hk ⊢
        cases k with
        | zero => simp [hr]
        | succ k => simpa using ih k (by omega)

/-- **C13.12o** a cascade in the time domain (`runCascade`, what the driver evaluates for the entry `run`):
section after section, each on the output of the one before; every section gives one output per input. -/
theorem run_cascade_sections (s : Coefs ℝ) (ss : List (Coefs ℝ)) (xs : List ℝ) :
    runCascade [] xs = xs ∧ runCascade (s :: ss) xs = runCascade ss (runFilter s xs) ∧
    (s.den ≠ [] → (runFilter s xs).length = xs.length) ∧
    ((∀ t ∈ s :: ss, t.den ≠ []) → (runCascade (s :: ss) xs).length = xs.length) := by
  have hlen : ∀ (t : Coefs ℝ) (ys : List ℝ), t.den ≠ [] → (runFilter t ys).length = ys.length := by
    intro t ys ht
    unfold runFilter
    cases hd : t.den with
    | nil => exact absurd hd ht
    | cons a0 as => exact C04.fspec_length _ _ _ _ _ _ _
  refine ⟨rfl, rfl, hlen s xs, ?_⟩
  generalize s :: ss = l
  induction l generalizing xs with
  | nil => intro _; rfl
  | cons t l ih =>
    intro h
    show (runCascade l (runFilter t xs)).length = xs.length
    rw [ih (runFilter t xs) (fun u hu => h u (by simp [hu])), hlen t xs (h t (by simp))]

-- 12a: the documented doctest value erb["moore_glasberg_83"](1000) = 128.14, and gm90(1000) = 132.639
example : erb .mg83 (1000 : ℝ) 1 = 12814 / 100 ∧ erb .gm90 (1000 : ℝ) 1 = 132639 / 1000 := by
  constructor
  · rw [(erb_closed_forms 1000 1 one_ne_zero).2.2.2]; norm_num
  · rw [(erb_closed_forms 1000 1 one_ne_zero).2.2.1]; norm_num
-- 12d: 1000 Hz is accepted without a unit, 2π is refused
example : erbCall none (1000 : ℝ) none = .ok (132639 / 1000) ∧ erbCall none (6 : ℝ) none = .error () := by
  constructor
  · rw [(erb_call none 1000).2.1 (by norm_num)]
    show Except.ok (erb .gm90 (1000 : ℝ) 1) = _
    rw [(erb_closed_forms 1000 1 one_ne_zero).2.2.1]; norm_num
  · exact (erb_call none 6).1 (by norm_num)
-- 12e: the order used in practice, n = 4: x = 16/(5π) (≈ 1.019, the doctest), and n = 1: (1/π, 2)
example : (gammatoneErbConstants 4 : ℝ × ℝ).1 = 16 / (5 * Real.pi) := by
  rw [(gammatone_erb_constants_closed_form 4 (by norm_num)).1]
  have := Real.pi_pos
  norm_num [Nat.factorial]
  field_simp
  ring
-- 12g / 12h: delay 3, alpha 1/2, a 5-sample signal: n = 4 ≥ 3 and n = 1 < 3 are both instances
example : (4 : ℕ) < ([1, 2, 3, 4, 5] : List ℝ).length ∧ ¬ (4 < 2 + 1) ∧ (1 : ℕ) < 2 + 1 := by simp

/-- **C13.12p** reading a lazy `erb` result ON: with no `Hz`, frequencies `pre` (all accepted), then one below 7,
then anything: the reads show the single calls on `pre`, then the `ValueError`, and from then on
`StopIteration` for ever (`none`) — the frequencies behind the refused one are never evaluated; with every
frequency accepted the reads are the single calls and then `StopIteration`. -/
theorem erb_lazy_reading_on (st : Option ErbStrategy) (pre post : List ℝ) (f : ℝ) (hpre : ∀ g ∈ pre, 7 ≤ g) (n : ℕ) :
    (f < 7 →
      erbCallLazy st (pre ++ f :: post) none = pre.map (fun g => .ok (erb (st.getD .gm90) g 1)) ++ [.error ()] ∧
      ∀ k, k < n → (erbLazyReads st (pre ++ f :: post) none n)[k]? = some
        (if k < pre.length then some (.ok (erb (st.getD .gm90) (pre.getD k 0) 1))
         else if k = pre.length then some (.error ()) else none)) ∧
    (∀ k, k < n → (erbLazyReads st pre none n)[k]? = some
        (if k < pre.length then some (.ok (erb (st.getD .gm90) (pre.getD k 0) 1)) else none)) := by
  have hok : ∀ l : List ℝ, (∀ g ∈ l, 7 ≤ g) → ∀ rest : List ℝ,
      erbCallLazy st (l ++ rest) none = l.map (fun g => .ok (erb (st.getD .gm90) g 1)) ++ erbCallLazy st rest none := by
    intro l hl rest
    induction l with
    | nil => rfl
    | cons g l ih =>
      have h7 := hl g (by simp)
      simp [erbCallLazy, (erb_call st g).2.1 h7, ih (fun x hx => hl x (by simp [hx]))]
  have hreads : ∀ (l : List ℝ) (k : ℕ), k < n →
      (erbLazyReads st l none n)[k]? = some ((erbCallLazy st l none)[k]?) := by
    intro l k hk
    simp [erbLazyReads, hk]
  refine ⟨fun hf => ?_, fun k hk => ?_⟩
  · have hlazy : erbCallLazy st (pre ++ f :: post) none
        = pre.map (fun g => .ok (erb (st.getD .gm90) g 1)) ++ [.error ()] := by
      rw [hok pre hpre]; simp [erbCallLazy, (erb_call st f).1 hf]
    refine ⟨hlazy, fun k hk => ?_⟩
    rw [hreads _ k hk, hlazy]
    by_cases h1 : k < pre.length
    · simp [h1, List.getElem?_append_left, List.getD_eq_getElem?_getD]
    · by_cases h2 : k = pre.length
      · subst h2; simp
      · have : pre.length + 1 ≤ k := by omega
        simp [h1, h2, List.getElem?_eq_none, this]
  · rw [hreads _ k hk]
    have := hok pre hpre []
    rw [List.append_nil] at this
    rw [this]
    by_cases h1 : k < pre.length
    · simp [h1, erbCallLazy, List.getD_eq_getElem?_getD]
    · simp [h1, erbCallLazy, List.getElem?_eq_none, Nat.le_of_not_lt h1]

-- 12p: 1000 Hz, then 5 (refused), then 2000 Hz, four reads
example : (∀ g ∈ ([1000] : List ℝ), 7 ≤ g) ∧ (5 : ℝ) < 7 := by constructor <;> norm_num

/-! ### 13. Stream-valued arguments: the tee-hub machine of the strategy bodies (`ALV/Model/C13Thub.lean`)

Each strategy body is transcribed as a program over iterator objects (the caller's argument used
directly, or one copy of a `thub`); `SE.next` reads one item of every leaf of a coefficient, so an object
that is read from two places hands every other value to each.  The driver runs `thubModel` (entry `thub`)
against the real designs called with `Stream(*values)` arguments, their filter objects read by arbitrary
schedules. -/

/-- **C13.13a** "stream-valued parameters whose coefficients must equal the constant design's sample by
sample", for EVERY strategy (`lowpass` / `highpass` × 4, `resonator` × 4, `comb.fb` / `tau` / `ff` with every
delay, `gammatone.klapuri`), every pair of argument sequences, every schedule of reads (any order, any
rates), any number type (the driver's `Float` run and the reals): read number `k` of the filter object at
position `j` shows — after `Poly`'s "a zero NUMBER is not stored" — section `j` of the constant design of
value number `k` of each argument. -/
theorem thub_reads_are_constant_designs {α : Type} [TrigField α] [ZeroTest α] (kind : Kind) (v1 v2 : List α)
    (sched : List ℕ) :
    (thubModel kind v1 v2 sched).map trimmed = constReads kind v1 v2 [] sched := by
  unfold thubModel
  rw [runReads_eq_specReads _ _ (wf_linear _ (wf_progOf kind)) sched [] Pos.init (fun _ _ _ => rfl)]
  exact specReads_trimmed kind v1 v2 [] sched

/-- **C13.13b** the strategy bodies use their tee hubs correctly: one identifier = one hub, every iterator
object (argument, hub copy) has exactly ONE reader, and of a hub declared with `n` copies exactly `n` are
taken (`wfDesign`; no `MemoryLeakWarning`, no `IndexError`) — in particular no two coefficients read the
same object (`Linear`). -/
theorem thub_programs_wellformed (kind : Kind) : wfDesign (progOf kind) = true ∧ Linear (progOf kind) :=
  ⟨wf_progOf kind, wf_linear _ (wf_progOf kind)⟩

/-- **C13.13c** the machine, for ANY cascade of filter objects no two of which read a common iterator
object, any arguments, any schedule: read number `k` of position `j` shows ITS instant `k`
(`secAt p k`), whatever was read in between. -/
theorem thub_machine_schedule {α : Type} [TrigField α] [ZeroTest α] (p : ℕ → ℕ → α) (secs : List SSec)
    (h : Linear secs) (sched : List ℕ) :
    runReads p secs sched Pos.init = specReads p secs [] sched :=
  runReads_eq_specReads p secs h sched [] Pos.init (fun _ _ _ => rfl)

/-- **C13.13d** `gammatone.klapuri`: the four sections are four DIFFERENT filter objects — four calls, each
with its own hubs and its own copy of `freq` and of `2·bandwidth`: no iterator object is read by two
sections — and at every instant they are the constant `klapuri` design of that instant's values. -/
theorem klapuri_sections_are_distinct_objects {α : Type} [TrigField α] [ZeroTest α] (p : ℕ → ℕ → α) (k : ℕ) :
    (klapuriS (.par 0) (.par 1)).length = 4 ∧ Linear (klapuriS (.par 0) (.par 1)) ∧
    (∀ i j : ℕ, i ≠ j → ∀ o : IObj, o ∈ secLeaves ((klapuriS (.par 0) (.par 1)).getD i emptySec) →
        o ∉ secLeaves ((klapuriS (.par 0) (.par 1)).getD j emptySec)) ∧
    (klapuriS (.par 0) (.par 1)).map (fun s => trimmed (secAt p k s)) = gammatoneKlapuri (p 0 k) (p 1 k) := by
  have hl : Linear (klapuriS (.par 0) (.par 1)) := wf_linear _ (wf_progOf .klapuri)
  exact ⟨rfl, hl, fun i j hij o hi hj => linear_disjoint _ hl i j hij o hi hj, klapuriS_at p k _ _⟩

/-- **C13.13e** why they must be: with the two sections designed once and the pair repeated (`pair * 2`,
the same two objects at positions 0, 2 and 1, 3) the cascade is not `Linear`, and reading the four
positions once each — the first output sample — shows instant 0 at positions 0, 1 but instant ONE at
positions 2, 3: each object hands every other value of the arguments to each of its two places. -/
theorem klapuri_aliased_shows_next_instant {α : Type} [TrigField α] [ZeroTest α] (p : ℕ → ℕ → α) :
    ¬ Linear (klapuriAliasedS (.par 0) (.par 1)) ∧
    runReads p (klapuriAliasedS (.par 0) (.par 1)) [0, 1, 2, 3] Pos.init
      = [secAt p 0 ((klapuriAliasedS (.par 0) (.par 1)).getD 0 emptySec),
         secAt p 0 ((klapuriAliasedS (.par 0) (.par 1)).getD 1 emptySec),
         secAt p 1 ((klapuriAliasedS (.par 0) (.par 1)).getD 0 emptySec),
         secAt p 1 ((klapuriAliasedS (.par 0) (.par 1)).getD 1 emptySec)] := by
  refine ⟨klapuriAliased_not_linear, ?_⟩
  have hpair : Linear ((klapuriAliasedS (.par 0) (.par 1)).take 2) := by unfold Linear; decide
  have h := runReads_eq_specReads p _ hpair [0, 1, 0, 1] [] Pos.init (fun _ _ _ => rfl)
  exact h

/-- **C13.13f** one object read from two places, in general: the second read shows the NEXT instant. -/
theorem shared_object_reads_alternate {α : Type} [TrigField α] [ZeroTest α] (p : ℕ → ℕ → α) (s : SSec)
    (st : Pos) (k : ℕ) (hk : ∀ o ∈ secLeaves s, st o = k) (hnd : (secLeaves s).Nodup) :
    (readSec p s st).1 = secAt p k s ∧ (readSec p s (readSec p s st).2).1 = secAt p (k + 1) s :=
  readSec_twice p s st k hk hnd

/-- **C13.13g** with NUMBER arguments (constant sequences) any sharing is harmless: whatever the cascade
(one filter object at several positions, as `[fn] * (eta - 1)` in `gammatone.sampled`), whatever the
schedule and the state, every read shows the one constant design — a filter object with number
coefficients keeps nothing between two reads. -/
theorem number_arguments_any_sharing_harmless {α : Type} [TrigField α] [ZeroTest α] (p : ℕ → ℕ → α)
    (hp : ∀ i k, p i k = p i 0) (secs : List SSec) (sched : List ℕ) (st : Pos) :
    runReads p secs sched st = sched.map fun j => secAt p 0 (secs.getD j emptySec) := by
  induction sched generalizing st with
  | nil => rfl
  | cons j js ih => simp only [runReads, List.map_cons, readSec_const p hp, ih]

-- 13c / 13d: the klapuri cascade is linear; 13f: a section whose leaves are all at position 0
example : Linear (progOf .klapuri) := (thub_programs_wellformed .klapuri).2
example : ∀ o ∈ secLeaves (lowpassS 0 .z (.par 0)), Pos.init o = 0 := fun _ _ => rfl
example : (secLeaves (lowpassS 0 .z (.par 0))).Nodup := by decide
-- 13g: number arguments are constant sequences
example (a b : ℝ) : ∀ i k, argSeq [a] [b] i k = argSeq [a] [b] i 0 := by
  intro i k; simp [argSeq, cyc, Nat.mod_one]

/-! ### 14. the clauses "pole strictly inside the unit circle" / "pole radius" are not vacuous, and every
gammatone section is stable -/

/-- **C13.14a** every lowpass / highpass design HAS its pole (4a says where every pole lies), except
`lowpass.z` / `highpass.z` at the cut-off `π/2` exactly, where `R = 0`: the design is the FIR filter
`(1 ± z⁻¹)/2` (pole at the origin). -/
theorem lowpass_highpass_pole_exists (st : Strategy) (c : ℝ) (h0 : 0 < c) (h1 : c < Real.pi) :
    ((∃ p : ℂ, IsPole (lowpass st c) p) ↔ ¬ (st = .z ∧ Real.cos c = 0)) ∧
    ((∃ p : ℂ, IsPole (highpass st c) p) ↔ ¬ (st = .z ∧ Real.cos c = 0)) := by
  have hs := Real.sin_pos_of_pos_of_lt_pi h0 h1
  have hz : zR c = 0 ↔ Real.cos c = 0 := by
    have e := zR_mul_sin c h0 h1
    constructor
    · intro h; rw [h, zero_mul] at e; exact e.symm
    · intro h; rw [h] at e
      rcases mul_eq_zero.1 e with h' | h'
      · exact h'
      · linarith
  obtain ⟨_, _, pl⟩ := lowpassR_bounds st c h0 h1
  obtain ⟨_, _, ph⟩ := highpassR_bounds st c h0 h1
  have key : ∀ x : ℝ, (∃ p : ℂ, p ≠ 0 ∧ p = ((x : ℝ) : ℂ)) ↔ x ≠ 0 := by
    intro x
    constructor
    · rintro ⟨p, hp, rfl⟩; exact_mod_cast hp
    · intro hx; exact ⟨_, by exact_mod_cast hx, rfl⟩
  constructor
  · simp only [lowpass_isPole_iff, key]
    cases st
    · simp [lowpassPoleAt, (pl (by decide)).ne']
    · simp [lowpassPoleAt, lowpassR, hz]
    · simp [lowpassPoleAt, (pl (by decide)).ne']
    · simp [lowpassPoleAt, (pl (by decide)).ne']
  · simp only [highpass_isPole_iff, key]
    cases st
    · simp [highpassPoleAt, (ph (by decide)).ne']
    · simp [highpassPoleAt, highpassR, hz]
    · simp [highpassPoleAt, (ph (by decide)).ne']
    · simp [highpassPoleAt, (ph (by decide)).ne']

/-- **C13.14b** every resonator HAS a pole of the documented radius `e^{-bw/2}` (5e says that every pole has
it): `poles_exp`, `freq_poles_exp`, `freq_z_exp` for all parameters, `z_exp` on its region
`|cos f|·(1+R²) ≤ 2R`. -/
theorem resonator_poles_exist (st : ResStrategy) (f bw : ℝ) (h0 : 0 < f) (h1 : f < Real.pi)
    (hz : st = .zExp → |Real.cos f| * (1 + Real.exp (-(bw / 2)) ^ 2) ≤ 2 * Real.exp (-(bw / 2))) :
    ∃ p : ℂ, IsPole (resonator st f bw) p ∧ ‖p‖ = Real.exp (-(bw / 2)) := by
  have hR0 := resR_pos bw
  have hf := cos_sq_lt_one_of_mem f h0 h1
  have r := resonator_pole_radius f bw h0 h1
  have key : ∀ (b : List ℝ) (ct : ℝ), ct ^ 2 ≤ 1 →
      ∃ p : ℂ, IsPole (C13.mk b [1, -(2 * Real.exp (-(bw / 2)) * ct), Real.exp (-(bw / 2)) ^ 2]) p :=
    fun b ct h => ⟨_, res_pole_exists b _ ct hR0 h⟩
  cases st
  · obtain ⟨p, hp⟩ : ∃ p : ℂ, IsPole (resonator .polesExp f bw) p := by
      simp only [resonator, resonatorPolesExp_eq]
      exact key _ _ (ctPoles_sq_lt_one f _ hR0 hf).le
    exact ⟨p, hp, (r p).1 hp⟩
  · obtain ⟨p, hp⟩ : ∃ p : ℂ, IsPole (resonator .freqPolesExp f bw) p := by
      simp only [resonator, resonatorFreqPolesExp_eq]
      exact key _ _ hf.le
    exact ⟨p, hp, (r p).2.1 hp⟩
  · obtain ⟨p, hp⟩ : ∃ p : ℂ, IsPole (resonator .zExp f bw) p := by
      simp only [resonator, resonatorZExp_eq]
      exact key _ _ ((ctZ_sq_le_one_iff f _ hR0).2 (hz rfl))
    exact ⟨p, hp, (r p).2.2.2 (hz rfl) hp⟩
  · obtain ⟨p, hp⟩ : ∃ p : ℂ, IsPole (resonator .freqZExp f bw) p := by
      simp only [resonator, resonatorFreqZExp_eq]
      exact key _ _ hf.le
    exact ⟨p, hp, (r p).2.2.1 hp⟩

/-- **C13.14c** "every gammatone strategy returns a cascade of STABLE sections", in one statement: every
pole of every section of `slaney`, of `sampled` (every order `eta`, every phase) and of `klapuri` lies
strictly inside the unit circle, for every centre frequency in (0, π) and bandwidth > 0. -/
theorem gammatone_every_section_stable (f bw : ℝ) (h0 : 0 < f) (h1 : f < Real.pi) (hbw : 0 < bw) (p : ℂ) :
    (∀ s ∈ gammatoneSlaney f bw, IsPole s p → ‖p‖ < 1) ∧
    (∀ (φ : ℝ) (eta : ℕ), ∀ s ∈ gammatoneSampled f bw φ eta, IsPole s p → ‖p‖ < 1) ∧
    (∀ s ∈ gammatoneKlapuri f bw, IsPole s p → ‖p‖ < 1) := by
  obtain ⟨m1, m2, m3⟩ := gammatone_meets_contract f bw h0 h1 hbw
  exact ⟨fun s hs => (m1 s hs).2.2.2.2.2.2.2.2 p, fun φ eta s hs => (m2 φ eta s hs).2.2.2.2.2.2.2.2 p,
    fun s hs => (m3 s hs).2.2.2.2.2.2.2.2 p⟩

-- 14b: the z_exp hypothesis at f = π/2 (every bandwidth): see the example of 5e above

/-! ## 15. The strategy bodies REGENERATED from the source are the transcribed programs

`ALV/Gen/C13Src.lean` is rewritten on every run by `harness/props/c13_tr.py` from the text of
`audiolazy/lazy_filters.py` / `lazy_auditory.py` (read with `ast`): one Lean definition per thub-based strategy
body (`x = thub(x, 2)` assignments with their counts, the arithmetic, `z ** -k`, `cos / sin / sqrt / exp`, the
`el if el else 1` idiom, klapuri's list of strategy references and its cascade of calls).  The theorems below
say that each of them IS the hand transcription of `ALV/Model/C13Thub.lean` — as functions of the hub base and
of the argument expressions — so that sections 13 and 1–12 (through `progOf_at`: the scalar design formulas of
`ALV/Model/C13.lean` are the programs instant by instant) speak about what the source says now.  An edit of a
strategy body that changes its meaning breaks the corresponding `src_…_is_model`. -/

theorem src_lowpass_pole_is_model : ALV.Gen.C13.lowpass_pole = lowpassPoleS := Src.lowpass_pole
theorem src_lowpass_z_is_model : ALV.Gen.C13.lowpass_z = lowpassZS := Src.lowpass_z
theorem src_lowpass_pole_exp_is_model : ALV.Gen.C13.lowpass_pole_exp = lowpassPoleExpS := Src.lowpass_pole_exp
theorem src_lowpass_z_exp_is_model : ALV.Gen.C13.lowpass_z_exp = lowpassZExpS := Src.lowpass_z_exp
theorem src_highpass_pole_is_model : ALV.Gen.C13.highpass_pole = highpassPoleS := Src.highpass_pole
theorem src_highpass_z_is_model : ALV.Gen.C13.highpass_z = highpassZS := Src.highpass_z
theorem src_highpass_pole_exp_is_model : ALV.Gen.C13.highpass_pole_exp = highpassPoleExpS := Src.highpass_pole_exp
theorem src_highpass_z_exp_is_model : ALV.Gen.C13.highpass_z_exp = highpassZExpS := Src.highpass_z_exp
theorem src_resonator_poles_exp_is_model : ALV.Gen.C13.resonator_poles_exp = resonatorPolesExpS :=
  Src.resonator_poles_exp
theorem src_resonator_freq_poles_exp_is_model : ALV.Gen.C13.resonator_freq_poles_exp = resonatorFreqPolesExpS :=
  Src.resonator_freq_poles_exp
theorem src_resonator_z_exp_is_model : ALV.Gen.C13.resonator_z_exp = resonatorZExpS := Src.resonator_z_exp
theorem src_resonator_freq_z_exp_is_model : ALV.Gen.C13.resonator_freq_z_exp = resonatorFreqZExpS :=
  Src.resonator_freq_z_exp
theorem src_comb_fb_is_model : ALV.Gen.C13.comb_fb = combFbS := Src.comb_fb
theorem src_comb_tau_is_model : ALV.Gen.C13.comb_tau = combTauS := Src.comb_tau
theorem src_comb_ff_is_model : ALV.Gen.C13.comb_ff = combFfS := Src.comb_ff
theorem src_gammatone_klapuri_is_model : ALV.Gen.C13.gammatone_klapuri = klapuriS := Src.gammatone_klapuri

/-- **C13.15a** the regenerated dispatch `design kind ↦ stream program` is the model's, for every kind (every
comb delay) -/
theorem src_progOf_is_model (kind : Kind) : ALV.Gen.C13.progOf kind = progOf kind := Src.progOf kind

/-- **C13.15b** the same for the closed programs (arguments `par 0`, `par 1`; comb delays 0 … 3), by the decision
procedure of `DecidableEq SSec` instead of unfolding -/
theorem src_programs_decide :
    ([Kind.lowpass .pole, .lowpass .z, .lowpass .poleExp, .lowpass .zExp,
      .highpass .pole, .highpass .z, .highpass .poleExp, .highpass .zExp,
      .resonator .polesExp, .resonator .freqPolesExp, .resonator .zExp, .resonator .freqZExp,
      .combFb 0, .combFb 1, .combFb 3, .combTau 0, .combTau 2, .combFf 0, .combFf 3, .klapuri].all
        fun k => decide (ALV.Gen.C13.progOf k = progOf k)) = true := Src.progOf_decide

/-- **C13.15c** theorem 13a about the REGENERATED bodies: the tee-hub machine run on what the source says,
for every strategy, every pair of argument sequences, every schedule of reads, shows — after `Poly`'s "a zero
NUMBER is not stored" — the constant design (`ALV/Model/C13.lean`: the formulas sections 1–12 are about) of
the instant's values. -/
theorem src_reads_are_constant_designs {α : Type} [TrigField α] [ZeroTest α] (kind : Kind) (v1 v2 : List α)
    (sched : List ℕ) :
    (runReads (argSeq v1 v2) (ALV.Gen.C13.progOf kind) sched Pos.init).map trimmed
      = constReads kind v1 v2 [] sched := by
  rw [src_progOf_is_model]; exact thub_reads_are_constant_designs kind v1 v2 sched

/-- **C13.15d** the scalar design formulas ARE the regenerated bodies instant by instant: section `j` of the
regenerated program of a kind, every leaf at its `k`-th value, is section `j` of `designOf kind` (lowpass /
highpass / resonator / comb / klapuri of `ALV/Model/C13.lean`, the definitions the driver's Float twin runs)
at value number `k` of each argument. -/
theorem src_instants_are_the_design_formulas {α : Type} [TrigField α] [ZeroTest α] (kind : Kind) (v1 v2 : List α)
    (k : ℕ) :
    (ALV.Gen.C13.progOf kind).map (fun s => trimmed (secAt (argSeq v1 v2) k s))
      = designOf kind (cyc v1 k) (cyc v2 k) := by
  rw [src_progOf_is_model]; exact progOf_at kind v1 v2 k

/-- **C13.15e** theorem 13b about the regenerated bodies: the source uses its tee hubs correctly (one reader per
iterator object, of a hub declared with `n` copies exactly `n` are taken). -/
theorem src_programs_wellformed (kind : Kind) :
    wfDesign (ALV.Gen.C13.progOf kind) = true ∧ Linear (ALV.Gen.C13.progOf kind) := by
  rw [src_progOf_is_model]; exact thub_programs_wellformed kind

/-! ### 15f. The scalar functions of lazy_auditory.py REGENERATED from the source

`erb.gm90` / `erb.mg83` (the `Hz is None` branch with its refusal `freq < 7` and unit `Hz = 1`, the formula after
it, the strategy table and its default = the strategy registered first) and `gammatone_erb_constants(n)` (`tnt`,
the factorial quotient, the 3 dB constant) are translated by `harness/props/c13_tr.py` (typed expression
translation: Python ints stay in `Nat`, an int meeting a float is converted, a float literal is the decimal
`ofRat p q` it reads back as) and are the model's functions, as functions, at every number class.  Theorems 12a,
12d, 12e are restated about the regenerated definitions. -/

theorem src_erb_gm90_is_model {α : Type} [TrigField α] :
    (ALV.Gen.C13.erb_gm90_tail : α → α → α) = erbGm90 := Src.erb_gm90
theorem src_erb_mg83_is_model {α : Type} [TrigField α] :
    (ALV.Gen.C13.erb_mg83_tail : α → α → α) = erbMg83 := Src.erb_mg83
theorem src_erb_call_is_model {α : Type} [TrigField α] [LtTest α] :
    (ALV.Gen.C13.erb_call : Option ErbStrategy → α → Option α → Except Unit α) = erbCall := Src.erb_call
theorem src_gammatone_erb_constants_is_model {α : Type} [TrigField α] :
    (ALV.Gen.C13.gammatone_erb_constants : ℕ → α × α) = gammatoneErbConstants := Src.gammatone_erb_constants

/-- **C13.15g** theorem 12a (`erb_closed_forms`) about the regenerated formulas -/
theorem src_erb_closed_forms (f Hz : ℝ) (h : Hz ≠ 0) :
    ALV.Gen.C13.erb_gm90_tail f Hz = (247 / 10) * ((437 / 100000) * f + Hz) ∧
    ALV.Gen.C13.erb_mg83_tail f Hz
      = (623 / 100000000) * f ^ 2 / Hz + (9339 / 100000) * f + (2852 / 100) * Hz ∧
    ALV.Gen.C13.erb_gm90_tail f 1 = (247 / 10) * ((437 / 100) * (f / 1000) + 1) ∧
    ALV.Gen.C13.erb_mg83_tail f 1
      = (623 / 100) * (f / 1000) ^ 2 + (9339 / 100) * (f / 1000) + 2852 / 100 := by
  rw [src_erb_gm90_is_model, src_erb_mg83_is_model]; exact erb_closed_forms f Hz h

/-- **C13.15h** theorem 12d (`erb_call`) about the regenerated call: the refusal below 7 without `Hz`, the unit 1
from 7 on, the formula whatever the frequency with `Hz`; `st` omitted: the strategy registered first -/
theorem src_erb_call (st : Option ErbStrategy) (f : ℝ) :
    (f < 7 → ALV.Gen.C13.erb_call st f none = .error ()) ∧
    (7 ≤ f → ALV.Gen.C13.erb_call st f none = .ok (erb (st.getD .gm90) f 1)) ∧
    (∀ hz : ℝ, ALV.Gen.C13.erb_call st f (some hz) = .ok (erb (st.getD .gm90) f hz)) := by
  rw [src_erb_call_is_model]; exact erb_call st f

/-- **C13.15i** theorem 12e (`gammatone_erb_constants_closed_form`) about the regenerated function -/
theorem src_gammatone_erb_constants_closed_form (n : ℕ) (hn : 1 ≤ n) :
    (ALV.Gen.C13.gammatone_erb_constants n : ℝ × ℝ).1
      = ((n - 1).factorial : ℝ) ^ 2 * 4 ^ (n - 1) / (Real.pi * ((2 * (n - 1)).factorial : ℝ)) ∧
    0 < (ALV.Gen.C13.gammatone_erb_constants n : ℝ × ℝ).1 ∧
    (ALV.Gen.C13.gammatone_erb_constants n : ℝ × ℝ).2 = 2 * Real.sqrt ((2 : ℝ) ^ ((1 : ℝ) / n) - 1) ∧
    0 < (ALV.Gen.C13.gammatone_erb_constants n : ℝ × ℝ).2 ∧
    (1 + ((ALV.Gen.C13.gammatone_erb_constants n : ℝ × ℝ).2 / 2) ^ 2) ^ n = 2 := by
  rw [src_gammatone_erb_constants_is_model]
  obtain ⟨h1, _, h3, h4, h5, h6⟩ := gammatone_erb_constants_closed_form n hn
  exact ⟨h1, h3, h4, h5, h6⟩


/-! ### 15j. `gammatone.sampled` REGENERATED from the source

The body of `gammatone.sampled` (the scalar `A`, the two polynomials in `z ** -k` as dense coefficient lists, the call
`(numerator / denominator).diff(n=eta-1, mul_after=-z)` = `diffNum … (eta - 1)` — the loop of `ZFilter.diff`, `eta - 1`
passes of `diffStep`, which stays a hand model of lazy_filters.py —, `ZFilter(filt.numpoly) / denominator`,
`1 / denominator`, the two divisions by the measured gain `abs(f.freq_response(freq))` = `normalise`, the cascade
`[f0] + [fn] * (eta - 1)`) and the defaults `phase=0, eta=4` of its `def` line are translated and are the model's
`gammatoneSampled` / `gammatoneSampledCall`, as functions.  7k (every section: unit gain at the centre frequency, poles
`A·e^{±jf}`) is restated about the regenerated definition; the closed form 7g of the differentiated numerator is about
`diffNum` on the very coefficient lists the regenerated body builds. -/

theorem src_gammatone_sampled_is_model {α : Type} [TrigField α] [ZeroTest α] :
    (ALV.Gen.C13.gammatone_sampled : α → α → α → ℕ → List (Coefs α)) = gammatoneSampled := Src.gammatone_sampled
theorem src_gammatone_sampled_call_is_model {α : Type} [TrigField α] [ZeroTest α] :
    (ALV.Gen.C13.gammatone_sampled_call : α → α → Option α → Option ℕ → List (Coefs α)) = gammatoneSampledCall :=
  Src.gammatone_sampled_call

/-- **C13.15k** theorem 7k (`gammatone_sampled_all_sections`) about the regenerated body -/
theorem src_gammatone_sampled_all_sections (f bw φ : ℝ) (eta : ℕ) (h0 : 0 < f) (h1 : f < Real.pi)
    (hbw : 0 < bw) :
    (ALV.Gen.C13.gammatone_sampled f bw φ eta).length = eta - 1 + 1 ∧ Real.exp (-bw) < 1 ∧
    ∀ s ∈ ALV.Gen.C13.gammatone_sampled f bw φ eta, magSq s f = 1 ∧
      ∀ p : ℂ, IsPole s p ↔ p = Real.exp (-bw) * Complex.exp (I * f) ∨
                           p = Real.exp (-bw) * Complex.exp (-(I * f)) := by
  rw [src_gammatone_sampled_is_model]; exact gammatone_sampled_all_sections f bw φ eta h0 h1 hbw

-- 15c / 15d on a concrete input: lowpass.pole regenerated, read twice with a two-valued cut-off Stream
example : (runReads (argSeq [(1 : Float), 2] [0.5]) (ALV.Gen.C13.progOf (.lowpass .pole)) [0, 0] Pos.init).length = 2 := rfl

end ALV.Props.C13

#write_audit "C13"
