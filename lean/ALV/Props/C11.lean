/-
  C11 — property theorems.  Only statements of the property, non-vacuity examples and the
  audit live here; helper lemmas are in `ALV.Lemmas.C11*`.

  Vocabulary: `parcorCoded d num` = `list(parcor(ZFilter(num, [d])))` as coded (yields, raised);
  `parcorFixed` = the same loop with the proposed repair of D3; `parcorSpec` = the specification
  (monic normalisation, textbook step-down); `stepUp ks` = Levinson order updates from the
  reflection coefficients `ks` (first first).
-/
import ALV.Lemmas.C11Order2
import ALV.Lemmas.C11Lev
import ALV.Lemmas.C11Poles
import ALV.Lemmas.C11Converse
import ALV.Lemmas.C11Hist
import ALV.Lemmas.C11Sharp
import ALV.Lemmas.C11Float
import ALV.Lemmas.C11Call
import ALV.Lemmas.C11LevFloat
import ALV.Lemmas.C11Round4
import ALV.Lemmas.C11Src
import ALV.Model.C11Apply
import Mathlib.Tactic.Linarith
import ALV.Common.Audit

set_option linter.unusedSectionVars false

namespace ALV.Props.C11
open ALV.C11
variable {K : Type} [Field K] [DecidableEq K]

/-! ### 1. step-down inverts step-up, both directions, any order, any field -/

/-- **C11.1a** `parcor` (as coded, denominator 1) of the filter stepped up from `k_1 … k_n`
yields exactly `k_n, …, k_1` and does not raise — any order, any field, provided no `k_m² = 1`
and `k_n ≠ 0` (the order is the highest non-zero coefficient). -/
theorem stepdown_stepup (ks : List K) (h1 : ∀ k ∈ ks, k * k ≠ 1) (hlast : ks.getLastD 1 ≠ 0) :
    parcorCoded 1 (stepUp ks) = (ks.reverse, false) := by
  obtain ⟨t, ht⟩ := stepUp_head ks
  have hs : stripZeros (stepUp ks) = 1 :: t := by
    rw [stripZeros_of_last_ne _ (stepUp_last_ne ks hlast), ht]
  rw [parcorCoded_eq_spec 1 _ t one_ne_zero hs]
  unfold parcorSpec
  rw [hs, monic_cons 1 t one_ne_zero]
  have : (1 : K) :: t.map (fun x => x / 1) = stepUp ks := by rw [ht]; simp
  rw [this]
  show sdLoop ((stepUp ks).length - 1) (stepUp ks) = _
  rw [stepUp_length, Nat.add_sub_cancel]
  exact sdLoop_stepUp ks h1

/-- the same for the specification -/
theorem stepdown_stepup_spec (ks : List K) (h1 : ∀ k ∈ ks, k * k ≠ 1) (hlast : ks.getLastD 1 ≠ 0) :
    parcorSpec (stepUp ks) = (ks.reverse, false) := by
  obtain ⟨t, ht⟩ := stepUp_head ks
  have hs : stripZeros (stepUp ks) = 1 :: t := by
    rw [stripZeros_of_last_ne _ (stepUp_last_ne ks hlast), ht]
  rw [← parcorCoded_eq_spec 1 _ t one_ne_zero hs]
  exact stepdown_stepup ks h1 hlast

/-- **C11.1b** rebuilding: whenever `parcor` (as coded) runs to its end on a filter whose leading
coefficient equals the constant denominator `d`, the step-up of the yielded coefficients (read
backwards) is the monic normalisation of the filter. -/
theorem stepup_stepdown (d : K) (num t ks : List K) (hd : d ≠ 0) (hs : stripZeros num = d :: t)
    (h : parcorCoded d num = (ks, false)) : stepUp ks.reverse = monic (stripZeros num) := by
  rw [parcorCoded_eq_spec d num t hd hs] at h
  unfold parcorSpec at h
  rw [hs, monic_cons d t hd] at h ⊢
  simp only [List.length_cons, List.length_map, Nat.add_sub_cancel] at h
  exact stepUp_sdLoop _ _ ks (by simp) h

/-- the same for the specification: any non-zero leading coefficient -/
theorem stepup_stepdown_spec (f t ks : List K) (g : K) (hg : g ≠ 0) (hs : stripZeros f = g :: t)
    (h : parcorSpec f = (ks, false)) : stepUp ks.reverse = monic (stripZeros f) := by
  unfold parcorSpec at h
  rw [hs, monic_cons g t hg] at h ⊢
  simp only [List.length_cons, List.length_map, Nat.add_sub_cancel] at h
  exact stepUp_sdLoop _ _ ks (by simp) h

/-! ### 2. the code against the specification -/

/-- **C11.2a** as coded = specification whenever the numerator's leading coefficient equals `den[0]`
(in particular: monic numerator over denominator 1, the only case the repo's tests exercise). -/
theorem coded_eq_spec (d : K) (num t : List K) (hd : d ≠ 0) (hs : stripZeros num = d :: t) :
    parcorCoded d num = parcorSpec num := parcorCoded_eq_spec d num t hd hs

/-- **C11.2b** the repaired loop = specification for every non-zero leading coefficient. -/
theorem fixed_eq_spec (num t : List K) (g : K) (hg : g ≠ 0) (hs : stripZeros num = g :: t) :
    parcorFixed num = parcorSpec num := parcorFixed_eq_spec num g t hg hs

/-! ### 3. ParCorError -/

/-- **C11.3** `parcor` as coded raises `ParCorError` iff one of the yielded coefficients has
`k² = 1` — for every input, whatever its leading coefficient and constant denominator. -/
theorem parcor_error_iff (d : K) (num : List K) :
    (parcorCoded d num).2 = true ↔ ∃ k ∈ (parcorCoded d num).1, k * k = 1 := by
  unfold parcorCoded
  exact ploop_raised_iff _ _ _ _

/-- in the words of the property: `ParCorError` iff some yielded `k` is `1` or `−1` -/
theorem parcor_error_iff_unit (d : K) (num : List K) :
    (parcorCoded d num).2 = true ↔ ∃ k ∈ (parcorCoded d num).1, k = 1 ∨ k = -1 := by
  rw [parcor_error_iff]
  constructor
  · rintro ⟨k, hk, h⟩; exact ⟨k, hk, mul_self_eq_one_iff.mp h⟩
  · rintro ⟨k, hk, h⟩; exact ⟨k, hk, mul_self_eq_one_iff.mpr h⟩

theorem parcor_error_iff_spec (f : List K) :
    (parcorSpec f).2 = true ↔ ∃ k ∈ (parcorSpec f).1, k * k = 1 := by
  unfold parcorSpec
  exact sdLoop_raised_iff _ _

/-- without `ParCorError`, as many coefficients as the order are yielded -/
theorem parcor_count_spec (f : List K) (h : (parcorSpec f).2 = false) :
    (parcorSpec f).1.length = (stripZeros f).length - 1 := by
  unfold parcorSpec at h ⊢
  rw [sdLoop_length _ _ h]; simp [monic]

/-! ### 4. a non-zero gain changes nothing ("whatever non-zero leading coefficient") -/

theorem parcor_scale (c : K) (hc : c ≠ 0) (f : List K) : parcorSpec (scale c f) = parcorSpec f :=
  parcorSpec_scale c hc f

section Order
variable {L : Type} [Field L] [LinearOrder L] [IsStrictOrderedRing L]

/-- **C11.4a** the stability verdict of the specification ignores any non-zero gain. -/
theorem stable_scale (c : L) (hc : c ≠ 0) (f : List L) :
    parcorStableSpec (scale c f) = parcorStableSpec f := by
  unfold parcorStableSpec
  rw [parcorSpec_scale c hc]

/-- **C11.4b** `parcor_stable` as coded = specification on denominators with leading coefficient 1. -/
theorem stableCoded_eq_spec (den t : List L) (hs : stripZeros den = 1 :: t) :
    parcorStableCoded den = parcorStableSpec den := by
  rw [parcorStableCoded_eq, parcorCoded_eq_spec 1 den t one_ne_zero hs]
  unfold parcorStableSpec
  congr 2
  funext k
  exact absLt1_iff k

/-- **C11.4c** the repaired `parcor_stable` = specification for every non-zero leading coefficient,
hence it ignores the gain. -/
theorem stableFixed_eq_spec (den t : List L) (g : L) (hg : g ≠ 0) (hs : stripZeros den = g :: t) :
    parcorStableFixed den = parcorStableSpec den := by
  rw [parcorStableFixed_eq, parcorFixed_eq_spec den g t hg hs]
  unfold parcorStableSpec
  congr 2
  funext k
  exact absLt1_iff k

theorem stableFixed_scale (c g : L) (hc : c ≠ 0) (hg : g ≠ 0) (den t : List L)
    (hs : stripZeros den = g :: t) :
    parcorStableFixed (scale c den) = parcorStableFixed den := by
  have hs' : stripZeros (scale c den) = (c * g) :: scale c t := by
    rw [stripZeros_scale c hc, hs]; rfl
  rw [stableFixed_eq_spec _ _ (c * g) (mul_ne_zero hc hg) hs', stableFixed_eq_spec _ _ g hg hs,
    stable_scale c hc]

end Order

/-- **C11.4d (defect D3)** the gain clause is FALSE for the code as it stands: `1/(1 - z⁻¹/2)` is
stable, `1/(2 - z⁻¹)` (the same pole 1/2) is declared unstable. -/
theorem stable_scale_fails_as_coded :
    ¬ ∀ (c : Rat) (f : List Rat), c ≠ 0 → parcorStableCoded (scale c f) = parcorStableCoded f := by
  intro h
  have := h 2 [1, -1/2] (by decide)
  have h1 : parcorStableCoded (scale (2 : Rat) [1, -1/2]) = false := by decide +kernel
  have h2 : parcorStableCoded ([1, -1/2] : List Rat) = true := by decide +kernel
  rw [h1, h2] at this
  exact Bool.false_ne_true this

/-! ### 5. Schur–Cohn: the verdict against the pole locations (real coefficients, complex poles)

The poles of `num / den` (den₀ ≠ 0) are the roots of `Σ den_i z^(n-i)` = `evalC den.reverse`. -/

/-- **C11.5a** every order: a `true` verdict of the specification implies that every pole lies
strictly inside the unit circle (critical and unstable filters get `false`). -/
theorem schur_cohn_sufficient (den t : List ℝ) (g : ℝ) (hg : g ≠ 0) (hs : stripZeros den = g :: t)
    (h : parcorStableSpec den = true) :
    ∀ z : ℂ, evalC den.reverse z = 0 → Complex.normSq z < 1 :=
  fun z hz => stableSpec_poles_inside den t g hg hs h z hz

/-- the same for `parcor_stable` as repaired (any non-zero leading coefficient) and as coded
(leading coefficient 1) -/
theorem stableFixed_poles_inside (den t : List ℝ) (g : ℝ) (hg : g ≠ 0) (hs : stripZeros den = g :: t)
    (h : parcorStableFixed den = true) :
    ∀ z : ℂ, evalC den.reverse z = 0 → Complex.normSq z < 1 := by
  rw [stableFixed_eq_spec den t g hg hs] at h
  exact schur_cohn_sufficient den t g hg hs h

theorem stableCoded_poles_inside (den t : List ℝ) (hs : stripZeros den = 1 :: t)
    (h : parcorStableCoded den = true) :
    ∀ z : ℂ, evalC den.reverse z = 0 → Complex.normSq z < 1 := by
  rw [stableCoded_eq_spec den t hs] at h
  exact schur_cohn_sufficient den t 1 one_ne_zero hs h

/-- **C11.5b** order 1, both directions (explicit root) -/
theorem schur_cohn_order1 (a0 a1 : ℝ) (h0 : a0 ≠ 0) (h1 : a1 ≠ 0) :
    parcorStableSpec [a0, a1] = true ↔
      ∀ z : ℂ, evalC [a0, a1].reverse z = 0 → Complex.normSq z < 1 := by
  constructor
  · exact schur_cohn_sufficient [a0, a1] [a1] a0 h0 (by simp [stripZeros, h1])
  · intro h; exact order1_converse a0 a1 h0 h1 (by simpa using h)

/-- **C11.5c** order 2, both directions (real double roots, distinct real roots, conjugate pairs) -/
theorem schur_cohn_order2 (a0 a1 a2 : ℝ) (h0 : a0 ≠ 0) (h2 : a2 ≠ 0) :
    parcorStableSpec [a0, a1, a2] = true ↔
      ∀ z : ℂ, evalC [a0, a1, a2].reverse z = 0 → Complex.normSq z < 1 := by
  constructor
  · exact schur_cohn_sufficient [a0, a1, a2] [a1, a2] a0 h0 (by simp [stripZeros, h2])
  · intro h; exact order2_converse a0 a1 a2 h0 h2 (by simpa using h)

/-- **C11.5 Schur–Cohn, both directions, EVERY order**: for a denominator with non-zero leading
coefficient, the verdict of the specification is `true` exactly when every pole (root of
`Σ den_i z^(n-i)`, complex) lies strictly inside the unit circle.  Necessity is proved without
Rouché: factorisation over ℂ, one Blaschke factor at a time (`Lemmas/C11Converse.lean`). -/
theorem schur_cohn (den t : List ℝ) (g : ℝ) (hg : g ≠ 0) (hs : stripZeros den = g :: t) :
    parcorStableSpec den = true ↔ ∀ z : ℂ, evalC den.reverse z = 0 → Complex.normSq z < 1 :=
  ⟨schur_cohn_sufficient den t g hg hs, poles_inside_stableSpec den t g hg hs⟩

/-- the repaired `parcor_stable` decides stability, every order, any non-zero leading coefficient -/
theorem stableFixed_iff_poles_inside (den t : List ℝ) (g : ℝ) (hg : g ≠ 0)
    (hs : stripZeros den = g :: t) :
    parcorStableFixed den = true ↔ ∀ z : ℂ, evalC den.reverse z = 0 → Complex.normSq z < 1 := by
  rw [stableFixed_eq_spec den t g hg hs]
  exact schur_cohn den t g hg hs

/-- `parcor_stable` as coded decides stability on denominators with leading coefficient 1 -/
theorem stableCoded_iff_poles_inside (den t : List ℝ) (hs : stripZeros den = 1 :: t) :
    parcorStableCoded den = true ↔ ∀ z : ℂ, evalC den.reverse z = 0 → Complex.normSq z < 1 := by
  rw [stableCoded_eq_spec den t hs]
  exact schur_cohn den t 1 one_ne_zero hs

/-- **C11.5d** "critical and unstable filters give False", every order: a denominator built with a
prescribed real pole or conjugate pair on or outside the unit circle gets the verdict `false`,
whatever the other poles and the non-zero gain. -/
theorem unstable_gives_false (g : ℝ) (hg : g ≠ 0) (reals : List ℝ) (pairs : List (ℝ × ℝ))
    (h : polesInside reals pairs = false) : parcorStableSpec (fromPoles g reals pairs) = false :=
  fromPoles_unstable g hg reals pairs h

/-- the same for the repaired `parcor_stable` -/
theorem unstable_gives_false_fixed (g : ℝ) (hg : g ≠ 0) (reals : List ℝ) (pairs : List (ℝ × ℝ))
    (h : polesInside reals pairs = false) : parcorStableFixed (fromPoles g reals pairs) = false := by
  obtain ⟨t, ht⟩ := fromPoles_head g reals pairs
  obtain ⟨t', ht'⟩ := stripZeros_head g hg t
  rw [← ht] at ht'
  rw [stableFixed_eq_spec _ t' g hg ht']
  exact fromPoles_unstable g hg reals pairs h

/-- **C11.5e** the constructed family (the inputs of the tie): the verdict IS the construction —
`true` iff every prescribed real pole and conjugate pair is strictly inside the unit circle;
every order, any non-zero gain. -/
theorem stable_eq_construction (g : ℝ) (hg : g ≠ 0) (reals : List ℝ) (pairs : List (ℝ × ℝ)) :
    parcorStableSpec (fromPoles g reals pairs) = polesInside reals pairs := by
  cases h : polesInside reals pairs with
  | true => exact fromPoles_stable g hg reals pairs h
  | false => exact fromPoles_unstable g hg reals pairs h

/-! ### 6. `levinson_durbin` as coded: reflection coefficients and prediction error -/

/-- **C11.6a** whenever `levinson_durbin(r, order)` returns (no `ParCorError`), with `ks` the
coefficients `k_m = −⟨A, z^-m⟩/⟨B, B⟩` of its loop: the filter is the step-up of `ks`, there are
`order` of them, and `A.error = r₀ · Π (1 − k_m²)` — any field, any order, any `r` (also shorter
than the order: zero extension). -/
theorem levinson_error (r : List K) (order : Nat) (a ks : List K) (e : K)
    (h : levinson r order = some (a, e, ks)) :
    a = stepUp ks ∧ ks.length = order ∧ e = r.headD 0 * (ks.map (fun k => 1 - k * k)).prod := by
  unfold levinson at h
  simp only [] at h
  cases hl : levLoop (extendAc r order) order ⟨[1], []⟩ with
  | none => rw [hl] at h; simp at h
  | some s =>
    rw [hl] at h
    simp only [Option.some.injEq, Prod.mk.injEq] at h
    obtain ⟨ha, he, hk⟩ := h
    have inv := levLoop_inv _ _ order _ s (linv_init (extendAc r order)) hl
    have hc := levLoop_count _ order _ s hl
    refine ⟨by rw [← ha, ← hk]; exact inv.up, by rw [← hk, hc]; simp, ?_⟩
    rw [← he, inner_self _ _ s inv, cf_extendAc_zero, errorSpec_eq_prod, hk]

/-- **C11.6b** `parcor(levinson_durbin(r))` yields, last first, exactly the reflection coefficients
of the recursion (no `k_m² = 1`, last one non-zero). -/
theorem parcor_levinson (r : List K) (order : Nat) (a ks : List K) (e : K)
    (h : levinson r order = some (a, e, ks)) (h1 : ∀ k ∈ ks, k * k ≠ 1) (hlast : ks.getLastD 1 ≠ 0) :
    parcorCoded 1 a = (ks.reverse, false) := by
  rw [(levinson_error r order a ks e h).1]
  exact stepdown_stepup ks h1 hlast

/-- **C11.4e (defect D3 made explicit, order 1)** over any ordered field the code answers
`|a₁| < 1` for the denominator `a₀ + a₁ z⁻¹`, where the property wants `|a₁ / a₀| < 1`. -/
theorem d3_order1 {L : Type} [Field L] [LinearOrder L] [IsStrictOrderedRing L]
    (a0 a1 : L) (h1 : a1 ≠ 0) : parcorStableCoded [a0, a1] = absLt1 a1 := by
  rw [parcorStableCoded_eq]
  have hs : stripZeros [a0, a1] = [a0, a1] := by simp [stripZeros, h1]
  have hk : lget 1 (wOfList 1 [a0, a1]) ((1 : Nat) : Int) = a1 := by
    rw [(rep_wOfList 1 [a0, a1] (by simp)).2, emb_nat]; rfl
  unfold parcorCoded
  rw [hs]
  simp only [normDen, if_true, List.length_cons, List.length_nil, Nat.add_sub_cancel, zero_add]
  rw [ploop_succ]
  unfold pstep
  simp only [hk]
  by_cases hz : (1 : L) - a1 * a1 = 0
  · rw [if_pos hz]
    simp only [Bool.not_true, Bool.false_and]
    symm
    rw [Bool.eq_false_iff]
    intro h
    rw [absLt1_iff] at h
    simp only [Bool.and_eq_true, decide_eq_true_eq] at h
    nlinarith
  · rw [if_neg hz]
    simp [ploop]

/-! ### 7. histories: filters are MUTABLE objects (`ALV/Model/C11Hist.lean`)

`step h op` = one operation of the caller on the heap of Poly / ZFilter objects, `run` = a whole
history.  `parcor` / `parcor_stable` at any point of a history are the single-call functions of the
sections above applied to the CURRENT contents of the two Poly objects the filter is bound to. -/
section Hist
open ALV.C11.Hist
variable {L : Type} [Field L] [LinearOrder L] [IsStrictOrderedRing L]

/-- **C11.7a** invariant, every operation (also one that raises `ParCorError` or names a filter whose
construction raised): live filters stay bound to existing Poly objects. -/
theorem hist_wf_step (h : Heap L) (op : Op L) (hw : h.wf) : (step h op).1.wf := step_wf h op hw

/-- … hence after every history from the empty heap -/
theorem hist_wf (ops : List (Op L)) : (run (Heap.empty : Heap L) ops).1.wf :=
  run_wf ops _ wf_empty

/-- **C11.7b** frame, Poly objects: whatever the operation — constructor, `levinson_durbin` (also when it
raises), rebinding, a query (also `ValueError` / `ParCorError`) — an existing Poly object keeps its
coefficients unless the operation is an in-place edit through a live filter bound to that very object. -/
theorem hist_cell_frame (h : Heap L) (op : Op L) (c : Nat) (hc : c < h.cells.length) :
    (step h op).1.cell c = h.cell c ∨
      ∃ t p i v f, op = .set t p i v ∧ h.filt t = some f ∧ f.cell p = c :=
  step_cell_frame h op c hc

/-- **C11.7c** frame, filter objects: bindings and the `error` attribute of filter `t` change only by
`f_t.numpoly = …` / `f_t.denpoly = …`. -/
theorem hist_filt_frame (h : Heap L) (op : Op L) (t : Nat) (ht : t < h.filts.length) :
    (step h op).1.filt t = h.filt t ∨
      (∃ p cs, op = .setPoly t p cs) ∨ (∃ p s q, op = .share t p s q) :=
  step_filt_frame h op t ht

/-- **C11.7d** `f.numpoly[i] = v` sets the coefficient of `z^-i` of the object `f` is bound to and no
other coefficient (absent powers read as zero). -/
theorem hist_set_coeff (h : Heap L) (hw : h.wf) (t : Nat) (p : Part) (i : Nat) (v : L) (f : Filt L)
    (hf : h.filt t = some f) (j : Nat) :
    ((step h (.set t p i v)).1.cell (f.cell p)).getD j 0
      = if j = i then v else (h.cell (f.cell p)).getD j 0 := by
  rw [step_set h t p i v f hf, cell_set_self h _ _ (cell_lt_of_wf h hw t f hf p)]
  exact getD_setAt _ i j v

/-- **C11.7e** a query in the middle of a history = the same query TAKEN ALONE on a fresh filter built
from pristine copies of the current coefficient lists: nothing else of the heap is read (not the `error`
attribute, not the other objects, not which Poly objects are shared). -/
theorem hist_query_alone (h : Heap L) (t : Nat) (n d : List L) (hc : h.contents t = some (n, d)) :
    (step h (.parcor t)).2 = (step ⟨[n, d], [some ⟨0, 1, none⟩]⟩ (.parcor 0)).2 ∧
    (step h (.stable t)).2 = (step ⟨[n, d], [some ⟨0, 1, none⟩]⟩ (.stable 0)).2 := by
  have hc' : (⟨[n, d], [some ⟨0, 1, none⟩]⟩ : Heap L).contents 0 = some (n, d) := rfl
  constructor
  · rw [step_parcor_obs h t n d hc, step_parcor_obs _ 0 n d hc']
  · rw [step_stable_obs h t n d hc, step_stable_obs _ 0 n d hc']

theorem parcorFixed_stepUp (ks : List L) (h1 : ∀ k ∈ ks, k * k ≠ 1) (hlast : ks.getLastD 1 ≠ 0) :
    parcorFixed (stepUp ks) = (ks.reverse, false) := by
  obtain ⟨t, ht⟩ := stepUp_head ks
  have hs : stripZeros (stepUp ks) = 1 :: t := by
    rw [stripZeros_of_last_ne _ (stepUp_last_ne ks hlast), ht]
  rw [parcorFixed_eq_spec _ 1 t one_ne_zero hs]
  exact stepdown_stepup_spec ks h1 hlast

/-- **C11.7f** after ANY earlier operations (`h` is any well-formed heap): rebinding the numerator of a
live filter with a constant denominator to the step-up of `ks` and asking `parcor` yields `ks`, last
first — the answer is about the coefficients the filter has NOW. -/
theorem hist_edit_then_parcor (h : Heap L) (hw : h.wf) (t : Nat) (f : Filt L) (hf : h.filt t = some f)
    (d : L) (hd : stripZeros (h.cell f.den) = [d]) (ks : List L)
    (h1 : ∀ k ∈ ks, k * k ≠ 1) (hlast : ks.getLastD 1 ≠ 0) :
    (run h [.setPoly t .num (stepUp ks), .parcor t]).2 = [.done, .ks ks.reverse false] := by
  have hc := contents_setPoly_num h hw t f hf (stepUp ks)
  have h0 : (step h (.setPoly t .num (stepUp ks))).2 = .done := by simp only [step, hf]
  simp only [run, h0]
  rw [step_parcor_obs _ t _ _ hc]
  simp only [parcorObs, hd, parcorFixed_stepUp ks h1 hlast]

/-- **C11.7g** the history of the seeded change, any `r`: `f = levinson_durbin(r, order)`, then
`f.numpoly = Poly(step-up of ks)`, then `parcor(f)`: yields `ks` (last first), not the reflection
coefficients of `r` — whatever else the heap holds. -/
theorem hist_lev_edit_parcor (h : Heap L) (hw : h.wf) (r : List L) (order : Nat) (a ks0 : List L) (e : L)
    (hl : levinson r order = some (a, e, ks0)) (ks : List L)
    (h1 : ∀ k ∈ ks, k * k ≠ 1) (hlast : ks.getLastD 1 ≠ 0) :
    (run h [.lev r order, .setPoly h.filts.length .num (stepUp ks), .parcor h.filts.length]).2
      = [.made h.filts.length, .done, .ks ks.reverse false] := by
  have hs : step h (.lev r order)
      = (⟨h.cells ++ [a, [1]], h.filts ++ [some ⟨h.cells.length, h.cells.length + 1, some e⟩]⟩,
         .made h.filts.length) := by
    simp only [step, hl]
  have hw' := step_wf h (.lev r order) hw
  rw [hs] at hw'
  have hf' : (⟨h.cells ++ [a, [1]], h.filts ++ [some ⟨h.cells.length, h.cells.length + 1, some e⟩]⟩
      : Heap L).filt h.filts.length = some ⟨h.cells.length, h.cells.length + 1, some e⟩ := by
    simp [Heap.filt, List.getD_eq_getElem?_getD]
  have hd : stripZeros ((⟨h.cells ++ [a, [1]],
      h.filts ++ [some ⟨h.cells.length, h.cells.length + 1, some e⟩]⟩ : Heap L).cell (h.cells.length + 1))
      = [(1 : L)] := by
    simp [Heap.cell, List.getD_eq_getElem?_getD, stripZeros]
  have := hist_edit_then_parcor _ hw' h.filts.length _ hf' 1 hd ks h1 hlast
  rw [show run h [.lev r order, .setPoly h.filts.length .num (stepUp ks), .parcor h.filts.length]
      = ((run (step h (.lev r order)).1 [.setPoly h.filts.length .num (stepUp ks),
            .parcor h.filts.length]).1,
         (step h (.lev r order)).2 :: (run (step h (.lev r order)).1
            [.setPoly h.filts.length .num (stepUp ks), .parcor h.filts.length]).2) from rfl]
  rw [hs]
  simp only [this]

/-- **C11.7h** the same with the caller's loop `for i, c in enumerate(new): f.numpoly[i] = c` (in-place
edits of the Poly object, as in the seeded demo), `new` the step-up of `ks` and not shorter than the old
numerator, numerator and denominator not the same object: `parcor(f)` yields `ks`, last first. -/
theorem hist_items_then_parcor (h : Heap L) (hw : h.wf) (t : Nat) (f : Filt L) (hf : h.filt t = some f)
    (hne : f.num ≠ f.den) (d : L) (hd : stripZeros (h.cell f.den) = [d]) (ks : List L)
    (hlen : (h.cell f.num).length ≤ (stepUp ks).length)
    (h1 : ∀ k ∈ ks, k * k ≠ 1) (hlast : ks.getLastD 1 ≠ 0) :
    (run h (editItems t .num (stepUp ks) ++ [.parcor t])).2.getLast?
      = some (.ks ks.reverse false) := by
  rw [run_append]
  simp only [run, List.getLast?_append, List.getLast?_singleton, Option.some_or]
  rw [run_editItems h hw t .num f hf (stepUp ks) hlen]
  have hn := (hw t f hf).1
  have hdl := (hw t f hf).2
  have hc : (⟨h.cells.set (f.cell .num) (stepUp ks), h.filts⟩ : Heap L).contents t
      = some (stepUp ks, h.cell f.den) := by
    have e1 : (⟨h.cells.set (f.cell .num) (stepUp ks), h.filts⟩ : Heap L).filt t = some f := hf
    rw [Heap.contents, e1]
    simp [Heap.cell, Filt.cell, List.getD_eq_getElem?_getD, hn, hne]
  rw [step_parcor_obs _ t _ _ hc]
  simp only [parcorObs, hd, parcorFixed_stepUp ks h1 hlast]

/-- **C11.7i** aliasing by the caller: after `f_t.p = f_s.q` (one Poly object bound twice) and any number
of in-place edits through any filters, both attributes still hold the same coefficients. -/
theorem hist_alias (h : Heap L) (t s : Nat) (p q : Part) (f g : Filt L)
    (hf : h.filt t = some f) (hg : h.filt s = some g) (edits : List (Op L))
    (he : ∀ op ∈ edits, ∃ t' p' i v, op = Op.set t' p' i v) :
    ∃ f' g', (run (step h (.share t p s q)).1 edits).1.filt t = some f' ∧
      (run (step h (.share t p s q)).1 edits).1.filt s = some g' ∧ f'.cell p = g'.cell q := by
  have hlt : t < h.filts.length := by
    by_contra hn
    simp [Heap.filt, List.getD_eq_getElem?_getD, List.getElem?_eq_none (Nat.le_of_not_lt hn)] at hf
  have key : ∀ (es : List (Op L)) (h' : Heap L), (∀ op ∈ es, ∃ t' p' i v, op = Op.set t' p' i v) →
      (run h' es).1.filts = h'.filts := by
    intro es
    induction es with
    | nil => intro h' _; rfl
    | cons op es ih =>
      intro h' hall
      obtain ⟨t', p', i, v, rfl⟩ := hall _ (List.mem_cons_self)
      simp only [run]
      rw [ih _ (fun o ho => hall o (List.mem_cons_of_mem _ ho))]
      simp only [step]
      cases h'.filt t' <;> rfl
  have hs : (step h (.share t p s q)).1 = ⟨h.cells, h.filts.set t (some (f.bind p (g.cell q)))⟩ := by
    simp only [step, hf, hg]
  have hfil := key edits (step h (.share t p s q)).1 he
  rw [hs] at hfil ⊢
  simp only [Heap.filt, hfil]
  refine ⟨f.bind p (g.cell q), if s = t then f.bind p (g.cell q) else g, ?_, ?_, ?_⟩
  · simp [List.getD_eq_getElem?_getD, hlt]
  · by_cases e : s = t
    · subst e; simp [List.getD_eq_getElem?_getD, hlt]
    · have e' : ¬ t = s := fun x => e x.symm
      simp only [e, if_false]
      simpa [List.getD_eq_getElem?_getD, List.getElem?_set, e', Heap.filt] using hg
  · by_cases e : s = t
    · subst e
      have : f = g := by rw [hf] at hg; exact Option.some.inj hg
      subst this
      simp only [if_true]
      cases p <;> cases q <;> simp [Filt.bind, Filt.cell]
    · simp only [e, if_false]
      cases p <;> simp [Filt.bind, Filt.cell]

end Hist

/-- **C11.7j** stability after any history: `parcor_stable(f)` answers `True` exactly when every pole
of the CURRENT denominator lies strictly inside the unit circle (leading coefficient non-zero). -/
theorem hist_stable_current_poles (h : Hist.Heap ℝ) (t : Nat) (n d t' : List ℝ) (g : ℝ) (hg : g ≠ 0)
    (hc : h.contents t = some (n, d)) (hs : stripZeros d = g :: t') :
    (Hist.step h (.stable t)).2 = .verdict true ↔
      ∀ z : ℂ, evalC d.reverse z = 0 → Complex.normSq z < 1 := by
  rw [← stableFixed_iff_poles_inside d t' g hg hs, Hist.step_stable_obs h t n d hc]
  simp

/-! ### 8. the SHARP step-down: every reflection vector, critical and near-critical entries included

`cutAtUnit l` (Spec): the entries of `l` up to and including the first one with `k² = 1`, and whether
there is one.  The test is an exact equality: a coefficient at distance 1e-9 (or 1e-300) from ±1 is
not critical. -/

/-- **C11.8a** for EVERY reflection vector `k_1 … k_n` (`k_n ≠ 0`): `parcor` — as repaired = the code
of /repo today, as coded before with denominator 1, and the specification — on the stepped-up filter
yields `k_n, k_{n-1}, …` up to and including the first critical one and raises `ParCorError` there;
it yields all of them and does not raise when there is none. -/
theorem stepdown_stepup_sharp (ks : List K) (hlast : ks.getLastD 1 ≠ 0) :
    parcorFixed (stepUp ks) = cutAtUnit ks.reverse ∧
    parcorCoded 1 (stepUp ks) = cutAtUnit ks.reverse ∧
    parcorSpec (stepUp ks) = cutAtUnit ks.reverse := by
  obtain ⟨t, hs⟩ := stripZeros_stepUp ks hlast
  exact ⟨by rw [parcorFixed_eq_spec _ 1 t one_ne_zero hs]; exact parcorSpec_stepUp_sharp ks hlast,
         by rw [parcorCoded_eq_spec 1 _ t one_ne_zero hs]; exact parcorSpec_stepUp_sharp ks hlast,
         parcorSpec_stepUp_sharp ks hlast⟩

/-- **C11.8b** "ParCorError is raised only when some |k_m| equals 1", and then always: in terms of
the INPUT reflection vector. -/
theorem parcor_raises_iff_critical (ks : List K) (hlast : ks.getLastD 1 ≠ 0) :
    (parcorFixed (stepUp ks)).2 = true ↔ ∃ k ∈ ks, k = 1 ∨ k = -1 := by
  rw [(stepdown_stepup_sharp ks hlast).1, cutAtUnit_raised_iff]
  constructor
  · rintro ⟨k, hk, h⟩; exact ⟨k, by simpa using hk, mul_self_eq_one_iff.mp h⟩
  · rintro ⟨k, hk, h⟩; exact ⟨k, by simpa using hk, mul_self_eq_one_iff.mpr h⟩

/-- **C11.8c** what is yielded before the exception: with `k_c` the LAST critical entry of the vector,
exactly the entries after it (last first) and then `k_c` itself. -/
theorem parcor_yields_upto_critical (pre post : List K) (kc : K) (hc : kc * kc = 1)
    (hpost : ∀ k ∈ post, k * k ≠ 1) (hlast : (pre ++ kc :: post).getLastD 1 ≠ 0) :
    parcorFixed (stepUp (pre ++ kc :: post)) = (post.reverse ++ [kc], true) := by
  rw [(stepdown_stepup_sharp _ hlast).1]
  exact cutAtUnit_split _ post.reverse pre.reverse kc (by simp) (by simpa using hpost) hc

section Sharp
variable {L : Type} [Field L] [LinearOrder L] [IsStrictOrderedRing L]

/-- **C11.8d** the verdict on a stepped-up filter, every reflection vector: `parcor_stable` is `True`
exactly when every `|k_m| < 1` — a critical entry gives `False` through the caught `ParCorError` or
through `abs(k) < 1`, an entry beyond ±1 through `abs(k) < 1`; nothing else does. -/
theorem stable_stepUp (ks : List L) (hlast : ks.getLastD 1 ≠ 0) :
    parcorStableFixed (stepUp ks) = ks.all absLt1 ∧ parcorStableSpec (stepUp ks) = ks.all absLt1 := by
  obtain ⟨t, hs⟩ := stripZeros_stepUp ks hlast
  have hspec : parcorStableSpec (stepUp ks) = ks.all absLt1 := by
    unfold parcorStableSpec
    rw [parcorSpec_stepUp_sharp ks hlast]
    have h := cutAtUnit_verdict ks.reverse
    rw [List.all_reverse] at h
    rw [← h]
    show (!(cutAtUnit ks.reverse).2 && (cutAtUnit ks.reverse).1.all _) = _
    congr 2
    funext k
    exact (absLt1_iff k).symm
  exact ⟨by rw [stableFixed_eq_spec _ t 1 one_ne_zero hs]; exact hspec, hspec⟩

/-- **C11.8e (no tolerance)** however small `ε > 0`: there is a reflection coefficient at distance
less than `ε` BELOW 1 for which `parcor` completes, yields it, and `parcor_stable` says `True`; and one
at distance less than `ε` ABOVE 1 for which `parcor` completes and `parcor_stable` says `False`. -/
theorem near_critical_is_not_critical (ε : L) (hε : 0 < ε) :
    (∃ k : L, 0 < 1 - k ∧ 1 - k < ε ∧ parcorFixed (stepUp [k]) = ([k], false) ∧
        parcorStableFixed (stepUp [k]) = true) ∧
    (∃ k : L, 0 < k - 1 ∧ k - 1 < ε ∧ parcorFixed (stepUp [k]) = ([k], false) ∧
        parcorStableFixed (stepUp [k]) = false) := by
  have hm : 0 < min ε 1 := lt_min hε one_pos
  have hm1 : min ε 1 ≤ 1 := min_le_right _ _
  have hme : min ε 1 ≤ ε := min_le_left _ _
  constructor
  · refine ⟨1 - min ε 1 / 2, by linarith, by linarith, ?_, ?_⟩
    · have hne : (1 - min ε 1 / 2) * (1 - min ε 1 / 2) ≠ 1 := by nlinarith
      have hl : ([1 - min ε 1 / 2] : List L).getLastD 1 ≠ 0 := by
        simp only [List.getLastD_cons, List.getLastD_nil]; linarith
      rw [(stepdown_stepup_sharp _ hl).1]
      simp [cutAtUnit, hne]
    · have hl : ([1 - min ε 1 / 2] : List L).getLastD 1 ≠ 0 := by
        simp only [List.getLastD_cons, List.getLastD_nil]; linarith
      rw [(stable_stepUp _ hl).1]
      simp only [List.all_cons, List.all_nil, Bool.and_true, absLt1_iff, Bool.and_eq_true,
        decide_eq_true_eq]
      constructor <;> linarith
  · refine ⟨1 + ε / 2, by linarith, by linarith, ?_, ?_⟩
    · have hne : (1 + ε / 2) * (1 + ε / 2) ≠ 1 := by nlinarith
      have hl : ([1 + ε / 2] : List L).getLastD 1 ≠ 0 := by
        simp only [List.getLastD_cons, List.getLastD_nil]; linarith
      rw [(stepdown_stepup_sharp _ hl).1]
      simp [cutAtUnit, hne]
    · have hl : ([1 + ε / 2] : List L).getLastD 1 ≠ 0 := by
        simp only [List.getLastD_cons, List.getLastD_nil]; linarith
      rw [(stable_stepUp _ hl).1]
      simp only [List.all_cons, List.all_nil, Bool.and_true, absLt1_iff, Bool.and_eq_false_iff,
        decide_eq_false_iff_not, not_lt]
      right; linarith

end Sharp

/-! ### 9. the float regime: the loop parameterised by the squaring function

`parcorFixedG sq` is the loop with `sq k` for `k ** 2`; the driver runs it on `F64` (binary64 bit
patterns) with `sq = pow(·, 2)` of libm, which is what CPython computes.  Nothing is proved ABOUT
binary64 arithmetic (core `Float` is opaque); what is proved is that this is the SAME loop. -/
section FloatRegime
variable {α : Type} [Add α] [Mul α] [Sub α] [Neg α] [Div α] [OfNat α 0] [OfNat α 1] [DecidableEq α]

/-- **C11.9a** with the product for the square, the parameterised loop is the model of the theorems
above — on every carrier that has the operations (`Rat`, ℝ, `F64`), no law needed. -/
theorem floatloop_is_model (num : List α) :
    parcorFixedG (fun k => k * k) num = parcorFixed num := parcorFixedG_mul num

theorem floatloop_stable_is_model [LT α] [DecidableLT α] (den : List α) :
    parcorStableFixedG (fun k => k * k) den = parcorStableFixed den := parcorStableFixedG_mul den

/-- **C11.9b** the squaring function is consulted on the yielded coefficients only: if `sq` agrees
with the product on every `k` a run yields, that run is the run of the model.  (On binary64, libm's
`pow(k, 2)` differs from `k * k` on a small fraction of the inputs; the driver reports both runs.) -/
theorem floatloop_sq_only_on_yields (sq : α → α) (num : List α)
    (h : ∀ k ∈ (parcorFixedG sq num).1, sq k = k * k) : parcorFixed num = parcorFixedG sq num := by
  rw [← parcorFixedG_mul]
  unfold parcorFixedG at h ⊢
  exact ploopG_congr sq (fun k => k * k) _ _ _ _ h

/-- **C11.9d (why the code survives `g * (1 / g) ≠ 1.0`)** on ANY carrier — no law of arithmetic is
used, so also on binary64 — the yields and the break-down of the loop from counter `m` depend on the
coefficients at delays `1 … m` only: not on the coefficient of `z⁰` (`0.9999999999999999` after a
float normalisation), not on what sits beyond delay `m` (the residue `k - k·a₀` of the previous step)
or at negative delays (its mirror image under `A(1/z)·z⁻ᵐ`), not on the constant denominator.  A
backward predictor taken from the coefficient LIST instead (which shifts when a residue makes the list
longer) does not have this property. -/
theorem yields_depend_on_inner_delays (sq : α → α) (n : Nat) (d d' : α) (m : Nat) (w w' : List α)
    (h : ∀ i : Int, 1 ≤ i → i ≤ (m : Int) → lget n w i = lget n w' i) :
    ploopG sq n d m w = ploopG sq n d' m w' := ploopG_inner sq n d d' m w w' h

/-- **C11.9c** `all(abs(k) < 1 for k in parcor(…))` under `try/except ParCorError` = draining the
generator, for ANY squaring function — so the float verdict is a function of the float yields. -/
theorem floatloop_stable_eq_drained [LT α] [DecidableLT α] (sq : α → α) (den : List α) :
    parcorStableFixedG sq den
      = (!(parcorFixedG sq den).2 && (parcorFixedG sq den).1.all absLt1) := by
  unfold parcorStableFixedG parcorFixedG
  exact stableLoopG_eq sq _ _ _ _

end FloatRegime

/-! ### 10. the call: any `ZFilter(num, den)` with Laurent numerator and denominator -/

/-- **C11.10a** the ordinary call — causal numerator with non-zero leading coefficient over a non-zero
constant: the constant is ignored altogether (D3 repaired) and the loop runs. -/
theorem call_plain (d g : K) (t : List K) (hd : d ≠ 0) (hg : g ≠ 0) :
    parcorCall 0 (g :: t) 0 [d] = .ok (parcorFixed (g :: t)).1 (parcorFixed (g :: t)).2 := by
  have h1 : shiftedDen [d] = [d] := by simp [shiftedDen, leadZeros, stripZeros, hd]
  have h2 : leadZeros [d] = 0 := by simp [leadZeros, hd]
  unfold parcorCall
  rw [h1, h2]
  simp [causalPart_zero, hasAdvance_zero, hg]

/-- **C11.10b** a common delay / advance of numerator and denominator is removed by the constructor -/
theorem call_shift (s numLo denLo : Int) (num den : List K) :
    parcorCall (numLo + s) num (denLo + s) den = parcorCall numLo num denLo den :=
  parcorCall_shift s numLo denLo num den

/-- **C11.10c** the error branches: feedback (two or more terms left in the denominator) is a
`ValueError`; a numerator without a term at power 0 is a `ZeroDivisionError` (NOT a `ParCorError`). -/
theorem call_feedback (numLo denLo : Int) (num den : List K) (a b : K) (t : List K)
    (h : shiftedDen den = a :: b :: t) : parcorCall numLo num denLo den = .valueError := by
  unfold parcorCall; rw [h]

theorem call_no_lead (numLo denLo : Int) (num den : List K) (d : K) (h : shiftedDen den = [d])
    (h0 : (causalPart (numLo - (denLo + (leadZeros den : Int))) num).headD 0 = 0) :
    parcorCall numLo num denLo den = .zeroDiv := by
  unfold parcorCall; rw [h]; simp only [h0, if_true]

theorem parcorFixed_raised_iff (num : List K) :
    (parcorFixed num).2 = true ↔ ∃ k ∈ (parcorFixed num).1, k * k = 1 := by
  unfold parcorFixed
  exact ploop_raised_iff _ _ _ _

/-- `ParCorError` comes out of a call only from the loop, i.e. (C11.3) only with a yielded `k² = 1` -/
theorem call_parcorError_only_critical (numLo denLo : Int) (num den ks : List K)
    (h : parcorCall numLo num denLo den = .ok ks true) : ∃ k ∈ ks, k * k = 1 := by
  unfold parcorCall at h
  split at h
  · cases h
  · simp only [] at h
    split at h
    · cases h
    · split at h
      · cases h
      · simp only [CallRes.ok.injEq] at h
        have := (parcorFixed_raised_iff _).mp h.2
        rw [← h.1]; exact this
  · cases h

/-- **C11.10d** `parcor_stable` never reads the numerator, and decides on the SHIFTED denominator:
`True` exactly when every root of it (complex) lies strictly inside the unit circle — any Laurent
denominator that is not zero. -/
theorem stableCall_iff_poles (numLo denLo : Int) (num den : List ℝ) (h : shiftedDen den ≠ []) :
    stableCall numLo num denLo den = some true ↔
      ∀ z : ℂ, evalC (shiftedDen den).reverse z = 0 → Complex.normSq z < 1 := by
  rcases shiftedDen_cases den with h0 | ⟨g, t, hg, hs, hst⟩
  · exact absurd h0 h
  · unfold stableCall
    rw [hs]
    simp only [Option.some.injEq]
    exact stableFixed_iff_poles_inside (g :: t) t g hg hst

theorem stableCall_ignores_num (numLo numLo' denLo denLo' : Int) (num num' den : List ℝ) :
    stableCall numLo num denLo den = stableCall numLo' num' denLo' den := rfl


/-! ### 11. round 4 — what the driver RUNS on binary64 is the generic loop at carrier `F64`

Core `Float` is opaque to the kernel: nothing can be proved about the VALUE of a binary64 operation
(not even `F64.ofBits x.bits = x`, which is moreover false for `-0.0` and for NaN payloads: the harness
checks the round trip of bit patterns at run time, extra check `float-bits-roundtrip`).  What IS proved:
the definitions the driver runs are instances of the carrier-generic definitions of sections 9 and 12,
so that every law-free theorem holds of them verbatim, and the structural facts of the encoding. -/
section F64Instance

/-- **C11.11a** `parcorF64` / `parcorStableF64` / `parcorF64Mul` — the three runs reported per float
case — are the generic loop `parcorFixedG` at carrier `F64` with `sq = F64.sqPow` (libm `pow(k, 2)`),
its stability twin, and the model `parcorFixed` verbatim (`sq k = k * k`) at carrier `F64`. -/
theorem f64_parcor_is_floatloop (num : List F64) :
    parcorF64 num = parcorFixedG F64.sqPow num ∧
    parcorStableF64 num = parcorStableFixedG F64.sqPow num ∧
    parcorF64Mul num = parcorFixed num ∧
    parcorF64Mul num = parcorFixedG (fun k => k * k) num :=
  ⟨rfl, rfl, rfl, (parcorFixedG_mul num).symm⟩

/-- **C11.11b** (C11.9c for what is run) the binary64 verdict is a function of the binary64 yields:
`all(abs(k) < 1 …)` under `try/except ParCorError` = draining the generator. -/
theorem f64_stable_eq_drained (den : List F64) :
    parcorStableF64 den = (!(parcorF64 den).2 && (parcorF64 den).1.all absLt1) :=
  floatloop_stable_eq_drained F64.sqPow den

/-- **C11.11c** (C11.9b for what is run) if libm's `pow(k, 2)` agrees with the rounded product on
every `k` the binary64 run yields, the run with `k * k` is the same run. -/
theorem f64_pow_only_on_yields (num : List F64)
    (h : ∀ k ∈ (parcorF64 num).1, F64.sqPow k = k * k) : parcorF64Mul num = parcorF64 num :=
  floatloop_sq_only_on_yields F64.sqPow num h

/-- **C11.11d** "ParCorError is raised only when …" in the float regime, ANY carrier and squaring
function: the loop raises exactly when it has yielded a `k` with `1 - sq k = 0`. -/
theorem floatloop_raised_iff {α : Type} [Add α] [Mul α] [Sub α] [Neg α] [Div α] [OfNat α 0]
    [OfNat α 1] [DecidableEq α] (sq : α → α) (num : List α) :
    (parcorFixedG sq num).2 = true ↔ ∃ k ∈ (parcorFixedG sq num).1, 1 - sq k = 0 := by
  unfold parcorFixedG
  exact ploopG_raised_iff sq _ _ _ _

/-- … for what is run: `ParCorError` on binary64 iff a yielded `k` has `1 - pow(k, 2) == 0`. -/
theorem f64_raised_iff (num : List F64) :
    (parcorF64 num).2 = true ↔ ∃ k ∈ (parcorF64 num).1, 1 - F64.sqPow k = 0 :=
  floatloop_raised_iff F64.sqPow num

/-- **C11.11e** the encoding: the payload carries `F64.bits`, and two model values are equal exactly
when their bit patterns are (bit-for-bit comparison = equality in the model). -/
theorem f64_eq_iff_bits (x y : F64) : x = y ↔ x.bits = y.bits := by
  constructor
  · intro h; rw [h]
  · intro h; cases x; cases y; simp only [F64.mk.injEq]; exact h

/-- **C11.11f** the normalising injection changes zeros only: the stored pattern of a result is the
IEEE pattern of the `Float`, or the result is the model's zero (`+0.0`); a `Float` that compares
equal to `0.0` (so `-0.0` too) is stored as the model's zero. -/
theorem f64_ofFloat_cases (x : Float) :
    (F64.ofFloat x = 0 ∨ (F64.ofFloat x).bits = x.toBits) ∧
    ((x == 0.0) = true → F64.ofFloat x = 0) := by
  unfold F64.ofFloat
  constructor
  · split
    · left; rfl
    · right; rfl
  · intro h; rw [if_pos h]; rfl

/-- the input decoder `F64.ofBits` is that injection after `Float.ofBits` -/
theorem f64_ofBits_cases (b : UInt64) :
    F64.ofBits b = 0 ∨ (F64.ofBits b).bits = (Float.ofBits b).toBits :=
  (f64_ofFloat_cases (Float.ofBits b)).1

/-- **C11.11g** the operations of the carrier are the core `Float` operations (trusted to be IEEE-754
binary64, see TRUSTED) followed by that injection; the order is the order of the `Float`s. -/
theorem f64_ops (a b : F64) :
    a + b = F64.ofFloat (a.toFloat + b.toFloat) ∧ a - b = F64.ofFloat (a.toFloat - b.toFloat) ∧
    a * b = F64.ofFloat (a.toFloat * b.toFloat) ∧ a / b = F64.ofFloat (a.toFloat / b.toFloat) ∧
    -a = F64.ofFloat (-a.toFloat) ∧ (a < b ↔ a.toFloat < b.toFloat) ∧
    F64.sqPow a = F64.ofFloat (Float.pow a.toFloat 2.0) ∧ F64.isFinite a = a.toFloat.isFinite :=
  ⟨rfl, rfl, rfl, rfl, rfl, Iff.rfl, rfl, rfl⟩

end F64Instance

/-! ### 12. round 4 — `levinson_durbin` in the float regime: the recursion parameterised by `sum`

`levinsonG sum` is the recursion with `sum` for the builtin `sum` of `inner`; the driver runs it on `F64`
with `sum = sumPyG F64.isFinite`, CPython ≥ 3.12's compensated (Neumaier) summation, and numerator and
`error` are compared BIT FOR BIT with `levinson_durbin` on float autocorrelation data. -/
section LevFloat
variable {α : Type} [Add α] [Mul α] [Sub α] [Neg α] [Div α] [OfNat α 0] [OfNat α 1] [DecidableEq α]

/-- **C11.12a** with the left fold for `sum`, the parameterised recursion is the model of section 6 —
on every carrier that has the operations, no law needed (so also on `F64`: `levinsonF64Fold`). -/
theorem levfloat_is_model (r : List α) (order : Nat) :
    levinsonG lsum r order = levinson r order := levinsonG_lsum r order

/-- **C11.12b** the twin over the EXACT operations is the model: over any field, CPython's compensated
`sum` is the plain sum (the compensation term stays zero), whatever `isfinite` answers — hence the
definition the driver runs on binary64, read over a field, is `levinson`. -/
theorem levfloat_compensated_is_model (fin : K → Bool) [LT K] [DecidableLT K] (r : List K) (order : Nat) :
    (∀ l : List K, sumPyG fin l = lsum l) ∧ levinsonG (sumPyG fin) r order = levinson r order :=
  ⟨sumPyG_eq_lsum fin, levinsonG_sumPy fin r order⟩

/-- … so every theorem of section 6 holds of it: filter = step-up of its reflection coefficients,
`order` of them, `error = r₀ · Π (1 − k_m²)` in the words of the specification (`errorSpec`). -/
theorem levfloat_compensated_error (fin : K → Bool) [LT K] [DecidableLT K] (r : List K) (order : Nat)
    (a ks : List K) (e : K) (h : levinsonG (sumPyG fin) r order = some (a, e, ks)) :
    a = stepUp ks ∧ ks.length = order ∧ e = errorSpec (r.headD 0) ks := by
  rw [levinsonG_sumPy] at h
  obtain ⟨h1, h2, h3⟩ := levinson_error r order a ks e h
  exact ⟨h1, h2, by rw [h3, errorSpec_eq_prod]⟩

/-- **C11.12c** what the driver runs: `levinsonF64` is `levinsonG` at carrier `F64` with the compensated
sum, `levinsonF64Fold` is the model `levinson` verbatim at carrier `F64`. -/
theorem f64_levinson_is_levfloat (r : List F64) (order : Nat) :
    levinsonF64 r order = levinsonG (sumPyG F64.isFinite) r order ∧
    levinsonF64Fold r order = levinson r order ∧
    levinsonF64Fold r order = levinsonG lsum r order :=
  ⟨rfl, rfl, (levinsonG_lsum r order).symm⟩

/-- **C11.12d** shape of a result, any carrier and summation (no law): `order + 1` coefficients,
`order` reflection coefficients, and the `error` attribute is `inner(A, A)` of the returned filter
over the zero-extended data. -/
theorem levfloat_shape (sum : List α → α) (r : List α) (order : Nat) (a ks : List α) (e : α)
    (h : levinsonG sum r order = some (a, e, ks)) :
    a.length = order + 1 ∧ ks.length = order ∧ e = innerG sum (extendAc r order) a a := by
  unfold levinsonG at h
  simp only [] at h
  cases hl : levLoopG sum (extendAc r order) order ⟨[1], []⟩ with
  | none => rw [hl] at h; cases h
  | some s =>
    rw [hl] at h
    simp only [Option.some.injEq, Prod.mk.injEq] at h
    obtain ⟨ha, he, hk⟩ := h
    have := levLoopG_shape sum _ order _ s hl
    simp only [List.length_cons, List.length_nil] at this
    exact ⟨by rw [← ha]; omega, by rw [← hk]; omega, by rw [← he, ← ha]⟩

/-- **C11.12e** when it raises, any carrier and summation (no law): `ParCorError` exactly when, after
some `m < order` completed steps, `inner(B, B)` of the reversed filter is zero. -/
theorem levfloat_raises_iff (sum : List α → α) (r : List α) (order : Nat) :
    levinsonG sum r order = none ↔
      ∃ m, m < order ∧ ∃ s, levLoopG sum (extendAc r order) m ⟨[1], []⟩ = some s ∧
        innerG sum (extendAc r order) ((0 : α) :: s.a.reverse) ((0 : α) :: s.a.reverse) = 0 := by
  unfold levinsonG
  simp only []
  constructor
  · intro h
    cases hl : levLoopG sum (extendAc r order) order ⟨[1], []⟩ with
    | some s => rw [hl] at h; cases h
    | none =>
      obtain ⟨m, hm, s, h1, h2⟩ := (levLoopG_none_iff sum _ order _).mp hl
      exact ⟨m, hm, s, h1, (levStepG_none_iff sum _ s).mp h2⟩
  · rintro ⟨m, hm, s, h1, h2⟩
    rw [(levLoopG_none_iff sum _ order _).mpr ⟨m, hm, s, h1, (levStepG_none_iff sum _ s).mpr h2⟩]

end LevFloat

/-! ### 13. round 4 — `error`, `ParCorError` of `levinson_durbin`, feedback, rebuilding at full strength -/

/-- **C11.13a** the clause "error = r[0]·∏(1−k_m²)" in the words of the specification (`errorSpec`,
which the driver reports on every `levinson` case): every order, any field, any `r`. -/
theorem levinson_error_spec (r : List K) (order : Nat) (a ks : List K) (e : K)
    (h : levinson r order = some (a, e, ks)) : e = errorSpec (r.headD 0) ks := by
  rw [(levinson_error r order a ks e h).2.2, errorSpec_eq_prod]

/-- `errorSpec` is the product formula -/
theorem errorSpec_is_product (r0 : K) (ks : List K) :
    errorSpec r0 ks = r0 * (ks.map (fun k => 1 - k * k)).prod := errorSpec_eq_prod r0 ks

/-- **C11.13b** `levinson_durbin` raises `ParCorError` exactly when the prediction error
`r₀ · Π (1 − k²)` of some completed prefix of the recursion (fewer than `order` steps) is zero — i.e.
`r₀ = 0` or a reflection coefficient `±1` BEFORE the last step; a `k = ±1` at the last step returns
normally with `error = 0`. -/
theorem levinson_raises_iff (r : List K) (order : Nat) :
    levinson r order = none ↔
      ∃ m, m < order ∧ ∃ s, levLoop (extendAc r order) m ⟨[1], []⟩ = some s ∧
        errorSpec (r.headD 0) s.ks = 0 := by
  have key := levLoop_none_iff (extendAc r order) _ order _ (linv_init (extendAc r order))
  rw [cf_extendAc_zero] at key
  rw [← key]
  unfold levinson
  simp only []
  cases levLoop (extendAc r order) order ⟨[1], []⟩ <;> simp

/-- **C11.13c** the feedback test: `ValueError` exactly when the denominator (zeros compacted) does not
have exactly one term; otherwise the loop of `parcorCoded` on that constant. -/
theorem codedE_feedback_iff (den num : List K) :
    parcorCodedE den num = none ↔ (stripZeros den).length ≠ 1 := by
  unfold parcorCodedE
  rcases stripZeros den with _ | ⟨d, _ | ⟨d', t⟩⟩ <;> simp

theorem codedE_const (den num : List K) (d : K) (h : stripZeros den = [d]) :
    parcorCodedE den num = some (parcorCoded d num) := by
  unfold parcorCodedE; rw [h]

/-- … and then (numerator leading coefficient = that constant) it is the specification -/
theorem codedE_eq_spec (den num t : List K) (d : K) (hd : d ≠ 0) (h : stripZeros den = [d])
    (hs : stripZeros num = d :: t) : parcorCodedE den num = some (parcorSpec num) := by
  rw [codedE_const den num d h, coded_eq_spec d num t hd hs]

/-- **C11.13d** rebuilding, NON-MONIC input, the code of /repo today: whenever `parcor` runs to its end
on a filter with leading coefficient `g ≠ 0`, the step-up of the yielded coefficients (read backwards)
is the monic normalisation, and `g` times it is THE SAME FILTER (zeros compacted). -/
theorem stepup_stepdown_fixed (num t ks : List K) (g : K) (hg : g ≠ 0) (hs : stripZeros num = g :: t)
    (h : parcorFixed num = (ks, false)) :
    stepUp ks.reverse = monic (stripZeros num) ∧ scale g (stepUp ks.reverse) = stripZeros num := by
  rw [fixed_eq_spec num t g hg hs] at h
  have h1 := stepup_stepdown_spec num t ks g hg hs h
  exact ⟨h1, by rw [h1, hs]; exact scale_monic g hg t⟩

/-- **C11.13e** rebuilding through the CALL, Laurent-shifted input: for any `ZFilter(num, den)` (first
entries at any powers `numLo`, `denLo`) on which `parcor` completes, with `f` the numerator after the
constructor's shift: `f₀ ·` step-up of the yielded coefficients `=` `f` (zeros compacted). -/
theorem call_roundtrip (numLo denLo : Int) (num den ks : List K)
    (h : parcorCall numLo num denLo den = .ok ks false) :
    scale ((causalPart (numLo - (denLo + (leadZeros den : Int))) num).headD 0) (stepUp ks.reverse)
      = stripZeros (causalPart (numLo - (denLo + (leadZeros den : Int))) num) := by
  unfold parcorCall at h
  split at h
  · cases h
  · simp only [] at h
    split at h
    · cases h
    · rename_i hne
      split at h
      · cases h
      · simp only [CallRes.ok.injEq] at h
        generalize causalPart (numLo - (denLo + (leadZeros den : Int))) num = f at h hne ⊢
        cases f with
        | nil => simp at hne
        | cons g t =>
          simp only [List.headD_cons] at hne ⊢
          obtain ⟨t', ht'⟩ := stripZeros_head_ne g hne t
          exact (stepup_stepdown_fixed (g :: t) t' ks g hne ht' (Prod.ext h.1 h.2)).2
  · cases h

/-- … and a common shift of numerator and denominator changes nothing of it -/
theorem call_roundtrip_shifted (s numLo denLo : Int) (num den ks : List K)
    (h : parcorCall (numLo + s) num (denLo + s) den = .ok ks false) :
    scale ((causalPart (numLo - (denLo + (leadZeros den : Int))) num).headD 0) (stepUp ks.reverse)
      = stripZeros (causalPart (numLo - (denLo + (leadZeros den : Int))) num) := by
  rw [call_shift] at h
  exact call_roundtrip numLo denLo num den ks h

/-! ### 14. round 4 — the call expression: binding of the parameter, object kinds, WHEN it raises -/

/-- **C11.14a** Python's binding of the one parameter succeeds exactly for one positional argument
and no keyword, or no positional argument and the one keyword `p`. -/
theorem bind1_some_iff {β : Type} (p : String) (args : List β) (kwargs : List (String × β)) (o : β) :
    bind1 p args kwargs = some o ↔ (args = [o] ∧ kwargs = []) ∨ (args = [] ∧ kwargs = [(p, o)]) := by
  unfold bind1
  split
  · simp
  · rename_i k a
    by_cases hk : k = p
    · simp [hk]
    · simp only [hk, if_false]
      constructor
      · intro h; cases h
      · rintro (⟨h1, _⟩ | ⟨_, h2⟩)
        · cases h1
        · simp only [List.cons.injEq, Prod.mk.injEq, and_true] at h2
          exact absurd h2.1 hk
  · rename_i h1 h2
    constructor
    · intro h; cases h
    · rintro (⟨ha, hk⟩ | ⟨ha, hk⟩)
      · exact (h1 o ha hk).elim
      · exact (h2 p o ha hk).elim

/-- **C11.14b** positional = keyword: `parcor(o)` is `parcor(fir_filt=o)`, `parcor_stable(o)` is
`parcor_stable(filt=o)`, for every kind of object. -/
theorem apply_positional_eq_keyword (o : ArgObj K) :
    parcorApply [o] [] = parcorApply [] [("fir_filt", o)] := rfl

theorem stableApply_positional_eq_keyword {L : Type} [Field L] [LinearOrder L] [DecidableEq L]
    (o : ArgObj L) : stableApply [o] [] = stableApply [] [("filt", o)] := rfl

/-- **C11.14c** `parcor` is a generator function: the call expression itself raises ONLY the binding
`TypeError`, and exactly when the binding fails; every other exception waits for the first `next()`. -/
theorem parcorApply_atCall_iff (args : List (ArgObj K)) (kwargs : List (String × ArgObj K)) (e : Exc) :
    parcorApply args kwargs = .atCall e ↔ e = .typeError ∧ bind1 "fir_filt" args kwargs = none := by
  unfold parcorApply
  generalize bind1 "fir_filt" args kwargs = b
  rcases b with _ | (⟨nl, n, dl, d⟩ | _ | _ | _)
  · simp only [ApplyRes.atCall.injEq, and_true]; exact eq_comm
  · simp only []
    cases parcorCall nl n dl d <;> simp
  all_goals simp

/-- **C11.14d** on a filter the call expression is the call of section 10 (drained); `ParCorError`
comes only out of the loop, after a yielded `k² = 1`, whatever was passed and however. -/
theorem parcorApply_filt (numLo denLo : Int) (num den : List K) :
    parcorApply [ArgObj.filt numLo num denLo den] [] =
      match parcorCall numLo num denLo den with
      | .valueError => .atNext .valueError
      | .zeroDiv => .atNext .zeroDivisionError
      | .ok ks b => .gen ks b := rfl

theorem parcorApply_parcorError_only_critical (args : List (ArgObj K))
    (kwargs : List (String × ArgObj K)) (ks : List K)
    (h : parcorApply args kwargs = .gen ks true) : ∃ k ∈ ks, k * k = 1 := by
  unfold parcorApply at h
  generalize bind1 "fir_filt" args kwargs = b at h
  rcases b with _ | (⟨nl, n, dl, d⟩ | _ | _ | _)
  · cases h
  · simp only [] at h
    cases hc : parcorCall nl n dl d with
    | valueError => rw [hc] at h; cases h
    | zeroDiv => rw [hc] at h; cases h
    | ok ks' b =>
      rw [hc] at h
      simp only [ApplyRes.gen.injEq] at h
      rw [h.1, h.2] at hc
      exact call_parcorError_only_critical nl dl n d ks hc
  all_goals cases h

/-- **C11.14e** `parcor_stable(…)` on a filter, positional or keyword: `True` exactly when every root of
the shifted denominator (complex) lies strictly inside the unit circle. -/
theorem stableApply_iff_poles (numLo denLo : Int) (num den : List ℝ) (h : shiftedDen den ≠ []) :
    stableApply [] [("filt", ArgObj.filt numLo num denLo den)] = .verdict true ↔
      ∀ z : ℂ, evalC (shiftedDen den).reverse z = 0 → Complex.normSq z < 1 := by
  rw [← stableCall_iff_poles numLo denLo num den h]
  show (match stableCall numLo num denLo den with
      | none => ApplyRes.atCall Exc.valueError
      | some b => ApplyRes.verdict b) = _ ↔ _
  cases stableCall numLo num denLo den <;> simp

/-! ### 15. round 5 — the model is REGENERATED from the source (`harness/props/c11_tr.py`)

`ALV/Gen/C11Src.lean` is rewritten from `audiolazy/lazy_lpc.py` before every build: the statements of
`parcor` and `parcor_stable`, each library operator replaced by one function of the vocabulary
`ALV/Model/C11Src.lean`.  The theorems below say that what the source says NOW is the model every
theorem above is about (on every carrier with the operations, no law of arithmetic used); an edit
of the source that changes a statement, an operator, a constant or the order breaks them. -/
section Src
variable {α : Type} [Add α] [Mul α] [Sub α] [Neg α] [Div α] [OfNat α 0] [OfNat α 1] [DecidableEq α]

/-- **C11.15a** the loop body of `parcor` as it stands in the source (`k = fir_filt.numpoly[m]`,
`yield k`, `zB = fir_filt(1 / z) * z ** -m`, `(fir_filt - k * zB) / (1 - k ** 2)` under
`try … except ZeroDivisionError → ParCorError`, `(fir_filt - fir_filt.numpoly[0]) + 1`) is the model's
loop body, `k ** 2` being the squaring function of the carrier. -/
theorem src_pstep_is_model :
    (ALV.Gen.C11.pstep : (α → α) → Nat → α → List α → Nat → α × Option (List α)) = pstepG := by
  funext pow2 n d w m; exact ALV.Gen.C11.pstep_eq pow2 n d w m

theorem src_ploop_is_model :
    (ALV.Gen.C11.ploop : (α → α) → Nat → α → Nat → List α → List α × Bool) = ploopG := by
  funext pow2 n d m w; exact ALV.Gen.C11.ploop_eq pow2 n d m w

/-- **C11.15b** `parcor` as it stands in the source (gain normalisation `gain = numpoly[0]`,
`if gain != 1: fir_filt /= gain`, the count-down from `len(numerator) - 1` to 1, the generator) is
the model run by the driver on binary64 … -/
theorem src_parcor_is_model :
    (ALV.Gen.C11.parcor : (α → α) → List α → List α × Bool) = parcorFixedG := by
  funext pow2 num; exact ALV.Gen.C11.parcor_eq pow2 num

/-- … and, with the product for the square, the model of the theorems of sections 1–10 -/
theorem src_parcor_is_exact_model :
    (ALV.Gen.C11.parcor (fun k : α => k * k)) = parcorFixed := by
  funext num; rw [src_parcor_is_model]; exact parcorFixedG_mul num

theorem src_parcor_f64 : ALV.Gen.C11.parcor F64.sqPow = parcorF64 := by
  rw [src_parcor_is_model]; rfl

/-- **C11.15c** `parcor_stable` as it stands in the source (`all(abs(k) < 1 for k in
parcor(ZFilter(filt.denpoly)))`, `except ParCorError: return False`) is the model; the numerator
is not read. -/
theorem src_parcor_stable_is_model [LT α] [DecidableLT α] :
    (ALV.Gen.C11.parcorStable : (α → α) → List α → List α → Bool) =
      fun pow2 _ den => parcorStableFixedG pow2 den := by
  funext pow2 num den; exact ALV.Gen.C11.parcorStable_eq pow2 num den

theorem src_parcor_stable_is_exact_model [LT α] [DecidableLT α] (num : List α) :
    ALV.Gen.C11.parcorStable (fun k : α => k * k) num = parcorStableFixed := by
  funext den; rw [src_parcor_stable_is_model]; exact parcorStableFixedG_mul den

theorem src_parcor_stable_f64 (num : List F64) :
    ALV.Gen.C11.parcorStable F64.sqPow num = parcorStableF64 := by
  rw [src_parcor_stable_is_model]; rfl

/-- **C11.15d** the test before the loop (`den = fir_filt.denominator`, `if len(den) != 1: raise
ValueError`) is the feedback branch of the call model: on a constructed filter the call raises
`ValueError` there exactly when the regenerated test says so, and otherwise goes on to the
regenerated `parcor` (behind the two pre-conditions of the constructor's shift). -/
theorem src_parcor_guard_is_call (numLo denLo : Int) (num den : List K) (h : shiftedDen den ≠ []) :
    parcorCall numLo num denLo den =
      if ALV.Gen.C11.parcorGuard (shiftedDen den) then .valueError
      else
        let lo := numLo - (denLo + (leadZeros den : Int))
        let f := causalPart lo num
        if f.headD 0 = 0 then .zeroDiv
        else if hasAdvance lo num then .valueError
        else
          let r := ALV.Gen.C11.parcor (fun k : K => k * k) f
          .ok r.1 r.2 := by
  have hi : stripZeros (shiftedDen den) = shiftedDen den := by
    unfold shiftedDen; exact stripZeros_idem _
  rw [ALV.Gen.C11.parcorGuard_eq, hi, src_parcor_is_exact_model]
  unfold parcorCall
  rcases hs : shiftedDen den with _ | ⟨a, _ | ⟨b, t⟩⟩
  · exact absurd hs h
  · simp
  · simp

/-- the denominator of `ZFilter(poly)` is the constant 1: the test passes for `parcor_stable` -/
theorem src_guard_passes_unit_den (h : (1 : α) ≠ 0) : ALV.Gen.C11.parcorGuard ([1] : List α) = false := by
  rw [ALV.Gen.C11.parcorGuard_eq]
  have : stripZeros ([1] : List α) = [1] := by simp [stripZeros, h]
  rw [this]

end Src

/-! ### non-vacuity -/
example : parcorStableCoded ([2, -1] : List Rat) = false := by decide +kernel
example : parcorStableSpec (fromPoles (3 : ℝ) [1/2, -3/4] [(0, 1/2), (3/5, 3/5)]) = true := by
  rw [stable_eq_construction 3 (by norm_num)]
  simp [polesInside]
  norm_num
example : parcorStableSpec (fromPoles (-2 : ℝ) [1/2] [(3/5, 4/5)]) = false := by
  rw [stable_eq_construction (-2) (by norm_num)]
  simp [polesInside]
  norm_num
example : polesInside ([1/2, -1] : List Rat) [] = false := by decide +kernel
example : fromPoles (2 : Rat) [1/2, -1] [(3/5, 4/5)] = [2, -7/5, -1/5, 11/5, -1] := by decide +kernel
example : levinson ([12, 6, 0, -3] : List Rat) 3 = some ([1, -5/8, 1/4, 1/8], 63/8, [-1/2, 1/3, 1/8]) := by
  decide +kernel
example : (12 : Rat) * (([-1/2, 1/3, 1/8] : List Rat).map (fun k => 1 - k * k)).prod = 63/8 := by
  decide +kernel
example : parcorStableSpec ([2, -1] : List ℝ) = true :=
  (schur_cohn_order1 2 (-1) (by norm_num) (by norm_num)).mpr (by
    intro z hz
    have : z = ((1 / 2 : ℝ) : ℂ) := by
      simp only [List.reverse_cons, List.reverse_nil, List.nil_append, List.cons_append,
        evalC_cons, evalC_nil] at hz
      push_cast at hz ⊢
      linear_combination (1 / 2 : ℂ) * hz
    rw [this, Complex.normSq_ofReal]; norm_num)
example : parcorCoded (1 : Rat) (stepUp [1/2, -1/3, 1/5]) = ([1/5, -1/3, 1/2], false) := by decide +kernel
example : parcorSpec ([2, 1, 1/2, 1/5] : List Rat) = ([1/10, 20/99, 95/238], false) := by decide +kernel
example : parcorCoded (1 : Rat) [2, 1, 1/2, 1/5] = ([1/5, 5/16, 5/7], false) := by decide +kernel
example : parcorCoded (1 : Rat) [3, 3/2, 1/2] = ([1/2, 1], true) := by decide +kernel

example : (Hist.run (Hist.Heap.empty : Hist.Heap Rat)
    [.lev [3, 1, 1/2, -1/4] 3, .parcor 0, .setPoly 0 .num (stepUp [1/3, -1/2, 1/5]), .parcor 0]).2
    = [.made 0, .ks [3/17, -1/16, -1/3] false, .done, .ks [1/5, -1/2, 1/3] false] := by decide +kernel
example : (Hist.run (Hist.Heap.empty : Hist.Heap Rat)
    ([.lev [5, 2, -1] 2] ++ Hist.editItems 0 .num (stepUp [-2/3, 1/4]) ++ [.parcor 0, .stable 0])).2.drop 4
    = [.ks [1/4, -2/3] false, .verdict true] := by decide +kernel
example : (Hist.run (Hist.Heap.empty : Hist.Heap Rat)
    [.mk [1] [1, -1/2], .stable 0, .set 0 .den 1 (-1), .stable 0, .parcor 0, .mk [2] [1],
     .share 1 .num 0 .den, .set 0 .den 1 (1/3), .parcor 1]).2
    = [.made 0, .verdict true, .done, .verdict false, .valueError, .made 1, .done, .done,
       .ks [1/3] false] := by decide +kernel

-- section 8: near-critical reflection coefficients in exact arithmetic
example : parcorFixed (stepUp ([1/3, 999999999/1000000000, 1/4] : List Rat))
    = ([1/4, 999999999/1000000000, 1/3], false) := by decide +kernel
example : parcorFixed (stepUp ([2/5, -1/7, 1000000001/1000000000, -3/4] : List Rat))
    = ([-3/4, 1000000001/1000000000, -1/7, 2/5], false) := by decide +kernel
example : parcorFixed (stepUp ([1/3, 1, 1/2, -1, 1/4] : List Rat)) = ([1/4, -1], true) := by decide +kernel
example : parcorStableFixed (fromPoles (-5/2 : Rat) [999999999/1000000000, 1/2, -1/3] []) = true := by
  decide +kernel
example : parcorStableFixed (fromPoles (3 : Rat) [1000000001/1000000000, 1/2] []) = false := by
  decide +kernel
example : cutAtUnit ([1/4, -1, 1/2, 1, 1/3] : List Rat) = ([1/4, -1], true) := by decide +kernel
-- section 9: the parameterised loop on Rat
example : parcorFixedG (fun k => k * k) ([98, -105, 34, -3] : List Rat) = ([-3/98, 3017/9595, -849/1051], false) := by
  decide +kernel
example : ploopG (fun k => k * k) 3 1 2 ([7, 0, 0, 1, 1/2, 1/3, 9] : List Rat)
    = ploopG (fun k => k * k) 3 5 2 ([0, 0, -4, 99/100, 1/2, 1/3, 0] : List Rat) := by decide +kernel
example : ploopG (fun k => k * k) 3 1 2 ([7, 0, 0, 1, 1/2, 1/3, 9] : List Rat) = ([1/3, 3/8], false) := by
  decide +kernel
-- section 10: call kinds
example : parcorCall 0 ([2, 1] : List Rat) 0 [5] = .ok [1/2] false := by decide +kernel
example : parcorCall (-1) ([1, 1, 1/2] : List Rat) 0 [1] = .valueError := by decide +kernel
example : parcorCall 1 ([1, 1/2] : List Rat) 0 [1] = .zeroDiv := by decide +kernel
example : parcorCall 0 ([0, 1, 1/2] : List Rat) 0 [0, 2] = .ok [1/2] false := by decide +kernel
example : parcorCall 0 ([1, 1/2] : List Rat) 0 [1, 1/2] = .valueError := by decide +kernel
example : stableCall 0 ([2, 1] : List Rat) (-1) [1, 1/2] = some true := by decide +kernel
example : stableCall 0 ([] : List Rat) 0 [0, 0] = none := by decide +kernel

-- section 11-13 (round 4)
example : parcorFixedG (fun k => k * k) ([3, 3/2, 1/2] : List Rat) = ([1/6, 3/7], false) := by decide +kernel
example : parcorFixedG (fun k => k * k) ([2, 5, 2] : List Rat) = ([1], true) := by decide +kernel
example : levinsonG (sumPyG (fun _ => true)) ([12, 6, 0, -3] : List Rat) 3
    = some ([1, -5/8, 1/4, 1/8], 63/8, [-1/2, 1/3, 1/8]) := by decide +kernel
example : errorSpec (12 : Rat) [-1/2, 1/3, 1/8] = 63/8 := by decide +kernel
example : sumPyG (fun _ => true) ([1/3, -7, 1/2, 5] : List Rat) = -7/6 := by decide +kernel
-- levinson_raises_iff: r₀ = 0 raises at once; k₁ = -1 raises at step 2; k₂ = ±1 at the LAST step returns, error 0
example : levinson ([0, 1] : List Rat) 1 = none := by decide +kernel
example : levinson ([1, 1, 1] : List Rat) 2 = none := by decide +kernel
example : levinson ([1, 1] : List Rat) 1 = some ([1, -1], 0, [-1]) := by decide +kernel
example : (levLoop (extendAc ([1, 1, 1] : List Rat) 2) 1 ⟨[1], []⟩).map (fun s => (s.a, s.ks))
    = some ([1, -1], [-1]) ∧ errorSpec (1 : Rat) [-1] = 0 := by decide +kernel
example : parcorCodedE ([2, 0] : List Rat) [2, 1] = some ([1/2], false) := by decide +kernel
example : parcorCodedE ([1, 1/2] : List Rat) [1, 1/2] = none := by decide +kernel
example : parcorFixed ([3, 3/2, 1/2] : List Rat) = ([1/6, 3/7], false) ∧
    scale (3 : Rat) (stepUp [3/7, 1/6]) = [3, 3/2, 1/2] := by decide +kernel
example : parcorCall (-2) ([0, 3, 3/2, 1/2] : List Rat) (-2) [0, 5] = .ok [1/6, 3/7] false ∧
    causalPart ((-2 : Int) - ((-2 : Int) + ((leadZeros ([0, 5] : List Rat) : Nat) : Int))) ([0, 3, 3/2, 1/2] : List Rat)
      = [3, 3/2, 1/2] := by decide +kernel

-- section 14
example : parcorApply [ArgObj.filt 0 ([2, 1] : List Rat) 0 [5]] [] = .gen [1/2] false := by decide +kernel
example : parcorApply [] [("filt", ArgObj.filt 0 ([2, 1] : List Rat) 0 [5])] = .atCall .typeError := by
  decide +kernel
example : parcorApply [ArgObj.filt 0 ([1, 1/2] : List Rat) 0 [1, 1/2]] [] = .atNext .valueError := by
  decide +kernel
example : stableApply [] [("filt", ArgObj.filt 0 ([2, 1] : List Rat) (-1) [1, 1/2])] = .verdict true := by
  decide +kernel
example : stableApply [(ArgObj.rational : ArgObj Rat)] [] = .atCall .attributeError := by decide +kernel
example : parcorApply [(ArgObj.rational : ArgObj Rat)] [] = .atNext .typeError := by decide +kernel
example : parcorApply [ArgObj.filt 0 ([2, 5, 2] : List Rat) 0 [1]] [] = .gen [1] true := by decide +kernel

-- section 15: the regenerated definitions run
example : ALV.Gen.C11.parcor (fun k : Rat => k * k) [3, 3/2, 1/2] = ([1/6, 3/7], false) := by decide +kernel
example : ALV.Gen.C11.parcorE (fun k : Rat => k * k) [5] [2, 5, 2] = some ([1], true) := by decide +kernel
example : ALV.Gen.C11.parcorE (fun k : Rat => k * k) [1, 1/2] [1, 1/2] = none := by decide +kernel
example : ALV.Gen.C11.parcorStable (fun k : Rat => k * k) [7] [2, -1] = true ∧
    ALV.Gen.C11.parcorStable (fun k : Rat => k * k) [7] [1, -2] = false ∧
    ALV.Gen.C11.parcorStable (fun k : Rat => k * k) [7] [1, 0, -1] = false := by decide +kernel
example : ALV.Gen.C11.parcorGuard ([0, 5, 0] : List Rat) = true ∧
    ALV.Gen.C11.parcorGuard ([5, 0] : List Rat) = false := by decide +kernel

end ALV.Props.C11

#write_audit "C11"
