/-
  C11 — property theorems.  Only statements of the property, non-vacuity examples and the
  audit live here; helper lemmas are in `ALV.Lemmas.C11*`.

  Vocabulary: `parcorCoded d num` = `list(parcor(ZFilter(num, [d])))` as coded (yields, raised);
  `parcorFixed` = the same loop with the proposed repair of D3; `parcorSpec` = the specification
  (monic normalisation, textbook step-down); `stepUp ks` = Levinson order updates from the
  reflection coefficients `ks` (first first).
-/
import ALV.Lemmas.C11Order2
import ALV.Lemmas.C11Lev
import ALV.Lemmas.C11Poles
import ALV.Lemmas.C11Converse
import ALV.Common.Audit

set_option linter.unusedSectionVars false

namespace ALV.Props.C11
open ALV.C11
variable {K : Type} [Field K] [DecidableEq K]

/-! ### 1. step-down inverts step-up, both directions, any order, any field -/

/-- **C11.1a** `parcor` (as coded, denominator 1) of the filter stepped up from `k_1 … k_n`
yields exactly `k_n, …, k_1` and does not raise — any order, any field, provided no `k_m² = 1`
and `k_n ≠ 0` (the order is the highest non-zero coefficient). -/
theorem stepdown_stepup (ks : List K) (h1 : ∀ k ∈ ks, k * k ≠ 1) (hlast : ks.getLastD 1 ≠ 0) :
    parcorCoded 1 (stepUp ks) = (ks.reverse, false) := by
  obtain ⟨t, ht⟩ := stepUp_head ks
  have hs : stripZeros (stepUp ks) = 1 :: t := by
    rw [stripZeros_of_last_ne _ (stepUp_last_ne ks hlast), ht]
  rw [parcorCoded_eq_spec 1 _ t one_ne_zero hs]
  unfold parcorSpec
  rw [hs, monic_cons 1 t one_ne_zero]
  have : (1 : K) :: t.map (fun x => x / 1) = stepUp ks := by rw [ht]; simp
  rw [this]
  show sdLoop ((stepUp ks).length - 1) (stepUp ks) = _
  rw [stepUp_length, Nat.add_sub_cancel]
  exact sdLoop_stepUp ks h1

/-- the same for the specification -/
theorem stepdown_stepup_spec (ks : List K) (h1 : ∀ k ∈ ks, k * k ≠ 1) (hlast : ks.getLastD 1 ≠ 0) :
    parcorSpec (stepUp ks) = (ks.reverse, false) := by
  obtain ⟨t, ht⟩ := stepUp_head ks
  have hs : stripZeros (stepUp ks) = 1 :: t := by
    rw [stripZeros_of_last_ne _ (stepUp_last_ne ks hlast), ht]
  rw [← parcorCoded_eq_spec 1 _ t one_ne_zero hs]
  exact stepdown_stepup ks h1 hlast

/-- **C11.1b** rebuilding: whenever `parcor` (as coded) runs to its end on a filter whose leading
coefficient equals the constant denominator `d`, the step-up of the yielded coefficients (read
backwards) is the monic normalisation of the filter. -/
theorem stepup_stepdown (d : K) (num t ks : List K) (hd : d ≠ 0) (hs : stripZeros num = d :: t)
    (h : parcorCoded d num = (ks, false)) : stepUp ks.reverse = monic (stripZeros num) := by
  rw [parcorCoded_eq_spec d num t hd hs] at h
  unfold parcorSpec at h
  rw [hs, monic_cons d t hd] at h ⊢
  simp only [List.length_cons, List.length_map, Nat.add_sub_cancel] at h
  exact stepUp_sdLoop _ _ ks (by simp) h

/-- the same for the specification: any non-zero leading coefficient -/
theorem stepup_stepdown_spec (f t ks : List K) (g : K) (hg : g ≠ 0) (hs : stripZeros f = g :: t)
    (h : parcorSpec f = (ks, false)) : stepUp ks.reverse = monic (stripZeros f) := by
  unfold parcorSpec at h
  rw [hs, monic_cons g t hg] at h ⊢
  simp only [List.length_cons, List.length_map, Nat.add_sub_cancel] at h
  exact stepUp_sdLoop _ _ ks (by simp) h

/-! ### 2. the code against the specification -/

/-- **C11.2a** as coded = specification whenever the numerator's leading coefficient equals `den[0]`
(in particular: monic numerator over denominator 1, the only case the repo's tests exercise). -/
theorem coded_eq_spec (d : K) (num t : List K) (hd : d ≠ 0) (hs : stripZeros num = d :: t) :
    parcorCoded d num = parcorSpec num := parcorCoded_eq_spec d num t hd hs

/-- **C11.2b** the repaired loop = specification for every non-zero leading coefficient. -/
theorem fixed_eq_spec (num t : List K) (g : K) (hg : g ≠ 0) (hs : stripZeros num = g :: t) :
    parcorFixed num = parcorSpec num := parcorFixed_eq_spec num g t hg hs

/-! ### 3. ParCorError -/

/-- **C11.3** `parcor` as coded raises `ParCorError` iff one of the yielded coefficients has
`k² = 1` — for every input, whatever its leading coefficient and constant denominator. -/
theorem parcor_error_iff (d : K) (num : List K) :
    (parcorCoded d num).2 = true ↔ ∃ k ∈ (parcorCoded d num).1, k * k = 1 := by
  unfold parcorCoded
  exact ploop_raised_iff _ _ _ _

/-- in the words of the property: `ParCorError` iff some yielded `k` is `1` or `−1` -/
theorem parcor_error_iff_unit (d : K) (num : List K) :
    (parcorCoded d num).2 = true ↔ ∃ k ∈ (parcorCoded d num).1, k = 1 ∨ k = -1 := by
  rw [parcor_error_iff]
  constructor
  · rintro ⟨k, hk, h⟩; exact ⟨k, hk, mul_self_eq_one_iff.mp h⟩
  · rintro ⟨k, hk, h⟩; exact ⟨k, hk, mul_self_eq_one_iff.mpr h⟩

theorem parcor_error_iff_spec (f : List K) :
    (parcorSpec f).2 = true ↔ ∃ k ∈ (parcorSpec f).1, k * k = 1 := by
  unfold parcorSpec
  exact sdLoop_raised_iff _ _

/-- without `ParCorError`, as many coefficients as the order are yielded -/
theorem parcor_count_spec (f : List K) (h : (parcorSpec f).2 = false) :
    (parcorSpec f).1.length = (stripZeros f).length - 1 := by
  unfold parcorSpec at h ⊢
  rw [sdLoop_length _ _ h]; simp [monic]

/-! ### 4. a non-zero gain changes nothing ("whatever non-zero leading coefficient") -/

theorem parcor_scale (c : K) (hc : c ≠ 0) (f : List K) : parcorSpec (scale c f) = parcorSpec f :=
  parcorSpec_scale c hc f

section Order
variable {L : Type} [Field L] [LinearOrder L] [IsStrictOrderedRing L]

/-- **C11.4a** the stability verdict of the specification ignores any non-zero gain. -/
theorem stable_scale (c : L) (hc : c ≠ 0) (f : List L) :
    parcorStableSpec (scale c f) = parcorStableSpec f := by
  unfold parcorStableSpec
  rw [parcorSpec_scale c hc]

/-- **C11.4b** `parcor_stable` as coded = specification on denominators with leading coefficient 1. -/
theorem stableCoded_eq_spec (den t : List L) (hs : stripZeros den = 1 :: t) :
    parcorStableCoded den = parcorStableSpec den := by
  rw [parcorStableCoded_eq, parcorCoded_eq_spec 1 den t one_ne_zero hs]
  unfold parcorStableSpec
  congr 2
  funext k
  exact absLt1_iff k

/-- **C11.4c** the repaired `parcor_stable` = specification for every non-zero leading coefficient,
hence it ignores the gain. -/
theorem stableFixed_eq_spec (den t : List L) (g : L) (hg : g ≠ 0) (hs : stripZeros den = g :: t) :
    parcorStableFixed den = parcorStableSpec den := by
  rw [parcorStableFixed_eq, parcorFixed_eq_spec den g t hg hs]
  unfold parcorStableSpec
  congr 2
  funext k
  exact absLt1_iff k

theorem stableFixed_scale (c g : L) (hc : c ≠ 0) (hg : g ≠ 0) (den t : List L)
    (hs : stripZeros den = g :: t) :
    parcorStableFixed (scale c den) = parcorStableFixed den := by
  have hs' : stripZeros (scale c den) = (c * g) :: scale c t := by
    rw [stripZeros_scale c hc, hs]; rfl
  rw [stableFixed_eq_spec _ _ (c * g) (mul_ne_zero hc hg) hs', stableFixed_eq_spec _ _ g hg hs,
    stable_scale c hc]

end Order

/-- **C11.4d (defect D3)** the gain clause is FALSE for the code as it stands: `1/(1 - z⁻¹/2)` is
stable, `1/(2 - z⁻¹)` (the same pole 1/2) is declared unstable. -/
theorem stable_scale_fails_as_coded :
    ¬ ∀ (c : Rat) (f : List Rat), c ≠ 0 → parcorStableCoded (scale c f) = parcorStableCoded f := by
  intro h
  have := h 2 [1, -1/2] (by decide)
  have h1 : parcorStableCoded (scale (2 : Rat) [1, -1/2]) = false := by decide +kernel
  have h2 : parcorStableCoded ([1, -1/2] : List Rat) = true := by decide +kernel
  rw [h1, h2] at this
  exact Bool.false_ne_true this

/-! ### 5. Schur–Cohn: the verdict against the pole locations (real coefficients, complex poles)

The poles of `num / den` (den₀ ≠ 0) are the roots of `Σ den_i z^(n-i)` = `evalC den.reverse`. -/

/-- **C11.5a** every order: a `true` verdict of the specification implies that every pole lies
strictly inside the unit circle (critical and unstable filters get `false`). -/
theorem schur_cohn_sufficient (den t : List ℝ) (g : ℝ) (hg : g ≠ 0) (hs : stripZeros den = g :: t)
    (h : parcorStableSpec den = true) :
    ∀ z : ℂ, evalC den.reverse z = 0 → Complex.normSq z < 1 :=
  fun z hz => stableSpec_poles_inside den t g hg hs h z hz

/-- the same for `parcor_stable` as repaired (any non-zero leading coefficient) and as coded
(leading coefficient 1) -/
theorem stableFixed_poles_inside (den t : List ℝ) (g : ℝ) (hg : g ≠ 0) (hs : stripZeros den = g :: t)
    (h : parcorStableFixed den = true) :
    ∀ z : ℂ, evalC den.reverse z = 0 → Complex.normSq z < 1 := by
  rw [stableFixed_eq_spec den t g hg hs] at h
  exact schur_cohn_sufficient den t g hg hs h

theorem stableCoded_poles_inside (den t : List ℝ) (hs : stripZeros den = 1 :: t)
    (h : parcorStableCoded den = true) :
    ∀ z : ℂ, evalC den.reverse z = 0 → Complex.normSq z < 1 := by
  rw [stableCoded_eq_spec den t hs] at h
  exact schur_cohn_sufficient den t 1 one_ne_zero hs h

/-- **C11.5b** order 1, both directions (explicit root) -/
theorem schur_cohn_order1 (a0 a1 : ℝ) (h0 : a0 ≠ 0) (h1 : a1 ≠ 0) :
    parcorStableSpec [a0, a1] = true ↔
      ∀ z : ℂ, evalC [a0, a1].reverse z = 0 → Complex.normSq z < 1 := by
  constructor
  · exact schur_cohn_sufficient [a0, a1] [a1] a0 h0 (by simp [stripZeros, h1])
  · intro h; exact order1_converse a0 a1 h0 h1 (by simpa using h)

/-- **C11.5c** order 2, both directions (real double roots, distinct real roots, conjugate pairs) -/
theorem schur_cohn_order2 (a0 a1 a2 : ℝ) (h0 : a0 ≠ 0) (h2 : a2 ≠ 0) :
    parcorStableSpec [a0, a1, a2] = true ↔
      ∀ z : ℂ, evalC [a0, a1, a2].reverse z = 0 → Complex.normSq z < 1 := by
  constructor
  · exact schur_cohn_sufficient [a0, a1, a2] [a1, a2] a0 h0 (by simp [stripZeros, h2])
  · intro h; exact order2_converse a0 a1 a2 h0 h2 (by simpa using h)

/-- **C11.5 Schur–Cohn, both directions, EVERY order**: for a denominator with non-zero leading
coefficient, the verdict of the specification is `true` exactly when every pole (root of
`Σ den_i z^(n-i)`, complex) lies strictly inside the unit circle.  Necessity is proved without
Rouché: factorisation over ℂ, one Blaschke factor at a time (`Lemmas/C11Converse.lean`). -/
theorem schur_cohn (den t : List ℝ) (g : ℝ) (hg : g ≠ 0) (hs : stripZeros den = g :: t) :
    parcorStableSpec den = true ↔ ∀ z : ℂ, evalC den.reverse z = 0 → Complex.normSq z < 1 :=
  ⟨schur_cohn_sufficient den t g hg hs, poles_inside_stableSpec den t g hg hs⟩

/-- the repaired `parcor_stable` decides stability, every order, any non-zero leading coefficient -/
theorem stableFixed_iff_poles_inside (den t : List ℝ) (g : ℝ) (hg : g ≠ 0)
    (hs : stripZeros den = g :: t) :
    parcorStableFixed den = true ↔ ∀ z : ℂ, evalC den.reverse z = 0 → Complex.normSq z < 1 := by
  rw [stableFixed_eq_spec den t g hg hs]
  exact schur_cohn den t g hg hs

/-- `parcor_stable` as coded decides stability on denominators with leading coefficient 1 -/
theorem stableCoded_iff_poles_inside (den t : List ℝ) (hs : stripZeros den = 1 :: t) :
    parcorStableCoded den = true ↔ ∀ z : ℂ, evalC den.reverse z = 0 → Complex.normSq z < 1 := by
  rw [stableCoded_eq_spec den t hs]
  exact schur_cohn den t 1 one_ne_zero hs

/-- **C11.5d** "critical and unstable filters give False", every order: a denominator built with a
prescribed real pole or conjugate pair on or outside the unit circle gets the verdict `false`,
whatever the other poles and the non-zero gain. -/
theorem unstable_gives_false (g : ℝ) (hg : g ≠ 0) (reals : List ℝ) (pairs : List (ℝ × ℝ))
    (h : polesInside reals pairs = false) : parcorStableSpec (fromPoles g reals pairs) = false :=
  fromPoles_unstable g hg reals pairs h

/-- the same for the repaired `parcor_stable` -/
theorem unstable_gives_false_fixed (g : ℝ) (hg : g ≠ 0) (reals : List ℝ) (pairs : List (ℝ × ℝ))
    (h : polesInside reals pairs = false) : parcorStableFixed (fromPoles g reals pairs) = false := by
  obtain ⟨t, ht⟩ := fromPoles_head g reals pairs
  obtain ⟨t', ht'⟩ := stripZeros_head g hg t
  rw [← ht] at ht'
  rw [stableFixed_eq_spec _ t' g hg ht']
  exact fromPoles_unstable g hg reals pairs h

/-- **C11.5e** the constructed family (the inputs of the tie): the verdict IS the construction —
`true` iff every prescribed real pole and conjugate pair is strictly inside the unit circle;
every order, any non-zero gain. -/
theorem stable_eq_construction (g : ℝ) (hg : g ≠ 0) (reals : List ℝ) (pairs : List (ℝ × ℝ)) :
    parcorStableSpec (fromPoles g reals pairs) = polesInside reals pairs := by
  cases h : polesInside reals pairs with
  | true => exact fromPoles_stable g hg reals pairs h
  | false => exact fromPoles_unstable g hg reals pairs h

/-! ### 6. `levinson_durbin` as coded: reflection coefficients and prediction error -/

/-- **C11.6a** whenever `levinson_durbin(r, order)` returns (no `ParCorError`), with `ks` the
coefficients `k_m = −⟨A, z^-m⟩/⟨B, B⟩` of its loop: the filter is the step-up of `ks`, there are
`order` of them, and `A.error = r₀ · Π (1 − k_m²)` — any field, any order, any `r` (also shorter
than the order: zero extension). -/
theorem levinson_error (r : List K) (order : Nat) (a ks : List K) (e : K)
    (h : levinson r order = some (a, e, ks)) :
    a = stepUp ks ∧ ks.length = order ∧ e = r.headD 0 * (ks.map (fun k => 1 - k * k)).prod := by
  unfold levinson at h
  simp only [] at h
  cases hl : levLoop (extendAc r order) order ⟨[1], []⟩ with
  | none => rw [hl] at h; simp at h
  | some s =>
    rw [hl] at h
    simp only [Option.some.injEq, Prod.mk.injEq] at h
    obtain ⟨ha, he, hk⟩ := h
    have inv := levLoop_inv _ _ order _ s (linv_init (extendAc r order)) hl
    have hc := levLoop_count _ order _ s hl
    refine ⟨by rw [← ha, ← hk]; exact inv.up, by rw [← hk, hc]; simp, ?_⟩
    rw [← he, inner_self _ _ s inv, cf_extendAc_zero, errorSpec_eq_prod, hk]

/-- **C11.6b** `parcor(levinson_durbin(r))` yields, last first, exactly the reflection coefficients
of the recursion (no `k_m² = 1`, last one non-zero). -/
theorem parcor_levinson (r : List K) (order : Nat) (a ks : List K) (e : K)
    (h : levinson r order = some (a, e, ks)) (h1 : ∀ k ∈ ks, k * k ≠ 1) (hlast : ks.getLastD 1 ≠ 0) :
    parcorCoded 1 a = (ks.reverse, false) := by
  rw [(levinson_error r order a ks e h).1]
  exact stepdown_stepup ks h1 hlast

/-- **C11.4e (defect D3 made explicit, order 1)** over any ordered field the code answers
`|a₁| < 1` for the denominator `a₀ + a₁ z⁻¹`, where the property wants `|a₁ / a₀| < 1`. -/
theorem d3_order1 {L : Type} [Field L] [LinearOrder L] [IsStrictOrderedRing L]
    (a0 a1 : L) (h1 : a1 ≠ 0) : parcorStableCoded [a0, a1] = absLt1 a1 := by
  rw [parcorStableCoded_eq]
  have hs : stripZeros [a0, a1] = [a0, a1] := by simp [stripZeros, h1]
  have hk : lget 1 (wOfList 1 [a0, a1]) ((1 : Nat) : Int) = a1 := by
    rw [(rep_wOfList 1 [a0, a1] (by simp)).2, emb_nat]; rfl
  unfold parcorCoded
  rw [hs]
  simp only [normDen, if_true, List.length_cons, List.length_nil, Nat.add_sub_cancel, zero_add]
  rw [ploop_succ]
  unfold pstep
  simp only [hk]
  by_cases hz : (1 : L) - a1 * a1 = 0
  · rw [if_pos hz]
    simp only [Bool.not_true, Bool.false_and]
    symm
    rw [Bool.eq_false_iff]
    intro h
    rw [absLt1_iff] at h
    simp only [Bool.and_eq_true, decide_eq_true_eq] at h
    nlinarith
  · rw [if_neg hz]
    simp [ploop]

/-! ### non-vacuity -/
example : parcorStableCoded ([2, -1] : List Rat) = false := by decide +kernel
example : parcorStableSpec (fromPoles (3 : ℝ) [1/2, -3/4] [(0, 1/2), (3/5, 3/5)]) = true := by
  rw [stable_eq_construction 3 (by norm_num)]
  simp [polesInside]
  norm_num
example : parcorStableSpec (fromPoles (-2 : ℝ) [1/2] [(3/5, 4/5)]) = false := by
  rw [stable_eq_construction (-2) (by norm_num)]
  simp [polesInside]
  norm_num
example : polesInside ([1/2, -1] : List Rat) [] = false := by decide +kernel
example : fromPoles (2 : Rat) [1/2, -1] [(3/5, 4/5)] = [2, -7/5, -1/5, 11/5, -1] := by decide +kernel
example : levinson ([12, 6, 0, -3] : List Rat) 3 = some ([1, -5/8, 1/4, 1/8], 63/8, [-1/2, 1/3, 1/8]) := by
  decide +kernel
example : (12 : Rat) * (([-1/2, 1/3, 1/8] : List Rat).map (fun k => 1 - k * k)).prod = 63/8 := by
  decide +kernel
example : parcorStableSpec ([2, -1] : List ℝ) = true :=
  (schur_cohn_order1 2 (-1) (by norm_num) (by norm_num)).mpr (by
    intro z hz
    have : z = ((1 / 2 : ℝ) : ℂ) := by
      simp only [List.reverse_cons, List.reverse_nil, List.nil_append, List.cons_append,
        evalC_cons, evalC_nil] at hz
      push_cast at hz ⊢
      linear_combination (1 / 2 : ℂ) * hz
    rw [this, Complex.normSq_ofReal]; norm_num)
example : parcorCoded (1 : Rat) (stepUp [1/2, -1/3, 1/5]) = ([1/5, -1/3, 1/2], false) := by decide +kernel
example : parcorSpec ([2, 1, 1/2, 1/5] : List Rat) = ([1/10, 20/99, 95/238], false) := by decide +kernel
example : parcorCoded (1 : Rat) [2, 1, 1/2, 1/5] = ([1/5, 5/16, 5/7], false) := by decide +kernel
example : parcorCoded (1 : Rat) [3, 3/2, 1/2] = ([1/2, 1], true) := by decide +kernel

end ALV.Props.C11

#write_audit "C11"
