import ALV.Spec.C11
import ALV.Common.Audit

namespace ALV.Props.C11
open ALV.C11

theorem stepUp_nil : stepUp ([] : List Int) = [1] := rfl

end ALV.Props.C11

#write_audit "C11"
