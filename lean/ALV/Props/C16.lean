/-
  C16 — property theorems (Streamix and ControlStream).  Only statements of the property,
  non-vacuity examples and the audit live here; helper lemmas are in `ALV.Lemmas.C16*`.
-/
import ALV.Lemmas.C16
import ALV.Lemmas.C16Inv
import ALV.Lemmas.C16Ctl
import ALV.Common.Audit

namespace ALV.Props.C16
open ALV.C16
variable {α β : Type}

/-- **C16.1** (central refinement).  For every history — any interleaving of `add` (any rational
delta, any finite data), `next` and assignments to `keep`, from a fresh Streamix with any `keep`
and any zero value, over any item type with a `+` — the generator model shows the caller exactly
what the specification says: every `add` is accepted / rejected alike, every `next` delivers
`zero + Σ` of the items due at that sample of the events whose start time
`max(⌈T_i − 1/2⌉, moment added)` has been reached, starts the same number of events at that
sample, and ends (StopIteration) at the same `next`; after the end nothing revives it. -/
theorem streamix_model_eq_spec [Add α] (zero : α) (keep : Bool) (ops : List (Op α)) :
    (mrun zero (MState.init keep) ops).2 = (srun zero (SState.init keep) ops).2 :=
  (run_sim zero ops _ _ (sim_init keep)).1

/-- **C16.2** (the invariant behind "no drift").  After any history
`count = (samples delivered) + 1/2 − (cumulative time of the events started so far)`, the started
time being the accepted time minus what still waits in `_not_playing`. -/
theorem count_invariant [Add α] (zero : α) (keep : Bool) (ops : List (Op α)) :
    (mrun zero (MState.init keep) ops).1.count =
      (delivered (mrun zero (MState.init keep) ops).2 : Rat) + 1/2 -
        (acceptedTime ops - qsum (mrun zero (MState.init keep) ops).1.notPlaying) := by
  have h0 : CountInv (MState.init keep : MState α) 0 0 := by
    simp [CountInv, MState.init, qsum]
  have := countInv_run zero ops _ 0 0 h0
  simpa [CountInv] using this

/-- **C16.3** a negative delta raises ValueError and leaves the mixer as it was. -/
theorem negative_delta_rejected [Add α] (zero : α) (s : MState α) (d : Rat) (x : List α) (hd : d < 0) :
    mstep zero s (.add d x) = (s, .valueError) := by
  simp [mstep, madd, hd]

/-- … so a rejected `add` anywhere in a history changes no other observation and no state. -/
theorem rejected_add_is_noop [Add α] (zero : α) (s : MState α) (d : Rat) (x : List α) (hd : d < 0)
    (ops : List (Op α)) :
    mrun zero s (.add d x :: ops) = ((mrun zero s ops).1, .valueError :: (mrun zero s ops).2) := by
  simp [mrun, mstep, madd, hd]

/-- **C16.4** ControlStream: for any interleaving of assignments and reads, every read yields
the value most recently assigned before it (the constructor's value if none). -/
theorem control_last_value (init : β) (ops : List (COp β)) : crun init ops = cspec init ops :=
  crun_eq_cspec ops init

/-! non-vacuity: the statements are about non-trivial inputs -/

-- the docstring example: [-1, 1, 4, 1, -3, -5, -7, -1], then the end
example : (mrun (0 : Int) (MState.init false)
    [.add 0 [-1, 1, 3, 2], .add 2 [4, 4, 4], .add 0 [-3, -5, -7, -5, -7, -1],
     .next, .next, .next, .next, .next, .next, .next, .next, .next]).2
    = [.ok, .ok, .ok, .out (-1) 1, .out 1 0, .out 4 2, .out 1 0, .out (-3) 0, .out (-5) 0, .out (-7) 0,
       .out (-1) 0, .stop] := by decide +kernel

end ALV.Props.C16

#write_audit "C16"
