/-
  C16 — property theorems (Streamix and ControlStream).  Only statements of the property,
  non-vacuity examples and the audit live here; helper lemmas are in `ALV.Lemmas.C16*`.
-/
import ALV.Lemmas.C16
import ALV.Lemmas.C16Inv
import ALV.Lemmas.C16Ctl
import ALV.Lemmas.C16Batch
import ALV.Common.Audit

namespace ALV.Props.C16
open ALV.C16
variable {α β : Type}

/-- **C16.1** (central refinement).  For every history — any interleaving of `add` (any rational
delta, any finite data), `next` and assignments to `keep`, from a fresh Streamix with any `keep`
and any zero value, over any item type with a `+` — the generator model shows the caller exactly
what the specification says: every `add` is accepted / rejected alike, every `next` delivers
`zero + Σ` of the items due at that sample of the events whose start time
`max(⌈T_i − 1/2⌉, moment added)` has been reached, starts the same number of events at that
sample, and ends (StopIteration) at the same `next`; after the end nothing revives it. -/
theorem streamix_model_eq_spec [Add α] (zero : α) (keep : Bool) (ops : List (Op α)) :
    (mrun zero (MState.init keep) ops).2 = (srun zero (SState.init keep) ops).2 :=
  (run_sim zero ops _ _ (sim_init keep)).1

/-- **C16.2** (the invariant behind "no drift").  After any history
`count = (samples delivered) + 1/2 − (cumulative time of the events started so far)`, the started
time being the accepted time minus what still waits in `_not_playing`. -/
theorem count_invariant [Add α] (zero : α) (keep : Bool) (ops : List (Op α)) :
    (mrun zero (MState.init keep) ops).1.count =
      (delivered (mrun zero (MState.init keep) ops).2 : Rat) + 1/2 -
        (acceptedTime ops - qsum (mrun zero (MState.init keep) ops).1.notPlaying) := by
  have h0 : CountInv (MState.init keep : MState α) 0 0 := by
    simp [CountInv, MState.init, qsum]
  have := countInv_run zero ops _ 0 0 h0
  simpa [CountInv] using this

/-- **C16.3** a negative delta raises ValueError and leaves the mixer as it was. -/
theorem negative_delta_rejected [Add α] (zero : α) (s : MState α) (d : Rat) (x : List α) (hd : d < 0) :
    mstep zero s (.add d x) = (s, .valueError) := by
  simp [mstep, madd, hd]

/-- … so a rejected `add` anywhere in a history changes no other observation and no state. -/
theorem rejected_add_is_noop [Add α] (zero : α) (s : MState α) (d : Rat) (x : List α) (hd : d < 0)
    (ops : List (Op α)) :
    mrun zero s (.add d x :: ops) = ((mrun zero s ops).1, .valueError :: (mrun zero s ops).2) := by
  simp [mrun, mstep, madd, hd]

/-- **C16.4** ControlStream: for any interleaving of assignments and reads, every read yields
the value most recently assigned before it (the constructor's value if none). -/
theorem control_last_value (init : β) (ops : List (COp β)) : crun init ops = cspec init ops :=
  crun_eq_cspec ops init

/-- **C16.5** (the next sample after any history, in closed form).  Let `s` be the spec's log
after the history `ops` (events with starts `max(⌈T_i − 1/2⌉, moment added)`, `n` samples
delivered).  One more `next` on the *model* raises StopIteration iff the stream had already ended
or keep is off and every event is over (`max_i(start_i + len_i) ≤ n`: nothing playing, nothing
pending); otherwise it delivers `zero + Σ_{start_i ≤ n < start_i+len_i} data_i[n − start_i]`. -/
theorem next_after_history [Add α] (zero : α) (keep : Bool) (ops : List (Op α)) :
    (mrun zero (MState.init keep) (ops ++ [.next])).2 =
      (mrun zero (MState.init keep) ops).2 ++
        [if (srun zero (SState.init keep) ops).1.dead = true ∨
            ((srun zero (SState.init keep) ops).1.keep = false ∧
              mixLength (srun zero (SState.init keep) ops).1.evs ≤ (srun zero (SState.init keep) ops).1.n)
         then .stop
         else outObs zero (srun zero (SState.init keep) ops).1.evs (srun zero (SState.init keep) ops).1.n] := by
  rw [streamix_model_eq_spec, streamix_model_eq_spec, srun_append]
  generalize (srun zero (SState.init keep) ops).1 = s
  simp only [srun, List.append_cancel_left_eq, List.cons.injEq, and_true]
  by_cases hd : s.dead = true
  · rw [sstep_next_dead zero s hd, if_pos (Or.inl hd)]
  · have hd' : s.dead = false := by simpa using hd
    by_cases hstop : s.keep = false ∧ mixLength s.evs ≤ s.n
    · rw [sstep_next_stop zero s hd' ⟨hstop.1, (allDone_iff _ _).2 hstop.2⟩, if_pos (Or.inr hstop)]
    · have h1 : ¬ (s.keep = false ∧ ∀ e ∈ s.evs, e.doneAt s.n) := fun h =>
        hstop ⟨h.1, (allDone_iff _ _).1 h.2⟩
      rw [sstep_next_out zero s hd' h1, if_neg (by rintro (h | h); exact hd h; exact hstop h)]

/-- **C16.6** (termination clause, events added before playback, keep off).  `k` consecutive
`next`s after a batch of events with non-negative deltas deliver exactly the samples
`0 … L−1` of the closed formula and then StopIteration for ever, `L = max_i(start_i + len_i)`
(`L = 0`: the very first `next` stops), `start_i = ⌈T_i − 1/2⌉`. -/
theorem finite_mix_batch [Add α] (zero : α) (evs : List (Rat × List α)) (h : ∀ p ∈ evs, 0 ≤ p.1)
    (k : Nat) :
    (mrun zero (MState.init false) (addOps evs ++ List.replicate k .next)).2 =
      List.replicate evs.length .ok ++
        ((List.range' 0 (min k (mixLength (batchLog 0 0 evs)))).map (outObs zero (batchLog 0 0 evs)) ++
          List.replicate (k - mixLength (batchLog 0 0 evs)) .stop) := by
  rw [streamix_model_eq_spec, srun_append, srun_addOps zero evs _ h]
  rw [srun_nexts_finite zero k _ rfl rfl]
  simp [SState.init]

/-- **C16.7** (keep on): the same batch never ends; past `L` every sample is the zero value. -/
theorem keep_mix_batch [Add α] (zero : α) (evs : List (Rat × List α)) (h : ∀ p ∈ evs, 0 ≤ p.1)
    (k : Nat) :
    (mrun zero (MState.init true) (addOps evs ++ List.replicate k .next)).2 =
      List.replicate evs.length .ok ++ (List.range' 0 k).map (outObs zero (batchLog 0 0 evs)) := by
  rw [streamix_model_eq_spec, srun_append, srun_addOps zero evs _ h]
  rw [srun_nexts_keep zero k _ rfl rfl]
  simp [SState.init]

theorem zero_after_end [Add α] (zero : α) (evs : List (SEv α)) (n : Nat) (h : mixLength evs ≤ n) :
    outAt zero n evs = zero :=
  outAt_of_done zero evs n h

/-- **C16.8** with keep on and never switched off, no `next` ever raises StopIteration, for any
interleaving of adds and nexts. -/
theorem keep_never_ends [Add α] (zero : α) (ops : List (Op α)) (h : keepOn ops) :
    ∀ o ∈ (mrun zero (MState.init true) ops).2, o ≠ .stop :=
  mrun_keep zero ops _ rfl rfl h

/-- **C16.9** the end is final: if a `next` raised StopIteration, nothing that follows — more
events, more `next`s, switching keep on — ever delivers a sample again. -/
theorem end_is_final [Add α] (zero : α) (m : MState α) (h : (mstep zero m .next).2 = .stop)
    (ops : List (Op α)) :
    ∀ o ∈ (mrun zero (mstep zero m .next).1 ops).2, ∀ v k, o ≠ .out v k :=
  (mrun_ended zero ops _ (mnext_stop_ended zero m h)).2

/-- **C16.10** (no drift, events added before playback).  Event `i` starts at the sample nearest
to its exact cumulative time `T_i = d_0 + … + d_i` (a tie `k + 1/2` goes to `k`): the error is
below half a sample for every `i`, however many fractional deltas were accumulated. -/
theorem no_drift (evs : List (Rat × List α)) (h : ∀ p ∈ evs, 0 ≤ p.1) :
    List.Forall₂ (fun (e : SEv α) (Ti : Rat) =>
        (e.start : Int) = nearest Ti ∧ Ti - 1/2 ≤ ((e.start : Int) : Rat) ∧ ((e.start : Int) : Rat) < Ti + 1/2)
      (batchLog 0 0 evs) (cumTimes 0 (evs.map (·.1))) := by
  refine forall2_imp ?_ (batchLog_starts evs 0 (le_refl _) h)
  intro e Ti he
  rw [he]
  exact ⟨rfl, nearest_within_half Ti⟩

/-- **C16.11** (any interleaving) events start in the order they were added, and the start the
spec gives a new event, `max(⌈T − 1/2⌉, moment)`, is never before the start of an earlier one:
the three-term formula `max(⌈T_i − 1/2⌉, moment added, start_{i−1})` is the same number. -/
theorem starts_sorted [Add α] (zero : α) (keep : Bool) (ops : List (Op α)) :
    List.Pairwise (fun a b => a.start ≤ b.start) (srun zero (SState.init keep) ops).1.evs :=
  (logInv_run zero ops _ (logInv_init keep)).2.1

theorem start_three_term [Add α] (zero : α) (keep : Bool) (ops : List (Op α)) (d : Rat) (hd : 0 ≤ d) :
    ∀ e ∈ (srun zero (SState.init keep) ops).1.evs,
      max (startTime ((srun zero (SState.init keep) ops).1.T + d) (srun zero (SState.init keep) ops).1.n) e.start =
        startTime ((srun zero (SState.init keep) ops).1.T + d) (srun zero (SState.init keep) ops).1.n := by
  intro e he
  have h := (logInv_run zero ops _ (logInv_init keep)).2.2 e he
  have := startTime_mono (T := (srun zero (SState.init keep) ops).1.T)
    (T' := (srun zero (SState.init keep) ops).1.T + d) (by linarith) (Nat.le_refl (srun zero (SState.init keep) ops).1.n)
  omega

/-! non-vacuity: the statements are about non-trivial inputs -/

-- the docstring example: [-1, 1, 4, 1, -3, -5, -7, -1], then the end
example : (mrun (0 : Int) (MState.init false)
    [.add 0 [-1, 1, 3, 2], .add 2 [4, 4, 4], .add 0 [-3, -5, -7, -5, -7, -1],
     .next, .next, .next, .next, .next, .next, .next, .next, .next]).2
    = [.ok, .ok, .ok, .out (-1) 1, .out 1 0, .out 4 2, .out 1 0, .out (-3) 0, .out (-5) 0, .out (-7) 0,
       .out (-1) 0, .stop] := by decide +kernel

-- fractional deltas 1/2, 1/2, 1/2, 1 (T = 1/2, 1, 3/2, 5/2): starts 0, 1, 1, 2; length 2 + 1 = 3
example : (batchLog 0 0 [((1:Rat)/2, [(1:Int)]), (1/2, [10]), (1/2, [100, 100]), (1, [1000])]).map (·.start)
    = [0, 1, 1, 2] := by decide +kernel
example : mixLength (batchLog 0 0 [((1:Rat)/2, [(1:Int)]), (1/2, [10]), (1/2, [100, 100]), (1, [1000])]) = 3 := by
  decide +kernel
example : (mrun (0 : Int) (MState.init false)
    (addOps [((1:Rat)/2, [(1:Int)]), (1/2, [10]), (1/2, [100, 100]), (1, [1000])] ++ List.replicate 5 .next)).2
    = [.ok, .ok, .ok, .ok, .out 1 1, .out 110 2, .out 1100 1, .stop, .stop] := by decide +kernel
-- a late addition starts at the moment it was added, not at its (past) cumulative time;
-- adding after the end does not revive the stream
example : (mrun (0 : Int) (MState.init false)
    [.add 0 [1, 1, 1], .next, .next, .add 0 [10], .next, .next, .add 5 [7], .next, .add 0 [3], .next]).2
    = [.ok, .out 1 1, .out 1 0, .ok, .out 11 1, .stop, .ok, .stop, .ok, .stop] := by decide +kernel
-- keep on: zero for ever after the events
example : (mrun (0 : Int) (MState.init true) [.add 1 [5], .next, .next, .next, .next]).2
    = [.ok, .out 0 0, .out 5 1, .out 0 0, .out 0 0] := by decide +kernel
-- a rejected add
example : (mrun (0 : Int) (MState.init false) [.add (-1) [5], .next]).2 = [.valueError, .stop] := by
  decide +kernel
-- ControlStream
example : crun (7 : Nat) [.read, .set 9, .read, .read, .set 1, .set 2, .read] =
    [some 7, none, some 9, some 9, none, none, some 2] := by decide

end ALV.Props.C16

#write_audit "C16"
