/-
  C16 — property theorems (Streamix and ControlStream).  Only statements of the property,
  non-vacuity examples and the audit live here; helper lemmas are in `ALV.Lemmas.C16*`.

  Three layers:  `prun` — generator-level model (`ALV.Model.C16Gen`: iterator objects, the
  to_remove pass by identity, `count += 1.` at the resumption);  `mrun` — the same machine with
  the two passes fused (`ALV.Model.C16`);  `srun` — the specification (`ALV.Spec.C16`: a log of
  events with closed-form start times and a closed-form sum).  The theorems below are about
  `prun`, the machine the driver runs against the real code.

  Round 5: a fourth layer above `prun` — `ALV.Gen.C16` (lean/ALV/Gen/C16Src.lean), the same machine REGENERATED from
  the text of audiolazy/lazy_stream.py by harness/props/c16_tr.py on every check; `src_*_is_model` (end of this file)
  prove it equal to the hand-written one, `source_streamix_eq_spec` states the property about it.
-/
import ALV.Lemmas.C16Main
import ALV.Lemmas.C16Gen
import ALV.Lemmas.C16Ctl
import ALV.Lemmas.C16X
import ALV.Lemmas.C16XNext
import ALV.Lemmas.C16Prune
import ALV.Lemmas.C16K
import ALV.Lemmas.C16Src
import ALV.Common.Audit

namespace ALV.Props.C16
open ALV.C16
variable {α β ε : Type}

/-- **C16.0** the generator-level machine (objects with identity, summing pass then removal pass
with `list.remove`, `count` incremented when the generator is resumed) shows, for every history,
the observations of the fused machine. -/
theorem generator_eq_fused [Add α] (zero : α) (keep : Bool) (ops : List (Op α)) :
    (prun zero (PState.init keep) ops).2 = (mrun zero (MState.init keep) ops).2 :=
  (prun_refines zero ops _ (pinv_init keep)).1

/-- **C16.1** (central refinement).  For every history — any interleaving of `add` (any rational
delta, any finite data), `next` and assignments to `keep`, from a fresh Streamix with any `keep`
and any zero value, over any item type with a `+` — the generator model shows the caller exactly
what the specification says: every `add` is accepted / rejected alike, every `next` delivers
`zero + Σ` of the items due at that sample of the events whose start time
`max(⌈T_i − 1/2⌉, moment added)` has been reached, starts the same number of events at that
sample, and ends (StopIteration) at the same `next`; after the end nothing revives it. -/
theorem streamix_model_eq_spec [Add α] (zero : α) (keep : Bool) (ops : List (Op α)) :
    (prun zero (PState.init keep) ops).2 = (srun zero (SState.init keep) ops).2 := by
  rw [generator_eq_fused, fused_eq_spec]

/-- **C16.2** (the invariant behind "no drift").  After any history the generator's local
`count` is `(index of the sample being computed) + 1/2 − (cumulative time of the events started
so far)`: while the generator is suspended at the yield the index is `delivered − 1`, otherwise
`delivered`; the started time is the accepted time minus what still waits in `_not_playing`. -/
theorem count_invariant [Add α] (zero : α) (keep : Bool) (ops : List (Op α)) :
    (prun zero (PState.init keep) ops).1.count =
      (delivered (prun zero (PState.init keep) ops).2 : Rat)
        - (if (prun zero (PState.init keep) ops).1.suspended then 1 else 0) + 1/2 -
        (acceptedTime ops - qsum (absQ (prun zero (PState.init keep) ops).1.notPlaying)) := by
  obtain ⟨h1, h2, _⟩ := prun_refines zero ops (PState.init keep : PState α) (pinv_init keep)
  have h := fused_count_invariant zero keep ops
  rw [absP_init] at h1 h2
  rw [← h1, ← h2] at h
  simp only [absP] at h
  split at h <;> rename_i hs <;> simp only [hs, if_true, Bool.false_eq_true, if_false] <;> linarith

/-- **C16.3** a negative delta raises ValueError and leaves the mixer as it was. -/
theorem negative_delta_rejected [Add α] (zero : α) (s : PState α) (d : Rat) (x : List α) (hd : d < 0) :
    pstep zero s (.add d x) = (s, .valueError) := by
  simp [pstep, padd, hd]

/-- … so a rejected `add` anywhere in a history changes no other observation and no state. -/
theorem rejected_add_is_noop [Add α] (zero : α) (s : PState α) (d : Rat) (x : List α) (hd : d < 0)
    (ops : List (Op α)) :
    prun zero s (.add d x :: ops) = ((prun zero s ops).1, .valueError :: (prun zero s ops).2) := by
  simp [prun, pstep, padd, hd]

/-- **C16.4** ControlStream: for any interleaving of assignments and reads, every read yields
the value most recently assigned before it (the constructor's value if none). -/
theorem control_last_value (init : β) (ops : List (COp β)) : crun init ops = cspec init ops :=
  crun_eq_cspec ops init

/-- **C16.5** (the next sample after any history, in closed form).  Let `s` be the spec's log
after the history `ops` (events with starts `max(⌈T_i − 1/2⌉, moment added)`, `n` samples
delivered).  One more `next` on the *model* raises StopIteration iff the stream had already ended
or keep is off and every event is over (`max_i(start_i + len_i) ≤ n`: nothing playing, nothing
pending); otherwise it delivers `zero + Σ_{start_i ≤ n < start_i+len_i} data_i[n − start_i]`. -/
theorem next_after_history [Add α] (zero : α) (keep : Bool) (ops : List (Op α)) :
    (prun zero (PState.init keep) (ops ++ [.next])).2 =
      (prun zero (PState.init keep) ops).2 ++
        [if (srun zero (SState.init keep) ops).1.dead = true ∨
            ((srun zero (SState.init keep) ops).1.keep = false ∧
              mixLength (srun zero (SState.init keep) ops).1.evs ≤ (srun zero (SState.init keep) ops).1.n)
         then .stop
         else outObs zero (srun zero (SState.init keep) ops).1.evs (srun zero (SState.init keep) ops).1.n] := by
  rw [generator_eq_fused, generator_eq_fused]
  exact fused_next_after_history zero keep ops

/-- **C16.6** (termination clause, events added before playback, keep off).  `k` consecutive
`next`s after a batch of events with non-negative deltas deliver exactly the samples
`0 … L−1` of the closed formula and then StopIteration for ever, `L = max_i(start_i + len_i)`
(`L = 0`: the very first `next` stops), `start_i = ⌈T_i − 1/2⌉`. -/
theorem finite_mix_batch [Add α] (zero : α) (evs : List (Rat × List α)) (h : ∀ p ∈ evs, 0 ≤ p.1)
    (k : Nat) :
    (prun zero (PState.init false) (addOps evs ++ List.replicate k .next)).2 =
      List.replicate evs.length .ok ++
        ((List.range' 0 (min k (mixLength (batchLog 0 0 evs)))).map (outObs zero (batchLog 0 0 evs)) ++
          List.replicate (k - mixLength (batchLog 0 0 evs)) .stop) := by
  rw [generator_eq_fused]
  exact fused_finite_mix_batch zero evs h k

/-- **C16.7** (keep on): the same batch never ends; past `L` every sample is the zero value. -/
theorem keep_mix_batch [Add α] (zero : α) (evs : List (Rat × List α)) (h : ∀ p ∈ evs, 0 ≤ p.1)
    (k : Nat) :
    (prun zero (PState.init true) (addOps evs ++ List.replicate k .next)).2 =
      List.replicate evs.length .ok ++ (List.range' 0 k).map (outObs zero (batchLog 0 0 evs)) := by
  rw [generator_eq_fused]
  exact fused_keep_mix_batch zero evs h k

theorem zero_after_end [Add α] (zero : α) (evs : List (SEv α)) (n : Nat) (h : mixLength evs ≤ n) :
    outAt zero n evs = zero :=
  outAt_of_done zero evs n h

/-- **C16.8** with keep on and never switched off, no `next` ever raises StopIteration, for any
interleaving of adds and nexts. -/
theorem keep_never_ends [Add α] (zero : α) (ops : List (Op α)) (h : keepOn ops) :
    ∀ o ∈ (prun zero (PState.init true) ops).2, o ≠ .stop := by
  rw [generator_eq_fused]
  exact fused_keep_never_ends zero ops h

/-- **C16.9** the end is final: if the last operation of a history `a` was a `next` that raised
StopIteration, nothing in any continuation `b` — more events, more `next`s, switching keep on —
ever delivers a sample again. -/
theorem end_is_final [Add α] (zero : α) (keep : Bool) (a b : List (Op α))
    (h : (prun zero (PState.init keep) a).2.getLast? = some .stop) :
    ∀ o ∈ (prun zero (PState.init keep) (a ++ b)).2.drop a.length, ∀ v k, o ≠ .out v k := by
  rw [generator_eq_fused] at h ⊢
  exact fused_end_is_final_history zero _ a b h

/-- **C16.10** (no drift, events added before playback).  Event `i` starts at the sample nearest
to its exact cumulative time `T_i = d_0 + … + d_i` (a tie `k + 1/2` goes to `k`): the error is
below half a sample for every `i`, however many fractional deltas were accumulated. -/
theorem no_drift (evs : List (Rat × List α)) (h : ∀ p ∈ evs, 0 ≤ p.1) :
    List.Forall₂ (fun (e : SEv α) (Ti : Rat) =>
        (e.start : Int) = nearest Ti ∧ Ti - 1/2 ≤ ((e.start : Int) : Rat) ∧ ((e.start : Int) : Rat) < Ti + 1/2)
      (batchLog 0 0 evs) (cumTimes 0 (evs.map (·.1))) := by
  refine forall2_imp ?_ (batchLog_starts evs 0 (le_refl _) h)
  intro e Ti he
  rw [he]
  exact ⟨rfl, nearest_within_half Ti⟩

/-- **C16.11** (any interleaving) events start in the order they were added, and the start the
spec gives a new event, `max(⌈T − 1/2⌉, moment)`, is never before the start of an earlier one:
the three-term formula `max(⌈T_i − 1/2⌉, moment added, start_{i−1})` is the same number. -/
theorem starts_sorted [Add α] (zero : α) (keep : Bool) (ops : List (Op α)) :
    List.Pairwise (fun a b => a.start ≤ b.start) (srun zero (SState.init keep) ops).1.evs :=
  (logInv_run zero ops _ (logInv_init keep)).2.1

theorem start_three_term [Add α] (zero : α) (keep : Bool) (ops : List (Op α)) (d : Rat) (hd : 0 ≤ d) :
    ∀ e ∈ (srun zero (SState.init keep) ops).1.evs,
      max (startTime ((srun zero (SState.init keep) ops).1.T + d) (srun zero (SState.init keep) ops).1.n) e.start =
        startTime ((srun zero (SState.init keep) ops).1.T + d) (srun zero (SState.init keep) ops).1.n := by
  intro e he
  have h := (logInv_run zero ops _ (logInv_init keep)).2.2 e he
  have := startTime_mono (T := (srun zero (SState.init keep) ops).1.T)
    (T' := (srun zero (SState.init keep) ops).1.T + d) (by linarith) (Nat.le_refl (srun zero (SState.init keep) ops).1.n)
  omega

/-- **C16.12** (events added during playback).  Logging one more event `e` changes every sample
`m` of the mix by exactly the item of `e` due at `m` (added last in the sum), and by nothing when
`e` is not playing at `m`; its start is never before the moment it was added nor before the
nearest sample of its cumulative time. -/
theorem late_add_superposes [Add α] (zero : α) (evs : List (SEv α)) (e : SEv α) (m : Nat) :
    outAt zero m (evs ++ [e]) =
      match term m e with
      | some v => outAt zero m evs + v
      | none => outAt zero m evs := by
  unfold outAt
  rw [List.filterMap_append, List.foldl_append]
  cases ht : term m e <;> simp [ht]

theorem start_never_before_added (T : Rat) (n : Nat) :
    n ≤ startTime T n ∧ nearest T ≤ (startTime T n : Int) ∧
      ((startTime T n : Int) = nearest T ∨ startTime T n = n) := by
  unfold startTime; omega

/-- **C16.13** ("playing" and "pending" in the code are what the log says).  After any history
that has not ended the stream, `_not_playing` holds exactly the logged events whose start is still
ahead (`n ≤ start_i`) and `_playing` exactly those that started and have not been found exhausted
(`start_i < n ≤ start_i + len_i`), `n` = samples delivered. -/
theorem container_sizes [Add α] (zero : α) (keep : Bool) (ops : List (Op α))
    (h : (prun zero (PState.init keep) ops).1.ended = false) :
    (prun zero (PState.init keep) ops).1.notPlaying.length =
        (srun zero (SState.init keep) ops).1.evs.countP
          (fun e => decide ((srun zero (SState.init keep) ops).1.n ≤ e.start)) ∧
    (prun zero (PState.init keep) ops).1.playing.length =
        (srun zero (SState.init keep) ops).1.evs.countP
          (fun e => decide (e.start < (srun zero (SState.init keep) ops).1.n ∧
            (srun zero (SState.init keep) ops).1.n ≤ e.start + e.data.length)) := by
  obtain ⟨_, h2, _⟩ := prun_refines zero ops (PState.init keep : PState α) (pinv_init keep)
  rw [absP_init] at h2
  have hsim := (run_sim zero ops _ _ (sim_init keep)).2
  rw [← h2] at hsim
  rcases hsim with hdead | hlive
  · exact absurd hdead.1 (by simp [absP, h])
  · have := live_sizes hlive
    simpa [absP, absQ, absPl] using this

/-! ### operations that FAIL inside a history (`ALV.Model.C16X`: the machine with exceptions) -/

/-- **C16.14** a failed `add` leaves no trace: whatever the state of the mixer (fresh, playing,
suspended at a yield, finished), an `add(delta, data)` whose `iter(data)` raises `e` shows
ValueError when `delta < 0` (that test comes first) and `e` otherwise, and the state — queue,
playing list, the generator's clock `count`, keep — is the state before the call. -/
theorem failed_add_leaves_no_trace [XAdd ε α] (zero : α) (s : PState (Except ε α)) (d : Rat) (e : ε) :
    xstep zero s (.addFail d e) = (s, failObs d e) := by
  by_cases hd : d < 0 <;> simp [xstep, xaddFail, failObs, hd]

/-- … so, anywhere in a history, it changes no other observation and not the final state. -/
theorem failed_add_anywhere [XAdd ε α] (zero : α) (s : PState (Except ε α)) (a b : List (XOp ε α))
    (d : Rat) (e : ε) :
    xrun zero s (a ++ .addFail d e :: b) =
      ((xrun zero s (a ++ b)).1,
       (xrun zero s a).2 ++ failObs d e :: (xrun zero (xrun zero s a).1 b).2) ∧
    (xrun zero s (a ++ b)).2 = (xrun zero s a).2 ++ (xrun zero (xrun zero s a).1 b).2 := by
  rw [xrun_append, xrun_append]
  simp [xrun, failed_add_leaves_no_trace]

/-- **C16.15** (refinement with exceptions).  For every history of good adds, failed adds, `next`s
and assignments to keep, over items that are values or exceptions and a `+` that may raise, the
machine with exceptions shows what the SPECIFICATION shows on the history WITHOUT the failed adds
(items `Except ε α`, the lifted `+` in which the first exception wins), read through `xview`: a
failed add shows its exception and nothing else; a sample whose closed-form sum is an exception
`e` is the `next` that raises `e`; from then on the generator is finished — every `next` raises
StopIteration, `add` still validates delta and `iter(data)`.  In particular the start times
`max(⌈T_i − 1/2⌉, moment added)` and the end `max_i(start_i + len_i)` are those of the events that
were really added. -/
theorem streamix_x_eq_spec [XAdd ε α] (zero : α) (keep : Bool) (ops : List (XOp ε α)) :
    (xrun zero (PState.init keep) ops).2 =
      xview ops (srun (Except.ok zero : Except ε α) (SState.init keep) (erase ops)).2 := by
  rw [xrun_eq_view, streamix_model_eq_spec]

/-- **C16.16** the clock of the specification after a history with failures: `T` is the sum of
the deltas of the adds that SUCCEEDED (rejected negative deltas and adds whose `iter(data)` raised
contribute nothing), and the log has one event per successful add. -/
theorem accepted_time_skips_failed_adds [XAdd ε α] (zero : α) (keep : Bool) (ops : List (XOp ε α)) :
    (srun (Except.ok zero : Except ε α) (SState.init keep) (erase ops)).1.T = xAcceptedTime ops ∧
    (srun (Except.ok zero : Except ε α) (SState.init keep) (erase ops)).1.evs.length =
      ((erase ops).filter Op.accepted).length := by
  have h := srun_T (Except.ok zero : Except ε α) (erase ops) (SState.init keep)
  rw [xAcceptedTime_erase] at h
  simpa [SState.init] using h

/-- **C16.17** a `next` that raised something else than StopIteration has finished the generator:
every later operation shows what it shows on a finished mixer (`next`: StopIteration). -/
theorem raise_kills [XAdd ε α] (zero : α) (s : PState (Except ε α)) (e : ε)
    (h : (xstep zero s .next).2 = .raised e) (ops : List (XOp ε α)) :
    (xrun zero (xstep zero s .next).1 ops).2 = ops.map deadObs := by
  have hend : (xstep zero s .next).1.ended = true := by
    rcases xnext_spec zero s with ⟨_, h2, h3⟩ | ⟨_, _, _, _, h3⟩
    · exfalso
      simp only [xstep] at h
      rw [h] at h2
      generalize (pnext (Except.ok zero : Except ε α) s).2 = o at h2 h3
      cases o with
      | out v k =>
        cases v with
        | error e' => exact h3 e' k rfl
        | ok v => simp [conv] at h2
      | ok => simp [conv] at h2
      | valueError => simp [conv] at h2
      | stop => simp [conv] at h2
    · exact h3
  exact (xrun_ended zero ops _ hend).1

/-- **C16.18** what a sample is when items may raise: the closed-form sum over `Except ε α` with
the lifted `+` is the sum evaluated in the order the events were added, stopping at the first
exception (`xsum`); when every item is a value and `+` never raises it is the ordinary sum. -/
theorem sample_with_exceptions [XAdd ε α] (zero : α) (n : Nat) (evs : List (SEv (Except ε α))) :
    outAt (Except.ok zero : Except ε α) n evs = xsum zero (evs.filterMap (term n)) :=
  foldl_lift_eq_xsum _ zero

theorem sample_without_exceptions [Add α] [XAdd ε α]
    (htot : ∀ a b : α, XAdd.xadd (ε := ε) a b = .ok (a + b)) (zero : α) (n : Nat) (evs : List (SEv α)) :
    outAt (Except.ok zero : Except ε α) n (evs.map SEv.lift) = .ok (outAt zero n evs) :=
  outAt_lift htot zero n evs

/-- **C16.19** (the next sample after any history WITH failed operations, in closed form).  If no
read has raised so far, one more `next` raises StopIteration iff the stream had ended or keep is off
and every event that was REALLY added is over (`max_i(start_i + len_i) ≤ n`), and otherwise shows the
closed-form sum of the items due — as a value, or as the exception it is (`conv`). -/
theorem next_after_history_with_failures [XAdd ε α] (zero : α) (keep : Bool) (ops : List (XOp ε α))
    (hal : NoRaise (srun (Except.ok zero : Except ε α) (SState.init keep) (erase ops)).2) :
    (xrun zero (PState.init keep) (ops ++ [.next])).2 =
      (xrun zero (PState.init keep) ops).2 ++
        [conv (if (srun (Except.ok zero : Except ε α) (SState.init keep) (erase ops)).1.dead = true ∨
            ((srun (Except.ok zero : Except ε α) (SState.init keep) (erase ops)).1.keep = false ∧
              mixLength (srun (Except.ok zero : Except ε α) (SState.init keep) (erase ops)).1.evs ≤
                (srun (Except.ok zero : Except ε α) (SState.init keep) (erase ops)).1.n)
         then .stop
         else outObs (Except.ok zero : Except ε α)
                (srun (Except.ok zero : Except ε α) (SState.init keep) (erase ops)).1.evs
                (srun (Except.ok zero : Except ε α) (SState.init keep) (erase ops)).1.n)] :=
  x_next_after_history zero keep ops hal


/-! ### round 4: the traced runs, the prune step with identities, the type of a sample, a mutable zero -/

/-- **C16.20** the traced run the driver prints for `streamix` / `streamix_seq` / `streamix_k` is the
run the theorems are about: its observations are those of `prun`, and the state it shows after
operation `k` is the state of `prun` on the first `k+1` operations (so `container_sizes`,
`count_invariant`, `playing_after_next`, stated for every history, hold at every printed step). -/
theorem ptrace_is_prun [Add α] (zero : α) (s : PState α) (ops : List (Op α)) :
    (ptrace zero s ops).map (·.2) = (prun zero s ops).2 ∧
    ∀ k, k < ops.length → ((ptrace zero s ops)[k]?).map (·.1) = some (prun zero s (ops.take (k + 1))).1 :=
  ⟨ptrace_obs zero ops s, ptrace_state zero ops s⟩

/-- … and the same for the machine with exceptions (`streamix_x` / `streamix_sys`). -/
theorem xtrace_is_xrun [XAdd ε α] (zero : α) (s : PState (Except ε α)) (ops : List (XOp ε α)) :
    (xtrace zero s ops).map (·.2) = (xrun zero s ops).2 ∧
    ∀ k, k < ops.length → ((xtrace zero s ops)[k]?).map (·.1) = some (xrun zero s (ops.take (k + 1))).1 :=
  ⟨xtrace_obs zero ops s, xtrace_state zero ops s⟩

/-- **C16.21** (the prune step, any number of events finishing on the same sample).  On distinct
iterator objects the summing pass puts into `to_remove` exactly the exhausted objects, in playing
order, and after `for snd in to_remove: _playing.remove(snd)` the list `_playing` is exactly the
objects that still gave an item, in their order, each advanced by one item. -/
theorem prune_removes_exactly_finished [Add α] (d : α) (pl : List (Snd α)) (h : (pl.map (·.id)).Nodup) :
    (sumLoop d pl).2.2 = (pl.filter (fun s => !s.live)).map (·.id) ∧
    removeAll (sumLoop d pl).2.2 (sumLoop d pl).2.1 = (pl.filter Snd.live).map Snd.advance :=
  ⟨sumLoop_toRemove pl d, prune_exact pl d h⟩

/-- **C16.22** (the same, after ANY history).  Let `s` be the mixer after any history that has not
ended it.  One more `next` moves a prefix of `_not_playing` (the events whose time has come, in the
order added) to the end of `_playing`, and leaves in `_playing` exactly the unfinished ones among
(old `_playing` ++ newly started), in that order, each advanced by one item — chords that end
together, different starts and lengths that end together, with other events going on. -/
theorem playing_after_next [Add α] (zero : α) (keep : Bool) (ops : List (Op α))
    (h : (prun zero (PState.init keep) ops).1.ended = false) :
    ∃ k, k ≤ (prun zero (PState.init keep) ops).1.notPlaying.length ∧
      (pstep zero (prun zero (PState.init keep) ops).1 .next).1.playing =
        (((prun zero (PState.init keep) ops).1.playing ++
            ((prun zero (PState.init keep) ops).1.notPlaying.take k).map (·.2)).filter Snd.live).map Snd.advance ∧
      (pstep zero (prun zero (PState.init keep) ops).1 .next).1.notPlaying =
        (prun zero (PState.init keep) ops).1.notPlaying.drop k := by
  have hi := (prun_refines zero ops (PState.init keep : PState α) (pinv_init keep)).2.2
  generalize (prun zero (PState.init keep) ops).1 = s at h hi
  obtain ⟨k, hk, h1, h2⟩ :=
    pstartLoop_prefix s.notPlaying (if s.suspended then s.count + 1 else s.count) s.playing
  refine ⟨k, hk, ?_, ?_⟩
  · show (pnext zero s).1.playing = _
    rw [pnext_playing zero s hi h, h1]
  · show (pnext zero s).1.notPlaying = _
    rw [← h2]
    generalize hr : pstartLoop (if s.suspended then s.count + 1 else s.count) s.notPlaying s.playing = r
    obtain ⟨c, q', pl'⟩ := r
    rw [pnext_live zero s h hr]
    split <;> rfl

/-- … and in the machine with exceptions, for a `next` that does not raise, after any history with
failed adds and raising items. -/
theorem x_playing_after_next [XAdd ε α] (zero : α) (keep : Bool) (ops : List (XOp ε α))
    (h : (xrun zero (PState.init keep) ops).1.ended = false)
    (hno : ∀ e, (xstep zero (xrun zero (PState.init keep) ops).1 .next).2 ≠ .raised e) :
    ∃ k, k ≤ (xrun zero (PState.init keep) ops).1.notPlaying.length ∧
      (xstep zero (xrun zero (PState.init keep) ops).1 .next).1.playing =
        (((xrun zero (PState.init keep) ops).1.playing ++
            ((xrun zero (PState.init keep) ops).1.notPlaying.take k).map (·.2)).filter Snd.live).map Snd.advance := by
  have hi := xrun_pinv zero ops (PState.init keep) (pinv_init keep)
  generalize (xrun zero (PState.init keep) ops).1 = s at h hi hno
  obtain ⟨k, hk, h1, _⟩ :=
    pstartLoop_prefix s.notPlaying (if s.suspended then s.count + 1 else s.count) s.playing
  refine ⟨k, hk, ?_⟩
  show (xnext zero s).1.playing = _
  rw [xnext_playing zero s hi h hno, h1]

/-- **C16.23** a sample at which no event gives an item IS the zero value (the object itself: same
value, same Python type), at any sample — before the first event, in a gap, past the end. -/
theorem idle_sample_is_zero [Add α] (zero : α) (n : Nat) (evs : List (SEv α))
    (h : ∀ e ∈ evs, term n e = none) : outAt zero n evs = zero := by
  unfold outAt
  rw [List.filterMap_eq_nil_iff.2 h]
  rfl

/-- **C16.24** (value AND Python type of every sample).  Over Python numbers (`PyNum`: kind bool <
int < Fraction < float < complex and exact value; `+` gives the larger operand kind, at least int)
the sample `outAt zero n evs` — what `streamix_model_eq_spec` / `next_after_history` say the mixer
delivers — has the value `zero + Σ items due` whether or not `zero` is an additive identity (a
bias `Fraction(7,2)`, `-3`), and its type is that of `zero` when nothing is due and otherwise the
largest kind among `zero` and the items due, at least int (`Fraction(0)` + ints: Fraction; `0.0` +
ints: float; `0j` + anything: complex; `False` + bools: int). -/
theorem typed_sample (zero : PyNum) (n : Nat) (evs : List (SEv PyNum)) :
    (outAt zero n evs).re = zero.re + ((evs.filterMap (term n)).map (·.re)).sum ∧
    (outAt zero n evs).im = zero.im + ((evs.filterMap (term n)).map (·.im)).sum ∧
    (outAt zero n evs).kind =
      if evs.filterMap (term n) = [] then zero.kind
      else Kind.join .int (((evs.filterMap (term n)).map (·.kind)).foldl Kind.join zero.kind) := by
  refine ⟨foldl_pynum_re _ zero, foldl_pynum_im _ zero, ?_⟩
  split
  · next h => unfold outAt; rw [h]; rfl
  · next h => exact foldl_pynum_kind _ zero h

/-- **C16.25** (a MUTABLE zero, e.g. `zero=[]` with list items: `data = zero; data += item` extends
the zero object in place).  For every history the mixer shows the spec's log and closed-form sum,
except that the sum of a sample starts from the LAST DELIVERED SAMPLE instead of the constructor's
zero (`ksrun`); queue, playing list, clock and end are those of the ordinary machine. -/
theorem mutable_zero_accumulates [Add α] (zero : α) (keep : Bool) (ops : List (Op α)) :
    (krun zero (PState.init keep) ops).2.2 = ksrun zero (SState.init keep) ops ∧
    (krun zero (PState.init keep) ops).2.1 = (prun zero (PState.init keep) ops).1 :=
  ⟨krun_eq_ksrun ops zero _ _ (pinv_init keep) (by rw [absP_init]; exact sim_init keep),
   krun_state zero ops zero _⟩

/-- the property's clause "the zero value plus the items due at n" is FALSE for a mutable zero:
`Streamix(zero=[])`, `add(0, [[1], [2]])` delivers `[1]` and then `[1, 2]`, not `[2]`. -/
theorem mutable_zero_refuted :
    (krun (⟨[]⟩ : PyList) (PState.init false) [.add 0 [⟨[1]⟩, ⟨[2]⟩], .next, .next]).2.2 =
      [.ok, .out ⟨[1]⟩ 1, .out ⟨[1, 2]⟩ 0] ∧
    (srun (⟨[]⟩ : PyList) (SState.init false) [.add 0 [⟨[1]⟩, ⟨[2]⟩], .next, .next]).2 =
      [.ok, .out ⟨[1]⟩ 1, .out ⟨[2]⟩ 0] := by
  constructor <;> decide +kernel


/-- **C16.26** (a delta beyond every horizon: `float('inf')`, and `nan`, which `count >= delta` never
reaches either).  After any history, an event added with a delta `D > N + 1/2` gets a start beyond
sample `N`: up to and including sample `N` it gives no item to any sample and is not over — so, with
`starts_sorted` (no later event starts before it) and `next_after_history`, it blocks the queue and
keeps a mixer without keep alive for the `N` samples; for an infinite delta this holds for every `N`. -/
theorem beyond_horizon_never_starts [Add α] (zero : α) (keep : Bool) (ops : List (Op α)) (D : Rat)
    (x : List α) (N : Nat) (hD : (N : Rat) + 1/2 < D) :
    N < startTime ((srun zero (SState.init keep) ops).1.T + D) (srun zero (SState.init keep) ops).1.n ∧
    ∀ m, m ≤ N →
      term m (⟨startTime ((srun zero (SState.init keep) ops).1.T + D) (srun zero (SState.init keep) ops).1.n, x⟩ : SEv α)
        = none ∧
      ¬ (⟨startTime ((srun zero (SState.init keep) ops).1.T + D) (srun zero (SState.init keep) ops).1.n, x⟩ : SEv α).doneAt m := by
  have hT := (logInv_run zero ops _ (logInv_init keep)).1
  generalize (srun zero (SState.init keep) ops).1 = s at hT
  have h1 := (startTime_early (T := s.T + D) (n := N) (by linarith)).2
  have h2 : (nearest (s.T + D)).toNat ≤ startTime (s.T + D) s.n := by unfold startTime; omega
  have h3 : N < startTime (s.T + D) s.n := by omega
  refine ⟨h3, fun m hm => ⟨?_, ?_⟩⟩
  · unfold term
    rw [if_neg (by show ¬ startTime (s.T + D) s.n ≤ m; omega)]
  · unfold SEv.doneAt
    show ¬ startTime (s.T + D) s.n + x.length ≤ m
    omega

/-! non-vacuity: the statements are about non-trivial inputs -/

-- the docstring example: [-1, 1, 4, 1, -3, -5, -7, -1], then the end
example : (prun (0 : Int) (PState.init false)
    [.add 0 [-1, 1, 3, 2], .add 2 [4, 4, 4], .add 0 [-3, -5, -7, -5, -7, -1],
     .next, .next, .next, .next, .next, .next, .next, .next, .next]).2
    = [.ok, .ok, .ok, .out (-1) 1, .out 1 0, .out 4 2, .out 1 0, .out (-3) 0, .out (-5) 0, .out (-7) 0,
       .out (-1) 0, .stop] := by decide +kernel

-- fractional deltas 1/2, 1/2, 1/2, 1 (T = 1/2, 1, 3/2, 5/2): starts 0, 1, 1, 2; length 2 + 1 = 3
example : (batchLog 0 0 [((1:Rat)/2, [(1:Int)]), (1/2, [10]), (1/2, [100, 100]), (1, [1000])]).map (·.start)
    = [0, 1, 1, 2] := by decide +kernel
example : mixLength (batchLog 0 0 [((1:Rat)/2, [(1:Int)]), (1/2, [10]), (1/2, [100, 100]), (1, [1000])]) = 3 := by
  decide +kernel
example : (prun (0 : Int) (PState.init false)
    (addOps [((1:Rat)/2, [(1:Int)]), (1/2, [10]), (1/2, [100, 100]), (1, [1000])] ++ List.replicate 5 .next)).2
    = [.ok, .ok, .ok, .ok, .out 1 1, .out 110 2, .out 1100 1, .stop, .stop] := by decide +kernel
-- a late addition starts at the moment it was added, not at its (past) cumulative time;
-- adding after the end does not revive the stream
example : (prun (0 : Int) (PState.init false)
    [.add 0 [1, 1, 1], .next, .next, .add 0 [10], .next, .next, .add 5 [7], .next, .add 0 [3], .next]).2
    = [.ok, .out 1 1, .out 1 0, .ok, .out 11 1, .stop, .ok, .stop, .ok, .stop] := by decide +kernel
-- keep on: zero for ever after the events
example : (prun (0 : Int) (PState.init true) [.add 1 [5], .next, .next, .next, .next]).2
    = [.ok, .out 0 0, .out 5 1, .out 0 0, .out 0 0] := by decide +kernel
-- a rejected add
example : (prun (0 : Int) (PState.init false) [.add (-1) [5], .next]).2 = [.valueError, .stop] := by
  decide +kernel
-- ControlStream
example : crun (7 : Nat) [.read, .set 9, .read, .read, .set 1, .set 2, .read] =
    [some 7, none, some 9, some 9, none, none, some 2] := by decide

-- end_is_final, instantiated: the stream ended at the third operation
example : (prun (0 : Int) (PState.init false) [.add 0 [1], .next, .next]).2.getLast? = some .stop := by
  decide +kernel
-- keep_never_ends, instantiated
example : keepOn ([.add 1 [5], .setKeep true, .next] : List (Op Int)) := by simp [keepOn]
-- the hypotheses of finite_mix_batch / no_drift hold for the batch used above
example : ∀ p ∈ [((1:Rat)/2, [(1:Int)]), (1/2, [10]), (1/2, [100, 100]), (1, [1000])], 0 ≤ p.1 := by
  intro p hp; simp at hp; rcases hp with rfl | rfl | rfl | rfl <;> norm_num
-- container_sizes: a live state with one event playing and one pending
example : (prun (0 : Int) (PState.init false) [.add 0 [1, 1, 1], .add 5 [2], .next]).1.ended = false := by
  decide +kernel
-- negative_delta_rejected: the hypothesis is satisfiable
example : ((-1 : Rat)/2) < 0 := by norm_num

/-! exceptions: `Int` items with a `+` that raises on a negative right operand (stand-in for a TypeError) -/
instance : XAdd String Int := ⟨fun a b => if b < 0 then .error "TypeError" else .ok (a + b)⟩
-- the missed seed's history: add(0,[1,1]); add(3, None) -> TypeError; add(1,[5,5]); list(smix) = [1, 6, 5]
example : (xrun (ε := String) (0 : Int) (PState.init false)
    [.add 0 [.ok 1, .ok 1], .addFail 3 "TypeError", .add 1 [.ok 5, .ok 5], .next, .next, .next, .next]).2
    = [.ok, .raised "TypeError", .ok, .out 1 1, .out 6 1, .out 5 0, .stop] := by decide +kernel
-- a negative delta wins over the bad data; a failing add during playback
example : (xrun (ε := String) (0 : Int) (PState.init true)
    [.add (1/2) [.ok 7], .next, .addFail (-1) "TypeError", .addFail (5/2) "IndexError", .add (7/2) [.ok 8], .next,
     .next, .next, .next, .next]).2
    = [.ok, .out 7 1, .valueError, .raised "IndexError", .ok, .out 0 0, .out 0 0, .out 0 0, .out 8 1, .out 0 0] := by
  decide +kernel
-- an event iterator that raises in the middle, and an addition that raises: the mixer is dead afterwards
example : (xrun (ε := String) (0 : Int) (PState.init true)
    [.add 0 [.ok 1, .error "KeyError", .ok 3], .add 0 [.ok 10, .ok 10, .ok 10], .next, .next, .next, .add 0 [.ok 1],
     .next]).2
    = [.ok, .ok, .out 11 2, .raised "KeyError", .stop, .ok, .stop] := by decide +kernel
example : (xrun (ε := String) (0 : Int) (PState.init false)
    [.add 0 [.ok 1, .ok (-2)], .add 0 [.error "KeyError"], .next, .next, .next]).2
    = [.ok, .ok, .raised "KeyError", .stop, .stop] := by decide +kernel
example : (xrun (ε := String) (0 : Int) (PState.init false) [.add 0 [.ok 1, .ok (-2)], .next, .next, .next]).2
    = [.ok, .out 1 1, .raised "TypeError", .stop] := by decide +kernel
-- raise_kills: the hypothesis is satisfiable
example : (xstep (ε := String) (0 : Int)
    (xrun (ε := String) (0 : Int) (PState.init false) [.add 0 [.ok (-2)]]).1 .next).2 = .raised "TypeError" := by
  decide +kernel
-- next_after_history_with_failures: a history with a failed add in which no read raised
example : NoRaise (srun (Except.ok (0 : Int) : Except String Int) (SState.init false)
    (erase [.add 0 [.ok 1, .ok 1], .addFail 3 "TypeError", .next])).2 := by
  have h : (srun (Except.ok (0 : Int) : Except String Int) (SState.init false)
      (erase [.add 0 [.ok 1, .ok 1], .addFail 3 "TypeError", .next])).2 = [.ok, .out (.ok 1) 1] := by
    decide +kernel
  intro e k hm
  rw [h] at hm
  simp at hm
-- the clock counts successful adds only
example : xAcceptedTime ([.add 1 [], .addFail 3 "TypeError", .add (-1) [], .add (1/2) [.ok 1]] : List (XOp String Int))
    = 3/2 := by decide +kernel
-- sample_without_exceptions: a total `+`
example : ∀ a b : Nat, (⟨fun a b => .ok (a + b)⟩ : XAdd String Nat).xadd a b = .ok (a + b) := fun _ _ => rfl


/-! round 4 -/
-- three notes of a chord end together while a fourth goes on: the objects 0, 1, 3 leave, 2 stays
example : ((prun (0 : Int) (PState.init false)
    [.add 0 [1, 1], .add 0 [2, 2], .add 0 [4, 4, 4, 4], .add 0 [8, 8], .next, .next, .next]).1.playing.map (·.id))
    = [2] := by decide +kernel
-- different starts and lengths that end together (starts 0, 1, 2; lengths 3, 2, 1), one still pending
example : ((prun (0 : Int) (PState.init false)
    [.add 0 [1, 1, 1], .add 1 [2, 2], .add 1 [4], .add 3 [8], .next, .next, .next, .next]).1.playing.map (·.id),
   (prun (0 : Int) (PState.init false)
    [.add 0 [1, 1, 1], .add 1 [2, 2], .add 1 [4], .add 3 [8], .next, .next, .next, .next]).1.notPlaying.map (·.2.id))
    = ([], [3]) := by decide +kernel
-- prune_removes_exactly_finished: distinct objects, two of four exhausted
example : (([⟨0, []⟩, ⟨1, [5]⟩, ⟨2, []⟩, ⟨3, [6, 7]⟩] : List (Snd Int)).map (·.id)).Nodup := by decide
-- playing_after_next / x_playing_after_next: live states
example : (prun (0 : Int) (PState.init false) [.add 0 [1, 1], .add 0 [2, 2], .next, .next]).1.ended = false := by
  decide +kernel
-- typed samples: Fraction(0) + ints is a Fraction, 0.0 + int a float, False + True + True the int 2,
-- an idle sample of a bool zero is that bool, a bias stays in every sample
example : outAt (⟨.frac, 0, 0⟩ : PyNum) 0 [⟨0, [⟨.int, 1, 0⟩]⟩, ⟨0, [⟨.int, 2, 0⟩]⟩] = ⟨.frac, 3, 0⟩ := by
  decide +kernel
example : outAt (⟨.float, 0, 0⟩ : PyNum) 0 [⟨0, [⟨.int, 1, 0⟩]⟩] = ⟨.float, 1, 0⟩ := by decide +kernel
example : outAt (⟨.bool, 0, 0⟩ : PyNum) 0 [⟨0, [⟨.bool, 1, 0⟩]⟩, ⟨0, [⟨.bool, 1, 0⟩]⟩] = ⟨.int, 2, 0⟩ := by
  decide +kernel
example : outAt (⟨.bool, 0, 0⟩ : PyNum) 1 [⟨0, [⟨.bool, 1, 0⟩]⟩] = ⟨.bool, 0, 0⟩ := by decide +kernel
example : outAt (⟨.frac, 7/2, 0⟩ : PyNum) 0 [⟨0, [⟨.int, 1, 0⟩]⟩] = ⟨.frac, 9/2, 0⟩ := by decide +kernel
example : outAt (⟨.complex, 0, 0⟩ : PyNum) 0 [⟨0, [⟨.frac, 1/2, 0⟩]⟩] = ⟨.complex, 1/2, 0⟩ := by decide +kernel
-- idle_sample_is_zero: a gap between two events
example : ∀ e ∈ ([⟨0, [1]⟩, ⟨3, [2]⟩] : List (SEv Int)), term 1 e = none := by decide
-- beyond_horizon_never_starts: a delta beyond the horizon of 3 samples
example : ((3 : Nat) : Rat) + 1/2 < 4 := by norm_num

/-! ### Round 5: the model REGENERATED from the source (`ALV.Gen.C16`, written from audiolazy/lazy_stream.py by
    harness/props/c16_tr.py on every check) is the hand-written model; every theorem above is therefore a theorem
    about what the source says now, and an edit of `Streamix.__init__` / `data_generator` / `add` / `ControlStream`
    that changes the meaning breaks one of `src_*`. -/

/-- **C16.S1** `Streamix.__init__` (containers, `self.keep = keep`, the prologue `count = 0.5` of the closure):
the regenerated initial state is the model's. -/
theorem src_init_is_model (keep : Bool) : (ALV.Gen.C16.init keep : PState α) = PState.init keep := rfl

/-- **C16.S2** the signature `def __init__(self, keep=False, zero=0.)`: keep is off by default, the default zero
is the float 0.0 (DESIGN: "Default zero is 0.0"). -/
theorem src_defaults_are_documented :
    ALV.Gen.C16.keepDefault = false ∧ ALV.Gen.C16.zeroDefault = 0 ∧ ALV.Gen.C16.zeroDefaultIsFloat = true := by
  decide

/-- **C16.S3** `while self._not_playing and (count >= self._not_playing[0][0]): delta, newdata = popleft();
self._playing.append(newdata); count -= delta`, regenerated, is `pstartLoop`. -/
theorem src_startLoop_is_model : @ALV.Gen.C16.startLoop α = pstartLoop := by
  funext c q p; exact src_startLoop c q p

/-- **C16.S4** `for snd in self._playing: try: data = data + next(snd) except StopIteration: to_remove.append(snd)`,
regenerated, is `sumLoop` (operand order of the `+`, what the handler collects). -/
theorem src_sumLoop_is_model [Add α] : @ALV.Gen.C16.sumLoop α _ = sumLoop := by
  funext d ps; exact src_sumLoop d ps

/-- **C16.S5** the summing statement builds a new object (`data = data + …`), it does not work in place on the
zero object (`data += …`, defect D29). -/
theorem src_sum_builds_new_object : ALV.Gen.C16.sumInPlace = false := rfl

/-- **C16.S6** `for snd in to_remove: self._playing.remove(snd)`, regenerated, is `removeAll`. -/
theorem src_removeLoop_is_model : @ALV.Gen.C16.removeLoop α = removeAll := by
  funext l p; exact src_removeLoop l p

/-- **C16.S7** one trip round `while True` of `data_generator`, translated statement by statement in source order
(resumption `count += 1.`, start loop, `data = zero`, summing loop, removal block, stop test
`not (self.keep or self._playing or self._not_playing)` → break, `yield data`), is `pnext`. -/
theorem src_next_is_model [Add α] : @ALV.Gen.C16.next α _ = pnext := by
  funext z s; exact src_next z s

/-- **C16.S8** `Streamix.add`: the delta test (comparison and constant of the source) before the append. -/
theorem src_add_is_model : @ALV.Gen.C16.add α = padd := by
  funext s d x; exact src_add s d x

/-- **C16.S9** the summing loop when `next(snd)` or the `+` may raise, regenerated from the same statement. -/
theorem src_xsumLoop_is_model [XAdd ε α] : @ALV.Gen.C16.xsumLoop α ε _ = xsumLoop := by
  funext d ps; exact src_xsumLoop d ps

/-- **C16.S10** one trip of the generator with exceptions passing through it. -/
theorem src_xnext_is_model [XAdd ε α] : @ALV.Gen.C16.xnext α ε _ = xnext := by
  funext z s; exact src_xnext z s

/-- **C16.S11** `Streamix.add` whose `iter(data)` works. -/
theorem src_xadd_is_model : @ALV.Gen.C16.xadd α ε = xadd := by
  funext s d x; exact src_xadd s d x

/-- **C16.S12** `Streamix.add` whose `iter(data)` raises: the statement order of the source (delta test first, the
iterator is made while the argument of `append` is evaluated, so nothing is stored) gives `xaddFail`. -/
theorem src_xaddFail_is_model : @ALV.Gen.C16.xaddFail α ε = xaddFail := by
  funext s d e; exact src_xaddFail s d e

/-- **C16.S13** `ControlStream`: `self.value = value` and `while True: yield self.value` are the model's cell. -/
theorem src_control_is_model (value : β) :
    ALV.Gen.C16.cinit value = value ∧ ALV.Gen.C16.cread value = cstep value .read := ⟨rfl, rfl⟩

/-- **C16.S14** (the property about the regenerated code).  The machine assembled from the REGENERATED `init`, `add`
and `next` shows, for every history, what the specification says (C16.1 transported along `src_*`). -/
theorem source_streamix_eq_spec [Add α] (zero : α) (keep : Bool) (ops : List (Op α)) :
    (grun zero (ALV.Gen.C16.init keep) ops).2 = (srun zero (SState.init keep) ops).2 := by
  rw [grun_eq, src_init_is_model, streamix_model_eq_spec]

/-- **C16.S15** the same with failing operations (C16.15 transported). -/
theorem source_streamix_x_eq_spec [XAdd ε α] (zero : α) (keep : Bool) (ops : List (XOp ε α)) :
    (gxrun zero (ALV.Gen.C16.init keep) ops).2 =
      xview ops (srun (Except.ok zero : Except ε α) (SState.init keep) (erase ops)).2 := by
  rw [gxrun_eq, src_init_is_model, streamix_x_eq_spec]

/-- **C16.S16** ControlStream run with the regenerated constructor and read: every read yields the value most
recently assigned. -/
theorem source_control_last_value (init : β) (ops : List (COp β)) :
    gcrun (ALV.Gen.C16.cinit init) ops = cspec init ops := by
  rw [gcrun_eq]; exact control_last_value init ops

-- non-vacuity: the regenerated machine on the doctest of the class (three events, one late)
example : (grun (0 : Int) (ALV.Gen.C16.init false)
    [.add 0 [-1, 1, 3, 2], .add 2 [4, 4, 4], .add 0 [-3, -5, -7, -5, -7, -1],
     .next, .next, .next, .next, .next, .next, .next, .next, .next]).2.drop 3
    = [.out (-1) 1, .out 1 0, .out 4 2, .out 1 0, .out (-3) 0, .out (-5) 0, .out (-7) 0, .out (-1) 0, .stop] := by
  decide +kernel
example : gcrun (ALV.Gen.C16.cinit 7) [.read, .set 9, .read, .read] = [some 7, none, some 9, some 9] := by
  decide

end ALV.Props.C16

#write_audit "C16"
