import ALV.Model.C16
import ALV.Spec.C16
import ALV.Common.Audit

namespace ALV.Props.C16
open ALV.C16
variable {α β : Type}

theorem placeholder : (1 : Nat) = 1 := rfl

end ALV.Props.C16

#write_audit "C16"
