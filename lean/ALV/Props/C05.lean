/-
  C05 — property theorems: filter algebra is system algebra.
  Only statements of the property, non-vacuity examples and the audit live here; helper lemmas
  are in `ALV.Lemmas.C05*`.
-/
import ALV.Lemmas.C07Hash
import ALV.Lemmas.C05Pow
import ALV.Lemmas.C05Lists
import ALV.Lemmas.C05Spec
import ALV.Lemmas.C05Nested
import ALV.Lemmas.C05Canon
import ALV.Lemmas.C05Lin
import ALV.Lemmas.C05Hist
import ALV.Lemmas.C05Subst
import ALV.Lemmas.C05Src
import ALV.Model.C05Lin
import ALV.Spec.C05
import ALV.Common.Audit

set_option linter.unusedSectionVars false
set_option linter.unusedVariables false
namespace ALV.Props.C05
open ALV.C07 ALV.C05 LaurentPolynomial
variable {K : Type} [Field K] [DecidableEq K]

local infix:50 " ≈ " => ALV.C05.Equiv

/-! ## C05.1 field laws of the operators, up to `≈`

`Valid f` is the invariant of a filter object (`WF` dictionaries, non-zero denominator).
`f ≈ g` is `num_f · den_g = num_g · den_f` in `K[T;T⁻¹]`.  `Agree a b` says that both computations
run without exception and return valid filters `x ≈ y`.  All statements are for every field `K`,
every filter (no order bound) — the same-denominator shortcut of `__add__`, the normalisation of
`__init__` and the negative-power flip of `__pow__` are inside the operators. -/

/-- `≈` is an equivalence relation on valid filters (transitivity needs `K[T;T⁻¹]` to be a domain
and the middle denominator to be non-zero) -/
theorem equiv_refl (f : ZF K) : f ≈ f := ALV.C05.Equiv.refl f
theorem equiv_symm {f g : ZF K} (h : f ≈ g) : g ≈ f := ALV.C05.Equiv.symm h
theorem equiv_trans {f g h : ZF K} (hf : Valid f) (hg : Valid g) (hh : Valid h)
    (h1 : f ≈ g) (h2 : g ≈ h) : f ≈ h := ALV.C05.Equiv.trans hf hg hh h1 h2

/-- every filter object that the constructor builds from raw coefficients (`ZFilter(num, den)` with
lists or dictionaries: duplicates, stored zeros, any integer powers) satisfies the invariant `Valid`
and has a normalised denominator (a polynomial in `z⁻¹` with non-zero constant term); the constructor
raises exactly when the denominator is the zero polynomial -/
theorem constructed_filters_valid (numPairs denPairs : List (ℤ × K)) :
    (C07.mk denPairs = [] → ofData numPairs denPairs = .error .value) ∧
    (C07.mk denPairs ≠ [] → ∃ f, ofData numPairs denPairs = .ok f ∧ Valid f ∧ Norm f) := by
  constructor
  · intro h
    unfold ofData ofPolys
    rw [h]
    simp [C07.mk, ofPairs, compact, C04.minKey]
  · intro h
    obtain ⟨f, _, e, v, _, _⟩ := ofPolys_spec (wf_mk numPairs) (wf_mk denPairs) h
    obtain ⟨hp, h0⟩ := ofPolys_normal (wf_mk numPairs) (wf_mk denPairs) e
    exact ⟨f, e, v, v, hp, h0⟩

/-- every operator returns a valid filter (never raises) on valid operands -/
theorem operators_total {f g : ZF K} (hf : Valid f) (hg : Valid g) (c : K) (n : ℕ) :
    (∃ h, add f g = .ok h ∧ Valid h) ∧ (∃ h, sub f g = .ok h ∧ Valid h) ∧
    (∃ h, mul f g = .ok h ∧ Valid h) ∧ (∃ h, neg f = .ok h ∧ Valid h) ∧
    (∃ h, mulScalar f c = .ok h ∧ Valid h) ∧ (∃ h, pow f n = .ok h ∧ Valid h) ∧
    (g.num ≠ [] → ∃ h, truediv f g = .ok h ∧ Valid h) := by
  refine ⟨?_, ?_, ?_, ?_, ?_, ?_, ?_⟩
  · obtain ⟨h, e, v, _⟩ := add_den hf hg; exact ⟨h, e, v⟩
  · obtain ⟨h, e, v, _⟩ := sub_den hf hg; exact ⟨h, e, v⟩
  · obtain ⟨h, e, v, _⟩ := mul_den hf hg; exact ⟨h, e, v⟩
  · obtain ⟨h, e, v, _⟩ := neg_den hf; exact ⟨h, e, v⟩
  · obtain ⟨h, e, v, _⟩ := mulScalar_den hf c; exact ⟨h, e, v⟩
  · obtain ⟨h, e, v, _⟩ := pow_den_nat hf n; exact ⟨h, e, v⟩
  · intro hg0; obtain ⟨h, e, v, _⟩ := truediv_den hf hg hg0; exact ⟨h, e, v⟩

/-- the operators respect `≈` (so the laws below compose to expression trees of any depth) -/
theorem operators_congr {f f' g g' : ZF K} (hf : Valid f) (hf' : Valid f') (hg : Valid g) (hg' : Valid g')
    (h1 : f ≈ f') (h2 : g ≈ g') :
    Agree (add f g) (add f' g') ∧ Agree (sub f g) (sub f' g') ∧ Agree (mul f g) (mul f' g') ∧
    Agree (neg f) (neg f') ∧ (g.num ≠ [] → Agree (truediv f g) (truediv f' g')) ∧
    (∀ n : ℤ, 0 ≤ n ∨ f.num ≠ [] → Agree (pow f n) (pow f' n)) := by
  have e1 := (equiv_iff_val hf hf').1 h1
  have e2 := (equiv_iff_val hg hg').1 h2
  have hnum : ∀ {a b : ZF K}, Valid a → Valid b → val a = val b → a.num ≠ [] → b.num ≠ [] := by
    intro a b ha hb e h0 hb0
    exact val_ne_zero ha h0 (e.trans ((val_eq_zero_iff hb).2 hb0))
  refine ⟨?_, ?_, ?_, ?_, ?_, ?_⟩
  · exact agree_of_den (add_den hf hg) (by rw [e1, e2]; exact add_den hf' hg')
  · exact agree_of_den (sub_den hf hg) (by rw [e1, e2]; exact sub_den hf' hg')
  · exact agree_of_den (mul_den hf hg) (by rw [e1, e2]; exact mul_den hf' hg')
  · exact agree_of_den (neg_den hf) (by rw [e1]; exact neg_den hf')
  · intro hg0
    exact agree_of_den (truediv_den hf hg hg0) (by rw [e1, e2]; exact truediv_den hf' hg' (hnum hg hg' e2 hg0))
  · intro n hn
    have hn' : 0 ≤ n ∨ f'.num ≠ [] := hn.imp id (hnum hf hf' e1)
    exact agree_of_den (pow_den hf n hn) (by rw [e1]; exact pow_den hf' n hn')

theorem add_comm {f g : ZF K} (hf : Valid f) (hg : Valid g) : Agree (add f g) (add g f) :=
  agree_of_den (add_den hf hg) (by rw [_root_.add_comm]; exact add_den hg hf)

theorem add_assoc {f g h : ZF K} (hf : Valid f) (hg : Valid g) (hh : Valid h) :
    Agree (add f g >>= fun s => add s h) (add g h >>= fun t => add f t) := by
  have hL : Den (add f g >>= fun s => add s h) (val f + val g + val h) :=
    (add_den hf hg).bind fun s hs es => by rw [← es]; exact add_den hs hh
  have hR : Den (add g h >>= fun t => add f t) (val f + (val g + val h)) :=
    (add_den hg hh).bind fun t ht et => by rw [← et]; exact add_den hf ht
  rw [← _root_.add_assoc] at hR
  exact agree_of_den hL hR

theorem mul_comm {f g : ZF K} (hf : Valid f) (hg : Valid g) : Agree (mul f g) (mul g f) :=
  agree_of_den (mul_den hf hg) (by rw [_root_.mul_comm]; exact mul_den hg hf)

theorem mul_assoc {f g h : ZF K} (hf : Valid f) (hg : Valid g) (hh : Valid h) :
    Agree (mul f g >>= fun s => mul s h) (mul g h >>= fun t => mul f t) := by
  have hL : Den (mul f g >>= fun s => mul s h) (val f * val g * val h) :=
    (mul_den hf hg).bind fun s hs es => by rw [← es]; exact mul_den hs hh
  have hR : Den (mul g h >>= fun t => mul f t) (val f * (val g * val h)) :=
    (mul_den hg hh).bind fun t ht et => by rw [← et]; exact mul_den hf ht
  rw [← _root_.mul_assoc] at hR
  exact agree_of_den hL hR

/-- `f·(g+h) ≈ f·g + f·h` -/
theorem distrib {f g h : ZF K} (hf : Valid f) (hg : Valid g) (hh : Valid h) :
    Agree (add g h >>= fun s => mul f s)
      (mul f g >>= fun a => mul f h >>= fun b => add a b) := by
  have hL : Den (add g h >>= fun s => mul f s) (val f * (val g + val h)) :=
    (add_den hg hh).bind fun s hs es => by rw [← es]; exact mul_den hf hs
  have hR : Den (mul f g >>= fun a => mul f h >>= fun b => add a b) (val f * val g + val f * val h) :=
    (mul_den hf hg).bind fun a ha ea => (mul_den hf hh).bind fun b hb eb => by
      rw [← ea, ← eb]; exact add_den ha hb
  rw [← _root_.mul_add] at hR
  exact agree_of_den hL hR

/-- `f − f ≈ 0` -/
theorem sub_self {f : ZF K} (hf : Valid f) : Agree (sub f f) (ofScalar 0) :=
  agree_of_den (sub_den hf hf) (by
    have h := ofScalar_den (0 : K)
    rw [map_zero, map_zero] at h
    rw [_root_.sub_self]; exact h)

/-- `f − g ≈ f + (−g)` and `−f ≈ f·(−1)` -/
theorem sub_eq_add_neg {f g : ZF K} (hf : Valid f) (hg : Valid g) :
    Agree (sub f g) (neg g >>= fun n => add f n) ∧ Agree (neg f) (mulScalar f (-1)) := by
  constructor
  · have hR : Den (neg g >>= fun n => add f n) (val f + -val g) :=
      (neg_den hg).bind fun n hn en => by rw [← en]; exact add_den hf hn
    rw [← _root_.sub_eq_add_neg] at hR
    exact agree_of_den (sub_den hf hg) hR
  · have h := mulScalar_den hf (-1 : K)
    rw [map_neg, map_neg, map_one, map_one, mul_neg, mul_one] at h
    exact agree_of_den (neg_den hf) h

/-- `f / f ≈ 1` for a non-zero `f` -/
theorem div_self {f : ZF K} (hf : Valid f) (hf0 : f.num ≠ []) : Agree (truediv f f) (ofScalar 1) :=
  agree_of_den (truediv_den hf hf hf0) (by
    have h := ofScalar_den (1 : K)
    rw [map_one, map_one] at h
    rw [_root_.div_self (val_ne_zero hf hf0)]; exact h)

/-- `(f / g)·g ≈ f` for a non-zero `g` -/
theorem div_mul_cancel {f g : ZF K} (hf : Valid f) (hg : Valid g) (hg0 : g.num ≠ []) :
    Agree (truediv f g >>= fun q => mul q g) (.ok f) := by
  have hL : Den (truediv f g >>= fun q => mul q g) (val f / val g * val g) :=
    (truediv_den hf hg hg0).bind fun q hq eq => by rw [← eq]; exact mul_den hq hg
  rw [_root_.div_mul_cancel₀ _ (val_ne_zero hg hg0)] at hL
  exact agree_of_den hL (Den.ok hf)

/-- scalars: `f·c ≈ ZFilter([c])·f`, `f / c ≈ f·(1/c)`, `f + c`, `c − f`, `c / f` are the field
operations with the constant `c` -/
theorem scalar_ops {f : ZF K} (hf : Valid f) (c : K) :
    Agree (mulScalar f c) (rmulScalar c f) ∧
    Agree (addScalar f c) (raddScalar c f) ∧
    Agree (rsubScalar c f) (subScalar f c >>= neg) ∧
    (c ≠ 0 → Agree (divScalar f c) (mulScalar f (1 / c))) ∧
    (f.num ≠ [] → Agree (rdivScalar c f) (ofScalar c >>= fun s => truediv s f)) := by
  refine ⟨?_, ?_, ?_, ?_, ?_⟩
  · exact agree_of_den (mulScalar_den hf c) (by rw [_root_.mul_comm]; exact rmulScalar_den hf c)
  · exact agree_of_den (addScalar_den hf c) (by rw [_root_.add_comm]; exact raddScalar_den hf c)
  · have hR : Den (subScalar f c >>= neg) (-(val f - ι (C c))) :=
      (subScalar_den hf c).bind fun s hs es => by rw [← es]; exact neg_den hs
    rw [neg_sub] at hR
    exact agree_of_den (rsubScalar_den hf c) hR
  · intro hc
    have h := divScalar_den hf hc
    refine agree_of_den h ?_
    unfold C05.divScalar at h
    rwa [if_neg hc] at h
  · intro hf0
    exact agree_of_den (rdivScalar_den hf hf0 c) (rdivScalar_den hf hf0 c)

/-- `f^(m+n) ≈ f^m · f^n` -/
theorem pow_add {f : ZF K} (hf : Valid f) (m n : ℕ) :
    Agree (pow f ((m : ℤ) + n)) (pow f m >>= fun a => pow f n >>= fun b => mul a b) := by
  have hL : Den (pow f ((m : ℤ) + n)) (val f ^ (m + n)) := by exact_mod_cast pow_den_nat hf (m + n)
  have hR : Den (pow f m >>= fun a => pow f n >>= fun b => mul a b) (val f ^ m * val f ^ n) :=
    (pow_den_nat hf m).bind fun a ha ea => (pow_den_nat hf n).bind fun b hb eb => by
      rw [← ea, ← eb]; exact mul_den ha hb
  rw [← _root_.pow_add] at hR
  exact agree_of_den hL hR

/-- the same for all integer exponents of a non-zero filter -/
theorem zpow_add {f : ZF K} (hf : Valid f) (hf0 : f.num ≠ []) (m n : ℤ) :
    Agree (pow f (m + n)) (pow f m >>= fun a => pow f n >>= fun b => mul a b) := by
  have hR : Den (pow f m >>= fun a => pow f n >>= fun b => mul a b) (val f ^ m * val f ^ n) :=
    (pow_den hf m (Or.inr hf0)).bind fun a ha ea => (pow_den hf n (Or.inr hf0)).bind fun b hb eb => by
      rw [← ea, ← eb]; exact mul_den ha hb
  rw [← zpow_add₀ (val_ne_zero hf hf0)] at hR
  exact agree_of_den (pow_den hf (m + n) (Or.inr hf0)) hR

/-- `f^(−n) ≈ 1 / f^n` (the negative-power flip) -/
theorem pow_neg {f : ZF K} (hf : Valid f) (hf0 : f.num ≠ []) (n : ℕ) :
    Agree (pow f (-(n : ℤ)))
      (ofScalar 1 >>= fun one => pow f n >>= fun p => truediv one p) := by
  have hR : Den (ofScalar 1 >>= fun one => pow f n >>= fun p => truediv one p) (1 / val f ^ n) := by
    refine (ofScalar_den (1 : K)).bind fun one hone eone => (pow_den_nat hf n).bind fun p hp ep => ?_
    have hp0 : p.num ≠ [] := by
      intro e
      have := (val_eq_zero_iff hp).2 e
      rw [ep] at this
      exact pow_ne_zero n (val_ne_zero hf hf0) this
    have := truediv_den hone hp hp0
    rwa [eone, ep, map_one, map_one] at this
  have hL := pow_den hf (-(n : ℤ)) (Or.inr hf0)
  rw [zpow_neg, zpow_natCast, ← one_div] at hL
  exact agree_of_den hL hR

/-- `f^0 ≈ 1`, `f^1 ≈ f`, `f^(n+1) ≈ f^n · f`: the power is the n-fold product -/
theorem pow_nfold {f : ZF K} (hf : Valid f) (n : ℕ) :
    Agree (pow f 0) (ofScalar 1) ∧ Agree (pow f 1) (.ok f) ∧
    Agree (pow f ((n : ℤ) + 1)) (pow f n >>= fun p => mul p f) := by
  refine ⟨?_, ?_, ?_⟩
  · have h0 := pow_den_nat hf 0
    have h1 := ofScalar_den (1 : K)
    rw [pow_zero] at h0
    rw [map_one, map_one] at h1
    exact agree_of_den h0 h1
  · have h1 := pow_den_nat hf 1
    rw [pow_one] at h1
    exact agree_of_den h1 (Den.ok hf)
  · have hL : Den (pow f ((n : ℤ) + 1)) (val f ^ (n + 1)) := by exact_mod_cast pow_den_nat hf (n + 1)
    have hR : Den (pow f n >>= fun p => mul p f) (val f ^ n * val f) :=
      (pow_den_nat hf n).bind fun p hp ep => by rw [← ep]; exact mul_den hp hf
    rw [← pow_succ] at hR
    exact agree_of_den hL hR

/-! ### substitution -/

/-- **`f(g)` substitutes `g` for `z`**: for a non-zero `g` at which the denominator of `f` does
not vanish, `f(g)` runs and denotes `Σ num_k g^(−k) / Σ den_k g^(−k)` -/
theorem subst_value {f g : ZF K} (hf : Valid f) (hg : Valid g) (hg0 : g.num ≠ [])
    (hd : evalQ (val g) f.den ≠ 0) :
    ∃ r, subst f g = .ok r ∧ Valid r ∧ val r = evalQ (val g) f.num / evalQ (val g) f.den :=
  subst_den hf hg hg0 hd

/-- substituting `z` itself gives back `f` -/
theorem subst_z {f : ZF K} (hf : Valid f) : Agree (C05.z >>= fun zz => subst f zz) (.ok f) := by
  refine agree_of_den ?_ (Den.ok hf)
  refine z_den.bind fun zz hz ez => ?_
  have hz0 : zz.num ≠ [] := by
    intro e
    have := (val_eq_zero_iff hz).2 e
    rw [ez] at this
    exact T_ne_zero (-1) (ι_eq_zero.1 this)
  have hd : evalQ (val zz) f.den ≠ 0 := by
    rw [ez, evalQ_z]; exact ιD_ne_zero hf
  have := subst_den hf hz hz0 hd
  rwa [ez, evalQ_z, evalQ_z] at this

/-- substitution is a ring homomorphism: `(f+g)(h) ≈ f(h)+g(h)` and `(f·g)(h) ≈ f(h)·g(h)`,
wherever the three denominators do not vanish at `h` -/
theorem subst_ring_hom {f g h : ZF K} (hf : Valid f) (hg : Valid g) (hh : Valid h) (hh0 : h.num ≠ [])
    (hdf : evalQ (val h) f.den ≠ 0) (hdg : evalQ (val h) g.den ≠ 0) :
    Agree (add f g >>= fun s => subst s h) (subst f h >>= fun a => subst g h >>= fun b => add a b) ∧
    Agree (mul f g >>= fun s => subst s h) (subst f h >>= fun a => subst g h >>= fun b => mul a b) := by
  have hv : val h ≠ 0 := val_ne_zero hh hh0
  -- φ : K[T;T⁻¹] → Q K, z⁻¹ ↦ (val h)⁻¹
  have hφ : ∀ p : MPoly K, evalQ (val h) p = substHom (val h) hv (toLaurent p) :=
    fun p => (substHom_toLaurent _ hv p).symm
  have hφf : substHom (val h) hv (C05.D f) ≠ 0 := by rw [C05.D, ← hφ]; exact hdf
  have hφg : substHom (val h) hv (C05.D g) ≠ 0 := by rw [C05.D, ← hφ]; exact hdg
  have hA := subst_den hf hh hh0 hdf
  have hB := subst_den hg hh hh0 hdg
  constructor
  · obtain ⟨s, es, hs, evs⟩ := add_den hf hg
    obtain ⟨s', p, es', hD⟩ := add_D hf hg
    obtain rfl : s = s' := by rw [es] at es'; exact Except.ok.inj es'
    have hφs : substHom (val h) hv (C05.D s) ≠ 0 := by
      rcases hD with hD | hD <;> rw [hD] <;> simp only [map_mul] <;>
        first
          | exact mul_ne_zero hφf (substHom_T_ne_zero _ hv p)
          | exact mul_ne_zero (mul_ne_zero hφf hφg) (substHom_T_ne_zero _ hv p)
    have hds : evalQ (val h) s.den ≠ 0 := by rw [hφ]; exact hφs
    have hL : Den (add f g >>= fun s => subst s h) (evalQ (val h) s.num / evalQ (val h) s.den) := by
      rw [es]; exact subst_den hs hh hh0 hds
    refine agree_of_den hL ?_
    have hfrac : ι (N s) / ι (C05.D s) = ι (N f * C05.D g + N g * C05.D f) / ι (C05.D f * C05.D g) := by
      have : val s = val f + val g := evs
      unfold val at this
      rw [this, div_add_div _ _ (ιD_ne_zero hf) (ιD_ne_zero hg)]
      simp only [map_add, map_mul]
      ring
    have ht := frac_transfer (substHom (val h) hv) (D_ne_zero hs) (mul_ne_zero (D_ne_zero hf) (D_ne_zero hg))
      hfrac hφs (by rw [map_mul]; exact mul_ne_zero hφf hφg)
    have e : evalQ (val h) s.num / evalQ (val h) s.den
        = evalQ (val h) f.num / evalQ (val h) f.den + evalQ (val h) g.num / evalQ (val h) g.den := by
      rw [hφ, hφ, hφ, hφ, hφ, hφ]
      show substHom (val h) hv (N s) / substHom (val h) hv (C05.D s) = _
      rw [ht, map_add, map_mul, map_mul, map_mul]
      show _ = substHom (val h) hv (N f) / substHom (val h) hv (C05.D f)
        + substHom (val h) hv (N g) / substHom (val h) hv (C05.D g)
      rw [div_add_div _ _ hφf hφg]
      ring
    rw [e]
    exact hA.bind fun a ha ea => hB.bind fun b hb eb => by rw [← ea, ← eb]; exact add_den ha hb
  · obtain ⟨s, es, hs, evs⟩ := mul_den hf hg
    obtain ⟨s', p, es', hD⟩ := mul_D hf hg
    obtain rfl : s = s' := by rw [es] at es'; exact Except.ok.inj es'
    have hφs : substHom (val h) hv (C05.D s) ≠ 0 := by
      rw [hD]; simp only [map_mul]
      exact mul_ne_zero (mul_ne_zero hφf hφg) (substHom_T_ne_zero _ hv p)
    have hds : evalQ (val h) s.den ≠ 0 := by rw [hφ]; exact hφs
    have hL : Den (mul f g >>= fun s => subst s h) (evalQ (val h) s.num / evalQ (val h) s.den) := by
      rw [es]; exact subst_den hs hh hh0 hds
    refine agree_of_den hL ?_
    have hfrac : ι (N s) / ι (C05.D s) = ι (N f * N g) / ι (C05.D f * C05.D g) := by
      have : val s = val f * val g := evs
      unfold val at this
      rw [this, div_mul_div_comm]
      simp only [map_mul]
    have ht := frac_transfer (substHom (val h) hv) (D_ne_zero hs) (mul_ne_zero (D_ne_zero hf) (D_ne_zero hg))
      hfrac hφs (by rw [map_mul]; exact mul_ne_zero hφf hφg)
    have e : evalQ (val h) s.num / evalQ (val h) s.den
        = evalQ (val h) f.num / evalQ (val h) f.den * (evalQ (val h) g.num / evalQ (val h) g.den) := by
      rw [hφ, hφ, hφ, hφ, hφ, hφ]
      show substHom (val h) hv (N s) / substHom (val h) hv (C05.D s) = _
      rw [ht, map_mul, map_mul]
      show _ = substHom (val h) hv (N f) / substHom (val h) hv (C05.D f)
        * (substHom (val h) hv (N g) / substHom (val h) hv (C05.D g))
      rw [div_mul_div_comm]
    rw [e]
    exact hA.bind fun a ha ea => hB.bind fun b hb eb => by rw [← ea, ← eb]; exact mul_den ha hb

/-- `linearize()` of a filter whose delays are integers (no fractional delay to interpolate) runs and
returns an equivalent filter -/
theorem linearize_integer_delays {f : ZF K} (hf : Valid f) : Agree (linearize f) (.ok f) :=
  agree_of_den (linearize_den hf) (Den.ok hf)

/-! ### expression trees of any depth; the executable specification -/

/-- **C05.1 for whole expression trees** (`Spec/C05.lean`: `Expr.run` evaluates a tree with the
operators as coded, `Expr.value` in the textbook field of fractions on canonical pairs): whenever
the textbook value `s` is defined (no division by the zero function), the code does not raise and
returns a valid filter `h ≈ s`.  Induction on the tree: no depth bound, no order bound. -/
theorem expression_trees (e : Expr K) (s : ZF K) (hl : e.Lits Valid) (hs : e.value = some s) :
    ∃ h, e.run = .ok h ∧ Valid h ∧ h ≈ s ∧ rEquiv h s = true := by
  obtain ⟨sv, h, e1, hv, ev⟩ := run_denotes e s hl hs
  have hx : h ≈ s := by
    unfold val at ev
    rw [div_eq_div_iff (ιD_ne_zero hv) (ιD_ne_zero' sv), ← map_mul, ← map_mul] at ev
    exact ι_inj ev
  exact ⟨h, e1, hv, hx, (rEquiv_iff h s).2 hx⟩

/-- the executable `rEquiv` of the specification (canonical forms of the cross products are equal)
decides `≈` -/
theorem rEquiv_decides (f g : ZF K) : rEquiv f g = true ↔ f ≈ g := rEquiv_iff f g

/-- the specification's operations are the operations of the field of rational functions -/
theorem spec_is_field {f g : ZF K} (hf : C05.D f ≠ 0) (hg : C05.D g ≠ 0) (c : K) (n : ℕ) :
    val (rAdd f g) = val f + val g ∧ val (rSub f g) = val f - val g ∧ val (rMul f g) = val f * val g ∧
    val (rNeg f) = -val f ∧ val (rScalar c) = ι (C c) ∧ val (rPowN f n) = val f ^ n ∧ val (rOf f) = val f ∧
    (∀ r, rDiv f g = some r → val r = val f / val g ∧ val g ≠ 0) :=
  ⟨(val_rAdd hf hg).2, (val_rSub hf hg).2, (val_rMul hf hg).2, (val_rNeg hf).2, (val_rScalar c).2,
    (val_rPowN hf n).2, val_rOf f, fun r h => (val_rDiv hf hg h).2⟩

/-! ## C05.2 signal laws for causal filters, any input

`Causal f`: a valid filter without negative delays whose denominator has a non-zero constant term
(what `LinearFilter.__call__` accepts).  `call` is the model of `filt(seq, zero=0)` (C04's generated
loop); `apply` is the specification (C04's difference equation, zero initial conditions).  Every
statement: the *model operator* followed by the *model call* equals the composition of outputs. -/

/-- **C05.2a** the call of a causal filter is its difference equation -/
theorem call_eq_spec {f : ZF K} (hf : Causal f) (xs : List K) : call f xs = .ok (apply f xs) :=
  call_eq_apply hf xs

/-- causality is closed under the operators (so the laws below chain) -/
theorem causal_closed {f g : ZF K} (hf : Causal f) (hg : Causal g) (c : K) (n : ℕ) :
    (∃ h, add f g = .ok h ∧ Causal h) ∧ (∃ h, sub f g = .ok h ∧ Causal h) ∧
    (∃ h, mul f g = .ok h ∧ Causal h) ∧ (∃ h, neg f = .ok h ∧ Causal h) ∧
    (∃ h, mulScalar f c = .ok h ∧ Causal h) ∧ (∃ h, pow f (n : ℤ) = .ok h ∧ Causal h) ∧
    (∃ h, C05.ofScalar c = Except.ok h ∧ Causal h) :=
  ⟨add_causal hf hg, sub_causal hf hg, mul_causal hf hg, neg_causal hf, mulScalar_causal hf c,
    pow_causal hf n, ofScalar_causal c⟩

/-- **`(f+g)(x) = f(x) + g(x)`** -/
theorem sig_add {f g : ZF K} (hf : Causal f) (hg : Causal g) (xs : List K) :
    (add f g >>= fun h => call h xs) = .ok (addSig (apply f xs) (apply g xs)) := by
  obtain ⟨h, e, hc, ev⟩ := den_causal (add_den hf.1 hg.1) (add_causal hf hg)
  rw [e]
  show call h xs = _
  rw [call_eq_apply hc, apply_add hf hg hc ev]

/-- **`(c·f)(x) = c·f(x)`**, for `f * c` and for the reflected `c * f` -/
theorem sig_scale {f : ZF K} (hf : Causal f) (c : K) (xs : List K) :
    (mulScalar f c >>= fun h => call h xs) = .ok (scaleSig c (apply f xs)) ∧
    (rmulScalar c f >>= fun h => call h xs) = .ok (scaleSig c (apply f xs)) := by
  obtain ⟨s, es, hs, vs⟩ := den_causal (ofScalar_den c) (ofScalar_causal c)
  constructor
  · obtain ⟨h, e, hc, ev⟩ := den_causal (mulScalar_den hf.1 c) (mulScalar_causal hf c)
    rw [e]
    show call h xs = _
    rw [call_eq_apply hc, apply_scale hf hc hs c vs ev]
  · unfold rmulScalar
    rw [es]
    obtain ⟨h, e, hc, ev⟩ := den_causal (mul_den hs.1 hf.1) (mul_causal hs hf)
    show (mul s f >>= fun h => call h xs) = _
    rw [e]
    show call h xs = _
    rw [call_eq_apply hc, apply_mul hs hf hc ev, apply_const hs c vs]

/-- **`(f−g)(x) = f(x) − g(x)`** -/
theorem sig_sub {f g : ZF K} (hf : Causal f) (hg : Causal g) (xs : List K) :
    (sub f g >>= fun h => call h xs) = .ok (subSig (apply f xs) (apply g xs)) := by
  obtain ⟨n, en, hn, vn⟩ := den_causal (neg_den hg.1) (neg_causal hg)
  obtain ⟨s, es, hs, vs⟩ := den_causal (ofScalar_den (-1 : K)) (ofScalar_causal (-1 : K))
  obtain ⟨h, e, hc, ev⟩ := den_causal (add_den hf.1 hn.1) (add_causal hf hn)
  unfold C05.sub
  rw [en]
  show (add f n >>= fun h => call h xs) = _
  rw [e]
  show call h xs = _
  have hneg : apply n xs = scaleSig (-1) (apply g xs) :=
    apply_scale hg hn hs (-1) vs (by rw [vn, map_neg, map_neg, map_one, map_one, mul_neg, mul_one]) xs
  rw [call_eq_apply hc, apply_add hf hn hc ev, hneg]
  congr 1
  simp only [addSig, subSig, scaleSig, List.zipWith_map_right]
  congr 1
  funext a b
  ring

/-- **`(f·g)(x) = f(g(x)) = g(f(x))`** -/
theorem sig_mul {f g : ZF K} (hf : Causal f) (hg : Causal g) (xs : List K) :
    (mul f g >>= fun h => call h xs) = .ok (apply f (apply g xs)) ∧
    apply f (apply g xs) = apply g (apply f xs) := by
  obtain ⟨h, e, hc, ev⟩ := den_causal (mul_den hf.1 hg.1) (mul_causal hf hg)
  constructor
  · rw [e]
    show call h xs = _
    rw [call_eq_apply hc, apply_mul hf hg hc ev]
  · rw [← apply_mul hf hg hc ev, ← apply_mul hg hf hc (by rw [ev, _root_.mul_comm])]

/-- **`f ≈ g → f(x) = g(x)`**: the output only depends on the rational function -/
theorem sig_equiv {f g : ZF K} (hf : Causal f) (hg : Causal g) (h : f ≈ g) (xs : List K) :
    call f xs = call g xs := by
  rw [call_eq_apply hf, call_eq_apply hg, apply_congr hf hg ((equiv_iff_val hf.1 hg.1).1 h)]

/-- **`((f/g)·g)(x) = f(x)`** for causal `f`, `g ≠ 0` — whatever delay `g` starts with: `f/g` need
not be causal, the constructor cancels the common delay of `(f/g)·g` again -/
theorem sig_div_mul {f g : ZF K} (hf : Causal f) (hg : Causal g) (hg0 : g.num ≠ []) (xs : List K) :
    (truediv f g >>= fun q => mul q g >>= fun r => call r xs) = .ok (apply f xs) := by
  obtain ⟨q, eq, hq, vq⟩ := truediv_den hf.1 hg.1 hg0
  obtain ⟨r, er, hr, vr⟩ := mul_den hq hg.1
  rw [eq]
  show (mul q g >>= fun r => call r xs) = _
  rw [er]
  show call r xs = _
  have hv : val r = val f := by rw [vr, vq, div_mul_cancel₀ _ (val_ne_zero hg.1 hg0)]
  obtain ⟨hrd, hr0⟩ := mul_normal er
  have hrc : Causal r := causal_of_val_eq hr hrd hr0 hf hv
  rw [call_eq_apply hrc, apply_congr hrc hf hv]

/-- **`(f**n)(x)` is `f` applied `n` times** -/
theorem sig_pow {f : ZF K} (hf : Causal f) (n : ℕ) (xs : List K) :
    (pow f (n : ℤ) >>= fun h => call h xs) = .ok (applyN f n xs) := by
  induction n with
  | zero =>
    obtain ⟨h, e, hc, ev⟩ := den_causal (pow_den_nat hf.1 0) (pow_causal hf 0)
    rw [e]
    show call h xs = _
    rw [call_eq_apply hc, apply_one hc (by rw [ev, pow_zero])]
    rfl
  | succ n ih =>
    obtain ⟨p, ep, hp, vp⟩ := den_causal (pow_den_nat hf.1 n) (pow_causal hf n)
    obtain ⟨h, e, hc, ev⟩ := den_causal (pow_den_nat hf.1 (n + 1)) (pow_causal hf (n + 1))
    rw [ep] at ih
    have ih' : call p xs = .ok (applyN f n xs) := ih
    rw [call_eq_apply hp] at ih'
    rw [e]
    show call h xs = _
    rw [call_eq_apply hc, apply_mul hf hp hc (by rw [ev, vp, pow_succ']), Except.ok.inj ih']
    rfl

/-- **`z**-k` delays by `k` samples** -/
theorem sig_delay (k : ℕ) (xs : List K) :
    (C05.z >>= fun zz => pow zz (-(k : ℤ)) >>= fun h => call h xs) = .ok (delay k xs) := by
  obtain ⟨zz, ez, hz, vz⟩ := z_den (K := K)
  have hz0 : zz.num ≠ [] := by
    intro e
    have := (val_eq_zero_iff hz).2 e
    rw [vz] at this
    exact T_ne_zero (-1) (ι_eq_zero.1 this)
  obtain ⟨h, e, hv, ev⟩ := pow_den hz (-(k : ℤ)) (Or.inr hz0)
  rw [ez]
  show (pow zz (-(k : ℤ)) >>= fun h => call h xs) = _
  rw [e]
  show call h xs = _
  have hval : val h = ι (T (k : ℤ)) := by
    rw [ev, vz, ι_T, ι_T, ← zpow_mul]; simp
  obtain ⟨hd, h0⟩ := pow_normal hz _ e
  obtain ⟨cd, vd⟩ := causal_delay (K := K) k
  have hc : Causal h := causal_of_val_eq hv hd h0 cd (by rw [hval, vd])
  rw [call_eq_apply hc, apply_delay hc k hval]

/-! ## C05.3 CascadeFilter / ParallelFilter equal the product / sum of the parts -/

/-- **`cascade_eq_prod`** (output): calling a cascade of causal filters feeds each one with the
output of the previous one, and that is the output of the product `reduce(mul, filters)` -/
theorem cascade_eq_prod (f : ZF K) (t : List (ZF K)) (hc : ∀ g ∈ f :: t, Causal g) (xs : List K) :
    cascadeCall (f :: t) xs = .ok (cascadeApply (f :: t) xs) ∧
    ∃ h, prodFilters (f :: t) = .ok h ∧ Causal h ∧ call h xs = cascadeCall (f :: t) xs := by
  refine ⟨cascadeCall_eq _ hc xs, ?_⟩
  obtain ⟨h, e, c, _, a⟩ := foldlM_mul_spec t (fun g hg => hc g (List.mem_cons_of_mem _ hg))
    (hc f List.mem_cons_self)
  refine ⟨h, e, c, ?_⟩
  rw [call_eq_apply c, cascadeCall_eq _ hc xs, a xs]
  rfl

/-- **`parallel_eq_sum`** (output): calling filters in parallel adds their outputs, and that is the
output of the sum `reduce(add, filters)`; without filters the output is the zero value per input -/
theorem parallel_eq_sum (f : ZF K) (t : List (ZF K)) (hc : ∀ g ∈ f :: t, Causal g) (xs : List K) :
    parallelCall (f :: t) xs = .ok (parallelApply (f :: t) xs) ∧
    parallelCall ([] : List (ZF K)) xs = .ok (xs.map fun _ => 0) ∧
    ∃ h, sumFilters (f :: t) = .ok h ∧ Causal h ∧ call h xs = parallelCall (f :: t) xs := by
  have ht : ∀ g ∈ t, Causal g := fun g hg => hc g (List.mem_cons_of_mem _ hg)
  have hp : parallelCall (f :: t) xs = .ok (parallelApply (f :: t) xs) := by
    simp only [parallelCall]
    rw [call_eq_apply (hc f List.mem_cons_self)]
    show List.foldlM _ (apply f xs) t = _
    rw [parallelFold_eq t ht xs, parallelApply_cons]
  refine ⟨hp, rfl, ?_⟩
  obtain ⟨h, e, c, _, a⟩ := foldlM_add_spec t ht (hc f List.mem_cons_self)
  refine ⟨h, e, c, ?_⟩
  rw [call_eq_apply c, hp, a xs, parallelApply_cons]

/-- **`cascade_polys`**: `CascadeFilter.numpoly` / `.denpoly` are the products of the numerators /
denominators — the polynomials of the product filter up to `≈` (exactly: before normalisation) -/
theorem cascade_polys (f : ZF K) (t : List (ZF K)) (hv : ∀ g ∈ f :: t, Valid g) :
    ∃ n d h, cascadeNumpoly (f :: t) = .ok n ∧ cascadeDenpoly (f :: t) = .ok d ∧
      toLaurent n = ((f :: t).map N).prod ∧ toLaurent d = ((f :: t).map C05.D).prod ∧
      prodFilters (f :: t) = .ok h ∧ Valid h ∧ (⟨n, d⟩ : ZF K) ≈ h := by
  have hprod : ∀ (t : List (ZF K)) (f0 : ZF K), Valid f0 → (∀ g ∈ t, Valid g) →
      ∃ h, t.foldlM mul f0 = .ok h ∧ Valid h ∧ val h = val f0 * (t.map val).prod := by
    intro t
    induction t with
    | nil => intro f0 h0 _; exact ⟨f0, rfl, h0, by simp⟩
    | cons g t ih =>
      intro f0 h0 hgs
      obtain ⟨h1, e1, v1, w1⟩ := mul_den h0 (hgs g List.mem_cons_self)
      obtain ⟨h, e, v, w⟩ := ih h1 v1 (fun x hx => hgs x (List.mem_cons_of_mem _ hx))
      exact ⟨h, by rw [List.foldlM_cons, e1]; exact e, v, by rw [w, w1]; simp [_root_.mul_assoc]⟩
  obtain ⟨h, e, v, w⟩ := hprod t f (hv f List.mem_cons_self) (fun g hg => hv g (List.mem_cons_of_mem _ hg))
  have hn : toLaurent (t.foldl (fun acc g => C07.mul acc g.num) f.num) = ((f :: t).map N).prod := by
    have := toLaurent_foldl_mul (t.map (·.num)) f.num
    rw [List.foldl_map, List.map_map] at this
    rw [this, List.map_cons, List.prod_cons]
    rfl
  have hd : toLaurent (t.foldl (fun acc g => C07.mul acc g.den) f.den) = ((f :: t).map C05.D).prod := by
    have := toLaurent_foldl_mul (t.map (·.den)) f.den
    rw [List.foldl_map, List.map_map] at this
    rw [this, List.map_cons, List.prod_cons]
    rfl
  refine ⟨t.foldl (fun acc g => C07.mul acc g.num) f.num, t.foldl (fun acc g => C07.mul acc g.den) f.den, h,
    by simp [cascadeNumpoly, prodPolys, List.foldl_map], by simp [cascadeDenpoly, prodPolys, List.foldl_map],
    hn, hd, e, v, ?_⟩
  -- both denote Π N / Π C05.D
  have hdne : ∀ (l : List (ZF K)), (∀ g ∈ l, Valid g) → (l.map C05.D).prod ≠ 0 := by
    intro l hl
    apply List.prod_ne_zero
    intro h0
    obtain ⟨g, hg, e0⟩ := List.mem_map.1 h0
    exact D_ne_zero (hl g hg) e0
  have hval : ∀ (l : List (ZF K)), (∀ g ∈ l, Valid g) →
      ι ((l.map N).prod) / ι ((l.map C05.D).prod) = (l.map val).prod := by
    intro l
    induction l with
    | nil => intro _; simp
    | cons g l ih =>
      intro hl
      simp only [List.map_cons, List.prod_cons, map_mul]
      rw [← ih (fun x hx => hl x (List.mem_cons_of_mem _ hx)), ← div_mul_div_comm]
      rfl
  unfold ALV.C05.Equiv N C05.D
  show toLaurent (t.foldl (fun acc g => C07.mul acc g.num) f.num) * toLaurent h.den
    = toLaurent h.num * toLaurent (t.foldl (fun acc g => C07.mul acc g.den) f.den)
  rw [hn, hd]
  have hw : val h = ((f :: t).map val).prod := by rw [w]; simp
  rw [← hval (f :: t) hv] at hw
  unfold val at hw
  rw [div_eq_div_iff (ιD_ne_zero v) (fun e0 => hdne (f :: t) hv (ι_eq_zero.1 e0)), ← map_mul, ← map_mul] at hw
  have := ι_inj hw
  show _ * C05.D h = N h * _
  rw [← this, _root_.mul_comm]

/-- **`parallel_polys`** (repaired shape, D12): with `denpoly` taken from the same reduced sum as
`numpoly`, the pair *is* the sum filter, which denotes `Σ fᵢ` -/
theorem parallel_polys_fixed (f : ZF K) (t : List (ZF K)) (hv : ∀ g ∈ f :: t, Valid g) :
    ∃ h, sumFilters (f :: t) = .ok h ∧ Valid h ∧
      parallelNumpoly (f :: t) = .ok h.num ∧ parallelDenpolyFixed (f :: t) = .ok h.den ∧
      val h = ((f :: t).map val).sum := by
  have hsum : ∀ (t : List (ZF K)) (f0 : ZF K), Valid f0 → (∀ g ∈ t, Valid g) →
      ∃ h, t.foldlM add f0 = .ok h ∧ Valid h ∧ val h = val f0 + (t.map val).sum := by
    intro t
    induction t with
    | nil => intro f0 h0 _; exact ⟨f0, rfl, h0, by simp⟩
    | cons g t ih =>
      intro f0 h0 hgs
      obtain ⟨h1, e1, v1, w1⟩ := add_den h0 (hgs g List.mem_cons_self)
      obtain ⟨h, e, v, w⟩ := ih h1 v1 (fun x hx => hgs x (List.mem_cons_of_mem _ hx))
      exact ⟨h, by rw [List.foldlM_cons, e1]; exact e, v, by rw [w, w1]; simp [_root_.add_assoc]⟩
  obtain ⟨h, e, v, w⟩ := hsum t f (hv f List.mem_cons_self) (fun g hg => hv g (List.mem_cons_of_mem _ hg))
  have es : sumFilters (f :: t) = .ok h := e
  exact ⟨h, es, v, by simp [parallelNumpoly, es], by simp [parallelDenpolyFixed, es], by rw [w]; simp⟩

/-- **`parallel_polys`** (as coded): as long as no step of `reduce(add, filters)` takes the
same-denominator shortcut, `denpoly` (the product of the denominators) *is* the denominator of the
sum filter, so `numpoly / denpoly` is the sum of the parts -/
theorem parallel_polys_no_shortcut (f : ZF K) (t : List (ZF K)) (hn : ∀ g ∈ f :: t, Norm g)
    (hs : NoShortcut f t) :
    ∃ h, sumFilters (f :: t) = .ok h ∧ Valid h ∧
      parallelNumpoly (f :: t) = .ok h.num ∧ parallelDenpoly (f :: t) = .ok h.den ∧
      val h = ((f :: t).map val).sum := by
  obtain ⟨h, e, _, hd⟩ := foldlM_add_den t f (hn f List.mem_cons_self)
    (fun g hg => hn g (List.mem_cons_of_mem _ hg)) hs
  obtain ⟨h', e', v', n', _, w'⟩ := parallel_polys_fixed f t (fun g hg => (hn g hg).1)
  have es : sumFilters (f :: t) = .ok h := e
  obtain rfl : h' = h := by rw [es] at e'; exact (Except.ok.inj e').symm
  refine ⟨h', es, v', n', ?_, w'⟩
  simp only [parallelDenpoly, prodPolys, List.map_cons, List.foldl_map]
  rw [hd]

/-- … and the code as it stands does **not** have that property (defect D12): `numpoly` comes from
the reduced sum (same-denominator shortcut: `2·num / den`) while `denpoly` is the product `den²`.
Witness: `ParallelFilter(f, f)` with `f = (1 + z⁻¹)/(1 − z⁻¹/2)`. -/
theorem parallel_polys_as_coded_wrong :
    ∃ fs : List (ZF Rat),
      (do let n ← parallelNumpoly fs
          let d ← parallelDenpoly fs
          let s ← sumFilters fs
          pure (rEquiv (⟨n, d⟩ : ZF Rat) s)) = Except.ok false :=
  ⟨[⟨[(0, 1), (1, 1)], [(0, 1), (1, -1/2)]⟩, ⟨[(0, 1), (1, 1)], [(0, 1), (1, -1/2)]⟩], by decide +kernel⟩

/-! ### C05.4 `==`, `!=`, `hash` -/

/-- **C05.4a** (`eq_ne_exclusive`): with `!=` defined as the negation of `==` (the repair proposed
for D2) exactly one of `f == g`, `f != g` holds, for every pair of filters. -/
theorem eq_ne_exclusive (f g : ZF K) : neFixed f g = !C05.eq f g := rfl

/-- … and the code as it stands does **not** have that property (defect D2): `!=` is
`num != num' and den != den'`, so two filters that differ in the numerator only are neither
`==` nor `!=`.  Witness: `1 + z⁻¹` and `1 + 2 z⁻¹`. -/
theorem ne_as_coded_not_exclusive :
    ∃ f g : ZF Rat, C05.eq f g = false ∧ C05.ne f g = false :=
  ⟨⟨[(0, 1), (1, 1)], [(0, 1)]⟩, ⟨[(0, 1), (1, 2)], [(0, 1)]⟩, by decide +kernel, by decide +kernel⟩

/-- as coded, `!=` is the negation of `==` exactly when the filters do not differ in one
polynomial only -/
theorem ne_as_coded_iff (f g : ZF K) :
    C05.ne f g = !C05.eq f g ↔ (C07.eq f.num g.num = C07.eq f.den g.den) := by
  unfold C05.ne C05.eq C07.ne
  cases C07.eq f.num g.num <;> cases C07.eq f.den g.den <;> simp

/-- **C05.4b** (`eq_hash`): equal filters hash equally — `__hash__` hashes the tuple of the sorted
powers of both polynomials, and `==` filters hold the same set of (power, coefficient) items. -/
theorem eq_hash (f g : ZF K) (hf : WF f.num ∧ WF f.den) (hg : WF g.num ∧ WF g.den)
    (h : C05.eq f g = true) : hashKey f = hashKey g := by
  unfold C05.eq at h
  rw [Bool.and_eq_true] at h
  have h1 := hashKey_eq_of_perm hf.1.1 (perm_of_eq hf.1.1 hg.1.1 h.1)
  have h2 := hashKey_eq_of_perm hf.2.1 (perm_of_eq hf.2.1 hg.2.1 h.2)
  unfold C07.hashKey at h1 h2
  unfold C05.hashKey
  rw [h1, h2]

/-! ## non-vacuity: the hypotheses of the theorems above on concrete filters over ℚ -/

/-- `f1 = (1 + z⁻¹)/(1 − z⁻¹/2)`, `g1 = 2z⁻¹/(1 + 3z⁻²)` (numerator starts with a delay),
`g2 = (3 − z⁻²)/(2 + z⁻¹)` (dictionary in non-sorted insertion order), `zz = z` -/
abbrev f1 : ZF ℚ := ⟨[(0, 1), (1, 1)], [(0, 1), (1, -1/2)]⟩
abbrev g1 : ZF ℚ := ⟨[(1, 2)], [(0, 1), (2, 3)]⟩
abbrev g2 : ZF ℚ := ⟨[(2, -1), (0, 3)], [(1, 1), (0, 2)]⟩
abbrev zz : ZF ℚ := ⟨[(-1, 1)], [(0, 1)]⟩

local macro "valid_tac" : tactic => `(tactic| (unfold Valid WF; decide +kernel))
local macro "causal_tac" : tactic =>
  `(tactic| (refine ⟨by valid_tac, by unfold IsPoly; decide +kernel, by unfold IsPoly; decide +kernel, by decide +kernel⟩))

example : (ofData [(0, 1), (1, 1), (5, 0)] [(1, (2 : ℚ)), (2, -1), (1, 1)]).toOption.map (fun h => (h.num, h.den))
    = some ([(-1, 1), (0, 1)], [(0, 1), (1, -1)]) := by decide +kernel
example : Valid f1 ∧ Valid g1 ∧ Valid g2 ∧ Valid zz := ⟨by valid_tac, by valid_tac, by valid_tac, by valid_tac⟩
example : Causal f1 ∧ Causal g1 ∧ Causal g2 := ⟨by causal_tac, by causal_tac, by causal_tac⟩
example : ¬ IsPoly zz.num := by unfold IsPoly; decide +kernel

/-- what the operators compute, concretely (same-denominator shortcut, general sum, flip) -/
example : (add f1 f1).toOption.map (fun h => (h.num, h.den)) = some ([(0, 2), (1, 2)], [(0, 1), (1, -1/2)]) := by
  decide +kernel
example : (add f1 g2).toOption.map (fun h => (h.num, h.den))
    = some ([(1, 3/2), (0, 5), (3, 1/2)], [(0, 2), (2, -1/2)]) := by decide +kernel
example : (pow f1 (-2)).toOption.map (fun h => (h.num, h.den))
    = some ([(0, 1), (1, -1), (2, 1/4)], [(0, 1), (1, 2), (2, 1)]) := by decide +kernel
example : (C05.z : Except PyErr (ZF ℚ)).toOption.map (fun h => (h.num, h.den)) = some (zz.num, zz.den) := by
  decide +kernel

/-- C05.1: the laws, instantiated -/
example := add_comm (f := f1) (g := g2) (by valid_tac) (by valid_tac)
example := add_assoc (f := f1) (g := g1) (h := g2) (by valid_tac) (by valid_tac) (by valid_tac)
example := distrib (f := f1) (g := g1) (h := g2) (by valid_tac) (by valid_tac) (by valid_tac)
example := operators_congr (f := f1) (f' := f1) (g := g1) (g' := g1) (by valid_tac) (by valid_tac)
  (by valid_tac) (by valid_tac) (equiv_refl _) (equiv_refl _)
example := div_self (f := g1) (by valid_tac) (by decide)
example := div_mul_cancel (f := f1) (g := g1) (by valid_tac) (by valid_tac) (by decide)
example := zpow_add (f := g1) (by valid_tac) (by decide) (-2) 5
example := pow_neg (f := g2) (by valid_tac) (by decide) 3
example := linearize_integer_delays (f := g2) (by valid_tac)
example := equiv_trans (f := f1) (g := f1) (h := f1) (by valid_tac) (by valid_tac) (by valid_tac) rfl rfl

theorem val_zz : val zz = ι (T (-1)) := by
  unfold val N C05.D
  simp only [toLaurent_cons, toLaurent_nil, add_zero]
  have : (AddMonoidAlgebra.single (0 : ℤ) (1 : ℚ) : ℚ[T;T⁻¹]) = 1 := rfl
  rw [this, map_one, div_one]
  rfl

/-- substitution: the hypotheses of `subst_value` / `subst_ring_hom` hold for `h = z` -/
example := subst_ring_hom (f := f1) (g := g2) (h := zz) (by valid_tac) (by valid_tac) (by valid_tac) (by decide)
  (by rw [val_zz, evalQ_z]; exact ιD_ne_zero (by valid_tac))
  (by rw [val_zz, evalQ_z]; exact ιD_ne_zero (by valid_tac))

/-- expression trees: `(f1 + 2) / g1**-1 − f1(g2)` is defined and runs -/
example : ∃ h, (Expr.sub (.div (.add (.lit f1) (.scalar 2)) (.pow (.lit g1) (-1))) (.subst f1 (.lit g2))).run
    = .ok h ∧ Valid h := by
  obtain ⟨s, hs⟩ := Option.isSome_iff_exists.1
    (show (Expr.sub (.div (.add (.lit f1) (.scalar 2)) (.pow (.lit g1) (-1))) (.subst f1 (.lit g2))).value.isSome
      = true by decide +kernel)
  have hl : (Expr.sub (.div (.add (.lit f1) (.scalar 2)) (.pow (.lit g1) (-1))) (.subst f1 (.lit g2))).Lits Valid :=
    ⟨⟨⟨show Valid f1 by valid_tac, trivial⟩, show Valid g1 by valid_tac⟩,
      ⟨show Valid f1 by valid_tac, show Valid g2 by valid_tac⟩⟩
  obtain ⟨h, e, v, _⟩ := expression_trees _ s hl hs
  exact ⟨h, e, v⟩

/-- C05.2: the signal laws, instantiated and evaluated -/
example := sig_add (f := f1) (g := g2) (by causal_tac) (by causal_tac) [1, 2, 3]
example : (add f1 g2 >>= fun h => call h [1, 2, 3]).toOption = some [5/2, 23/4, 77/8] := by decide +kernel
example : addSig (apply f1 [1, 2, 3]) (apply g2 [1, 2, 3]) = [5/2, 23/4, 77/8] := by decide +kernel
example := sig_mul (f := f1) (g := g2) (by causal_tac) (by causal_tac) [1, 0, 0, 2]
example := sig_div_mul (f := f1) (g := g1) (by causal_tac) (by causal_tac) (by decide) [1, 2, 3]
/-- `f1/g1` is not causal (`g1` starts with a delay), `(f1/g1)·g1` is again -/
example : (truediv f1 g1).toOption.map isCausal = some false := by decide +kernel
example : (truediv f1 g1 >>= fun q => mul q g1 >>= fun r => call r [1, 2, 3]).toOption
    = (call f1 [1, 2, 3]).toOption := by decide +kernel
example := sig_pow (f := g2) (by causal_tac) 3 [1, 2, 3]
example : (C05.z >>= fun z' => pow z' (-2) >>= fun h => call h [1, 2, (3 : ℚ)]).toOption = some [0, 0, 1] := by
  decide +kernel
example := sig_equiv (f := f1) (g := f1) (by causal_tac) (by causal_tac) rfl [1, 2]

/-- C05.3 -/
example := cascade_eq_prod f1 [g1, g2] (by
  intro g hg; simp only [List.mem_cons, List.not_mem_nil, or_false] at hg
  rcases hg with rfl | rfl | rfl <;> causal_tac) [1, 2, 3]
example := parallel_eq_sum f1 [f1, g2] (by
  intro g hg; simp only [List.mem_cons, List.not_mem_nil, or_false] at hg
  rcases hg with rfl | rfl | rfl <;> causal_tac) [1, 2, 3]
example := cascade_polys f1 [g1] (by
  intro g hg; simp only [List.mem_cons, List.not_mem_nil, or_false] at hg
  rcases hg with rfl | rfl <;> valid_tac)
example := parallel_polys_no_shortcut f1 [g2] (by
  intro g hg; simp only [List.mem_cons, List.not_mem_nil, or_false] at hg
  rcases hg with rfl | rfl <;>
    exact ⟨by valid_tac, by unfold IsPoly; decide +kernel, by decide +kernel⟩) ⟨by decide +kernel, fun _ _ => trivial⟩
/-- without the shortcut the pair of `ParallelFilter` polynomials as coded is the sum … -/
example : (do let n ← parallelNumpoly [f1, g2]
              let d ← parallelDenpoly [f1, g2]
              let s ← sumFilters [f1, g2]
              pure (rEquiv (⟨n, d⟩ : ZF ℚ) s)) = Except.ok true := by decide +kernel

/-- C05.4 -/
example : C05.eq (⟨[(0, 1), (1, 1)], [(1, 2), (0, 1)]⟩ : ZF Rat) ⟨[(1, 1), (0, 1)], [(0, 1), (1, 2)]⟩ = true := by
  decide +kernel
example := eq_hash (K := ℚ) ⟨[(0, 1), (1, 1)], [(1, 2), (0, 1)]⟩ ⟨[(1, 1), (0, 1)], [(0, 1), (1, 2)]⟩
  ⟨by unfold WF; decide +kernel, by unfold WF; decide +kernel⟩ ⟨by unfold WF; decide +kernel, by unfold WF; decide +kernel⟩
  (by decide +kernel)

/-! ## C05.5 filter list OBJECTS: nested structures of any depth and any mixture of kinds

`FL K` is what a `CascadeFilter` / `ParallelFilter` can hold and be: a ZFilter, a number (cast by
`callables`), another callable (non-linear), or a filter list of such — of either kind, of a user
subclass, with 0 / 1 / many parts.  `FL.call` / `FL.polys` are the methods as coded (`polys` with the
repair of D22), `FL.applyS` / `FL.val` the specification by recursion on the structure: a cascade is the
composition / product, a parallel the sum.  `env i` is what the callable with identity `i` computes. -/

/-- **nested_call**: calling a nested structure whose ZFilters are causal gives the composition (cascade)
/ the sum (parallel) of the outputs of its parts, recursively — any depth, any mixture, empty lists
(identity / zeros), numbers and non-linear callables among the parts -/
theorem nested_call (env : ℕ → K → K) (o : FL K) (h : o.All Causal) (xs : List K) :
    o.call env xs = .ok (o.applyS env xs) :=
  (call_eq_aux env).1 o h xs

/-- the specification unfolds part by part: first part, then the rest of the same list -/
theorem nested_spec_unfold (env : ℕ → K → K) (k : Kind) (p : FL K) (t : FLs K) (xs : List K) :
    (k.par = false → (FL.node k (.cons p t)).applyS env xs = (FL.node k t).applyS env (p.applyS env xs)) ∧
    (FL.node ⟨false, k.sub⟩ .nil).applyS env xs = xs ∧
    (FL.node ⟨true, k.sub⟩ .nil).applyS env xs = xs.map (fun _ => 0) ∧
    (k.par = false → (FL.node k (.cons p t)).val = p.val * (FL.node k t).val) ∧
    (k.par = true → (FL.node k (.cons p t)).val = p.val + (FL.node k t).val) ∧
    (FL.node ⟨false, k.sub⟩ .nil : FL K).val = 1 ∧ (FL.node ⟨true, k.sub⟩ .nil : FL K).val = 0 := by
  refine ⟨fun h => ?_, rfl, rfl, fun h => ?_, fun h => ?_, ?_, ?_⟩
  · simp [FL.applyS, h, FLs.compS]
  · simp [FL.val, h, FLs.prodVal]
  · simp [FL.val, h, FLs.sumVal]
  · simp [FL.val, FLs.prodVal]
  · simp [FL.val, FLs.sumVal]

/-- **nested_structure_denotes**: for a structure of causal filters without an empty list and without a
non-linear part, `numpoly` / `denpoly` do not raise, they are the polynomials of ONE causal filter `h`
(already normalised: the constructor returns the pair unchanged) which denotes the product / sum of the
parts' denotations, recursively (`FL.val`), and calling `h` is calling the structure -/
theorem nested_structure_denotes (env : ℕ → K → K) (o : FL K) (hc : o.All Causal) (hf : o.Full) :
    ∃ nd h, o.polys = .ok nd ∧ ofPolys nd.1 nd.2 = .ok h ∧ h = ⟨nd.1, nd.2⟩ ∧ Causal h ∧ val h = o.val ∧
      ∀ xs, call h xs = o.call env xs := by
  obtain ⟨nd, e, c, v, a⟩ := (polys_aux env).1 o hc hf
  refine ⟨nd, ⟨nd.1, nd.2⟩, e, ofPolys_of_causal c, rfl, c, v, fun xs => ?_⟩
  rw [call_eq_apply c, a xs, nested_call env o hc xs]

/-- **constructor_rule** (`FilterList.__init__`): a lone filter object — a ZFilter or a filter list of
WHATEVER kind — is one part (never unpacked); a lone list / tuple / generator is unpacked; star-args are
the parts; so `K(P)`, `K(*[P])` and `K([P])` are the same object, and it denotes what `P` denotes
(the product / sum of one part is the part), in value and in output -/
theorem constructor_rule (env : ℕ → K → K) (k : Kind) (o : FL K) (ps : FLs K) (l : List (FL K)) :
    construct k [Arg.filt o] = some (.node k (.cons o .nil)) ∧
    construct k [Arg.iter ps] = some (.node k ps) ∧
    construct k (l.map Arg.filt) = some (.node k (FLs.ofList l)) ∧
    (FL.node k (.cons o .nil)).val = o.val ∧
    ∀ xs, (FL.node k (.cons o .nil)).applyS env xs = o.applyS env xs := by
  refine ⟨rfl, rfl, ?_, ?_, fun xs => ?_⟩
  · have hm : ∀ l : List (FL K), (l.map Arg.filt).mapM Arg.asPart = some l := by
      intro l
      induction l with
      | nil => rfl
      | cons a t ih => simp [List.mapM_cons, Arg.asPart, ih]
    match l with
    | [] => rfl
    | [a] => rfl
    | a :: b :: t =>
      have := hm (a :: b :: t)
      simp only [List.map_cons] at this
      simp only [construct, resolve, List.map_cons, this, Option.map_some]
  · by_cases hk : k.par = true <;> simp [FL.val, hk, FLs.prodVal, FLs.sumVal]
  · by_cases hk : k.par = true
    · simp only [FL.applyS, if_pos hk, FLs.sumS]
      exact addSig_zeros xs _ (FL.applyS_length env o xs)
    · simp [FL.applyS, hk, FLs.compS]

/-- **concat_denotes** (`a + b`, `a * n` results of `list` methods): the concatenation of two filter lists
is a filter list of the class of the LEFT operand (inside the wrappers of its user subclasses), and it
denotes the product (cascade) / sum (parallel) of what the two lists denote as that kind -/
theorem concat_denotes (env : ℕ → K → K) (k k' : Kind) (a b : FLs K) :
    ∃ o, Obj.add (.fl (.node k a)) (.fl (.node k' b)) = .ok (.fl o) ∧
      o.val = (if k.par then a.sumVal + b.sumVal else a.prodVal * b.prodVal) ∧
      ∀ xs, o.applyS env xs = (FL.node ⟨k.par, 0⟩ (a ++ b)).applyS env xs := by
  refine ⟨wrap k.par k.sub (a ++ b), rfl, ?_, fun xs => wrap_applyS env _ _ _ xs⟩
  rw [wrap_val]
  by_cases hk : k.par = true <;> simp [FL.val, hk, prodVal_append, sumVal_append]

/-- **obj_eq_ne_exclusive**: exactly one of `a == b`, `a != b` holds for EVERY pair of objects of the
model — ZFilters, numbers, functions, filter lists of either kind and of user subclasses, plain lists,
tuples — with `FilterList.__ne__` as coded (`type(self) != type(other) or list.__ne__(self, other)`,
`list.__ne__` looking for a pair of items that is not `==`) -/
theorem obj_eq_ne_exclusive (a b : Obj K) : Obj.ne a b = !Obj.eq a b := Obj.ne_eq_not_eq a b

/-- a cascade and a parallel with the same parts are different objects: `==` is False, `!=` is True, in
both operand orders; the same for a filter list and a plain list / tuple of its parts -/
theorem kinds_differ (ps : FLs K) (s s' : ℕ) (t : Bool) :
    Obj.eq (.fl (.node ⟨false, s⟩ ps)) (.fl (.node ⟨true, s'⟩ ps)) = false ∧
    Obj.ne (.fl (.node ⟨false, s⟩ ps)) (.fl (.node ⟨true, s'⟩ ps)) = true ∧
    Obj.eq (.fl (.node ⟨true, s'⟩ ps)) (.fl (.node ⟨false, s⟩ ps)) = false ∧
    Obj.ne (.fl (.node ⟨true, s'⟩ ps)) (.fl (.node ⟨false, s⟩ ps)) = true ∧
    Obj.eq (.fl (.node ⟨false, s⟩ ps)) (.plain t ps) = false ∧ Obj.ne (.fl (.node ⟨false, s⟩ ps)) (.plain t ps) = true ∧
    Obj.eq (.plain t ps) (.fl (.node ⟨false, s⟩ ps)) = false ∧ Obj.ne (.plain t ps) (.fl (.node ⟨false, s⟩ ps)) = true := by
  simp [Obj.eq, Obj.ne, FL.eq, FL.ne]

/-- **obj_eq_sound**: equal objects denote the same rational function and give the same output -/
theorem obj_eq_sound (env : ℕ → K → K) (a b : FL K) (ha : a.All Causal) (hb : b.All Causal) (h : a.eq b = true) :
    a.val = b.val ∧ ∀ xs, a.call env xs = b.call env xs := by
  have hv : ∀ o : FL K, o.All Causal → o.All Valid := by
    intro o
    refine (FL.joint (m1 := fun o => o.All Causal → o.All Valid) (m2 := fun ps => ps.All Causal → ps.All Valid)
      ?_ ?_ ?_ ?_ ?_ ?_).1 o
    · intro f h; simp only [FL.All] at h ⊢; exact h.1
    · intro c _; simp only [FL.All]
    · intro i _; simp only [FL.All]
    · intro k ps ih h; simp only [FL.All] at h ⊢; exact ih h
    · intro _; simp only [FLs.All]
    · intro p t ihp iht h; simp only [FLs.All] at h ⊢; exact ⟨ihp h.1, iht h.2⟩
  refine ⟨eq_val_aux.1 a b (hv a ha) (hv b hb) h, fun xs => ?_⟩
  rw [nested_call env a ha, nested_call env b hb, (eq_applyS_aux env).1 a b ha hb h xs]

/-- **obj_eq_hash**: equal objects hash equally — for the hashable sorts (ZFilters: the tuple of sorted
powers; numbers; functions); filter lists are unhashable: `hash` raises TypeError on both -/
theorem obj_eq_hash (a b : FL K) (ha : a.All fun f => WF f.num ∧ WF f.den) (hb : b.All fun f => WF f.num ∧ WF f.den)
    (h : a.eq b = true) : a.hash = b.hash ∧ ∀ k ps, (FL.node k ps : FL K).hash = .error .type :=
  ⟨FL.hash_of_eq a b ha hb h, fun _ _ => rfl⟩

/-- … and the code as it stands does **not** have the `numpoly` / `denpoly` property on nested structures
(defect D22): `ParallelFilter.numpoly` is `reduce(operator.add, self).numpoly` on the raw elements, and
`+` between two filter lists is list concatenation.  Witness `ParallelFilter(CascadeFilter(f, g),
CascadeFilter(h, k))`: as coded the polynomials are those of the cascade `f·g·h·k`, not of `f·g + h·k`;
the repaired `polys` gives the sum. -/
theorem parallel_of_lists_as_coded_wrong :
    ∃ o : FL Rat,
      (match o.polysC 64, o.polys, o.rval with
        | .ok (some c), .ok r, some s => (rEquiv (⟨c.1, c.2⟩ : ZF Rat) s, rEquiv (⟨r.1, r.2⟩ : ZF Rat) s)
        | _, _, _ => (true, false)) = (false, true) :=
  ⟨.node ⟨true, 0⟩ (.cons (.node ⟨false, 0⟩ (.cons (.leaf ⟨[(0, 1), (1, 1/2)], [(0, 1)]⟩)
      (.cons (.leaf ⟨[(0, 2), (2, -1)], [(0, 1), (1, -1/4)]⟩) .nil)))
    (.cons (.node ⟨false, 0⟩ (.cons (.leaf ⟨[(1, 1)], [(0, 1)]⟩) (.cons (.leaf ⟨[(0, 1)], [(0, 1), (1, 1/2)]⟩) .nil))) .nil)),
   by decide +kernel⟩

/-- **linearize_weights**: the pairs a term `v·x^k` is split into carry weights that add up to one — the
sum of the coefficients (the gain at `z = 1`) is kept — and an integer delay is left alone -/
theorem linearize_weights (t : FTerm K) :
    ((linPairs t).map (·.2)).sum = t.v ∧ (t.w = 0 → linPairs t = [(t.left, t.v)]) := by
  refine ⟨?_, fun h => by simp [linPairs, h]⟩
  unfold linPairs
  split
  · simp
  · simp only [List.map_cons, List.map_nil, List.sum_cons, List.sum_nil]; ring

/-- **pow_spellings**: an exponent spelled as `int` or `bool` takes the integer path; a `Fraction`
raises ValueError and a complex number TypeError whatever the filter; a `float` either raises (TypeError:
a polynomial with two or more terms) or returns exactly what the integer exponent returns -/
theorem pow_spellings (f : ZF K) (n : ℤ) :
    powSpelled f n .int = pow f n ∧ powSpelled f n .bool = pow f n ∧
    powSpelled f n .fraction = .error .value ∧ powSpelled f n .complex = .error .type ∧
    ∀ h, powSpelled f n .float = .ok h → pow f n = .ok h := by
  refine ⟨rfl, rfl, rfl, rfl, fun h e => ?_⟩
  have hp : ∀ (p : MPoly K) (m : ℤ) (q : MPoly K), polyPowFloat p m = .ok q → q = C07.pow p m := by
    intro p m q e
    unfold polyPowFloat at e
    split at e
    · cases e
    · exact (Except.ok.inj e).symm
  have hgo : ∀ (g : ZF K) (m : ℤ), (do
        let a ← polyPowFloat g.num m
        let b ← polyPowFloat g.den m
        ofPolys a b) = Except.ok h → ofPolys (C07.pow g.num m) (C07.pow g.den m) = .ok h := by
    intro g m e
    cases ha : polyPowFloat g.num m with
    | error err => rw [ha] at e; cases e
    | ok a =>
      cases hb : polyPowFloat g.den m with
      | error err => rw [ha, hb] at e; cases e
      | ok b =>
        rw [ha, hb] at e
        rw [← hp _ _ _ ha, ← hp _ _ _ hb]
        exact e
  unfold powSpelled at e
  unfold C05.pow
  simp only at e
  split at e
  · rename_i hc
    rw [if_pos hc]
    cases hr : ofPolys f.den f.num with
    | error err => rw [hr] at e; cases e
    | ok r =>
      rw [hr] at e
      show ofPolys (C07.pow r.num (-n)) (C07.pow r.den (-n)) = .ok h
      exact hgo r (-n) e
  · rename_i hc
    rw [if_neg hc]
    exact hgo f n e

/-! ### non-vacuity of C05.5 -/

/-- `CascadeFilter(ParallelFilter(f1, g2))`, `ParallelFilter(CascadeFilter(f1, g2), 2, CascadeFilter())` … -/
abbrev nP : FL ℚ := .node ⟨true, 0⟩ (.cons (.leaf f1) (.cons (.leaf g2) .nil))
abbrev nC : FL ℚ := .node ⟨false, 0⟩ (.cons (.leaf f1) (.cons (.leaf g2) .nil))
abbrev nCP : FL ℚ := .node ⟨false, 0⟩ (.cons nP .nil)
abbrev nMix : FL ℚ := .node ⟨true, 1⟩ (.cons nC (.cons (.num 2) (.cons (.node ⟨false, 0⟩ .nil) .nil)))
abbrev envQ : ℕ → ℚ → ℚ := fun i x => if i % 2 = 0 then x * x else x + 1

example : nCP.All Causal ∧ nCP.Full := by
  simp only [FL.All, FLs.All, FL.Full, FLs.Full]
  exact ⟨⟨⟨by causal_tac, by causal_tac, trivial⟩, trivial⟩, ⟨by simp, ⟨by simp, trivial, trivial, trivial⟩, trivial⟩⟩
example : (nCP.call envQ [1, 2, 3]).toOption = (nP.call envQ [1, 2, 3]).toOption ∧
    (nP.call envQ [1, 2, 3]).toOption = some [5/2, 23/4, 77/8] := by decide +kernel
example : (nMix.call envQ [1, 2, 3]).toOption = some [9/2, 21/2, 131/8] := by decide +kernel
example : (FL.node ⟨false, 0⟩ (.cons (.other 0) (.cons (.leaf f1) .nil)) : FL ℚ).call envQ [1, 2, 3]
    = .ok [1, 11/2, 63/4] := by decide +kernel
example : (FL.node ⟨false, 0⟩ (.cons (.other 0) (.cons (.leaf f1) .nil)) : FL ℚ).polys = .error .attribute := by
  decide +kernel
example : (FL.node ⟨true, 0⟩ (.cons (.node ⟨false, 0⟩ .nil) .nil) : FL ℚ).polys = .error .type := by decide +kernel
example := constructor_rule envQ ⟨false, 0⟩ nP (.cons (.leaf f1) .nil) [nP]
example : Obj.eq (.fl nC) (.fl nP) = false ∧ Obj.ne (.fl nC) (.fl nP) = true ∧ Obj.eq (.fl nC) (.fl nC) = true ∧
    Obj.ne (.fl nC) (.fl nC) = false := by decide +kernel
example := linearize_weights (K := ℚ) ⟨4, 1/4, 1⟩
example : (linearizeF [⟨0, -1/2, 2⟩, ⟨2, 0, 3⟩, ⟨4, 1/4, 1⟩] [⟨0, 0, (1 : ℚ)⟩]).toOption.map (fun h => h.num)
    = some [(0, 3), (1, -1), (2, 3), (4, 3/4), (5, 1/4)] := by decide +kernel
example : (powSpelled zz (-2) .float).toOption.map (fun h => h.num) = some [(2, 1)] := by decide +kernel
example : (powSpelled f1 2 .float).toOption.isNone = true ∧ (powSpelled f1 2 .int).toOption.isSome = true := by
  decide +kernel


/-! ## C05.6 (round 4) what is RUN is proved

The executable canonical-form specification the driver runs against the code (`rSum`, `rProd`, `rNorm`,
`lowKey`, `rCausal`), the remaining methods of filter list objects (`is_linear`, `len`), the fractional-delay
`linearize` as coded (dictionary accumulation, `int()` truncation), substitution of monomials with ANY gain
in closed form and against evaluation at points, and histories of MUTABLE filter lists. -/

/-- **spec_sum_prod**: the specification's "sum / product of the parts" are the sum / product in the field
of rational functions -/
theorem spec_sum_prod (fs : List (ZF K)) (h : ∀ f ∈ fs, C05.D f ≠ 0) :
    C05.D (rSum fs) ≠ 0 ∧ val (rSum fs) = (fs.map val).sum ∧
    C05.D (rProd fs) ≠ 0 ∧ val (rProd fs) = (fs.map val).prod :=
  ⟨(val_rSum fs h).1, (val_rSum fs h).2, (val_rProd fs h).1, (val_rProd fs h).2⟩

/-- **spec_lowKey**: `lowKey` of a canonical form is the order of the Laurent polynomial (`none` iff it is 0) -/
theorem spec_lowKey (p : MPoly K) :
    (lowKey (canon p) = none ↔ toLaurent p = 0) ∧
    ∀ k, lowKey (canon p) = some k → (toLaurent p).coeff k ≠ 0 ∧ ∀ j, j < k → (toLaurent p).coeff j = 0 :=
  ⟨lowKey_canon_none p, fun _ h => lowKey_canon_some h⟩

/-- **spec_norm**: `rNorm` fails exactly on the zero denominator; otherwise it returns the SAME element of
the fraction field, written with a denominator that starts at delay 0 -/
theorem spec_norm (f : ZF K) :
    (rNorm f = none ↔ C05.D f = 0) ∧
    ∀ g, rNorm f = some g → C05.D g ≠ 0 ∧ val g = val f ∧ (C05.D g).coeff 0 ≠ 0 ∧
      ∀ j, j < 0 → (C05.D g).coeff j = 0 :=
  ⟨rNorm_none_iff f, fun g h => ⟨(rNorm_some h).2.1, (rNorm_some h).2.2.1, (rNorm_some h).2.2.2.1, (rNorm_some h).2.2.2.2⟩⟩

/-- **causality_decided**: `rCausal` tests the numerator of the normalised pair; on every filter object with
a normalised denominator (all that the constructor returns) it is the model's `is_causal`, which decides
`Causal`; and the decision only depends on the rational function -/
theorem causality_decided {f : ZF K} (hf : Norm f) :
    (∀ s : ZF K, rCausal s = true ↔ ∃ g, rNorm s = some g ∧ isPolynomial g.num = true) ∧
    rCausal (rOf f) = isCausal f ∧ isCausal f = isPolynomial f.num ∧ (isCausal f = true ↔ Causal f) ∧
    ∀ g : ZF K, Norm g → f ≈ g → isCausal g = isCausal f := by
  refine ⟨fun s => ?_, rCausal_rOf hf, rfl, (causal_iff_isCausal hf).symm, fun g hg h => ?_⟩
  · rw [rCausal_iff]; simp only [isPoly_iff]
  · have hv := (equiv_iff_val hf.1 hg.1).1 h
    rw [Bool.eq_iff_iff, ← causal_iff_isCausal hg, ← causal_iff_isCausal hf]
    exact ⟨fun c => causal_of_val_eq hf.1 hf.2.1 hf.2.2 c hv, fun c => causal_of_val_eq hg.1 hg.2.1 hg.2.2 c hv.symm⟩

/-- **is_linear_rule** / **nonlinear_polys**: `is_linear()` by recursion on the structure; `numpoly` /
`denpoly` raise AttributeError only when a part is non-linear, never return polynomials then, and a parallel
with a non-linear part raises exactly AttributeError -/
theorem is_linear_rule (k : Kind) (p : FL K) (t : FLs K) (f : ZF K) (c : K) (i : ℕ) :
    (FL.leaf f).linear = true ∧ (FL.num c : FL K).linear = true ∧ (FL.other i : FL K).linear = false ∧
    (FL.node k (.cons p t)).linear = (p.linear && (FL.node k t).linear) ∧ (FL.node k .nil : FL K).linear = true := by
  refine ⟨rfl, rfl, rfl, ?_, rfl⟩
  simp [FL.linear, FLs.linear]

theorem nonlinear_polys (o : FL K) :
    (o.polys = .error .attribute → o.linear = false) ∧ (o.linear = false → ∀ nd, o.polys ≠ .ok nd) ∧
    (o.Full → o.linear = true) ∧
    (∀ s ps, (FL.node ⟨true, s⟩ ps : FL K).linear = false → (FL.node ⟨true, s⟩ ps).polys = .error .attribute) := by
  refine ⟨(polys_linear_aux.1 o).1, (polys_linear_aux.1 o).2, full_linear_aux.1 o, fun s ps h => ?_⟩
  simp only [FL.linear] at h
  simp [FL.polys, h, bind, Except.bind]

/-- **len_rule**: `len` counts the parts; concatenation adds, repetition multiplies — but the result of a
dunder of a USER SUBCLASS holds one part (the library-class result, `cls(super().__add__(other))`) -/
theorem len_rule (k k' : Kind) (a b : FLs K) (n : ℤ) :
    Obj.len (.fl (.node k a)) = some a.length ∧ a.length = a.toList.length ∧
    (a ++ b).length = a.length + b.length ∧
    (∃ o, Obj.add (.fl (.node k a)) (.fl (.node k' b)) = .ok o ∧
      o.len = some (if k.sub = 0 then a.length + b.length else 1)) ∧
    (∃ o, Obj.mulInt (.fl (.node k a)) n = .ok o ∧ o.len = some (if k.sub = 0 then n.toNat * a.length else 1)) := by
  refine ⟨rfl, FLs.length_toList a, FLs.length_append a b, ⟨_, rfl, ?_⟩, ⟨_, rfl, ?_⟩⟩
  · rw [len_wrap, FLs.length_append]
  · rw [len_wrap, FLs.length_rep]

/-- **linearize_accumulates** (`new_poly[key] += value` / `= value`): the loop keeps the keys distinct and adds
the monomial to what the dictionary denotes -/
theorem linearize_accumulates (d : List (ℤ × K)) (k : ℤ) (x : K) (h : (keys d).Nodup) :
    (keys (dictAdd d k x)).Nodup ∧ toLaurent (dictAdd d k x) = toLaurent d + AddMonoidAlgebra.single k x :=
  ⟨nodup_dictAdd h k x, toLaurent_dictAdd d k x⟩

/-- **linearize_fractional**: the result of `linearize()` is the LINEAR INTERPOLATION term by term — the
dictionaries denote `Σ v·((1−w)·x^left + w·x^(left+1))`; the constructor raises exactly when the interpolated
denominator is the zero polynomial, else the result denotes the quotient of the interpolated sums -/
theorem linearize_fractional (num den : List (FTerm K)) :
    (keys (linDict num)).Nodup ∧ toLaurent (linDict num) = (num.map termL).sum ∧
    ((den.map termL).sum = 0 → linearizeF num den = .error .value) ∧
    ((den.map termL).sum ≠ 0 → ∃ h, linearizeF num den = .ok h ∧ Valid h ∧
      val h = ι (num.map termL).sum / ι (den.map termL).sum) :=
  ⟨(linDict_spec num).1, (linDict_spec num).2, (linearizeF_den num den).1, (linearizeF_den num den).2⟩

/-- **linearize_truncation** (`left = int(k)`, as coded): the split is exact (`left + w = k`), so the two
weights add up to one and the MEAN delay `left·(1−w) + (left+1)·w` is `k`; for `k ≥ 0` both weights lie in
`[0, 1]` (interpolation between the neighbours `⌊k⌋`, `⌊k⌋+1`); for `k < 0` truncation goes TOWARD ZERO:
`left ≥ k`, `w ∈ (−1, 0]` — the weight of `left+1` is negative and that of `left` exceeds one: for a negative
fractional power the code extrapolates from the two integer delays above `k` -/
theorem linearize_truncation (k v : ℚ) :
    ((ftermOf k v).left : ℚ) + (ftermOf k v).w = k ∧ (ftermOf k v).v = v ∧
    ((ftermOf k v).left : ℚ) * (1 - (ftermOf k v).w) + (((ftermOf k v).left : ℚ) + 1) * (ftermOf k v).w = k ∧
    (0 ≤ k → 0 ≤ (ftermOf k v).w ∧ (ftermOf k v).w < 1) ∧
    (k < 0 → -1 < (ftermOf k v).w ∧ (ftermOf k v).w ≤ 0) ∧
    ((ftermOf k v).w = 0 → linPairs (ftermOf k v) = [((ftermOf k v).left, v)]) := by
  refine ⟨by simp [ftermOf], rfl, by simp only [ftermOf]; ring, fun h => ?_, fun h => ?_, fun h => ?_⟩
  · obtain ⟨h1, h2⟩ := truncZ_nonneg h
    simp only [ftermOf]; constructor <;> linarith
  · obtain ⟨h1, h2⟩ := truncZ_neg h
    simp only [ftermOf]; constructor <;> linarith
  · have h' : k - ((truncZ k : ℤ) : ℚ) = 0 := h
    simp [linPairs, ftermOf, h']

/-- … witness of the extrapolation: `z**0.5` (power `−1/2` of `z⁻¹`) becomes `1.5 − 0.5·z⁻¹` -/
theorem linearize_negative_fraction_extrapolates :
    linPairs (ftermOf (-1/2) 1) = [(0, 3/2), (1, -1/2)] := by decide +kernel

/-- **linearize_rational_powers**: the run entry — (power, coefficient) pairs with rational powers, sorted as
`terms()` does — is `linearizeF` on the split terms, and the order of the terms does not matter for what the
result denotes -/
theorem linearize_rational_powers (num den : List (ℚ × ℚ)) :
    linearizeQ num den = linearizeF (ftermsOf num) (ftermsOf den) ∧
    ((ftermsOf num).map termL).sum = (num.map fun kv => termL (ftermOf kv.1 kv.2)).sum := by
  refine ⟨rfl, ?_⟩
  unfold ftermsOf
  rw [List.map_map]
  exact ((List.mergeSort_perm num _).map _).sum_eq

/-- **subst_monomial**: `f(c·z^(−d))` for EVERY gain `c ≠ 0` and delay `d ≠ 0` (`f(2*z)`, `f(0.5*z**-1)`,
`f(Fraction(1,3)*z**-2)`) runs and is the closed form: the coefficient `v` of `z^(−k)` picks up `c^(−k)` and
moves to `z^(d·k)`, in numerator and denominator; no condition on `f` is needed (the substituted denominator
cannot vanish) -/
theorem subst_monomial {f : ZF K} (hf : Valid f) {c : K} (hc : c ≠ 0) {d : ℤ} (hd : d ≠ 0) :
    ∃ r, subst f (monoZF c d) = .ok r ∧ Valid r ∧
      toLaurent (monoSubst f.den c d) ≠ 0 ∧
      r ≈ (⟨monoSubst f.num c d, monoSubst f.den c d⟩ : ZF K) := by
  obtain ⟨r, e, hv, ev⟩ := subst_mono_den hf hc hd
  have hne := monoSubst_ne_zero hf.2.1 hf.2.2 hc hd
  refine ⟨r, e, hv, hne, ?_⟩
  unfold val at ev
  rw [div_eq_div_iff (ιD_ne_zero hv) (fun e0 => hne (ι_eq_zero.1 e0)), ← map_mul, ← map_mul] at ev
  exact ι_inj ev

/-- **subst_monomial_point**: exact evaluation — `f(g)(z0) = f(g(z0))` at every point `z0 ≠ 0` where the two
denominators do not vanish, `g = c·z^(−d)` -/
theorem subst_monomial_point {f : ZF K} (hf : Valid f) {c : K} (hc : c ≠ 0) {d : ℤ} (hd : d ≠ 0)
    {r : ZF K} (e : subst f (monoZF c d) = .ok r) (z0 : K) (hz : z0 ≠ 0)
    (hr0 : evalAt r.den z0 ≠ 0) (hf0 : evalAt f.den (c * z0 ^ (-d)) ≠ 0) :
    evalZF r z0 = evalComp f (monoZF c d) z0 ∧ evalComp f (monoZF c d) z0 = evalZF f (c * z0 ^ (-d)) := by
  obtain ⟨r', e', hv, ev⟩ := subst_mono_den hf hc hd
  obtain rfl : r' = r := by rw [e] at e'; exact (Except.ok.inj e').symm
  have hne := monoSubst_ne_zero hf.2.1 hf.2.2 hc hd
  have hw : c * z0 ^ (-d) ≠ 0 := mul_ne_zero hc (zpow_ne_zero _ hz)
  have hcomp : evalComp f (monoZF c d) z0 = evalZF f (c * z0 ^ (-d)) := by
    have h1 : evalAt (monoZF c d).den z0 = 1 := by simp [evalAt_eq, monoZF]
    have h2 : evalAt (monoZF c d).num z0 = c * z0 ^ (-d) := by simp [evalAt_eq, monoZF]
    have eg : evalZF (monoZF c d) z0 = some (c * z0 ^ (-d)) := by
      unfold evalZF; rw [h1, h2]; simp
    unfold evalComp
    rw [eg]
    simp only [if_neg hw]
  refine ⟨?_, hcomp⟩
  rw [hcomp]
  have hs0 : evalAt (monoSubst f.den c d) z0 ≠ 0 := by rw [evalAt_monoSubst _ _ _ _ hz]; exact hf0
  rw [evalZF_of_val_eq (s := ⟨monoSubst f.num c d, monoSubst f.den c d⟩) (D_ne_zero hv) hne ev z0 hz hr0 hs0]
  unfold evalZF
  simp only [evalAt_monoSubst _ _ _ _ hz]

/-- **hist_reads_current**: filter lists are mutable lists and nothing is cached — in every history of one
object (parts replaced in place by `obj[i] = g`, `obj[:] = […]`, `append`, `extend` between reads), every read
of `numpoly` / `denpoly` / `numlist` / `denlist` / call returns what the CURRENT parts give; the mutations that
came before matter only through the parts they left -/
theorem hist_reads_current (env : ℕ → K → K) (k : Kind) (ps qs : FLs K) (pre post : List (Ev K)) (e : Ev K)
    (he : e.isRead = true) (hq : afterEvs ps pre = some qs)
    (a b : List (Obs K)) (ha : runHist env k ps pre = some a) (hb : runHist env k qs post = some b) :
    runHist env k ps (pre ++ e :: post) = some (a ++ readObs env k qs e :: b) ∧
    afterEvs ps (pre ++ e :: post) = afterEvs qs post := by
  have hr : runHist env k qs (e :: post) = some (readObs env k qs e :: b) := by
    cases e with
    | act m => simp [Ev.isRead] at he
    | polys => simp [runHist, hb]
    | lists => simp [runHist, hb]
    | call xs => simp [runHist, hb]
  constructor
  · rw [runHist_append, ha, hq]; simp [hr]
  · rw [afterEvs_append, hq]
    cases e with
    | act m => simp [Ev.isRead] at he
    | polys => simp [afterEvs]
    | lists => simp [afterEvs]
    | call xs => simp [afterEvs]

/-- … the shortest such history: read, replace the part at index `i`, read again — the second read is that of
the list with the new part -/
theorem hist_replace_part (env : ℕ → K → K) (k : Kind) (ps : FLs K) (i : ℤ) (n : ℕ) (g : FL K)
    (hi : pyIndex ps.length i = some n) :
    runHist env k ps [.polys, .act (.setItem i g), .polys] =
      some [.polys (FL.polys (.node k ps)), .polys (FL.polys (.node k (ps.set n g)))] := by
  simp [runHist, Mut.apply, hi, readObs]

/-- … and a cache of the sum under `hash(tuple(self))` does **not** have that property (the change seeded in
round 4): whenever the replacement leaves the key unchanged, the second read returns the OLD polynomials,
whatever the new part is -/
theorem hist_cache_by_hash_stale (s : ℕ) (ps : FLs K) (i : ℤ) (n : ℕ) (g : FL K) (nd : MPoly K × MPoly K)
    (hi : pyIndex ps.length i = some n) (hl : ps.linear = true) (hl' : (ps.set n g).linear = true)
    (hp : FL.polys (.node ⟨true, s⟩ ps) = .ok nd) (key : List (HKey K)) (hk : cacheKey ps = .ok key)
    (hk' : cacheKey (ps.set n g) = .ok key) :
    runHistCached ⟨true, s⟩ ps none [.polys, .act (.setItem i g), .polys] = some [.ok nd, .ok nd] := by
  simp [runHistCached, polysCached, Mut.apply, hi, hl, hl', hp, hk, hk']

/-- `LinearFilter.__hash__` hashes only the POWERS: a filter with the same powers and other coefficients
leaves the key unchanged, and the stale polynomials are not those of the current parts.  Witness
`ParallelFilter(1 + z⁻¹)`, `p[0] = 1 + 2z⁻¹`. -/
theorem hist_cache_by_hash_refuted :
    ∃ (ps : FLs ℚ) (g : FL ℚ) (key : List (HKey ℚ)) (nd fresh : MPoly ℚ × MPoly ℚ),
      ps.linear = true ∧ (ps.set 0 g).linear = true ∧ cacheKey ps = .ok key ∧ cacheKey (ps.set 0 g) = .ok key ∧
      FL.polys (.node ⟨true, 0⟩ ps) = .ok nd ∧ FL.polys (.node ⟨true, 0⟩ (ps.set 0 g)) = .ok fresh ∧
      rEquiv (⟨nd.1, nd.2⟩ : ZF ℚ) ⟨fresh.1, fresh.2⟩ = false := by
  have hs : ∀ l : MPoly ℚ, Ascending l → sortAsc l = l := fun l h => sortAsc_of_ascending h
  have h1 : sortAsc ([(0, 1), (1, 1)] : MPoly ℚ) = [(0, 1), (1, 1)] := hs _ (by unfold Ascending; decide)
  have h2 : sortAsc ([(0, 1), (1, 2)] : MPoly ℚ) = [(0, 1), (1, 2)] := hs _ (by unfold Ascending; decide)
  have h3 : sortAsc ([(0, 1)] : MPoly ℚ) = [(0, 1)] := hs _ (by unfold Ascending; decide)
  refine ⟨.cons (.leaf ⟨[(0, 1), (1, 1)], [(0, 1)]⟩) .nil, .leaf ⟨[(0, 1), (1, 2)], [(0, 1)]⟩, [.powers [0, 1, 0]],
    ([(0, 1), (1, 1)], [(0, 1)]), ([(0, 1), (1, 2)], [(0, 1)]), by decide, by decide, ?_, ?_,
    by decide +kernel, by decide +kernel, by decide +kernel⟩
  · simp [cacheKey, FLs.toList, FL.hash, C05.hashKey, h1, h3, keys]
  · simp [cacheKey, FLs.toList, FLs.set, FL.hash, C05.hashKey, h2, h3, keys]

/-! ### non-vacuity of C05.6 -/

example := spec_sum_prod (K := ℚ) [f1, g2] (by
  intro f hf; simp only [List.mem_cons, List.not_mem_nil, or_false] at hf
  rcases hf with rfl | rfl <;> exact D_ne_zero (by valid_tac))
example : (rNorm (⟨[(1, 2)], [(1, 1), (3, 3)]⟩ : ZF ℚ)).map (fun h => (h.num, h.den)) = some ([(0, 2)], [(0, 1), (2, 3)]) := by
  decide +kernel
example : rCausal (⟨[(0, 2)], [(1, 1), (3, 3)]⟩ : ZF ℚ) = false ∧ rCausal (rOf g1) = true := by decide +kernel
example := causality_decided (f := g1) ⟨by valid_tac, by unfold IsPoly; decide +kernel, by decide +kernel⟩
example : (FL.node ⟨true, 0⟩ (.cons (.other 0) (.cons (.leaf f1) .nil)) : FL ℚ).linear = false := by decide +kernel
example : (FL.node ⟨true, 0⟩ (.cons (.other 0) (.cons (.leaf f1) .nil)) : FL ℚ).polys = .error .attribute :=
  (nonlinear_polys (FL.leaf f1)).2.2.2 0 (.cons (.other 0) (.cons (.leaf f1) .nil)) (by decide +kernel)
example : (Obj.add (.fl (.node ⟨false, 1⟩ (.cons (.leaf f1) .nil))) (.fl nC)).toOption.bind Obj.len = some 1 ∧
    (Obj.add (.fl nC) (.fl nP)).toOption.bind Obj.len = some 4 := by decide +kernel
example := linearize_fractional (K := ℚ) [⟨0, -1/2, 2⟩, ⟨2, 0, 3⟩, ⟨4, 1/4, 1⟩] [⟨0, 0, 1⟩]
example : [ftermOf (17/4) 1, ftermOf (-9/4) 1, ftermOf (-2) 3].map (fun t => (t.left, t.w, t.v))
    = [(4, 1/4, 1), (-2, -1/4, 1), (-2, 0, 3)] := by decide +kernel
example := subst_monomial (f := f1) (by valid_tac) (c := 2) (by norm_num) (d := -1) (by decide)
/-- `f1(2z)`: `(1 + z⁻¹)/(1 − z⁻¹/2)` at `2z` is `(1 + z⁻¹/2)/(1 − z⁻¹/4)` -/
example : (monoSubst f1.num 2 (-1), monoSubst f1.den 2 (-1)) = ([(0, 1), (1, 1/2)], [(0, 1), (1, -1/4)]) := by
  decide +kernel
/-- `f1((1/3)·z⁻²)` at `z0 = 2`: `g(z0) = 1/12`, `f1(1/12) = 13/(−5) ` -/
example : evalComp f1 (monoZF (1/3) 2) 2 = some (-13/5) ∧
    evalZF ⟨monoSubst f1.num (1/3) 2, monoSubst f1.den (1/3) 2⟩ 2 = some (-13/5) := by decide +kernel
example := hist_replace_part (K := ℚ) envQ ⟨true, 0⟩ (.cons (.leaf f1) (.cons (.leaf g2) .nil)) (-1) 1 (.leaf g1) (by decide)
example : (runHist envQ ⟨true, 0⟩ (.cons (.leaf f1) .nil) [.polys, .act (.setItem 0 (.leaf g1)), .polys, .lists, .call [1, 2]]).map
    List.length = some 4 := by decide +kernel

/-! ## C05.S the model IS the source: definitions regenerated from `lazy_filters.py` on every run

`ALV/Gen/C05Src.lean` is written by the translator `harness/props/c05_tr.py` from the source text of the repo under
test (one definition per method and kind of argument).  Each theorem states that the regenerated definition equals
the hand-written model function all the theorems above are about — for every number type (no field needed). -/
section Src
variable {α : Type} [Add α] [Mul α] [Sub α] [Neg α] [Div α] [OfNat α 0] [OfNat α 1] [DecidableEq α]
local notation "R" => Except PyErr (ZF α)

/-- `LinearFilter.__init__` (coefficients branch): copy, minimum power, normalisation by `Poly([0, 1]) ** -power` -/
theorem src_ofPolys_is_model : (ALV.Gen.C05.ofPolys : MPoly α → MPoly α → R) = ALV.C05.ofPolys := Src.ofPolys_is_model
/-- `ZFilter([c])`: the default denominator `{0: 1}` of the signature -/
theorem src_ofScalar_is_model (c : α) :
    ALV.Gen.C05.ofPolys (C07.ofList [c]) ALV.Gen.C05.defaultDen = ALV.C05.ofScalar c := Src.ofScalar_is_model c
theorem src_z_is_model : (ALV.Gen.C05.z : R) = ALV.C05.z := Src.z_is_model
theorem src_eq_is_model : (ALV.Gen.C05.eq : ZF α → ZF α → Bool) = ALV.C05.eq := Src.eq_is_model
/-- `LinearFilter.__ne__` as coded today is the repaired shape `not (self == other)` (defect D2 stays repaired) -/
theorem src_ne_is_model : (ALV.Gen.C05.ne : ZF α → ZF α → Bool) = ALV.C05.neFixed := Src.ne_is_model
theorem src_eqNumber_is_model (f : ZF α) (c : α) : ALV.Gen.C05.eqNumber f c = FL.eq (.leaf f) (.num c) :=
  Src.eqNumber_is_model f c
theorem src_hashKey_is_model : (ALV.Gen.C05.hashKey : ZF α → List Int) = ALV.C05.hashKey := Src.hashKey_is_model
theorem src_neg_is_model : (ALV.Gen.C05.neg : ZF α → R) = ALV.C05.neg := Src.neg_is_model
theorem src_pos_is_model : (ALV.Gen.C05.pos : ZF α → R) = ALV.C05.pos := Src.pos_is_model
/-- `ZFilter.__add__` on two filters: same-denominator shortcut, else the cross-multiplied sum -/
theorem src_add_is_model : (ALV.Gen.C05.add : ZF α → ZF α → R) = ALV.C05.add := Src.add_is_model
theorem src_addScalar_is_model : (ALV.Gen.C05.addScalar : ZF α → α → R) = ALV.C05.addScalar := Src.addScalar_is_model
theorem src_sub_is_model : (ALV.Gen.C05.sub : ZF α → ZF α → R) = ALV.C05.sub := Src.sub_is_model
theorem src_subScalar_is_model : (ALV.Gen.C05.subScalar : ZF α → α → R) = ALV.C05.subScalar := Src.subScalar_is_model
theorem src_mul_is_model : (ALV.Gen.C05.mul : ZF α → ZF α → R) = ALV.C05.mul := Src.mul_is_model
theorem src_mulScalar_is_model : (ALV.Gen.C05.mulScalar : ZF α → α → R) = ALV.C05.mulScalar := Src.mulScalar_is_model
theorem src_truediv_is_model : (ALV.Gen.C05.truediv : ZF α → ZF α → R) = ALV.C05.truediv := Src.truediv_is_model
/-- `self / number`: `operator.truediv(1, other)` raises before anything is built -/
theorem src_divScalar_is_model : (ALV.Gen.C05.divScalar : ZF α → α → R) = ALV.C05.divScalar := Src.divScalar_is_model
theorem src_raddScalar_is_model : (ALV.Gen.C05.raddScalar : α → ZF α → R) = ALV.C05.raddScalar := Src.raddScalar_is_model
theorem src_rsubScalar_is_model : (ALV.Gen.C05.rsubScalar : α → ZF α → R) = ALV.C05.rsubScalar := Src.rsubScalar_is_model
theorem src_rmulScalar_is_model : (ALV.Gen.C05.rmulScalar : α → ZF α → R) = ALV.C05.rmulScalar := Src.rmulScalar_is_model
theorem src_rdivScalar_is_model : (ALV.Gen.C05.rdivScalar : α → ZF α → R) = ALV.C05.rdivScalar := Src.rdivScalar_is_model
/-- `ZFilter.__pow__` calls `**` again on the flipped filter: the regenerated body run with ANY recursion budget of
at least 2 is the model (which has the second call inlined) -/
theorem src_pow_is_model (k : ℕ) (f : ZF α) (n : ℤ) : ALV.Gen.C05.powFuel (k + 2) f n = ALV.C05.pow f n :=
  Src.powFuel_is_model k f n
theorem src_pow_is_model' : (ALV.Gen.C05.pow : ZF α → ℤ → R) = ALV.C05.pow := Src.pow_is_model
/-- `ZFilter.__call__` with a ZFilter: the quotient of the two `sum(v * seq ** -k …)` -/
theorem src_subst_is_model : (ALV.Gen.C05.subst : ZF α → ZF α → R) = ALV.C05.subst := Src.subst_is_model
/-- a `LinearFilter` that is not a `ZFilter` on the right; a ZFilter reaching a reflected operator -/
theorem src_foreign_is_model (f g : ZF α) (op : BinOp) :
    ALV.Gen.C05.addForeign f = .error (opForeign .add) ∧ ALV.Gen.C05.subForeign f = .error (opForeign .sub) ∧
    ALV.Gen.C05.mulForeign f = .error (opForeign .mul) ∧ ALV.Gen.C05.divForeign f = .error (opForeign .div) ∧
    ALV.Gen.C05.ropZFilter f g = .error (ropZFilter op) :=
  ⟨rfl, rfl, rfl, rfl, rfl⟩

/-! the filter list classes (`FilterList.__init__` / `__eq__` / `__ne__`, `CascadeFilter.numpoly` / `denpoly`,
`ParallelFilter._sum_filter` / `numpoly` / `denpoly`).  The source of the polynomial properties is a FLAT `reduce` over
the parts; the model `FL.polys` is a mutual recursion with accumulators: the theorems are stated on the flat form, fed
with what the model gives for each part (`ps.toList.map FL.polys`, computed lazily, part by part). -/
/-- `FilterList.__init__`: one argument that is iterable and not callable is unpacked, else the tuple of arguments -/
theorem src_filterlist_init_is_model :
    (ALV.Gen.C05.filterListInit : List (Arg α) → Option (FLs α)) = resolve := Src.filterListInit_is_model
/-- `cls(*filters)` -/
theorem src_filterlist_construct_is_model :
    (ALV.Gen.C05.construct : Kind → List (Arg α) → Option (FL α)) = ALV.C05.construct := Src.construct_is_model
/-- `FilterList.__eq__`: `type(self) == type(other) and list.__eq__(self, other)` -/
theorem src_filterlist_eq_is_model (k k' : Kind) (a b : FLs α) :
    ALV.Gen.C05.flEq k k' a b = FL.eq (.node k a) (.node k' b) := Src.flEq_is_model k k' a b
/-- `FilterList.__ne__`: `type(self) != type(other) or list.__ne__(self, other)` -/
theorem src_filterlist_ne_is_model (k k' : Kind) (a b : FLs α) :
    ALV.Gen.C05.flNe k k' a b = FL.ne (.node k a) (.node k' b) := Src.flNe_is_model k k' a b
/-- `CascadeFilter.numpoly` / `denpoly`: `reduce(operator.mul, (filt.numpoly for filt in self.callables))` -/
theorem src_cascade_numpoly_is_model (s : ℕ) (ps : FLs α) :
    ALV.Gen.C05.cascadeNumpoly (ps.toList.map FL.polys) = (FL.polys (.node ⟨false, s⟩ ps)).map Prod.fst :=
  Src.cascadeNumpoly_is_model s ps
theorem src_cascade_denpoly_is_model (s : ℕ) (ps : FLs α) :
    ALV.Gen.C05.cascadeDenpoly (ps.toList.map FL.polys) = (FL.polys (.node ⟨false, s⟩ ps)).map Prod.snd :=
  Src.cascadeDenpoly_is_model s ps
/-- `ParallelFilter._sum_filter`: `reduce(operator.add, (ZFilter(filt.numpoly, filt.denpoly) for filt in self.callables))` -/
theorem src_parallel_sum_filter_is_model (ps : FLs α) :
    ALV.Gen.C05.sumFilter (ps.toList.map FL.polys) = (ps.sumF none >>= fun o => match o with
      | none => .error .type
      | some h => pure h) := Src.sumFilter_is_model ps
/-- `ParallelFilter.numpoly` / `denpoly` as coded since the repair of D22 -/
theorem src_parallel_numpoly_is_model (s : ℕ) (ps : FLs α) :
    ALV.Gen.C05.parallelNumpoly ps.linear (ps.toList.map FL.polys) = (FL.polys (.node ⟨true, s⟩ ps)).map Prod.fst :=
  Src.parallelNumpoly_is_model s ps
theorem src_parallel_denpoly_is_model (s : ℕ) (ps : FLs α) :
    ALV.Gen.C05.parallelDenpoly ps.linear (ps.toList.map FL.polys) = (FL.polys (.node ⟨true, s⟩ ps)).map Prod.snd :=
  Src.parallelDenpoly_is_model s ps

/-- hence every theorem about the model speaks about the regenerated code, e.g. totality on valid filters -/
theorem src_operators_total {f g : ZF K} (hf : Valid f) (hg : Valid g) :
    (∃ h, ALV.Gen.C05.add f g = .ok h ∧ Valid h) ∧ (∃ h, ALV.Gen.C05.mul f g = .ok h ∧ Valid h) ∧
    (∃ h, ALV.Gen.C05.pow f 3 = .ok h ∧ Valid h) := by
  rw [src_add_is_model, src_mul_is_model, src_pow_is_model']
  exact ⟨(operators_total hf hg 0 3).1, (operators_total hf hg 0 3).2.2.1, (operators_total hf hg 0 3).2.2.2.2.2.1⟩
end Src

end ALV.Props.C05

#write_audit "C05"
