/-
  C05 — property theorems: filter algebra is system algebra.
  Only statements of the property, non-vacuity examples and the audit live here; helper lemmas
  are in `ALV.Lemmas.C05*`.
-/
import ALV.Lemmas.C07Hash
import ALV.Spec.C05
import ALV.Common.Audit

set_option linter.unusedSectionVars false
namespace ALV.Props.C05
open ALV.C07 ALV.C05
variable {K : Type} [Field K] [DecidableEq K]

/-! ### C05.4 `==`, `!=`, `hash` -/

/-- **C05.4a** (`eq_ne_exclusive`): with `!=` defined as the negation of `==` (the repair proposed
for D2) exactly one of `f == g`, `f != g` holds, for every pair of filters. -/
theorem eq_ne_exclusive (f g : ZF K) : neFixed f g = !C05.eq f g := rfl

/-- … and the code as it stands does **not** have that property (defect D2): `!=` is
`num != num' and den != den'`, so two filters that differ in the numerator only are neither
`==` nor `!=`.  Witness: `1 + z⁻¹` and `1 + 2 z⁻¹`. -/
theorem ne_as_coded_not_exclusive :
    ∃ f g : ZF Rat, C05.eq f g = false ∧ C05.ne f g = false :=
  ⟨⟨[(0, 1), (1, 1)], [(0, 1)]⟩, ⟨[(0, 1), (1, 2)], [(0, 1)]⟩, by decide +kernel, by decide +kernel⟩

/-- as coded, `!=` is the negation of `==` exactly when the filters do not differ in one
polynomial only -/
theorem ne_as_coded_iff (f g : ZF K) :
    C05.ne f g = !C05.eq f g ↔ (C07.eq f.num g.num = C07.eq f.den g.den) := by
  unfold C05.ne C05.eq C07.ne
  cases C07.eq f.num g.num <;> cases C07.eq f.den g.den <;> simp

/-- **C05.4b** (`eq_hash`): equal filters hash equally — `__hash__` hashes the tuple of the sorted
powers of both polynomials, and `==` filters hold the same set of (power, coefficient) items. -/
theorem eq_hash (f g : ZF K) (hf : WF f.num ∧ WF f.den) (hg : WF g.num ∧ WF g.den)
    (h : C05.eq f g = true) : hashKey f = hashKey g := by
  unfold C05.eq at h
  rw [Bool.and_eq_true] at h
  have h1 := hashKey_eq_of_perm hf.1.1 (perm_of_eq hf.1.1 hg.1.1 h.1)
  have h2 := hashKey_eq_of_perm hf.2.1 (perm_of_eq hf.2.1 hg.2.1 h.2)
  unfold C07.hashKey at h1 h2
  unfold C05.hashKey
  rw [h1, h2]

example : C05.eq (⟨[(0, 1), (1, 1)], [(1, 2), (0, 1)]⟩ : ZF Rat) ⟨[(1, 1), (0, 1)], [(0, 1), (1, 2)]⟩ = true := by
  decide +kernel

end ALV.Props.C05

#write_audit "C05"
