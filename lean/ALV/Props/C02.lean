/-
  C02 — "Everything is lazy": property theorems.
  Only statements of the property, non-vacuity examples and the audit live here;
  helper lemmas are in `ALV.Lemmas.Stage` (generic), `ALV.Lemmas.C02*` (per stage).

  Reading guide.  A stage is `ALV.Stage` (prologue `pre`, one read per loop iteration
  `onItem`, epilogue `onEnd`).  `S.pulls xs K` runs the generator protocol (`next()` K times)
  and lists the source pull counter after every call; `S.need xs k` is the least number of
  items of `xs` whose emission reaches `k` outputs; `needOf`/`needOfChain` are the closed forms
  of the property text (`ALV.Spec.C02`).  All statements hold for every source, every `k`,
  every parameter in the stated range, every chain depth; sources may be endless (`Seq`).
-/
import ALV.Lemmas.C02Top
import ALV.Lemmas.C02Stop
import ALV.Lemmas.C02Chain
import ALV.Lemmas.C02Round
import ALV.Lemmas.C02Two
import ALV.Lemmas.C02Src
import ALV.Lemmas.C02Hist
import ALV.Common.Audit

namespace ALV.Props.C02
open ALV ALV.Stage ALV.C02
variable {ι ο π σ τ α β : Type}

/-! ## 1. Construction reads nothing -/

/-- **C02.1** Building a stage (`Stage.start`: the generator object exists, its body has not
run) has pulled no source item, whatever the stage; and as long as no output is demanded
(`K = 0`) nothing is pulled. -/
theorem construction_reads_nothing (S : Stage ι ο σ) (xs : List ι) :
    S.start.nread = 0 ∧ S.pulls xs 0 = [] := ⟨rfl, rfl⟩

/-! ## 2. Demand-driven reading: the protocol pulls exactly `need k` items -/

/-- **C02.2a** The generator protocol (`demand`: pop a pending output, else pull ONE item and run
the loop body) delivers the stage's outputs, and the pull counter after the `k`-th `next()`
is the `k`-th entry of `runReads`. -/
theorem protocol_delivers (S : Stage ι ο σ) (xs : List ι) (K : Nat) :
    S.outs xs K = (S.run xs).take K ∧ S.pulls xs K = (S.runReads xs).take K :=
  ⟨outs_eq S xs K, pulls_eq S xs K⟩

/-- **C02.2b** While the source has not ended, the pull counter at output `k+1` is `need (k+1)`. -/
theorem reads_eq_need (S : Stage ι ο σ) (xs : List ι) (k : Nat) :
    (S.reads xs)[k]? = S.need xs (k + 1) := reads_getElem S xs k

/-- **C02.2c** `need` is the least sufficient prefix: that prefix yields `k` outputs, no shorter
one does. -/
theorem need_least (S : Stage ι ο σ) (xs : List ι) (k j : Nat) (h : S.need xs k = some j) :
    j ≤ xs.length ∧ k ≤ (S.emit (xs.take j)).length ∧
      ∀ j', j' < j → (S.emit (xs.take j')).length < k :=
  (need_spec S xs k j).1 h

theorem need_mono (S : Stage ι ο σ) (xs : List ι) {k k' j j' : Nat} (hk : k ≤ k')
    (h : S.need xs k = some j) (h' : S.need xs k' = some j') : j ≤ j' :=
  Stage.need_mono S xs hk h h'

/-- **C02.2d** Outputs only grow when more of the source is read. -/
theorem emit_prefix (S : Stage ι ο σ) {xs ys : List ι} (h : xs <+: ys) :
    S.emit xs <+: S.emit ys := Stage.emit_prefix S h

/-- **C02.2e** Non-interference: the first `k` outputs and the number of reads they cost are a
function of the first `need k` source items; whatever follows (more items, the end, an item
that would raise when read) is never touched. -/
theorem nonInterference (S : Stage ι ο σ) (xs ys : List ι) (k j : Nat)
    (hn : S.need xs k = some j) (hagree : xs.take j = ys.take j) :
    S.need ys k = some j ∧ (S.run ys).take k = (S.run xs).take k :=
  Stage.nonInterference S xs ys k j hn hagree

/-- **C02.2f** The same for possibly endless sources: if `s` and `t` agree on the first `j` items
and `j` items of `s` are what `k` outputs need, then on `t` the same `k` outputs come out after
the same `j` reads, however far either source is explored. -/
theorem nonInterference_seq (S : Stage ι ο σ) (s t : Seq ι) (k j n m : Nat)
    (hn : S.need (s.take n) k = some j) (hagree : Seq.agreeUpTo j s t)
    (hm : j ≤ m) (hjn : j ≤ n) (hlen : (s.take j).length = j) :
    S.need (t.take m) k = some j ∧ (S.run (t.take m)).take k = (S.run (s.take n)).take k := by
  apply Stage.nonInterference S (s.take n) (t.take m) k j hn
  have e1 : (s.take n).take j = s.take j := by
    rcases Seq.take_take s hjn with h | h
    · exact h
    · omega
  have hlt : (t.take j).length = j := by rw [← Seq.take_congr hagree]; exact hlen
  have e2 : (t.take m).take j = t.take j := by
    rcases Seq.take_take t hm with h | h
    · exact h
    · omega
  rw [e1, e2, Seq.take_congr hagree]

/-! ## 3. Per stage: `need` equals the closed form of the property -/

/-- **C02.3a** sample-wise stages — operators / `map` / `imap` / `clip` / elementwise functions
(`mapS`), the generated filter loop incl. time-varying coefficients, `maverage.deque`,
`modulo_counter` (`scanS`), `accumulate.func` / `unwrap` (`firstThenS`), `zcross` (`zcrossS`):
`k` outputs read exactly `k` items. -/
theorem need_samplewise (xs : List α) (k : Nat) (hk : k ≤ xs.length)
    (f : α → β) (g : σ → α → σ × β) (s0 : σ) (g0 : α → σ × β)
    (outside sgn : α → Bool) (crosses : Bool → α → Bool) (first : Option Bool) :
    (mapS f).need xs k = some k ∧ (scanS g s0).need xs k = some k ∧
    (firstThenS g0 g).need xs k = some k ∧
    (zcrossS outside sgn crosses first).need xs k = some k :=
  ⟨hasNeed_mapS f xs k hk, hasNeed_scanS g s0 xs k hk, hasNeed_firstThenS g0 g xs k hk,
   hasNeed_zcrossS outside sgn crosses first xs k hk⟩

/-- **C02.3b** `Stream.filter` / `ifilter`: no bound exists in general; with a known pass
pattern the reads are the position of the `k`-th passing item. -/
theorem need_filter (pat : List Bool) (xs : List α) (k : Nat) (hk : nthPass pat k ≤ xs.length) :
    (filterS (fun n (_ : α) => patAt pat n)).need xs k = some (nthPass pat k) :=
  hasNeed_filterS pat xs k hk

/-- **C02.3c** `skip(n)`: nothing before the first demand, then `k + n`. -/
theorem need_skip (n : Nat) (xs : List α) (k : Nat) (hk : 0 < k) (hlen : k + n ≤ xs.length) :
    (skipS n).need xs k = some (k + n) := by
  have h0 : k ≠ 0 := by omega
  have := hasNeed_skipS (α := α) n xs k (by simp only [if_neg h0]; exact hlen)
  simpa only [if_neg h0] using this

/-- **C02.3d** `zero_pad(left)` / `chain(pre, seq)` / `Stream(pre).append(seq)`:
`max 0 (k - left)`; the first `left` outputs need no read at all. -/
theorem need_pad (pre post : List α) (xs : List α) (k : Nat) (hk : k - pre.length ≤ xs.length) :
    (padS pre post).need xs k = some (k - pre.length) := hasNeed_padS pre post xs k hk

theorem need_islice (start step : Nat) (hstep : 0 < step) (xs : List α) (k : Nat) (hk : 0 < k)
    (hlen : start + (k - 1) * step + 1 ≤ xs.length) :
    (isliceS start step).need xs k = some (start + (k - 1) * step + 1) := by
  have h0 : k ≠ 0 := by omega
  have := hasNeed_isliceS (α := α) start step hstep xs k (by simp only [if_neg h0]; exact hlen)
  simpa only [if_neg h0] using this

/-- **C02.3e** `blocks(size, hop)`, both loops (`hop ≤ size` and `hop > size`): the `j`-th block
needs `(j-1)*hop + size` items — none buffered ahead. -/
theorem need_blocks (size hop : Nat) (hs : 0 < size) (hh : 0 < hop) (pad : α) (xs : List α)
    (j : Nat) (hj : 0 < j) (hlen : (j - 1) * hop + size ≤ xs.length) :
    (blocksS size hop pad).need xs j = some ((j - 1) * hop + size) := by
  have h0 : j ≠ 0 := by omega
  have := hasNeed_blocksS size hop hs hh pad xs j (by simp only [needBlocks, if_neg h0]; exact hlen)
  simpa only [needBlocks, if_neg h0] using this

/-- the `Stage` used here for `blocks` is C08's state machine: same blocks, and the per-block
read counts are C08's `bloopReads`. -/
theorem blocks_is_C08 (size hop : Nat) (pad : α) (xs : List α) :
    (blocksS size hop pad).run xs = C08.blocks size hop pad xs ∧
    (blocksS size hop pad).reads xs = C08.bloopReads size hop ⟨[], 0⟩ 0 xs :=
  ⟨run_blocksS size hop pad xs, readsFrom_blocksS size hop pad xs _ 0⟩

/-- **C02.3f** overlap-add: output `k` needs `ceil(k/hop)` blocks. -/
theorem need_ola (size hop : Nat) (hh : 0 < hop) (mk : β → Nat → α) (fin : Nat → α)
    (blks : List β) (k : Nat) (hlen : ceilDiv k hop ≤ blks.length) :
    (olaS size hop mk fin).need blks k = some (ceilDiv k hop) :=
  hasNeed_olaS size hop hh mk fin blks k hlen

/-- **C02.3g** the STFT wrapper (`blocks ▷ process ▷ overlap_add`): output `k ≥ 1` needs
`(ceil(k/hop) - 1)*hop + size` samples. -/
theorem need_stft (size hop : Nat) (hs : 0 < size) (hh : 0 < hop) (pad : α)
    (process : List α → β) (mk : β → Nat → α) (fin : Nat → α) (xs : List α) (k : Nat) (hk : 0 < k)
    (hlen : (ceilDiv k hop - 1) * hop + size ≤ xs.length) :
    (stftS size hop pad process mk fin).need xs k = some ((ceilDiv k hop - 1) * hop + size) := by
  have hc : ceilDiv k hop ≠ 0 := by
    obtain ⟨k', rfl⟩ : ∃ k', k = k' + 1 := ⟨k - 1, by omega⟩
    rw [ceilDiv_succ k' hop hh]; omega
  have := hasNeed_stftS size hop hs hh pad process mk fin xs k
    (by simp only [needBlocks, if_neg hc]; exact hlen)
  simpa only [needBlocks, if_neg hc] using this

/-- **C02.3h** a shared (tee / thub) source feeding two branches combined in lock-step is read
as far as the more demanding branch needs — once, not once per branch. -/
theorem need_par (S : Stage ι α σ) (T : Stage ι β τ) (xs : List ι) (k ja jb : Nat)
    (ha : S.need xs k = some ja) (hb : T.need xs k = some jb) :
    (par S T).need xs k = some (max ja jb) := ALV.C02.need_par S T xs k ja jb ha hb

/-- **C02.3h'** two-source lock-step stages (binary operators on two streams, `izip`, filters with
coefficient streams, `modulo_counter` over `xzip(...)`) are stages over the *pair* source: the
first `k` outputs touch only the first `need k` items of EACH source. -/
theorem lockstep_two_sources (S : Stage (α × β) ο σ) (xs xs' : List α) (ys ys' : List β)
    (k j : Nat) (hn : S.need (xs.zip ys) k = some j)
    (hx : xs.take j = xs'.take j) (hy : ys.take j = ys'.take j) :
    S.need (xs'.zip ys') k = some j ∧ (S.run (xs'.zip ys')).take k = (S.run (xs.zip ys)).take k :=
  Stage.nonInterference S (xs.zip ys) (xs'.zip ys') k j hn (by rw [take_zip, take_zip, hx, hy])

/-- `ParallelFilter` of `n` sample-wise filters over `thub(seq, n)`, `CascadeFilter` of `n`
filters: `k` outputs read `k` items, for every `n`. -/
theorem need_parallel_cascade (n : Nat) (xs : List Unit) (k : Nat) (hk : k ≤ xs.length) :
    (parN n).st.need xs k = some k ∧ (cascadeN n).st.need xs k = some k :=
  ⟨hasNeed_parN n xs k hk, hasNeed_cascadeN n xs k hk⟩

/-- **C02.3i** `resample` (documented look-ahead): the first demand takes `order/2 + 1` items,
afterwards one item per unit the interpolation position has advanced:
`need k = order/2 + 1 + ceil((k-1)*step - frac)`, `frac = (order+1)/2 - floor((order+1)/2)`. -/
theorem need_resample (order : Nat) (step : Rat) (hstep : 0 < step) (xs : List α) (k : Nat)
    (hlen : needResample order step k ≤ xs.length) :
    (resampleS order step).need xs k = some (needResample order step k) :=
  hasNeed_resampleS order step hstep xs k hlen

/-- **C02.3j** a `Streamix` event with time `delta` is not read before the mixer has produced
`ceil(delta - 1/2)` outputs (the code's counting loop equals this closed form), then once per
output. -/
theorem need_streamix (delta : Rat) (zero : α) (xs : List α) (k : Nat)
    (hlen : k - smixStartSpec delta ≤ xs.length) :
    smixStart delta = (delta - 1 / 2).ceil.toNat ∧
    (smixS delta zero).need xs k = some (k - (delta - 1 / 2).ceil.toNat) := by
  refine ⟨smixStart_eq delta, ?_⟩
  have := hasNeed_smixS delta zero xs k (by rw [smixStart_eq]; exact hlen)
  rwa [smixStart_eq] at this

/-- **C02.3k** every stage descriptor the driver can build has the closed form `needOf`. -/
theorem need_stage (d : Desc) (hv : d.Valid) (xs : List Unit) (k : Nat)
    (hlen : needOf d k ≤ xs.length) : (build d).st.need xs k = some (needOf d k) :=
  hasNeed_build d hv xs k hlen

/-- `take(n)` pulls `min n len` items — never `n+1`; after `peek(n)`, `k` further outputs have
pulled `max n k`. -/
theorem take_peek_no_overread (n len k : Nat) :
    takeReads n len ≤ n ∧ takeReads n len ≤ len ∧ (k ≤ n → peekThenReads n k = n) ∧
    (n ≤ k → peekThenReads n k = k) := by
  unfold takeReads peekThenReads
  omega

/-! ## 4. Chains of any depth -/

/-- **C02.4a** what `S ▷ T` needs for `k` outputs is what `S` needs to deliver what `T` needs. -/
theorem need_comp (S : Stage ι π σ) (T : Stage π ο τ) (xs : List ι) (k : Nat) :
    (S ▷ T).need xs k = (T.need (S.emit xs) k).bind (S.need xs) :=
  Stage.need_comp S T xs k

theorem run_comp (S : Stage ι π σ) (T : Stage π ο τ) (xs : List ι) :
    (S ▷ T).run xs = T.run (S.run xs) := Stage.run_comp S T xs

/-- **C02.4b** closed forms compose: any chain of valid stages, of any depth. -/
theorem need_chain (ds : List Desc) (hv : ∀ d ∈ ds, d.Valid) (xs : List Unit) (k : Nat)
    (hlen : needOfChain ds k ≤ xs.length) :
    (buildChain ds).st.need xs k = some (needOfChain ds k) :=
  hasNeed_buildChain ds hv xs k hlen

/-- **C02.4c** what the driver reports as `model` (generator protocol run on the composed
machine, source of `n` items, `K` calls of `next()`) is what it reports as `spec` (composed
closed forms), at every output the source is long enough for. -/
theorem model_eq_spec (ds : List Desc) (hv : ∀ d ∈ ds, d.Valid) (n K k : Nat) (hk : k < K)
    (hn : needOfChain ds (k + 1) ≤ n) :
    (chainPulls ds n K)[k]? = some (needOfChain ds (k + 1)) := by
  unfold chainPulls
  exact pulls_of_hasNeed (hasNeed_buildChain ds hv) _ K k hk (by simpa using hn)

/-! ## 5. Endless sources -/

/-- **C02.5** Every valid chain works on an endless source and returns its first `k` outputs
after finitely many reads: the protocol delivers `k` outputs from the prefix of length
`needOfChain ds k`, and has pulled exactly that many items at the `k`-th. -/
theorem works_on_endless (ds : List Desc) (hv : ∀ d ∈ ds, d.Valid) (s : Seq Unit)
    (hs : s.Endless) (k : Nat) :
    ((buildChain ds).st.outs (s.take (needOfChain ds (k + 1))) (k + 1)).length = k + 1 ∧
    ((buildChain ds).st.pulls (s.take (needOfChain ds (k + 1))) (k + 1))[k]? =
      some (needOfChain ds (k + 1)) := by
  have hl := Seq.take_length_endless s hs (needOfChain ds (k + 1))
  have hp := pulls_of_hasNeed (hasNeed_buildChain ds hv) (s.take (needOfChain ds (k + 1)))
    (k + 1) k (Nat.lt_succ_self k) (by omega)
  refine ⟨?_, hp⟩
  have hn := hasNeed_buildChain ds hv (s.take (needOfChain ds (k + 1))) (k + 1) (by omega)
  have hk := (need_isSome_iff _ _ _).1 (by rw [hn]; rfl)
  rw [outs_eq, List.length_take, run_eq, List.length_append]
  omega

/-! ## 6. Auxiliary sources (stream-valued parameters) are read lazily too

Lock-step auxiliary streams (second operand of a binary operator, `izip` partners, filter
coefficient streams, `modulo_counter` / `sinusoid` / `TableLookup` arguments, stream-valued
cut-offs) are covered by `lockstep_two_sources`: the stage is a stage over the PAIR source, one
pull counter serves both.  A Streamix event's data is `need_streamix`.  `resample` with a
stream-valued `old`/`new` is a genuine two-source machine: the step stream is read at its own
rate — `k - 1` values for `k` outputs, the step being fetched AFTER the `yield`. -/

/-- **C02.6a** step stream of `resample`: nothing at construction, and the first `k` outputs need
exactly `k - 1` step values (output #0 is the first input sample and needs none). -/
theorem need_resample_step (order : Nat) (steps : List Rat) (k : Nat) (hk : k - 1 ≤ steps.length) :
    (rsStepS order).start.nread = 0 ∧ (rsStepS order).need steps k = some (k - 1) :=
  ⟨rfl, hasNeed_rsStepS order steps k hk⟩

/-- **C02.6b** both counters of the two-source machine under the generator protocol: after the
`(k+1)`-th `next()` exactly `k` step values have been pulled and the signal source has been read
`order/2 + 1 + ceil(step₀ + … + step_{k-1} - frac)` times, for every non-negative step stream. -/
theorem resample_two_source (order : Nat) (steps : List Rat) (hs : ∀ s ∈ steps, 0 ≤ s)
    (K k : Nat) (hk : k < K) (hlen : k ≤ steps.length) :
    (rsTwoSource order steps K)[k]? = some (needResampleTV order steps (k + 1), k) :=
  rsTwoSource_getElem order steps hs K k hk hlen

/-- **C02.6c** the same machine seen from the signal source (the stage used in chains): `k`
outputs read `needResampleTV` items. -/
theorem need_resample_tv (order : Nat) (steps : List Rat) (hs : ∀ s ∈ steps, 0 ≤ s)
    (xs : List α) (k : Nat) (hlen : needResampleTV order steps k ≤ xs.length) :
    (resampleTVS order steps).need xs k = some (needResampleTV order steps k) :=
  hasNeed_resampleTVS order steps hs xs k hlen

/-- **C02.6d** a constant step is the step stream that repeats one value: same signal reads. -/
theorem resample_tv_const (order : Nat) (step : Rat) (n k : Nat) (hk : k ≤ n + 1) :
    needResampleTV order (List.replicate n step) k = needResample order step k :=
  needResampleTV_const order step n k hk

/-- **C02.6e** non-interference for the step stream: the first `k` outputs (with the signal reads
they cost) are a function of the first `k - 1` step values; a step stream that differs, ends or
raises from its `k`-th value on is not noticed. -/
theorem resample_step_nonInterference (order : Nat) (steps steps' : List Rat) (k : Nat)
    (hk : k - 1 ≤ steps.length) (hagree : steps.take (k - 1) = steps'.take (k - 1)) :
    (rsStepS order).need steps' k = some (k - 1) ∧
    ((rsStepS order).run steps').take k = ((rsStepS order).run steps).take k :=
  Stage.nonInterference (rsStepS order) steps steps' k (k - 1) (hasNeed_rsStepS order steps k hk) hagree

/-- **C02.6f** the loop that fetches the step in its header (`for delta in steps: yield …`) is a
different machine: it needs `k` step values for `k` outputs — one too early at every output. -/
theorem eager_step_loop_needs_k (order : Nat) (steps : List Rat) (k : Nat) (hk : k ≤ steps.length) :
    (rsStepEagerS order).need steps k = some k := hasNeed_rsStepEagerS order steps k hk

/-- **C02.6g** data of a Streamix event with absolute time `delta` (the rule used for every event
source of the mixer): not read before output `ceil(delta - 1/2)`, then once per output. -/
theorem need_event_source (delta : Rat) (zero : α) (xs : List α) (k : Nat)
    (hlen : auxNeedEvent delta k ≤ xs.length) :
    (smixS delta zero).need xs k = some (auxNeedEvent delta k) := by
  have := hasNeed_smixS delta zero xs k (by rw [smixStart_eq]; exact hlen)
  rwa [smixStart_eq] at this

/-! ## 7. Stages that END while the source goes on (`limit`, `islice` with a stop, `takewhile`, any
`break` / `return` in the loop), requests PAST the end, spelled counts, `attack`

`StopStage` = a `Stage` plus an exit test evaluated before every read.  `X.probe xs K` lists for
each of `K` requests — failed ones (StopIteration) included — whether an output came and the pull
counter afterwards; `X.cut xs` is the position in `xs` at which the exit test becomes true. -/

/-- **C02.7a** (truncation) a stage with an exit test cannot tell its source from the source cut
at the exit point: same outputs, same failures, same pull counters at every request — also at the
requests made after the end.  Whatever follows the cut (more items, the end, an item that raises
when read) is never touched. -/
theorem stop_truncates (X : StopStage ι ο σ) (xs : List ι) (K : Nat) :
    X.probe (xs.take (X.cut xs)) K = X.probe xs K :=
  StopStage.probeFrom_trunc X K X.base.start xs

/-- **C02.7b** the pull counter never exceeds the cut, however often the stage is asked. -/
theorem stop_reads_at_most_cut (X : StopStage ι ο σ) (xs : List ι) (K : Nat) (p : Bool × Nat)
    (hp : p ∈ X.probe xs K) : p.2 ≤ X.cut xs ∧ X.cut xs ≤ xs.length := by
  refine ⟨?_, StopStage.cutFrom_le X xs _⟩
  rw [← stop_truncates] at hp
  have := StopStage.probeFrom_le X K X.base.start _ p hp
  have hl : (xs.take (X.cut xs)).length ≤ X.cut xs := by rw [List.length_take]; omega
  have h0 : X.base.start.nread = 0 := rfl
  omega

/-- **C02.7b'** (non-interference for stopping stages) when the stage leaves its loop before the
source ends, any other source with the same items in front of the exit point — continuing
differently, ending there, raising there — gives the same outputs, the same failures and the same
pull counters, at every request including those past the end. -/
theorem stop_nonInterference (X : StopStage ι ο σ) (xs ys : List ι) (K : Nat)
    (hcut : X.cut xs < xs.length) (hagree : xs.take (X.cut xs) = ys.take (X.cut xs)) :
    X.probe ys K = X.probe xs K := by
  have hc : X.cut ys = X.cut xs := StopStage.cutFrom_congr X xs ys _ hcut hagree
  rw [← stop_truncates X ys, ← stop_truncates X xs, hc, hagree]

/-- **C02.7c** (asked past the end, any number of times) once a request has failed, every further
request fails and the pull counter stays where it was: a finished stage never touches its source
again.  `c` is any configuration the stage is in. -/
theorem asked_past_the_end (X : StopStage ι ο σ) (K : Nat) (c : Stage.Cfg σ ο) (xs : List ι)
    (h : (X.demand c xs).1 = none) :
    X.probeFrom (K + 1) c xs = List.replicate (K + 1) (false, (X.demand c xs).2.1.nread) :=
  StopStage.probeFrom_after_fail X K c xs h

/-- **C02.7d** a stage without exit test is the plain protocol of sections 2–5: its successful
requests are `S.pulls`. -/
theorem never_is_plain (S : Stage ι ο σ) (xs : List ι) (K : Nat) :
    (((StopStage.never S).probe xs K).filter (·.1)).map (·.2) = S.pulls xs K :=
  StopStage.probeFrom_never S K S.start xs

/-- **C02.7e** `Stream.limit(N)` (`islice(data, N)`): request `k+1` delivers iff `k < min N |xs|`
and the source has been read `min (k+1) (min N |xs|)` times — exactly `k+1` while the limit is
not reached, `N` ever after; never `N + 1`. -/
theorem limit_probe (N : Nat) (xs : List α) (K : Nat) :
    (limitX N).probe xs K =
      (List.range K).map (fun k => (decide (k < min N xs.length), min (k + 1) (min N xs.length))) := by
  have := probeFrom_limitX (α := α) N K N 0 xs
  simp only [Nat.zero_add] at this
  have hs : (limitX (α := α) N).base.start = ⟨((), N), [], 0, false⟩ := by
    simp [Stage.start, limitX, StopStage.cap, StopStage.never, mapS]
  unfold StopStage.probe
  rw [hs]
  exact this

/-- `limit N` needs `min k N` items for `k` requests — the closed form `needLimit` of the spec —
on every source that has them, at every request, past the end included. -/
theorem need_limit (N : Nat) (xs : List α) (K k : Nat) (hk : k < K) (hN : N ≤ xs.length) :
    ((limitX N).probe xs K)[k]? = some (decide (k < N), needLimit N (k + 1)) := by
  rw [limit_probe, List.getElem?_map, List.getElem?_range hk]
  simp only [Option.map_some, needLimit]
  have : min N xs.length = N := by omega
  rw [this]

/-- **C02.7e'** `takewhile(pred, seq)` whose predicate holds for the first `n` items: the failing
item is read (request `n+1` fails having read `n+1` items) and nothing after it, however often the
stage is asked — the closed form `needTakewhile` of the spec. -/
theorem takewhile_probe (n : Nat) (xs : List α) (K : Nat) :
    (takewhileX n).probe xs K =
      (List.range K).map (fun k => (decide (k < min n xs.length), min (k + 1) (min (n + 1) xs.length))) := by
  have := probeFrom_takewhileX (α := α) n K 0 0 xs (Nat.zero_le n)
  simp only [Nat.zero_add, Nat.sub_zero] at this
  exact this

theorem need_takewhile (n : Nat) (xs : List α) (K k : Nat) (hk : k < K) (hn : n + 1 ≤ xs.length) :
    ((takewhileX n).probe xs K)[k]? = some (decide (k < n), needTakewhile n (k + 1)) := by
  rw [takewhile_probe, List.getElem?_map, List.getElem?_range hk]
  simp only [Option.map_some, needTakewhile]
  have h1 : min n xs.length = n := by omega
  have h2 : min (n + 1) xs.length = n + 1 := by omega
  rw [h1, h2]

/-- **C02.7f** a stage `S` followed by `limit(c)` reads exactly what `S` needs for `c` outputs, and
(7b) never more, however often it is asked. -/
theorem limit_after_stage (S : Stage ι ο σ) (c : Nat) (xs : List ι) (j : Nat)
    (h : S.need xs c = some j) : ((StopStage.never S).cap c).cut xs = j :=
  StopStage.cutFrom_cap S c xs S.init (c - S.pre.length) j h

/-- **C02.7g** the count of `limit(n)` / `skip(n)` is `max(int(round(n)), 0)`: an int is itself,
Python's `round` of a float / Fraction is within one half of it and picks the EVEN neighbour on a
tie (`limit(2.5)` keeps 2 items, `limit(3.5)` keeps 4). -/
theorem count_rounding (z : Int) (q : Rat) :
    roundCount (.int z) = .ok z.toNat ∧ roundCount (.float q) = .ok (pyRound q).toNat ∧
    roundCount (.frac q) = .ok (pyRound q).toNat ∧ pyRound (z : Rat) = z ∧
    ((pyRound q : Rat) - 1 / 2 ≤ q ∧ q ≤ (pyRound q : Rat) + 1 / 2) ∧
    pyRound ((z : Rat) + 1 / 2) = (if z % 2 = 0 then z else z + 1) :=
  ⟨rfl, rfl, rfl, pyRound_int z, pyRound_near q, pyRound_tie z⟩

/-- **C02.7h** `attack(a, d, <iterable sustain>)`: nothing at construction, ONE sustain item for
all the `n = len_a + len_d` line samples (on the first demand), then one item per output. -/
theorem need_attack (n : Nat) (line : α → Nat → α) (xs : List α) (k : Nat)
    (hlen : needAttack n k ≤ xs.length) :
    (attackS n line).start.nread = 0 ∧ (attackS n line).need xs k = some (needAttack n k) :=
  ⟨rfl, hasNeed_attackS n line xs k hlen⟩

/-! ## 8. Closed form of the protocol of EVERY stage with an exit test; chains with stopping stages -/

/-- **C02.8a** (the protocol in closed form) for every stage, exit test, source and request number:
request `k+1` delivers iff `k < |X.run xs|` (`run` = the plain loop on the source cut at the exit
point, epilogue included), and the source has then been read
`min (what the plain loop needs for k+1 outputs — everything if it cannot deliver them) (the exit point)`
times.  Requests past the end are included (`K` is arbitrary). -/
theorem probe_closed_form (X : StopStage ι ο σ) (xs : List ι) (K k : Nat) (hk : k < K) :
    (X.probe xs K)[k]? =
      some (decide (k < (X.run xs).length),
            min ((X.base.need xs (k + 1)).getD xs.length) (X.cut xs)) :=
  StopStage.probe_closed X xs K k hk

/-- `StopStage.reqReads` (used in 8b–8d) is that pull counter as a function of the request number. -/
theorem reqReads_is_probe (X : StopStage ι ο σ) (xs : List ι) (K k : Nat) (hk : k < K) :
    ((X.probe xs K)[k]?).map (·.2) = some (X.reqReads xs (k + 1)) := by
  rw [StopStage.probe_closed X xs K k hk]; rfl

/-- **C02.8b** a consumer stage `T` on top of `X` (the exit test stays `X`'s): if `T` needs exactly
`f k` items for `k` outputs, `X.comp T` reads for `k` requests what `X` reads for `f k`. -/
theorem stop_comp_reads (X : StopStage ι π σ) (T : Stage π ο τ) [Inhabited π] (f : Nat → Nat)
    (hT : ∀ (ys : List π) (k : Nat), f k ≤ ys.length → T.need ys k = some (f k))
    (xs : List ι) (k : Nat) : (X.comp T).reqReads xs k = X.reqReads xs (f k) :=
  StopStage.reqReads_comp X T (HasNeed.exact hT) xs trivial k

/-- **C02.8c** a consumer that stops asking after `c` items (`.limit(c)`, `islice(·, c)`, the read
loop of a stopping stage): `X.cap c` reads for `k` requests what `X` reads for `min k c` — never
what a `(c+1)`-th item would cost. -/
theorem stop_cap_reads (X : StopStage ι ο σ) (c : Nat) (xs : List ι) (k : Nat) :
    (X.cap c).reqReads xs k = X.reqReads xs (min k c) ∧
    (X.cap c).cut xs = min (X.cut xs) ((X.base.need xs c).getD xs.length) ∧
    ((X.cap c).base.emit xs).length ≤ c :=
  ⟨StopStage.reqReads_cap X c xs k, StopStage.cut_cap X c xs, StopStage.emit_cap_length X c xs⟩

/-- **C02.8d** `islice(seq, start, stop, step)` (CPython `islice_next`): after `k` requests
`needIsliceStop` items have been read — output `k` is item `start + (k-1)*step`; a drained islice
has read `max start stop` items (also when `start > stop`: the skipped items ARE read), never more,
however often it is asked. -/
theorem islice_stop_probe (start stop step : Nat) (hstep : 0 < step) (xs : List α) (K k : Nat)
    (hk : k < K) :
    (((isliceX start stop step).probe xs K)[k]?).map (·.2) =
      some (min (needIsliceStop start stop step (k + 1)) xs.length) ∧
    (isliceX start stop step).cut xs = min (max start stop) xs.length := by
  constructor
  · rw [StopStage.probe_closed _ xs K k hk]
    simp only [Option.map_some]
    rw [reqReads_isliceX start stop step hstep]
  · have := cutFrom_isliceX (α := α) start stop step hstep xs 0 start (Nat.zero_le _)
    simp only [Nat.sub_zero] at this
    exact this

/-- **C02.8e** (chains with stopping stages, any depth, any source length, asked any number of times)
the pull counter of the composed machine `buildXChain ds` after request `k+1` is the composed closed
form `needOfXChain ds (k+1)` — capped by the length of the source.  This is exactly the pair
(`model`, `spec`) the driver reports for the `probe` entry.  By induction on the chain with 8b/8c. -/
theorem probe_chain_eq_spec_any_source (ds : List XDesc) (hv : ∀ d ∈ ds, d.Valid) (n K k : Nat)
    (hk : k < K) :
    ((chainProbe ds n K)[k]?).map (·.2) = some (min (needOfXChain ds (k + 1)) n) :=
  chainProbe_reads ds hv n K k hk

/-- the closed forms of valid chains are monotone in the number of requests -/
theorem needOfXChain_mono (ds : List XDesc) (hv : ∀ d ∈ ds, d.Valid) (k k' : Nat) (hk : k ≤ k') :
    needOfXChain ds k ≤ needOfXChain ds k' := ALV.C02.needOfXChain_mono ds hv hk

/-- **C02.8f** (the statement that was PENDING in round 3) on a source long enough for `K` requests
the protocol run of every valid chain with stopping stages IS the composed closed form. -/
theorem probe_chain_eq_spec (ds : List XDesc) (hv : ∀ d ∈ ds, d.Valid) (n K k : Nat) (hk : k < K)
    (hn : needOfXChain ds K ≤ n) :
    ((chainProbe ds n K)[k]?).map (·.2) = some (needOfXChain ds (k + 1)) := by
  rw [chainProbe_reads ds hv n K k hk]
  have := ALV.C02.needOfXChain_mono ds hv (show k + 1 ≤ K by omega)
  congr 1
  omega

/-- **C02.8g** which requests on a chain deliver: the first `chainXOutLen ds n` (the outputs of the
chain consumed to its end), none after — the inner source lengths the driver uses are these. -/
theorem chain_delivered (ds : List XDesc) (n K k : Nat) (hk : k < K) :
    ((chainProbe ds n K)[k]?).map (·.1) = some (decide (k < chainXOutLen ds n)) :=
  chainProbe_delivered ds n K k hk

/-- **C02.8h** (twin) a chain WITHOUT stopping stage run as a `StopStage` chain (`chainProbe`, built
from the source outwards) has the pull counters of the plain chain of sections 3–5 (`chainPulls`,
built from the output inwards) wherever the source is long enough. -/
theorem plain_chain_twin (ds : List Desc) (hv : ∀ d ∈ ds, d.Valid) (n K k : Nat) (hk : k < K)
    (hn : needOfChain ds (k + 1) ≤ n) :
    ((chainProbe (ds.map .plain) n K)[k]?).map (·.2) = (chainPulls ds n K)[k]? := by
  have e : ∀ (l : List Desc) (m : Nat), needOfXChain (l.map .plain) m = needOfChain l m := by
    intro l
    induction l with
    | nil => intro m; rfl
    | cons d l ih => intro m; show needOf d (needOfXChain (l.map .plain) m) = _; rw [ih]; rfl
  rw [model_eq_spec ds hv n K k hk hn,
    chainProbe_reads (ds.map .plain) (by
      intro d hd
      obtain ⟨d', hd', rfl⟩ := List.mem_map.1 hd
      exact hv d' hd') n K k hk, e]
  congr 1
  omega

/-! ## 9. Rounding helpers of spelled counts, auxiliary-source closed forms -/

/-- **C02.9a** audiolazy's `rint` (used by `take` / `peek` for a positive float count) is a nearest
integer, `q - 1/2 < rint q ≤ q + 1/2`, and goes AWAY from zero on a tie (`take(2.5)` reads 3 items
where `limit(2.5)` keeps 2). -/
theorem rint_rounding (q : Rat) (z : Int) :
    ((rintPos q : Rat) ≤ q + 1 / 2 ∧ q < (rintPos q : Rat) + 1 / 2) ∧
    rintPos ((z : Rat) + 1 / 2) = z + 1 ∧ rintPos (z : Rat) = z :=
  ⟨rintPos_near q, rintPos_tie z, rintPos_int z⟩

/-- **C02.9b** what `take(n)` / `peek(n)` may read, by spelling: an int is `max(n, 0)`; a float is
`rint(n)` when positive, else 0; `inf` is "everything" (no bound), `-inf` and `nan` are 0; a
non-negative `Fraction` is refused with ValueError (islice wants an int); and an integer-valued
float means the same as the int. -/
theorem take_count (z : Int) (q : Rat) :
    takeCount (.int z) = .ok (some z.toNat) ∧
    takeCount (.float q) = .ok (some (if 0 < q then (rintPos q).toNat else 0)) ∧
    takeCount (.inf false) = .ok none ∧ takeCount (.inf true) = .ok (some 0) ∧
    takeCount .nan = .ok (some 0) ∧
    takeCount (.frac q) = (if q < 0 then .ok (some 0) else .error "ValueError") ∧
    takeCount (.float (z : Rat)) = takeCount (.int z) :=
  ⟨rfl, rfl, rfl, rfl, rfl, rfl, (count_spelling_int z).1⟩

/-- **C02.9c** `int(dur + .5)` (samples of `line` / attack / decay): `rint(dur)` for a float or
Fraction, the int itself for an int (and for the float `z.0`), nothing below one half. -/
theorem dur_len (z : Int) (q : Rat) :
    durLen (.int z) = z.toNat ∧ durLen (.float q) = (rintPos q).toNat ∧
    durLen (.frac q) = (rintPos q).toNat ∧ durLen (.float (z : Rat)) = durLen (.int z) ∧
    (q < 1 / 2 → durLen (.float q) = 0) ∧
    roundCount (.float (z : Rat)) = roundCount (.int z) :=
  ⟨rfl, (durLen_law q).1, (durLen_law q).2.1, (count_spelling_int z).2.2, (durLen_law q).2.2,
   (count_spelling_int z).2.1⟩

/-- **C02.9d** the closed form `auxNeedLag1` the driver reports for a lag-1 auxiliary source is the
`need` of both machines it is compared with: the step-source view of `resample` and the generic
"one output up front, then one value per output" stage. -/
theorem aux_lag1 (order : Nat) (steps : List Rat) (xs : List Unit) (k : Nat)
    (hs : auxNeedLag1 k ≤ steps.length) (hx : auxNeedLag1 k ≤ xs.length) :
    (rsStepS order).need steps k = some (auxNeedLag1 k) ∧
    (padS [()] [] : Stage Unit Unit Unit).need xs k = some (auxNeedLag1 k) :=
  ⟨hasNeed_rsStepS order steps k hs, hasNeed_padS [()] [] xs k hx⟩

/-! ## 10. Two counted sources behind one object of the C level, one of which ENDS

Stream binary operators on two streams, `imap`, `izip` are `map` / `zip` objects; `append`, `chain`,
`Stream(a, b)` are `itertools.chain`; `izip_longest` is `zip_longest`.  `twoProbe step K (twoStart na nb)`
lists for `K` requests (failed ones included) whether an output came and both pull counters. -/

/-- **C02.10a** lock-step `map` / `zip` over sources of `na` and `nb` items, asked `K` times: request
`k` delivers iff both sources have a `k`-th item; the FIRST source has been read `min k na` times —
when the partner ends first that is one item more than the partner (the item is lost), and one more
at every further request, because the C object does not remember that it has ended; the second source
is read only when the first delivered.  Neither source is ever read more than `k` times. -/
theorem mapzip_probe (na nb K k : Nat) (hk : k < K) :
    (twoProbe mapzipDemand K (twoStart na nb))[k]? = some (needMapzip na nb (k + 1)) ∧
    (needMapzip na nb (k + 1)).2.1 ≤ k + 1 ∧ (needMapzip na nb (k + 1)).2.2 ≤ k + 1 := by
  refine ⟨?_, ?_, ?_⟩
  · rw [twoProbe_mapzip_get K _ k hk]
    simp only [twoStart, needMapzip, Nat.zero_add]
    congr
  · show min (k + 1) na ≤ k + 1; omega
  · show min (k + 1) (min na nb) ≤ k + 1; omega

/-- **C02.10b** the partner ends first (`nb < na`): the request that fails has read `nb + 1` items of
the first source and `nb` of the partner; `j` requests later it is `min (nb + 1 + j) na`. -/
theorem mapzip_partner_ends_first (na nb j : Nat) (h : nb < na) :
    needMapzip na nb (nb + 1 + j) = (false, min (nb + 1 + j) na, nb) ∧
    needMapzip na nb (nb + 1) = (false, nb + 1, nb) := by
  unfold needMapzip
  refine ⟨Prod.ext ?_ (Prod.ext ?_ ?_), Prod.ext ?_ (Prod.ext ?_ ?_)⟩ <;> simp <;> omega

/-- **C02.10c** the first source ends first (`na ≤ nb`): the partner is never read further than the
first source delivered, however often the stage is asked. -/
theorem mapzip_first_ends_first (na nb k : Nat) (h : na ≤ nb) (hk : na ≤ k) :
    (needMapzip na nb k).2 = (na, na) := by
  unfold needMapzip
  refine Prod.ext ?_ ?_ <;> simp <;> omega

/-- **C02.10d** `chain(a, b)` / `Stream(a).append(b)` / `Stream(a, b)`: request `k` delivers iff
`k ≤ na + nb`; the tail is not touched while the head lasts (`k ≤ na`: 0 reads — the rule `never` of
the auxiliary-source table), then read once per output; the head is never asked for more than it has. -/
theorem chain2_probe (na nb K k : Nat) (hk : k < K) :
    (twoProbe chainDemand K (twoStart na nb))[k]? = some (needChain2 na nb (k + 1)) ∧
    (k + 1 ≤ na → (needChain2 na nb (k + 1)).2.2 = 0) ∧
    (needChain2 na nb (k + 1)).2.1 + (needChain2 na nb (k + 1)).2.2 ≤ k + 1 := by
  refine ⟨?_, ?_, ?_⟩
  · rw [twoProbe_chain_get K _ k hk]
    simp only [twoStart, needChain2, Nat.zero_add]
    congr
  · intro h; show min (k + 1 - na) nb = 0; omega
  · show min (k + 1) na + min (k + 1 - na) nb ≤ k + 1; omega

/-- **C02.10e** `izip_longest(a, b)`: each source is read once per output while it lasts. -/
theorem longest_probe (na nb K k : Nat) (hk : k < K) :
    (twoProbe longestDemand K (twoStart na nb))[k]? = some (needLongest na nb (k + 1)) := by
  rw [twoProbe_longest_get K _ k hk]
  simp only [twoStart, needLongest, Nat.zero_add]
  congr

/-- construction reads nothing from either source -/
theorem two_construction (na nb : Nat) : (twoStart na nb).ra = 0 ∧ (twoStart na nb).rb = 0 := ⟨rfl, rfl⟩

/-! ## non-vacuity: hypotheses satisfiable on non-trivial inputs -/

example : (skipS 2 ▷ mapS (· + 1)).need [10, 20, 30, 40, 50] 2 = some 4 := by decide
example : (skipS (α := Nat) 2).need [10, 20, 30] 2 = none := by decide
example : (blocksS 4 2 0).reads [1, 2, 3, 4, 5, 6, 7] = [4, 6] := by decide
example : (blocksS 2 5 0).pulls [1, 2, 3, 4, 5, 6, 7, 8] 3 = [2, 7] := by rw [pulls_eq]; decide
example : (padS [7, 7] [9]).pulls [1, 2] 6 = [0, 0, 1, 2, 2] := by rw [pulls_eq]; decide
example : (filterS (fun n (_ : Nat) => patAt [false, true, false] n)).need [5, 6, 7, 8] 2 = some 4 := by
  decide
example : chainPulls [.stft 4 2 true] 30 6 = [4, 4, 6, 6, 8, 8] := by
  unfold chainPulls; rw [pulls_eq]; decide
example : chainPulls [.skip 3, .filt [false, true], .par 3] 30 4 = [5, 6, 7, 8] := by
  unfold chainPulls; rw [pulls_eq]; decide
example : needOfChain [.skip 3, .filt [false, true], .par 3] 4 = 8 := by decide
example : (Desc.stft 4 2 true).Valid ∧ (Desc.resample 3 (1 / 2)).Valid := by decide +kernel
example : needResample 4 (5 / 2) 3 = 8 ∧ needResample 1 (1 / 2) 4 = 3 := by decide +kernel
example : smixStartSpec (5 / 2) = 2 ∧ smixStart (5 / 2) = 2 ∧ smixStart 3 = 3 := by decide +kernel
example : (Seq.ofFn (fun n => n * n)).take 4 = [0, 1, 4, 9] := by decide
example : (Seq.ofFn (fun (_ : Nat) => ())).Endless := fun _ h => by cases h
example : (scanS (fun (m : Nat) (p : Nat × Nat) => (p.1, m + p.1 * p.2)) 0).need
    ([1, 2, 3].zip [4, 5, 6]) 2 = some 2 := by decide
example : rsTwoSource 1 [1/2, 1/2, 2, 1/4] 5 = [(1, 0), (2, 1), (2, 2), (4, 3), (5, 4)] := by
  unfold rsTwoSource; rw [outs_eq, pulls_eq]; decide +kernel
example : (rsStepS 1).pulls [1/2, 1/2, 2, 1/4] 5 = [0, 1, 2, 3, 4] ∧
    (rsStepEagerS 1).pulls [1/2, 1/2, 2, 1/4] 4 = [1, 2, 3, 4] := by
  rw [pulls_eq, pulls_eq]; decide +kernel
example : needResampleTV 1 [1/2, 1/2, 2, 1/4] 4 = 4 ∧ (Desc.resampleTV 3 [1/2, 0, 3]).Valid := by
  decide +kernel
example : chainPulls [.resampleTV 1 [1/2, 1/2, 2, 1/4], .skip 1] 30 3 = [2, 2, 4] := by
  unfold chainPulls; rw [pulls_eq]; decide +kernel
example : auxNeedEvent (5 / 2) 3 = 1 ∧ auxNeedLag1 3 = 2 := by decide +kernel
/-- non-interference instantiated: two different continuations after the needed prefix -/
example : (blocksS 2 1 0).need [1, 2, 3, 99] 2 = some 3 ∧
    ((blocksS 2 1 0).run [1, 2, 3, 4, 5, 6]).take 2 = ((blocksS 2 1 0).run [1, 2, 3, 99]).take 2 := by
  decide

/-- limit(3) asked 6 times on 5 items: three outputs, then nothing is read any more -/
example : (limitX 3).probe [10, 20, 30, 40, 50] 6 =
    [(true, 1), (true, 2), (true, 3), (false, 3), (false, 3), (false, 3)] := by
  rw [limit_probe]; decide
/-- non-interference instantiated: a source that would raise (here: differs) right after the limit -/
example : (limitX 3).probe [10, 20, 30, 99] 5 = (limitX 3).probe [10, 20, 30, 40, 50] 5 :=
  stop_nonInterference (limitX 3) [10, 20, 30, 40, 50] [10, 20, 30, 99] 5 (by decide) (by decide)
example : (limitX 3).cut [10, 20, 30, 40, 50] = 3 ∧ (limitX 0).cut [10, 20] = 0 := by decide
/-- `takewhile` reads the failing item, `islice(0, 6, 2)` reads up to its stop, not further -/
example : (takewhileX 2).probe [1, 2, 3, 4, 5] 5 =
    [(true, 1), (true, 2), (false, 3), (false, 3), (false, 3)] := by decide
example : (isliceX 0 6 2).probe [1, 2, 3, 4, 5, 6, 7, 8] 5 =
    [(true, 1), (true, 3), (true, 5), (false, 6), (false, 6)] := by decide
example : (isliceX 5 3 1).probe [1, 2, 3, 4, 5, 6, 7, 8] 2 = [(false, 5), (false, 5)] := by decide
example : ((StopStage.never (blocksS 2 2 0)).cap 2).cut [1, 2, 3, 4, 5, 6, 7] = 4 ∧
    (blocksS 2 2 0).need [1, 2, 3, 4, 5, 6, 7] 2 = some 4 := by decide
example : chainProbe [.plain (.skip 2), .limit 3, .plain (.blocks 2 2)] 20 4 =
    [(true, 4), (true, 5), (false, 5), (false, 5)] := by decide +kernel
example : pyRound (5 / 2) = 2 ∧ pyRound (7 / 2) = 4 ∧ pyRound (13 / 5) = 3 ∧ pyRound (-5 / 2) = -2 ∧
    rintPos (5 / 2) = 3 := by decide +kernel
example : roundCount (.inf false) = .error "OverflowError" ∧ roundCount .nan = .error "ValueError" ∧
    roundCount (.bool true) = .ok 1 ∧ takeCount (.inf false) = .ok none := ⟨rfl, rfl, rfl, rfl⟩
example : (attackS 3 (fun (x : Nat) i => x + i)).pulls [7, 8, 9] 5 = [1, 1, 1, 2, 3] ∧
    needAttack 3 5 = 3 ∧ needAttack 0 2 = 3 := by
  rw [pulls_eq]; decide
example : needOfXChain [.plain (.skip 2), .limit 3, .plain (.blocks 2 2)] 2 = 5 := by decide
/-- 8a instantiated on `takewhile`: three requests, the third fails having read the failing item -/
example : (takewhileX 2).probe [1, 2, 3, 4, 5] 3 = [(true, 1), (true, 2), (false, 3)] ∧
    ((takewhileX 2).run [1, 2, 3, 4, 5]).length = 2 ∧ (takewhileX 2).cut [1, 2, 3, 4, 5] = 3 ∧
    (takewhileX 2).reqReads [1, 2, 3, 4, 5] 3 = 3 := by decide
/-- 8b's hypothesis holds for a non-trivial consumer -/
example : ∀ (ys : List Nat) (k : Nat), (if k = 0 then 0 else k + 2) ≤ ys.length →
    (skipS 2).need ys k = some (if k = 0 then 0 else k + 2) := hasNeed_skipS 2
example : ((limitX 4).comp (skipS 2)).reqReads [1, 2, 3, 4, 5, 6, 7] 1 = 3 ∧
    ((limitX 4).cap 2).reqReads [1, 2, 3, 4, 5, 6, 7] 5 = 2 := by decide
/-- 8d: `islice(·, 5, 3)` drained has read 5 items, `islice(·, 1, 6, 2)` reads 2, 4, 6 and stops -/
example : needIsliceStop 5 3 1 1 = 5 ∧ needIsliceStop 1 6 2 2 = 4 ∧ needIsliceStop 1 6 2 9 = 6 ∧
    (isliceX 1 6 2).cut [1, 2, 3, 4, 5, 6, 7, 8] = 6 := by decide
/-- 8e/8f on a chain with all three stopping stages and plain stages in between -/
example : (∀ d ∈ [XDesc.plain (.skip 1), .islice 1 9 2, .takewhile 2, .plain (.blocks 2 1), .limit 1],
    d.Valid) ∧
    needOfXChain [.plain (.skip 1), .islice 1 9 2, .takewhile 2, .plain (.blocks 2 1), .limit 1] 3 = 5 ∧
    chainProbe [.plain (.skip 1), .islice 1 9 2, .takewhile 2, .plain (.blocks 2 1), .limit 1] 20 3 =
      [(true, 5), (false, 5), (false, 5)] ∧
    chainXOutLen [.plain (.skip 1), .islice 1 9 2, .takewhile 2, .plain (.blocks 2 1), .limit 1] 20 = 1 := by
  decide +kernel
/-- a source shorter than the closed form: the cap of 8e is reached -/
example : chainProbe [.plain (.skip 1), .limit 5] 3 3 = [(true, 2), (true, 3), (false, 3)] ∧
    needOfXChain [.plain (.skip 1), .limit 5] 3 = 4 := by decide +kernel
example : chainProbe ([Desc.skip 2, .blocks 2 2].map .plain) 9 3 = [(true, 4), (true, 6), (true, 8)] ∧
    chainPulls [.skip 2, .blocks 2 2] 9 3 = [4, 6, 8] := by
  unfold chainPulls; rw [pulls_eq]; decide +kernel
example : rintPos (5 / 2) = 3 ∧ rintPos (7 / 3) = 2 ∧ durLen (.float (5 / 2)) = 3 ∧
    durLen (.float (1 / 4)) = 0 ∧ (takeCount (.float (5 / 2))).toOption = some (some 3) ∧
    (takeCount (.frac (5 / 2))).toOption = none ∧ (takeCount (.float (-3))).toOption = some (some 0) ∧
    (takeCount (.frac (-1 / 2))).toOption = some (some 0) := by
  decide +kernel
example : auxNeedLag1 4 = 3 ∧ (rsStepS 1).need [1/2, 1/2, 2] 4 = some 3 := by decide +kernel
/-- 10a/10b: the partner (2 items) ends first — the first source is read a third, fourth, fifth time -/
example : twoProbe mapzipDemand 6 (twoStart 5 2) =
    [(true, 1, 1), (true, 2, 2), (false, 3, 2), (false, 4, 2), (false, 5, 2), (false, 5, 2)] ∧
    twoProbe mapzipDemand 4 (twoStart 2 5) = [(true, 1, 1), (true, 2, 2), (false, 2, 2), (false, 2, 2)] := by
  decide
example : twoProbe chainDemand 5 (twoStart 2 5) =
    [(true, 1, 0), (true, 2, 0), (true, 2, 1), (true, 2, 2), (true, 2, 3)] ∧
    twoProbe longestDemand 4 (twoStart 1 3) = [(true, 1, 1), (true, 1, 2), (true, 1, 3), (false, 1, 3)] := by
  decide


/-! ## 12. The model REGENERATED from the source is the hand-written model

`ALV.Gen.C02.*` (file `ALV/Gen/C02Src.lean`) is rewritten on every check by `harness/props/c02_tr.py` from the
source text of `Stream.limit` / `skip` / `take` / `peek`, `zero_pad` and `attack`.  Each theorem below says
that what the source says NOW is the model function all the theorems above are about; the corollaries
carry two of them over to the regenerated definitions. -/

/-- `Stream.limit` wraps its data in `it.islice(data, stop)`: the stopping stage `limitX` -/
theorem src_limit_is_model (N : Nat) : Gen.C02.limit (α := α) N = limitX N := rfl

/-- the `stop` written in the source, `max(int(round(n)), 0)` handed to `islice`, is `roundCount`
for every spelling of `n` (int / bool / Fraction / float / inf / nan), exceptions included -/
theorem src_limit_count_is_model : Gen.C02.limit_count.count Gen.C02.limit_sink = roundCount :=
  funext limit_count_eq

/-- the generator `skipper` of `Stream.skip` (drop loop that returns on StopIteration, then the
pass-through loop) is `skipS` -/
theorem src_skip_is_model (n : Nat) : Gen.C02.skip (α := α) n = skipS n := rfl

/-- the turns of its drop loop, `xrange(int(round(n)))`, are `roundCount` -/
theorem src_skip_count_is_model : Gen.C02.skip_count.count Gen.C02.skip_sink = roundCount :=
  funext skip_count_eq

/-- the body of `Stream.take` (four statements, run by `TProg.run`) reads what `takeCount` says:
one item for `take()`, everything for `+inf`, `rint` of a positive float, 0 for negative / nan,
ValueError for a non-negative Fraction -/
theorem src_take_is_model : TProg.run Gen.C02.take = takeModel := take_eq

/-- `Stream.peek` hands the same `n` to `take` on a copy -/
theorem src_peek_is_model : TProg.run Gen.C02.peek = takeModel := peek_eq

/-- `zero_pad`: `left` yields without a read, the pass-through loop, `right` yields after it -/
theorem src_zero_pad_is_model (left right : Nat) (zero : α) :
    Gen.C02.zero_pad left right zero = padS (List.replicate left zero) (List.replicate right zero) := rfl

/-- `attack` over an iterable sustain: the two line loops behind ONE read, then one item per
output — `attackS` with `n = len_a + len_d` -/
theorem src_attack_is_model (la ld : Nat) (f g : α → Nat → α) :
    Gen.C02.attack la ld f g = attackS (la + ld) (attackLine la f g) := attack_eq la ld f g

/-- the two loop lengths are `int(a + .5)` of `a` and `int(d + .5)` of `d` handed to `xrange`, and that
is `durLen` for every finite spelling (OverflowError / ValueError for inf / nan) -/
theorem src_attack_lens_is_model :
    Gen.C02.attack_lens = [("len_a", "a", .toInt (.add .arg (.flt (1 / 2))), .xrange),
                           ("len_d", "d", .toInt (.add .arg (.flt (1 / 2))), .xrange)] ∧
    (PE.toInt (.add .arg (.flt (1 / 2)))).count .xrange = durCount ∧
    (∀ v k, durCount v = .ok k → k = durLen v) := by
  refine ⟨rfl, funext dur_count_eq, ?_⟩
  intro v k h
  cases v <;> simp only [durCount, Except.ok.injEq, reduceCtorEq] at h <;> exact h.symm

/-- the defaults in the signatures and what they mean in the model: `take()` / `peek()` have `n = None` — ONE item
is read —, `zero_pad(seq)` pads nothing: the plain pass-through stage -/
theorem src_defaults_is_model (zero : α) :
    Gen.C02.take_defaults = [("n", "None"), ("constructor", "list")] ∧
    Gen.C02.peek_defaults = Gen.C02.take_defaults ∧
    Gen.C02.zero_pad_defaults = [("left", 0), ("right", 0)] ∧
    TProg.run Gen.C02.take none = .ok .one ∧ takeModel none = .ok .one ∧
    Gen.C02.zero_pad 0 0 zero = padS [] [] := ⟨rfl, rfl, rfl, rfl, rfl, rfl⟩

/-- corollary: the closed form of `limit` holds for the regenerated stage at the regenerated count -/
theorem src_limit_probe (n : Num) (N : Nat) (xs : List α) (K : Nat)
    (h : Gen.C02.limit_count.count Gen.C02.limit_sink n = .ok N) :
    roundCount n = .ok N ∧
    (Gen.C02.limit N).probe xs K =
      (List.range K).map (fun k => (decide (k < min N xs.length), min (k + 1) (min N xs.length))) := by
  rw [src_limit_count_is_model] at h
  exact ⟨h, by rw [src_limit_is_model]; exact limit_probe N xs K⟩

/-- corollary: the regenerated `attack` reads nothing when built and `needAttack` items for `k` outputs -/
theorem src_attack_need (la ld : Nat) (f g : α → Nat → α) (xs : List α) (k : Nat)
    (hlen : needAttack (la + ld) k ≤ xs.length) :
    (Gen.C02.attack la ld f g).start.nread = 0 ∧
    (Gen.C02.attack la ld f g).need xs k = some (needAttack (la + ld) k) := by
  rw [src_attack_is_model]; exact need_attack _ _ xs k hlen

example : (Gen.C02.limit_count.count Gen.C02.limit_sink (.float (5 / 2))).toOption = some 2 ∧
    (Gen.C02.limit_count.count .islice (.float (-3))).toOption = some 0 ∧
    (Gen.C02.skip_count.count .xrange (.frac (7 / 2))).toOption = some 4 ∧
    (TProg.run Gen.C02.take (some (.float (5 / 2)))).toOption = some (.upto 3) ∧
    (TProg.run Gen.C02.take none).toOption = some .one ∧
    (TProg.run Gen.C02.peek (some (.inf false))).toOption = some .all ∧
    (TProg.run Gen.C02.take (some (.frac (1 / 2)))).toOption = none := by decide +kernel
example : (Gen.C02.attack 2 1 (fun (x : Nat) i => x + i) (fun x i => 10 * x + i)).pulls [7, 8, 9] 5 =
    [1, 1, 1, 2, 3] ∧ (Gen.C02.zero_pad 2 1 0).pulls [5, 6] 5 = [0, 0, 1, 2, 2] ∧
    (Gen.C02.skip 2).pulls [1, 2, 3, 4] 2 = [3, 4] := by
  refine ⟨?_, ?_, ?_⟩ <;> rw [pulls_eq] <;> decide

/-! ## 12. Sources handed over WHILE the stage is being consumed

Histories of `attach` (hand the stage another counted source), `fork` (another copy of a tee branch) and
`ask` (one `next()`), the pull counter of EVERY source observed after EVERY event (`hrun`).  Machines:
`mixStep` (`Streamix.add` before / during playback), `seqStep` (`Stream.append` on a partially consumed
stream), `fanStep` (a filter / stage called again), `hubStep` (`Stream.copy`, `StreamTeeHub`, `thub` of a
partially consumed stream), `ctlStep` (`ControlStream` assignments between reads). -/

/-- **C02.12a** handing a source over reads NOTHING, in any state of the stage (consumed or not, ended or
not): every counter already there is unchanged and the new one is 0; taking another copy of a tee branch
leaves the source counter alone. -/
theorem attach_reads_nothing (t : Rat) (len : Nat) :
    (∀ s : Mix, (mixStep s (.attach t len)).2 = ⟨true, s.reads ++ [0]⟩) ∧
    (∀ s : SeqSt, (seqStep s (.attach t len)).2 = ⟨true, s.reads ++ [0]⟩ ∧
        (seqStep s (.attach t len)).1.reads = s.reads ++ [0]) ∧
    (∀ s : List FSrc, (fanStep s (.attach t len)).2 = ⟨true, s.map (·.rd) ++ [0]⟩) ∧
    (∀ (s : Hub) (p : Nat), (hubStep s (.fork p)).2 = ⟨true, [s.rd]⟩ ∧ (hubStep s (.fork p)).1.rd = s.rd) := by
  refine ⟨fun s => ?_, fun s => ⟨rfl, ?_⟩, fun s => rfl, fun s p => ⟨rfl, rfl⟩⟩
  · simp [mixStep, Mix.attach, Mix.reads]
  · simp [seqStep, SeqSt.reads]

/-- **C02.12a'** the same, read off the observation the tie compares: the counters seen right after an `add`
are the old ones and a 0, and the `add` "delivers" (it cannot fail) -/
theorem mixer_add_observation (s : Mix) (t : Rat) (len : Nat) :
    (mixStep s (.attach t len)).2.reads = s.reads ++ [0] ∧ (mixStep s (.attach t len)).2.ok = true := by
  rw [(attach_reads_nothing t len).1 s]; exact ⟨rfl, rfl⟩

/-- **C02.12b** mixer, every history (events added before the first request, between requests, after the
mixer has ended; `keep` or not): after every event every event source has exactly
`min len (outputs delivered - start)` items read, and a request delivers iff the generator has not ended
and (`keep` or some event has an item left to give or is still waiting). -/
theorem mixer_trace_eq_spec (keep : Bool) (es : List HEv) :
    hrun mixStep (Mix.init keep) es = hspecRun mixStep mixSpecObs (Mix.init keep) es := by
  refine hrun_eq_spec mixStep mixSpecObs MixInv mixInv_step (fun s e h => ?_) es _ (mixInv_init keep)
  have h' := mixInv_step s e h
  cases e with
  | attach t len => exact congrArg (HObs.mk true) (mix_reads_eq_spec _ h')
  | fork p => exact congrArg (HObs.mk true) (mix_reads_eq_spec _ h')
  | ask c =>
    show HObs.mk s.ask.1 s.ask.2.reads = HObs.mk s.specOk s.ask.2.specReads
    rw [mix_ask_ok s h]
    exact congrArg (HObs.mk _) (mix_reads_eq_spec s.ask.2 h')

/-- **C02.12c** the clause in the words of the property: an event with absolute time `T` handed to the
mixer after ANY history `h1` (`a` outputs taken) starts at request `max a ⌈T - 1/2⌉`, and after ANY further
history `h2` (more requests, more events) exactly `min len (k - start)` of its items have been read, `k` the
number of outputs delivered so far - never one more, whenever it was added. -/
theorem mixer_attach_during_consumption (keep : Bool) (h1 h2 : List HEv) (T : Rat) (len : Nat) :
    ∃ e, (hfinal mixStep (Mix.init keep) (h1 ++ .attach T len :: h2)).evs[
            (hfinal mixStep (Mix.init keep) h1).evs.length]? = some e ∧
      e.len = len ∧
      e.start = mixStartSpec (hfinal mixStep (Mix.init keep) h1).now T ∧
      e.rd = min len ((hfinal mixStep (Mix.init keep) (h1 ++ .attach T len :: h2)).now -
          max (hfinal mixStep (Mix.init keep) h1).now (T - 1 / 2).ceil.toNat) := by
  have hinv := mixInv_final (Mix.init keep) (h1 ++ .attach T len :: h2) (mixInv_init keep)
  rw [hfinal_append] at hinv ⊢
  generalize hfinal mixStep (Mix.init keep) h1 = s1 at hinv ⊢
  have h0 : (mixStep s1 (.attach T len)).1.evs[s1.evs.length]? =
      some ⟨max s1.now (smixStart T), len, 0, false⟩ := by
    show (s1.evs ++ [_])[s1.evs.length]? = _
    simp
  obtain ⟨e, he, hs, hl⟩ := mix_static h2 _ _ _ h0
  refine ⟨e, he, hl, ?_, ?_⟩
  · rw [hs, smixStart_eq]; rfl
  · have := (hinv e (List.mem_of_getElem? he)).1
    rw [this, hs, hl, smixStart_eq]; rfl

/-- **C02.12d** `Stream.append` at any moment: with `d` outputs delivered, source `j` has
`min len_j (d - Σ_{i<j} len_i)` items read (`seqSpec`) - a source appended to a partially consumed stream is
not touched before everything in front of it has ended; a request delivers iff `d < Σ len`. -/
theorem append_trace_eq_spec (es : List HEv) :
    hrun seqStep SeqSt.init es = hspecRun seqStep seqSpecObs SeqSt.init es := by
  refine hrun_eq_spec seqStep seqSpecObs SeqInv seqInv_step (fun s e h => ?_) es _ ⟨rfl, Nat.le_refl _⟩
  have h' := (seqInv_step s e h).1
  cases e with
  | attach t len =>
    refine congrArg (HObs.mk true) ?_
    rw [← h']; simp [seqStep, SeqSt.reads]
  | fork p => exact congrArg (HObs.mk true) h'
  | ask c =>
    have hs := seqAsk_spec s.srcs s.outs h.1
    show HObs.mk (seqAsk s.srcs).1 ((seqAsk s.srcs).2.map (·.rd)) = HObs.mk _ _
    congr 1
    · by_cases hlt : s.outs < seqSum (s.srcs.map (·.len))
      · rw [(hs.2.1 hlt).1]; simp [hlt]
      · rw [(hs.2.2 (by omega)).1]; simp [hlt]

/-- **C02.12e** a stage called again on another source: consumer `c` reads its own source only, one item
per request while it lasts: `min len_c (requests on c)`. -/
theorem recall_trace_eq_spec (es : List HEv) :
    hrun fanStep [] es = hspecRun fanStep fanSpecObs [] es := by
  refine hrun_eq_spec fanStep fanSpecObs FanInv fanInv_step (fun s e h => ?_) es _ (fun e he => by cases he)
  have h' := fanInv_step s e h
  have key : ((fanStep s e).1).map (·.rd) = fanSpec (fanStep s e).1 :=
    List.map_congr_left (fun x hx => h' x hx)
  cases e with
  | attach t len =>
    refine congrArg (HObs.mk true) ?_
    rw [← key]; simp [fanStep]
  | fork p => exact congrArg (HObs.mk true) key
  | ask c => exact congrArg (HObs.mk _) key

/-- **C02.12f** tee hubs (`Stream.copy`, `StreamTeeHub` copies, `thub` of a partially consumed stream):
taking a copy at any moment reads nothing, and after any history the source has been read exactly as far
as the consumer that is furthest ahead. -/
theorem hub_trace_eq_spec (len : Nat) (es : List HEv) :
    hrun hubStep (Hub.init len) es = hspecRun hubStep hubSpecObs (Hub.init len) es := by
  refine hrun_eq_spec hubStep hubSpecObs HubInv hubInv_step (fun s e h => ?_) es _
    ⟨fun p hp => by simp [Hub.init] at hp; omega, by simp [Hub.init], Nat.zero_le _⟩
  have h' := hub_reads_eq_spec _ (hubInv_step s e h)
  cases e with
  | attach t n => exact congrArg (fun r => HObs.mk true [r]) h'
  | fork p => exact congrArg (fun r => HObs.mk true [r]) h'
  | ask c => exact congrArg (fun r => HObs.mk _ [r]) h'

/-- **C02.12g** `ControlStream`: a request shows the LAST assignment made before it (the value is looked up
when it is asked for, not when it is assigned, and never one request late). -/
theorem control_trace_eq_spec (n : Nat) (es : List HEv) : hrun ctlStep n es = ctlSpec n es := by
  induction es generalizing n with
  | nil => rfl
  | cons e es ih => cases e <;> simp [hrun, ctlStep, ctlSpec, ih]

/-- the seeded history: background at 0, three outputs, then an event of 6 items for sample 6 -/
example : (hrun mixStep (Mix.init false)
    [.attach 0 14, .ask 0, .ask 0, .ask 0, .attach 6 6, .ask 0, .ask 0, .ask 0, .ask 0, .ask 0]).map (·.reads) =
    [[0], [1], [2], [3], [3, 0], [4, 0], [5, 0], [6, 0], [7, 1], [8, 2]] := by decide +kernel
example : (hrun mixStep (Mix.init false) [.attach 1 1, .ask 0, .ask 0, .ask 0, .attach 0 3, .ask 0]).map (·.ok) =
    [true, true, true, false, true, false] ∧ mixStartSpec 3 (5 / 2) = 3 ∧ mixStartSpec 1 (5 / 2) = 2 := by decide +kernel
example : (hrun seqStep SeqSt.init [.attach 0 2, .ask 0, .attach 0 2, .ask 0, .ask 0, .ask 0, .ask 0, .attach 0 1, .ask 0]).map
    (·.reads) = [[0], [1], [1, 0], [2, 0], [2, 1], [2, 2], [2, 2], [2, 2, 0], [2, 2, 1]] := by decide
example : (hrun hubStep (Hub.init 5) [.ask 0, .ask 0, .fork 0, .ask 1, .fork 1, .ask 2, .ask 0]).map (·.reads) =
    [[1], [2], [2], [3], [3], [4], [4]] := by decide

end ALV.Props.C02

#write_audit "C02"
