/-
  C02 — "Everything is lazy": property theorems.
  Only statements of the property, non-vacuity examples and the audit live here;
  helper lemmas are in `ALV.Lemmas.Stage` (generic) and `ALV.Lemmas.C02` (per stage).
-/
import ALV.Lemmas.Stage
import ALV.Spec.C02
import ALV.Common.Audit

namespace ALV.Props.C02
open ALV ALV.Stage ALV.C02
variable {ι ο π σ τ : Type}

/-! ## 1. Construction reads nothing -/

/-- **C02.1** Building a stage (`Stage.start`: the generator object exists, its body has not
run) has pulled no source item, whatever the stage; and as long as no output is demanded
(`K = 0`) nothing is pulled. -/
theorem construction_reads_nothing (S : Stage ι ο σ) (xs : List ι) :
    S.start.nread = 0 ∧ S.pulls xs 0 = [] := ⟨rfl, rfl⟩

/-! ## 2. Demand-driven reading: the protocol pulls exactly `need k` items -/

/-- **C02.2a** The generator protocol (`demand`: pop a pending output, else pull ONE item and run
the loop body) delivers the stage's outputs, and the pull counter after the `k`-th `next()`
is the `k`-th entry of `runReads`. -/
theorem protocol_delivers (S : Stage ι ο σ) (xs : List ι) (K : Nat) :
    S.outs xs K = (S.run xs).take K ∧ S.pulls xs K = (S.runReads xs).take K :=
  ⟨outs_eq S xs K, pulls_eq S xs K⟩

/-- **C02.2b** While the source has not ended, the pull counter at output `k+1` is `need (k+1)`:
the least prefix length whose emission reaches `k+1` outputs. -/
theorem reads_eq_need (S : Stage ι ο σ) (xs : List ι) (k : Nat) :
    (S.reads xs)[k]? = S.need xs (k + 1) := reads_getElem S xs k

/-- **C02.2c** `need` is the least sufficient prefix. -/
theorem need_least (S : Stage ι ο σ) (xs : List ι) (k j : Nat) (h : S.need xs k = some j) :
    j ≤ xs.length ∧ k ≤ (S.emit (xs.take j)).length ∧
      ∀ j', j' < j → (S.emit (xs.take j')).length < k :=
  (need_spec S xs k j).1 h

theorem need_mono (S : Stage ι ο σ) (xs : List ι) {k k' j j' : Nat} (hk : k ≤ k')
    (h : S.need xs k = some j) (h' : S.need xs k' = some j') : j ≤ j' :=
  Stage.need_mono S xs hk h h'

/-- **C02.2d** Outputs only grow when more of the source is read. -/
theorem emit_prefix (S : Stage ι ο σ) {xs ys : List ι} (h : xs <+: ys) :
    S.emit xs <+: S.emit ys := Stage.emit_prefix S h

/-- **C02.2e** Non-interference: the first `k` outputs and the number of reads they cost are a
function of the first `need k` source items; whatever follows (more items, the end, an item
that would raise when read) is never touched. -/
theorem nonInterference (S : Stage ι ο σ) (xs ys : List ι) (k j : Nat)
    (hn : S.need xs k = some j) (hagree : xs.take j = ys.take j) :
    S.need ys k = some j ∧ (S.run ys).take k = (S.run xs).take k :=
  Stage.nonInterference S xs ys k j hn hagree

/-! ## 4. Chains -/

/-- **C02.4** Chains: what `S ▷ T` needs for `k` outputs is what `S` needs to deliver what `T`
needs; outputs compose. -/
theorem need_comp (S : Stage ι π σ) (T : Stage π ο τ) (xs : List ι) (k : Nat) :
    (S ▷ T).need xs k = (T.need (S.emit xs) k).bind (S.need xs) :=
  Stage.need_comp S T xs k

theorem run_comp (S : Stage ι π σ) (T : Stage π ο τ) (xs : List ι) :
    (S ▷ T).run xs = T.run (S.run xs) := Stage.run_comp S T xs

/-- non-vacuity -/
example : (skipS 2 ▷ mapS (· + 1)).need [10, 20, 30, 40, 50] 2 = some 4 := by decide
example : (skipS (α := Nat) 2).need [10, 20, 30] 2 = none := by decide
example : (blocksS 4 2 0).reads [1, 2, 3, 4, 5, 6, 7] = [4, 6] := by decide

end ALV.Props.C02

#write_audit "C02"
