/-
  C15 — property theorems: MultiKeyDict / StrategyDict stay coherent under any update history.
  Only statements of the property, non-vacuity examples and the audit live here; the helper
  lemmas are in `ALV.Lemmas.C15`, `ALV.Lemmas.C15MK`, `ALV.Lemmas.C15SD`.

  Vocabulary (definitions in `ALV.Model.C15` / `ALV.Spec.C15`):
    `St K V`        the three maps `_keys_dict`, `_inv_dict`, storage;  `step`, `run` = the code
    `Log K V`       the abstract key -> value map, bindings ordered by most recent assignment;
                    `specStep`, `specRun` = the property
    `Inv s`         the three maps are mutually consistent (one tuple per value, tuples partition
                    the keys, `_keys_dict` = membership in the tuples, storage = `_inv_dict` reversed)
    `Rep s l`       `Inv s`, and every value's tuple lists its keys in the order of `l`
    `Op.valid`      key tuples of assignments are non-empty (the property's quantifier);  `Op.nonEmpty`
                    is the same predicate (kept under both names)
    rejected ops    `Op.setUnhashable`, `Op.setBadKey`, `Op.badOperand`, `SOp.setRefused`, `SOp.rejected`: an
                    operand cannot be hashed (or a StrategyDict name is not a string), the code raises in
                    its first statements and nothing is changed.  `setitemBadKey`, `sdSetRefused` are the
                    code BEFORE the repairs 9cbe718 / 735182a (the exception came half-way); they are not
                    part of `step` / `sdStep`, the theorems C15.12g-i / C15.22-24 say what they did
    `Call`, `SCall` what the caller writes: an operation with a key argument of any shape (single / tuple of
                    any length; hashable, unhashable, non-string items at any position), classified by
                    `Call.toOp` / `SCall.toOp` into the operations of a history
    `SD K V`        StrategyDict: the three maps + `vars(self)` (name attributes and `default`);
                    `sdStep`, `sdRun` = the code;  `SDSpec`, `sdSpecStep` = the property;
                    `SDRep s g` = `Rep` on the maps, equal attributes, equal default
  All theorems hold for every key type `K` and value type `V` with decidable equality and for
  histories of any length.
-/
import ALV.Lemmas.C15R4
import ALV.Lemmas.C15Src
import ALV.Common.Audit

namespace ALV.Props.C15
open ALV.C15
variable {K V : Type} [DecidableEq K] [DecidableEq V]

/-! ## the invariant -/

/-- **C15.1** the empty dict is coherent -/
theorem inv_init : Inv (St.empty : St K V) := rep_empty.inv

/-- **C15.2** every operation preserves coherence, from *any* coherent state -/
theorem inv_step {s : St K V} (h : Inv s) (op : Op K V) (hv : Op.valid op) : Inv (step s op).1 :=
  (step_sim h.rep_absLog op hv).1.inv

/-- **C15.3** hence every reachable state is coherent (induction over the history) -/
theorem inv_reachable (ops : List (Op K V)) (hv : ∀ op ∈ ops, Op.valid op) :
    Inv (run (St.empty : St K V) ops).1 :=
  (run_sim ops rep_empty hv).1.inv

/-! ## refinement: the three maps behave as the abstract key -> value map -/

/-- **C15.4** one step: the new state represents the abstract successor, the caller sees the same
    result (value, key tuple, length or `KeyError`) -/
theorem step_refines {s : St K V} {l : Log K V} (h : Rep s l) (op : Op K V) (hv : Op.valid op) :
    Rep (step s op).1 (specStep l op).1 ∧ (step s op).2 = (specStep l op).2 :=
  step_sim h op hv

/-- **C15.5** the same with the abstraction *function* `absLog`: `abs (step s op) ≈ specStep (abs s) op`
    (`≈` = the same map with the same grouping), from any coherent state -/
theorem abs_refines {s : St K V} (h : Inv s) (op : Op K V) (hv : Op.valid op) :
    Log.equiv (absLog (step s op).1) (specStep (absLog s) op).1 ∧
      (step s op).2 = (specStep (absLog s) op).2 := by
  obtain ⟨h1, h2⟩ := step_sim h.rep_absLog op hv
  refine ⟨fun v => ?_, h2⟩
  rw [← h1.inv.rep_absLog.groups v, h1.groups v]

/-- **C15.5b** `≈` loses nothing the property talks about: two abstract maps with the same grouping
    bind every key to the same value (and by definition give every value the same key tuple) -/
theorem equiv_same_map {l l' : Log K V} (hn : (l.map (·.1)).Nodup) (hn' : (l'.map (·.1)).Nodup)
    (h : Log.equiv l l') (k : K) : specGet l k = specGet l' k := by
  unfold specGet
  have key : ∀ {a b : Log K V}, (b.map (·.1)).Nodup → Log.equiv a b → ∀ v, dget a k = some v → dget b k = some v := by
    intro a b hb hab v hv
    have : k ∈ keysOf b v := by rw [← hab v]; exact mem_keysOf.mpr (dget_some_mem hv)
    exact dget_of_mem_nodup hb (mem_keysOf.mp this)
  cases h1 : dget l k with
  | some v => exact (key hn' h v h1).symm
  | none =>
    cases h2 : dget l' k with
    | none => rfl
    | some v =>
      have := key hn (fun w => (h w).symm) v h2
      rw [h1] at this; cases this

/-- **C15.6** whole histories: same results at every step, final state represents the final map -/
theorem run_refines (ops : List (Op K V)) (hv : ∀ op ∈ ops, Op.valid op) :
    Rep (run (St.empty : St K V) ops).1 (specRun [] ops).1 ∧
      (run (St.empty : St K V) ops).2 = (specRun ([] : Log K V) ops).2 :=
  run_sim ops rep_empty hv

/-! ## corollaries in the words of the property -/

/-- **C15.7** `d[k]` is the last value assigned to `k` (by an assignment whose tuple contains `k`,
    not followed by a deletion of `k`); `KeyError` when there is none -/
theorem getitem_last_assigned (ops : List (Op K V)) (hv : ∀ op ∈ ops, Op.valid op) (k : K) :
    getitem (run (St.empty : St K V) ops).1 k = lastAssigned k ops none := by
  rw [(run_sim ops rep_empty hv).1.getitem_eq k]
  exact last_assigned_spec k ops []

/-- **C15.8** each value owns exactly one key tuple: the storage is, up to order, one entry per
    distinct value, whose key is the tuple of all keys bound to that value (`keysOf`);
    `key2keys` and lookup by tuple agree with it -/
theorem value_owns_one_tuple (ops : List (Op K V)) (hv : ∀ op ∈ ops, Op.valid op) :
    let s := (run (St.empty : St K V) ops).1
    let l := (specRun ([] : Log K V) ops).1
    s.store.Perm ((specValues l).map (fun v => (keysOf l v, v))) ∧
    (∀ v, value2keys s v = keysOf l v) ∧
    (∀ k v, getitem s k = some v → key2keys s k = some (keysOf l v) ∧ getTuple s (keysOf l v) = some v) := by
  intro s l
  have h : Rep s l := (run_sim ops rep_empty hv).1
  refine ⟨h.items_perm, h.groups, ?_⟩
  intro k v hk
  have hl : dget l k = some v := by rw [← h.getitem_eq]; exact hk
  refine ⟨by rw [h.key2keys_eq]; simp [specKey2keys, hl], ?_⟩
  obtain ⟨t, ht, _⟩ := h.mem_log.mp (dget_some_mem hl)
  have : keysOf l v = t := by rw [← h.groups, h.inv.v2k_of_mem ht]
  rw [this]; exact h.inv.store_get ht

/-- **C15.9** … listing its keys in order of most recent assignment: after `d[keys] = v` the tuple
    of `v` is its older keys that were not given again, in their previous order, followed by the
    given keys (a key given twice counts at its last position); other tuples just lose the given keys -/
theorem recency_order (l : Log K V) (keys : List K) (v w : V) :
    keysOf (specSet l keys v) v = (keysOf l v).filter (fun k => k ∉ keys) ++ dedupLast keys ∧
    (w ≠ v → keysOf (specSet l keys v) w = (keysOf l w).filter (fun k => k ∉ keys)) := by
  unfold specSet
  constructor
  · rw [keysOf_append, keysOf_map_same, keysOf_filter l (fun k => decide (k ∉ keys))]
  · intro hw
    rw [keysOf_append, keysOf_map_other _ (Ne.symm hw), List.append_nil,
      keysOf_filter l (fun k => decide (k ∉ keys))]

/-- **C15.10** the de-duplication loop of the code keeps the last occurrence of every key -/
theorem dedup_keeps_last (keys : List K) :
    dedupLastCode keys = dedupLast keys ∧ (dedupLast keys).Nodup ∧ ∀ k, k ∈ dedupLast keys ↔ k ∈ keys :=
  ⟨dedupLastCode_eq keys, nodup_dedupLast keys, fun _ => mem_dedupLast⟩

/-- **C15.11** `len` and iteration count values, not keys: iteration yields every bound value
    exactly once and `len` is their number -/
theorem len_iter_count_values (ops : List (Op K V)) (hv : ∀ op ∈ ops, Op.valid op) :
    let s := (run (St.empty : St K V) ops).1
    (iterValues s).Nodup ∧ (∀ v, v ∈ iterValues s ↔ ∃ k, getitem s k = some v) ∧
      len s = (iterValues s).length := by
  intro s
  have h : Rep s (specRun ([] : Log K V) ops).1 := (run_sim ops rep_empty hv).1
  refine ⟨h.inv.invNodup, fun v => ?_, ?_⟩
  · rw [h.mem_iter, mem_specValues]
    constructor
    · rintro ⟨k, hk⟩; exact ⟨k, by rw [h.getitem_eq]; exact dget_of_mem_nodup h.logNodup hk⟩
    · rintro ⟨k, hk⟩; exact ⟨k, dget_some_mem (by rw [← h.getitem_eq]; exact hk)⟩
  · rw [h.len_eq, h.iter_perm.length_eq]; rfl

/-- **C15.12** deleting a missing key raises `KeyError` and changes nothing; deleting a bound key
    succeeds and unbinds exactly that key -/
theorem del_missing_keyError (ops : List (Op K V)) (hv : ∀ op ∈ ops, Op.valid op) (k : K) :
    let s := (run (St.empty : St K V) ops).1
    (getitem s k = none → step s (.del k) = (s, .keyError)) ∧
    (∀ v, getitem s k = some v → (step s (.del k)).2 = .done ∧
        ∀ k', getitem (step s (.del k)).1 k' = if k' = k then none else getitem s k') := by
  intro s
  have h : Rep s (specRun ([] : Log K V) ops).1 := (run_sim ops rep_empty hv).1
  constructor
  · intro hk
    rcases delitem_sim h k with ⟨_, hd⟩ | ⟨s', hl, _, _⟩
    · simp [step, hd]
    · rw [← h.getitem_eq, hk] at hl; cases hl
  · intro v hk
    rcases delitem_sim h k with ⟨hl, _⟩ | ⟨s', _, hd, hrep⟩
    · rw [← h.getitem_eq, hk] at hl; cases hl
    · simp only [step, hd, true_and]
      intro k'
      rw [hrep.getitem_eq, h.getitem_eq, dget_filter_key _ (fun x => decide (x ≠ k))]
      by_cases hkk : k' = k <;> simp [hkk]

/-- **C15.12b** the constructor `MultiKeyDict(mapping)` yields a coherent dict in which every key of
    the mapping holds its (last) value -/
theorem ofDict_coherent (items : List (K × V)) (k : K) :
    Inv (ofDict items) ∧
      getitem (ofDict items) k = lastAssigned k (items.map fun e => Op.set [e.1] e.2) none := by
  have hv : ∀ op ∈ items.map (fun e => Op.set [e.1] e.2), Op.valid op := by
    intro op hop
    obtain ⟨e, _, rfl⟩ := List.mem_map.mp hop
    simp [Op.valid]
  exact ⟨inv_reachable _ hv, getitem_last_assigned _ hv k⟩

/-- **C15.12c** the hypothesis `Op.valid` is needed: assigning with the *empty* key tuple leaves the
    three maps incoherent — a value without keys, and after a second such assignment `len` (1) no
    longer counts the values iteration yields (2).  (Recorded as a known finding of the code.) -/
theorem empty_tuple_breaks_coherence :
    let s := (run (St.empty : St Nat Nat) [.set [] 5, .set [] 6]).1
    len s = 1 ∧ iterValues s = [5, 6] ∧ value2keys s 5 = [] ∧ ¬ Inv s := by
  refine ⟨by decide, by decide, by decide, fun h => ?_⟩
  exact h.tupNe (5, []) (by decide) rfl

/-! ## operations that raise: unhashable values and keys -/

/-- **C15.12d** a rejected operation is a no-op: assigning an unhashable value (`d[k] = []`,
    whatever the keys) and every lookup / deletion with an unhashable operand raise and leave the
    three maps exactly as they were — in ANY state — so the rest of the history runs as if the
    operation had never been issued; the abstract map says the same -/
theorem rejected_op_is_noop (s : St K V) (l : Log K V) (keys : List K) (rest : List (Op K V)) :
    step s (.setUnhashable keys) = (s, .rejected) ∧ step s .badOperand = (s, .rejected) ∧
    specStep l (.setUnhashable keys) = (l, .rejected) ∧ specStep l .badOperand = (l, .rejected) ∧
    run s (.setUnhashable keys :: rest) = ((run s rest).1, .rejected :: (run s rest).2) ∧
    run s (.badOperand :: rest) = ((run s rest).1, .rejected :: (run s rest).2) :=
  ⟨rfl, rfl, rfl, rfl, rfl, rfl⟩

/-- **C15.12e** … and `d[k]` is still the last value assigned by an assignment that did not raise:
    histories with rejected operations interleaved are covered by C15.6 / C15.7 (`Op.valid` admits
    them, `lastAssigned` skips them); stated here for one rejected assignment to the key itself -/
theorem rejected_assignment_assigns_nothing (ops : List (Op K V)) (hv : ∀ op ∈ ops, Op.valid op)
    (k : K) (keys : List K) :
    getitem (run (St.empty : St K V) (ops ++ [.setUnhashable (k :: keys)])).1 k
      = getitem (run (St.empty : St K V) ops).1 k := by
  have hv' : ∀ op ∈ ops ++ [Op.setUnhashable (k :: keys)], Op.valid op := by
    intro op hop
    rcases List.mem_append.mp hop with h | h
    · exact hv op h
    · simp at h; subst h; trivial
  rw [getitem_last_assigned _ hv', getitem_last_assigned _ hv]
  have : ∀ (o : List (Op K V)) (cur : Option V),
      lastAssigned k (o ++ [Op.setUnhashable (k :: keys)]) cur = lastAssigned k o cur := by
    intro o
    induction o with
    | nil => intro cur; rfl
    | cons op r ih => intro cur; cases op <;> simp only [List.cons_append, lastAssigned, ih]
  exact this ops none

/-- **C15.12f** coherence survives every operation, the raising ones included: from any
    coherent state, whatever the operation (only the empty key tuple is excluded, C15.12c) -/
theorem inv_step_any {s : St K V} (h : Inv s) (op : Op K V) (hv : Op.nonEmpty op) : Inv (step s op).1 :=
  step_inv_any h op hv

/-- **C15.12g** (regression: the code BEFORE the repair 9cbe718) an assignment whose key tuple holds
    an unhashable key raised, and the dict was the abstract map WITHOUT the keys that stood in front
    of the unhashable one (the assigned value's own older keys included) — nothing else was touched -/
theorem setBadKey_refines_deletion (ops : List (Op K V)) (hv : ∀ op ∈ ops, Op.valid op)
    (before after : List K) (v : V) :
    let s := (run (St.empty : St K V) ops).1
    let l := (specRun ([] : Log K V) ops).1
    Rep (setitemBadKey s before after v).1 (l.filter (fun e => e.1 ∉ badKeyPrefix s before after v)) ∧
      (setitemBadKey s before after v).2 = .rejected :=
  setBadKey_sim (run_sim ops rep_empty hv).1 before after v

/-- **C15.12h** … hence it was the no-op the property asks for (and that `step` performs now) when
    none of those keys held a value (in particular `d[[]] = v` for a value not stored yet) -/
theorem setBadKey_noop_when_prefix_unbound (s : St K V) (before after : List K) (v : V)
    (h : ∀ k ∈ badKeyPrefix s before after v, key2keys s k = none) :
    setitemBadKey s before after v = step s (.setBadKey before after v) := by
  have : delLoop s (badKeyPrefix s before after v) = some s :=
    delLoop_unbound _ s (fun k hk => by
      have := h k hk
      simp only [key2keys] at this
      simp [dhas, this])
  simp only [step, setitemBadKey, this]

/-- **C15.12i** … and was NOT a no-op otherwise: the hypothesis of C15.12h is needed.  `a, b -> 1`,
    `c -> 2`, then `d[("c", [])] = 1` raised `TypeError` after all three keys lost their values
    (finding D16, repaired by 9cbe718); the repaired code and the property change nothing. -/
theorem setBadKey_breaks_atomicity :
    let s := (run (St.empty : St Nat Nat) [.set [1, 2] 1, .set [3] 2]).1
    (setitemBadKey s [3] [] 1).2 = .rejected ∧ len (setitemBadKey s [3] [] 1).1 = 0 ∧
      getitem s 1 = some 1 ∧ getitem (setitemBadKey s [3] [] 1).1 1 = none ∧
      getitem (step s (.setBadKey [3] [] 1)).1 1 = some 1 ∧ len (step s (.setBadKey [3] [] 1)).1 = 2 ∧
      (specStep ([(1, 1), (2, 1), (3, 2)] : Log Nat Nat) (.setBadKey [3] [] 1)).1 = [(1, 1), (2, 1), (3, 2)] := by
  decide

/-! ## StrategyDict -/

/-- **C15.13** one StrategyDict operation (assignment, deletion, lookup, attribute access /
    assignment / deletion, `default`, call): the new state represents the abstract successor and
    the caller sees the same result (value, `KeyError`, `AttributeError`, `NotImplemented`) -/
theorem sd_step_refines {s : SD K V} {g : SDSpec K V} (h : SDRep s g) (op : SOp K V)
    (hv : SOp.valid op) :
    SDRep (sdStep s op).1 (sdSpecStep g op).1 ∧ (sdStep s op).2 = (sdSpecStep g op).2 :=
  sdStep_sim h op hv

/-- **C15.14** whole StrategyDict histories; in particular the three maps stay coherent -/
theorem sd_run_refines (ops : List (SOp K V)) (hv : ∀ op ∈ ops, SOp.valid op) :
    SDRep (sdRun (SD.empty : SD K V) ops).1 (sdSpecRun {} ops).1 ∧
      (sdRun (SD.empty : SD K V) ops).2 = (sdSpecRun ({} : SDSpec K V) ops).2 ∧
      Inv (sdRun (SD.empty : SD K V) ops).1.mkd := by
  obtain ⟨h1, h2⟩ := sdRun_sim ops sdrep_empty hv
  exact ⟨h1, h2, h1.rep.inv⟩

/-- **C15.14b** a StrategyDict iterates its strategies: every stored strategy exactly once -/
theorem sd_iter_values (ops : List (SOp K V)) (hv : ∀ op ∈ ops, SOp.valid op) :
    (sdIter (sdRun (SD.empty : SD K V) ops).1).Perm (specValues (sdSpecRun ({} : SDSpec K V) ops).1.log) ∧
      len (sdRun (SD.empty : SD K V) ops).1.mkd = (sdIter (sdRun (SD.empty : SD K V) ops).1).length := by
  obtain ⟨h1, _⟩ := sdRun_sim ops sdrep_empty hv
  have hp := h1.rep.items_perm.map (·.2)
  simp only [specItems, List.map_map] at hp
  have hid : ((fun x : List K × V => x.2) ∘ fun v => (keysOf (sdSpecRun ({} : SDSpec K V) ops).1.log v, v)) = id := rfl
  rw [hid, List.map_id] at hp
  exact ⟨hp, by simp [sdIter, storeValues, len]⟩

/-- **C15.15** every name is exposed as an attribute equal to the item (and no other name is):
    `getattr(sd, k)` = `sd[k]`, `AttributeError` exactly where `sd[k]` raises `KeyError` — after
    any history that does not assign name attributes by hand (`sd.name = x`) -/
theorem attr_equals_item (ops : List (SOp K V)) (hv : ∀ op ∈ ops, SOp.valid op)
    (hn : ∀ op ∈ ops, SOp.noSetattr op) (k : K) :
    sdGetattr (sdRun (SD.empty : SD K V) ops).1 (some k)
      = getitem (sdRun (SD.empty : SD K V) ops).1.mkd k := by
  obtain ⟨h1, _⟩ := sdRun_sim ops sdrep_empty hv
  have hc : AttrCoherent (sdSpecRun ({} : SDSpec K V) ops).1 :=
    sdSpecRun_attrCoherent ops (fun _ => rfl) hn
  rw [sdGetattr, h1.attr, h1.rep.getitem_eq, hc k]

/-- **C15.16** the default is the first strategy stored — when there is no default, the strategy
    stored next becomes the default -/
theorem default_first_stored (ops : List (SOp K V)) (hv : ∀ op ∈ ops, SOp.valid op)
    (keys : List K) (hk : keys ≠ []) (v : V) :
    let s := (sdRun (SD.empty : SD K V) ops).1
    sdDefault s = none → sdDefault (sdStep s (.set keys v)).1 = some v := by
  intro s hd
  obtain ⟨h1, _⟩ := sdRun_sim ops sdrep_empty hv
  obtain ⟨h2, _⟩ := sdStep_sim h1 (.set keys v) hk
  have hg : (sdSpecRun ({} : SDSpec K V) ops).1.default = none := by rw [← h1.dflt]; exact hd
  rw [sdDefault, h2.dflt]
  simp [sdSpecStep, sdSpecSet, hg]

/-- **C15.17** … and it stays the default as long as it keeps one of its names: if `k0` is among
    the names of the first strategy stored and the rest of the history neither re-assigns nor
    deletes `k0` (nor touches `default` by hand), the default — and what a call calls — is that
    first strategy, whatever else happens to the dict -/
theorem default_is_first_stored (keys0 : List K) (v0 : V) (k0 : K) (hk0 : k0 ∈ keys0)
    (rest : List (SOp K V)) (hv : ∀ op ∈ rest, SOp.valid op)
    (hkeep : ∀ op ∈ rest, SOp.keepsName k0 op) :
    let s := (sdRun (SD.empty : SD K V) (.set keys0 v0 :: rest)).1
    sdDefault s = some v0 ∧ (sdStep s .call).2 = .val v0 ∧ getitem s.mkd k0 = some v0 := by
  intro s
  have hv' : ∀ op ∈ (SOp.set keys0 v0 :: rest), SOp.valid op := by
    intro op hop
    rcases List.mem_cons.mp hop with rfl | h
    · exact List.ne_nil_of_mem hk0
    · exact hv op h
  obtain ⟨h1, _⟩ := sdRun_sim _ sdrep_empty hv'
  have hstart : dget (sdSpecStep ({} : SDSpec K V) (.set keys0 v0)).1.log k0 = some v0 ∧
      (sdSpecStep ({} : SDSpec K V) (.set keys0 v0)).1.default = some v0 := by
    simp only [sdSpecStep, sdSpecSet]
    exact ⟨by rw [dget_specSet]; simp [hk0], trivial⟩
  obtain ⟨h2, h3⟩ := sdSpecRun_keeps rest hkeep hstart.1 hstart.2
  have hd : sdDefault s = some v0 := by rw [sdDefault, h1.dflt]; exact h3
  refine ⟨hd, ?_, ?_⟩
  · simp only [sdStep, hd]; rfl
  · rw [h1.rep.getitem_eq]; exact h2

/-- **C15.18** … re-chosen after the default loses all its names: an assignment keeps the default
    `w` unless every name of `w` is among the assigned names, in which case the newly stored
    strategy becomes the default -/
theorem default_rechosen_on_set (ops : List (SOp K V)) (hv : ∀ op ∈ ops, SOp.valid op)
    (keys : List K) (hk : keys ≠ []) (v w : V) :
    let s := (sdRun (SD.empty : SD K V) ops).1
    sdDefault s = some w →
    sdDefault (sdStep s (.set keys v)).1 =
      if value2keys s.mkd w ≠ [] ∧ ∀ k ∈ value2keys s.mkd w, k ∈ keys then some v else some w := by
  intro s hd
  obtain ⟨h1, _⟩ := sdRun_sim ops sdrep_empty hv
  obtain ⟨h2, _⟩ := sdStep_sim h1 (.set keys v) hk
  have hg : (sdSpecRun ({} : SDSpec K V) ops).1.default = some w := by rw [← h1.dflt]; exact hd
  rw [sdDefault, h2.dflt, h1.rep.groups w]
  simp only [sdSpecStep, sdSpecSet, hg]
  by_cases hc : keysOf (sdSpecRun ({} : SDSpec K V) ops).1.log w ≠ [] ∧
      ∀ k ∈ keysOf (sdSpecRun ({} : SDSpec K V) ops).1.log w, k ∈ keys
  · rw [if_pos hc, if_pos (losesAllNames_iff.mpr hc)]
  · rw [if_neg hc, if_neg (fun h => hc (losesAllNames_iff.mp h))]

/-- **C15.19** deleting a name: the default goes exactly when that name was the last name of the
    default strategy (then `sd.default` is the class-level `NotImplemented` function until the
    next assignment, C15.16); deleting a missing name raises `KeyError` and changes nothing -/
theorem default_on_del (ops : List (SOp K V)) (hv : ∀ op ∈ ops, SOp.valid op) (k : K) :
    let s := (sdRun (SD.empty : SD K V) ops).1
    (getitem s.mkd k = none → sdStep s (.del k) = (s, .keyError)) ∧
    (∀ w, getitem s.mkd k = some w →
      sdDefault (sdStep s (.del k)).1 =
        if sdDefault s = some w ∧ value2keys s.mkd w = [k] then none else sdDefault s) := by
  intro s
  obtain ⟨h1, _⟩ := sdRun_sim ops sdrep_empty hv
  constructor
  · intro hk
    rcases sdDelitem_sim h1 k with ⟨_, hd, _⟩ | ⟨s', g', hl, _, _, _⟩
    · show sdStep (sdRun (SD.empty : SD K V) ops).1 (.del k) = _
      simp only [sdStep, hd]; rfl
    · rw [← h1.rep.getitem_eq] at hl; rw [hk] at hl; cases hl
  · intro w hk
    obtain ⟨h2, _⟩ := sdStep_sim h1 (.del k) trivial
    have hl : dget (sdSpecRun ({} : SDSpec K V) ops).1.log k = some w := by
      rw [← h1.rep.getitem_eq]; exact hk
    rw [sdDefault, h2.dflt, sdDefault, h1.dflt, h1.rep.groups w]
    simp only [sdSpecStep, sdSpecDel, hl]

/-- **C15.20** calling the dict calls the default (`NotImplemented` when there is none) -/
theorem call_calls_default (s : SD K V) :
    sdStep s .call = (s, Res.ofDefault (sdDefault s)) ∧ sdStep s .default = (s, Res.ofDefault (sdDefault s)) :=
  ⟨rfl, rfl⟩

/-- **C15.21** a StrategyDict operation refused in its first statement (unhashable name looked up or
    deleted) is a no-op in any state, and the rest of the history runs as if it had not been issued -/
theorem sd_rejected_op_is_noop (s : SD K V) (g : SDSpec K V) (rest : List (SOp K V)) :
    sdStep s .rejected = (s, .rejected) ∧ sdSpecStep g .rejected = (g, .rejected) ∧
    sdRun s (.rejected :: rest) = ((sdRun s rest).1, .rejected :: (sdRun s rest).2) :=
  ⟨rfl, rfl, rfl⟩

/-- **C15.22** (regression: the code BEFORE the repair 735182a) a StrategyDict assignment refused after
    the deletion loop (unhashable strategy, unhashable name in the tuple) raised; the three maps stayed
    coherent and the state was the one in which the names `deleted` were deleted one by one — their
    bindings gone, the default gone when it lost all its names, other attributes untouched -/
theorem sd_refused_set_refines_deletion (ops : List (SOp K V)) (hv : ∀ op ∈ ops, SOp.valid op)
    (deleted : List K) :
    let s := (sdRun (SD.empty : SD K V) ops).1
    let g := (sdSpecRun ({} : SDSpec K V) ops).1
    (sdSetRefused s deleted).2 = .rejected ∧ Inv (sdSetRefused s deleted).1.mkd ∧
    (∀ k, getitem (sdSetRefused s deleted).1.mkd k = if k ∈ deleted then none else getitem s.mkd k) ∧
    sdDefault (sdSetRefused s deleted).1 = defaultAfterLoss g.log g.default deleted := by
  intro s g
  obtain ⟨h, _⟩ := sdRun_sim ops sdrep_empty hv
  obtain ⟨⟨g1, h1, hlog, _, hd⟩, hr⟩ := sdSetRefused_sim h deleted
  refine ⟨hr, h1.rep.inv, fun k => ?_, by rw [sdDefault, h1.dflt, hd]⟩
  rw [h1.rep.getitem_eq, hlog, h.rep.getitem_eq, dget_filter_key _ (fun x => decide (x ∉ deleted))]
  by_cases hk : k ∈ deleted <;> simp [hk]

/-- **C15.23** … hence the no-op the property asks for (and that `sdStep` performs now) when none of
    those names held a strategy -/
theorem sd_refused_set_noop_when_unbound (s : SD K V) (deleted : List K)
    (h : ∀ k ∈ deleted, key2keys s.mkd k = none) :
    sdSetRefused s deleted = sdStep s (.setRefused deleted) := by
  simp only [sdStep, sdSetRefused, sdDelLoop_unbound deleted s h]

/-- **C15.24** … and NOT a no-op otherwise: `sd["a"] = f0; sd["b"] = f1`, then `sd["a"] = <unhashable>`
    raised `TypeError` after name `a`, its attribute and the default were gone (finding D16, repaired
    by 735182a); the repaired code and the property change nothing. -/
theorem sd_refused_set_breaks_atomicity :
    let s := (sdRun (SD.empty : SD Nat Nat) [.set [1] 10, .set [2] 20]).1
    (sdSetRefused s [1]).2 = .rejected ∧ getitem s.mkd 1 = some 10 ∧ sdDefault s = some 10 ∧
      getitem (sdSetRefused s [1]).1.mkd 1 = none ∧ sdDefault (sdSetRefused s [1]).1 = none ∧
      sdGetattr (sdSetRefused s [1]).1 (some 1) = none ∧
      getitem (sdStep s (.setRefused [1])).1.mkd 1 = some 10 ∧ sdDefault (sdStep s (.setRefused [1])).1 = some 10 := by
  decide

/-! ## the remaining observables: items, iteration order, `in`, `get` -/

/-- **C15.25** `d.items()` is, up to order, the specification's `specItems`: one pair (key tuple of the
    value in recency order, value) per bound value; `d.keys()` / `d.values()` are its two columns -/
theorem items_are_spec_items (ops : List (Op K V)) (hv : ∀ op ∈ ops, Op.valid op) :
    let s := (run (St.empty : St K V) ops).1
    let l := (specRun ([] : Log K V) ops).1
    s.store.Perm (specItems l) ∧ (keyTuples s).Perm ((specItems l).map (·.1)) ∧
      (storeValues s).Perm ((specItems l).map (·.2)) ∧ len s = (specItems l).length := by
  intro s l
  have h : Rep s l := (run_sim ops rep_empty hv).1
  exact ⟨h.items_perm, h.items_perm.map _, h.items_perm.map _, h.items_perm.length_eq⟩

/-- **C15.26** iteration ORDER: `list(d)` (which walks `_inv_dict`), `list(d.values())` and
    `list(d.keys())` (which walk the storage) enumerate the values in the SAME order — the i-th key
    tuple is the tuple of the i-th value — in every coherent state -/
theorem iteration_orders_agree (ops : List (Op K V)) (hv : ∀ op ∈ ops, Op.valid op) :
    let s := (run (St.empty : St K V) ops).1
    storeValues s = iterValues s ∧ keyTuples s = (iterValues s).map (value2keys s) :=
  (inv_reachable ops hv).iter_order

/-- **C15.27** the inherited `key_tuple in d` / `d.get(key_tuple)` see the key tuples: a tuple is "in"
    the dict exactly when it is the complete key tuple of a value, in its recency order -/
theorem contains_sees_key_tuples (ops : List (Op K V)) (hv : ∀ op ∈ ops, Op.valid op) (t : List K) :
    let s := (run (St.empty : St K V) ops).1
    let l := (specRun ([] : Log K V) ops).1
    (step s (.contains t)).2 = .bool (specGetT l t).isSome ∧
    (step s (.dictGet t)).2 = Res.orNone (specGetT l t) ∧
    (∀ v, specGetT l t = some v → keysOf l v = t) := by
  intro s l
  have h : Rep s l := (run_sim ops rep_empty hv).1
  refine ⟨(step_sim h (.contains t) trivial).2, (step_sim h (.dictGet t) trivial).2, ?_⟩
  intro v hv'
  have := List.find?_some hv'
  simpa using this

/-! ## class (f): an operation that raises leaves no trace, whatever the operation -/

/-- **C15.28** in ANY state (coherent or not), a MultiKeyDict operation whose result is an exception
    (`KeyError`, `TypeError` for an unhashable operand) returns the state it was given, and the rest
    of the history runs as if the operation had not been issued -/
theorem raising_op_leaves_no_trace (s : St K V) (op : Op K V) (rest : List (Op K V))
    (h : Res.raised (step s op).2) :
    (step s op).1 = s ∧ run s (op :: rest) = ((run s rest).1, (step s op).2 :: (run s rest).2) := by
  have h1 := step_raised_noop s op h
  exact ⟨h1, by simp only [run, h1]⟩

/-- **C15.29** the same for StrategyDict (`KeyError`, `AttributeError`, `TypeError`): the three maps,
    the attributes and the default are what they were -/
theorem sd_raising_op_leaves_no_trace (s : SD K V) (op : SOp K V) (rest : List (SOp K V))
    (h : Res.raised (sdStep s op).2) :
    (sdStep s op).1 = s ∧ sdRun s (op :: rest) = ((sdRun s rest).1, (sdStep s op).2 :: (sdRun s rest).2) := by
  have h1 := sdStep_raised_noop s op h
  exact ⟨h1, by simp only [sdRun, h1]⟩

/-! ## key arguments of every shape -/

/-- **C15.30** an unhashable item at ANY position of the key argument (alone, or anywhere in a tuple of
    any length) makes every operation raise (`rejected` = `TypeError` / the exception of the item's
    `__hash__`) with the dict untouched — assignment (whatever the value), lookup, deletion,
    `key2keys`, `in`, `get` -/
theorem unhashable_item_anywhere_is_refused (s : St K V) (arg : KeyArg K)
    (h : KeyItem.unhashable ∈ arg.items) (value : Option V) :
    callStep s (.setitem arg value) = (s, .rejected) ∧ callStep s (.getitem arg) = (s, .rejected) ∧
    callStep s (.delitem arg) = (s, .rejected) ∧ callStep s (.key2keys arg) = (s, .rejected) ∧
    callStep s (.contains arg) = (s, .rejected) ∧ callStep s (.dictGet arg) = (s, .rejected) := by
  have hn := allOk_eq_none_iff.mpr h
  cases arg with
  | single i =>
    cases i with
    | ok k => simp [KeyArg.items] at h
    | unhashable => simp [callStep, Call.toOp, KeyArg.items, allOk, step]
  | tuple is =>
    simp only [KeyArg.items] at hn
    simp [callStep, Call.toOp, KeyArg.items, hn, step]

/-- **C15.31** a key argument made of hashable keys only: the assignment is the assignment of the
    tuple-ised keys (an unhashable VALUE is refused, nothing changes); lookup, deletion and `key2keys`
    with a TUPLE argument raise `KeyError` whatever its length and contents, unless the tuple is a
    complete key tuple (lookup only) — "deleting a missing key raises KeyError whatever its shape" -/
theorem hashable_key_argument (s : St K V) (ks : List K) (k : K) (v : V) :
    callStep s (.setitem (.tuple (ks.map .ok)) (some v)) = step s (.set ks v) ∧
    callStep s (.setitem (.single (.ok k)) (some v)) = step s (.set [k] v) ∧
    callStep s (.setitem (.tuple (ks.map .ok)) none) = (s, .rejected) ∧
    callStep s (.setitem (.single (.ok k)) none) = (s, .rejected) ∧
    callStep s (.getitem (.tuple (ks.map .ok))) = (s, .ofVal (getTuple s ks)) ∧
    callStep s (.delitem (.tuple (ks.map .ok))) = (s, .keyError) ∧
    callStep s (.key2keys (.tuple (ks.map .ok))) = (s, .keyError) ∧
    callStep s (.delitem (.single (.ok k))) = step s (.del k) ∧
    callStep s (.contains (.single (.ok k))) = (s, .bool false) := by
  simp [callStep, Call.toOp, KeyArg.items, allOk_map_ok, allOk, step, setitemUnhashable]

/-- **C15.32** histories of CALLS: whatever the shapes of the key arguments and wherever unhashable
    items / values occur, the three maps refine the abstract map with equal results (values,
    `KeyError`, `TypeError`), stay coherent, and `d[k]` is the last value assigned to `k` by an
    assignment that did not raise; the only calls excluded are assignments with the empty tuple -/
theorem call_history_refines (cs : List (Call K V)) (hv : ∀ c ∈ cs, Op.valid c.toOp) (k : K) :
    Rep (callRun (St.empty : St K V) cs).1 (specRun [] (cs.map Call.toOp)).1 ∧
      (callRun (St.empty : St K V) cs).2 = (specRun ([] : Log K V) (cs.map Call.toOp)).2 ∧
      getitem (callRun (St.empty : St K V) cs).1 k = lastAssigned k (cs.map Call.toOp) none := by
  have hv' : ∀ op ∈ cs.map Call.toOp, Op.valid op := by
    intro op hop
    obtain ⟨c, hc, rfl⟩ := List.mem_map.mp hop
    exact hv c hc
  exact ⟨(run_refines _ hv').1, (run_refines _ hv').2, getitem_last_assigned _ hv' k⟩

/-- **C15.33** StrategyDict assignment with a key argument of any shape: it is the assignment of the
    names exactly when every item is a string and the strategy is hashable; an unhashable or
    non-string item at ANY position, or an unhashable strategy, is refused with the maps, the
    attributes and the default untouched -/
theorem sd_key_argument (s : SD K V) (arg : SKeyArg K) (value : Option V) :
    (∀ (ks : List K) (v : V), arg.items = ks.map .ok → value = some v →
        sdCallStep s (.setitem arg value) = sdStep s (.set ks v)) ∧
    ((∀ ks : List K, arg.items ≠ ks.map .ok) ∨ value = none → sdCallStep s (.setitem arg value) = (s, .rejected)) := by
  constructor
  · intro ks v hk hval
    simp only [sdCallStep, SCall.toOp, hk, hval, classifyNames_map_ok]
  · intro h
    simp only [sdCallStep, SCall.toOp]
    cases hc : classifyNames arg.items with
    | names ks =>
      rcases h with h | h
      · exact absurd (classifyNames_names_iff.mp hc) (h ks)
      · subst h; rfl
    | hasNonStr => rfl
    | hasUnhashable => rfl

/-- **C15.34** histories of StrategyDict CALLS refine the abstract state (map + attributes + default)
    with equal results, whatever the key arguments; the three maps stay coherent -/
theorem sd_call_history_refines (cs : List (SCall K V)) (hv : ∀ c ∈ cs, SOp.valid c.toOp) :
    SDRep (sdCallRun (SD.empty : SD K V) cs).1 (sdSpecRun {} (cs.map SCall.toOp)).1 ∧
      (sdCallRun (SD.empty : SD K V) cs).2 = (sdSpecRun ({} : SDSpec K V) (cs.map SCall.toOp)).2 ∧
      Inv (sdCallRun (SD.empty : SD K V) cs).1.mkd := by
  have hv' : ∀ op ∈ cs.map SCall.toOp, SOp.valid op := by
    intro op hop
    obtain ⟨c, hc, rfl⟩ := List.mem_map.mp hop
    exact hv c hc
  exact sd_run_refines _ hv'

/-! ## the constructor in general -/

/-- **C15.35** `MultiKeyDict(*args, **kwargs)` (a mapping, an iterable of pairs, keyword arguments, keys
    that are tuples taken as key tuples; also `MultiKeyDict.fromkeys`): the arguments are collapsed
    as `dict(...)` does — every key once — and the result is coherent, refines the abstract map of
    the collapsed assignments, and `d[k]` is the last value they assign to `k` -/
theorem ofPairs_coherent (pairs : List (List K × V)) (hne : ∀ e ∈ pairs, e.1 ≠ []) (k : K) :
    ((dictOf pairs).map (·.1)).Nodup ∧ Inv (ofPairs pairs) ∧
      Rep (ofPairs pairs) (specRun [] (ctorOps pairs)).1 ∧
      getitem (ofPairs pairs) k = lastAssigned k (ctorOps pairs) none :=
  ⟨keys_dictOf_nodup pairs, inv_reachable _ (ctorOps_valid hne), (run_refines _ (ctorOps_valid hne)).1,
    getitem_last_assigned _ (ctorOps_valid hne) k⟩

/-- **C15.36** … and for arguments with single keys (a mapping, pairs, keywords), repeated or not: every
    key holds the value of the LAST pair that names it -/
theorem ofPairs_single_last (pairs : List (K × V)) (k : K) :
    getitem (ofPairs (pairs.map fun e => ([e.1], e.2))) k = lastValue pairs k := by
  have hne : ∀ e ∈ pairs.map (fun e : K × V => ([e.1], e.2)), e.1 ≠ [] := by
    intro e he; obtain ⟨x, _, rfl⟩ := List.mem_map.mp he; simp
  rw [(ofPairs_coherent _ hne k).2.2.2]
  unfold ctorOps
  rw [dictOf_map_single, List.map_map]
  have := lastAssigned_singles (dictOf pairs) (keys_dictOf_nodup pairs) k none
  rw [dget_dictOf] at this
  simp only [Function.comp_def]
  rw [this]
  cases lastValue pairs k <;> rfl

/-! ## round 4: every clause for every key shape and for histories with refused calls at any place -/

/-- **C15.37** `sd[k]` is the last strategy assigned to the name `k` by an assignment that did not raise
    (not followed by `del sd[k]`), `KeyError` when there is none — for StrategyDict histories of any
    length with attribute manipulation, default handling and refused operations interleaved; the only
    operation excluded is the deletion of that very name through its attribute (`del sd.k`, whose effect
    on the item depends on the state: C15.13) -/
theorem sd_getitem_last_assigned (ops : List (SOp K V)) (hv : ∀ op ∈ ops, SOp.valid op) (k : K)
    (hk : ∀ op ∈ ops, SOp.notDelattrOf k op) :
    getitem (sdRun (SD.empty : SD K V) ops).1.mkd k = sdLastAssigned k ops none := by
  obtain ⟨h1, _⟩ := sdRun_sim ops sdrep_empty hv
  rw [h1.rep.getitem_eq]
  exact sd_last_assigned_spec k ops {} hk

/-- **C15.38** the same for histories of CALLS (key arguments of any shape, refused assignments with the
    offending item at any position): a refused call assigns nothing -/
theorem sd_call_getitem_last_assigned (cs : List (SCall K V)) (hv : ∀ c ∈ cs, SOp.valid c.toOp) (k : K)
    (hk : ∀ c ∈ cs, c ≠ .delattr (some k)) :
    getitem (sdCallRun (SD.empty : SD K V) cs).1.mkd k = sdLastAssigned k (cs.map SCall.toOp) none := by
  apply sd_getitem_last_assigned
  · intro op hop
    obtain ⟨c, hc, rfl⟩ := List.mem_map.mp hop
    exact hv c hc
  · intro op hop
    obtain ⟨c, hc, rfl⟩ := List.mem_map.mp hop
    have := hk c hc
    cases c with
    | delattr a =>
      cases a with
      | none => trivial
      | some k' => simp only [SCall.toOp, SOp.notDelattrOf]; intro h; subst h; exact this rfl
    | setitem arg value =>
      simp only [SCall.toOp]
      cases classifyNames arg.items <;> cases value <;> trivial
    | getitem arg =>
      cases arg with
      | single i => cases i <;> trivial
      | tuple is => simp only [SCall.toOp]; cases classifyNames is <;> trivial
    | delitem arg =>
      cases arg with
      | single i => cases i <;> trivial
      | tuple is => simp only [SCall.toOp]; cases classifyNames is <;> trivial
    | contains arg =>
      cases arg with
      | single i => cases i <;> trivial
      | tuple is => simp only [SCall.toOp]; cases classifyNames is <;> trivial
    | dictGet arg =>
      cases arg with
      | single i => cases i <;> trivial
      | tuple is => simp only [SCall.toOp]; cases classifyNames is <;> trivial
    | _ => trivial

/-- **C15.39** "deleting a missing key raises KeyError" for EVERY key shape, MultiKeyDict: after any
    history, `del d[arg]` with a hashable argument that is not a bound single key — an unbound key, or a
    tuple of ANY length (0, 1, 2, …) whatever its items — raises `KeyError` (never the `TypeError` of an
    unhashable operand) and changes nothing; `key2keys` alike -/
theorem del_missing_any_shape (ops : List (Op K V)) (hv : ∀ op ∈ ops, Op.valid op) (arg : KeyArg K)
    (hh : KeyItem.unhashable ∉ arg.items) :
    let s := (run (St.empty : St K V) ops).1
    ¬ KeyArg.boundIn s arg →
      callStep s (.delitem arg) = (s, .keyError) ∧ callStep s (.key2keys arg) = (s, .keyError) := by
  intro s hb
  cases arg with
  | single i =>
    cases i with
    | unhashable => simp [KeyArg.items] at hh
    | ok k =>
      have hb : getitem s k = none := by
        cases hg : getitem s k with
        | none => rfl
        | some _ => exact absurd (by simp [KeyArg.boundIn, hg]) hb
      have h : Rep s (specRun ([] : Log K V) ops).1 := (run_sim ops rep_empty hv).1
      refine ⟨(del_missing_keyError ops hv k).1 hb, ?_⟩
      show (s, Res.ofKeys (key2keys s k)) = _
      rw [h.key2keys_eq, specKey2keys, ← h.getitem_eq, hb]; rfl
  | tuple is =>
    obtain ⟨ks, hks⟩ : ∃ ks, allOk is = some ks := by
      cases h : allOk is with
      | some ks => exact ⟨ks, rfl⟩
      | none => exact absurd (allOk_eq_none_iff.mp h) hh
    simp [callStep, Call.toOp, hks, step]

/-- **C15.40** … and StrategyDict: `del sd[arg]` with an argument that holds no unhashable item and is
    not a bound single name — an unbound name, a hashable non-string, a tuple of ANY length (`del sd[()]`,
    `del sd["a", "b"]` with both names bound, a tuple with a non-string) — raises `KeyError` with the
    maps, the attributes and the default untouched -/
theorem sd_del_missing_any_shape (ops : List (SOp K V)) (hv : ∀ op ∈ ops, SOp.valid op) (arg : SKeyArg K)
    (hh : SKeyItem.unhashable ∉ arg.items) :
    let s := (sdRun (SD.empty : SD K V) ops).1
    ¬ SKeyArg.boundIn s arg → sdCallStep s (.delitem arg) = (s, .keyError) := by
  intro s hb
  cases arg with
  | single i =>
    cases i with
    | unhashable => simp [SKeyArg.items] at hh
    | nonStr => rfl
    | ok k =>
      have hb : getitem s.mkd k = none := by
        cases hg : getitem s.mkd k with
        | none => rfl
        | some _ => exact absurd (by simp [SKeyArg.boundIn, hg]) hb
      exact (default_on_del ops hv k).1 hb
  | tuple is =>
    have : classifyNames is ≠ .hasUnhashable := fun h => hh (classifyNames_hasUnhashable_iff.mp h)
    simp only [sdCallStep, SCall.toOp]
    cases hc : classifyNames is with
    | hasUnhashable => exact absurd hc this
    | names _ => rfl
    | hasNonStr => rfl

/-- **C15.40b** a deletion that does NOT raise `KeyError` is the deletion of a bound single name
    (converse of C15.40; an unhashable item gives `TypeError`) -/
theorem sd_del_bound_name (ops : List (SOp K V)) (hv : ∀ op ∈ ops, SOp.valid op) (k : K) (w : V) :
    let s := (sdRun (SD.empty : SD K V) ops).1
    getitem s.mkd k = some w →
      (sdCallStep s (.delitem (.single (.ok k)))).2 = .done ∧
      getitem (sdCallStep s (.delitem (.single (.ok k)))).1.mkd k = none := by
  intro s hk
  obtain ⟨h1, _⟩ := sdRun_sim ops sdrep_empty hv
  rcases sdDelitem_sim h1 k with ⟨hl, _, _⟩ | ⟨s', g', hl, hd, hg, hrep⟩
  · rw [← h1.rep.getitem_eq] at hl; rw [hk] at hl; cases hl
  · have hs : sdCallStep s (.delitem (.single (.ok k))) = (s', .done) := by
      show sdStep (sdRun (SD.empty : SD K V) ops).1 (.del k) = _
      simp only [sdStep, hd]
    rw [hs]
    refine ⟨rfl, ?_⟩
    have := hrep.rep.getitem_eq k
    rw [this, sdSpecDel_log hg k]; simp

/-- **C15.41** a refused assignment ANYWHERE in a history, with the offending item at ANY position of the
    key tuple (a stored name in front of a non-string: `sd["a", 3] = g`; an unhashable name; an
    unhashable strategy): the call raises, and the history runs as if it had never been issued — every
    later result and the final maps, attributes and default are those of the history without it; in
    particular `sd["a"]`, `sd.a`, the default and `len` are untouched -/
theorem sd_refused_call_leaves_no_trace (s : SD K V) (pre rest : List (SCall K V)) (arg : SKeyArg K)
    (value : Option V) (h : (∀ ks : List K, arg.items ≠ ks.map .ok) ∨ value = none) (k : K) :
    let c : SCall K V := .setitem arg value
    let s1 := (sdCallRun s pre).1
    sdCallStep s1 c = (s1, .rejected) ∧
    (sdCallRun s (pre ++ c :: rest)).1 = (sdCallRun s (pre ++ rest)).1 ∧
    (sdCallRun s (pre ++ c :: rest)).2 = (sdCallRun s pre).2 ++ .rejected :: (sdCallRun s1 rest).2 ∧
    getitem (sdCallStep s1 c).1.mkd k = getitem s1.mkd k ∧
    sdGetattr (sdCallStep s1 c).1 (some k) = sdGetattr s1 (some k) ∧
    sdDefault (sdCallStep s1 c).1 = sdDefault s1 ∧ len (sdCallStep s1 c).1.mkd = len s1.mkd := by
  intro c s1
  have hc : sdCallStep s1 c = (s1, .rejected) := (sd_key_argument s1 arg value).2 h
  have hc' : sdStep (sdRun s (pre.map SCall.toOp)).1 c.toOp = ((sdRun s (pre.map SCall.toOp)).1, .rejected) := hc
  refine ⟨hc, ?_, ?_, by rw [hc], by rw [hc], by rw [hc], by rw [hc]⟩
  · simp only [sdCallRun, List.map_append, List.map_cons, sdRun_append, sdRun, hc']
  · simp only [sdCallRun, List.map_append, List.map_cons, sdRun_append, sdRun, hc']
    rfl

omit [DecidableEq K] in
/-- **C15.41b** the hypothesis of C15.41 in the words of the caller: a non-string or an unhashable item
    SOMEWHERE in the key argument (whatever stands in front of it or behind it) -/
theorem sd_bad_item_anywhere {arg : SKeyArg K} (h : SKeyItem.nonStr ∈ arg.items ∨ SKeyItem.unhashable ∈ arg.items) :
    ∀ ks : List K, arg.items ≠ ks.map SKeyItem.ok := by
  intro ks he
  rw [he] at h
  rcases h with h | h <;> simp at h

/-- **C15.42** every name is exposed as an attribute equal to the item after any history of CALLS —
    refused assignments included — that does not assign name attributes by hand -/
theorem sd_call_attr_equals_item (cs : List (SCall K V)) (hv : ∀ c ∈ cs, SOp.valid c.toOp)
    (hn : ∀ c ∈ cs, SOp.noSetattr c.toOp) (k : K) :
    sdGetattr (sdCallRun (SD.empty : SD K V) cs).1 (some k)
      = getitem (sdCallRun (SD.empty : SD K V) cs).1.mkd k := by
  apply attr_equals_item
  · intro op hop; obtain ⟨c, hc, rfl⟩ := List.mem_map.mp hop; exact hv c hc
  · intro op hop; obtain ⟨c, hc, rfl⟩ := List.mem_map.mp hop; exact hn c hc

/-- **C15.43** the default is the first strategy stored, for histories of CALLS: after `sd[keys0] = v0`
    on a new StrategyDict, whatever calls follow — refused ones at any place — that neither re-assign
    nor delete the name `k0 ∈ keys0` nor touch `default` by hand, the default (and what a call of the
    dict calls) is `v0` -/
theorem sd_call_default_first_stored (keys0 : List K) (v0 : V) (k0 : K) (hk0 : k0 ∈ keys0)
    (cs : List (SCall K V)) (hv : ∀ c ∈ cs, SOp.valid c.toOp) (hkeep : ∀ c ∈ cs, SOp.keepsName k0 c.toOp) :
    let s := (sdCallRun (SD.empty : SD K V) (.setitem (.tuple (keys0.map .ok)) (some v0) :: cs)).1
    sdDefault s = some v0 ∧ (sdStep s .call).2 = .val v0 ∧ getitem s.mkd k0 = some v0 := by
  have h := default_is_first_stored keys0 v0 k0 hk0 (cs.map SCall.toOp)
    (by intro op hop; obtain ⟨c, hc, rfl⟩ := List.mem_map.mp hop; exact hv c hc)
    (by intro op hop; obtain ⟨c, hc, rfl⟩ := List.mem_map.mp hop; exact hkeep c hc)
  simpa only [sdCallRun, List.map_cons, SCall.toOp, SKeyArg.items, classifyNames_map_ok] using h


/-! ## outside the property, as coded: the NAME `default` (why the assumption "names differ from `default`" is needed) -/

/-- **C15.44** `sd["default"] = v` (as coded, `dn` = the key spelled `"default"`): whenever it succeeds, `v` IS
    the default afterwards — whatever strategy was stored first — because the attribute exposing the name is
    the instance's `default`; and while the name is not stored, deleting it is the ordinary `KeyError` -/
theorem default_name_becomes_default (s : SD K V) (dn : K) (v : V) :
    ((sdSetDefaultName s dn v).2 = .done → sdDefault (sdSetDefaultName s dn v).1 = some v ∧
        sdGetattr (sdSetDefaultName s dn v).1 none = some v) ∧
    (key2keys s.mkd dn = none → sdDelDefaultName s dn = (s, .keyError)) := by
  constructor
  · intro h
    unfold sdSetDefaultName at h ⊢
    generalize sdDelDefaultName s dn = r at h ⊢
    obtain ⟨s1, r1⟩ := r
    cases r1 <;> first
      | (simp only at h; cases h)
      | (simp only at h ⊢
         cases hs : setitem s1.mkd [dn] v with
         | none => rw [hs] at h; simp only at h; cases h
         | some mk' => simp only [sdDefault, sdGetattr, dget_dset]; simp)
  · intro h
    simp only [sdDelDefaultName, h]

/-- **C15.45** … so with that name the clauses of the property fail (the model follows the code, the tie
    runs it — entry `sdn`): after `sd["a"] = 10; sd["default"] = 20` the default is 20, not the first
    strategy stored, although `a` still holds it (cf. C15.17); `del sd["default"]` then raises
    `AttributeError` AFTER the item and the default were removed (cf. C15.29: in the property's domain an
    operation that raises leaves no trace); and assigning the name a second time fails half-way the same way -/
theorem default_name_breaks_the_clauses :
    let s0 := (sdRun (SD.empty : SD Nat Nat) [.set [1] 10]).1
    let s1 := (sdSetDefaultName s0 9 20).1
    (sdSetDefaultName s0 9 20).2 = .done ∧ sdDefault s0 = some 10 ∧ sdDefault s1 = some 20 ∧
      getitem s1.mkd 1 = some 10 ∧ getitem s1.mkd 9 = some 20 ∧
    (sdDelDefaultName s1 9).2 = .attrError ∧ getitem (sdDelDefaultName s1 9).1.mkd 9 = none ∧
      sdDefault (sdDelDefaultName s1 9).1 = none ∧ len (sdDelDefaultName s1 9).1.mkd = 1 ∧
    (sdSetDefaultName s1 9 30).2 = .attrError ∧ getitem (sdSetDefaultName s1 9 30).1.mkd 9 = none ∧
    (sdDelattrDefaultName s1 9).2 = .attrError ∧ getitem (sdDelattrDefaultName s1 9).1.mkd 9 = none := by
  decide

/-- **C15.46** … and a default that keeps another name is still dropped: `sd["default", …]`-free witness
    `sd["default"] = 20; sd["a"] = 20` (one strategy, names `default` and `a`), then `del sd["default"]`
    succeeds and removes the default although the strategy keeps the name `a` (cf. C15.19) -/
theorem default_name_drops_default_that_keeps_a_name :
    let s := (sdStep (sdSetDefaultName (SD.empty : SD Nat Nat) 9 20).1 (.set [1] 20)).1
    value2keys s.mkd 20 = [9, 1] ∧ sdDefault s = some 20 ∧ (sdDelDefaultName s 9).2 = .done ∧
      getitem (sdDelDefaultName s 9).1.mkd 1 = some 20 ∧ sdDefault (sdDelDefaultName s 9).1 = none := by
  decide

/-! ## non-vacuity: the hypotheses are satisfiable and the statements speak about real histories -/

/-- the docstring example of `MultiKeyDict` -/
example : (run (St.empty : St Nat Nat)
    [.set [1] 3, .set [2] 3, .set [4] 2, .set [1] 2, .len, .get 1, .get 2, .get 4, .del 7]).2
    = [.done, .done, .done, .done, .num 2, .val 2, .val 3, .val 2, .keyError] := by decide
example : (run (St.empty : St Nat Nat) [.set [1] 3, .set [2] 3, .set [4] 2, .set [1] 2]).1.store
    = [([2], 3), ([4, 1], 2)] := by decide
example : (specRun ([] : Log Nat Nat) [.set [1] 3, .set [2] 3, .set [4] 2, .set [1] 2]).1
    = [(2, 3), (4, 2), (1, 2)] := by decide
example : ∀ op ∈ ([.set [1, 2, 1] 3, .del 2] : List (Op Nat Nat)), Op.valid op := by
  intro op h; simp at h; rcases h with rfl | rfl <;> simp [Op.valid]
example : dedupLast [1, 2, 1, 3, 2] = [1, 3, 2] := by decide
example : lastAssigned 1 ([.set [1, 2] 0, .set [2] 5, .del 2, .set [3, 1] 7] : List (Op Nat Nat)) none
    = some 7 := by decide

/-- `Inv` / `Rep` hold on a state with merged, overwritten and deleted keys -/
example : Inv (run (St.empty : St Nat Nat) [.set [1, 2] 3, .set [4] 3, .set [2] 7, .del 1]).1 :=
  inv_reachable _ (by intro op h; simp at h; rcases h with rfl | rfl | rfl | rfl <;> simp [Op.valid])
example : Rep (run (St.empty : St Nat Nat) [.set [1, 2] 3, .set [4] 3, .set [2] 7, .del 1]).1 [(4, 3), (2, 7)] :=
  (run_refines _ (by intro op h; simp at h; rcases h with rfl | rfl | rfl | rfl <;> simp [Op.valid])).1
example : (run (St.empty : St Nat Nat) [.set [1, 2] 3, .set [4] 3, .set [2] 7, .del 1]).1.store
    = [([2], 7), ([4], 3)] := by decide
/-- `≈` relates genuinely different logs (hypothesis of C15.5b) -/
example : Log.equiv ([(1, 3), (2, 7), (4, 3)] : Log Nat Nat) [(2, 7), (1, 3), (4, 3)] := by
  intro v
  by_cases h3 : (3 : Nat) = v <;> by_cases h7 : (7 : Nat) = v <;> first | omega | simp [keysOf, h3, h7]
/-- hypotheses of C15.16 / C15.18 / C15.19 on reachable states -/
example : sdDefault (sdRun (SD.empty : SD Nat Nat) [.set [1] 10, .set [2] 20, .del 1]).1 = none := by decide
example : sdDefault (sdRun (SD.empty : SD Nat Nat) [.set [1, 2] 10, .set [3] 20]).1 = some 10 ∧
    value2keys (sdRun (SD.empty : SD Nat Nat) [.set [1, 2] 10, .set [3] 20]).1.mkd 10 = [1, 2] := by decide
/-- the docstring example of `StrategyDict`, then the default losing its only name -/
example : (sdRun (SD.empty : SD Nat Nat)
    [.set [1] 10, .set [2, 3] 20, .call, .getattr 3, .del 1, .call, .set [4] 30, .default, .delattr (some 4),
     .getattr 4, .get 4]).2
    = [.done, .done, .val 10, .val 20, .done, .notImpl, .done, .val 30, .done, .attrError, .keyError] := by
  decide
example : ∀ op ∈ ([.set [5] 1, .del 7, .setattr (some 9) 3] : List (SOp Nat Nat)), SOp.keepsName 2 op := by
  intro op h; simp at h; rcases h with rfl | rfl | rfl <;> simp [SOp.keepsName]
example : ∀ op ∈ ([.set [5] 1, .delattr (some 5), .setattr none 3] : List (SOp Nat Nat)), SOp.noSetattr op := by
  intro op h; simp at h; rcases h with rfl | rfl | rfl <;> simp [SOp.noSetattr]
example : sdDefault (sdRun (SD.empty : SD Nat Nat) [.set [1, 2] 10, .set [3] 20, .set [2, 1] 30]).1 = some 30 := by
  decide

/-- histories with rejected operations interleaved are valid histories (hypothesis of C15.6 / C15.12e) -/
example : ∀ op ∈ ([.set [1] 3, .setUnhashable [1, 2], .badOperand, .del 1] : List (Op Nat Nat)), Op.valid op := by
  intro op h; simp at h; rcases h with rfl | rfl | rfl | rfl <;> simp [Op.valid]
example : (run (St.empty : St Nat Nat) [.set [1] 3, .set [2] 3, .set [5] 4, .setUnhashable [1], .get 1, .key2keys 2,
    .badOperand, .len]).2 = [.done, .done, .done, .rejected, .val 3, .keys [1, 2], .rejected, .num 2] := by decide
/-- hypothesis of C15.12h on a reachable state: `d[[]] = 7` with 7 not stored; and the prefix that
    C15.12g speaks about when it is not empty -/
example : ∀ k ∈ badKeyPrefix (run (St.empty : St Nat Nat) [.set [1, 2] 1]).1 [] [] 7,
    key2keys (run (St.empty : St Nat Nat) [.set [1, 2] 1]).1 k = none := by decide
example : badKeyPrefix (run (St.empty : St Nat Nat) [.set [1, 2] 1, .set [3] 2]).1 [3, 4] [1] 1 = [2, 3, 4] := by decide
/-- hypothesis of C15.23, and a refused assignment in a valid-history context -/
example : ∀ k ∈ [3, 4], key2keys (sdRun (SD.empty : SD Nat Nat) [.set [1] 10]).1.mkd k = none := by decide
example : (sdRun (SD.empty : SD Nat Nat) [.set [1] 10, .rejected, .setRefused [3], .call, .setRefused [1], .call]).2
    = [.done, .rejected, .rejected, .val 10, .rejected, .val 10] := by decide

/-- C15.25-27: items, orders, `in` on a reachable state -/
example : specItems (specRun ([] : Log Nat Nat) [.set [1] 3, .set [2] 3, .set [4] 2, .set [1] 2]).1
    = [([2], 3), ([4, 1], 2)] := by decide
example : (run (St.empty : St Nat Nat) [.set [1, 2] 3, .set [4] 7, .del 1, .contains [2], .contains [1, 2],
    .dictGet [4], .dictGet [9], .const (.bool false)]).2
    = [.done, .done, .done, .bool true, .bool false, .val 7, .pyNone, .bool false] := by decide
/-- the orders of C15.26 differ from the order of the abstract map (hence `Perm` in C15.25): after
    `del 1` the value 3 moves to the end of the iteration -/
example : iterValues (run (St.empty : St Nat Nat) [.set [1, 2] 3, .set [4] 7, .del 1]).1 = [7, 3] ∧
    specValues (specRun ([] : Log Nat Nat) [.set [1, 2] 3, .set [4] 7, .del 1]).1 = [3, 7] := by decide
/-- hypotheses of C15.28 / C15.29 / C15.30 are satisfiable, at every position of a tuple -/
example : Res.raised (step (run (St.empty : St Nat Nat) [.set [1] 3]).1 (.del 9)).2 := by
  have : (step (run (St.empty : St Nat Nat) [.set [1] 3]).1 (.del 9)).2 = .keyError := by decide
  rw [this]; trivial
example : Res.raised (sdStep (sdRun (SD.empty : SD Nat Nat) [.set [1] 3]).1 (.delattr (some 9))).2 := by
  have : (sdStep (sdRun (SD.empty : SD Nat Nat) [.set [1] 3]).1 (.delattr (some 9))).2 = .attrError := by decide
  rw [this]; trivial
example : KeyItem.unhashable ∈ (KeyArg.tuple [.ok 1, .unhashable, .ok (2 : Nat)]).items := by simp [KeyArg.items]
example : (callRun (St.empty : St Nat Nat)
    [.setitem (.tuple [.ok 1, .ok 2]) (some 3), .setitem (.tuple [.ok 1, .unhashable]) (some 4),
     .setitem (.tuple [.unhashable, .ok 2]) (some 4), .setitem (.single (.ok 1)) none,
     .delitem (.tuple [.ok 1, .ok 2]), .delitem (.tuple []), .getitem (.tuple [.ok 1, .ok 2]),
     .getitem (.tuple [.ok 2, .ok 1]), .contains (.single (.ok 1)), .contains (.tuple [.ok 1, .ok 2]),
     .delitem (.single .unhashable), .getitem (.single (.ok 1)), .len]).2
    = [.done, .rejected, .rejected, .rejected, .keyError, .keyError, .val 3, .keyError, .bool false, .bool true,
       .rejected, .val 3, .num 1] := by decide
example : ∀ c ∈ ([.setitem (.tuple [.ok 1, .unhashable]) (some 4), .setitem (.tuple []) none,
    .delitem (.tuple [])] : List (Call Nat Nat)), Op.valid c.toOp := by
  intro c h; simp at h; rcases h with rfl | rfl | rfl <;> simp [Call.toOp, KeyArg.items, allOk, Op.valid]
/-- C15.33 / C15.34: names, a non-string and an unhashable item at each position -/
example : (sdCallRun (SD.empty : SD Nat Nat)
    [.setitem (.tuple [.ok 1, .ok 2]) (some 10), .setitem (.tuple [.ok 1, .nonStr]) (some 20),
     .setitem (.tuple [.nonStr, .ok 1]) (some 20), .setitem (.tuple [.ok 2, .unhashable, .nonStr]) (some 20),
     .setitem (.single (.ok 1)) none, .getitem (.single .nonStr), .delitem (.single .nonStr),
     .delitem (.tuple [.ok 1, .ok 2]), .getitem (.tuple [.ok 1, .ok 2]), .call, .getattr 2, .len]).2
    = [.done, .rejected, .rejected, .rejected, .rejected, .keyError, .keyError, .keyError, .val 10, .val 10,
       .val 10, .num 1] := by decide
example : (∀ ks : List Nat, (SKeyArg.tuple [.ok 1, .nonStr]).items ≠ ks.map SKeyItem.ok) := by
  intro ks h
  match ks with
  | [] => simp [SKeyArg.items] at h
  | [_] => simp [SKeyArg.items] at h
  | _ :: _ :: r => simp [SKeyArg.items] at h
/-- C15.35: repeated keys (first position, last value) and a tuple key in the mapping -/
example : (ofPairs ([([1], 5), ([2], 6), ([1], 6), ([3, 4], 5)] : List (List Nat × Nat))).store
    = [([1, 2], 6), ([3, 4], 5)] := by decide
example : ∀ e ∈ ([([1], 5), ([2], 6), ([1], 6), ([3, 4], 5)] : List (List Nat × Nat)), e.1 ≠ [] := by decide
example : lastValue ([(1, 5), (2, 6), (1, 6)] : List (Nat × Nat)) 1 = some 6 ∧
    getitem (ofPairs ([(1, 5), (2, 6), (1, 6)].map fun e : Nat × Nat => ([e.1], e.2))) 1 = some 6 := by decide

/-- C15.37 / C15.38: a history with attribute manipulation, a refused assignment to the name itself and a
    deletion through ANOTHER name's attribute satisfies the hypothesis; the hypothesis is needed —
    `del sd.k` removes the item `k` (when attribute and item are equal) -/
example : ∀ op ∈ ([.set [1, 2] 10, .setattr (some 1) 7, .delattr (some 2), .setRefused [1], .delattr none]
    : List (SOp Nat Nat)), SOp.notDelattrOf 1 op := by
  intro op h; simp at h; rcases h with rfl | rfl | rfl | rfl | rfl <;> simp [SOp.notDelattrOf]
example : getitem (sdRun (SD.empty : SD Nat Nat)
      [.set [1, 2] 10, .setattr (some 1) 7, .delattr (some 2), .setRefused [1], .delattr none]).1.mkd 1 = some 10 ∧
    sdLastAssigned 1 ([.set [1, 2] 10, .setattr (some 1) 7, .delattr (some 2), .setRefused [1], .delattr none]
      : List (SOp Nat Nat)) none = some 10 := by decide
example : getitem (sdRun (SD.empty : SD Nat Nat) [.set [1] 10, .delattr (some 1)]).1.mkd 1 = none ∧
    sdLastAssigned 1 ([.set [1] 10, .delattr (some 1)] : List (SOp Nat Nat)) none = some 10 := by decide
/-- C15.39 / C15.40: arguments that are not bound single keys, of every shape (both names of the tuple
    are bound, the empty tuple, a 1-tuple of a bound name, a non-string inside), and the results on the
    model: `KeyError` every time, the dict as it was -/
example : ¬ KeyArg.boundIn (run (St.empty : St Nat Nat) [.set [1, 2] 3]).1 (.tuple [.ok 1, .ok 2]) ∧
    ¬ KeyArg.boundIn (run (St.empty : St Nat Nat) [.set [1, 2] 3]).1 (.tuple [.ok 1]) ∧
    ¬ KeyArg.boundIn (run (St.empty : St Nat Nat) [.set [1, 2] 3]).1 (.single (.ok 7)) := by
  refine ⟨fun h => h, fun h => h, ?_⟩
  have : getitem (run (St.empty : St Nat Nat) [.set [1, 2] 3]).1 7 = none := by decide
  simp [KeyArg.boundIn, this]
example : KeyArg.boundIn (run (St.empty : St Nat Nat) [.set [1, 2] 3]).1 (.single (.ok 2)) := by
  have : getitem (run (St.empty : St Nat Nat) [.set [1, 2] 3]).1 2 = some 3 := by decide
  simp [KeyArg.boundIn, this]
example : SKeyItem.unhashable ∉ (SKeyArg.tuple [.ok 1, .nonStr, .ok (2 : Nat)]).items := by simp [SKeyArg.items]
example : (sdCallRun (SD.empty : SD Nat Nat)
    [.setitem (.tuple [.ok 1, .ok 2]) (some 10), .delitem (.tuple []), .delitem (.tuple [.ok 1]),
     .delitem (.tuple [.ok 1, .ok 2]), .delitem (.tuple [.ok 2, .nonStr, .ok 1]), .delitem (.single (.ok 7)),
     .delitem (.tuple [.ok 1, .unhashable]), .len, .getitem (.single (.ok 1)), .delitem (.single (.ok 1)),
     .getitem (.single (.ok 1)), .getitem (.single (.ok 2))]).2
    = [.done, .keyError, .keyError, .keyError, .keyError, .keyError, .rejected, .num 1, .val 10, .done,
       .keyError, .val 10] := by decide
/-- C15.41: `sd["a"] = f; sd["b"] = g; sd["a", 3] = h` (a stored name in front of the non-string) and
    `sd["b", <unhashable>, "a"] = h` in the middle of a history: refused, and `sd["a"]`, `sd.a`, the default
    and `len` answer as before -/
example : (sdCallRun (SD.empty : SD Nat Nat)
    [.setitem (.single (.ok 1)) (some 10), .setitem (.single (.ok 2)) (some 20),
     .setitem (.tuple [.ok 1, .nonStr]) (some 30), .getitem (.single (.ok 1)), .getattr 1, .default, .len,
     .setitem (.tuple [.ok 2, .unhashable, .ok 1]) (some 30), .getitem (.single (.ok 2)), .getattr 2, .call, .len]).2
    = [.done, .done, .rejected, .val 10, .val 10, .val 10, .num 2, .rejected, .val 20, .val 20, .val 10, .num 2] := by
  decide
example : SKeyItem.nonStr ∈ (SKeyArg.tuple [.ok (1 : Nat), .nonStr]).items ∨
    SKeyItem.unhashable ∈ (SKeyArg.tuple [.ok (1 : Nat), .nonStr]).items := by simp [SKeyArg.items]
/-- C15.42 / C15.43: call histories with refused assignments satisfy the hypotheses -/
example : ∀ c ∈ ([.setitem (.tuple [.ok 5, .nonStr]) (some 1), .delitem (.tuple []), .setitem (.single (.ok 5)) none,
    .setitem (.tuple [.ok 5, .ok 6]) (some 2), .delattr (some 5)] : List (SCall Nat Nat)),
    SOp.valid c.toOp ∧ SOp.noSetattr c.toOp ∧ SOp.keepsName 2 c.toOp := by
  intro c h; simp at h
  rcases h with rfl | rfl | rfl | rfl | rfl <;>
    simp [SCall.toOp, SKeyArg.items, classifyNames, namesBefore, SOp.valid, SOp.noSetattr, SOp.keepsName]
/-- C15.44: both hypotheses are satisfiable (the first one also on a state where the name is stored under
    another default: C15.45) -/
example : key2keys (sdRun (SD.empty : SD Nat Nat) [.set [1] 10]).1.mkd 9 = none ∧
    (sdSetDefaultName (sdRun (SD.empty : SD Nat Nat) [.set [1] 10]).1 9 20).2 = .done := by decide

/-! ## round 5: the model is REGENERATED from the source (translator `harness/props/c15_tr.py`)

  `ALV.Gen.C15.*` are the bodies of the methods of `audiolazy/lazy_core.py` as they are NOW, translated statement by
  statement in source order into the model's vocabulary (monad `Except Err`; `keyErr` / `attrErr` name the exception a
  primitive raises).  The theorems below say that they ARE the hand-written model functions that every theorem above is
  about (`keyErr (f …)`: the model's `none` is a `KeyError`, and the regenerated code raises nothing else).  An edit of a
  method that changes its meaning — a swapped comparison, two statements in another order, a dropped deletion, a
  validation moved behind a mutation — breaks the corresponding theorem on the next run. -/

set_option linter.unusedSectionVars false

/-- **C15.S1** `MultiKeyDict.__getitem__` with a key: through `_keys_dict`, then the storage -/
theorem src_getitem_is_model :
    (ALV.Gen.C15.getitem : St K V → K → Except Err V) = fun s key => keyErr (getitem s key) := by
  funext s key; exact ALV.C15.src_getitem s key
/-- **C15.S2** `MultiKeyDict.__getitem__` with a key tuple: the storage directly -/
theorem src_getTuple_is_model :
    (ALV.Gen.C15.getTuple : St K V → List K → Except Err V) = fun s kt => keyErr (getTuple s kt) := rfl
/-- **C15.S3** `key2keys` -/
theorem src_key2keys_is_model :
    (ALV.Gen.C15.key2keys : St K V → K → Except Err (List K)) = fun s key => keyErr (key2keys s key) := rfl
/-- **C15.S4** `value2keys` never raises -/
theorem src_value2keys_is_model : (ALV.Gen.C15.value2keys : St K V → V → List K) = value2keys := rfl
/-- **C15.S5** `MultiKeyDict.__iter__` -/
theorem src_iterValues_is_model : (ALV.Gen.C15.iterValues : St K V → List V) = iterValues := rfl
/-- **C15.S6** `MultiKeyDict.__delitem__`: the two look-ups, the three deletions, the re-insertion of the shortened tuple,
    in this order -/
theorem src_delitem_is_model :
    (ALV.Gen.C15.delitem : St K V → K → Except Err (St K V)) = fun s key => keyErr (delitem s key) := by
  funext s key; exact ALV.C15.src_delitem s key
/-- **C15.S7** `MultiKeyDict.__setitem__`: merge with the value's old keys, de-duplication loop, deletion loop (calling
    the regenerated `__delitem__`), the three assignments -/
theorem src_setitem_is_model :
    (ALV.Gen.C15.setitem : St K V → List K → V → Except Err (St K V)) = fun s keys v => keyErr (setitem s keys v) := by
  funext s keys v; exact ALV.C15.src_setitem s keys v
/-- **C15.S8** `MultiKeyDict.__setitem__` with an unhashable item in the key tuple: the statement that hashes the key
    comes before every statement that changes a dict — the state returned with the rejection is the state given,
    i.e. `step` on `Op.setBadKey` (read off the ORDER of the statements) -/
theorem src_setitemBadKey_is_model (b a : List K) :
    (ALV.Gen.C15.setitemBadKey : St K V → V → St K V × Res K V) = fun s v => step s (.setBadKey b a v) := rfl
/-- **C15.S9** the same for an unhashable value (`value in self._inv_dict` is the first statement that hashes it) -/
theorem src_setitemUnhashable_is_model :
    (ALV.Gen.C15.setitemUnhashable : St K V → List K → St K V × Res K V) = fun s keys => step s (.setUnhashable keys) :=
  rfl
/-- **C15.S10** `StrategyDict.__delitem__`: both comparisons are made BEFORE `super().__delitem__`, the two
    `object.__delattr__` after it; in particular the regenerated code raises `KeyError` or nothing (the
    `AttributeError` of `object.__delattr__` / `getattr` cannot come out) -/
theorem src_sdDelitem_is_model :
    (ALV.Gen.C15.sdDelitem : SD K V → K → Except Err (SD K V)) = fun s key => keyErr (sdDelitem s key) := by
  funext s key; exact ALV.C15.src_sdDelitem s key
/-- **C15.S11** `StrategyDict.__setitem__`: the `try: del self[k] except KeyError: pass` loop, `super().__setitem__`,
    the `setattr` loop, the default -/
theorem src_sdSetitem_is_model :
    (ALV.Gen.C15.sdSetitem : SD K V → List K → V → Except Err (SD K V)) = fun s keys v => keyErr (sdSetitem s keys v) := by
  funext s keys v; exact ALV.C15.src_sdSetitem s keys v
/-- **C15.S12** `StrategyDict.__setitem__` with an unhashable name / strategy: `hash((keys, value))` comes before the
    deletion loop — `sdStep` on `SOp.setRefused` -/
theorem src_sdSetBadKey_is_model (d : List K) :
    (ALV.Gen.C15.sdSetBadKey : SD K V → V → SD K V × Res K V) = fun s _ => sdStep s (.setRefused d) := rfl
theorem src_sdSetUnhashable_is_model :
    (ALV.Gen.C15.sdSetUnhashable : SD K V → List K → SD K V × Res K V) = fun s keys => sdStep s (.setRefused keys) := rfl
/-- **C15.S13** `StrategyDict.__delattr__` of a strategy name and of `default` (here `KeyError` and `AttributeError`
    are told apart: the handler catches the first only) -/
theorem src_sdDelattrName_is_model :
    (ALV.Gen.C15.sdDelattrName : SD K V → K → Except Err (SD K V)) = fun s k => sdDelattr s (some k) := by
  funext s k; exact ALV.C15.src_sdDelattrName s k
theorem src_sdDelattrDefault_is_model :
    (ALV.Gen.C15.sdDelattrDefault : SD K V → Except Err (SD K V)) = fun s => sdDelattr s none := by
  funext s; exact ALV.C15.src_sdDelattrDefault s
/-- **C15.S14** `StrategyDict.__call__` calls `self.default` with the caller's arguments; `__iter__` = the stored values -/
theorem src_sdCall_is_model : (ALV.Gen.C15.sdCall : SD K V → Option V) = sdDefault := rfl
theorem src_sdIter_is_model : (ALV.Gen.C15.sdIter : SD K V → List V) = sdIter := rfl

/-- **C15.S15** what the tie buys: a theorem about the model is a theorem about the regenerated code.  From a coherent
    dict, the `__setitem__` read from the source either raises `KeyError` or returns a coherent dict (C15.2) … -/
theorem src_setitem_keeps_coherence {s s' : St K V} (h : Inv s) (keys : List K) (hk : keys ≠ []) (v : V)
    (hs : ALV.Gen.C15.setitem s keys v = .ok s') : Inv s' := by
  rw [ALV.C15.src_setitem] at hs
  have := inv_step h (.set keys v) (by simpa [Op.valid] using hk)
  cases hm : setitem s keys v with
  | none => rw [hm] at hs; cases hs
  | some s1 =>
    rw [hm] at hs; cases hs
    simpa [step, hm] using this
/-- … and the `__delitem__` read from the source likewise -/
theorem src_delitem_keeps_coherence {s s' : St K V} (h : Inv s) (key : K)
    (hs : ALV.Gen.C15.delitem s key = .ok s') : Inv s' := by
  rw [ALV.C15.src_delitem] at hs
  have := inv_step h (.del key) (by simp [Op.valid])
  cases hm : delitem s key with
  | none => rw [hm] at hs; cases hs
  | some s1 =>
    rw [hm] at hs; cases hs
    simpa [step, hm] using this

/-- the regenerated functions run: `d[1, 2] = 10; d[3] = 10; del d[1]` on the code read from the source -/
example : ((ALV.Gen.C15.setitem (St.empty : St Nat Nat) [1, 2] 10).bind fun s =>
      (ALV.Gen.C15.setitem s [3] 10).bind fun s => (ALV.Gen.C15.delitem s 1).map fun s => s.store).toOption
    = some [([2, 3], 10)] := by decide
example : (ALV.Gen.C15.delitem (St.empty : St Nat Nat) 1).toOption.isNone = true := by decide

end ALV.Props.C15

#write_audit "C15"
