import ALV.Model.C15
import ALV.Spec.C15
import ALV.Common.Audit

namespace ALV.Props.C15
open ALV.C15

theorem placeholder_empty_get (k : Nat) : getitem (St.empty : St Nat Nat) k = none := rfl

end ALV.Props.C15

#write_audit "C15"
