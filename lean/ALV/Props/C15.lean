/-
  C15 — property theorems: MultiKeyDict / StrategyDict stay coherent under any update history.
  Only statements of the property, non-vacuity examples and the audit live here; the helper
  lemmas are in `ALV.Lemmas.C15`, `ALV.Lemmas.C15MK`.

  Vocabulary (definitions in `ALV.Model.C15` / `ALV.Spec.C15`):
    `St K V`        the three maps `_keys_dict`, `_inv_dict`, storage;  `step`, `run` = the code
    `Log K V`       the abstract key -> value map, bindings ordered by most recent assignment;
                    `specStep`, `specRun` = the property
    `Inv s`         the three maps are mutually consistent (one tuple per value, tuples partition
                    the keys, `_keys_dict` = membership in the tuples, storage = `_inv_dict` reversed)
    `Rep s l`       `Inv s`, and every value's tuple lists its keys in the order of `l`
    `Op.valid`      key tuples of assignments are non-empty (the property's quantifier)
  All theorems hold for every key type `K` and value type `V` with decidable equality and for
  histories of any length.
-/
import ALV.Lemmas.C15MK
import ALV.Common.Audit

namespace ALV.Props.C15
open ALV.C15
variable {K V : Type} [DecidableEq K] [DecidableEq V]

/-! ## the invariant -/

/-- **C15.1** the empty dict is coherent -/
theorem inv_init : Inv (St.empty : St K V) := rep_empty.inv

/-- **C15.2** every operation preserves coherence, from *any* coherent state -/
theorem inv_step {s : St K V} (h : Inv s) (op : Op K V) (hv : Op.valid op) : Inv (step s op).1 :=
  (step_sim h.rep_absLog op hv).1.inv

/-- **C15.3** hence every reachable state is coherent (induction over the history) -/
theorem inv_reachable (ops : List (Op K V)) (hv : ∀ op ∈ ops, Op.valid op) :
    Inv (run (St.empty : St K V) ops).1 :=
  (run_sim ops rep_empty hv).1.inv

/-! ## refinement: the three maps behave as the abstract key -> value map -/

/-- **C15.4** one step: the new state represents the abstract successor, the caller sees the same
    result (value, key tuple, length or `KeyError`) -/
theorem step_refines {s : St K V} {l : Log K V} (h : Rep s l) (op : Op K V) (hv : Op.valid op) :
    Rep (step s op).1 (specStep l op).1 ∧ (step s op).2 = (specStep l op).2 :=
  step_sim h op hv

/-- **C15.5** the same with the abstraction *function* `absLog`: `abs (step s op) ≈ specStep (abs s) op`
    (`≈` = the same map with the same grouping), from any coherent state -/
theorem abs_refines {s : St K V} (h : Inv s) (op : Op K V) (hv : Op.valid op) :
    Log.equiv (absLog (step s op).1) (specStep (absLog s) op).1 ∧
      (step s op).2 = (specStep (absLog s) op).2 := by
  obtain ⟨h1, h2⟩ := step_sim h.rep_absLog op hv
  refine ⟨fun v => ?_, h2⟩
  rw [← h1.inv.rep_absLog.groups v, h1.groups v]

/-- **C15.6** whole histories: same results at every step, final state represents the final map -/
theorem run_refines (ops : List (Op K V)) (hv : ∀ op ∈ ops, Op.valid op) :
    Rep (run (St.empty : St K V) ops).1 (specRun [] ops).1 ∧
      (run (St.empty : St K V) ops).2 = (specRun ([] : Log K V) ops).2 :=
  run_sim ops rep_empty hv

/-! ## corollaries in the words of the property -/

/-- **C15.7** `d[k]` is the last value assigned to `k` (by an assignment whose tuple contains `k`,
    not followed by a deletion of `k`); `KeyError` when there is none -/
theorem getitem_last_assigned (ops : List (Op K V)) (hv : ∀ op ∈ ops, Op.valid op) (k : K) :
    getitem (run (St.empty : St K V) ops).1 k = lastAssigned k ops none := by
  rw [(run_sim ops rep_empty hv).1.getitem_eq k]
  exact last_assigned_spec k ops []

/-- **C15.8** each value owns exactly one key tuple: the storage is, up to order, one entry per
    distinct value, whose key is the tuple of all keys bound to that value (`keysOf`);
    `key2keys` and lookup by tuple agree with it -/
theorem value_owns_one_tuple (ops : List (Op K V)) (hv : ∀ op ∈ ops, Op.valid op) :
    let s := (run (St.empty : St K V) ops).1
    let l := (specRun ([] : Log K V) ops).1
    s.store.Perm ((specValues l).map (fun v => (keysOf l v, v))) ∧
    (∀ v, value2keys s v = keysOf l v) ∧
    (∀ k v, getitem s k = some v → key2keys s k = some (keysOf l v) ∧ getTuple s (keysOf l v) = some v) := by
  intro s l
  have h : Rep s l := (run_sim ops rep_empty hv).1
  refine ⟨h.items_perm, h.groups, ?_⟩
  intro k v hk
  have hl : dget l k = some v := by rw [← h.getitem_eq]; exact hk
  refine ⟨by rw [h.key2keys_eq]; simp [specKey2keys, hl], ?_⟩
  obtain ⟨t, ht, _⟩ := h.mem_log.mp (dget_some_mem hl)
  have : keysOf l v = t := by rw [← h.groups, h.inv.v2k_of_mem ht]
  rw [this]; exact h.inv.store_get ht

/-- **C15.9** … listing its keys in order of most recent assignment: after `d[keys] = v` the tuple
    of `v` is its older keys that were not given again, in their previous order, followed by the
    given keys (a key given twice counts at its last position); other tuples just lose the given keys -/
theorem recency_order (l : Log K V) (keys : List K) (v w : V) :
    keysOf (specSet l keys v) v = (keysOf l v).filter (fun k => k ∉ keys) ++ dedupLast keys ∧
    (w ≠ v → keysOf (specSet l keys v) w = (keysOf l w).filter (fun k => k ∉ keys)) := by
  unfold specSet
  constructor
  · rw [keysOf_append, keysOf_map_same, keysOf_filter l (fun k => decide (k ∉ keys))]
  · intro hw
    rw [keysOf_append, keysOf_map_other _ (Ne.symm hw), List.append_nil,
      keysOf_filter l (fun k => decide (k ∉ keys))]

/-- **C15.10** the de-duplication loop of the code keeps the last occurrence of every key -/
theorem dedup_keeps_last (keys : List K) :
    dedupLastCode keys = dedupLast keys ∧ (dedupLast keys).Nodup ∧ ∀ k, k ∈ dedupLast keys ↔ k ∈ keys :=
  ⟨dedupLastCode_eq keys, nodup_dedupLast keys, fun _ => mem_dedupLast⟩

/-- **C15.11** `len` and iteration count values, not keys: iteration yields every bound value
    exactly once and `len` is their number -/
theorem len_iter_count_values (ops : List (Op K V)) (hv : ∀ op ∈ ops, Op.valid op) :
    let s := (run (St.empty : St K V) ops).1
    (iterValues s).Nodup ∧ (∀ v, v ∈ iterValues s ↔ ∃ k, getitem s k = some v) ∧
      len s = (iterValues s).length := by
  intro s
  have h : Rep s (specRun ([] : Log K V) ops).1 := (run_sim ops rep_empty hv).1
  refine ⟨h.inv.invNodup, fun v => ?_, ?_⟩
  · rw [h.mem_iter, mem_specValues]
    constructor
    · rintro ⟨k, hk⟩; exact ⟨k, by rw [h.getitem_eq]; exact dget_of_mem_nodup h.logNodup hk⟩
    · rintro ⟨k, hk⟩; exact ⟨k, dget_some_mem (by rw [← h.getitem_eq]; exact hk)⟩
  · rw [h.len_eq, h.iter_perm.length_eq]; rfl

/-- **C15.12** deleting a missing key raises `KeyError` and changes nothing; deleting a bound key
    succeeds and unbinds exactly that key -/
theorem del_missing_keyError (ops : List (Op K V)) (hv : ∀ op ∈ ops, Op.valid op) (k : K) :
    let s := (run (St.empty : St K V) ops).1
    (getitem s k = none → step s (.del k) = (s, .keyError)) ∧
    (∀ v, getitem s k = some v → (step s (.del k)).2 = .done ∧
        ∀ k', getitem (step s (.del k)).1 k' = if k' = k then none else getitem s k') := by
  intro s
  have h : Rep s (specRun ([] : Log K V) ops).1 := (run_sim ops rep_empty hv).1
  constructor
  · intro hk
    rcases delitem_sim h k with ⟨_, hd⟩ | ⟨s', hl, _, _⟩
    · simp [step, hd]
    · rw [← h.getitem_eq, hk] at hl; cases hl
  · intro v hk
    rcases delitem_sim h k with ⟨hl, _⟩ | ⟨s', _, hd, hrep⟩
    · rw [← h.getitem_eq, hk] at hl; cases hl
    · simp only [step, hd, true_and]
      intro k'
      rw [hrep.getitem_eq, h.getitem_eq, dget_filter_key _ (fun x => decide (x ≠ k))]
      by_cases hkk : k' = k <;> simp [hkk]

/-! ## non-vacuity: the hypotheses are satisfiable and the statements speak about real histories -/

/-- the docstring example of `MultiKeyDict` -/
example : (run (St.empty : St Nat Nat)
    [.set [1] 3, .set [2] 3, .set [4] 2, .set [1] 2, .len, .get 1, .get 2, .get 4, .del 7]).2
    = [.done, .done, .done, .done, .num 2, .val 2, .val 3, .val 2, .keyError] := by decide
example : (run (St.empty : St Nat Nat) [.set [1] 3, .set [2] 3, .set [4] 2, .set [1] 2]).1.store
    = [([2], 3), ([4, 1], 2)] := by decide
example : (specRun ([] : Log Nat Nat) [.set [1] 3, .set [2] 3, .set [4] 2, .set [1] 2]).1
    = [(2, 3), (4, 2), (1, 2)] := by decide
example : ∀ op ∈ ([.set [1, 2, 1] 3, .del 2] : List (Op Nat Nat)), Op.valid op := by
  intro op h; simp at h; rcases h with rfl | rfl <;> simp [Op.valid]
example : dedupLast [1, 2, 1, 3, 2] = [1, 3, 2] := by decide
example : lastAssigned 1 ([.set [1, 2] 0, .set [2] 5, .del 2, .set [3, 1] 7] : List (Op Nat Nat)) none
    = some 7 := by decide

end ALV.Props.C15

#write_audit "C15"
