/-
  C15 — property theorems: MultiKeyDict / StrategyDict stay coherent under any update history.
  Only statements of the property, non-vacuity examples and the audit live here; the helper
  lemmas are in `ALV.Lemmas.C15`, `ALV.Lemmas.C15MK`, `ALV.Lemmas.C15SD`.

  Vocabulary (definitions in `ALV.Model.C15` / `ALV.Spec.C15`):
    `St K V`        the three maps `_keys_dict`, `_inv_dict`, storage;  `step`, `run` = the code
    `Log K V`       the abstract key -> value map, bindings ordered by most recent assignment;
                    `specStep`, `specRun` = the property
    `Inv s`         the three maps are mutually consistent (one tuple per value, tuples partition
                    the keys, `_keys_dict` = membership in the tuples, storage = `_inv_dict` reversed)
    `Rep s l`       `Inv s`, and every value's tuple lists its keys in the order of `l`
    `Op.valid`      key tuples of assignments are non-empty (the property's quantifier) and hold no
                    unhashable key;  `Op.nonEmpty` only the former
    rejected ops    `Op.setUnhashable`, `Op.badOperand`, `SOp.rejected`: an operand cannot be hashed, the
                    code raises in its first statement;  `Op.setBadKey`, `SOp.setRefused`: as the code
                    is today the exception comes half-way (model = code, spec = nothing changes)
    `SD K V`        StrategyDict: the three maps + `vars(self)` (name attributes and `default`);
                    `sdStep`, `sdRun` = the code;  `SDSpec`, `sdSpecStep` = the property;
                    `SDRep s g` = `Rep` on the maps, equal attributes, equal default
  All theorems hold for every key type `K` and value type `V` with decidable equality and for
  histories of any length.
-/
import ALV.Lemmas.C15SD
import ALV.Common.Audit

namespace ALV.Props.C15
open ALV.C15
variable {K V : Type} [DecidableEq K] [DecidableEq V]

/-! ## the invariant -/

/-- **C15.1** the empty dict is coherent -/
theorem inv_init : Inv (St.empty : St K V) := rep_empty.inv

/-- **C15.2** every operation preserves coherence, from *any* coherent state -/
theorem inv_step {s : St K V} (h : Inv s) (op : Op K V) (hv : Op.valid op) : Inv (step s op).1 :=
  (step_sim h.rep_absLog op hv).1.inv

/-- **C15.3** hence every reachable state is coherent (induction over the history) -/
theorem inv_reachable (ops : List (Op K V)) (hv : ∀ op ∈ ops, Op.valid op) :
    Inv (run (St.empty : St K V) ops).1 :=
  (run_sim ops rep_empty hv).1.inv

/-! ## refinement: the three maps behave as the abstract key -> value map -/

/-- **C15.4** one step: the new state represents the abstract successor, the caller sees the same
    result (value, key tuple, length or `KeyError`) -/
theorem step_refines {s : St K V} {l : Log K V} (h : Rep s l) (op : Op K V) (hv : Op.valid op) :
    Rep (step s op).1 (specStep l op).1 ∧ (step s op).2 = (specStep l op).2 :=
  step_sim h op hv

/-- **C15.5** the same with the abstraction *function* `absLog`: `abs (step s op) ≈ specStep (abs s) op`
    (`≈` = the same map with the same grouping), from any coherent state -/
theorem abs_refines {s : St K V} (h : Inv s) (op : Op K V) (hv : Op.valid op) :
    Log.equiv (absLog (step s op).1) (specStep (absLog s) op).1 ∧
      (step s op).2 = (specStep (absLog s) op).2 := by
  obtain ⟨h1, h2⟩ := step_sim h.rep_absLog op hv
  refine ⟨fun v => ?_, h2⟩
  rw [← h1.inv.rep_absLog.groups v, h1.groups v]

/-- **C15.5b** `≈` loses nothing the property talks about: two abstract maps with the same grouping
    bind every key to the same value (and by definition give every value the same key tuple) -/
theorem equiv_same_map {l l' : Log K V} (hn : (l.map (·.1)).Nodup) (hn' : (l'.map (·.1)).Nodup)
    (h : Log.equiv l l') (k : K) : specGet l k = specGet l' k := by
  unfold specGet
  have key : ∀ {a b : Log K V}, (b.map (·.1)).Nodup → Log.equiv a b → ∀ v, dget a k = some v → dget b k = some v := by
    intro a b hb hab v hv
    have : k ∈ keysOf b v := by rw [← hab v]; exact mem_keysOf.mpr (dget_some_mem hv)
    exact dget_of_mem_nodup hb (mem_keysOf.mp this)
  cases h1 : dget l k with
  | some v => exact (key hn' h v h1).symm
  | none =>
    cases h2 : dget l' k with
    | none => rfl
    | some v =>
      have := key hn (fun w => (h w).symm) v h2
      rw [h1] at this; cases this

/-- **C15.6** whole histories: same results at every step, final state represents the final map -/
theorem run_refines (ops : List (Op K V)) (hv : ∀ op ∈ ops, Op.valid op) :
    Rep (run (St.empty : St K V) ops).1 (specRun [] ops).1 ∧
      (run (St.empty : St K V) ops).2 = (specRun ([] : Log K V) ops).2 :=
  run_sim ops rep_empty hv

/-! ## corollaries in the words of the property -/

/-- **C15.7** `d[k]` is the last value assigned to `k` (by an assignment whose tuple contains `k`,
    not followed by a deletion of `k`); `KeyError` when there is none -/
theorem getitem_last_assigned (ops : List (Op K V)) (hv : ∀ op ∈ ops, Op.valid op) (k : K) :
    getitem (run (St.empty : St K V) ops).1 k = lastAssigned k ops none := by
  rw [(run_sim ops rep_empty hv).1.getitem_eq k]
  exact last_assigned_spec k ops []

/-- **C15.8** each value owns exactly one key tuple: the storage is, up to order, one entry per
    distinct value, whose key is the tuple of all keys bound to that value (`keysOf`);
    `key2keys` and lookup by tuple agree with it -/
theorem value_owns_one_tuple (ops : List (Op K V)) (hv : ∀ op ∈ ops, Op.valid op) :
    let s := (run (St.empty : St K V) ops).1
    let l := (specRun ([] : Log K V) ops).1
    s.store.Perm ((specValues l).map (fun v => (keysOf l v, v))) ∧
    (∀ v, value2keys s v = keysOf l v) ∧
    (∀ k v, getitem s k = some v → key2keys s k = some (keysOf l v) ∧ getTuple s (keysOf l v) = some v) := by
  intro s l
  have h : Rep s l := (run_sim ops rep_empty hv).1
  refine ⟨h.items_perm, h.groups, ?_⟩
  intro k v hk
  have hl : dget l k = some v := by rw [← h.getitem_eq]; exact hk
  refine ⟨by rw [h.key2keys_eq]; simp [specKey2keys, hl], ?_⟩
  obtain ⟨t, ht, _⟩ := h.mem_log.mp (dget_some_mem hl)
  have : keysOf l v = t := by rw [← h.groups, h.inv.v2k_of_mem ht]
  rw [this]; exact h.inv.store_get ht

/-- **C15.9** … listing its keys in order of most recent assignment: after `d[keys] = v` the tuple
    of `v` is its older keys that were not given again, in their previous order, followed by the
    given keys (a key given twice counts at its last position); other tuples just lose the given keys -/
theorem recency_order (l : Log K V) (keys : List K) (v w : V) :
    keysOf (specSet l keys v) v = (keysOf l v).filter (fun k => k ∉ keys) ++ dedupLast keys ∧
    (w ≠ v → keysOf (specSet l keys v) w = (keysOf l w).filter (fun k => k ∉ keys)) := by
  unfold specSet
  constructor
  · rw [keysOf_append, keysOf_map_same, keysOf_filter l (fun k => decide (k ∉ keys))]
  · intro hw
    rw [keysOf_append, keysOf_map_other _ (Ne.symm hw), List.append_nil,
      keysOf_filter l (fun k => decide (k ∉ keys))]

/-- **C15.10** the de-duplication loop of the code keeps the last occurrence of every key -/
theorem dedup_keeps_last (keys : List K) :
    dedupLastCode keys = dedupLast keys ∧ (dedupLast keys).Nodup ∧ ∀ k, k ∈ dedupLast keys ↔ k ∈ keys :=
  ⟨dedupLastCode_eq keys, nodup_dedupLast keys, fun _ => mem_dedupLast⟩

/-- **C15.11** `len` and iteration count values, not keys: iteration yields every bound value
    exactly once and `len` is their number -/
theorem len_iter_count_values (ops : List (Op K V)) (hv : ∀ op ∈ ops, Op.valid op) :
    let s := (run (St.empty : St K V) ops).1
    (iterValues s).Nodup ∧ (∀ v, v ∈ iterValues s ↔ ∃ k, getitem s k = some v) ∧
      len s = (iterValues s).length := by
  intro s
  have h : Rep s (specRun ([] : Log K V) ops).1 := (run_sim ops rep_empty hv).1
  refine ⟨h.inv.invNodup, fun v => ?_, ?_⟩
  · rw [h.mem_iter, mem_specValues]
    constructor
    · rintro ⟨k, hk⟩; exact ⟨k, by rw [h.getitem_eq]; exact dget_of_mem_nodup h.logNodup hk⟩
    · rintro ⟨k, hk⟩; exact ⟨k, dget_some_mem (by rw [← h.getitem_eq]; exact hk)⟩
  · rw [h.len_eq, h.iter_perm.length_eq]; rfl

/-- **C15.12** deleting a missing key raises `KeyError` and changes nothing; deleting a bound key
    succeeds and unbinds exactly that key -/
theorem del_missing_keyError (ops : List (Op K V)) (hv : ∀ op ∈ ops, Op.valid op) (k : K) :
    let s := (run (St.empty : St K V) ops).1
    (getitem s k = none → step s (.del k) = (s, .keyError)) ∧
    (∀ v, getitem s k = some v → (step s (.del k)).2 = .done ∧
        ∀ k', getitem (step s (.del k)).1 k' = if k' = k then none else getitem s k') := by
  intro s
  have h : Rep s (specRun ([] : Log K V) ops).1 := (run_sim ops rep_empty hv).1
  constructor
  · intro hk
    rcases delitem_sim h k with ⟨_, hd⟩ | ⟨s', hl, _, _⟩
    · simp [step, hd]
    · rw [← h.getitem_eq, hk] at hl; cases hl
  · intro v hk
    rcases delitem_sim h k with ⟨hl, _⟩ | ⟨s', _, hd, hrep⟩
    · rw [← h.getitem_eq, hk] at hl; cases hl
    · simp only [step, hd, true_and]
      intro k'
      rw [hrep.getitem_eq, h.getitem_eq, dget_filter_key _ (fun x => decide (x ≠ k))]
      by_cases hkk : k' = k <;> simp [hkk]

/-- **C15.12b** the constructor `MultiKeyDict(mapping)` yields a coherent dict in which every key of
    the mapping holds its (last) value -/
theorem ofDict_coherent (items : List (K × V)) (k : K) :
    Inv (ofDict items) ∧
      getitem (ofDict items) k = lastAssigned k (items.map fun e => Op.set [e.1] e.2) none := by
  have hv : ∀ op ∈ items.map (fun e => Op.set [e.1] e.2), Op.valid op := by
    intro op hop
    obtain ⟨e, _, rfl⟩ := List.mem_map.mp hop
    simp [Op.valid]
  exact ⟨inv_reachable _ hv, getitem_last_assigned _ hv k⟩

/-- **C15.12c** the hypothesis `Op.valid` is needed: assigning with the *empty* key tuple leaves the
    three maps incoherent — a value without keys, and after a second such assignment `len` (1) no
    longer counts the values iteration yields (2).  (Recorded as a known finding of the code.) -/
theorem empty_tuple_breaks_coherence :
    let s := (run (St.empty : St Nat Nat) [.set [] 5, .set [] 6]).1
    len s = 1 ∧ iterValues s = [5, 6] ∧ value2keys s 5 = [] ∧ ¬ Inv s := by
  refine ⟨by decide, by decide, by decide, fun h => ?_⟩
  exact h.tupNe (5, []) (by decide) rfl

/-! ## operations that raise: unhashable values and keys -/

/-- **C15.12d** a rejected operation is a no-op: assigning an unhashable value (`d[k] = []`,
    whatever the keys) and every lookup / deletion with an unhashable operand raise and leave the
    three maps exactly as they were — in ANY state — so the rest of the history runs as if the
    operation had never been issued; the abstract map says the same -/
theorem rejected_op_is_noop (s : St K V) (l : Log K V) (keys : List K) (rest : List (Op K V)) :
    step s (.setUnhashable keys) = (s, .rejected) ∧ step s .badOperand = (s, .rejected) ∧
    specStep l (.setUnhashable keys) = (l, .rejected) ∧ specStep l .badOperand = (l, .rejected) ∧
    run s (.setUnhashable keys :: rest) = ((run s rest).1, .rejected :: (run s rest).2) ∧
    run s (.badOperand :: rest) = ((run s rest).1, .rejected :: (run s rest).2) :=
  ⟨rfl, rfl, rfl, rfl, rfl, rfl⟩

/-- **C15.12e** … and `d[k]` is still the last value assigned by an assignment that did not raise:
    histories with rejected operations interleaved are covered by C15.6 / C15.7 (`Op.valid` admits
    them, `lastAssigned` skips them); stated here for one rejected assignment to the key itself -/
theorem rejected_assignment_assigns_nothing (ops : List (Op K V)) (hv : ∀ op ∈ ops, Op.valid op)
    (k : K) (keys : List K) :
    getitem (run (St.empty : St K V) (ops ++ [.setUnhashable (k :: keys)])).1 k
      = getitem (run (St.empty : St K V) ops).1 k := by
  have hv' : ∀ op ∈ ops ++ [Op.setUnhashable (k :: keys)], Op.valid op := by
    intro op hop
    rcases List.mem_append.mp hop with h | h
    · exact hv op h
    · simp at h; subst h; trivial
  rw [getitem_last_assigned _ hv', getitem_last_assigned _ hv]
  have : ∀ (o : List (Op K V)) (cur : Option V),
      lastAssigned k (o ++ [Op.setUnhashable (k :: keys)]) cur = lastAssigned k o cur := by
    intro o
    induction o with
    | nil => intro cur; rfl
    | cons op r ih => intro cur; cases op <;> simp only [List.cons_append, lastAssigned, ih]
  exact this ops none

/-- **C15.12f** coherence survives every operation, the one that fails half-way included: from any
    coherent state, whatever the operation (only the empty key tuple is excluded, C15.12c) -/
theorem inv_step_any {s : St K V} (h : Inv s) (op : Op K V) (hv : Op.nonEmpty op) : Inv (step s op).1 :=
  step_inv_any h op hv

/-- **C15.12g** an assignment whose key tuple holds an unhashable key, as the code is today: it
    raises, and the dict is the abstract map WITHOUT the keys that stood in front of the unhashable
    one (the assigned value's own older keys included) — nothing else is touched -/
theorem setBadKey_refines_deletion (ops : List (Op K V)) (hv : ∀ op ∈ ops, Op.valid op)
    (before after : List K) (v : V) :
    let s := (run (St.empty : St K V) ops).1
    let l := (specRun ([] : Log K V) ops).1
    Rep (step s (.setBadKey before after v)).1 (l.filter (fun e => e.1 ∉ badKeyPrefix s before after v)) ∧
      (step s (.setBadKey before after v)).2 = .rejected :=
  setBadKey_sim (run_sim ops rep_empty hv).1 before after v

/-- **C15.12h** … hence it is the no-op the property asks for when none of those keys holds a value
    (in particular `d[[]] = v` for a value not stored yet) -/
theorem setBadKey_noop_when_prefix_unbound (s : St K V) (before after : List K) (v : V)
    (h : ∀ k ∈ badKeyPrefix s before after v, key2keys s k = none) :
    step s (.setBadKey before after v) = (s, .rejected) := by
  have : delLoop s (badKeyPrefix s before after v) = some s :=
    delLoop_unbound _ s (fun k hk => by
      have := h k hk
      simp only [key2keys] at this
      simp [dhas, this])
  simp only [step, setitemBadKey, this]

/-- **C15.12i** … and is NOT a no-op otherwise: the hypothesis of C15.12h is needed.  `a, b -> 1`,
    `c -> 2`, then `d[("c", [])] = 1` raises `TypeError` after all three keys lost their values.
    (Recorded as a known finding of the code; the property's answer is `specStep`: nothing changes.) -/
theorem setBadKey_breaks_atomicity :
    let s := (run (St.empty : St Nat Nat) [.set [1, 2] 1, .set [3] 2]).1
    (step s (.setBadKey [3] [] 1)).2 = .rejected ∧ len (step s (.setBadKey [3] [] 1)).1 = 0 ∧
      getitem s 1 = some 1 ∧ getitem (step s (.setBadKey [3] [] 1)).1 1 = none ∧
      (specStep ([(1, 1), (2, 1), (3, 2)] : Log Nat Nat) (.setBadKey [3] [] 1)).1 = [(1, 1), (2, 1), (3, 2)] := by
  decide

/-! ## StrategyDict -/

/-- **C15.13** one StrategyDict operation (assignment, deletion, lookup, attribute access /
    assignment / deletion, `default`, call): the new state represents the abstract successor and
    the caller sees the same result (value, `KeyError`, `AttributeError`, `NotImplemented`) -/
theorem sd_step_refines {s : SD K V} {g : SDSpec K V} (h : SDRep s g) (op : SOp K V)
    (hv : SOp.valid op) :
    SDRep (sdStep s op).1 (sdSpecStep g op).1 ∧ (sdStep s op).2 = (sdSpecStep g op).2 :=
  sdStep_sim h op hv

/-- **C15.14** whole StrategyDict histories; in particular the three maps stay coherent -/
theorem sd_run_refines (ops : List (SOp K V)) (hv : ∀ op ∈ ops, SOp.valid op) :
    SDRep (sdRun (SD.empty : SD K V) ops).1 (sdSpecRun {} ops).1 ∧
      (sdRun (SD.empty : SD K V) ops).2 = (sdSpecRun ({} : SDSpec K V) ops).2 ∧
      Inv (sdRun (SD.empty : SD K V) ops).1.mkd := by
  obtain ⟨h1, h2⟩ := sdRun_sim ops sdrep_empty hv
  exact ⟨h1, h2, h1.rep.inv⟩

/-- **C15.14b** a StrategyDict iterates its strategies: every stored strategy exactly once -/
theorem sd_iter_values (ops : List (SOp K V)) (hv : ∀ op ∈ ops, SOp.valid op) :
    (sdIter (sdRun (SD.empty : SD K V) ops).1).Perm (specValues (sdSpecRun ({} : SDSpec K V) ops).1.log) ∧
      len (sdRun (SD.empty : SD K V) ops).1.mkd = (sdIter (sdRun (SD.empty : SD K V) ops).1).length := by
  obtain ⟨h1, _⟩ := sdRun_sim ops sdrep_empty hv
  have hp := h1.rep.items_perm.map (·.2)
  simp only [specItems, List.map_map] at hp
  have hid : ((fun x : List K × V => x.2) ∘ fun v => (keysOf (sdSpecRun ({} : SDSpec K V) ops).1.log v, v)) = id := rfl
  rw [hid, List.map_id] at hp
  exact ⟨hp, by simp [sdIter, storeValues, len]⟩

/-- **C15.15** every name is exposed as an attribute equal to the item (and no other name is):
    `getattr(sd, k)` = `sd[k]`, `AttributeError` exactly where `sd[k]` raises `KeyError` — after
    any history that does not assign name attributes by hand (`sd.name = x`) -/
theorem attr_equals_item (ops : List (SOp K V)) (hv : ∀ op ∈ ops, SOp.valid op)
    (hn : ∀ op ∈ ops, SOp.noSetattr op) (k : K) :
    sdGetattr (sdRun (SD.empty : SD K V) ops).1 (some k)
      = getitem (sdRun (SD.empty : SD K V) ops).1.mkd k := by
  obtain ⟨h1, _⟩ := sdRun_sim ops sdrep_empty hv
  have hc : AttrCoherent (sdSpecRun ({} : SDSpec K V) ops).1 :=
    sdSpecRun_attrCoherent ops (fun _ => rfl) hn
  rw [sdGetattr, h1.attr, h1.rep.getitem_eq, hc k]

/-- **C15.16** the default is the first strategy stored — when there is no default, the strategy
    stored next becomes the default -/
theorem default_first_stored (ops : List (SOp K V)) (hv : ∀ op ∈ ops, SOp.valid op)
    (keys : List K) (hk : keys ≠ []) (v : V) :
    let s := (sdRun (SD.empty : SD K V) ops).1
    sdDefault s = none → sdDefault (sdStep s (.set keys v)).1 = some v := by
  intro s hd
  obtain ⟨h1, _⟩ := sdRun_sim ops sdrep_empty hv
  obtain ⟨h2, _⟩ := sdStep_sim h1 (.set keys v) hk
  have hg : (sdSpecRun ({} : SDSpec K V) ops).1.default = none := by rw [← h1.dflt]; exact hd
  rw [sdDefault, h2.dflt]
  simp [sdSpecStep, sdSpecSet, hg]

/-- **C15.17** … and it stays the default as long as it keeps one of its names: if `k0` is among
    the names of the first strategy stored and the rest of the history neither re-assigns nor
    deletes `k0` (nor touches `default` by hand), the default — and what a call calls — is that
    first strategy, whatever else happens to the dict -/
theorem default_is_first_stored (keys0 : List K) (v0 : V) (k0 : K) (hk0 : k0 ∈ keys0)
    (rest : List (SOp K V)) (hv : ∀ op ∈ rest, SOp.valid op)
    (hkeep : ∀ op ∈ rest, SOp.keepsName k0 op) :
    let s := (sdRun (SD.empty : SD K V) (.set keys0 v0 :: rest)).1
    sdDefault s = some v0 ∧ (sdStep s .call).2 = .val v0 ∧ getitem s.mkd k0 = some v0 := by
  intro s
  have hv' : ∀ op ∈ (SOp.set keys0 v0 :: rest), SOp.valid op := by
    intro op hop
    rcases List.mem_cons.mp hop with rfl | h
    · exact List.ne_nil_of_mem hk0
    · exact hv op h
  obtain ⟨h1, _⟩ := sdRun_sim _ sdrep_empty hv'
  have hstart : dget (sdSpecStep ({} : SDSpec K V) (.set keys0 v0)).1.log k0 = some v0 ∧
      (sdSpecStep ({} : SDSpec K V) (.set keys0 v0)).1.default = some v0 := by
    simp only [sdSpecStep, sdSpecSet]
    exact ⟨by rw [dget_specSet]; simp [hk0], trivial⟩
  obtain ⟨h2, h3⟩ := sdSpecRun_keeps rest hkeep hstart.1 hstart.2
  have hd : sdDefault s = some v0 := by rw [sdDefault, h1.dflt]; exact h3
  refine ⟨hd, ?_, ?_⟩
  · simp only [sdStep, hd]; rfl
  · rw [h1.rep.getitem_eq]; exact h2

/-- **C15.18** … re-chosen after the default loses all its names: an assignment keeps the default
    `w` unless every name of `w` is among the assigned names, in which case the newly stored
    strategy becomes the default -/
theorem default_rechosen_on_set (ops : List (SOp K V)) (hv : ∀ op ∈ ops, SOp.valid op)
    (keys : List K) (hk : keys ≠ []) (v w : V) :
    let s := (sdRun (SD.empty : SD K V) ops).1
    sdDefault s = some w →
    sdDefault (sdStep s (.set keys v)).1 =
      if value2keys s.mkd w ≠ [] ∧ ∀ k ∈ value2keys s.mkd w, k ∈ keys then some v else some w := by
  intro s hd
  obtain ⟨h1, _⟩ := sdRun_sim ops sdrep_empty hv
  obtain ⟨h2, _⟩ := sdStep_sim h1 (.set keys v) hk
  have hg : (sdSpecRun ({} : SDSpec K V) ops).1.default = some w := by rw [← h1.dflt]; exact hd
  rw [sdDefault, h2.dflt, h1.rep.groups w]
  simp only [sdSpecStep, sdSpecSet, hg]
  by_cases hc : keysOf (sdSpecRun ({} : SDSpec K V) ops).1.log w ≠ [] ∧
      ∀ k ∈ keysOf (sdSpecRun ({} : SDSpec K V) ops).1.log w, k ∈ keys
  · rw [if_pos hc, if_pos (losesAllNames_iff.mpr hc)]
  · rw [if_neg hc, if_neg (fun h => hc (losesAllNames_iff.mp h))]

/-- **C15.19** deleting a name: the default goes exactly when that name was the last name of the
    default strategy (then `sd.default` is the class-level `NotImplemented` function until the
    next assignment, C15.16); deleting a missing name raises `KeyError` and changes nothing -/
theorem default_on_del (ops : List (SOp K V)) (hv : ∀ op ∈ ops, SOp.valid op) (k : K) :
    let s := (sdRun (SD.empty : SD K V) ops).1
    (getitem s.mkd k = none → sdStep s (.del k) = (s, .keyError)) ∧
    (∀ w, getitem s.mkd k = some w →
      sdDefault (sdStep s (.del k)).1 =
        if sdDefault s = some w ∧ value2keys s.mkd w = [k] then none else sdDefault s) := by
  intro s
  obtain ⟨h1, _⟩ := sdRun_sim ops sdrep_empty hv
  constructor
  · intro hk
    rcases sdDelitem_sim h1 k with ⟨_, hd, _⟩ | ⟨s', g', hl, _, _, _⟩
    · show sdStep (sdRun (SD.empty : SD K V) ops).1 (.del k) = _
      simp only [sdStep, hd]; rfl
    · rw [← h1.rep.getitem_eq] at hl; rw [hk] at hl; cases hl
  · intro w hk
    obtain ⟨h2, _⟩ := sdStep_sim h1 (.del k) trivial
    have hl : dget (sdSpecRun ({} : SDSpec K V) ops).1.log k = some w := by
      rw [← h1.rep.getitem_eq]; exact hk
    rw [sdDefault, h2.dflt, sdDefault, h1.dflt, h1.rep.groups w]
    simp only [sdSpecStep, sdSpecDel, hl]

/-- **C15.20** calling the dict calls the default (`NotImplemented` when there is none) -/
theorem call_calls_default (s : SD K V) :
    sdStep s .call = (s, Res.ofDefault (sdDefault s)) ∧ sdStep s .default = (s, Res.ofDefault (sdDefault s)) :=
  ⟨rfl, rfl⟩

/-- **C15.21** a StrategyDict operation refused in its first statement (unhashable name looked up or
    deleted) is a no-op in any state, and the rest of the history runs as if it had not been issued -/
theorem sd_rejected_op_is_noop (s : SD K V) (g : SDSpec K V) (rest : List (SOp K V)) :
    sdStep s .rejected = (s, .rejected) ∧ sdSpecStep g .rejected = (g, .rejected) ∧
    sdRun s (.rejected :: rest) = ((sdRun s rest).1, .rejected :: (sdRun s rest).2) :=
  ⟨rfl, rfl, rfl⟩

/-- **C15.22** a StrategyDict assignment that is refused after the deletion loop (unhashable strategy,
    unhashable name in the tuple), as the code is today: it raises; the three maps stay coherent and
    the state is the one in which the names `deleted` were deleted one by one — their bindings are
    gone, the default is gone when it lost all its names, other attributes are untouched -/
theorem sd_refused_set_refines_deletion (ops : List (SOp K V)) (hv : ∀ op ∈ ops, SOp.valid op)
    (deleted : List K) :
    let s := (sdRun (SD.empty : SD K V) ops).1
    let g := (sdSpecRun ({} : SDSpec K V) ops).1
    (sdStep s (.setRefused deleted)).2 = .rejected ∧ Inv (sdStep s (.setRefused deleted)).1.mkd ∧
    (∀ k, getitem (sdStep s (.setRefused deleted)).1.mkd k = if k ∈ deleted then none else getitem s.mkd k) ∧
    sdDefault (sdStep s (.setRefused deleted)).1 = defaultAfterLoss g.log g.default deleted := by
  intro s g
  obtain ⟨h, _⟩ := sdRun_sim ops sdrep_empty hv
  obtain ⟨⟨g1, h1, hlog, _, hd⟩, hr⟩ := sdSetRefused_sim h deleted
  refine ⟨hr, h1.rep.inv, fun k => ?_, by rw [sdDefault, h1.dflt, hd]⟩
  rw [h1.rep.getitem_eq, hlog, h.rep.getitem_eq, dget_filter_key _ (fun x => decide (x ∉ deleted))]
  by_cases hk : k ∈ deleted <;> simp [hk]

/-- **C15.23** … hence the no-op the property asks for when none of those names holds a strategy -/
theorem sd_refused_set_noop_when_unbound (s : SD K V) (deleted : List K)
    (h : ∀ k ∈ deleted, key2keys s.mkd k = none) :
    sdStep s (.setRefused deleted) = (s, .rejected) := by
  simp only [sdStep, sdSetRefused, sdDelLoop_unbound deleted s h]

/-- **C15.24** … and NOT a no-op otherwise: `sd["a"] = f0; sd["b"] = f1`, then `sd["a"] = <unhashable>`
    raises `TypeError` after name `a`, its attribute and the default are gone.  (Recorded as a
    known finding of the code; the property's answer is `sdSpecStep`: nothing changes.) -/
theorem sd_refused_set_breaks_atomicity :
    let s := (sdRun (SD.empty : SD Nat Nat) [.set [1] 10, .set [2] 20]).1
    (sdStep s (.setRefused [1])).2 = .rejected ∧ getitem s.mkd 1 = some 10 ∧ sdDefault s = some 10 ∧
      getitem (sdStep s (.setRefused [1])).1.mkd 1 = none ∧ sdDefault (sdStep s (.setRefused [1])).1 = none ∧
      sdGetattr (sdStep s (.setRefused [1])).1 (some 1) = none := by
  decide

/-! ## non-vacuity: the hypotheses are satisfiable and the statements speak about real histories -/

/-- the docstring example of `MultiKeyDict` -/
example : (run (St.empty : St Nat Nat)
    [.set [1] 3, .set [2] 3, .set [4] 2, .set [1] 2, .len, .get 1, .get 2, .get 4, .del 7]).2
    = [.done, .done, .done, .done, .num 2, .val 2, .val 3, .val 2, .keyError] := by decide
example : (run (St.empty : St Nat Nat) [.set [1] 3, .set [2] 3, .set [4] 2, .set [1] 2]).1.store
    = [([2], 3), ([4, 1], 2)] := by decide
example : (specRun ([] : Log Nat Nat) [.set [1] 3, .set [2] 3, .set [4] 2, .set [1] 2]).1
    = [(2, 3), (4, 2), (1, 2)] := by decide
example : ∀ op ∈ ([.set [1, 2, 1] 3, .del 2] : List (Op Nat Nat)), Op.valid op := by
  intro op h; simp at h; rcases h with rfl | rfl <;> simp [Op.valid]
example : dedupLast [1, 2, 1, 3, 2] = [1, 3, 2] := by decide
example : lastAssigned 1 ([.set [1, 2] 0, .set [2] 5, .del 2, .set [3, 1] 7] : List (Op Nat Nat)) none
    = some 7 := by decide

/-- `Inv` / `Rep` hold on a state with merged, overwritten and deleted keys -/
example : Inv (run (St.empty : St Nat Nat) [.set [1, 2] 3, .set [4] 3, .set [2] 7, .del 1]).1 :=
  inv_reachable _ (by intro op h; simp at h; rcases h with rfl | rfl | rfl | rfl <;> simp [Op.valid])
example : Rep (run (St.empty : St Nat Nat) [.set [1, 2] 3, .set [4] 3, .set [2] 7, .del 1]).1 [(4, 3), (2, 7)] :=
  (run_refines _ (by intro op h; simp at h; rcases h with rfl | rfl | rfl | rfl <;> simp [Op.valid])).1
example : (run (St.empty : St Nat Nat) [.set [1, 2] 3, .set [4] 3, .set [2] 7, .del 1]).1.store
    = [([2], 7), ([4], 3)] := by decide
/-- `≈` relates genuinely different logs (hypothesis of C15.5b) -/
example : Log.equiv ([(1, 3), (2, 7), (4, 3)] : Log Nat Nat) [(2, 7), (1, 3), (4, 3)] := by
  intro v
  by_cases h3 : (3 : Nat) = v <;> by_cases h7 : (7 : Nat) = v <;> first | omega | simp [keysOf, h3, h7]
/-- hypotheses of C15.16 / C15.18 / C15.19 on reachable states -/
example : sdDefault (sdRun (SD.empty : SD Nat Nat) [.set [1] 10, .set [2] 20, .del 1]).1 = none := by decide
example : sdDefault (sdRun (SD.empty : SD Nat Nat) [.set [1, 2] 10, .set [3] 20]).1 = some 10 ∧
    value2keys (sdRun (SD.empty : SD Nat Nat) [.set [1, 2] 10, .set [3] 20]).1.mkd 10 = [1, 2] := by decide
/-- the docstring example of `StrategyDict`, then the default losing its only name -/
example : (sdRun (SD.empty : SD Nat Nat)
    [.set [1] 10, .set [2, 3] 20, .call, .getattr 3, .del 1, .call, .set [4] 30, .default, .delattr (some 4),
     .getattr 4, .get 4]).2
    = [.done, .done, .val 10, .val 20, .done, .notImpl, .done, .val 30, .done, .attrError, .keyError] := by
  decide
example : ∀ op ∈ ([.set [5] 1, .del 7, .setattr (some 9) 3] : List (SOp Nat Nat)), SOp.keepsName 2 op := by
  intro op h; simp at h; rcases h with rfl | rfl | rfl <;> simp [SOp.keepsName]
example : ∀ op ∈ ([.set [5] 1, .delattr (some 5), .setattr none 3] : List (SOp Nat Nat)), SOp.noSetattr op := by
  intro op h; simp at h; rcases h with rfl | rfl | rfl <;> simp [SOp.noSetattr]
example : sdDefault (sdRun (SD.empty : SD Nat Nat) [.set [1, 2] 10, .set [3] 20, .set [2, 1] 30]).1 = some 30 := by
  decide

/-- histories with rejected operations interleaved are valid histories (hypothesis of C15.6 / C15.12e) -/
example : ∀ op ∈ ([.set [1] 3, .setUnhashable [1, 2], .badOperand, .del 1] : List (Op Nat Nat)), Op.valid op := by
  intro op h; simp at h; rcases h with rfl | rfl | rfl | rfl <;> simp [Op.valid]
example : (run (St.empty : St Nat Nat) [.set [1] 3, .set [2] 3, .set [5] 4, .setUnhashable [1], .get 1, .key2keys 2,
    .badOperand, .len]).2 = [.done, .done, .done, .rejected, .val 3, .keys [1, 2], .rejected, .num 2] := by decide
/-- hypothesis of C15.12h on a reachable state: `d[[]] = 7` with 7 not stored; and the prefix that
    C15.12g speaks about when it is not empty -/
example : ∀ k ∈ badKeyPrefix (run (St.empty : St Nat Nat) [.set [1, 2] 1]).1 [] [] 7,
    key2keys (run (St.empty : St Nat Nat) [.set [1, 2] 1]).1 k = none := by decide
example : badKeyPrefix (run (St.empty : St Nat Nat) [.set [1, 2] 1, .set [3] 2]).1 [3, 4] [1] 1 = [2, 3, 4] := by decide
/-- hypothesis of C15.23, and a refused assignment in a valid-history context -/
example : ∀ k ∈ [3, 4], key2keys (sdRun (SD.empty : SD Nat Nat) [.set [1] 10]).1.mkd k = none := by decide
example : (sdRun (SD.empty : SD Nat Nat) [.set [1] 10, .rejected, .setRefused [3], .call, .setRefused [1], .call]).2
    = [.done, .rejected, .rejected, .val 10, .rejected, .notImpl] := by decide

end ALV.Props.C15

#write_audit "C15"
