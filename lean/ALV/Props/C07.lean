/-
  C07 — property theorems.  `Poly` is an exact commutative ring with evaluation,
  composition and calculus.  Only statements of the property, non-vacuity
  examples and the audit live here; the proofs' work is in `ALV.Lemmas.C07*`.

  Reading guide.  `MPoly K` is the model of `Poly._data` (insertion-ordered
  association list), `WF p` its representation invariant (keys distinct, no
  stored zero), `toLaurent p : K[T;T⁻¹]` the Laurent polynomial it denotes.
  All theorems hold for every field `K`, every support (finite subset of ℤ),
  every insertion order — no bound anywhere.
-/
import ALV.Lemmas.C07Laurent
import ALV.Lemmas.C07Eval
import ALV.Lemmas.C07Calc
import ALV.Lemmas.C07Lagrange
import ALV.Lemmas.C07Hash
import ALV.Lemmas.C07Spec
import ALV.Lemmas.C07LagrangePoly
import ALV.Lemmas.C07Hist
import ALV.Lemmas.C07Zero
import ALV.Lemmas.C07SpecFn
import ALV.Lemmas.C07Order
import ALV.Lemmas.C07Erase
import ALV.Lemmas.C07Src
import Mathlib.Data.Complex.Basic
import ALV.Common.Audit

set_option linter.unusedSectionVars false
set_option linter.unusedVariables false

open LaurentPolynomial

namespace ALV.Props.C07
open ALV.C07
variable {K : Type} [Field K] [DecidableEq K]

/-! ## 1. ring structure -/

/-- **C07.1a** `+` is the sum of `K[T;T⁻¹]`. -/
theorem toLaurent_add {p q : MPoly K} (hp : WF p) (hq : WF q) :
    toLaurent (add p q) = toLaurent p + toLaurent q := ALV.C07.toLaurent_add hp.1 hq.1

/-- **C07.1b** unary `-` is the negation of `K[T;T⁻¹]`. -/
theorem toLaurent_neg {p : MPoly K} (hp : WF p) : toLaurent (neg p) = -toLaurent p :=
  ALV.C07.toLaurent_neg hp.1

/-- **C07.1c** binary `-`. -/
theorem toLaurent_sub {p q : MPoly K} (hp : WF p) (hq : WF q) :
    toLaurent (sub p q) = toLaurent p - toLaurent q := ALV.C07.toLaurent_sub hp.1 hq.1

/-- **C07.1d** `*` is the (convolution) product of `K[T;T⁻¹]` — for arbitrary term lists. -/
theorem toLaurent_mul (p q : MPoly K) : toLaurent (mul p q) = toLaurent p * toLaurent q :=
  ALV.C07.toLaurent_mul p q

/-- **C07.1e** `p ** n` is the n-th power of `K[T;T⁻¹]`, for every natural `n` (all four
branches of `__pow__`: `n = 0`, empty, one term, repeated product). -/
theorem toLaurent_pow (p : MPoly K) (n : ℕ) : toLaurent (pow p (n : ℤ)) = toLaurent p ^ n :=
  ALV.C07.toLaurent_pow p n

/-- **C07.1f** a monomial to a negative power is its inverse power in the Laurent ring. -/
theorem toLaurent_pow_monomial (k : ℤ) (v : K) (n : ℤ) :
    toLaurent (pow [(k, v)] n) = AddMonoidAlgebra.single (k * n) (v ^ n) :=
  ALV.C07.toLaurent_pow_mono k v n

/-- **C07.1g** constants and the monomial `x`. -/
theorem toLaurent_const_X (c : K) :
    toLaurent (ofScalar c) = C c ∧ toLaurent (X : MPoly K) = T 1 ∧ toLaurent (empty : MPoly K) = 0 :=
  ⟨toLaurent_ofScalar c, toLaurent_X, rfl⟩

/-- **C07.2** no zero coefficient is ever stored and keys stay distinct: every operation returns
a well-formed Poly (constructors and `+ - *` unconditionally, whatever their arguments). -/
theorem wf_operations (p q : MPoly K) (l : List (Int × K)) (cs : List K) (c : K) :
    WF (mk l) ∧ WF (ofList cs) ∧ WF (ofScalar c) ∧ WF (add p q) ∧ WF (sub p q) ∧ WF (neg p) ∧
      WF (mul p q) ∧ WF (compose p q) :=
  ⟨wf_mk l, wf_ofList cs, wf_ofScalar c, wf_add p q, wf_sub p q, wf_neg p, wf_mul p q, wf_compose p q⟩

theorem wf_pow {p : MPoly K} (hp : WF p) (n : ℤ) : WF (pow p n) := ALV.C07.wf_pow hp n

theorem wf_diff {p : MPoly K} (hp : WF p) (n : ℕ) : WF (diff p n) := ALV.C07.wf_diff p n hp.1

theorem wf_integrate {p ip : MPoly K} (h : integrate p = .ok ip) : WF ip := ALV.C07.wf_integrate h

theorem wf_truediv {p q r : MPoly K} {c : K} :
    (divScalar p c = .ok r → WF r) ∧ (divPoly p q = .ok r → WF r) :=
  ⟨ALV.C07.wf_divScalar, ALV.C07.wf_divPoly⟩

theorem wf_setitem {p : MPoly K} (hp : WF p) (k : ℤ) (c : K) : WF (setItem p k c) :=
  ALV.C07.wf_setItem hp k c

/-- **C07.3** `==` decides equality of the denoted Laurent polynomials (so it is independent of
the insertion order). -/
theorem eq_iff {p q : MPoly K} (hp : WF p) (hq : WF q) :
    eq p q = true ↔ toLaurent p = toLaurent q := eq_iff_toLaurent hp hq

/-- **C07.3b** a well-formed Poly denotes zero iff it is the empty Poly. -/
theorem toLaurent_eq_zero_iff {p : MPoly K} (hp : WF p) : toLaurent p = 0 ↔ p = [] :=
  ⟨eq_nil_of_toLaurent_eq_zero hp, fun h => h ▸ rfl⟩

/-! ### the laws of the property text, as the code's `==` sees them -/

theorem add_comm {p q : MPoly K} (hp : WF p) (hq : WF q) : eq (add p q) (add q p) = true := by
  rw [eq_iff (wf_add _ _) (wf_add _ _), toLaurent_add hp hq, toLaurent_add hq hp, _root_.add_comm]

theorem add_assoc {p q r : MPoly K} (hp : WF p) (hq : WF q) (hr : WF r) :
    eq (add (add p q) r) (add p (add q r)) = true := by
  rw [eq_iff (wf_add _ _) (wf_add _ _), toLaurent_add (wf_add _ _) hr, toLaurent_add hp hq,
    toLaurent_add hp (wf_add _ _), toLaurent_add hq hr, _root_.add_assoc]

theorem mul_comm (p q : MPoly K) : eq (mul p q) (mul q p) = true := by
  rw [eq_iff (wf_mul _ _) (wf_mul _ _), toLaurent_mul, toLaurent_mul, _root_.mul_comm]

theorem mul_assoc (p q r : MPoly K) : eq (mul (mul p q) r) (mul p (mul q r)) = true := by
  rw [eq_iff (wf_mul _ _) (wf_mul _ _)]
  simp only [toLaurent_mul, _root_.mul_assoc]

theorem left_distrib {p q r : MPoly K} (hq : WF q) (hr : WF r) :
    eq (mul p (add q r)) (add (mul p q) (mul p r)) = true := by
  rw [eq_iff (wf_mul _ _) (wf_add _ _), toLaurent_mul, toLaurent_add hq hr,
    toLaurent_add (wf_mul _ _) (wf_mul _ _), toLaurent_mul, toLaurent_mul, mul_add]

theorem right_distrib {p q r : MPoly K} (hp : WF p) (hq : WF q) :
    eq (mul (add p q) r) (add (mul p r) (mul q r)) = true := by
  rw [eq_iff (wf_mul _ _) (wf_add _ _), toLaurent_mul, toLaurent_add hp hq,
    toLaurent_add (wf_mul _ _) (wf_mul _ _), toLaurent_mul, toLaurent_mul, add_mul]

/-- `p - p` is the empty polynomial (literally `Poly()`: nothing stored). -/
theorem sub_self_empty {p : MPoly K} (hp : WF p) : sub p p = [] := by
  apply eq_nil_of_toLaurent_eq_zero (wf_sub p p)
  rw [toLaurent_sub hp hp, sub_self]

theorem add_zero_mul_one {p : MPoly K} (hp : WF p) :
    eq (add p []) p = true ∧ eq (add [] p) p = true ∧
      eq (mul p (ofScalar 1)) p = true ∧ eq (mul (ofScalar 1) p) p = true := by
  refine ⟨?_, ?_, ?_, ?_⟩
  · rw [eq_iff (wf_add _ _) hp, toLaurent_add hp wf_nil]; simp
  · rw [eq_iff (wf_add _ _) hp, toLaurent_add wf_nil hp]; simp
  · rw [eq_iff (wf_mul _ _) hp, toLaurent_mul, toLaurent_ofScalar]; simp
  · rw [eq_iff (wf_mul _ _) hp, toLaurent_mul, toLaurent_ofScalar]; simp

/-- `p ** n` equals the n-fold product `reduce(mul, [p]*n, Poly(1))`. -/
theorem pow_nfold {p : MPoly K} (hp : WF p) (n : ℕ) :
    eq (pow p (n : ℤ)) ((List.replicate n p).foldl mul (ofScalar 1)) = true := by
  rw [eq_iff (wf_pow hp _) (wf_foldl_mul _ (wf_ofScalar 1)), toLaurent_pow, toLaurent_foldl_mul,
    toLaurent_ofScalar]
  simp

theorem pow_succ {p : MPoly K} (hp : WF p) (n : ℕ) :
    eq (pow p ((n : ℤ) + 1)) (mul (pow p (n : ℤ)) p) = true := by
  have : ((n : ℤ) + 1) = ((n + 1 : ℕ) : ℤ) := by simp
  rw [this, eq_iff (wf_pow hp _) (wf_mul _ _), toLaurent_pow, toLaurent_mul, toLaurent_pow,
    _root_.pow_succ]

/-! ## 2. evaluation, composition -/

/-- the spec's `Σ c·v^k` (`Spec.sEval`) is the list sum used in the lemmas -/
theorem sEval_eq (p : MPoly K) (v : K) : sEval p v = ev p v := by
  unfold sEval ev sumL
  induction p with
  | nil => rfl
  | cons a t ih =>
    simp only [List.map_cons, List.foldr_cons, List.sum_cons]
    rw [ih, powInt_eq]

/-- **C07.4a** every evaluation scheme of `__call__` (Horner-like with merged steps, the general
sum, "auto") computes `Σ c·v^k` — for `v ≠ 0` on any Laurent polynomial, and at `v = 0` through the
`x = 0` shortcut (Lean's `0^k = 0` for `k < 0` matches the shortcut; see `call_zero`). -/
theorem call_eq_sum {p : MPoly K} {v : K} (hv : v ≠ 0 ∨ WF p) (h : Horner) :
    call p v h = sEval p v := by
  rw [sEval_eq]
  exact call_eq_ev (hv.imp id (fun h => h.1)) h

/-- **C07.4b** evaluation does not depend on the scheme — unconditionally. -/
theorem call_scheme_independent (p : MPoly K) (v : K) (h h' : Horner) : call p v h = call p v h' := by
  by_cases hv : v = 0
  · subst hv; rw [call_zero, call_zero]
  · rw [call_eq_ev (Or.inl hv), call_eq_ev (Or.inl hv)]

/-- the `x = 0` shortcut returns the constant coefficient -/
theorem call_zero (p : MPoly K) (h : Horner) : call p 0 h = getD p 0 := ALV.C07.call_zero p h

/-- **C07.4c** evaluation is additive — at every point, every scheme. -/
theorem call_add {p q : MPoly K} (hp : WF p) (hq : WF q) (v : K) (h : Horner) :
    call (add p q) v h = call p v h + call q v h := by
  by_cases hv : v = 0
  · subst hv; simp only [ALV.C07.call_zero, getD_add hp.1 hq.1]
  · simp only [call_eq_ev (Or.inl hv), ev_add hp.1 hq.1]

/-- **C07.4d** evaluation is multiplicative: at `v ≠ 0` for Laurent polynomials, at every `v`
(the `x = 0` shortcut included) for polynomials. -/
theorem call_mul {p q : MPoly K} (hp : WF p) (hq : WF q) {v : K}
    (hv : v ≠ 0 ∨ (IsPoly p ∧ IsPoly q)) (h : Horner) :
    call (mul p q) v h = call p v h * call q v h := by
  by_cases h0 : v = 0
  · subst h0
    rcases hv with hv | hv
    · exact absurd rfl hv
    · simp only [ALV.C07.call_zero, getD_mul_zero hv.1 hv.2 hp.1 hq.1]
  · simp only [call_eq_ev (Or.inl h0), ev_mul_of_ne_zero p q h0]

/-- **C07.4e** `(p ** n)(v) = p(v) ^ n`. -/
theorem call_pow {p : MPoly K} (hp : WF p) (n : ℕ) {v : K} (hv : v ≠ 0 ∨ IsPoly p) (h : Horner) :
    call (pow p (n : ℤ)) v h = call p v h ^ n := by
  by_cases h0 : v = 0
  · subst h0
    rcases hv with hv | hv
    · exact absurd rfl hv
    · simp only [ALV.C07.call_zero, getD_pow_zero hv hp]
  · simp only [call_eq_ev (Or.inl h0), ev_pow_of_ne_zero p n h0]

theorem call_const_X (c v : K) (h : Horner) : call (ofScalar c) v h = c ∧ call (X : MPoly K) v h = v := by
  constructor
  · rw [call_eq_ev (Or.inr (wf_ofScalar c).1), ev_ofScalar]
  · rw [call_eq_ev (Or.inr wf_X.1), ev_X]

/-- **C07.4f** `p(q)` is substitution in the Laurent ring: `Σ c_k · q^k` (`p` a polynomial). -/
theorem toLaurent_compose {p : MPoly K} (hp : IsPoly p) (q : MPoly K) :
    toLaurent (compose p q) = (p.map fun kc => C kc.2 * toLaurent q ^ kc.1.toNat).sum :=
  toLaurent_compose_poly hp q

/-- **C07.4g** composition commutes with evaluation: `p(q)(v) = p(q(v))` for a polynomial `p`,
at `v ≠ 0` for any Laurent `q`, and at every `v` (the `x = 0` shortcut included) for a polynomial `q`;
all scheme choices. -/
theorem call_compose {p q : MPoly K} (hp : IsPoly p) (hpw : WF p) {v : K}
    (hv : v ≠ 0 ∨ (IsPoly q ∧ WF q)) (h h' h'' : Horner) :
    call (compose p q) v h = call p (call q v h') h'' := by
  rcases hv with hv | hv
  · rw [call_eq_ev (Or.inl hv), call_eq_ev (Or.inl hv), call_eq_ev (Or.inr hpw.1),
      ev_compose_of_ne_zero hp q hv]
  · exact call_compose_of_isPoly hp hpw.1 hv.1 hv.2.1 v h h' h''

/-- **C07.4h** `p / c` and `p / (w·x^d)` are the quotients in the Laurent ring (division by a unit). -/
theorem toLaurent_truediv {p r : MPoly K} (hp : WF p) {c w : K} {d : ℤ} :
    (divScalar p c = .ok r → toLaurent r = toLaurent p * C c⁻¹) ∧
    (divPoly p [(d, w)] = .ok r → toLaurent r = toLaurent p * AddMonoidAlgebra.single (-d) w⁻¹) :=
  ⟨toLaurent_divScalar hp.1, toLaurent_divPoly hp.1⟩

/-- which exceptions `/` raises -/
theorem truediv_errors (p q : MPoly K) (c : K) :
    (divScalar p c = .error .zeroDivision ↔ (p ≠ [] ∧ c = 0)) ∧
    (divPoly p [] = .error .zeroDivision) ∧
    (2 ≤ q.length → divPoly p q = .error .notImplemented) := by
  refine ⟨?_, rfl, ?_⟩
  · unfold divScalar
    cases p with
    | nil => simp
    | cons a t =>
      by_cases hc : c = 0 <;> simp [hc]
  · intro h
    match q, h with
    | a :: b :: t, _ => rfl

/-! ## 3. calculus -/

/-- `D` is the formal derivative: `(D f)_k = (k+1)·f_{k+1}` -/
theorem coeff_D (f : K[T;T⁻¹]) (k : ℤ) : (D f).coeff k = ((k + 1 : ℤ) : K) * f.coeff (k + 1) :=
  ALV.C07.coeff_D f k

/-- the specification's `sDiff` is that derivative, coefficient by coefficient -/
theorem sDiff_coeff (p : MPoly K) (k : ℤ) : coeff (sDiff p) k = ofIntA (k + 1) * coeff p (k + 1) := by
  rw [← ALV.C07.coeff_toLaurent, toLaurent_sDiff, ALV.C07.coeff_D, ALV.C07.coeff_toLaurent, ofIntA_eq]

/-- **C07.5a** `p.diff(n)` is the n-th formal derivative of the denoted Laurent polynomial. -/
theorem toLaurent_diff {p : MPoly K} (hp : WF p) (n : ℕ) : toLaurent (diff p n) = D^[n] (toLaurent p) :=
  ALV.C07.toLaurent_diff hp.1 n

/-- **C07.5b** `diff` is linear. -/
theorem diff_add {p q : MPoly K} (hp : WF p) (hq : WF q) :
    eq (diff (add p q)) (add (diff p) (diff q)) = true := by
  rw [eq_iff (wf_diff (wf_add _ _) 1) (wf_add _ _), toLaurent_diff (wf_add _ _),
    toLaurent_add (wf_diff hp 1) (wf_diff hq 1), toLaurent_diff hp, toLaurent_diff hq,
    toLaurent_add hp hq]
  simp [D_add]

theorem diff_smul {p : MPoly K} (hp : WF p) (c : K) :
    eq (diff (mul (ofScalar c) p)) (mul (ofScalar c) (diff p)) = true := by
  rw [eq_iff (wf_diff (wf_mul _ _) 1) (wf_mul _ _), toLaurent_diff (wf_mul _ _), toLaurent_mul,
    toLaurent_mul, toLaurent_diff hp, toLaurent_ofScalar]
  simp [D_mul, D_C]

/-- **C07.5c** the product rule. -/
theorem diff_mul {p q : MPoly K} (hp : WF p) (hq : WF q) :
    eq (diff (mul p q)) (add (mul (diff p) q) (mul p (diff q))) = true := by
  rw [eq_iff (wf_diff (wf_mul _ _) 1) (wf_add _ _), toLaurent_diff (wf_mul _ _), toLaurent_mul,
    toLaurent_add (wf_mul _ _) (wf_mul _ _), toLaurent_mul, toLaurent_mul, toLaurent_diff hp,
    toLaurent_diff hq]
  simp [D_mul]

/-- **C07.5d** `diff` undoes `integrate` (which exists iff there is no power −1). -/
theorem diff_integrate [CharZero K] {p ip : MPoly K} (hp : WF p) (h : integrate p = .ok ip) :
    eq (diff ip) p = true := by
  rw [eq_iff (wf_diff (wf_integrate h) 1) hp]
  exact toLaurent_diff_integrate hp.1 h

theorem integrate_refuses_iff (p : MPoly K) : integrate p = .error .value ↔ (-1 : ℤ) ∈ keys p :=
  integrate_error_iff p

/-! ## 4. Lagrange interpolation -/

/-- **C07.6a** `lagrange.func(pairs)` passes through its points: distinct abscissae, at least two
points (the code as it stands). -/
theorem lagrange_func_interp {pairs : List (K × K)} (hd : (pairs.map (·.1)).Nodup)
    (h2 : 2 ≤ pairs.length) {xi yi : K} (hm : (xi, yi) ∈ pairs) :
    lagrangeFunc pairs xi = .ok yi := by
  have hne : pairs ≠ [] := by intro e; subst e; simp at h2
  rw [lagrangeFunc_eq_lagSum false xi hne (Or.inr ⟨hd, h2⟩), lagSum_at_node hd hm]

/-- **C07.6b** with the repair proposed for D14 (`reduce(operator.mul, args, 1)`) the same holds
for every non-empty point set, a single point included. -/
theorem lagrange_func_fixed_interp {pairs : List (K × K)} (hd : (pairs.map (·.1)).Nodup)
    {xi yi : K} (hm : (xi, yi) ∈ pairs) : lagrangeFunc pairs xi true = .ok yi := by
  have hne : pairs ≠ [] := by intro e; subst e; simp at hm
  rw [lagrangeFunc_eq_lagSum true xi hne (Or.inl rfl), lagSum_at_node hd hm]

/-- **C07.6c** the repair changes nothing for two or more points (any evaluation point). -/
theorem lagrange_fixed_eq {pairs : List (K × K)} (hd : (pairs.map (·.1)).Nodup)
    (h2 : 2 ≤ pairs.length) (v : K) : lagrangeFunc pairs v true = lagrangeFunc pairs v false := by
  have hne : pairs ≠ [] := by intro e; subst e; simp at h2
  rw [lagrangeFunc_eq_lagSum true v hne (Or.inl rfl),
    lagrangeFunc_eq_lagSum false v hne (Or.inr ⟨hd, h2⟩)]

/-- **D14** (defect of the code as it stands, reproduced by the model): a single interpolation
point makes the product empty and `reduce` raises TypeError — for the number and the Poly variant. -/
theorem lagrange_single_point_raises (x y v : K) :
    lagrangeFunc [(x, y)] v = .error .type ∧ lagrangePoly [(x, y)] = .error .type :=
  ⟨lagrangeGen_single_point _ _ _ _ _, lagrangeGen_single_point _ _ _ _ _⟩

/-- **C07.6d** `lagrange.poly(pairs)` — the lambda of `lagrange.func` run on the Poly `x` — exists,
is well formed, and evaluates (every scheme, every point, `0` included) to the same value as
`lagrange.func(pairs)`. -/
theorem lagrange_poly_eq_func {pairs : List (K × K)} (hd : (pairs.map (·.1)).Nodup)
    (h2 : 2 ≤ pairs.length) (v : K) (h : Horner) :
    (lagrangePoly pairs).map (fun P => call P v h) = lagrangeFunc pairs v := by
  have hne : pairs ≠ [] := by intro e; subst e; simp at h2
  rw [lagrangePoly_call false hne (Or.inr ⟨hd, h2⟩), lagrangeFunc_eq_lagSum false v hne (Or.inr ⟨hd, h2⟩)]

/-- **C07.6e** `lagrange.poly(pairs)` passes through its points. -/
theorem lagrange_poly_interp {pairs : List (K × K)} (hd : (pairs.map (·.1)).Nodup)
    (h2 : 2 ≤ pairs.length) {xi yi : K} (hm : (xi, yi) ∈ pairs) (h : Horner) :
    (lagrangePoly pairs).map (fun P => call P xi h) = .ok yi := by
  rw [lagrange_poly_eq_func hd h2, lagrange_func_interp hd h2 hm]

/-- with the repair, also for a single point -/
theorem lagrange_poly_fixed_interp {pairs : List (K × K)} (hd : (pairs.map (·.1)).Nodup)
    {xi yi : K} (hm : (xi, yi) ∈ pairs) (h : Horner) :
    (lagrangePoly pairs true).map (fun P => call P xi h) = .ok yi := by
  have hne : pairs ≠ [] := by intro e; subst e; simp at hm
  rw [lagrangePoly_call true hne (Or.inl rfl), lagSum_at_node hd hm]

/-! ## 5. comparison and hashing -/

/-- `p != q` is the negation of `p == q` -/
theorem ne_eq_not_eq (p q : MPoly K) : ne p q = !eq p q := rfl

/-- **C07.7** `p == q` implies equal hashes: `hash` is a function of the set of items
(`hashKey` = its canonical representative), and equal Polys hold the same set; conversely the key
separates unequal Polys. -/
theorem eq_hash {p q : MPoly K} (hp : WF p) (hq : WF q) : eq p q = true ↔ hashKey p = hashKey q :=
  (hashKey_eq_iff hp.1 hq.1).symm

/-- the hash key does not depend on the insertion order -/
theorem hashKey_perm {p q : MPoly K} (hp : WF p) (h : p.Perm q) : hashKey p = hashKey q :=
  hashKey_eq_of_perm hp.1 h

/-! ## 6. the executable specification (`Spec/C07.lean`) and the model agree

`Spec/C07.lean` defines the ring operations coefficient-wise (sum, convolution, `(k+1)·c_{k+1}`)
and returns canonical forms (powers ascending, no zero).  It denotes Mathlib's operations, and the
model's results — once sorted by power, i.e. `sorted(dict(p.terms()).items())` — are *equal* to it. -/

/-- the specification denotes the ring operations of `K[T;T⁻¹]` -/
theorem spec_denotes (p q : MPoly K) (c : K) (n : ℕ) :
    toLaurent (canon p) = toLaurent p ∧
    toLaurent (sAdd p q) = toLaurent p + toLaurent q ∧
    toLaurent (sNeg p) = -toLaurent p ∧
    toLaurent (sSub p q) = toLaurent p - toLaurent q ∧
    toLaurent (sMul p q) = toLaurent p * toLaurent q ∧
    toLaurent (sConst c) = C c ∧
    toLaurent (sPow p n) = toLaurent p ^ n ∧
    toLaurent (sDiff p) = D (toLaurent p) :=
  ⟨toLaurent_canon p, toLaurent_sAdd p q, toLaurent_sNeg p, toLaurent_sSub p q, toLaurent_sMul p q,
    toLaurent_sConst c, toLaurent_sPow p n, toLaurent_sDiff p⟩

theorem terms_eq_canon {p : MPoly K} (hp : WF p) : sortAsc p = canon p :=
  sortAsc_eq_of_toLaurent hp (wf_canonOn _ _) (ascending_canonOn _ _) (toLaurent_canon p).symm

theorem add_eq_spec {p q : MPoly K} (hp : WF p) (hq : WF q) : sortAsc (add p q) = sAdd p q :=
  sortAsc_eq_of_toLaurent (wf_add _ _) (wf_canonOn _ _) (ascending_canonOn _ _)
    ((toLaurent_add hp hq).trans (toLaurent_sAdd p q).symm)

theorem neg_eq_spec {p : MPoly K} (hp : WF p) : sortAsc (neg p) = sNeg p :=
  sortAsc_eq_of_toLaurent (wf_neg _) (wf_canonOn _ _) (ascending_canonOn _ _)
    ((toLaurent_neg hp).trans (toLaurent_sNeg p).symm)

theorem sub_eq_spec {p q : MPoly K} (hp : WF p) (hq : WF q) : sortAsc (sub p q) = sSub p q :=
  sortAsc_eq_of_toLaurent (wf_sub _ _) (wf_canonOn _ _) (ascending_canonOn _ _)
    ((toLaurent_sub hp hq).trans (toLaurent_sSub p q).symm)

theorem mul_eq_spec (p q : MPoly K) : sortAsc (mul p q) = sMul p q :=
  sortAsc_eq_of_toLaurent (wf_mul _ _) (wf_canonOn _ _) (ascending_canonOn _ _)
    ((toLaurent_mul p q).trans (toLaurent_sMul p q).symm)

theorem pow_eq_spec {p : MPoly K} (hp : WF p) (n : ℕ) : sortAsc (pow p (n : ℤ)) = sPow p n := by
  have hs : WF (sPow p n) ∧ Ascending (sPow p n) := by
    cases n with
    | zero => exact ⟨wf_canonOn _ _, ascending_canonOn _ _⟩
    | succ n => exact ⟨wf_canonOn _ _, ascending_canonOn _ _⟩
  exact sortAsc_eq_of_toLaurent (wf_pow hp _) hs.1 hs.2
    ((toLaurent_pow p n).trans (toLaurent_sPow p n).symm)

theorem diff_eq_spec {p : MPoly K} (hp : WF p) : sortAsc (diff p) = sDiff p :=
  sortAsc_eq_of_toLaurent (wf_diff hp 1) (wf_canonOn _ _) (ascending_canonOn _ _)
    ((toLaurent_diff hp 1).trans (by rw [Function.iterate_one]; exact (toLaurent_sDiff p).symm))

/-! ## 6b. the remaining specification functions: what the failing-input search compares the code with

Every function of `Spec/C07.lean` that the driver evaluates denotes the operation of `K[T;T⁻¹]` the property
names, and the model's answer — sorted by power — is EQUAL to it wherever the specification speaks. -/

/-- **C07.10a** `sDiffN` is the n-fold formal derivative; `p.diff(n)` returns exactly its terms. -/
theorem sDiffN_denotes (p : MPoly K) (n : ℕ) : toLaurent (sDiffN p n) = D^[n] (toLaurent p) :=
  toLaurent_sDiffN p n

theorem diffN_eq_spec {p : MPoly K} (hp : WF p) (n : ℕ) : sortAsc (diff p n) = sDiffN p n :=
  sortAsc_diff_eq_sDiffN hp n

/-- **C07.10b** `sInteg` is an antiderivative (`diff (integrate p) = p`, characteristic 0), it is defined iff
the coefficient of `x⁻¹` vanishes, and the model's `integrate` answers exactly when it does, with its terms. -/
theorem sInteg_denotes [CharZero K] {p s : MPoly K} (h : sInteg p = some s) :
    D (toLaurent s) = toLaurent p ∧ toLaurent (sDiff s) = toLaurent p :=
  ⟨D_toLaurent_sInteg h, by rw [toLaurent_sDiff, D_toLaurent_sInteg h]⟩

theorem sInteg_defined_iff (p : MPoly K) : sInteg p = none ↔ coeff p (-1) ≠ 0 := sInteg_eq_none_iff p

theorem integrate_eq_spec {p : MPoly K} (hp : WF p) :
    (∀ ip, integrate p = .ok ip → sInteg p = some (sortAsc ip)) ∧
      (integrate p = .error .value → sInteg p = none) := integrate_eq_sInteg hp

/-- **C07.10c** `sDivMono` is the quotient by the unit `w·x^d` of the Laurent ring; `/` returns its terms. -/
theorem sDivMono_denotes (p : MPoly K) (d : ℤ) (w : K) :
    toLaurent (sDivMono p d w) = toLaurent p * AddMonoidAlgebra.single (-d) w⁻¹ := toLaurent_sDivMono p d w

theorem truediv_eq_spec {p r : MPoly K} (hp : WF p) {c w : K} {d : ℤ} :
    (divScalar p c = .ok r → sortAsc r = sDivMono p 0 c) ∧
    (divPoly p [(d, w)] = .ok r → sortAsc r = sDivMono p d w) :=
  ⟨divScalar_eq_sDivMono hp, divPoly_eq_sDivMono hp⟩

/-- **C07.10d** `sEq` decides equality of the denoted Laurent polynomials — for ANY term lists — and the
code's `==` is `sEq` on well-formed operands. -/
theorem sEq_denotes (p q : MPoly K) : sEq p q = true ↔ toLaurent p = toLaurent q := sEq_iff p q

theorem eq_eq_spec {p q : MPoly K} (hp : WF p) (hq : WF q) : eq p q = sEq p q := eq_eq_sEq hp hq

/-- **C07.10e** `sPowZ` is the integer power of the Laurent ring (`zpowL f k = f^k` for `k ≥ 0`, the power of
the inverse for `k < 0`); a negative power of `p` is defined iff `p` is a monomial, and then
`p^(-m) · p^m = 1`; the model's `**` returns its terms wherever it is defined. -/
theorem sPowZ_denotes {p r : MPoly K} {n : ℤ} (h : sPowZ p n = some r) :
    toLaurent r = zpowL (toLaurent p) n := toLaurent_sPowZ h

theorem sPowZ_nat (p : MPoly K) (n : ℕ) :
    sPowZ p (n : ℤ) = some (sPow p n) ∧ zpowL (toLaurent p) (n : ℤ) = toLaurent p ^ n := by
  refine ⟨?_, zpowL_natCast _ n⟩
  simp [sPowZ]

theorem sPowZ_defined_iff (p : MPoly K) (n : ℤ) : sPowZ p n = none ↔ n < 0 ∧ (canon p).length ≠ 1 :=
  sPowZ_eq_none_iff p n

/-- the negative power really is the inverse -/
theorem sPowZ_neg_is_inverse {p r : MPoly K} {m : ℕ} (h : sPowZ p (-(m : ℤ)) = some r) (hm : 0 < m) :
    toLaurent r * toLaurent p ^ m = 1 := by
  have hd : ¬ sPowZ p (-(m : ℤ)) = none := by rw [h]; simp
  rw [sPowZ_eq_none_iff] at hd
  have hl : (canon p).length = 1 := by
    by_contra hne
    exact hd ⟨by omega, hne⟩
  match hc : canon p, hl with
  | [(d, c)], _ =>
    obtain ⟨hc0, hp⟩ := toLaurent_of_canon_single hc
    rw [toLaurent_sPowZ h, hp]
    exact zpowL_neg_mul_pow d hc0 m

theorem pow_eq_specZ {p r : MPoly K} (hp : WF p) {n : ℤ} (h : sPowZ p n = some r) : sortAsc (pow p n) = r :=
  pow_eq_sPowZ hp h

/-- **C07.10f** `sComp` is substitution in the Laurent ring, `p(q) = Σ c_k · q^k` over the canonical terms of
`p` with integer powers of `q`; it is defined whenever `p` is a polynomial; the model's composition returns its
terms wherever it is defined. -/
theorem sComp_denotes {p q r : MPoly K} (h : sComp p q = some r) :
    toLaurent r = ((canon p).map fun a => C a.2 * zpowL (toLaurent q) a.1).sum := (toLaurent_sComp h).1

theorem sComp_defined_of_poly {p q : MPoly K} (hp : ∀ a ∈ canon p, 0 ≤ a.1) : (sComp p q).isSome = true :=
  sComp_isSome_of_nonneg hp

theorem compose_eq_spec {p q r : MPoly K} (hp : WF p) (hq : WF q) (h : sComp p q = some r) :
    sortAsc (compose p q) = r := compose_eq_sComp hp hq h

/-- **C07.10g** `distinctX` is the property's precondition (distinct abscissae), and under it the values of both
interpolators at the abscissae ARE `sLagrangeAtNodes` — the list the search compares the code with. -/
theorem distinctX_iff (pairs : List (K × K)) : distinctX pairs = true ↔ (pairs.map (·.1)).Nodup := by
  induction pairs with
  | nil => simp [distinctX]
  | cons a t ih =>
    simp only [distinctX, Bool.and_eq_true, List.all_eq_true, ih, List.map_cons, List.nodup_cons,
      List.mem_map, not_exists, not_and]
    constructor
    · rintro ⟨h1, h2⟩
      exact ⟨fun b hb e => by simpa [e] using h1 b hb, h2⟩
    · rintro ⟨h1, h2⟩
      exact ⟨fun b hb => by simpa using fun e => h1 b hb e.symm, h2⟩

theorem lagrange_at_nodes {pairs : List (K × K)} (hd : distinctX pairs = true) (h2 : 2 ≤ pairs.length) :
    (pairs.map (·.1)).mapM (fun k => lagrangeFunc pairs k) = .ok (sLagrangeAtNodes pairs) :=
  mapM_nodes pairs _ (fun pr hpr => lagrange_func_interp ((distinctX_iff pairs).1 hd) h2 hpr)

theorem lagrange_fixed_at_nodes {pairs : List (K × K)} (hd : distinctX pairs = true) :
    (pairs.map (·.1)).mapM (fun k => lagrangeFunc pairs k true) = .ok (sLagrangeAtNodes pairs) :=
  mapM_nodes pairs _ (fun pr hpr => lagrange_func_fixed_interp ((distinctX_iff pairs).1 hd) hpr)

theorem lagrange_poly_at_nodes {pairs : List (K × K)} (hd : distinctX pairs = true) (h2 : 2 ≤ pairs.length)
    (h : Horner) :
    (lagrangePoly pairs).map (fun P => (pairs.map (·.1)).map (fun v => call P v h)) =
      .ok (sLagrangeAtNodes pairs) := by
  have hn := (distinctX_iff pairs).1 hd
  cases hP : lagrangePoly pairs with
  | error e =>
    match pairs, h2 with
    | a :: b :: t, _ =>
      have := lagrange_poly_interp hn (by simp) (xi := a.1) (yi := a.2) List.mem_cons_self h
      rw [hP] at this
      cases this
  | ok P =>
    show Except.ok (List.map (fun v => call P v h) (List.map (fun x => x.1) pairs)) = _
    congr 1
    unfold sLagrangeAtNodes
    rw [List.map_map]
    apply List.map_congr_left
    intro pr hpr
    have := lagrange_poly_interp hn h2 (xi := pr.1) (yi := pr.2) hpr h
    rw [hP] at this
    simpa [Except.map] using this

/-- **C07.10h** `order` is the degree (AttributeError iff there is a negative power) and `values()` lists the
coefficients of the powers `0 .. order`: `Poly(list(p.values())) == p`. -/
theorem order_spec {p : MPoly K} (hp : WF p) :
    (order p = .error .attribute ↔ ¬ IsPoly p) ∧
    (∀ n, order p = .ok n → IsPoly p ∧ 0 ≤ n ∧ (p ≠ [] → coeff p n ≠ 0 ∧ ∀ k, n < k → coeff p k = 0)) :=
  ⟨order_error_iff p, fun n h => ⟨(order_ok h).1, (order_ok h).2.1, fun hne => order_degree hp h hne⟩⟩

theorem values_spec {p : MPoly K} (hp : WF p) :
    (values p = .error .attribute ↔ ¬ IsPoly p) ∧ values (empty : MPoly K) = .ok [] ∧
    (∀ vs, values p = .ok vs → eq (ofList vs) p = true ∧
      (p ≠ [] → ∃ n, order p = .ok n ∧ vs = (List.range (n.toNat + 1)).map (fun (i : ℕ) => getD p (Int.ofNat i)))) :=
  ⟨values_error_iff p, rfl, fun vs h => ⟨values_roundtrip hp h, fun hne => values_ok h hne⟩⟩


/-! ## 7. histories: Poly objects are mutable until hashed

`Model/C07Hist.lean`: a heap of `Poly` instances (`_data`, "has `_hash`"), the caller's variables
(`pool`), the caller's own containers given to `Poly(...)` (`srcs`); a history is any sequence of
operations `HOp` (constructors, `+ - * ** /`, call / composition, `diff`, `integrate`, `copy`,
`p[k] = c`, `p.zero = 0`, `hash`, `==`) on the objects obtained so far.  `act st op` decides a step
from the CURRENT contents of its operands, `hstep` applies it, `hrun` runs a history. -/

/-- **C07.8a** no zero coefficient is ever stored and keys stay distinct in EVERY object of the heap
after EVERY history (in-place item assignment — also of zero —, the `zero` setter, failing steps, the
results of every operator on objects that were mutated before), and every variable refers to an object. -/
theorem hist_wf {objs : List (MPoly K)} (h : ∀ p ∈ objs, WF p) (srcs : List (List (Int × K)))
    (ops : List (HOp K)) :
    HWF (hrun (HState.init objs srcs) ops) ∧ PoolOK (hrun (HState.init objs srcs) ops) :=
  ⟨hwf_hrun (hwf_init h srcs) ops, poolOK_hrun (poolOK_init objs srcs) ops⟩

/-- one step from any well-formed state (so the invariant is inductive) -/
theorem hist_step_wf {st : HState K} (hw : HWF st) (hp : PoolOK st) (op : HOp K) :
    HWF (hstep st op) ∧ PoolOK (hstep st op) := ⟨hwf_hstep hw op, poolOK_hstep hp op⟩

/-- consequence used by everything below: at every moment of every history the current contents of
every variable are a well-formed Poly, so every theorem of sections 1–6 applies to the operands of
the next step, whatever happened to them before. -/
theorem hist_operands_wf {objs : List (MPoly K)} (h : ∀ p ∈ objs, WF p) (srcs : List (List (Int × K)))
    (ops : List (HOp K)) {i : ℕ} {p : MPoly K} (hv : (hrun (HState.init objs srcs) ops).val i = some p) :
    WF p := by
  unfold HState.val at hv
  cases ho : (hrun (HState.init objs srcs) ops).obj i with
  | none => rw [ho] at hv; simp at hv
  | some ao =>
    obtain ⟨a, o⟩ := ao
    rw [ho] at hv
    simp only [Option.map_some, Option.some.injEq] at hv
    subst hv
    exact (hist_wf h srcs ops).1 _ (obj_mem ho).1

/-- **C07.8b** `p[k] = c` is the point update of the coefficient function and keeps the invariant:
afterwards `p[k]` is `c`, every other coefficient is what it was; assigning zero removes the term
instead of storing it. -/
theorem setitem_spec {p : MPoly K} (hp : WF p) (k : ℤ) (c : K) :
    WF (setItem p k c) ∧ (∀ k', getD (setItem p k c) k' = if k' = k then c else getD p k') ∧
      k ∉ keys (setItem p k 0) :=
  ⟨ALV.C07.wf_setItem hp k c, getD_setItem hp k c, setItem_zero_not_mem hp k⟩

/-- **C07.8c** a step is answered from the current contents of the variables only (no memory of earlier
steps): two states whose variables denote the same contents answer every operation alike. -/
theorem hist_step_depends_on_current_contents {st st' : HState K} (h : ∀ i, st.obj i = st'.obj i)
    (hs : st.srcs = st'.srcs) (op : HOp K) : act st op = act st' op := act_congr h hs op

/-- **C07.8d** results are NEW objects: an allocating step appends one variable, whose address is no
earlier variable's address; the object holds the computed Poly, un-hashed; every existing object and
every earlier variable is as before. -/
theorem hist_result_fresh {st : HState K} (hp : PoolOK st) {op : HOp K} {p : MPoly K}
    (h : act st op = .alloc p) :
    (hstep st op).pool = st.pool ++ [st.heap.length] ∧ st.heap.length ∉ st.pool ∧
      (hstep st op).heap[st.heap.length]? = some { data := p, hashed := false } ∧
      ∀ a, a < st.heap.length → (hstep st op).heap[a]? = st.heap[a]? := alloc_fresh hp h

/-- **C07.8e** the only operation that returns an existing object is `p ** n` with at least two terms
and `n ≤ 1`, `n ≠ 0` (`reduce(operator.mul, [] + [self])` is `self`): every other result is new. -/
theorem hist_alias_only_pow_self {st : HState K} {op : HOp K} {a : ℕ} (h : act st op = .alias a) :
    ∃ i n fl o, op = .pow i n fl ∧ st.obj i = some (a, o) ∧ powIsSelf o.data n = true := act_alias h

/-- **C07.8f** mutating a result does not change the operands (nor any other existing object), and
mutating any earlier variable afterwards does not change the result. -/
theorem hist_mutation_isolated {st : HState K} (hp : PoolOK st) {op : HOp K} {p : MPoly K}
    (h : act st op = .alloc p) (k : ℤ) (c : K) :
    (∀ a, a < st.heap.length →
        (hstep (hstep st op) (.setitem st.pool.length k c)).heap[a]? = st.heap[a]?) ∧
    (∀ i, i < st.pool.length →
        (hstep (hstep st op) (.setitem i k c)).heap[st.heap.length]? = some { data := p, hashed := false }) :=
  mutation_isolated hp h k c

/-- **C07.8g** frame: a step changes no existing object except the target of `p[k] = c`, `p.zero = z`,
`hash(p)`; in particular every operator, call, `diff`, `integrate`, `copy`, `==` leaves all its operands
as they were.  The caller's containers are changed by the caller only. -/
theorem hist_frame (st : HState K) (op : HOp K) :
    (∀ a, a < st.heap.length → target st op ≠ some a → (hstep st op).heap[a]? = st.heap[a]?) ∧
    (∀ i, i < st.pool.length → (hstep st op).pool[i]? = st.pool[i]?) ∧
    ((∀ s k c, op ≠ .srcSet s k c) → (hstep st op).srcs = st.srcs) :=
  ⟨fun _ ha ht => heap_frame st op ha ht, fun _ hi => pool_frame st op hi, srcs_frame st op⟩

/-- **C07.8h** a step that raises changes nothing; item assignment and the `zero` setter raise TypeError
on a hashed object. -/
theorem hist_failed_step {st : HState K} {op : HOp K} {e : PyErr} (h : act st op = .fail e) :
    hstep st op = st := fail_changes_nothing h

theorem hist_hashed_refuses {st : HState K} {i a : ℕ} {o : Obj K} (ho : st.obj i = some (a, o))
    (hh : o.hashed = true) (k : ℤ) (c : K) :
    act st (.setitem i k c) = .fail .type ∧ act st (.setzero i) = .fail .type :=
  setitem_hashed_fails ho hh k c

/-- **C07.8i** once hashed, an object never changes again, whatever the rest of the history does — so the
hash it gave stays the hash of its contents (`eq_hash` keeps holding at every later moment). -/
theorem hist_hashed_immutable (st : HState K) (ops : List (HOp K)) {a : ℕ} {o : Obj K}
    (ho : st.heap[a]? = some o) (hh : o.hashed = true) :
    (hrun st ops).heap[a]? = some { data := o.data, hashed := true } := hashed_frame_hrun st ops ho hh

/-- **C07.8j** "p ** n is the n-fold product" at every moment of a history: the power of a variable is
the n-th power (in `K[T;T⁻¹]`) of the contents the variable has NOW — be the result a new object or, for
`n = 1`, the object itself. -/
theorem hist_pow_current {st : HState K} {i a : ℕ} {o : Obj K} (ho : st.obj i = some (a, o)) (n : ℕ) :
    ∃ q, (act st (.pow i (n : ℤ) false) = .alloc q ∨ (act st (.pow i (n : ℤ) false) = .alias a ∧ q = o.data)) ∧
      toLaurent q = toLaurent o.data ^ n := by
  by_cases hs : powIsSelf o.data (n : ℤ) = true
  · refine ⟨o.data, Or.inr ⟨by simp [act, ho, hs], rfl⟩, ?_⟩
    simp only [powIsSelf, Bool.and_eq_true, decide_eq_true_eq] at hs
    have : n = 1 := by omega
    subst this
    simp
  · exact ⟨pow o.data (n : ℤ), Or.inl (by simp [act, ho, hs]), toLaurent_pow _ n⟩

/-! ## 8. the `zero` attribute and the spelling of numbers (`Model/C07Zero.lean`)

Values are Python numbers tagged with their kind (`PyNum`: bool / int / Fraction / float / complex), a zero is a
number or one of the unhashable `[]`, `{}` (`PyVal`), a Poly is its `_data` AND its `_zero` (`ZPoly`); every
operation is as coded: which zero the result inherits, compaction with `==` against that zero.  A history (`ZOp`)
is any sequence of constructions (every input kind, zero given / omitted), copies, casts, the `zero` setter, item
assignment, `+ - * ** /` with Polys and numbers on either side, composition, calls, `diff`, `integrate`, `hash`,
`==`, `!=` on the objects obtained so far. -/

/-- **C07.9a** Python's `==` on numbers is an equivalence that does not look at the kind. -/
theorem pynum_eq_equiv (a b c : PyNum) :
    a.eq a = true ∧ (a.eq b = true → b.eq a = true) ∧ (a.eq b = true → b.eq c = true → a.eq c = true) ∧
      (a.eq b = true ↔ a.re = b.re ∧ a.im = b.im) :=
  ⟨PyNum.eq_refl a, PyNum.eq_symm, PyNum.eq_trans, PyNum.eq_iff a b⟩

/-- **C07.9b** Python's hash law, for the modelled CPython algorithm (`|n|·d⁻¹ mod 2^61−1`, complex
`hash(re) + 1000003·hash(im)` in 64-bit wrap-around): numbers that compare equal hash alike — `0`, `0.0`,
`Fraction(0)`, `False`, `0j` included. -/
theorem pynum_eq_hash {a b : PyNum} (h : a.eq b = true) : a.hash = b.hash := PyNum.hash_eq_of_eq h

/-- **C07.9c** arithmetic is blind to the spelling: `+ - *` and unary `-` send `==` operands to `==` results,
whatever the kinds (bool / int / Fraction / float / complex) on either side. -/
theorem pynum_arith_spelling_blind {a a' b b' : PyNum} (ha : a.eq a' = true) (hb : b.eq b' = true) :
    (a + b).eq (a' + b') = true ∧ (a - b).eq (a' - b') = true ∧ (a * b).eq (a' * b') = true ∧
      (-a).eq (-a') = true := PyNum.arith_congr ha hb

/-- **C07.9d** zeros (numbers, `[]`, `{}`): `==` implies equal `hash` — or TypeError on both sides. -/
theorem pyval_eq_hash {a b : PyVal} (h : a.eq b = true) : a.hash = b.hash := PyVal.hash_eq_of_eq h

/-- **C07.9e** `p == q → hash(p) == hash(q) ∧ ¬ p != q` for Polys whose zeros and coefficients are spelled in
any kinds (`__eq__` compares the zeros with `==`, then the dictionaries; `__hash__` hashes
`(frozenset(items), zero)`): the only hypothesis is that `_data` is a dictionary (distinct powers). -/
theorem zpoly_eq_hash {p q : ZPoly} (hp : NodupKeys p) (hq : NodupKeys q) (h : eqZ p q = true) :
    hashZ p = hashZ q ∧ neZ p q = false := ⟨hashZ_eq_of_eqZ hp hq h, by simp [neZ, h]⟩

theorem zpoly_ne_not_eq (p q : ZPoly) : neZ p q = !eqZ p q := rfl

/-- a Poly is hashable iff its zero is a number (TypeError for `zero=[]`, `zero={}`) -/
theorem zpoly_hashable_iff (p : ZPoly) : (∃ k, hashZ p = .ok k) ↔ ∃ x, p.zero = .num x := hashZ_ok_iff p

/-- **C07.9f** the same terms given with two spellings of the zero are `==` Polys (so they hash alike). -/
theorem zpoly_respelled_zero_eq (l : List (Int × PyNum)) {z z' : PyVal} (h : z.eq z' = true) :
    eqZ (normZ l z) (normZ l z') = true := by
  have hs : ∀ c, stored z c = stored z' c := by
    intro c
    unfold stored
    cases h1 : PyVal.eq (.num c) z <;> cases h2 : PyVal.eq (.num c) z' <;> simp
    · exact absurd (PyVal.eq_trans h2 (PyVal.eq_symm h)) (by simp [h1])
    · exact absurd (PyVal.eq_trans h1 h) (by simp [h2])
  have hd : (normZ l z).data = (normZ l z').data := by
    simp only [normZ, compactZ, hs]
  unfold eqZ
  rw [← hd, dictsEq_refl (good_normZ l z).1]
  simp [normZ, h]

/-- **C07.9g** which zero a result inherits: the constructor's argument (default: the float `0.`; the copy
constructor and `copy()` default to the source's), the LEFT operand of `+ - *`, the Poly operand of every operator
with a number on either side, the base of `**`, the dividend of `/`, the OUTER Poly of a composition, the operand of
`diff` / `integrate` / unary `-`. -/
theorem zero_inheritance (p q : ZPoly) (l : List (Int × PyNum)) (cs : List PyNum) (c : PyNum) (z : Option PyVal)
    (n : ℕ) (s : ScalOp) :
    (ofDictZ l z).zero = z.getD dfltZero ∧ (ofListZ cs z).zero = z.getD dfltZero ∧
    (ofNumZ c z).zero = z.getD dfltZero ∧ (ofNoneZ z).zero = z.getD dfltZero ∧
    (ofPolyZ p z).zero = z.getD p.zero ∧ (copyZ p z).zero = z.getD p.zero ∧
    (negZ p).zero = p.zero ∧ (posZ p).zero = p.zero ∧ (addZ p q).zero = p.zero ∧ (subZ p q).zero = p.zero ∧
    (mulZ p q).zero = p.zero ∧ (scalZ s p c).zero = p.zero ∧ (diffZ p n).zero = p.zero := by
  refine ⟨rfl, rfl, rfl, rfl, rfl, rfl, rfl, rfl, rfl, rfl, rfl, ?_, rfl⟩
  cases s <;> rfl

theorem powLoopZ_zero (p : ZPoly) (m : ℕ) : (powLoopZ p m).zero = p.zero := by
  induction m with
  | zero => rfl
  | succ m ih => exact ih

theorem zero_inheritance_partial_ops {p q r : ZPoly} {c : PyNum} {n : ℤ} {ek : ExpKind} :
    (divsZ p c = .ok r → r.zero = p.zero) ∧ (divZ p q = .ok r → r.zero = p.zero) ∧
    (integrateZ p = .ok r → r.zero = p.zero) ∧ (powZ p n ek = .new r → r.zero = p.zero) ∧
    (composeZ p q = .ok r → r.zero = p.zero) := by
  refine ⟨?_, ?_, ?_, ?_, ?_⟩
  · intro h; unfold divsZ at h; split at h
    · cases h; rfl
    · split at h <;> cases h; rfl
  · intro h; unfold divZ at h; split at h
    · cases h
    · split at h
      · cases h; rfl
      · split at h <;> cases h; rfl
    · cases h
  · intro h; unfold integrateZ at h; split at h <;> cases h; rfl
  · intro h; unfold powZ at h; split at h
    · cases h; rfl
    · split at h
      · cases h; rfl
      · split at h
        · cases h; rfl
        · split at h <;> cases h; rfl
      · split at h
        · cases h
        · split at h <;> cases h
          exact powLoopZ_zero _ _
  · intro h; unfold composeZ at h; split at h <;> cases h <;> rfl

/-- **C07.9h** the invariant of every history, for every zero: in every object of the heap the powers are distinct
and no coefficient `==` to the object's OWN zero is stored (constructors, the `zero` setter — which compacts against
the new zero —, item assignment, every operator, failed steps in between). -/
theorem zhist_inv (ops : List ZOp) : ZInv (zrun ZState.empty ops) := zinv_zrun zinv_empty ops

theorem zhist_step_inv {st : ZState} (h : ZInv st) (op : ZOp) : ZInv (zstep st op) := zinv_zstep h op

/-- **C07.9i** for EVERY history of constructions and operations and any two variables: `p == q` implies
`hash(p) == hash(q)` (or both unhashable) and `not (p != q)` — across all spellings of zeros and coefficients. -/
theorem zhist_eq_hash (ops : List ZOp) {i j : ℕ} {p q : ZPoly}
    (hi : (zrun ZState.empty ops).val i = some p) (hj : (zrun ZState.empty ops).val j = some q)
    (h : eqZ p q = true) : hashZ p = hashZ q ∧ neZ p q = false :=
  zpoly_eq_hash (zval_good (zhist_inv ops) hi).1 (zval_good (zhist_inv ops) hj).1 h

/-- **C07.9j** a step that raises leaves no trace; a hashed object refuses `p[k] = c` and `p.zero = z`; hashing an
object whose zero is unhashable raises TypeError and does not freeze it. -/
theorem zhist_failed_step {st : ZState} {op : ZOp} {e : PyErr} (h : zact st op = .fail e) : zstep st op = st :=
  zfail_unchanged h

theorem zhist_hashed_refuses {st : ZState} {i a : ℕ} {o : ZObj} (ho : st.obj i = some (a, o))
    (hh : o.hashed = true) (k : ℤ) (c : PyNum) (z : PyVal) :
    zact st (.setitem i k c) = .fail .type ∧ zact st (.setzero i z) = .fail .type := by
  simp [zact, ho, hh]

theorem zhist_unhashable_zero {st : ZState} {i a : ℕ} {o : ZObj} (ho : st.obj i = some (a, o))
    (hz : o.p.zero = .elist ∨ o.p.zero = .edict) : zact st (.hash i) = .fail .type := by
  rcases hz with hz | hz <;> simp [zact, ho, hashZ, hz, PyVal.hash, bind, Except.bind]

/-! ## 8b. ERASURE: the spelled-number model of section 8 is sent homomorphically to the field model of sections 1–7

`F` is any field of characteristic 0 with `I² = −1` (ℚ(i), ℂ); `num I a = a.re + a.im·I` forgets the kind of a
Python number, `erase I p` erases every coefficient of `p._data` (insertion order kept).  `NumZ z`: the `zero`
attribute is a numeric zero in any spelling — the only hypothesis; `Good p`: the invariant of every history
(`zhist_inv`). -/

section Erasure
variable {F : Type} [Field F] [CharZero F] [DecidableEq F] {I : F}

/-- **C07.11a** on numbers: `+ - * / **` (any kinds, any integer exponent, `/` by a non-zero number) are the
field operations and Python's `==` is equality of the erased values. -/
theorem num_hom (hI : I * I = -1) (a b : PyNum) (n : ℤ) (ek : ExpKind) :
    num I (a + b) = num I a + num I b ∧ num I (a - b) = num I a - num I b ∧ num I (a * b) = num I a * num I b ∧
    num I (-a) = -num I a ∧ (b.isZero = false → num I (a / b) = num I a / num I b) ∧
    num I (powNum a n ek) = num I a ^ n ∧ (a.eq b = true ↔ num I a = num I b) ∧
    (a.isZero = true ↔ num I a = 0) :=
  ⟨num_add a b, num_sub a b, num_mul hI a b, num_neg a, num_div hI a b, num_powNum hI a n ek,
    (num_eq_iff hI a b).symm, (num_eq_zero_iff hI a).symm⟩

/-- **C07.11b** constructors: what `Poly(dict / list / number, zero)` stores erases to the field model's
constructor on the erased input; a well-formed spelled Poly erases to a well-formed field Poly. -/
theorem erase_ctors (hI : I * I = -1) (l : List (Int × PyNum)) (cs : List PyNum) (c : PyNum) {z : Option PyVal}
    (hz : NumZ (z.getD dfltZero)) :
    erase I (ofDictZ l z) = mk (eraseD I l) ∧ erase I (ofListZ cs z) = ofList (cs.map (num I)) ∧
      erase I (ofNumZ c z) = ofScalar (num I c) :=
  ⟨erase_ofDictZ hI l hz, erase_ofListZ hI cs hz, erase_ofNumZ hI c hz⟩

theorem erase_wf (hI : I * I = -1) {p : ZPoly} (hg : Good p) (hz : NumZ p.zero) : WF (erase I p) :=
  wf_erase hI hg hz

/-- **C07.11c** `+ - *`, unary `-` and the six operators with a number: erasure commutes, as lists. -/
theorem erase_ring_ops (hI : I * I = -1) {p q : ZPoly} (hz : NumZ p.zero) (hz' : NumZ q.zero) (s : ScalOp)
    (c : PyNum) :
    erase I (addZ p q) = add (erase I p) (erase I q) ∧ erase I (subZ p q) = sub (erase I p) (erase I q) ∧
    erase I (mulZ p q) = mul (erase I p) (erase I q) ∧ erase I (negZ p) = neg (erase I p) ∧
    erase I (scalZ s p c) = scalOp s (erase I p) (num I c) :=
  ⟨erase_addZ hI hz q, erase_subZ hI hz hz', erase_mulZ hI hz q, erase_negZ hI hz, erase_scalZ hI s hz c⟩

/-- **C07.11d** `**` with an exponent spelled as int / bool / float: a new object holds the field model's power;
the "returns self" case is the field model's `powIsSelf`. -/
theorem erase_pow (hI : I * I = -1) {p : ZPoly} (hg : Good p) (hz : NumZ p.zero) (n : ℤ) (ek : ExpKind) :
    (∀ r, powZ p n ek = .new r → erase I r = pow (erase I p) n) ∧
    (powZ p n ek = .self → pow (erase I p) n = erase I p ∧ powIsSelf (erase I p : MPoly F) n = true) :=
  ⟨fun r h => erase_powZ_new hI hg hz h, erase_powZ_self hI⟩

/-- **C07.11e** `/`, `diff`, `integrate` (same answers, same exceptions). -/
theorem erase_div_calculus (hI : I * I = -1) {p : ZPoly} (hg : Good p) (hz : NumZ p.zero) (q : ZPoly) (c : PyNum)
    (n : ℕ) :
    (divsZ p c).map (erase I) = divScalar (erase I p) (num I c) ∧
    (divZ p q).map (erase I) = divPoly (erase I p) (erase I q) ∧
    erase I (diffZ p n) = diff (erase I p) n ∧
    (integrateZ p).map (erase I) = integrate (erase I p) :=
  ⟨erase_divsZ hI hz c, erase_divZ hI hz q, erase_diffZ hI hg hz n, erase_integrateZ hI hz⟩

/-- **C07.11f** evaluation on exact numbers, every scheme, `v == 0` and the empty Poly included. -/
theorem erase_call (hI : I * I = -1) {p : ZPoly} (hz : NumZ p.zero) (v : PyNum) (h : Horner) :
    valOf I (callZ p v h) = call (erase I p) (num I v) h := valOf_callZ hI hz v h

/-- **C07.11f'** composition `p(q)` of two Polys: when the spelled model answers (`.ok`: no exception from a
    power `q ** k`), the answer erases to the field model's `compose` on the erasures —
    the summands carry the zero of `q`, the final cast the zero of `p`; both numeric zeros. -/
theorem erase_compose (hI : I * I = -1) {p q r : ZPoly} (hg : Good q) (hzp : NumZ p.zero) (hzq : NumZ q.zero)
    (h : composeZ p q = .ok r) : erase I r = compose (erase I p) (erase I q) := erase_composeZ hI hg hzp hzq h

/-- `p.values()` (and `order`, AttributeError included) -/
theorem erase_values (hI : I * I = -1) {p : ZPoly} (hz : NumZ p.zero) :
    (valuesZ p).map (List.map (valOf I)) = values (erase I p) := erase_valuesZ hI hz

/-- **C07.11g** `p == q` is `==` of the erasures, i.e. (for well-formed Polys) same denotation in `F[T;T⁻¹]`. -/
theorem erase_eq (hI : I * I = -1) {p q : ZPoly} (hz : NumZ p.zero) (hz' : NumZ q.zero) :
    eqZ p q = eq (erase I p) (erase I q) := eqZ_eq_eq_erase hI hz hz'

theorem erase_eq_iff (hI : I * I = -1) {p q : ZPoly} (hp : Good p) (hq : Good q) (hz : NumZ p.zero)
    (hz' : NumZ q.zero) : eqZ p q = true ↔ toLaurent (erase I p) = toLaurent (erase I q) := by
  rw [eqZ_eq_eq_erase hI hz hz', eq_iff_toLaurent (wf_erase hI hp hz) (wf_erase hI hq hz')]

end Erasure

/-! ### transfer: the ring laws hold, up to the code's `==`, for the spelled Polys that `zhist` runs
(instance of the erasure: `F = ℂ`; the statements do not mention it) -/

/-- **C07.11h** commutativity, associativity, distributivity, `p − p` empty — for Polys with coefficients and zeros
of ANY kinds (int / bool / Fraction / float / complex, mixed). -/
theorem zpoly_ring_laws {p q r : ZPoly} (hp : Good p) (hq : Good q) (hr : Good r)
    (zp : NumZ p.zero) (zq : NumZ q.zero) (zr : NumZ r.zero) :
    eqZ (addZ p q) (addZ q p) = true ∧ eqZ (mulZ p q) (mulZ q p) = true ∧
    eqZ (addZ (addZ p q) r) (addZ p (addZ q r)) = true ∧ eqZ (mulZ (mulZ p q) r) (mulZ p (mulZ q r)) = true ∧
    eqZ (mulZ p (addZ q r)) (addZ (mulZ p q) (mulZ p r)) = true ∧ (subZ p p).data = [] := by
  classical
  have hI := Complex.I_mul_I
  have wp := wf_erase hI hp zp
  have wq := wf_erase hI hq zq
  have wr := wf_erase hI hr zr
  refine ⟨?_, ?_, ?_, ?_, ?_, ?_⟩
  · rw [eqZ_eq_eq_erase hI (p := addZ p q) (q := addZ q p) zp zq, erase_addZ hI zp, erase_addZ hI zq]
    exact add_comm wp wq
  · rw [eqZ_eq_eq_erase hI (p := mulZ p q) (q := mulZ q p) zp zq, erase_mulZ hI zp, erase_mulZ hI zq]
    exact mul_comm _ _
  · rw [eqZ_eq_eq_erase hI (p := addZ (addZ p q) r) (q := addZ p (addZ q r)) zp zp,
      erase_addZ hI (p := addZ p q) zp, erase_addZ hI zp, erase_addZ hI zp, erase_addZ hI zq]
    exact add_assoc wp wq wr
  · rw [eqZ_eq_eq_erase hI (p := mulZ (mulZ p q) r) (q := mulZ p (mulZ q r)) zp zp,
      erase_mulZ hI (p := mulZ p q) zp, erase_mulZ hI zp, erase_mulZ hI zp, erase_mulZ hI zq]
    exact mul_assoc _ _ _
  · rw [eqZ_eq_eq_erase hI (p := mulZ p (addZ q r)) (q := addZ (mulZ p q) (mulZ p r)) zp zp,
      erase_mulZ hI zp, erase_addZ hI zq, erase_addZ hI (p := mulZ p q) zp, erase_mulZ hI zp, erase_mulZ hI zp]
    exact left_distrib wq wr
  · have := sub_self_empty wp
    rw [← erase_subZ hI zp zp] at this
    unfold erase eraseD mapV at this
    exact List.map_eq_nil_iff.1 this

/-- **C07.11i** congruence: `==` operands give `==` results (`+ - *`, unary `-`, `diff`) — whatever the spellings
on either side; so every law of sections 1–6 can be rewritten under the code's `==`. -/
theorem zpoly_congr {p p' q q' : ZPoly} (hp : Good p) (hp' : Good p') (hq : Good q) (hq' : Good q')
    (zp : NumZ p.zero) (zp' : NumZ p'.zero) (zq : NumZ q.zero) (zq' : NumZ q'.zero)
    (h : eqZ p p' = true) (h' : eqZ q q' = true) (n : ℕ) :
    eqZ (addZ p q) (addZ p' q') = true ∧ eqZ (subZ p q) (subZ p' q') = true ∧
    eqZ (mulZ p q) (mulZ p' q') = true ∧ eqZ (negZ p) (negZ p') = true ∧
    eqZ (diffZ p n) (diffZ p' n) = true := by
  classical
  have hI := Complex.I_mul_I
  have wp := wf_erase hI hp zp
  have wp' := wf_erase hI hp' zp'
  have wq := wf_erase hI hq zq
  have wq' := wf_erase hI hq' zq'
  rw [eqZ_eq_eq_erase hI zp zp', eq_iff wp wp'] at h
  rw [eqZ_eq_eq_erase hI zq zq', eq_iff wq wq'] at h'
  refine ⟨?_, ?_, ?_, ?_, ?_⟩
  · rw [eqZ_eq_eq_erase hI (p := addZ p q) (q := addZ p' q') zp zp', erase_addZ hI zp, erase_addZ hI zp',
      eq_iff (wf_add _ _) (wf_add _ _), toLaurent_add wp wq, toLaurent_add wp' wq', h, h']
  · rw [eqZ_eq_eq_erase hI (p := subZ p q) (q := subZ p' q') zp zp', erase_subZ hI zp zq, erase_subZ hI zp' zq',
      eq_iff (wf_sub _ _) (wf_sub _ _), toLaurent_sub wp wq, toLaurent_sub wp' wq', h, h']
  · rw [eqZ_eq_eq_erase hI (p := mulZ p q) (q := mulZ p' q') zp zp', erase_mulZ hI zp, erase_mulZ hI zp',
      eq_iff (wf_mul _ _) (wf_mul _ _), toLaurent_mul, toLaurent_mul, h, h']
  · rw [eqZ_eq_eq_erase hI (p := negZ p) (q := negZ p') zp zp', erase_negZ hI zp, erase_negZ hI zp',
      eq_iff (wf_neg _) (wf_neg _), toLaurent_neg wp, toLaurent_neg wp', h]
  · rw [eqZ_eq_eq_erase hI (p := diffZ p n) (q := diffZ p' n) zp zp', erase_diffZ hI hp zp, erase_diffZ hI hp' zp',
      eq_iff (wf_diff wp n) (wf_diff wp' n), toLaurent_diff wp, toLaurent_diff wp', h]

/-- at every moment of every history of `zhist`: any three variables with numeric zeros satisfy the ring laws -/
theorem zhist_ring_laws (ops : List ZOp) {i j k : ℕ} {p q r : ZPoly}
    (hi : (zrun ZState.empty ops).val i = some p) (hj : (zrun ZState.empty ops).val j = some q)
    (hk : (zrun ZState.empty ops).val k = some r) (zp : NumZ p.zero) (zq : NumZ q.zero) (zr : NumZ r.zero) :
    eqZ (addZ p q) (addZ q p) = true ∧ eqZ (mulZ p q) (mulZ q p) = true ∧
    eqZ (addZ (addZ p q) r) (addZ p (addZ q r)) = true ∧ eqZ (mulZ (mulZ p q) r) (mulZ p (mulZ q r)) = true ∧
    eqZ (mulZ p (addZ q r)) (addZ (mulZ p q) (mulZ p r)) = true ∧ (subZ p p).data = [] :=
  zpoly_ring_laws (zval_good (zhist_inv ops) hi) (zval_good (zhist_inv ops) hj) (zval_good (zhist_inv ops) hk)
    zp zq zr

/-! ## non-vacuity: every hypothesis used above is satisfiable on a non-trivial input -/

section Examples

/-- `1/2·x⁻¹ + 3·x²` and `1 − x` -/
private def p0 : MPoly ℚ := [(-1, 1 / 2), (2, 3)]
private def q0 : MPoly ℚ := [(0, 1), (1, -1)]
private def r0 : MPoly ℚ := [(3, 2), (0, -1), (1, 1 / 3)]

private theorem wp : WF p0 := ⟨by decide +kernel, by decide +kernel⟩
private theorem wq : WF q0 := ⟨by decide +kernel, by decide +kernel⟩
private theorem wr : WF r0 := ⟨by decide +kernel, by decide +kernel⟩

-- concrete values of the model (Laurent operands, unsorted creation order)
example : add p0 q0 = [(-1, 1 / 2), (2, 3), (0, 1), (1, -1)] := by decide +kernel
example : mul p0 q0 = [(-1, 1 / 2), (0, -1 / 2), (2, 3), (3, -3)] := by decide +kernel
example : sub p0 p0 = [] := by decide +kernel
example : pow q0 3 = [(0, 1), (1, -3), (2, 3), (3, -1)] := by decide +kernel
example : diff p0 = [(-2, -1 / 2), (1, 6)] := by decide +kernel
example : integrate q0 = .ok [(1, 1), (2, -1 / 2)] := by decide +kernel
example : compose q0 q0 = [(1, 1)] := by decide +kernel
example : lagrangeFunc [((1 : ℚ), 5), (2, 7), (4, 1 / 3)] 2 = .ok 7 := by decide +kernel
example : lagrangeFunc [((1 : ℚ), 5), (2, 7), (4, 1 / 3)] 3 = .ok (49 / 9) := by decide +kernel
example : lagrangeFunc [((1 : ℚ), 5)] 3 true = .ok 5 := by decide +kernel

-- the implications, instantiated
example : eq (add p0 q0) (add q0 p0) = true := add_comm wp wq
example : eq (add (add p0 q0) r0) (add p0 (add q0 r0)) = true := add_assoc wp wq wr
example : eq (mul p0 (add q0 r0)) (add (mul p0 q0) (mul p0 r0)) = true := left_distrib wq wr
example : sub p0 p0 = [] := sub_self_empty wp
example : eq (pow p0 ((3 : ℕ) : ℤ)) ((List.replicate 3 p0).foldl mul (ofScalar 1)) = true := pow_nfold wp 3
example : call (mul p0 q0) 2 .yes = call p0 2 .yes * call q0 2 .yes :=
  call_mul wp wq (Or.inl (by norm_num)) _
example : call (mul q0 r0) 0 .auto = call q0 0 .auto * call r0 0 .auto :=
  call_mul wq wr (Or.inr ⟨(isPoly_iff _).1 (by decide +kernel), (isPoly_iff _).1 (by decide +kernel)⟩) _
example : call (add p0 q0) 2 .no = call p0 2 .no + call q0 2 .no := call_add wp wq _ _
example : call (compose q0 p0) 2 .auto = call q0 (call p0 2 .yes) .no :=
  call_compose ((isPoly_iff _).1 (by decide +kernel)) wq (Or.inl (by norm_num)) _ _ _
example : eq (diff (mul p0 q0)) (add (mul (diff p0) q0) (mul p0 (diff q0))) = true := diff_mul wp wq
example : eq (diff [(1, 1), (2, -1 / 2)]) q0 = true :=
  diff_integrate wq (show integrate q0 = .ok [(1, 1), (2, -1 / 2)] by decide +kernel)
example : lagrangeFunc [((1 : ℚ), 5), (2, 7), (4, 1 / 3)] 4 = .ok (1 / 3) :=
  lagrange_func_interp (by decide +kernel) (by decide) (by simp)
example : call (compose q0 r0) 0 .auto = call q0 (call r0 0 .yes) .no :=
  call_compose ((isPoly_iff _).1 (by decide +kernel)) wq
    (Or.inr ⟨(isPoly_iff _).1 (by decide +kernel), wr⟩) _ _ _
example : (lagrangePoly [((1 : ℚ), 5), (2, 7), (4, 1 / 3)]).map (fun P => call P 4 .auto) = .ok (1 / 3) :=
  lagrange_poly_interp (by decide +kernel) (by decide) (by simp) _
example : lagrangePoly [((1 : ℚ), 5), (2, 7), (4, 1 / 3)] = .ok [(2, -16 / 9), (1, 22 / 3), (0, -5 / 9)] := by
  decide +kernel
example : divPoly p0 [(1, 2)] = .ok [(-2, 1 / 4), (1, 3 / 2)] := by decide +kernel
example : hashKey (add p0 q0) = hashKey (add q0 p0) := (eq_hash (wf_add _ _) (wf_add _ _)).1 (add_comm wp wq)
example : sortAsc (mul p0 q0) = sMul p0 q0 := mul_eq_spec p0 q0

-- histories: `p ** 2`, then `p[0] = -4`, then `p ** 2` again is the square of the NEW p; the first result is untouched
example : ((hrun (HState.init [p0] []) [.pow 0 2 false, .setitem 0 0 (-4), .pow 0 2 false]).heap.map (·.data)) =
    [[(-1, 1 / 2), (2, 3), (0, -4)], [(-2, 1 / 4), (1, 3), (4, 9)],
     [(-2, 1 / 4), (1, 3), (-1, -4), (4, 9), (2, -24), (0, 16)]] := by decide +kernel
-- `a = q ** 3; a[5] = 7; q ** 3`: the second cube is a new object with the right value
example : ((hrun (HState.init [q0] []) [.pow 0 3 false, .setitem 1 5 7, .pow 0 3 false]).heap.map (·.data)) =
    [[(0, 1), (1, -1)], [(0, 1), (1, -3), (2, 3), (3, -1), (5, 7)], [(0, 1), (1, -3), (2, 3), (3, -1)]] := by
  decide +kernel
-- `q ** 1` is `q` itself: the new variable has the address of the old one
example : (hrun (HState.init [q0] []) [.pow 0 1 false]).pool = [0, 0] := by decide +kernel
-- assigning zero removes the term; a hashed object refuses item assignment and stays as it is
example : ((hrun (HState.init [q0] []) [.setitem 0 1 0, .hash 0, .setitem 0 3 5]).heap) =
    [{ data := [(0, 1)], hashed := true }] := by decide +kernel
example : HWF (hrun (HState.init [p0, q0] []) [.bin .mul 0 1, .setitem 2 0 0, .comp 1 2]) :=
  (hist_wf (by intro p hp; simp at hp; rcases hp with rfl | rfl; exacts [wp, wq]) [] _).1
example : act (HState.init [p0, q0] ([] : List (List (Int × ℚ)))) (.bin .mul 0 1) = .alloc (mul p0 q0) := rfl

-- zeros and spellings: `Poly({1: Fraction(1, 2), 0: 3})` with the default zero, `zero=0`, `zero=False`, `zero=0j`
private def zl : List (Int × PyNum) := [(1, .frac (1 / 2)), (0, .int 3)]
example : eqZ (ofDictZ zl none) (ofDictZ zl (some (.num (.int 0)))) = true := by decide +kernel
example : hashZ (ofDictZ zl none) = hashZ (ofDictZ zl (some (.num (.bool false)))) :=
  (zpoly_eq_hash (good_normZ _ _).1 (good_normZ _ _).1 (by decide +kernel)).1
example : eqZ (normZ zl (.num (.cplx 0 0 true))) (normZ zl (.num (.frac 0))) = true :=
  zpoly_respelled_zero_eq zl (by decide +kernel)
example : PyNum.hash (.float (1 / 2) true) = PyNum.hash (.cplx (1 / 2) 0 true) := pynum_eq_hash (by decide +kernel)
example : PyNum.hash (.frac (1 / 3)) = 1537228672809129301 := by decide +kernel
example : PyNum.hash (.int (-1)) = -2 ∧ PyNum.hash (.cplx (1 / 2) (-1 / 4) true) = -576460752303423488 := by
  decide +kernel
-- `x + 1` (zero `0.`) and `1 + x` built on `zero=Fraction(0)`: equal, equal hashes, zeros spelled differently
example : (zrun ZState.empty [.ctorDict [(1, .int 1)] none, .ctorDict [(1, .int 1)] (some (.num (.frac 0))),
    .scal .adds 0 (.int 1), .scal .radds 1 (.int 1)]).heap.map (·.p.zero) =
    [.num (.float 0 true), .num (.frac 0), .num (.float 0 true), .num (.frac 0)] := by decide +kernel
example : hashZ ⟨[(1, .int 1), (0, .int 1)], .num (.float 0 true)⟩ = hashZ ⟨[(0, .int 1), (1, .int 1)], .num (.frac 0)⟩ :=
  (zhist_eq_hash [.ctorDict [(1, .int 1)] none, .ctorDict [(1, .int 1)] (some (.num (.frac 0))),
    .scal .adds 0 (.int 1), .scal .radds 1 (.int 1)] (i := 2) (j := 3) (by decide +kernel) (by decide +kernel)
    (by decide +kernel)).1
-- the setter compacts against the NEW zero; `zero=[]` keeps a numeric 0 and is unhashable
example : setZeroZ (ofListZ [.int 1, .int 0, .int 2] (some .elist)) (.num (.bool false)) =
    ⟨[(0, .int 1), (2, .int 2)], .num (.bool false)⟩ := by decide +kernel
example : hashZ (ofListZ [.int 1, .int 0, .int 2] (some .elist)) = .error .type := by decide +kernel
example : (PyNum.int 1 / PyNum.int 2 : PyNum) = .float (1 / 2) true ∧ (PyNum.bool true + PyNum.bool true : PyNum) = .int 2 ∧
    (PyNum.frac (1 / 3) * PyNum.float (1 / 2) true : PyNum) = .float (1 / 6) false := by decide +kernel

-- the specification functions, instantiated
example : sInteg q0 = some [(1, 1), (2, -1 / 2)] := by decide +kernel
example : toLaurent (sDiff [(1, 1), (2, -1 / 2)]) = toLaurent q0 :=
  (sInteg_denotes (show sInteg q0 = some [(1, 1), (2, -1 / 2)] by decide +kernel)).2
example : sInteg p0 = none := by decide +kernel
example : sPowZ [((-1 : ℤ), (2 : ℚ))] (-2) = some [(2, 1 / 4)] := by decide +kernel
example : sortAsc (pow [((-1 : ℤ), (2 : ℚ))] (-2)) = [(2, 1 / 4)] :=
  pow_eq_specZ ⟨by decide +kernel, by decide +kernel⟩ (by decide +kernel)
example : toLaurent ([(2, 1 / 4)] : MPoly ℚ) * toLaurent [((-1 : ℤ), (2 : ℚ))] ^ 2 = 1 :=
  sPowZ_neg_is_inverse (m := 2) (by decide +kernel) (by decide)
example : sPowZ q0 (-1) = none := by decide +kernel
example : sComp p0 [((1 : ℤ), (2 : ℚ))] = some [(-1, 1 / 4), (2, 12)] := by decide +kernel
example : sortAsc (compose p0 [((1 : ℤ), (2 : ℚ))]) = [(-1, 1 / 4), (2, 12)] :=
  compose_eq_spec wp ⟨by decide +kernel, by decide +kernel⟩ (by decide +kernel)
example : sortAsc [(-2, 1 / 4), (1, 3 / 2)] = sDivMono p0 1 2 :=
  (truediv_eq_spec wp (c := 0)).2 (show divPoly p0 [(1, 2)] = .ok [(-2, 1 / 4), (1, 3 / 2)] by decide +kernel)
example : sortAsc (diff r0 2) = sDiffN r0 2 := diffN_eq_spec wr 2
example : eq (add p0 q0) (add q0 p0) = sEq (add p0 q0) (add q0 p0) := eq_eq_spec (wf_add _ _) (wf_add _ _)
example : (([(1 : ℚ), 2, 4]).mapM fun k => lagrangeFunc [((1 : ℚ), 5), (2, 7), (4, 1 / 3)] k) =
    .ok (sLagrangeAtNodes [((1 : ℚ), 5), (2, 7), (4, 1 / 3)]) :=
  lagrange_at_nodes (by decide +kernel) (by decide)
example : order r0 = .ok 3 ∧ values r0 = .ok [-1, 1 / 3, 0, 2] ∧ order p0 = .error .attribute := by decide +kernel
example : eq (ofList [-1, 1 / 3, 0, 2]) r0 = true := ((values_spec wr).2.2 _ (by decide +kernel)).1

-- erasure: mixed spellings (default zero `0.`, `zero=0`, `zero=0j`), Fraction / float / complex coefficients
private def za : ZPoly := ofDictZ zl none
private def zb : ZPoly := ofDictZ [(0, .float (1 / 2) true), (2, .cplx 1 (-1) true)] (some (.num (.int 0)))
private def zc : ZPoly := ofDictZ [(-1, .bool true), (1, .frac (2 / 3))] (some (.num (.cplx 0 0 true)))
private theorem nza : NumZ za.zero := ⟨_, rfl, by decide +kernel⟩
private theorem nzb : NumZ zb.zero := ⟨_, rfl, by decide +kernel⟩
private theorem nzc : NumZ zc.zero := ⟨_, rfl, by decide +kernel⟩
example : eqZ (mulZ za (addZ zb zc)) (addZ (mulZ za zb) (mulZ za zc)) = true :=
  (zpoly_ring_laws (good_normZ _ _) (good_normZ _ _) (good_normZ _ _) nza nzb nzc).2.2.2.2.1
example : eqZ (mulZ za zb) (mulZ (ofDictZ zl (some (.num (.bool false)))) zb) = true :=
  (zpoly_congr (q := zb) (q' := zb) (good_normZ _ _) (good_normZ _ _) (good_normZ _ _) (good_normZ _ _) nza
    ⟨_, rfl, by decide +kernel⟩ nzb nzb (by decide +kernel) (by decide +kernel) 0).2.2.1
example : num Complex.I (PyNum.cplx 1 (-1) true * PyNum.frac (2 / 3)) = num Complex.I (.cplx 1 (-1) true) * num Complex.I (.frac (2 / 3)) :=
  (num_hom Complex.I_mul_I _ _ 0 .int).2.2.1

end Examples

/-! ## 13. the model IS the source: definitions regenerated from `lazy_poly.py` on every check

`ALV.Gen.C07.py_*` are written by the translator `harness/props/c07_tr.py` from the method bodies of `Poly` / `PolyMeta`
as the source under test has them NOW.  Each theorem below identifies one of them with the hand-written model function
that all the theorems of sections 9–12 (and, through the erasure, 1–8) are about.  An edit of the source that changes the
meaning of a method changes the regenerated definition, and the corresponding equation stops being provable. -/
section Source
open ALV.Gen.C07

/-- `Poly.__init__` for each kind of `data` (list / dict / Poly / None / number), `zero` given or `None`, including the
    "Compact zeros" loop against the instance's own zero -/
theorem src_init_is_model :
    (∀ ps z, py_init (.dict ps) z = ofDictZ ps z) ∧ (∀ cs z, py_init (.list cs) z = ofListZ cs z) ∧
    (∀ c z, py_init (.num c) z = ofNumZ c z) ∧ (∀ z, py_init .none z = ofNoneZ z) ∧
    (∀ p z, py_init (.poly p) z = ofPolyZ p z) :=
  ⟨Src.init_dict, Src.init_list, Src.init_num, Src.init_none, Src.init_poly⟩

theorem src_zero_is_model : py_zero = ZPoly.zero := rfl

/-- the `zero` setter: TypeError on a hashed instance, otherwise compaction against the new zero -/
theorem src_zero_set_is_model (h : Bool) (p : ZPoly) (z : PyVal) :
    py_zero_set h p z = if h then .error .type else .ok (setZeroZ p z) := Src.zero_set h p z

theorem src_len_is_model (p : ZPoly) : py_len p = p.data.length := rfl

theorem src_getitem_is_model : py_getitem = getZ := by funext p k; exact Src.getitem p k

theorem src_setitem_is_model (h : Bool) (p : ZPoly) (k : Int) (c : PyNum) :
    py_setitem h p k c = if h then .error .type else .ok (setItemZ p k c) := Src.setitem h p k c

theorem src_copy_is_model : py_copy = copyZ := by funext p z; exact Src.copy p z
theorem src_diff_is_model : py_diff = diffZ := by funext p n; exact Src.diff p n
theorem src_integrate_is_model : py_integrate = integrateZ := by funext p; exact Src.integrate p

/-- `PolyMeta.__unary__` with `operator.neg` / `operator.pos` -/
theorem src_unary_is_model : py_neg = negZ ∧ py_unary PyNum.pos = posZ :=
  ⟨by funext p; exact Src.unary_neg p, by funext p; exact Src.unary_pos p⟩

/-- `PolyMeta.__rbinary__`: `c + p`, `c - p`, `c * p` wrap the number with `zero=p.zero` -/
theorem src_rbinary_is_model (p : ZPoly) (c : PyNum) :
    py_rbinary py_add p c = scalZ .radds p c ∧ py_rbinary py_sub p c = scalZ .rsubs p c ∧
    py_rbinary py_mul p c = scalZ .rmuls p c := ⟨Src.radd p c, Src.rsub p c, Src.rmul p c⟩

theorem src_operators_is_model : operators = ["+", "-", "*", "pow", "truediv", "eq", "ne"] := by decide

theorem src_add_is_model : py_add = addZ := by funext p q; exact Src.add p q
theorem src_sub_is_model : py_sub = subZ := by funext p q; exact Src.sub p q
theorem src_mul_is_model : py_mul = mulZ := by funext p q; exact Src.mul p q

/-- `p + c`, `p - c`, `p * c`: the number is wrapped as `Poly(c)` — with the DEFAULT zero -/
theorem src_scalar_is_model (p : ZPoly) (c : PyNum) :
    py_add_num p c = scalZ .adds p c ∧ py_sub_num p c = scalZ .subs p c ∧ py_mul_num p c = scalZ .muls p c :=
  ⟨Src.add_num p c, Src.sub_num p c, Src.mul_num p c⟩

theorem src_eq_is_model : py_eq = eqZ := rfl
theorem src_eq_num_is_model : py_eq_num = eqsZ := by funext p c; exact Src.eq_num p c
theorem src_ne_is_model : py_ne = neZ := rfl

theorem src_truediv_is_model : py_truediv = divZ := by funext p q; exact Src.truediv p q
theorem src_truediv_num_is_model : py_truediv_num = divsZ := by funext p c; exact Src.truediv_num p c

/-- `Poly.__pow__` with a number exponent (int / bool / float of integral value `n`): all its branches — exponent 0, the
    empty Poly, one term (`k * other`, `1 if v == 1 else v ** other`, ZeroDivisionError of `0 ** negative`), and
    `reduce(operator.mul, [self.copy()] * (other - 1) + [self])` (TypeError of a float count, the object `self` ITSELF for a
    count `≤ 0`, the left-nested product otherwise).  Hypothesis: `p.copy()` has the contents of `p` (distinct powers, no
    stored zero: every instance the constructor produced) — the source multiplies COPIES, the model `powLoopZ` multiplies
    `p`; for an instance with a stored zero the two differ, and the model does not cover it. -/
theorem src_pow_is_model (p : ZPoly) (n : Int) (ek : ExpKind) (hc : copyZ p none = p) :
    Py.toPowRes (py_pow p n ek) = powZ p n ek := Src.pow p n ek hc

/-- `Poly.__call__` on a number, for each value of the flag `horner` ("auto" / True / False): the empty Poly answers its
    zero, `value == 0` answers `self[0]`, the Horner-like scheme (closure `horner_step`, `reduce` over the descending
    terms, the final `value ** last_power`) and the direct sum over the ascending terms -/
theorem src_call_is_model : py_call = callZ := by funext p v h; exact Src.call p v h

/-- the hypothesis of `src_pow_is_model` is the representation invariant `Good` (distinct powers, no stored zero), which
    every instance of a history has (`zval_good`) -/
theorem src_pow_hyp_of_good {p : ZPoly} (h : Good p) : copyZ p none = p := by
  obtain ⟨d, z⟩ := p
  show (⟨compactZ z (ofPairs d), z⟩ : ZPoly) = ⟨d, z⟩
  rw [ofPairs_of_nodup h.1]
  unfold compactZ
  rw [List.filter_eq_self.2 h.2]

theorem src_pow_is_model_of_good {p : ZPoly} (h : Good p) (n : Int) (ek : ExpKind) :
    Py.toPowRes (py_pow p n ek) = powZ p n ek := Src.pow p n ek (src_pow_hyp_of_good h)

end Source

end ALV.Props.C07

#write_audit "C07"
