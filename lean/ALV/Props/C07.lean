/-
  C07 — property theorems.  `Poly` is an exact commutative ring with evaluation,
  composition and calculus.  Only statements of the property, non-vacuity
  examples and the audit live here; the proofs' work is in `ALV.Lemmas.C07*`.

  Reading guide.  `MPoly K` is the model of `Poly._data` (insertion-ordered
  association list), `WF p` its representation invariant (keys distinct, no
  stored zero), `toLaurent p : K[T;T⁻¹]` the Laurent polynomial it denotes.
  All theorems hold for every field `K`, every support (finite subset of ℤ),
  every insertion order — no bound anywhere.
-/
import ALV.Lemmas.C07Laurent
import ALV.Common.Audit

set_option linter.unusedSectionVars false

open LaurentPolynomial

namespace ALV.Props.C07
open ALV.C07
variable {K : Type} [Field K] [DecidableEq K]

/-! ## 1. ring structure -/

/-- **C07.1a** `+` is the sum of `K[T;T⁻¹]`. -/
theorem toLaurent_add {p q : MPoly K} (hp : WF p) (hq : WF q) :
    toLaurent (add p q) = toLaurent p + toLaurent q := ALV.C07.toLaurent_add hp.1 hq.1

/-- **C07.1b** unary `-` is the negation of `K[T;T⁻¹]`. -/
theorem toLaurent_neg {p : MPoly K} (hp : WF p) : toLaurent (neg p) = -toLaurent p :=
  ALV.C07.toLaurent_neg hp.1

/-- **C07.1c** binary `-`. -/
theorem toLaurent_sub {p q : MPoly K} (hp : WF p) (hq : WF q) :
    toLaurent (sub p q) = toLaurent p - toLaurent q := ALV.C07.toLaurent_sub hp.1 hq.1

/-- **C07.1d** `*` is the (convolution) product of `K[T;T⁻¹]` — for arbitrary term lists. -/
theorem toLaurent_mul (p q : MPoly K) : toLaurent (mul p q) = toLaurent p * toLaurent q :=
  ALV.C07.toLaurent_mul p q

/-- **C07.1e** `p ** n` is the n-th power of `K[T;T⁻¹]`, for every natural `n` (all four
branches of `__pow__`: `n = 0`, empty, one term, repeated product). -/
theorem toLaurent_pow (p : MPoly K) (n : ℕ) : toLaurent (pow p (n : ℤ)) = toLaurent p ^ n :=
  ALV.C07.toLaurent_pow p n

/-- **C07.1f** a monomial to a negative power is its inverse power in the Laurent ring. -/
theorem toLaurent_pow_monomial (k : ℤ) (v : K) (n : ℤ) :
    toLaurent (pow [(k, v)] n) = AddMonoidAlgebra.single (k * n) (v ^ n) :=
  ALV.C07.toLaurent_pow_mono k v n

/-- **C07.1g** constants and the monomial `x`. -/
theorem toLaurent_const_X (c : K) :
    toLaurent (ofScalar c) = C c ∧ toLaurent (X : MPoly K) = T 1 ∧ toLaurent ([] : MPoly K) = 0 :=
  ⟨toLaurent_ofScalar c, toLaurent_X, rfl⟩

/-- **C07.2** no zero coefficient is ever stored and keys stay distinct: every operation returns
a well-formed Poly (constructors and `+ - *` unconditionally, whatever their arguments). -/
theorem wf_operations (p q : MPoly K) (l : List (Int × K)) (cs : List K) (c : K) :
    WF (mk l) ∧ WF (ofList cs) ∧ WF (ofScalar c) ∧ WF (add p q) ∧ WF (sub p q) ∧ WF (neg p) ∧
      WF (mul p q) ∧ WF (compose p q) :=
  ⟨wf_mk l, wf_ofList cs, wf_ofScalar c, wf_add p q, wf_sub p q, wf_neg p, wf_mul p q, wf_compose p q⟩

theorem wf_pow {p : MPoly K} (hp : WF p) (n : ℤ) : WF (pow p n) := ALV.C07.wf_pow hp n

theorem wf_diff {p : MPoly K} (hp : WF p) (n : ℕ) : WF (diff p n) := ALV.C07.wf_diff p n hp.1

theorem wf_integrate {p ip : MPoly K} (h : integrate p = .ok ip) : WF ip := ALV.C07.wf_integrate h

theorem wf_truediv {p q r : MPoly K} {c : K} :
    (divScalar p c = .ok r → WF r) ∧ (divPoly p q = .ok r → WF r) :=
  ⟨ALV.C07.wf_divScalar, ALV.C07.wf_divPoly⟩

theorem wf_setitem {p : MPoly K} (hp : WF p) (k : ℤ) (c : K) : WF (setItem p k c) :=
  ALV.C07.wf_setItem hp k c

/-- **C07.3** `==` decides equality of the denoted Laurent polynomials (so it is independent of
the insertion order). -/
theorem eq_iff {p q : MPoly K} (hp : WF p) (hq : WF q) :
    eq p q = true ↔ toLaurent p = toLaurent q := eq_iff_toLaurent hp hq

/-- **C07.3b** a well-formed Poly denotes zero iff it is the empty Poly. -/
theorem toLaurent_eq_zero_iff {p : MPoly K} (hp : WF p) : toLaurent p = 0 ↔ p = [] :=
  ⟨eq_nil_of_toLaurent_eq_zero hp, fun h => h ▸ rfl⟩

/-! ### the laws of the property text, as the code's `==` sees them -/

theorem add_comm {p q : MPoly K} (hp : WF p) (hq : WF q) : eq (add p q) (add q p) = true := by
  rw [eq_iff (wf_add _ _) (wf_add _ _), toLaurent_add hp hq, toLaurent_add hq hp, _root_.add_comm]

theorem add_assoc {p q r : MPoly K} (hp : WF p) (hq : WF q) (hr : WF r) :
    eq (add (add p q) r) (add p (add q r)) = true := by
  rw [eq_iff (wf_add _ _) (wf_add _ _), toLaurent_add (wf_add _ _) hr, toLaurent_add hp hq,
    toLaurent_add hp (wf_add _ _), toLaurent_add hq hr, _root_.add_assoc]

theorem mul_comm (p q : MPoly K) : eq (mul p q) (mul q p) = true := by
  rw [eq_iff (wf_mul _ _) (wf_mul _ _), toLaurent_mul, toLaurent_mul, _root_.mul_comm]

theorem mul_assoc (p q r : MPoly K) : eq (mul (mul p q) r) (mul p (mul q r)) = true := by
  rw [eq_iff (wf_mul _ _) (wf_mul _ _)]
  simp only [toLaurent_mul, _root_.mul_assoc]

theorem left_distrib {p q r : MPoly K} (hq : WF q) (hr : WF r) :
    eq (mul p (add q r)) (add (mul p q) (mul p r)) = true := by
  rw [eq_iff (wf_mul _ _) (wf_add _ _), toLaurent_mul, toLaurent_add hq hr,
    toLaurent_add (wf_mul _ _) (wf_mul _ _), toLaurent_mul, toLaurent_mul, mul_add]

theorem right_distrib {p q r : MPoly K} (hp : WF p) (hq : WF q) :
    eq (mul (add p q) r) (add (mul p r) (mul q r)) = true := by
  rw [eq_iff (wf_mul _ _) (wf_add _ _), toLaurent_mul, toLaurent_add hp hq,
    toLaurent_add (wf_mul _ _) (wf_mul _ _), toLaurent_mul, toLaurent_mul, add_mul]

/-- `p - p` is the empty polynomial (literally `Poly()`: nothing stored). -/
theorem sub_self_empty {p : MPoly K} (hp : WF p) : sub p p = [] := by
  apply eq_nil_of_toLaurent_eq_zero (wf_sub p p)
  rw [toLaurent_sub hp hp, sub_self]

theorem add_zero_mul_one {p : MPoly K} (hp : WF p) :
    eq (add p []) p = true ∧ eq (add [] p) p = true ∧
      eq (mul p (ofScalar 1)) p = true ∧ eq (mul (ofScalar 1) p) p = true := by
  refine ⟨?_, ?_, ?_, ?_⟩
  · rw [eq_iff (wf_add _ _) hp, toLaurent_add hp wf_nil]; simp
  · rw [eq_iff (wf_add _ _) hp, toLaurent_add wf_nil hp]; simp
  · rw [eq_iff (wf_mul _ _) hp, toLaurent_mul, toLaurent_ofScalar]; simp
  · rw [eq_iff (wf_mul _ _) hp, toLaurent_mul, toLaurent_ofScalar]; simp

/-- `p ** n` equals the n-fold product `reduce(mul, [p]*n, Poly(1))`. -/
theorem pow_nfold {p : MPoly K} (hp : WF p) (n : ℕ) :
    eq (pow p (n : ℤ)) ((List.replicate n p).foldl mul (ofScalar 1)) = true := by
  rw [eq_iff (wf_pow hp _) (wf_foldl_mul _ (wf_ofScalar 1)), toLaurent_pow, toLaurent_foldl_mul,
    toLaurent_ofScalar]
  simp

theorem pow_succ {p : MPoly K} (hp : WF p) (n : ℕ) :
    eq (pow p ((n : ℤ) + 1)) (mul (pow p (n : ℤ)) p) = true := by
  have : ((n : ℤ) + 1) = ((n + 1 : ℕ) : ℤ) := by simp
  rw [this, eq_iff (wf_pow hp _) (wf_mul _ _), toLaurent_pow, toLaurent_mul, toLaurent_pow,
    _root_.pow_succ]

/-! ## 5. comparison -/

/-- `p != q` is the negation of `p == q` -/
theorem ne_eq_not_eq (p q : MPoly K) : ne p q = !eq p q := rfl

/-! ## non-vacuity -/

example : WF ([(-1, (1:ℚ) / 2), (2, 3)] : MPoly ℚ) := by
  constructor
  · decide
  · intro kv h
    simp at h
    rcases h with h | h <;> subst h <;> norm_num

end ALV.Props.C07

#write_audit "C07"
