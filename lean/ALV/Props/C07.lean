/-
  C07 — property theorems (placeholder while the slice is being built).
-/
import ALV.Model.C07
import ALV.Spec.C07
import ALV.Common.Audit

namespace ALV.Props.C07
open ALV.C07
variable {α : Type} [Add α] [Mul α] [Sub α] [Neg α] [Div α] [OfNat α 0] [OfNat α 1] [DecidableEq α]

/-- `p != q` is the negation of `p == q` -/
theorem ne_eq_not_eq (p q : MPoly α) : ne p q = !eq p q := rfl

end ALV.Props.C07

#write_audit "C07"
