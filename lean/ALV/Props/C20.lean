/-
  C20 — property theorems: the sample-wise analysis tools equal their defining formulas.
  Only statements of the property, non-vacuity examples and the audit live here; helper lemmas
  are in `ALV.Lemmas.C20*`.  `K` is an arbitrary field of characteristic 0 (ordered where the
  tool compares samples); the driver runs the same definitions at `Rat`.
-/
import Mathlib.Algebra.CharZero.Defs
import ALV.Lemmas.C20Mavg
import ALV.Lemmas.C20Clip
import ALV.Common.Audit

namespace ALV.Props.C20
open ALV.C20

/-! ### moving average -/
section maverage
variable {K : Type} [Field K] [CharZero K]

/-- **C20.1a** `maverage.deque`: every output is the mean of the last `size` samples, the
samples before the start taken as `zero` — for every size ≥ 1, every `zero`, every input. -/
theorem maverage_deque_eq_spec (size : Nat) (hs : 0 < size) (zero : K) (xs : List K) :
    maverageDeque size zero xs = mavgSpec size zero xs := by
  have h0 : (size : K) ≠ 0 := Nat.cast_ne_zero.mpr (by omega)
  rw [maverageDeque_eq_from size hs h0, mavgSpec_eq_from size hs]

/-- **C20.1b** `maverage.recursive` (`(1/size)(1 − z^-size)/(1 − z^-1)`, memory filled with `zero`). -/
theorem maverage_recursive_eq_spec (size : Nat) (hs : 0 < size) (zero : K) (xs : List K) :
    maverageRecursive size zero xs = mavgSpec size zero xs := by
  have h0 : (size : K) ≠ 0 := Nat.cast_ne_zero.mpr (by omega)
  rw [maverageRecursive_eq_from size hs h0, mavgSpec_eq_from size hs]

/-- **C20.1c** `maverage.fir` (`Σ_{i<size} (1/size) z^-i`). -/
theorem maverage_fir_eq_spec (size : Nat) (hs : 0 < size) (zero : K) (xs : List K) :
    maverageFir size zero xs = mavgSpec size zero xs := by
  have h0 : (size : K) ≠ 0 := Nat.cast_ne_zero.mpr (by omega)
  rw [maverageFir_eq_from size hs h0, mavgSpec_eq_from size hs]

/-- **C20.1d** all moving-average strategies agree with each other. -/
theorem maverage_strategies_agree (size : Nat) (hs : 0 < size) (zero : K) (xs : List K) :
    maverageDeque size zero xs = maverageRecursive size zero xs ∧
    maverageDeque size zero xs = maverageFir size zero xs := by
  rw [maverage_deque_eq_spec size hs, maverage_recursive_eq_spec size hs, maverage_fir_eq_spec size hs]
  exact ⟨rfl, rfl⟩

/-- one output per input -/
theorem maverage_length (size : Nat) (hs : 0 < size) (zero : K) (xs : List K) :
    (maverageDeque size zero xs).length = xs.length := by
  rw [maverage_deque_eq_spec size hs]; simp [mavgSpec]

end maverage

/-! ### accumulate -/
section accumulate
variable {K : Type} [Field K]

/-- **C20.2a** `accumulate.func` (and `itertools.accumulate`, the same loop): running sums. -/
theorem accumulate_func_eq_spec (xs : List K) : accumulateFunc xs = accSpec xs :=
  accumulateFunc_eq xs

theorem accumulate_it_eq_spec (xs : List K) : accumulateIt xs = accSpec xs :=
  accumulateFunc_eq xs

/-- **C20.2b** `accumulate.z` = `1/(1 − z^-1)` with zero memory: running sums. -/
theorem accumulate_z_eq_spec (xs : List K) : accumulateZ 0 xs = accSpec xs := by
  rw [← accumulateFunc_eq]
  cases xs with
  | nil => rfl
  | cons x rest =>
    have h := accZLoop_eq (x :: rest) (finit [1] [-1] (0 : K)) 0 (by simp [finit]) (by simp [finit])
    simp only [accumulateZ, frun, h, accLoop, accumulateFunc, zero_add]

end accumulate

/-! ### clip -/
section clip
variable {K : Type} [LinearOrder K]

/-- **C20.5a** the four branches of `clip` are `min(high, max(low, x))` with absent limits skipped,
and the ValueError is raised exactly when both limits are given with `high < low`. -/
theorem clip_eq_spec (low high : Option K) (xs : List K) : clip low high xs = clipSpec low high xs :=
  clip_eq_clipSpec low high xs

/-- **C20.5b** `clip` is idempotent. -/
theorem clip_idempotent (low high : Option K) (xs ys : List K) (h : clip low high xs = .ok ys) :
    clip low high ys = .ok ys := by
  rw [clip_eq_spec, clipSpec_ok_iff] at *
  obtain ⟨ok, e⟩ := h
  refine ⟨ok, ?_⟩
  subst e
  rw [List.map_map]
  apply List.map_congr_left
  intro x _
  exact (clip1_of_within low high _ (clip1_within low high ok x)).symm

/-- **C20.5c** every output sample respects every limit that is not `None`. -/
theorem clip_bounded (low high : Option K) (xs ys : List K) (h : clip low high xs = .ok ys) :
    ∀ y ∈ ys, withinLimits low high y := by
  rw [clip_eq_spec, clipSpec_ok_iff] at h
  obtain ⟨ok, e⟩ := h
  subst e
  intro y hy
  obtain ⟨x, _, rfl⟩ := List.mem_map.mp hy
  exact clip1_within low high ok x

/-- **C20.5d** one output per input, and samples already inside the limits are untouched. -/
theorem clip_length_and_fixed (low high : Option K) (xs ys : List K) (h : clip low high xs = .ok ys) :
    ys.length = xs.length ∧ ∀ i (hi : i < xs.length) (hj : i < ys.length),
      withinLimits low high xs[i] → ys[i] = xs[i] := by
  rw [clip_eq_spec, clipSpec_ok_iff] at h
  obtain ⟨_, e⟩ := h
  subst e
  refine ⟨by simp, ?_⟩
  intro i hi hj hw
  simp [clip1_of_within low high _ hw]

/-- **C20.5e** the call fails exactly for `high < low`. -/
theorem clip_error_iff (low high : Option K) (xs : List K) :
    (∃ e, clip low high xs = .error e) ↔ ∃ lo hi, low = some lo ∧ high = some hi ∧ hi < lo := by
  cases low with
  | none => cases high <;> simp [clip]
  | some lo =>
    cases high with
    | none => simp [clip]
    | some hi =>
      simp only [clip]
      split_ifs with h <;> simp [h]

end clip

/-! ### non-vacuity -/
example : (0 < 4) ∧ maverageDeque 2 (0 : Rat) [1, 3, 5] = [1/2, 2, 4] := by decide +kernel
example : clip (some (0 : Int)) (some 2) [-1, 1, 3] = .ok [0, 1, 2] := by decide
example : ∃ e, clip (some (2 : Int)) (some 0) [1] = .error e := ⟨_, rfl⟩

end ALV.Props.C20

#write_audit "C20"
