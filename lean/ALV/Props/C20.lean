/-
  C20 — property theorems: the sample-wise analysis tools equal their defining formulas.
  Only statements of the property, non-vacuity examples and the audit live here; helper lemmas
  are in `ALV.Lemmas.C20*`.  `K` is an arbitrary field of characteristic 0 (ordered where the
  tool compares samples); the driver runs the same definitions at `Rat`.
-/
import Mathlib.Algebra.CharZero.Defs
import ALV.Lemmas.C20Mavg
import ALV.Lemmas.C20Amdf
import ALV.Lemmas.C20Clip
import ALV.Lemmas.C20Zcross
import ALV.Lemmas.C20Unwrap
import ALV.Lemmas.C20Call
import ALV.Lemmas.C20Causal
import ALV.Lemmas.C20Env
import ALV.Gen.C20Defaults
import ALV.Lemmas.C20Src
import ALV.Common.Audit

namespace ALV.Props.C20
open ALV.C20

/-! ### moving average -/
section maverage
variable {K : Type} [Field K] [CharZero K]

/-- **C20.1a** `maverage.deque`: every output is the mean of the last `size` samples, the
samples before the start taken as `zero` — for every size ≥ 1, every `zero`, every input. -/
theorem maverage_deque_eq_spec (size : Nat) (hs : 0 < size) (zero : K) (xs : List K) :
    maverageDeque size zero xs = mavgSpec size zero xs := by
  have h0 : (size : K) ≠ 0 := Nat.cast_ne_zero.mpr (by omega)
  rw [maverageDeque_eq_from size hs h0, mavgSpec_eq_from size hs]

/-- **C20.1b** `maverage.recursive` (`(1/size)(1 − z^-size)/(1 − z^-1)`, memory filled with `zero`). -/
theorem maverage_recursive_eq_spec (size : Nat) (hs : 0 < size) (zero : K) (xs : List K) :
    maverageRecursive size zero xs = mavgSpec size zero xs := by
  have h0 : (size : K) ≠ 0 := Nat.cast_ne_zero.mpr (by omega)
  rw [maverageRecursive_eq_from size hs h0, mavgSpec_eq_from size hs]

/-- **C20.1c** `maverage.fir` (`Σ_{i<size} (1/size) z^-i`). -/
theorem maverage_fir_eq_spec (size : Nat) (hs : 0 < size) (zero : K) (xs : List K) :
    maverageFir size zero xs = mavgSpec size zero xs := by
  have h0 : (size : K) ≠ 0 := Nat.cast_ne_zero.mpr (by omega)
  rw [maverageFir_eq_from size hs h0, mavgSpec_eq_from size hs]

/-- **C20.1d** all moving-average strategies agree with each other. -/
theorem maverage_strategies_agree (size : Nat) (hs : 0 < size) (zero : K) (xs : List K) :
    maverageDeque size zero xs = maverageRecursive size zero xs ∧
    maverageDeque size zero xs = maverageFir size zero xs := by
  rw [maverage_deque_eq_spec size hs, maverage_recursive_eq_spec size hs, maverage_fir_eq_spec size hs]
  exact ⟨rfl, rfl⟩

/-- **C20.1e** the specification in index form: output `n` is `(Σ_{k<size} x[n−k]) / size` with
`x[i] = zero` for `i < 0`. -/
theorem maverage_eq_indexed_mean (size : Nat) (hs : 0 < size) (zero : K) (xs : List K) :
    maverageDeque size zero xs = mavgClosed size zero xs := by
  rw [maverage_deque_eq_spec size hs, mavgClosed_eq_mavgSpec]

/-- one output per input -/
theorem maverage_length (size : Nat) (hs : 0 < size) (zero : K) (xs : List K) :
    (maverageDeque size zero xs).length = xs.length := by
  rw [maverage_deque_eq_spec size hs]; simp [mavgSpec]

/-- **C20.1f** "earlier samples taken as the ZERO VALUE", for a non-zero `zero`: every strategy
starts from a window FULL of `zero` — on an input that stays at `zero` the output stays at `zero`
(not at `zero/size`, `zero·k/size`, …), and the first output of any input is
`((size−1)·zero + x[0]) / size`. -/
theorem maverage_window_starts_full_of_zero (size : Nat) (hs : 0 < size) (zero : K) :
    (∀ n, maverageDeque size zero (List.replicate n zero) = List.replicate n zero ∧
          maverageRecursive size zero (List.replicate n zero) = List.replicate n zero ∧
          maverageFir size zero (List.replicate n zero) = List.replicate n zero) ∧
    (∀ x xs, (maverageDeque size zero (x :: xs)).head? =
        some ((((size - 1 : Nat) : K) * zero + x) / (size : K)) ∧
      (maverageRecursive size zero (x :: xs)).head? = (maverageDeque size zero (x :: xs)).head? ∧
      (maverageFir size zero (x :: xs)).head? = (maverageDeque size zero (x :: xs)).head?) := by
  have h0 : (size : K) ≠ 0 := Nat.cast_ne_zero.mpr (by omega)
  constructor
  · intro n
    rw [maverage_deque_eq_spec size hs, maverage_recursive_eq_spec size hs, maverage_fir_eq_spec size hs,
      mavgSpec_eq_from size hs, mavgFrom_const size hs h0]
    exact ⟨rfl, rfl, rfl⟩
  · intro x xs
    rw [maverage_deque_eq_spec size hs, maverage_recursive_eq_spec size hs, maverage_fir_eq_spec size hs,
      mavgSpec_eq_from size hs, mavgFrom_first]
    exact ⟨rfl, rfl, rfl⟩

end maverage

/-! ### accumulate -/
section accumulate
variable {K : Type} [Field K]

/-- **C20.2a** `accumulate.func` (and `itertools.accumulate`, the same loop): running sums. -/
theorem accumulate_func_eq_spec (xs : List K) : accumulateFunc xs = accSpec xs :=
  accumulateFunc_eq xs

theorem accumulate_it_eq_spec (xs : List K) : accumulateIt xs = accSpec xs :=
  accumulateFunc_eq xs

/-- **C20.2b** `accumulate.z` = `1/(1 − z^-1)` with zero memory: running sums. -/
theorem accumulate_z_eq_spec (xs : List K) : accumulateZ 0 xs = accSpec xs := by
  rw [← accumulateFunc_eq]
  cases xs with
  | nil => rfl
  | cons x rest =>
    have h := accZLoop_eq (x :: rest) (finit [1] [-1] (0 : K)) 0 (by simp [finit]) (by simp [finit])
    simp only [accumulateZ, frun, h, accLoop, accumulateFunc, zero_add]

/-- **C20.2c** `accumulate.z` called with a memory value `zero`: the running sums start at `zero`
(`y[n] = zero + x[0] + … + x[n]`). -/
theorem accumulate_z_memory (zero : K) (xs : List K) :
    accumulateZ zero xs = (accSpec xs).map (zero + ·) := by
  rw [← accumulate_z_eq_spec]
  have h := accZLoop_eq xs (finit [1] [-1] zero) zero (by simp [finit]) (by simp [finit])
  have h' := accZLoop_eq xs (finit [1] [-1] (0 : K)) 0 (by simp [finit]) (by simp [finit])
  simp only [accumulateZ, frun, h, h']
  simpa using accLoop_shift zero 0 xs

end accumulate

/-! ### amdf and envelope -/
section amdf
variable {K : Type} [Field K] [LinearOrder K] [IsStrictOrderedRing K]

omit [LinearOrder K] [IsStrictOrderedRing K] in
/-- the lag filter `1 − z^-lag` of `amdf` computes `x[n] − x[n−lag]` (earlier samples = `zero`),
for every lag including 0. -/
theorem amdf_lag_filter_eq_spec (lag : Nat) (zero : K) (xs : List K) :
    frun (lagNum lag) [] zero xs = lagDiffSpec lag zero xs :=
  lagFilter_eq_spec lag zero xs

/-- **C20.3** `amdf(lag, size)` is the moving average of `|x[n] − x[n−lag]|`: every lag, every
size ≥ 1, every input (memory value `zero` on both stages, as the code passes it). -/
theorem amdf_eq_spec (lag size : Nat) (hs : 0 < size) (zero : K) (xs : List K) :
    amdf lag size zero xs = amdfSpec lag size zero xs := by
  unfold amdf amdfSpec
  rw [maverage_deque_eq_spec size hs, lagFilter_eq_spec]

/-- `absG` (the model of Python's `abs`) is the absolute value. -/
theorem absG_is_abs (x : K) : absG x = |x| := absG_eq_abs x

/-- **C20.4a** `envelope.abs` / `envelope.squared` are, by definition, the low-pass (coefficient
lists `b`, `a`, zero memory) of `|x|` resp. `x²`. -/
theorem envelope_by_definition (b a xs : List K) :
    envelopeAbs b a xs = frun b a 0 (xs.map fun x => |x|) ∧
    envelopeSquared b a xs = frun b a 0 (xs.map fun x => x ^ 2) := by
  constructor
  · unfold envelopeAbs
    congr 1
    apply List.map_congr_left; intro x _; exact absG_eq_abs x
  · unfold envelopeSquared
    congr 1
    apply List.map_congr_left; intro x _; ring

/-- **C20.4b** with the default one-pole low-pass `g / (1 − R z^-1)`, `g, R ≥ 0`, both envelopes
are non-negative (so the square root taken by `envelope.rms` is real). -/
theorem envelope_nonneg (g r : K) (hg : 0 ≤ g) (hr : 0 ≤ r) (xs : List K) :
    (∀ y ∈ envelopeAbs [g] [-r] xs, 0 ≤ y) ∧ (∀ y ∈ envelopeSquared [g] [-r] xs, 0 ≤ y) := by
  constructor
  · apply onePole_nonneg g r hg hr _ _ _ (by simp [finit]) ⟨0, by simp [finit], le_refl _⟩
    intro x hx
    obtain ⟨y, _, rfl⟩ := List.mem_map.mp hx
    rw [absG_eq_abs]; exact abs_nonneg y
  · apply onePole_nonneg g r hg hr _ _ _ (by simp [finit]) ⟨0, by simp [finit], le_refl _⟩
    intro x hx
    obtain ⟨y, _, rfl⟩ := List.mem_map.mp hx
    exact mul_self_nonneg y

end amdf

/-! ### the envelope on the model the driver runs: `lowpass(cutoff)` is the C13 one-pole design

`envelopePoleCall` (generic over `TrigField`; the driver runs it at `Float`) builds the low-pass with
`ALV.C13.lowpassPole` — the object property C13's theorems are about — and runs the direct-form loop
on its coefficient lists.  At `ℝ`, for EVERY cutoff (no hypothesis: `x = 2 − cos c ≥ 1` always): -/
section envelopePole
open ALV.C13

/-- **C20.4c** the design the envelope uses IS C13's `lowpass.pole` (numerator, denominator without
`a0 = 1`), for every number type — so C13's contracts (unit DC gain, half power at the cutoff, pole
`R` inside the unit circle) speak about the filter the envelope runs. -/
theorem envelope_design_is_C13_lowpass {α : Type} [TrigField α] [ZeroTest α] (c : α) :
    poleDesign c = ((lowpass .pole c).num, (lowpass .pole c).den.drop 1) := rfl

/-- **C20.4d** each envelope strategy is the documented low-pass of `|x|` or `x²`: the one-pole
recursion `y[n] = (1 − R)·u[n] + R·y[n−1]`, `y[−1] = 0`, with `u = |x|` (`abs`), `u = x²` (`squared`),
the square root of the latter (`rms`, also the dictionary default), `R = x − √(x² − 1)`,
`x = 2 − cos(cutoff)`, and cutoff `π/512` when omitted.  Every strategy, every cutoff, every input. -/
theorem envelope_pole_eq_spec (s : Option EnvStrategy) (cutoff : Option ℝ) (xs : List ℝ) :
    envelopePoleCall s cutoff xs = envelopeSpec s cutoff xs := by
  have e : (dnum (TrigField.pi : ℝ) Dflt.envelope_cutoff : ℝ) = TrigField.pi / TrigField.ofInt 512 := by
    simp [dnum, DExpr.eval, Dflt.envelope_cutoff]
  have key : ∀ (c : ℝ) (us : List ℝ), frun (poleDesign c).1 (poleDesign c).2 0 us =
      onePoleFrom (TrigField.ofInt 1 - poleRadius c) (poleRadius c) (TrigField.ofInt 0) us := by
    intro c us
    rw [poleDesign_real, poleRadius_real]
    simp only [TrigField.real_ofInt, Int.cast_one, Int.cast_zero]
    split_ifs with h
    · rw [h]; exact frun_onePole_nil _ us
    · exact frun_onePole _ _ us
  have ha : ∀ us : List ℝ, us.map absG = us.map TrigField.abs := by
    intro us; apply List.map_congr_left; intro x _; exact absG_eq_abs x
  unfold envelopePoleCall envelopeCall envelopeSpec
  simp only [e, EnvStrategy.dflt]
  cases s.getD EnvStrategy.rms <;>
    simp only [envelopeAbs, envelopeSquared, key, ha]

/-- **C20.4e** the same in plain real terms, for the three strategies at a given cutoff. -/
theorem envelope_pole_recursions (c : ℝ) (xs : List ℝ) :
    let R := (2 - Real.cos c) - Real.sqrt ((2 - Real.cos c) ^ 2 - 1)
    envelopePoleCall (some .abs) (some c) xs = onePoleFrom (1 - R) R 0 (xs.map fun x => |x|) ∧
    envelopePoleCall (some .squared) (some c) xs = onePoleFrom (1 - R) R 0 (xs.map fun x => x ^ 2) ∧
    envelopePoleCall (some .rms) (some c) xs =
      (onePoleFrom (1 - R) R 0 (xs.map fun x => x ^ 2)).map Real.sqrt ∧
    envelopePoleCall none (some c) xs = envelopePoleCall (some .rms) (some c) xs := by
  have hR : poleRadius c = (2 - Real.cos c) - Real.sqrt ((2 - Real.cos c) ^ 2 - 1) := by
    rw [poleRadius_real]; rfl
  have hsq : ∀ us : List ℝ, (us.map fun x => x * x) = us.map fun x => x ^ 2 := by
    intro us; apply List.map_congr_left; intro x _; ring
  simp only [envelope_pole_eq_spec]
  simp only [envelopeSpec, Option.getD_some, Option.getD_none, hR, hsq, TrigField.real_ofInt,
    Int.cast_one, Int.cast_zero]
  refine ⟨?_, ?_, ?_, ?_⟩ <;> first | rfl | trivial

/-- **C20.4f** the default cutoff is `π/512`, a cutoff inside `(0, π)`. -/
theorem envelope_pole_default_cutoff (s : Option EnvStrategy) (xs : List ℝ) :
    envelopePoleCall s none xs = envelopePoleCall s (some (Real.pi / 512)) xs ∧
    0 < Real.pi / 512 ∧ Real.pi / 512 < Real.pi := by
  refine ⟨?_, by positivity, ?_⟩
  · simp only [envelope_pole_eq_spec, envelopeSpec, Option.getD_none, Option.getD_some,
      TrigField.real_pi, TrigField.real_ofInt]
    norm_num
  · have := Real.pi_pos
    linarith

/-- **C20.4g** the pole: `0 < R ≤ 1` for every cutoff, `R < 1` and DC gain exactly 1 for a cutoff in
`(0, π)`; in the time domain the response to a constant `|x| = u` is `u·(1 − R^(n+1))` (it tends to
`u`: unit DC gain); all outputs of `abs` / `squared` are `≥ 0`, so the `rms` square root is real. -/
theorem envelope_pole_contract (c : ℝ) :
    (0 < poleRadius c ∧ poleRadius c ≤ 1) ∧
    (0 < c → c < Real.pi → poleRadius c < 1 ∧ dcGain (lowpassPole c) = 1) ∧
    (∀ (u : ℝ) (n : Nat), 0 ≤ u → envelopePoleCall (some .abs) (some c) (List.replicate n u) =
      (List.range n).map fun k => u * (1 - poleRadius c ^ (k + 1))) ∧
    (∀ xs : List ℝ, (∀ y ∈ envelopePoleCall (some .abs) (some c) xs, 0 ≤ y) ∧
      (∀ y ∈ envelopePoleCall (some .squared) (some c) xs, 0 ≤ y)) := by
  have hp := envPole_pos c
  have hl := envPole_le_one c
  refine ⟨by rw [poleRadius_real]; exact ⟨hp, hl⟩, ?_, ?_, ?_⟩
  · intro h0 h1
    rw [poleRadius_real, lowpassPole_eq]
    exact ⟨envPole_lt_one c h0 h1, onePoleLP_dc _ (envPole_lt_one c h0 h1).ne⟩
  · intro u n hu
    rw [envelope_pole_eq_spec]
    simp only [envelopeSpec, Option.getD_some, TrigField.real_ofInt, Int.cast_one, Int.cast_zero,
      List.map_replicate, TrigField.real_abs, abs_of_nonneg hu]
    have := onePoleFrom_const (poleRadius c) u n 0
    simpa using this
  · intro xs
    have hd := poleDesign_real c
    constructor
    · intro y hy
      have hx : ∀ x ∈ xs.map (absG : ℝ → ℝ), 0 ≤ x := by
        intro x hx; obtain ⟨z, _, rfl⟩ := List.mem_map.mp hx
        rw [absG_eq_abs]; exact abs_nonneg z
      simp only [envelopePoleCall, envelopeCall, Option.getD_some, envelopeAbs, hd] at hy
      split_ifs at hy with h
      · rw [frun_onePole_nil] at hy
        rw [← frun_onePole] at hy
        exact onePole_nonneg 0 _ (le_refl 0) hp.le _ hx _ (by simp [finit]) ⟨0, by simp [finit], le_refl _⟩ y hy
      · exact onePole_nonneg _ _ (by linarith) hp.le _ hx _ (by simp [finit]) ⟨0, by simp [finit], le_refl _⟩ y hy
    · intro y hy
      have hx : ∀ x ∈ xs.map (fun x : ℝ => x * x), 0 ≤ x := by
        intro x hx; obtain ⟨z, _, rfl⟩ := List.mem_map.mp hx
        exact mul_self_nonneg z
      simp only [envelopePoleCall, envelopeCall, Option.getD_some, envelopeSquared, hd] at hy
      split_ifs at hy with h
      · rw [frun_onePole_nil] at hy
        rw [← frun_onePole] at hy
        exact onePole_nonneg 0 _ (le_refl 0) hp.le _ hx _ (by simp [finit]) ⟨0, by simp [finit], le_refl _⟩ y hy
      · exact onePole_nonneg _ _ (by linarith) hp.le _ hx _ (by simp [finit]) ⟨0, by simp [finit], le_refl _⟩ y hy

/-- **C20.4h** a TIME-VARYING cutoff (`envelope.*(sig, cutoff=<stream>)`): the pole follows the cutoff
sample by sample, `y[n] = (1 − R(c[n]))·u[n] + R(c[n])·y[n−1]`, as long as both streams last; `R(c)` is the
pole of C13's `lowpass.pole` at `c` (the same expression, for every number type). -/
theorem envelope_var_eq_spec (s : Option EnvStrategy) (cs xs : List ℝ) :
    envelopeVarCall s cs xs = envelopeVarSpec s cs xs ∧
    (envelopeVarCall s cs xs).length = min cs.length xs.length := by
  have ha : ∀ us : List ℝ, us.map absG = us.map TrigField.abs := by
    intro us; apply List.map_congr_left; intro x _; exact absG_eq_abs x
  have h0 : ∀ cs us : List ℝ, envVarLoop 0 cs us = onePoleVarFrom (TrigField.ofInt 0) (cs.map poleRadius) us := by
    intro cs us; rw [envVarLoop_real]; simp
  unfold envelopeVarCall envelopeVarSpec
  simp only [EnvStrategy.dflt]
  cases s.getD EnvStrategy.rms <;>
    simp only [h0, ha, onePoleVarFrom_length, List.length_map, and_self]

theorem envelope_var_pole_is_C13 {α : Type} [TrigField α] [ZeroTest α] (c : α) :
    lowpassPole c = C13.mk [c1 - polePoint c] [c1, -polePoint c] := rfl

/-- **C20.4i** a cutoff stream that stays at `c` (and lasts as long as the input) is the constant cutoff `c`. -/
theorem envelope_var_constant (s : Option EnvStrategy) (c : ℝ) (n : Nat) (xs : List ℝ) (h : xs.length ≤ n) :
    envelopeVarCall s (List.replicate n c) xs = envelopePoleCall s (some c) xs := by
  rw [(envelope_var_eq_spec s _ xs).1, envelope_pole_eq_spec]
  unfold envelopeVarSpec envelopeSpec
  simp only [Option.getD_some, List.map_replicate, TrigField.real_ofInt, Int.cast_zero, Int.cast_one]
  cases s.getD EnvStrategy.rms <;> simp only [] <;>
    rw [onePoleVarFrom_const _ _ n _ (by simpa using h)]

end envelopePole

/-! ### clip -/
section clip
variable {K : Type} [LinearOrder K]

/-- **C20.5a** the four branches of `clip` are `min(high, max(low, x))` with absent limits skipped,
and the ValueError is raised exactly when both limits are given with `high < low`. -/
theorem clip_eq_spec (low high : Option K) (xs : List K) : clip low high xs = clipSpec low high xs :=
  clip_eq_clipSpec low high xs

/-- **C20.5b** `clip` is idempotent. -/
theorem clip_idempotent (low high : Option K) (xs ys : List K) (h : clip low high xs = .ok ys) :
    clip low high ys = .ok ys := by
  rw [clip_eq_spec, clipSpec_ok_iff] at *
  obtain ⟨ok, e⟩ := h
  refine ⟨ok, ?_⟩
  subst e
  rw [List.map_map]
  apply List.map_congr_left
  intro x _
  exact (clip1_of_within low high _ (clip1_within low high ok x)).symm

/-- **C20.5c** every output sample respects every limit that is not `None`. -/
theorem clip_bounded (low high : Option K) (xs ys : List K) (h : clip low high xs = .ok ys) :
    ∀ y ∈ ys, withinLimits low high y := by
  rw [clip_eq_spec, clipSpec_ok_iff] at h
  obtain ⟨ok, e⟩ := h
  subst e
  intro y hy
  obtain ⟨x, _, rfl⟩ := List.mem_map.mp hy
  exact clip1_within low high ok x

/-- **C20.5d** one output per input, and samples already inside the limits are untouched. -/
theorem clip_length_and_fixed (low high : Option K) (xs ys : List K) (h : clip low high xs = .ok ys) :
    ys.length = xs.length ∧ ∀ i (hi : i < xs.length) (hj : i < ys.length),
      withinLimits low high xs[i] → ys[i] = xs[i] := by
  rw [clip_eq_spec, clipSpec_ok_iff] at h
  obtain ⟨_, e⟩ := h
  subst e
  refine ⟨by simp, ?_⟩
  intro i hi hj hw
  simp [clip1_of_within low high _ hw]

/-- **C20.5e** the call fails exactly for `high < low`. -/
theorem clip_error_iff (low high : Option K) (xs : List K) :
    (∃ e, clip low high xs = .error e) ↔ ∃ lo hi, low = some lo ∧ high = some hi ∧ hi < lo := by
  cases low with
  | none => cases high <;> simp [clip]
  | some lo =>
    cases high with
    | none => simp [clip]
    | some hi =>
      simp only [clip]
      split_ifs with h <;> simp [h]

end clip

/-! ### zcross -/
section zcross
variable {K : Type} [Field K] [LinearOrder K] [IsStrictOrderedRing K]

/-- **C20.6a** one output per input, each `0` or `1` (any hysteresis, any first_sign). -/
theorem zcross_length_and_range (h fs : K) (xs : List K) :
    (zcross h fs xs).length = xs.length ∧ ∀ y ∈ zcross h fs xs, y = 0 ∨ y = 1 := by
  unfold zcross
  split
  · exact ⟨zphase1_length h xs, zphase1_01 h xs⟩
  · exact ⟨zphase2_length h xs _, zphase2_01 h xs _⟩

/-- **C20.6b** the two-loop state machine equals the closed characterisation: output `n` is `1`
exactly when sample `n` lies beyond the threshold on the side opposite to the current sign, the
current sign being the sign of the latest earlier sample outside `[-h, h]`, or `first_sign`'s
sign when there is none (`0` = undetermined: no crossing).  For every `h ≥ 0`. -/
theorem zcross_eq_spec (h fs : K) (h0 : 0 ≤ h) (xs : List K) :
    zcross h fs xs = zcrossSpec h fs xs := by
  rw [zcross_eq_from h fs h0, zcrossSpec_eq_from]

/-- **C20.6c** pointwise form of 6b. -/
theorem zcross_one_iff (h fs : K) (h0 : 0 ≤ h) (xs : List K) (n : Nat) (hn : n < xs.length) :
    (zcross h fs xs).getD n 0 = 1 ↔ crossing h (curSign h fs (xs.take n)) (xs.getD n 0) := by
  rw [zcross_eq_spec h fs h0]
  unfold zcrossSpec
  simp only [List.getD_eq_getElem?_getD, List.getElem?_map, List.getElem?_range hn, Option.map_some,
    Option.getD_some]
  split <;> simp_all

/-- **C20.6d** at a crossing the current sign flips. -/
theorem zcross_sign_flips (h fs : K) (h0 : 0 ≤ h) (pre : List K) (x : K)
    (hc : crossing h (curSign h fs pre) x) :
    curSign h fs (pre ++ [x]) = -(curSign h fs pre) := by
  rw [curSign_snoc]
  rcases hc with ⟨hs, hx⟩ | ⟨hs, hx⟩
  · have ho : outside h x := Or.inr hx
    have : x < 0 := by linarith
    simp [ho, hs, sgn3, this]
  · have ho : outside h x := Or.inl hx
    have hp : 0 < x := lt_of_le_of_lt h0 hx
    simp [ho, hs, sgn3, hp, not_lt.mpr hp.le]

/-- **C20.6e** the sign is only ever changed by a sample outside the band; it starts as the sign
of `first_sign`. -/
theorem zcross_sign_start_and_keep (h fs : K) (pre : List K) (x : K) :
    curSign h fs [] = sgn3 fs ∧
    (¬ outside h x → curSign h fs (pre ++ [x]) = curSign h fs pre) ∧
    (outside h x → curSign h fs (pre ++ [x]) = sgn3 x) := by
  refine ⟨by simp [curSign], ?_, ?_⟩ <;> intro ho <;> rw [curSign_snoc] <;> simp [ho]

end zcross

/-! ### unwrap -/
section unwrap
variable {K : Type} [Field K] [LinearOrder K] [IsStrictOrderedRing K]

/-- **C20.7a** `unwrap` equals the cumulative correction `y[n] = x[n] + Σ_{k≤n} corr(x[k]−x[k−1])`,
`corr d = (d mod± step) − d` for `|d| > max_delta` and `0` otherwise.  Every `step > 0`, every
`max_delta`, every input; `fl` any floor function. -/
theorem unwrap_eq_spec (fl : K → K) (hf : IsFloor fl) (md step : K) (hs : 0 < step) (xs : List K) :
    unwrap fl md step xs = unwrapSpec fl md step xs :=
  unwrap_eq_unwrapSpec fl hf md step hs xs

/-- **C20.7b** one output per input, and every output differs from its input by an integer
multiple of `step`. -/
theorem unwrap_step_multiples (fl : K → K) (hf : IsFloor fl) (md step : K) (hs : 0 < step)
    (xs : List K) :
    (unwrap fl md step xs).length = xs.length ∧
    ∀ n, n < xs.length → ∃ k : ℤ, (unwrap fl md step xs).getD n 0 = xs.getD n 0 + (k : K) * step := by
  rw [unwrap_eq_spec fl hf md step hs]
  refine ⟨by simp [unwrapSpec], ?_⟩
  intro n hn
  obtain ⟨k, hk⟩ := sumL_corr_multiple fl hf md step (diffs (xs.take (n + 1)))
  refine ⟨k, ?_⟩
  unfold unwrapSpec
  simp only [List.getD_eq_getElem?_getD, List.getElem?_map, List.getElem?_range hn, Option.map_some,
    Option.getD_some]
  rw [hk]

/-- **C20.7c** a sequence with no adjacent jump above `max_delta` is left untouched (any step). -/
theorem unwrap_identity (fl : K → K) (md step : K) (xs : List K)
    (h : AdjAll (fun a b => ¬ |b - a| > md) xs) : unwrap fl md step xs = xs := by
  cases xs with
  | nil => rfl
  | cons d0 rest =>
    have h' : AdjAll (fun a b => ¬ absG (b - a) > md) (d0 :: rest) := by
      simpa only [absG_eq_abs] using h
    simp only [unwrap, sub_self, unwrapLoop_small fl md step rest d0 h']

/-- **C20.7d** no adjacent output jump exceeds `max(max_delta, step/2)`. -/
theorem unwrap_adjacent_jump (fl : K → K) (hf : IsFloor fl) (md step : K) (hs : 0 < step)
    (xs : List K) :
    AdjAll (fun y0 y1 => |y1 - y0| ≤ max md (step / 2)) (unwrap fl md step xs) := by
  cases xs with
  | nil => simp [unwrap, AdjAll]
  | cons d0 rest =>
    have := unwrapLoop_adj fl hf md step hs rest d0 (d0 - d0)
    simpa [unwrap] using this

/-- the floor the driver uses (`Rat.floor`) is a floor function, so 7a–7d apply to it. -/
theorem ratFloor_isFloor : IsFloor R.fl := by
  intro x
  refine ⟨⟨_, rfl⟩, Rat.floor_le x, ?_⟩
  have := Rat.lt_floor_add_one x
  push_cast at this
  exact this

end unwrap

/-! ### the specifications as one-pass recursions

The closed forms of `ALV.Spec.C20` recompute a window / prefix sum / latest-sample search at every
output position (quadratic).  Each has a one-pass recursion next to it (`…SpecRec`); they are the
same functions, for all inputs — the driver evaluates the recursion on long inputs. -/
section recursions
variable {K : Type} [Field K]

/-- **C20.8a** moving average: the window recursion is the closed form (every size ≥ 1). -/
theorem mavgSpecRec_eq_spec (size : Nat) (hs : 0 < size) (zero : K) (xs : List K) :
    mavgSpecRec size zero xs = mavgSpec size zero xs :=
  (mavgSpec_eq_from size hs zero xs).symm

/-- **C20.8b** running sums: the recursion over the sum so far is the closed form. -/
theorem accSpecRec_eq_spec (xs : List K) : accSpecRec xs = accSpec xs := accSpecRec_eq xs

variable [LinearOrder K] [IsStrictOrderedRing K]

omit [IsStrictOrderedRing K] in
/-- **C20.8c** amdf: moving average of `|x[n] − x[n−lag]|`, the average evaluated in one pass. -/
theorem amdfSpecRec_eq_spec (lag size : Nat) (hs : 0 < size) (zero : K) (xs : List K) :
    amdfSpecRec lag size zero xs = amdfSpec lag size zero xs := by
  unfold amdfSpecRec amdfSpec
  exact mavgSpecRec_eq_spec size hs zero _

/-- **C20.8d** zcross: the recursion over the current sign is the closed characterisation (any
hysteresis, any first_sign). -/
theorem zcrossSpecRec_eq_spec (h fs : K) (xs : List K) :
    zcrossSpecRec h fs xs = zcrossSpec h fs xs :=
  (zcrossSpec_eq_from h fs xs).symm

/-- **C20.8e** unwrap: the recursion over the accumulated correction is the closed form (any
`fl`, `max_delta`, `step`). -/
theorem unwrapSpecRec_eq_spec (fl : K → K) (md step : K) (xs : List K) :
    unwrapSpecRec fl md step xs = unwrapSpec fl md step xs :=
  unwrapSpecRec_eq fl md step xs

end recursions

/-! ### the terms the driver runs

`ALV.C20.R.*` are the `Rat` instances of the models and specs, elaborated in the Mathlib-free
model/spec files (core instances) and executed by `alvdrv`.  The theorems above apply to exactly
these terms. -/
section rat

theorem rat_maverage (size : Nat) (hs : 0 < size) (zero : Rat) (xs : List Rat) :
    R.maverageDeque size zero xs = R.mavgSpec size zero xs ∧
    R.maverageRecursive size zero xs = R.mavgSpec size zero xs ∧
    R.maverageFir size zero xs = R.mavgSpec size zero xs ∧
    R.mavgClosed size zero xs = R.mavgSpec size zero xs :=
  ⟨maverage_deque_eq_spec size hs zero xs, maverage_recursive_eq_spec size hs zero xs,
   maverage_fir_eq_spec size hs zero xs, mavgClosed_eq_mavgSpec size zero xs⟩

theorem rat_accumulate (xs : List Rat) :
    R.accumulateFunc xs = R.accSpec xs ∧ R.accumulateIt xs = R.accSpec xs ∧
    R.accumulateZ 0 xs = R.accSpec xs :=
  ⟨accumulate_func_eq_spec xs, accumulate_it_eq_spec xs, accumulate_z_eq_spec xs⟩

theorem rat_amdf (lag size : Nat) (hs : 0 < size) (zero : Rat) (xs : List Rat) :
    R.amdf lag size zero xs = R.amdfSpec lag size zero xs :=
  amdf_eq_spec lag size hs zero xs

theorem rat_clip (low high : Option Rat) (xs : List Rat) :
    R.clip low high xs = R.clipSpec low high xs :=
  clip_eq_spec low high xs

theorem rat_zcross (h fs : Rat) (h0 : 0 ≤ h) (xs : List Rat) :
    R.zcross h fs xs = R.zcrossSpec h fs xs :=
  zcross_eq_spec h fs h0 xs

theorem rat_unwrap (md step : Rat) (hs : 0 < step) (xs : List Rat) :
    R.unwrap md step xs = R.unwrapSpec md step xs ∧
    AdjAll (fun y0 y1 => |y1 - y0| ≤ max md (step / 2)) (R.unwrap md step xs) :=
  ⟨unwrap_eq_spec R.fl ratFloor_isFloor md step hs xs,
   unwrap_adjacent_jump R.fl ratFloor_isFloor md step hs xs⟩

/-- the one-pass specifications the driver evaluates on long inputs are the closed forms -/
theorem rat_spec_recursions (size lag : Nat) (hs : 0 < size) (zero h fs md step : Rat) (xs : List Rat) :
    R.mavgSpecRec size zero xs = R.mavgSpec size zero xs ∧
    R.accSpecRec xs = R.accSpec xs ∧
    R.amdfSpecRec lag size zero xs = R.amdfSpec lag size zero xs ∧
    R.zcrossSpecRec h fs xs = R.zcrossSpec h fs xs ∧
    R.unwrapSpecRec md step xs = R.unwrapSpec md step xs :=
  ⟨mavgSpecRec_eq_spec size hs zero xs, accSpecRec_eq_spec xs, amdfSpecRec_eq_spec lag size hs zero xs,
   zcrossSpecRec_eq_spec h fs xs, unwrapSpecRec_eq_spec R.fl md step xs⟩

end rat

/-! ### the model is what the source says NOW (translator `harness/props/c20_tr.py` → `ALV.Gen.C20`)

`ALV.Gen.C20.<f>` is rewritten from the bodies of the Python functions before every build.  Each theorem says that
the regenerated definition IS the hand-written model function all the theorems above are about; an edit of the
source that changes the meaning of a translated function breaks it (or is a `TranslationError`). -/
section source
variable {α : Type}

/-- `lazy_analysis.clip` (the four `None` cases, the `high < low` error, the three comparisons) -/
theorem src_clip_is_model [LT α] [DecidableLT α] :
    ALV.Gen.C20.clip (α := α) = ALV.C20.clip := by
  funext low high xs; exact Src.clip_eq low high xs

/-- `lazy_analysis.zcross` (both loops, the `first_sign == 0` switch, the hysteresis tests, the sign rule) -/
theorem src_zcross_is_model [Mul α] [Neg α] [OfNat α 0] [OfNat α 1] [LT α] [DecidableLT α] [DecidableEq α] :
    ALV.Gen.C20.zcross (α := α) = ALV.C20.zcross := by
  funext h fs xs; exact Src.zcross_eq h fs xs

/-- `lazy_analysis.unwrap` (`next` / empty input, the threshold test, `min(d % step, d % -step, key=abs)`) -/
theorem src_unwrap_is_model [Add α] [Mul α] [Sub α] [Neg α] [Div α] [OfNat α 0] [LT α] [DecidableLT α] :
    ALV.Gen.C20.unwrap (α := α) = ALV.C20.unwrap := by
  funext fl md step xs; exact Src.unwrap_eq fl md step xs

/-- `lazy_itertools.accumulate.func` -/
theorem src_accumulate_func_is_model [Add α] [Mul α] [Sub α] [Neg α] [OfNat α 0] [OfNat α 1] :
    ALV.Gen.C20.accumulate_func (α := α) = ALV.C20.accumulateFunc := by
  funext xs; exact Src.accumulate_func_eq xs

/-- `lazy_analysis.maverage.deque` (closure: `size_inv`, the initial deque, the five statements of the loop) -/
theorem src_maverage_deque_is_model [Add α] [Mul α] [Sub α] [Neg α] [Div α] [OfNat α 0] [OfNat α 1] [NatCast α] :
    ALV.Gen.C20.maverage_deque (α := α) = ALV.C20.maverageDeque := by
  funext size zero xs; exact Src.maverage_deque_eq size zero xs

/-- `lazy_analysis.amdf` (`maverage(size)(abs(filt(sig, zero=zero)), zero=zero)`, `filt = (1 - z ** -lag)`;
`maverage(size)` is the regenerated `maverage.deque`) -/
theorem src_amdf_is_model [Add α] [Mul α] [Sub α] [Neg α] [Div α] [OfNat α 0] [OfNat α 1] [NatCast α]
    [LT α] [DecidableLT α] :
    ALV.Gen.C20.amdf (α := α) = ALV.C20.amdf := by
  funext lag size zero xs; exact Src.amdf_eq lag size zero xs

/-- `lazy_analysis.envelope.abs` / `.squared` (`lowpass(cutoff)(abs(thub(sig, 1)))`, `… ** 2`; `b a` = the
coefficients of `lowpass(cutoff)`) -/
theorem src_envelope_is_model [Add α] [Mul α] [Sub α] [Neg α] [Div α] [OfNat α 0] [OfNat α 1] [NatCast α]
    [LT α] [DecidableLT α] :
    ALV.Gen.C20.envelope_abs (α := α) = ALV.C20.envelopeAbs ∧
    ALV.Gen.C20.envelope_squared (α := α) = ALV.C20.envelopeSquared :=
  ⟨rfl, rfl⟩

/-- what the tie buys: a clause of the property, stated about the REGENERATED definitions (here: the
closed specifications of `clip`, `zcross`, `unwrap`, `maverage.deque`, `accumulate.func`, `amdf` at `Rat`, the
type the driver runs) -/
theorem src_tools_eq_spec (low high : Option Rat) (h fs md step zero : Rat) (h0 : 0 ≤ h) (hs : 0 < step)
    (size lag : Nat) (hz : 0 < size) (xs : List Rat) :
    ALV.Gen.C20.clip low high xs = clipSpec low high xs ∧
    ALV.Gen.C20.zcross h fs xs = zcrossSpec h fs xs ∧
    ALV.Gen.C20.unwrap R.fl md step xs = unwrapSpec R.fl md step xs ∧
    ALV.Gen.C20.maverage_deque size zero xs = mavgSpec size zero xs ∧
    ALV.Gen.C20.accumulate_func xs = accSpec xs ∧
    ALV.Gen.C20.amdf lag size zero xs = amdfSpec lag size zero xs := by
  rw [src_clip_is_model, src_zcross_is_model, src_unwrap_is_model, src_maverage_deque_is_model,
    src_accumulate_func_is_model, src_amdf_is_model]
  exact ⟨rat_clip low high xs, rat_zcross h fs h0 xs, (rat_unwrap md step hs xs).1, (rat_maverage size hz zero xs).1,
    (rat_accumulate xs).1, rat_amdf lag size hz zero xs⟩

end source

/-! ### the call layer: omitted parameters, `None`, strategy defaults (`ALV.Model.C20Call`)

A call may leave parameters out.  The `…Call` models fill them in from the documented table
(`ALV.C20.documented`, `Dflt.*`); the table is compared with the source signatures below. -/
section calls
variable {K : Type} [Field K] [LinearOrder K] [IsStrictOrderedRing K]

/-- **C20.9a** the signatures read from the source (translator `harness/props/c20_sig.py` →
`ALV.Gen.C20Defaults`) have the documented parameter names, order and default VALUES, and the
strategy dictionaries the documented strategies, aliases and registration order (first = default). -/
theorem source_signatures_are_documented :
    Gen.C20Defaults.signatures.map (Sig.values piQ) = R.documentedValues ∧
    Gen.C20Defaults.strategies = documentedStrategies := by
  decide +kernel

/-- the strategy names of the model are the documented ones; the first group is the default -/
theorem strategy_names_documented :
    (documentedStrategies.map fun d => (d.1, d.2.map fun g => g.map fun n =>
      (MavgStrategy.ofName n).isSome || (AccStrategy.ofName n).isSome || (EnvStrategy.ofName n).isSome)) =
      [("envelope", [[true], [true], [true]]), ("maverage", [[true], [true, true], [true]]),
       ("accumulate", [[true, true], [true, true], [true]])] ∧
    EnvStrategy.ofName "rms" = some EnvStrategy.dflt ∧ MavgStrategy.ofName "deque" = some MavgStrategy.dflt ∧
    AccStrategy.ofName "accumulate" = some AccStrategy.dflt ∧
    MavgStrategy.ofName "feedback" = MavgStrategy.ofName "recursive" ∧
    AccStrategy.ofName "itertools" = AccStrategy.ofName "accumulate" ∧
    AccStrategy.ofName "pure_python" = AccStrategy.ofName "func" := by
  decide

omit [IsStrictOrderedRing K] in
/-- **C20.9b** `unwrap` called with numbers for the parameters that are given: every omitted
parameter takes ITS OWN documented default — `max_delta = π` whatever `step` is, `step = 2π`
whatever `max_delta` is. -/
theorem unwrapCall_eq (fl : K → K) (pi : K) (md step : Option K) (xs : List K) :
    unwrapCall fl pi (md.map some) (step.map some) xs =
      .ok (unwrap fl (md.getD pi) (step.getD (2 * pi)) xs) := by
  cases md <;> cases step <;>
    simp [unwrapCall, Arg.resolve, DExpr.eval, Dflt.unwrap_max_delta, Dflt.unwrap_step]

/-- **C20.9c** `unwrap(sig, step=s)`: a sequence with no adjacent jump above π is left untouched,
for every step (the threshold of a call that omits `max_delta` does not follow the step). -/
theorem unwrapCall_step_only_identity (fl : K → K) (pi : K) (step : Option K) (xs : List K)
    (h : AdjAll (fun a b => ¬ |b - a| > pi) xs) :
    unwrapCall fl pi none (step.map some) xs = .ok xs := by
  have := unwrapCall_eq fl pi none step xs
  simp only [Option.map_none, Option.getD_none] at this
  rw [this, unwrap_identity fl pi _ xs h]

/-- **C20.9d** the three clauses of the property for a call with omitted parameters: outputs differ
from inputs by multiples of the effective step, and no adjacent output jump exceeds
`max(effective max_delta, effective step / 2)`. -/
theorem unwrapCall_clauses (fl : K → K) (hf : IsFloor fl) (pi : K) (md step : Option K)
    (hs : 0 < step.getD (2 * pi)) (xs : List K) :
    ∃ ys, unwrapCall fl pi (md.map some) (step.map some) xs = .ok ys ∧ ys.length = xs.length ∧
      (∀ n, n < xs.length → ∃ k : ℤ, ys.getD n 0 = xs.getD n 0 + (k : K) * step.getD (2 * pi)) ∧
      AdjAll (fun y0 y1 => |y1 - y0| ≤ max (md.getD pi) (step.getD (2 * pi) / 2)) ys := by
  refine ⟨_, unwrapCall_eq fl pi md step xs, ?_, ?_, ?_⟩
  · exact (unwrap_step_multiples fl hf _ _ hs xs).1
  · exact (unwrap_step_multiples fl hf _ _ hs xs).2
  · exact unwrap_adjacent_jump fl hf _ _ hs xs

/-- **C20.9e** `None` for a numeric parameter of `unwrap` is a TypeError as soon as the parameter is
used: `max_delta=None` on any input of two samples, `step=None` at the first jump above `max_delta`
(and only then: otherwise the input comes back). -/
theorem unwrapCall_none (fl : K → K) (pi md : K) (step : Arg K) (xs : List K) :
    (unwrapCall fl pi (some none) step xs = if xs.length ≤ 1 then .ok xs else .error "TypeError") ∧
    (AdjAll (fun a b => ¬ |b - a| > md) xs → unwrapCall fl pi (some (some md)) (some none) xs = .ok xs) ∧
    (¬ AdjAll (fun a b => ¬ |b - a| > md) xs →
      unwrapCall fl pi (some (some md)) (some none) xs = .error "TypeError") := by
  refine ⟨by simp [unwrapCall, Arg.resolve], ?_, ?_⟩
  · intro h
    have := (hasJumpAbove_false_iff md xs).mpr h
    simp [unwrapCall, Arg.resolve, this]
  · intro h
    have : hasJumpAbove md xs = true := by
      by_contra c
      exact h ((hasJumpAbove_false_iff md xs).mp (by simpa using c))
    simp [unwrapCall, Arg.resolve, this]

/-- **C20.9f** below half a step the threshold does not matter: `unwrap` gives the same output for
all `max_delta` values in `[md, md']` when `md' < step/2` (a jump of magnitude below `step/2` is its
own nearest residue).  This is why a default of `max_delta` only shows for `step < 2·max_delta`. -/
theorem unwrap_max_delta_irrelevant_below_half_step (fl : K → K) (hf : IsFloor fl) (md md' step : K)
    (hs : 0 < step) (h1 : md ≤ md') (h2 : md' < step / 2) (xs : List K) :
    unwrap fl md step xs = unwrap fl md' step xs := by
  rw [unwrap_eq_spec fl hf md step hs, unwrap_eq_spec fl hf md' step hs,
    unwrapSpec_md_irrelevant fl hf md md' step hs h1 h2]

/-- **C20.10a** `clip` with omitted limits: `low = -1`, `high = 1`, each on its own. -/
theorem clipCall_eq (low high : Arg K) (xs : List K) :
    clipCall low high xs = clip (low.getD (some (-1))) (high.getD (some 1)) xs := by
  simp [clipCall, Arg.resolve, DExpr.eval, Dflt.clip_low, Dflt.clip_high]

/-- **C20.10b** `clip(sig)` never fails and clamps every sample into `[-1, 1]`; a call giving one
limit keeps the default of the other (so `clip(sig, low=2)` and `clip(sig, high=-2)` are errors). -/
theorem clipCall_defaults (xs : List K) (v : K) :
    clipCall none none xs = .ok (xs.map (clip1 (some (-1)) (some 1))) ∧
    ((∃ e, clipCall (some (some v)) none xs = .error e) ↔ 1 < v) ∧
    ((∃ e, clipCall none (some (some v)) xs = .error e) ↔ v < -1) := by
  refine ⟨?_, ?_, ?_⟩
  · rw [clipCall_eq, clip_eq_spec]
    have : ¬ (1 : K) < -1 := by norm_num
    simp [clipSpec, this]
  · rw [clipCall_eq, clip_error_iff]; simp
  · rw [clipCall_eq, clip_error_iff]; simp

omit [Field K] [IsStrictOrderedRing K] in
/-- **C20.10c** a limit strictly beyond every sample (`-inf` / `inf`) acts as `None`. -/
theorem clip_limit_beyond_samples (lo hi : K) (low high : Option K) (xs : List K) :
    ((∀ h, high = some h → ¬ h < lo) → (∀ x ∈ xs, lo < x) → clip (some lo) high xs = clip none high xs) ∧
    ((∀ l, low = some l → ¬ hi < l) → (∀ x ∈ xs, x < hi) → clip low (some hi) xs = clip low none xs) :=
  ⟨clip_low_beyond lo high xs, clip_high_beyond low hi xs⟩

omit [IsStrictOrderedRing K] in
/-- **C20.11a** `zcross` with omitted parameters: `hysteresis = 0`, `first_sign = 0`, each on its
own; `None` for either is a TypeError. -/
theorem zcrossCall_eq (h fs : Option K) (xs : List K) :
    zcrossCall (h.map some) (fs.map some) xs = .ok (zcross (h.getD 0) (fs.getD 0) xs) ∧
    zcrossCall (some none) (fs.map some) xs = .error "TypeError" ∧
    zcrossCall (h.map some) (some none) xs = .error "TypeError" := by
  cases h <;> cases fs <;>
    simp [zcrossCall, Arg.resolve, DExpr.eval, Dflt.zcross_hysteresis, Dflt.zcross_first_sign]

/-- **C20.11b** `zcross(seq)` marks exactly the strict sign changes (zeros keep the sign). -/
theorem zcrossCall_default_spec (xs : List K) :
    zcrossCall (none : Arg K) none xs = .ok (zcrossSpec 0 0 xs) := by
  have := (zcrossCall_eq (none : Option K) none xs).1
  simp only [Option.map_none, Option.getD_none] at this
  rw [this, zcross_eq_spec 0 0 (le_refl 0)]

/-- **C20.11c** a hysteresis that no sample exceeds (`inf`): no crossing at all. -/
theorem zcross_all_inside (h fs : K) (xs : List K) (hx : ∀ x ∈ xs, |x| ≤ h) :
    zcross h fs xs = List.replicate xs.length 0 := by
  unfold zcross
  split
  · exact zphase1_all_inside h xs hx
  · exact zphase2_all_inside h _ (by unfold sgnPM; split <;> simp) xs hx

end calls

section calls2
variable {K : Type} [Field K] [CharZero K]

/-- **C20.12a** `maverage(size)` is the `deque` strategy; every strategy, with `zero` omitted
(memory `0`) or given, is the mean of the last `size` samples. -/
theorem maverageCall_eq_spec (s : Option MavgStrategy) (size : Nat) (hs : 0 < size) (zero : Option K)
    (xs : List K) :
    maverageCall s size zero xs = mavgSpec size (zero.getD 0) xs ∧
    maverageCall none size zero xs = maverageDeque size (zero.getD 0) xs := by
  have e : (zero.getD (dnum 0 Dflt.maverage_zero) : K) = zero.getD 0 := by
    cases zero <;> simp [dnum, DExpr.eval, Dflt.maverage_zero]
  constructor
  · unfold maverageCall
    simp only [e]
    cases s with
    | none => exact maverage_deque_eq_spec size hs _ xs
    | some s =>
      cases s
      · exact maverage_deque_eq_spec size hs _ xs
      · exact maverage_recursive_eq_spec size hs _ xs
      · exact maverage_fir_eq_spec size hs _ xs
  · simp [maverageCall, e, MavgStrategy.dflt]

omit [CharZero K] in
/-- **C20.12b** `accumulate(sig)` is the `itertools` strategy; every strategy (`z` with its memory
`zero` omitted = 0) gives the running sums. -/
theorem accumulateCall_eq_spec (s : Option AccStrategy) (xs : List K) :
    accumulateCall s none xs = accSpec xs ∧ accumulateCall none none xs = accumulateIt xs := by
  constructor
  · unfold accumulateCall
    cases s with
    | none => exact accumulate_it_eq_spec xs
    | some s =>
      cases s
      · exact accumulate_it_eq_spec xs
      · exact accumulate_func_eq_spec xs
      · have : (dnum 0 Dflt.filter_zero : K) = 0 := by simp [dnum, DExpr.eval, Dflt.filter_zero]
        simp only [Option.getD_none, this]
        exact accumulate_z_eq_spec xs
  · simp [accumulateCall, AccStrategy.dflt]

end calls2

section calls3
variable {K : Type} [Field K] [LinearOrder K] [IsStrictOrderedRing K]

/-- **C20.12c** `amdf(lag, size)(sig)` (memory `zero` omitted = 0) is the moving average of
`|x[n] − x[n−lag]|`, and its moving average is the dictionary default `maverage(size)`. -/
theorem amdfCall_eq_spec (lag size : Nat) (hs : 0 < size) (zero : Option K) (xs : List K) :
    amdfCall lag size zero xs = amdfSpec lag size (zero.getD 0) xs ∧
    amdfCall lag size zero xs =
      maverageCall none size (some (zero.getD 0)) ((frun (lagNum lag) [] (zero.getD 0) xs).map absG) := by
  have e : (zero.getD (dnum 0 Dflt.amdf_zero) : K) = zero.getD 0 := by
    cases zero <;> simp [dnum, DExpr.eval, Dflt.amdf_zero]
  constructor
  · unfold amdfCall; rw [e]; exact amdf_eq_spec lag size hs _ xs
  · simp [amdfCall, e, amdf, maverageCall, MavgStrategy.dflt]

/-- **C20.12d** `envelope(sig)` is the `rms` strategy with cutoff `π/512`: the square root of the
low-pass (design at `π/512`) of `x²`; `abs` / `squared` with the cutoff omitted use the same design. -/
theorem envelopeCall_default (design : K → List K × List K) (sqrt : K → K) (pi : K)
    (s : Option EnvStrategy) (xs : List K) :
    envelopeCall design sqrt pi none none xs =
      (frun (design (pi / 512)).1 (design (pi / 512)).2 0 (xs.map fun x => x ^ 2)).map sqrt ∧
    envelopeCall design sqrt pi s none xs = envelopeCall design sqrt pi s (some (pi / 512)) xs := by
  have e : (dnum pi Dflt.envelope_cutoff : K) = pi / 512 := by
    simp [dnum, DExpr.eval, Dflt.envelope_cutoff]
  constructor
  · simp only [envelopeCall, Option.getD_none, e, EnvStrategy.dflt]
    rw [(envelope_by_definition _ _ xs).2]
  · simp [envelopeCall, e]

end calls3

/-- the `Rat` call-layer terms the driver runs are instances of the theorems above (`π` = the
exact value of the double `math.pi`) -/
theorem rat_calls (md step h fs : Option Rat) (low high : Arg Rat) (xs : List Rat) :
    R.unwrapCall (md.map some) (step.map some) xs = .ok (R.unwrap (md.getD piQ) (step.getD (2 * piQ)) xs) ∧
    R.clipCall low high xs = R.clip (low.getD (some (-1))) (high.getD (some 1)) xs ∧
    R.zcrossCall (h.map some) (fs.map some) xs = .ok (R.zcross (h.getD 0) (fs.getD 0) xs) :=
  ⟨unwrapCall_eq R.fl piQ md step xs, clipCall_eq low high xs, (zcrossCall_eq h fs xs).1⟩

/-- every other `Rat` call-layer term the driver runs (`maverage_call`, `accumulate_call`, `amdf_call`,
`envelope`) is the generic definition at `Rat`, hence its defining formula — for EVERY memory value
`zero`, given or omitted: `maverage[s](size)(sig, zero)` is the mean of the last `size` samples of
the `zero`-extended input for every strategy and for the default `maverage(size)`; `amdf` likewise;
`accumulate.z(sig, zero=z)` gives `z +` the running sums. -/
theorem rat_calls_memory (s : Option MavgStrategy) (sa : Option AccStrategy) (size lag : Nat)
    (hs : 0 < size) (zero : Option Rat) (b a xs : List Rat) :
    R.maverageCall s size zero xs = maverageCall s size zero xs ∧
    R.maverageCall s size zero xs = R.mavgSpec size (zero.getD 0) xs ∧
    R.amdfCall lag size zero xs = amdfCall lag size zero xs ∧
    R.amdfCall lag size zero xs = R.amdfSpec lag size (zero.getD 0) xs ∧
    R.accumulateCall sa zero xs = accumulateCall sa zero xs ∧
    R.accumulateCall sa none xs = R.accSpec xs ∧
    R.accumulateCall (some .z) zero xs = (R.accSpec xs).map (zero.getD 0 + ·) ∧
    R.envelopeAbs b a xs = frun b a 0 (xs.map fun x => |x|) ∧
    R.envelopeSquared b a xs = frun b a 0 (xs.map fun x => x ^ 2) := by
  refine ⟨rfl, (maverageCall_eq_spec s size hs zero xs).1, rfl, (amdfCall_eq_spec lag size hs zero xs).1,
    rfl, (accumulateCall_eq_spec sa xs).1, ?_, (envelope_by_definition b a xs).1,
    (envelope_by_definition b a xs).2⟩
  have e : (zero.getD (dnum 0 Dflt.filter_zero) : Rat) = zero.getD 0 := by
    cases zero <;> simp [dnum, DExpr.eval, Dflt.filter_zero]
  show accumulateZ (zero.getD (dnum 0 Dflt.filter_zero)) xs = _
  rw [e]
  exact accumulate_z_memory _ xs

/-- **C20.7e** `unwrap` on EXACT inputs is exact: over ℚ (Fraction / int samples, any step > 0 —
denominators that are no power of two, jumps beyond 2⁵³) every output differs from its input by an
integer multiple of `step`, with no tolerance; and the outputs are the cumulative-correction spec. -/
theorem rat_unwrap_exact (md step : Rat) (hs : 0 < step) (xs : List Rat) :
    (R.unwrap md step xs).length = xs.length ∧
    (∀ n, n < xs.length → ∃ k : ℤ, (R.unwrap md step xs).getD n 0 = xs.getD n 0 + (k : Rat) * step) ∧
    R.unwrap md step xs = R.unwrapSpecRec md step xs :=
  ⟨(unwrap_step_multiples R.fl ratFloor_isFloor md step hs xs).1,
   (unwrap_step_multiples R.fl ratFloor_isFloor md step hs xs).2,
   (unwrap_eq_spec R.fl ratFloor_isFloor md step hs xs).trans (unwrapSpecRec_eq_spec R.fl md step xs).symm⟩

/-- the `Float` terms the driver runs (binary floats right at π; the envelope) are the SAME generic
definitions the theorems are about, instantiated at `Float` with `Float.floor`, the double `math.pi`,
`Float.sqrt` and the C13 design evaluated in doubles. -/
theorem float_calls (md step low high : Arg Float) (s : Option EnvStrategy) (cutoff : Option Float)
    (b a xs : List Float) :
    F.unwrapCall md step xs = unwrapCall Float.floor floatPi md step xs ∧
    F.clipCall low high xs = clipCall low high xs ∧
    F.envelopePoleCall s cutoff xs = envelopePoleCall s cutoff xs ∧
    F.envelopePoleCall s cutoff xs =
      envelopeCall (fun c => ((C13.lowpass .pole c).num, (C13.lowpass .pole c).den.drop 1)) Float.sqrt floatPi
        s cutoff xs ∧
    F.envelopeSpec s cutoff xs = envelopeSpec s cutoff xs ∧
    F.envelopeVarCall s a xs = envelopeVarCall s a xs ∧ F.envelopeVarSpec s a xs = envelopeVarSpec s a xs ∧
    F.envelopeAbs b a xs = envelopeAbs b a xs ∧ F.envelopeSquared b a xs = envelopeSquared b a xs :=
  ⟨rfl, rfl, rfl, rfl, rfl, rfl, rfl, rfl, rfl⟩

/-! ### causality: the first `n` outputs depend on the first `n` inputs only

An endless input is read through `take` / `islice`; the model is given the samples that were read.
These theorems say that this loses nothing: every tool maps a prefix of the input to the same
prefix of the output (for all parameters, with no order or field hypothesis at all). -/
section causal
variable {K : Type} [Field K] [LinearOrder K]

/-- **C20.13** every tool is causal. -/
theorem tools_are_causal (size lag : Nat) (zero h fs md step : K) (fl : K → K) (b a : List K)
    (low high : Option K) (xs ys : List K) :
    (maverageDeque size zero (xs ++ ys)).take xs.length = maverageDeque size zero xs ∧
    (maverageRecursive size zero (xs ++ ys)).take xs.length = maverageRecursive size zero xs ∧
    (maverageFir size zero (xs ++ ys)).take xs.length = maverageFir size zero xs ∧
    (accumulateFunc (xs ++ ys)).take xs.length = accumulateFunc xs ∧
    (accumulateZ zero (xs ++ ys)).take xs.length = accumulateZ zero xs ∧
    (amdf lag size zero (xs ++ ys)).take xs.length = amdf lag size zero xs ∧
    (envelopeAbs b a (xs ++ ys)).take xs.length = envelopeAbs b a xs ∧
    (envelopeSquared b a (xs ++ ys)).take xs.length = envelopeSquared b a xs ∧
    (zcross h fs (xs ++ ys)).take xs.length = zcross h fs xs ∧
    (unwrap fl md step (xs ++ ys)).take xs.length = unwrap fl md step xs ∧
    (∀ zs, clip low high (xs ++ ys) = .ok zs → clip low high xs = .ok (zs.take xs.length)) :=
  ⟨maverageDeque_prefix size zero xs ys, frun_prefix _ _ zero xs ys, frun_prefix _ _ zero xs ys,
   accumulateFunc_prefix xs ys, frun_prefix _ _ zero xs ys, amdf_prefix lag size zero xs ys,
   (envelope_prefix b a xs ys).1, (envelope_prefix b a xs ys).2, zcross_prefix h fs xs ys,
   unwrap_prefix fl md step xs ys, fun zs => clip_prefix low high xs ys zs⟩

end causal

/-! ### non-vacuity -/
example : (0 < 4) ∧ maverageDeque 2 (0 : Rat) [1, 3, 5] = [1/2, 2, 4] := by decide +kernel
example : amdf 2 2 (0 : Rat) [1, 3, -2, 5] = [1/2, 2, 3, 5/2] := by decide +kernel
example : clip (some (0 : Int)) (some 2) [-1, 1, 3] = .ok [0, 1, 2] := by decide
example : ∃ e, clip (some (2 : Int)) (some 0) [1] = .error e := ⟨_, rfl⟩
example : (0 : Rat) ≤ 1 ∧ zcross (1 : Rat) 0 [1/2, 2, -1/2, -3, 5] = [0, 0, 0, 1, 1] := by decide +kernel
example : (0 : Rat) < 2 ∧
    R.unwrap 1 2 [1, 3/2, -2, 5/4, 7] = [1, 3/2, 2, 5/4, 1] := by
  decide +kernel
example : (0 < 2) ∧ mavgSpecRec 2 (0 : Rat) [1, 3, 5] = [1/2, 2, 4] ∧ accSpecRec [(1 : Rat), 2, 3] = [1, 3, 6] ∧
    zcrossSpecRec (1 : Rat) 0 [1/2, 2, -1/2, -3, 5] = [0, 0, 0, 1, 1] ∧
    R.unwrapSpecRec 1 2 [1, 3/2, -2, 5/4, 7] = [1, 3/2, 2, 5/4, 1] := by decide +kernel
example : AdjAll (fun a b : Rat => ¬ |b - a| > 1) [0, 1, 1/2] := by
  simp only [AdjAll]; norm_num

example : R.unwrapCall none (some (some 1)) [0, 2, 4, 1, 3, 3, 0] = .ok [0, 2, 4, 1, 3, 3, 0] ∧
    R.unwrapCall (some (some (1/2))) (some (some 1)) [0, 2, 4, 1, 3, 3, 0] = .ok [0, 0, 0, 0, 0, 0, 0] ∧
    AdjAll (fun a b : Rat => ¬ |b - a| > piQ) [0, 2, 4, 1, 3, 3, 0] := by
  refine ⟨by decide +kernel, by decide +kernel, ?_⟩
  simp only [AdjAll, piQ]; norm_num
example : R.clipCall none none [-3, 1/2, 2] = .ok [-1, 1/2, 1] ∧
    R.clipCall (some (some 2)) none [0] = .error "ValueError" ∧
    R.clipCall (some none) none [-3, 2] = .ok [-3, 1] := by decide +kernel
example : R.zcrossCall none none [1, 0, -1, -2, 3] = .ok [0, 0, 1, 0, 1] ∧
    R.zcrossCall (some none) none [1] = .error "TypeError" := by decide +kernel
example : R.maverageCall none 2 none [1, 3, 5] = [1/2, 2, 4] ∧
    R.maverageCall (MavgStrategy.ofName "feedback") 2 (some 1) [1, 3, 5] = [1, 2, 4] ∧
    R.accumulateCall none none [1, 2, 3] = [1, 3, 6] ∧ R.amdfCall 1 2 none [1, 3, 0] = [1/2, 3/2, 5/2] := by
  decide +kernel
example : (0 : Rat) < 3 ∧ (1 : Rat) ≤ 5/4 ∧ (5/4 : Rat) < 3 / 2 ∧
    R.unwrap 1 3 [0, 6/5, 5, 4] = R.unwrap (5/4) 3 [0, 6/5, 5, 4] := by decide +kernel
example : (R.unwrap 1 2 ([1, 3/2, -2] ++ [5/4, 7])).take 3 = R.unwrap 1 2 [1, 3/2, -2] ∧
    (R.zcross 1 0 ([1/2, 2] ++ [-1/2, -3, 5])).take 2 = R.zcross 1 0 [1/2, 2] := by decide +kernel

/- non-zero memory: every strategy starts from a window full of `zero = 2` -/
example : (0 < 3) ∧ R.maverageCall none 3 (some 2) [2, 2, 5] = [2, 2, 3] ∧
    R.maverageCall (some .recursive) 3 (some 2) [2, 2, 5] = [2, 2, 3] ∧
    R.maverageCall (some .fir) 3 (some 2) [2, 2, 5] = [2, 2, 3] ∧
    R.amdfCall 1 2 (some 2) [2, 5] = [1, 3/2] ∧
    R.accumulateCall (some .z) (some 2) [1, 2, 3] = [3, 5, 8] := by decide +kernel
/- exact unwrap: a step with denominator 3, a jump beyond 2^53 -/
example : (0 : Rat) < 1/3 ∧ R.unwrap (1/7) (1/3) [0, 5/7, 1/2] = [0, 1/21, 1/6] ∧
    R.unwrap 1 3 [0, 2^60 + 1, 2^60 + 2] = [0, -1, 0] := by decide +kernel
/- the envelope hypotheses: the default cutoff lies in (0, π) -/
example : (0 : ℝ) < Real.pi / 512 ∧ Real.pi / 512 < Real.pi :=
  ⟨by positivity, by have := Real.pi_pos; linarith⟩
example : onePoleFrom (1 - 1/2 : Rat) (1/2) 0 [1, 1, 1] = [1/2, 3/4, 7/8] := by decide +kernel
example : ([1, -2] : List ℝ).length ≤ 3 := by simp

end ALV.Props.C20

#write_audit "C20"
